(* Theorems about the model of MachineModel.is_compatible and the replace filters (wf/IsCompat.v). *)
From Coq Require Import List Bool Arith Lia.
Import ListNotations.
From BQ Require Import wf.IsCompat.

Lemma existsb_negb : forall (A : Type) (f : A -> bool) l, existsb (fun x => negb (f x)) l = negb (forallb f l).
Proof. induction l as [|a l IH]; simpl; [reflexivity|]. rewrite IH. destruct (f a); reflexivity. Qed.

Lemma forallb_ext_in : forall (A : Type) (f g : A -> bool) l,
  (forall x, In x l -> f x = g x) -> forallb f l = forallb g l.
Proof.
  induction l as [|a l IH]; simpl; intros H; [reflexivity|].
  rewrite (H a), IH; auto.
Qed.

Lemma existsb_ext_all : forall (A : Type) (f g : A -> bool) l, (forall x, f x = g x) -> existsb f l = existsb g l.
Proof. induction l as [|a l IH]; simpl; intros H; [reflexivity|]. rewrite H, IH; auto. Qed.

(* raw membership in the normalised edge set = symmetric membership, PROVIDED the pair is given in order *)
Lemma raw_mem_norm_le : forall es x y, x <= y ->
  raw_mem x y (edges_norm es) =
  existsb (fun e => ((fst e =? x) && (snd e =? y)) || ((fst e =? y) && (snd e =? x))) es.
Proof.
  intros es x y Hxy. unfold raw_mem, edges_norm. induction es as [|[a b] es IH]; simpl; [reflexivity|].
  rewrite IH. f_equal. destruct (a <=? b) eqn:E; simpl.
  - apply Nat.leb_le in E.
    destruct (Nat.eqb_spec a x), (Nat.eqb_spec b y), (Nat.eqb_spec a y), (Nat.eqb_spec b x); simpl; try reflexivity; lia.
  - apply Nat.leb_gt in E.
    destruct (Nat.eqb_spec a x), (Nat.eqb_spec b y), (Nat.eqb_spec a y), (Nat.eqb_spec b x); simpl; try reflexivity; lia.
Qed.

(* ... and it is ALWAYS false for a pair given in decreasing order: the defect behind
   C02_is_compatible_placement_refuted *)
Lemma raw_mem_norm_gt : forall es x y, y < x -> raw_mem x y (edges_norm es) = false.
Proof.
  intros es x y Hxy. unfold raw_mem, edges_norm. induction es as [|[a b] es IH]; simpl; [reflexivity|].
  rewrite IH, orb_false_r. destruct (a <=? b) eqn:E; simpl.
  - apply Nat.leb_le in E. destruct (Nat.eqb_spec a x), (Nat.eqb_spec b y); simpl; try reflexivity; lia.
  - apply Nat.leb_gt in E. destruct (Nat.eqb_spec b x), (Nat.eqb_spec a y); simpl; try reflexivity; lia.
Qed.

Lemma sym_formula_comm : forall es x y,
  existsb (fun e : nat * nat => ((fst e =? x) && (snd e =? y)) || ((fst e =? y) && (snd e =? x))) es =
  existsb (fun e : nat * nat => ((fst e =? y) && (snd e =? x)) || ((fst e =? x) && (snd e =? y))) es.
Proof. intros. apply existsb_ext_all. intros e. apply orb_comm. Qed.

(* the edge in either orientation = symmetric membership in the given edge list, for EVERY pair *)
Lemma raw_either_coupled : forall m x y,
  raw_mem x y (edges_norm (medges m)) || raw_mem y x (edges_norm (medges m)) = coupled m x y.
Proof.
  intros m x y. unfold coupled. destruct (Nat.le_gt_cases x y) as [H|H].
  - rewrite (raw_mem_norm_le _ x y H). destruct (Nat.eq_dec x y) as [->|Hn].
    + rewrite (raw_mem_norm_le _ y y) by lia. apply orb_diag.
    + rewrite (raw_mem_norm_gt _ y x) by lia. apply orb_false_r.
  - rewrite (raw_mem_norm_gt _ x y H). simpl. rewrite (raw_mem_norm_le _ y x) by lia. apply sym_formula_comm.
Qed.

Theorem is_compatible_spec : forall m c opl b,
  is_compatible m c opl = Some b -> b = spec m c (placement_of c opl).
Proof.
  intros m c opl b H. unfold is_compatible in H. unfold spec.
  destruct (mn m <? cw c) eqn:E1.
  { injection H as <-. apply Nat.ltb_lt in E1. assert (E : (cw c <=? mn m) = false) by (apply Nat.leb_gt; lia).
    rewrite E. reflexivity. }
  apply Nat.ltb_ge in E1. assert (E : (cw c <=? mn m) = true) by (apply Nat.leb_le; lia). rewrite E. simpl.
  rewrite existsb_negb in H.
  destruct (forallb (fun o => gmem (og o) (mgates m)) (cops c)) eqn:E2; simpl in H.
  2:{ injection H as <-. reflexivity. }
  simpl. set (pl := placement_of c opl) in *.
  destruct (negb (wf_pl m c pl && wf_circ c)); [discriminate|].
  assert (EQ : existsb (fun e => negb (raw_mem (nth (fst e) pl 0) (nth (snd e) pl 0) (edges_norm (medges m)))
                              && negb (raw_mem (nth (snd e) pl 0) (nth (fst e) pl 0) (edges_norm (medges m))))
                       (circ_edges c)
             = negb (forallb (fun e => coupled m (nth (fst e) pl 0) (nth (snd e) pl 0)) (circ_edges c))).
  { rewrite <- existsb_negb. apply existsb_ext_all. intros e. rewrite <- negb_orb, raw_either_coupled. reflexivity. }
  rewrite EQ in H.
  destruct (forallb (fun e => coupled m (nth (fst e) pl 0) (nth (snd e) pl 0)) (circ_edges c)); simpl in *.
  2:{ injection H as <-. reflexivity. }
  rewrite existsb_negb in H.
  destruct (forallb (fun ir => snd ir =? nth (nth (fst ir) pl 0) (mrad m) 0) (combine (seq 0 (cw c)) (crad c)));
    simpl in *; injection H as <-; reflexivity.
Qed.

(* identity placement (placement = None, what compile()'s callers use on the returned circuit) is monotone *)
Lemma loc_pairs_ordered : forall l e, In e (loc_pairs l) -> fst e <= snd e.
Proof.
  intros l e H. unfold loc_pairs in H. apply in_flat_map in H. destruct H as [q1 [_ H]].
  apply in_flat_map in H. destruct H as [q2 [_ H]]. destruct (q1 =? q2); [contradiction|].
  destruct H as [<-|[]]. simpl. lia.
Qed.

Lemma monotone_identity : forall c, wf_circ c = true -> monotone_on c (seq 0 (cw c)) = true.
Proof.
  intros c Hwf. unfold monotone_on. apply forallb_forall. intros e He. apply Nat.leb_le.
  unfold circ_edges in He. apply in_flat_map in He. destruct He as [o [Ho He]].
  pose proof (loc_pairs_ordered _ _ He) as Hle.
  unfold wf_circ in Hwf. apply andb_prop in Hwf. destruct Hwf as [Hwf _]. rewrite forallb_forall in Hwf.
  specialize (Hwf _ Ho). rewrite forallb_forall in Hwf.
  assert (Hin : forall q, In q [fst e; snd e] -> q < cw c).
  { intros q Hq. apply Nat.ltb_lt. apply Hwf. unfold loc_pairs in He. apply in_flat_map in He.
    destruct He as [q1 [H1 He]]. apply in_flat_map in He. destruct He as [q2 [H2 He]].
    destruct (q1 =? q2); [contradiction|]. destruct He as [<-|[]]. simpl in Hq.
    destruct Hq as [<-|[<-|[]]].
    - destruct (Nat.min_spec q1 q2) as [[_ ->]|[_ ->]]; auto.
    - destruct (Nat.max_spec q1 q2) as [[_ ->]|[_ ->]]; auto. }
  rewrite !seq_nth by (apply Hin; simpl; auto). simpl. exact Hle.
Qed.

Corollary is_compatible_spec_default : forall m c b,
  is_compatible m c None = Some b -> b = spec m c (seq 0 (cw c)).
Proof. intros m c b H. exact (is_compatible_spec m c None b H). Qed.

(* well-formed inputs always get an answer *)
Lemma is_compatible_total : forall m c opl,
  wf_pl m c (placement_of c opl) = true -> wf_circ c = true -> exists b, is_compatible m c opl = Some b.
Proof.
  intros m c opl H1 H2. unfold is_compatible. rewrite H1, H2. simpl.
  repeat match goal with |- context [if ?e then _ else _] => destruct e end; eauto.
Qed.

(* a valid placement that swaps two coupled qudits: answered False before repo commit cf72da2 (raw tuple against
   sorted pairs); the fixed code and the model agree with the independent check *)
Definition ex_model : mmodel := {| mn := 3; mgates := [0; 1]; medges := [(0, 1); (1, 2)]; mrad := [2; 2; 2] |}.
Definition ex_circ : circ := {| cw := 2; crad := [2; 2]; cops := [{| og := 0; oloc := [0; 1] |}] |}.
Lemma is_compatible_placement_example :
  is_compatible ex_model ex_circ (Some [1; 0]) = Some true /\ spec ex_model ex_circ [1; 0] = true
  /\ is_compatible ex_model ex_circ (Some [0; 2]) = Some false /\ spec ex_model ex_circ [0; 2] = false.
Proof. repeat split; reflexivity. Qed.

(* the same for _is_respecting at a location listed in decreasing order (False before repo commit 4f34095) *)
Lemma is_respecting_location_example :
  is_respecting ex_model ex_circ [1; 0] false = true /\ is_respecting ex_model ex_circ [0; 1] false = true
  /\ is_respecting ex_model ex_circ [0; 2] false = false /\ coupled ex_model 1 0 = true.
Proof. repeat split; reflexivity. Qed.

(* ---- placeholders (repo commit 3be8a2b, finding C02-F5 repaired) --------------------------------------------- *)
(* Before that commit is_compatible (the definition above, which knows no placeholders) was the code for every
   circuit: a barrier made it answer False although the circuit without the barrier is executable. *)
Lemma is_compatible_placeholder_old_refuted :
  let c := {| cw := 2; crad := [2; 2]; cops := [{| og := 0; oloc := [0; 1] |}; {| og := 9; oloc := [0; 1] |}] |} in
  is_compatible ex_model c None = Some false /\ spec ex_model (strip (Nat.eqb 9) c) [0; 1] = true
  /\ is_compatible_ph (Nat.eqb 9) ex_model c None = Some true.
Proof. repeat split; reflexivity. Qed.

Lemma existsb_filter_and : forall (A : Type) (p q : A -> bool) (l : list A),
  existsb q (filter p l) = existsb (fun x => p x && q x) l.
Proof.
  intros A p q l. induction l as [|x l IH]; simpl; [reflexivity|].
  destruct (p x); simpl; rewrite IH; reflexivity.
Qed.

Lemma filter_no_ph : forall (ph : nat -> bool) (l : list op),
  existsb (fun o => ph (og o)) l = false -> filter (fun o => negb (ph (og o))) l = l.
Proof.
  intros ph l. induction l as [|x l IH]; simpl; [reflexivity|].
  intros H. apply orb_false_iff in H. destruct H as [H1 H2]. rewrite H1. simpl. rewrite (IH H2). reflexivity.
Qed.

Lemma forallb_filter_weaken : forall (A : Type) (p q : A -> bool) (l : list A),
  forallb q l = true -> forallb q (filter p l) = true.
Proof.
  intros A p q l. induction l as [|x l IH]; simpl; [reflexivity|].
  intros H. apply andb_true_iff in H. destruct H as [H1 H2].
  destruct (p x); simpl; [rewrite H1; simpl|]; apply IH; exact H2.
Qed.

Lemma wf_circ_strip : forall ph c, wf_circ c = true -> wf_circ (strip ph c) = true.
Proof.
  intros ph c H. unfold wf_circ in *. apply andb_true_iff in H. destruct H as [H1 H2].
  simpl. rewrite H2. rewrite (forallb_filter_weaken _ _ _ _ H1). reflexivity.
Qed.

(* the placeholder-aware code is the placeholder-free code applied to the circuit without its placeholders *)
Theorem is_compatible_ph_strip : forall ph m c opl b,
  is_compatible_ph ph m c opl = Some b -> is_compatible m (strip ph c) opl = Some b.
Proof.
  intros ph m c opl b H. unfold is_compatible_ph in H. unfold is_compatible.
  change (cw (strip ph c)) with (cw c). change (crad (strip ph c)) with (crad c).
  change (placement_of (strip ph c) opl) with (placement_of c opl).
  destruct (mn m <? cw c); [exact H|].
  change (cops (strip ph c)) with (filter (fun o => negb (ph (og o))) (cops c)).
  rewrite existsb_filter_and.
  destruct (existsb (fun o => negb (ph (og o)) && negb (gmem (og o) (mgates m))) (cops c)); [exact H|].
  assert (Hpl : wf_pl m (strip ph c) (placement_of c opl) = wf_pl m c (placement_of c opl)) by reflexivity.
  rewrite Hpl.
  destruct (wf_pl m c (placement_of c opl)) eqn:Hwp; simpl in H |- *; [|discriminate H].
  destruct (wf_circ c) eqn:Hwc; simpl in H; [|discriminate H].
  rewrite (wf_circ_strip ph c Hwc). simpl.
  assert (He : (if existsb (fun o => ph (og o)) (cops c) then circ_edges (strip ph c) else circ_edges c)
               = circ_edges (strip ph c)).
  { destruct (existsb (fun o => ph (og o)) (cops c)) eqn:Hex; [reflexivity|].
    unfold circ_edges, strip. simpl. rewrite (filter_no_ph ph (cops c) Hex). reflexivity. }
  rewrite He in H. exact H.
Qed.

(* C02's statement for the repaired code: the verdict is the independent check of the three conditions on the
   circuit with its placeholders set aside, for every circuit, model, placement and placeholder set *)
Theorem is_compatible_ph_spec : forall ph m c opl b,
  is_compatible_ph ph m c opl = Some b -> b = spec m (strip ph c) (placement_of c opl).
Proof.
  intros ph m c opl b H. apply is_compatible_ph_strip in H.
  exact (is_compatible_spec m (strip ph c) opl b H).
Qed.

Lemma is_compatible_ph_total : forall ph m c opl,
  wf_pl m c (placement_of c opl) = true -> wf_circ c = true -> exists b, is_compatible_ph ph m c opl = Some b.
Proof.
  intros ph m c opl H1 H2. unfold is_compatible_ph. rewrite H1, H2. simpl.
  repeat match goal with |- context [if ?x then _ else _] => destruct x end; eexists; reflexivity.
Qed.

(* without placeholders nothing changed *)
Lemma is_compatible_ph_none : forall m c opl,
  is_compatible_ph (fun _ => false) m c opl = is_compatible m c opl.
Proof.
  intros m c opl. unfold is_compatible_ph, is_compatible.
  assert (H0 : existsb (fun o : op => false) (cops c) = false) by (induction (cops c); simpl; auto).
  rewrite H0. simpl. reflexivity.
Qed.

(* a 3-qudit barrier over an uncoupled pair and a measurement do not make a line-executable circuit incompatible;
   an uncoupled gate still does *)
Lemma is_compatible_ph_example :
  let ph := fun g => (g =? 8) || (g =? 9) in
  let ops := [{| og := 0; oloc := [0; 1] |}; {| og := 9; oloc := [0; 1; 2] |}; {| og := 8; oloc := [2] |}] in
  is_compatible_ph ph ex_model {| cw := 3; crad := [2; 2; 2]; cops := ops |} None = Some true
  /\ is_compatible_ph ph ex_model {| cw := 3; crad := [2; 2; 2]; cops := ops ++ [{| og := 0; oloc := [0; 2] |}] |} None = Some false
  /\ is_compatible_ph ph ex_model {| cw := 3; crad := [2; 2; 2]; cops := ops ++ [{| og := 0; oloc := [0; 2] |}] |} (Some [1; 0; 2]) = Some true.
Proof. repeat split; reflexivity. Qed.

(* ---- replace filters -------------------------------------------------------------------------------------- *)
Theorem replace_filter_sound : forall m fully new old loc fn,
  is_respecting m old loc fully = true ->
  lt_respecting m fully new (Some old) loc fn = true ->
  is_respecting m new loc fully = true.
Proof.
  intros m fully new old loc fn Ho H. unfold lt_respecting in H. rewrite Ho in H. simpl in H.
  destruct (is_respecting m new loc fully); [reflexivity | discriminate].
Qed.

Theorem replace_filter_forced : forall m fully new old loc fn,
  is_respecting m old loc fully = false -> lt_respecting m fully new (Some old) loc fn = true.
Proof. intros. unfold lt_respecting. rewrite H. reflexivity. Qed.

(* what "respecting" means, for every block and every location *)
Theorem is_respecting_spec : forall m b loc fully,
  is_respecting m b loc fully =
    forallb (fun o => (length (oloc o) <? 2) || gmem (og o) (mgates m)) (cops b)
    && (negb fully || forallb (fun o => (2 <=? length (oloc o)) || gmem (og o) (mgates m)) (cops b))
    && forallb (fun e => coupled m (nth (fst e) loc 0) (nth (snd e) loc 0)) (circ_edges b).
Proof.
  intros m b loc fully. unfold is_respecting.
  assert (E1 : existsb (fun o => (2 <=? length (oloc o)) && negb (gmem (og o) (mgates m))) (cops b)
             = negb (forallb (fun o => (length (oloc o) <? 2) || gmem (og o) (mgates m)) (cops b))).
  { rewrite <- existsb_negb. apply existsb_ext_all. intros o.
    destruct (Nat.leb_spec 2 (length (oloc o))), (Nat.ltb_spec (length (oloc o)) 2); simpl; try lia;
      destruct (gmem (og o) (mgates m)); reflexivity. }
  assert (E2 : existsb (fun o => (length (oloc o) <? 2) && negb (gmem (og o) (mgates m))) (cops b)
             = negb (forallb (fun o => (2 <=? length (oloc o)) || gmem (og o) (mgates m)) (cops b))).
  { rewrite <- existsb_negb. apply existsb_ext_all. intros o.
    destruct (Nat.leb_spec 2 (length (oloc o))), (Nat.ltb_spec (length (oloc o)) 2); simpl; try lia;
      destruct (gmem (og o) (mgates m)); reflexivity. }
  assert (EQ : existsb (fun e => negb (raw_mem (nth (fst e) loc 0) (nth (snd e) loc 0) (edges_norm (medges m)))
                              && negb (raw_mem (nth (snd e) loc 0) (nth (fst e) loc 0) (edges_norm (medges m))))
                       (circ_edges b)
             = negb (forallb (fun e => coupled m (nth (fst e) loc 0) (nth (snd e) loc 0)) (circ_edges b))).
  { rewrite <- existsb_negb. apply existsb_ext_all. intros e. rewrite <- negb_orb, raw_either_coupled. reflexivity. }
  rewrite E1, E2, EQ.
  set (A := forallb (fun o => (length (oloc o) <? 2) || gmem (og o) (mgates m)) (cops b)).
  set (B := forallb (fun o => (2 <=? length (oloc o)) || gmem (og o) (mgates m)) (cops b)).
  set (C := forallb (fun e => coupled m (nth (fst e) loc 0) (nth (snd e) loc 0)) (circ_edges b)).
  destruct A, fully, B, C; reflexivity.
Qed.
