(* Abstract semantics of a workflow tree over the finite state of State.v:
   - [pred_outs]: the set of truth values a predicate can take in an abstract state (read off the
     predicate's code; ChangePredicate / GateCountPredicate are free),
   - [wsem]: the (relational, big-step) abstract semantics; loops are the reflexive-transitive closure
     of the body, ForEachBlockPass runs the body on every admissible block state and recombines the
     results following the replace-filter code,
   - [exec]: the executable collecting semantics over SETS of states used by the reflective checker
     (loops: iterate to a post-fixed point within a fuel, and CHECK closure; None = give up).
   No proofs in this file (soundness: wf/AbsThm.v). *)
From Coq Require Import List Bool Arith.
Import ListNotations.
From BQ Require Import wf.WfAst wf.State wf.Contracts.

(* ---- predicates ---------------------------------------------------------------------------------- *)
Definition width_lt (w : wclass) (k : nat) : list bool :=
  match w with
  | W1 => [1 <? k] | W2 => [2 <? k] | W3 => [3 <? k]
  | W4 => if k <=? 4 then [false] else [true; false]
  | WAny => [true; false]
  end.

(* "every gate of circuit.gate_set ... is in the model": a barrier / reset placeholder or a CircuitGate
   is in gate_set too and is never in the model, so the test can fail although the tracked bit holds *)
Definition allin (s : astate) (v : bool) : list bool :=
  if v then (match dep s with D0 => if noph s then [true] else [true; false] | _ => [true; false] end)
  else [false].

Fixpoint pred_outs (c : config) (p : pred) (s : astate) : list bool :=
  match p with
  | PWidthLt k => width_lt (wd s) k
  | PMultiPhysical => allin s (mqn s)
  | PSinglePhysical => allin s (sqn s)
  | PPhysical => allin s (mqn s && sqn s && (cpl s || negb (cn_real s)))
  | PMany cc cm =>
      if cm && many_model c then [true]
      else if cc then (if nomany s then (if noph s then [false] else [false; true]) else [true])
      else [false]
  | PNoSQInModel => [nosq_model c]
  | PHasGeneralSQ => [has_gen c]
  | PZX => [zx_model c]
  | PAllConstSQ => [allconst c]
  | PChange | PGateCount => [true; false]
  | PNot q => map negb (pred_outs c q s)
  | PAnd q r => flat_map (fun a => map (andb a) (pred_outs c r s)) (pred_outs c q s)
  | POr q r => flat_map (fun a => map (orb a) (pred_outs c r s)) (pred_outs c q s)
  end.

Definition bmem (b : bool) (l : list bool) : bool := existsb (eqb b) l.
Definition may (c : config) (p : pred) (b : bool) (s : astate) : bool := bmem b (pred_outs c p s).

(* ---- ForEachBlockPass ------------------------------------------------------------------------------ *)
Definition opts_of (b : bool) : list bool := if b then [true] else [true; false].

Definition block_deps (s : astate) : list (depth * bool * bool) :=
  match dep s with
  | D0 | D1 => [(D0, false, false)]
  | D2 => [(D1, sqab s, mqab s)]
  | D3 => [(D0, false, false); (D1, sqab s, mqab s); (D2, sqab s, mqab s); (D3, sqab s, mqab s)]
  end.

Definition mk_block (s : astate) (m q p n : bool) (d : depth * bool * bool) (w : wclass) : astate :=
  let '(dd, a, b) := d in
  {| mqn := m; sqn := q; cpl := p; nomany := n; sem := true; tgt := true; dep := dd; sqab := a; mqab := b;
     ms := MNone; msbad := false; plid := true; fullw := true; cn := cn s; sv := SNone; wd := w;
     warned := false; noph := true; blk1 := false |}.

(* the abstract states a collected block of a circuit in state [s] can be in: a bit that holds of the whole
   circuit holds of every block; the block's PassData is fresh (own target, identity placement, sub-model
   with the connectivity of data.connectivity, nothing saved); its width is unknown unless the circuit
   itself has one qudit or all its blocks do *)
Definition block_inits (c : config) (s : astate) : sset :=
  sdedup
  (flat_map (fun m => flat_map (fun q => flat_map (fun p => flat_map (fun n =>
   map (fun d => norm c (mk_block s m q p n d (if blk1 s then W1 else match wd s with W1 => W1 | _ => WAny end))) (block_deps s))
   (opts_of (nomany s))) (opts_of (cpl s))) (opts_of (sqn s))) (opts_of (mqn s))).

(* _is_respecting(block, op.location, data.model, fully): verdicts it can return on a block in state [x]
   of a circuit in state [s].  The coupling test compares RAW circuit locations with data.model's graph:
   it is exact only when data.placement is the identity, vacuous when the connectivity is extracted. *)
Definition cpl_verdict (s x : astate) : list bool :=
  if negb (cn_real s) then [true] else if plid s then [cpl x] else [true; false].
Definition resp_verdicts (fully : bool) (s x : astate) : list bool :=
  let base := if mqn x && (negb fully || sqn x) then cpl_verdict s x else [false] in
  match dep x with D0 => base | _ => if bmem true base then [true; false] else [false] end.

(* every collected operation is a CircuitGate (for any other collected operation fn(new, old) is True) *)
Definition all_cg (s : astate) : bool := match dep s with D0 => false | _ => sqab s && mqab s end.
Definition has_cg (s : astate) : bool := match dep s with D0 => false | _ => true end.

Definition accept_ok (flt : rfilter) (s sb sb' : astate) : bool :=
  match flt with
  | RAlways | RLessThan _ => true
  | RRespecting fully _ =>
      negb (all_cg s) || bmem false (resp_verdicts fully s sb)
      || (bmem true (resp_verdicts fully s sb) && bmem true (resp_verdicts fully s sb'))
  end.
Definition reject_ok (flt : rfilter) (s sb sb' : astate) : bool :=
  match flt with
  | RAlways => false
  | RLessThan _ => has_cg s
  | RRespecting fully _ => has_cg s && bmem true (resp_verdicts fully s sb)
  end.

Definition brun := (astate * astate * bool)%type.     (* block before, block after the body, replaced? *)
Definition res_bit (g : astate -> bool) (r : brun) : bool :=
  let '(sb, sb', acc) := r in if acc then g sb' else g sb.
Definition run_ok (c : config) (flt : rfilter) (s : astate) (r : brun) : bool :=
  let '(sb, sb', acc) := r in
  smem sb (block_inits c s) && (if acc then accept_ok flt s sb sb' else reject_ok flt s sb sb').

(* the operations that are NOT inside a collected block satisfy bit g *)
Definition cover (g ab : astate -> bool) (s : astate) : bool :=
  g s || (match dep s with D0 => false | _ => ab s end).
(* value v of an "every operation satisfies" bit after the pass, given the conjunction R over the blocks *)
Definition bit_ok (v cov R : bool) : bool := if v then R else (negb R || negb cov).
Definition dep_ok (s : astate) (d : depth) : bool :=
  match dep s with D0 => (match d with D0 | D1 => true | _ => false end) | x => depth_beq x d end.

Definition fe_choice_ok (s : astate) (runs : list brun) (m q p n : bool) (d : depth) : bool :=
  bit_ok m (cover mqn mqab s) (forallb (res_bit mqn) runs)
  && bit_ok q (cover sqn sqab s) (forallb (res_bit sqn) runs)
  && bit_ok p (cover cpl mqab s) (forallb (res_bit cpl) runs)
  && bit_ok n (cover nomany mqab s) (forallb (res_bit nomany) runs)
  && dep_ok s d.

Definition fe_sem_of (s : astate) (runs : list brun) : bool :=
  sem s && forallb (fun r : brun => let '(_, sb', acc) := r in if acc then sem sb' else true) runs.
Definition fe_warned_of (s : astate) (runs : list brun) : bool :=
  warned s || existsb (fun r : brun => let '(_, sb', _) := r in warned sb') runs.

Definition fe_result (c : config) (s : astate) (m q p n se wa : bool) (d : depth) : astate :=
  let s1 := set_mqn m (set_sqn q (set_cpl p (set_nomany n (set_sem se (set_warned wa s))))) in
  let s2 := match dep s with D0 => set_blocks d false false false s1 | _ => s1 end in
  norm c (match ms s with MBack => set_msbad true s2 | _ => s2 end).

(* ---- relational semantics (with the number of error-introducing leaf executions along the run) ---- *)
Inductive iter_rel (step : astate -> astate -> nat -> Prop) (cont stop : astate -> bool)
  : astate -> astate -> nat -> Prop :=
| iter_done : forall s, stop s = true -> iter_rel step cont stop s s 0
| iter_more : forall s m s' k1 k2, cont s = true -> step s m k1 -> iter_rel step cont stop m s' k2 ->
    iter_rel step cont stop s s' (k1 + k2).

Fixpoint wsem (c : config) (w : pass) : astate -> astate -> nat -> Prop :=
  match w with
  | Skip => fun s s' k => s' = s /\ k = 0
  | Leaf l => fun s s' k => In s' (leaf_post c l s) /\ k = leaf_err l
  | Seq a b => fun s s' k => exists m k1 k2, wsem c a s m k1 /\ wsem c b m s' k2 /\ k = k1 + k2
  | IfThenElse p t e => fun s s' k =>
      (may c p true s = true /\ wsem c t s s' k) \/ (may c p false s = true /\ wsem c e s s' k)
  | While p b => iter_rel (wsem c b) (may c p true) (may c p false)
  | DoWhile p b => fun s s' k => exists m k1 k2,
      wsem c b s m k1 /\ iter_rel (wsem c b) (may c p true) (may c p false) m s' k2 /\ k = k1 + k2
  | ForEach flt _ _ body => fun s s' k =>
      exists (runs : list (brun * nat)) m q p n d,
        Forall (fun rk : brun * nat => let '((sb, sb', acc), kb) := rk in
                  run_ok c flt s (sb, sb', acc) = true /\ wsem c body sb sb' kb) runs
        /\ fe_choice_ok s (map fst runs) m q p n d = true
        /\ s' = fe_result c s m q p n (fe_sem_of s (map fst runs)) (fe_warned_of s (map fst runs)) d
        /\ k = list_max (map snd runs)
  | EmbedPerms _ _ _ _ => fun s s' k => s' = s /\ k = 0
  end.

(* ---- executable collecting semantics ----------------------------------------------------------------- *)
Fixpoint loop (f : sset -> option sset) (cont stop : astate -> bool) (n : nat) (R : sset) : option sset :=
  match n with
  | 0 => None
  | S n' =>
      match f (filter cont R) with
      | None => None
      | Some N => if ssubset N R then Some (filter stop R) else loop f cont stop n' (sunion N R)
      end
  end.

Definition fe_triples_on (f : sset -> option sset) (flt : rfilter) (s : astate) (L : list astate)
  : option (list brun) :=
  fold_right (fun (sb : astate) (acc : option (list brun)) =>
    match f [sb], acc with
    | Some F, Some T =>
        Some (flat_map (fun sb' : astate =>
               (if accept_ok flt s sb sb' then [(sb, sb', true)] else [])
               ++ (if reject_ok flt s sb sb' then [(sb, sb', false)] else [])) F ++ T)
    | _, _ => None
    end) (Some []) L.
Definition fe_triples (f : sset -> option sset) (c : config) (flt : rfilter) (s : astate) : option (list brun) :=
  fe_triples_on f flt s (block_inits c s).

(* the fields of the circuit-level state that block_inits / accept_ok / reject_ok read; everything else is
   canonicalised so that the block runs are computed once per key, not once per state *)
Definition fe_key (s : astate) : astate :=
  {| mqn := mqn s; sqn := sqn s; cpl := cpl s; nomany := nomany s; sem := true; tgt := true; dep := dep s;
     sqab := sqab s; mqab := mqab s; ms := MNone; msbad := false; plid := plid s; fullw := true; cn := cn s;
     sv := SNone; wd := (match wd s with W1 => W1 | _ => W4 end); warned := false; noph := true; blk1 := blk1 s |}.

Definition fe_table (f : sset -> option sset) (c : config) (flt : rfilter) (keys : sset)
  : option (list (astate * list brun)) :=
  fold_right (fun (k : astate) (acc : option (list (astate * list brun))) =>
    match fe_triples f c flt k, acc with
    | Some T, Some tb => Some ((k, T) :: tb)
    | _, _ => None
    end) (Some []) keys.

Fixpoint fe_lookup (k : astate) (tb : list (astate * list brun)) : option (list brun) :=
  match tb with
  | [] => None
  | (k', T) :: r => if astate_eqb k k' then Some T else fe_lookup k r
  end.

Definition bit_opts (cov : bool) (g : astate -> bool) (T : list brun) : list bool :=
  true :: (if negb cov || existsb (fun r => negb (res_bit g r)) T then [false] else []).
Definition dep_opts (s : astate) : list depth := match dep s with D0 => [D0; D1] | x => [x] end.

Definition fe_post (c : config) (s : astate) (T : list brun) : sset :=
  let ses := (if sem s then [true] else [])
             ++ (if negb (sem s) || existsb (fun r : brun => let '(_, sb', acc) := r in acc && negb (sem sb')) T
                 then [false] else []) in
  let was := (if warned s || existsb (fun r : brun => let '(_, sb', _) := r in warned sb') T then [true] else [])
             ++ (if warned s then [] else [false]) in
  sdedup
  (flat_map (fun m => flat_map (fun q => flat_map (fun p => flat_map (fun n =>
   flat_map (fun se => flat_map (fun wa => map (fun d => fe_result c s m q p n se wa d) (dep_opts s)) was) ses)
   (bit_opts (cover nomany mqab s) nomany T)) (bit_opts (cover cpl mqab s) cpl T))
   (bit_opts (cover sqn sqab s) sqn T)) (bit_opts (cover mqn mqab s) mqn T)).

Fixpoint exec (c : config) (fuel : nat) (w : pass) (X : sset) : option sset :=
  match w with
  | Skip => Some X
  | Leaf l => Some (sdedup (flat_map (leaf_post c l) X))
  | Seq a b => match exec c fuel a X with Some Y => exec c fuel b Y | None => None end
  | IfThenElse p t e =>
      match exec c fuel t (filter (may c p true) X), exec c fuel e (filter (may c p false) X) with
      | Some A, Some B => Some (sunion A B)
      | _, _ => None
      end
  | While p b => loop (exec c fuel b) (may c p true) (may c p false) fuel X
  | DoWhile p b =>
      match exec c fuel b X with
      | Some Y => loop (exec c fuel b) (may c p true) (may c p false) fuel Y
      | None => None
      end
  | ForEach flt _ _ body =>
      match fe_table (exec c fuel body) c flt (sdedup (map fe_key X)) with
      | None => None
      | Some tb =>
          fold_right (fun s acc =>
            match fe_lookup (fe_key s) tb, acc with
            | Some T, Some A => Some (sunion (fe_post c s T) A)
            | _, _ => None
            end) (Some []) X
      end
  | EmbedPerms _ _ _ _ => Some X
  end.

(* syntactic bound on the number of error-introducing leaf executions along any run (None: a loop
   repeats such a leaf, the count depends on the number of iterations) *)
Fixpoint err_bound (w : pass) : option nat :=
  match w with
  | Skip | EmbedPerms _ _ _ _ => Some 0
  | Leaf l => Some (leaf_err l)
  | Seq a b => match err_bound a, err_bound b with Some x, Some y => Some (x + y) | _, _ => None end
  | IfThenElse _ t e => match err_bound t, err_bound e with Some x, Some y => Some (Nat.max x y) | _, _ => None end
  | While _ b => match err_bound b with Some 0 => Some 0 | _ => None end
  | DoWhile _ b => match err_bound b with Some 0 => Some 0 | _ => None end
  | ForEach _ _ _ b => err_bound b
  end.
