(* C08 - ScanPartitioner model (part/Scan.v): whenever it returns, the result is a regrouping
   of the input (every operation exactly once, per-qudit timelines unchanged, every block at most
   block-size wide), for every scoring function and every replayed list of qudit groups. *)
From Coq Require Import List Arith Bool NArith ZArith Lia Permutation.
Import ListNotations.
From BQ Require Import lib.Trace part.PartSpec part.PartCheck part.Quick part.QuickLemmas part.QuickMerge
  part.QuickInv part.QuickThm part.Scan part.ScanCalc.

(* what a Circuit guarantees for operations_with_cycles (wf_input) + cycles are not negative *)
Definition scan_wf (nq : nat) (nc : Z) (c : list scop) : Prop :=
  wf_input nq nc c /\ (forall x, In x c -> (0 <= fst x)%Z).

(* ---------- generic list facts ---------- *)
Lemma filter_split_perm {A} (p p' r : A -> bool) l :
  (forall x, In x l -> p' x = p x || r x) -> (forall x, In x l -> p x && r x = false) ->
  Permutation (filter p' l) (filter p l ++ filter r l).
Proof. induction l as [|x l IH]; simpl; intros H1 H2; auto.
  assert (IH' : Permutation (filter p' l) (filter p l ++ filter r l)).
  { apply IH; intros; [apply H1|apply H2]; auto. }
  pose proof (H1 x (or_introl eq_refl)) as E1. pose proof (H2 x (or_introl eq_refl)) as E2.
  destruct (p x), (r x); simpl in *; try discriminate; rewrite E1.
  - simpl. apply perm_skip. exact IH'.
  - apply Permutation_cons_app. exact IH'.
  - exact IH'. Qed.

Lemma pq_map_filter q (f : scop -> bool) c :
  pq q (map snd (filter f c)) = map snd (filter (fun x => touch q x && f x) c).
Proof. induction c as [|x c IH]; [reflexivity|]. cbn [filter]. unfold touch at 1. destruct (f x).
  - rewrite andb_true_r. cbn [map]. rewrite pq_cons. destruct (memb q (oloc (snd x))); cbn [map]; rewrite IH; reflexivity.
  - rewrite andb_false_r. exact IH. Qed.

Lemma set_nthZ_length q v l : length (set_nthZ q v l) = length l.
Proof. revert q. induction l as [|x l IH]; intros [|q]; simpl; auto. Qed.

Lemma set_nthZ_same q v l : q < length l -> nth q (set_nthZ q v l) 0%Z = v.
Proof. revert q. induction l as [|x l IH]; intros [|q]; simpl; intros H; try lia; auto. apply IH. lia. Qed.

Lemma set_nthZ_other q q' v l : q <> q' -> nth q' (set_nthZ q v l) 0%Z = nth q' l 0%Z.
Proof. revert q q'. induction l as [|x l IH]; intros [|q] [|q']; simpl; intros H; auto; try congruence. Qed.

Lemma update_div_spec : forall (r : region) D nq,
  length D = nq -> NoDup (map rq r) -> (forall e, In e r -> rq e < nq) ->
  length (update_div D r) = nq /\
  (forall e, In e r -> dv (update_div D r) (rq e) = (rhi e + 1)%Z) /\
  (forall q, ~ In q (map rq r) -> dv (update_div D r) q = dv D q).
Proof. unfold update_div, dv. induction r as [|e r IH]; intros D nq HL Hnd Hlt; simpl.
  - split; auto. split; [intros ? []|auto].
  - inversion Hnd; subst.
    destruct (IH (set_nthZ (rq e) (rhi e + 1)%Z D) (length D)) as (I1 & I2 & I3); auto.
    { apply set_nthZ_length. } { intros; apply Hlt; right; auto. }
    split; [exact I1|]. split.
    + intros e' [<-|He'].
      * rewrite I3; auto. apply set_nthZ_same. apply Hlt. left; reflexivity.
      * apply I2. exact He'.
    + intros q Hq. rewrite I3; [|intros Hc; apply Hq; right; exact Hc].
      apply set_nthZ_other. intros E. apply Hq. left. exact E. Qed.

Lemma best_In score P r : best score P = Some r -> exists g ops, In (g, (r, ops)) P.
Proof. unfold best. destruct P as [|p t]; [discriminate|].
  set (pick := fun b x : pblock => if (score (snd (snd b)) <=? score (snd (snd x)))%N then x else b).
  intros H. injection H as H1.
  assert (G : forall (t : list pblock) p, In (fold_left pick t p) (p :: t)).
  { clear. induction t as [|x t IH]; intros p; simpl; auto.
    assert (pick p x = x \/ pick p x = p) as [-> | ->] by (unfold pick; destruct (_ <=? _)%N; auto).
    - destruct (IH x) as [E|Hin]; [right; left; exact E| right; right; exact Hin].
    - destruct (IH p) as [E|Hin]; [left; exact E| right; right; exact Hin]. }
  specialize (G t p). change (fst (snd (fold_left pick t p)) = r) in H1. destruct (fold_left pick t p) as [g [r' ops]]. simpl in H1. rewrite H1 in G. exists g, ops. exact G. Qed.

Lemma remap_spec k nc c D qs : forall P P',
  remap k nc c D qs P = inl P' ->
  forall g blk', In (g, blk') P' ->
  exists blk, In (g, blk) P /\
    (if intersects g qs then calc_block k nc c g (starts_of D g) = inl blk' else blk' = blk).
Proof. induction P as [|[g0 b0] P IH]; simpl; intros P' H g blk' Hin.
  - inversion H; subst. destruct Hin.
  - destruct (if intersects g0 qs then calc_block k nc c g0 (starts_of D g0) else inl b0) as [b1|] eqn:E1; [|discriminate].
    destruct (remap k nc c D qs P) as [t'|] eqn:E2; [|discriminate]. inversion H; subst; clear H.
    destruct Hin as [Hin|Hin].
    + inversion Hin; subst. exists b0. split; auto. destruct (intersects g qs); [exact E1| inversion E1; auto].
    + destruct (IH _ eq_refl _ _ Hin) as (blk & H1 & H2). exists blk. auto. Qed.

Section ScanProof.
Variables (score : list op -> N) (k nq : nat) (nc : Z) (c : list scop).
Hypothesis W : scan_wf nq nc c.

Let Hord : ordered c. Proof. apply W. Qed.
Let Hnc : forall x, In x c -> (fst x < nc)%Z. Proof. apply W. Qed.
Let Hne : forall x, In x c -> oloc (snd x) <> []. Proof. apply W. Qed.
Let Hlt : forall x, In x c -> forall q, In q (oloc (snd x)) -> q < nq. Proof. apply W. Qed.
Let Hpos : forall x, In x c -> (0 <= fst x)%Z. Proof. apply W. Qed.

Definition cut (D : list Z) : Prop :=
  forall x q q', In x c -> In q (oloc (snd x)) -> In q' (oloc (snd x)) -> (fst x < dv D q)%Z -> (fst x < dv D q')%Z.
Definition gok (g : list nat) : Prop := NoDup g /\ length g <= k /\ (forall q, In q g -> q < nq).
Definition leftb (D : list Z) (x : scop) : bool :=
  match oloc (snd x) with q :: _ => (fst x <? dv D q)%Z | [] => false end.

Definition linv (D : list Z) (P : list pblock) (R : list region) : Prop :=
  length D = nq /\ cut D /\
  (forall g blk, In (g, blk) P -> gok g /\ calc_block k nc c g (starts_of D g) = inl blk) /\
  Permutation (flat_map (body_of c) (rev R)) (map snd (filter (leftb D) c)) /\
  (forall q, pq q (flat_map (body_of c) (rev R)) = fq q (fun cy => (cy <? dv D q)%Z) c) /\
  (forall r, In r R -> exists g, gok g /\ forall x, In x c -> in_region r x = true -> incl (oloc (snd x)) g).

Lemma in_region_iff r x :
  in_region r x = true <-> exists e, In e r /\ In (rq e) (oloc (snd x)) /\ (rlo e <= fst x <= rhi e)%Z.
Proof. unfold in_region. rewrite existsb_exists. split.
  - intros (e & He & H). apply andb_true_iff in H as [H H3]. apply andb_true_iff in H as [H1 H2].
    apply memb_In in H1. exists e. repeat split; auto; lia.
  - intros (e & He & H1 & H2). exists e. split; auto. apply memb_In in H1. rewrite H1. simpl.
    apply andb_true_iff. split; lia. Qed.

(* one iteration of the while loop *)
Lemma step_inv D P R g r ops P' :
  linv D P R -> In (g, (r, ops)) P ->
  remap k nc c (update_div D r) (map rq r) P = inl P' ->
  linv (update_div D r) P' (r :: R).
Proof.
  intros (L1 & L2 & L3 & L4 & L5 & L6) Hin Hre.
  destruct (L3 _ _ Hin) as [[Gnd [Glen Glt]] Hcb].
  destruct (calc_block_closed k nc c g Hord Hnc D Gnd L2 r ops Hcb) as (C1 & C2 & C3).
  set (D' := update_div D r) in *.
  destruct (update_div_spec r D nq L1 C2) as (U1 & U2 & U3).
  { intros e He. apply Glt. apply C1. exact He. }
  fold D' in U1, U2, U3.
  assert (Hmono : forall q, (dv D q <= dv D' q)%Z).
  { intros q. destruct (in_dec Nat.eq_dec q (map rq r)) as [Hq|Hq].
    - apply in_map_iff in Hq as (e & <- & He). rewrite (U2 e He). destruct (C1 e He) as (_ & E & Hle). lia.
    - rewrite U3; auto. lia. }
  (* an operation in the region, seen from any of its qudits *)
  assert (Hreg : forall x q, In x c -> In q (oloc (snd x)) ->
            in_region r x = (dv D q <=? fst x)%Z && (fst x <=? dv D' q - 1)%Z).
  { intros x q Hx Hq. destruct (in_region r x) eqn:E.
    - symmetry. apply in_region_iff in E as (e & He & H1 & H2).
      destruct (C3 x Hx e He H1 H2 q Hq) as (e' & He' & <- & H3).
      rewrite (U2 e' He'). destruct (C1 e' He') as (_ & E' & _). rewrite <- E'. apply andb_true_iff. split; lia.
    - symmetry. apply not_true_is_false. intros H. apply andb_true_iff in H as [H1 H2].
      destruct (in_dec Nat.eq_dec q (map rq r)) as [Hin'|Hn].
      + apply in_map_iff in Hin' as (e & <- & He). rewrite (U2 e He) in H2. destruct (C1 e He) as (_ & E' & _).
        assert (in_region r x = true); [|congruence]. apply in_region_iff. exists e. repeat split; auto; lia.
      + rewrite U3 in H2; auto. lia. }
  split; [exact U1|]. split.
  { (* cut D' *)
    intros x q q' Hx Hq Hq' Hl.
    pose proof (Hreg x q Hx Hq) as R1. pose proof (Hreg x q' Hx Hq') as R2.
    destruct (Z_lt_le_dec (fst x) (dv D q)) as [Ha|Ha].
    - pose proof (L2 x q q' Hx Hq Hq' Ha). pose proof (Hmono q'). lia.
    - destruct (Z_lt_le_dec (fst x) (dv D q')) as [Hb|Hb]; [pose proof (Hmono q'); lia|].
      destruct (in_region r x); lia. }
  split.
  { intros g' blk' Hin'. destruct (remap_spec _ _ _ _ _ _ _ Hre _ _ Hin') as (blk & Hb & Hcase).
    destruct (L3 _ _ Hb) as [Hgok Hcb']. split; auto.
    destruct (intersects g' (map rq r)) eqn:I; auto. subst blk'.
    replace (starts_of D' g') with (starts_of D g'); auto. apply map_ext_in. intros q Hq. symmetry. apply U3.
    intros Hc. assert (intersects g' (map rq r) = true); [|congruence].
    apply existsb_exists. exists q. split; auto. apply memb_In. exact Hc. }
  assert (Hleft : forall x, In x c -> leftb D' x = leftb D x || in_region r x).
  { intros x Hx. unfold leftb. pose proof (Hne x Hx) as Hn. destruct (oloc (snd x)) as [|q l] eqn:El; [congruence|].
    rewrite (Hreg x q Hx); [|rewrite El; left; reflexivity]. pose proof (Hmono q). lia. }
  assert (Hexcl : forall x, In x c -> leftb D x && in_region r x = false).
  { intros x Hx. unfold leftb. pose proof (Hne x Hx) as Hn. destruct (oloc (snd x)) as [|q l] eqn:El; [congruence|].
    rewrite (Hreg x q Hx); [|rewrite El; left; reflexivity]. lia. }
  split.
  { simpl rev. rewrite flat_map_app. simpl. rewrite app_nil_r.
    eapply perm_trans; [apply Permutation_app_tail; exact L4|]. unfold body_of. rewrite <- map_app.
    apply Permutation_map. apply Permutation_sym. apply filter_split_perm; auto. }
  split.
  { intros q. simpl rev. rewrite flat_map_app. simpl. rewrite app_nil_r, pq_app, L5.
    unfold body_of. rewrite pq_map_filter.
    replace (map snd (filter (fun x => touch q x && in_region r x) c))
      with (fq q (fun cy => (dv D q <=? cy) && (cy <=? dv D' q - 1))%Z c).
    - rewrite fq_split_sorted; auto; [|pose proof (Hmono q); lia].
      apply fq_ext. intros x _ _. lia.
    - unfold fq. f_equal. apply filter_ext_in. intros x Hx. destruct (touch q x) eqn:T; auto. simpl.
      symmetry. apply Hreg; auto. apply memb_In. exact T. }
  intros r' [<-|Hr']; [|apply L6; exact Hr'].
  exists g. split; [split; auto|]. intros x Hx E q' Hq'.
  apply in_region_iff in E as (e & He & H1 & H2).
  destruct (C3 x Hx e He H1 H2 q' Hq') as (e' & He' & <- & _). apply C1. exact He'.
Qed.

Lemma loop_inv : forall fuel D P R Rs,
  linv D P R -> scan_loop score k nc c fuel D P R = inl Rs ->
  exists D' P' R', linv D' P' R' /\ all_done nc D' = true /\ Rs = rev R'.
Proof.
  induction fuel as [|f IH]; intros D P R Rs HI H; simpl in H.
  - destruct (all_done nc D) eqn:A; [|discriminate]. inversion H; subst. exists D, P, R. auto.
  - destruct (all_done nc D) eqn:A; [inversion H; subst; exists D, P, R; auto|].
    destruct (best score P) as [r|] eqn:B; [|discriminate].
    destruct r as [|e r]; [discriminate|].
    destruct (remap k nc c (update_div D (e :: r)) (map rq (e :: r)) P) as [P'|] eqn:Re; [|discriminate].
    destruct (best_In _ _ _ B) as (g & ops & Hin).
    apply (IH _ _ _ _ (step_inv _ _ _ _ _ _ _ HI Hin Re) H).
Qed.

(* ---------- fold_circuit ---------- *)
Lemma fold_all_spec : forall R o, fold_all nq c R = inl o ->
  o = map (fun r => mk_block nq (body_of c r)) R /\ (forall r, In r R -> body_of c r <> []).
Proof. induction R as [|r R IH]; simpl; intros o H.
  - inversion H; subst. split; [reflexivity|]. intros ? [].
  - unfold fold_region in H. destruct (body_of c r) as [|b0 bs] eqn:B; [discriminate|].
    destruct (fold_all nq c R) as [t|] eqn:F; [|discriminate]. inversion H; subst.
    destruct (IH _ eq_refl) as [-> Hn]. split; [reflexivity|]. intros r' [<-|Hr]; auto. rewrite B. discriminate. Qed.

Lemma unfold_blocks (R : list region) :
  unfold (map (fun r => mk_block nq (body_of c r)) R) = flat_map (body_of c) R.
Proof. induction R as [|r R IH]; simpl; auto. unfold unfold in *. simpl. rewrite IH. reflexivity. Qed.

Lemma mk_block_ok body :
  (forall o, In o body -> forall q, In q (oloc o) -> q < nq) ->
  (exists g, NoDup g /\ length g <= Nat.max k (widest body) /\ forall o, In o body -> incl (oloc o) g) ->
  block_ok k (mk_block nq body).
Proof. intros Hq (g & Hnd & Hlen & Hincl). unfold mk_block, block_ok.
  set (loc := filter (fun q => existsb (fun o => memb q (oloc o)) body) (seq 0 nq)).
  assert (Hloc : forall q, In q loc <-> q < nq /\ exists o, In o body /\ In q (oloc o)).
  { intros q. unfold loc. rewrite filter_In, in_seq, existsb_exists. split.
    - intros [H1 (o & Ho & Hm)]. apply memb_In in Hm. split; [lia|eauto].
    - intros [H1 (o & Ho & Hm)]. split; [lia|]. exists o. split; auto. apply memb_In. exact Hm. }
  assert (Hnd' : NoDup loc) by (apply NoDup_filter; apply seq_NoDup).
  split; [|split; auto].
  - assert (length loc <= length g); [|lia]. apply NoDup_incl_length; auto.
    intros q Hql. apply Hloc in Hql as [_ (o & Ho & Hm)]. apply (Hincl o Ho). exact Hm.
  - intros o Ho q Hm. apply Hloc. split; eauto. Qed.

End ScanProof.

(* ---------- groups ---------- *)
Lemma nats_eqb_refl a : nats_eqb a a = true.
Proof. induction a; simpl; auto. rewrite Nat.eqb_refl. exact IHa. Qed.

Lemma dedup_groups_In g : forall gs seen, In g (dedup_groups gs seen) <-> In g gs /\ ~ In g seen.
Proof. induction gs as [|a gs IH]; intros seen; simpl; [tauto|].
  destruct (existsb (nats_eqb a) seen) eqn:E.
  - apply existsb_exists in E as (b & Hb & Eb). apply nats_eqb_eq in Eb. subst b.
    rewrite IH. split; [tauto|]. intros [[<-|H] Hn]; [contradiction|auto].
  - assert (Ha : ~ In a seen).
    { intros Hc. assert (existsb (nats_eqb a) seen = true); [|congruence]. apply existsb_exists. exists a. split; auto. apply nats_eqb_refl. }
    simpl. rewrite IH. simpl. split.
    + intros [<-|[H1 H2]]; [split; auto|]. split; [right; exact H1|]. intros Hc. apply H2. right. exact Hc.
    + intros [[<-|H] Hn]; [left; reflexivity|]. destruct (list_eq_dec Nat.eq_dec a g) as [->|Hne]; [left; reflexivity|].
      right. split; [exact H|]. intros [Hc|Hc]; [exact (Hne Hc)| exact (Hn Hc)]. Qed.

Lemma initial_blocks_spec k nc c : forall gs P,
  initial_blocks k nc c gs = inl P ->
  forall g blk, In (g, blk) P -> In g gs /\ calc_block k nc c g (map (fun _ => 0%Z) g) = inl blk.
Proof. induction gs as [|g0 gs IH]; simpl; intros P H g blk Hin.
  - inversion H; subst. destruct Hin.
  - destruct (calc_block k nc c g0 _) as [b|] eqn:E; [|discriminate].
    destruct (initial_blocks k nc c gs) as [t|] eqn:F; [|discriminate]. inversion H; subst.
    destruct Hin as [Hin|Hin].
    + inversion Hin; subst. auto.
    + destruct (IH _ eq_refl _ _ Hin). auto. Qed.

Lemma filter_all {A} (f : A -> bool) l : (forall x, In x l -> f x = true) -> filter f l = l.
Proof. induction l as [|x l IH]; simpl; intros H; auto. rewrite (H x (or_introl eq_refl)). f_equal. apply IH. intros; apply H; auto. Qed.

Lemma filter_none {A} (f : A -> bool) l : (forall x, In x l -> f x = false) -> filter f l = [].
Proof. induction l as [|x l IH]; simpl; intros H; auto. rewrite (H x (or_introl eq_refl)). apply IH. intros; apply H; auto. Qed.

Lemma dv_map_seq (f : nat -> Z) nq q : q < nq -> dv (map f (seq 0 nq)) q = f q.
Proof. intros H. unfold dv. rewrite (nth_indep _ 0%Z (f 0)); [|rewrite map_length, seq_length; exact H].
  rewrite map_nth. rewrite seq_nth; auto. Qed.

Lemma group_okb_spec k nq g : group_okb k nq g = true -> NoDup g /\ length g <= k /\ (forall q, In q g -> q < nq).
Proof. unfold group_okb. intros H. apply andb_true_iff in H as [H H4]. apply andb_true_iff in H as [H H3].
  apply andb_true_iff in H as [_ H2]. split; [apply nodupb_NoDup; exact H2|]. split; [apply Nat.leb_le; exact H3|].
  intros q Hq. rewrite forallb_forall in H4. apply Nat.ltb_lt. apply H4. exact Hq. Qed.

(* ---------- the theorem ---------- *)
Theorem scan_regrouping score k nq nc c groups o :
  scan_wf nq nc c ->
  scan score k nq nc c groups = inl o ->
  regrouping k (map snd c) o /\ all_blocks o.
Proof.
  intros W H. pose proof W as [(Hord & Hnc & Hndl & Hne & Hlt) Hpos]. unfold scan in H.
  destruct (nq <? k) eqn:Ek.
  - (* whole-circuit fold *)
    destruct (nc <=? 0)%Z; [discriminate|]. inversion H; subst; clear H. split.
    + split; [|split].
      * constructor; [|constructor]. apply mk_block_ok.
        -- intros o Ho q Hq. apply in_map_iff in Ho as (x & <- & Hx). eapply Hlt; eauto.
        -- exists (seq 0 nq). split; [apply seq_NoDup|]. split; [rewrite seq_length; apply Nat.ltb_lt in Ek; lia|].
           intros o Ho q Hq. apply in_map_iff in Ho as (x & <- & Hx). apply in_seq. pose proof (Hlt x Hx q Hq). lia.
      * unfold unfold. simpl. rewrite app_nil_r. apply Permutation_refl.
      * intros q. unfold unfold. simpl. rewrite app_nil_r. reflexivity.
    + intros it [<-|[]]. unfold mk_block. eauto.
  - destruct (scan_regions score k nq nc c groups) as [Rs|] eqn:SR; [|discriminate].
    unfold scan_regions in SR. destruct (groups_okb k nq c groups) eqn:G; cbn [negb] in SR; [|discriminate].
    set (gs := dedup_groups groups []) in *.
    set (D0 := map (fun q => if existsb (memb q) gs then 0%Z else nc) (seq 0 nq)) in *.
    destruct (initial_blocks k nc c gs) as [P0|] eqn:IB; [|discriminate].
    unfold groups_okb in G. apply andb_true_iff in G as [G1 G2]. rewrite forallb_forall in G1, G2.
    assert (Hgs : forall g, In g gs <-> In g groups).
    { intros g. unfold gs. rewrite dedup_groups_In. simpl. tauto. }
    assert (Hin0 : forall g q, In g gs -> In q g -> q < nq /\ dv D0 q = 0%Z).
    { intros g q Hg Hq. destruct (group_okb_spec _ _ _ (G1 g (proj1 (Hgs g) Hg))) as (_ & _ & Hl).
      split; [auto|]. unfold D0. rewrite dv_map_seq; auto.
      assert (existsb (memb q) gs = true) as ->; auto. apply existsb_exists. exists g. split; auto. apply memb_In. exact Hq. }
    assert (Hop0 : forall x q, In x c -> In q (oloc (snd x)) -> dv D0 q = 0%Z).
    { intros x q Hx Hq. specialize (G2 x Hx). rewrite forallb_forall in G2. specialize (G2 q Hq).
      apply existsb_exists in G2 as (g & Hg & Hm). apply memb_In in Hm. apply (Hin0 g q); auto. apply Hgs. exact Hg. }
    assert (I0 : linv k nq nc c D0 P0 []).
    { split; [unfold D0; rewrite map_length, seq_length; reflexivity|]. split.
      { intros x q q' Hx Hq Hq' Hl. rewrite (Hop0 x q Hx Hq) in Hl. rewrite (Hop0 x q' Hx Hq'). exact Hl. }
      split.
      { intros g blk Hb. destruct (initial_blocks_spec _ _ _ _ _ IB _ _ Hb) as [Hg Hcb]. split.
        - apply group_okb_spec. apply G1. apply Hgs. exact Hg.
        - replace (starts_of D0 g) with (map (fun _ : nat => 0%Z) g); auto. apply map_ext_in. intros q Hq.
          symmetry. apply (Hin0 g q); auto. }
      split.
      { simpl. rewrite filter_none; [apply perm_nil|]. intros x Hx. unfold leftb.
        destruct (oloc (snd x)) as [|q l] eqn:El; auto. rewrite (Hop0 x q Hx); [|rewrite El; left; reflexivity].
        pose proof (Hpos x Hx). lia. }
      split.
      { intros q. simpl. symmetry. apply fq_none. intros x Hx T. apply memb_In in T. rewrite (Hop0 x q Hx T).
        pose proof (Hpos x Hx). lia. }
      intros ? []. }
    destruct (loop_inv score k nq nc c W _ _ _ _ _ I0 SR) as (D' & P' & R' & (L1 & L2 & L3 & L4 & L5 & L6) & Hdone & ->).
    destruct (fold_all_spec nq c _ _ H) as [-> Hnb].
    assert (Hfull : forall x q, In x c -> In q (oloc (snd x)) -> (fst x <? dv D' q)%Z = true).
    { intros x q Hx Hq. unfold all_done in Hdone. rewrite forallb_forall in Hdone.
      assert (In (dv D' q) D') by (apply nth_In; rewrite L1; eapply Hlt; eauto).
      specialize (Hdone _ H0). pose proof (Hnc x Hx). lia. }
    split.
    + split; [|split].
      * apply Forall_forall. intros it Hit. apply in_map_iff in Hit as (r & <- & Hr). apply in_rev in Hr.
        destruct (L6 r Hr) as (g & (Gnd & Glen & Glt) & Hincl). apply mk_block_ok.
        -- intros o Ho q Hq. unfold body_of in Ho. apply in_map_iff in Ho as (x & <- & Hx).
           apply filter_In in Hx as [Hx _]. eapply Hlt; eauto.
        -- exists g. split; auto. split; [lia|]. intros o Ho. unfold body_of in Ho. apply in_map_iff in Ho as (x & <- & Hx).
           apply filter_In in Hx as [Hx Hr']. apply Hincl; auto.
      * rewrite unfold_blocks. eapply perm_trans; [exact L4|]. rewrite filter_all; [apply Permutation_refl|].
        intros x Hx. unfold leftb. pose proof (Hne x Hx). destruct (oloc (snd x)) as [|q l] eqn:El; [congruence|].
        apply Hfull; auto. rewrite El. left; reflexivity.
      * intros q. rewrite unfold_blocks, L5, <- fq_all. apply fq_ext. intros x Hx T. apply memb_In in T. apply Hfull; auto.
    + intros it Hit. apply in_map_iff in Hit as (r & <- & _). unfold mk_block. eauto.
Qed.

(* on input without barriers / measurements / resets a regrouping is a good partition *)
Lemma regrouping_good k i o :
  regrouping k i o -> (forall x, In x i -> okind x = KGate) -> good_partition k i o.
Proof. intros (H1 & H2 & H3) Hk. split; [exact H1|]. split; [|split; auto].
  apply Forall_forall. intros it Hit. destruct it as [x|l b]; simpl; auto.
  intros x Hx. apply Hk. eapply Permutation_in; [exact H2|]. unfold unfold. apply in_flat_map.
  exists (Block l b). split; auto. Qed.

Theorem scan_good_partition score k nq nc c groups o :
  scan_wf nq nc c -> (forall x, In x c -> okind (snd x) = KGate) ->
  scan score k nq nc c groups = inl o -> good_partition k (map snd c) o.
Proof. intros W Hk H. apply regrouping_good; [eapply scan_regrouping; eauto|].
  intros x Hx. apply in_map_iff in Hx as (y & <- & Hy). auto. Qed.

Theorem scan_same_unitary score k nq nc c groups o
  (M : Type) (mul : M -> M -> M) (one : M) (den : op -> M) :
  (forall x y z, mul x (mul y z) = mul (mul x y) z) ->
  (forall x, mul one x = x) ->
  (forall a b, indep op oloc a b -> mul (den a) (den b) = mul (den b) (den a)) ->
  scan_wf nq nc c -> (forall x, In x c -> okind (snd x) = KGate) ->
  scan score k nq nc c groups = inl o ->
  sem M mul one den (unfold o) = sem M mul one den (map snd c).
Proof. intros Ha Hl Hc W Hk H. eapply good_partition_same_unitary; eauto.
  - intros a Hin. apply in_map_iff in Hin as (x & <- & Hx). destruct W as [(_ & _ & _ & Hne & _) _]. auto.
  - eapply scan_good_partition; eauto. Qed.

(* ScanPartitioner absorbs barriers: the barrier clause of C08 is false for it (finding C08.B1) *)
Definition scan_barrier_circuit : list scop := [(0%Z, mkOp 1 [0; 1] 0 KBarrier)].

Theorem scan_barrier_absorbed :
  scan_wf 2 1 scan_barrier_circuit /\
  scan default_score 2 2 1 scan_barrier_circuit [[0; 1]] = inl [Block [0; 1] [mkOp 1 [0; 1] 0 KBarrier]] /\
  ~ good_partition 2 (map snd scan_barrier_circuit) [Block [0; 1] [mkOp 1 [0; 1] 0 KBarrier]].
Proof. split; [|split].
  - split; [apply wf_inputb_sound; vm_compute; reflexivity|]. intros x [<-|[]]. simpl. lia.
  - vm_compute. reflexivity.
  - intros (_ & H & _). inversion H as [|? ? Hb _]; subst. simpl in Hb.
    specialize (Hb _ (or_introl eq_refl)). discriminate. Qed.

Theorem scan_correct_full_refuted :
  ~ (forall score k nq nc c groups o, scan_wf nq nc c ->
     scan score k nq nc c groups = inl o -> good_partition k (map snd c) o).
Proof. intros H. destruct scan_barrier_absorbed as (W & E & N). exact (N (H _ _ _ _ _ _ _ W E)). Qed.

(* a decidable form of scan_wf, for concrete examples *)
Definition scan_wfb (nq : nat) (nc : Z) (c : list scop) : bool :=
  wf_inputb nq nc c && forallb (fun x => (0 <=? fst x)%Z) c.

Lemma scan_wfb_sound nq nc c : scan_wfb nq nc c = true -> scan_wf nq nc c.
Proof. unfold scan_wfb. intros H. apply andb_true_iff in H as [H1 H2]. split; [apply wf_inputb_sound; exact H1|].
  rewrite forallb_forall in H2. intros x Hx. specialize (H2 x Hx). lia. Qed.
