(* C08 - the verified oracle is COMPLETE as well as sound: check_partition accepts every good
   partition (no false alarms by construction), so  check_partition k i o = true <-> good_partition k i o. *)
From Coq Require Import List Arith Bool NArith Permutation Lia.
Import ListNotations.
From BQ Require Import lib.Trace part.PartSpec part.PartCheck.

Lemma kind_eqb_refl a : kind_eqb a a = true.
Proof. destruct a; reflexivity. Qed.

Lemma nats_eqb_refl' a : nats_eqb a a = true.
Proof. induction a; simpl; auto. rewrite Nat.eqb_refl. exact IHa. Qed.

Lemma op_eqb_refl a : op_eqb a a = true.
Proof. unfold op_eqb. rewrite !N.eqb_refl, nats_eqb_refl', kind_eqb_refl. reflexivity. Qed.

Lemma ops_eqb_refl a : ops_eqb a a = true.
Proof. induction a; simpl; auto. rewrite op_eqb_refl. exact IHa. Qed.

Lemma NoDup_nodupb l : NoDup l -> nodupb l = true.
Proof. induction 1 as [|x l Hn _ IH]; simpl; auto. rewrite IH, andb_true_r. apply negb_true_iff.
  destruct (memb x l) eqn:E; auto. apply memb_In in E. contradiction. Qed.

Lemma remove1_complete x l : In x l -> exists l', remove1 x l = Some l' /\ Permutation l (x :: l').
Proof. induction l as [|y t IH]; simpl; intros H; [destruct H|].
  destruct (op_eqb x y) eqn:E.
  - apply op_eqb_eq in E. subst y. exists t. split; auto.
  - destruct H as [->|H]; [rewrite op_eqb_refl in E; discriminate|].
    destruct (IH H) as (t' & R & P). rewrite R. exists (y :: t'). split; auto.
    eapply perm_trans; [apply perm_skip; exact P| apply perm_swap]. Qed.

Lemma perm_check_complete a : forall b, Permutation a b -> perm_check a b = true.
Proof. induction a as [|x a IH]; simpl; intros b H.
  - apply Permutation_nil in H. subst. reflexivity.
  - assert (Hin : In x b) by (eapply Permutation_in; [exact H| left; reflexivity]).
    destruct (remove1_complete x b Hin) as (b' & R & P). rewrite R. apply IH.
    apply (Permutation_cons_inv (a := x)). eapply perm_trans; [exact H| exact P]. Qed.

Lemma timelines_eqb_complete a b : (forall q, pq q a = pq q b) -> timelines_eqb a b = true.
Proof. intros H. unfold timelines_eqb. apply forallb_forall. intros q _. rewrite H. apply ops_eqb_refl. Qed.

Lemma block_okb_complete k it : block_ok k it -> block_okb k it = true.
Proof. destruct it as [o|l b]; simpl; auto. intros (H1 & H2 & H3).
  apply andb_true_iff. split; [apply andb_true_iff; split|].
  - apply Nat.leb_le. exact H1.
  - apply NoDup_nodupb. exact H2.
  - apply forallb_forall. intros o Ho. apply forallb_forall. intros q Hq. apply memb_In. exact (H3 o Ho q Hq). Qed.

Lemma no_barrier_insideb_complete it : no_barrier_inside it -> no_barrier_insideb it = true.
Proof. destruct it as [o|l b]; simpl; auto. intros H. apply forallb_forall. intros o Ho.
  unfold kind_is_gate. rewrite (H o Ho). reflexivity. Qed.

Theorem check_partition_complete k i o : good_partition k i o -> check_partition k i o = true.
Proof. intros (H1 & H2 & H3 & H4). unfold check_partition. rewrite Forall_forall in H1, H2.
  apply andb_true_iff. split; [apply andb_true_iff; split; [apply andb_true_iff; split|]|].
  - apply forallb_forall. intros it Hit. apply block_okb_complete. auto.
  - apply forallb_forall. intros it Hit. apply no_barrier_insideb_complete. auto.
  - apply perm_check_complete. exact H3.
  - apply timelines_eqb_complete. exact H4. Qed.

Theorem check_partition_iff k i o : check_partition k i o = true <-> good_partition k i o.
Proof. split; [apply check_partition_sound| apply check_partition_complete]. Qed.
