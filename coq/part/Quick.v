(* C08 - QuickPartitioner.run (bqskit/passes/partitioning/quick.py) transcribed as
   an executable model.  No proofs here (see QuickThm.v).

   Representation choices (all checked by the correspondence run):
   * the input circuit is the list of (cycle, op) in `operations_with_cycles` order;
     a CircuitPoint identifies exactly one operation of a well-formed circuit, so
     `bin.op_list` + `circuit.get_slice(op_list)` are modelled by storing the
     operations themselves in the bin (`bops`);
   * a Bin's four parallel containers `qudits / starts / ends / active_qudits` are
     the four columns of `bslots` (same keys, `qudits` order);
   * Python object identity of bins = `bid` (the value of the `Bin.id` counter,
     relative to its value at the start of the run); live (not yet emitted) bins
     are kept in the table `bins`;
   * the partitioned circuit is the list of its top-level items in append order;
     an item is in `Circuit.rear` iff no later item shares a qudit with it
     (cycle placement of Circuit.append/pop is not modelled: outputs are compared
     up to commutation of operations on disjoint qudits);
   * `overlapping_bins = list({...})` iterates a Python set: the order the
     implementation used is replayed (`hints`, one list of bin ids per input
     operation) after checking it is a permutation of the computed set; the
     theorems hold for every order.  `for p in partitioned_circuit.rear` (also a
     set) is made canonical: the result does not depend on it up to commutation
     inside the merged block (design_notes/C08.md);
   * the two `assert`s and the final RuntimeError are explicit error results;
   * cycles are `Z` (Python ints: `cycle - 1` may be -1).
   * `fx = false` is the unchanged code.  `fx = true` additionally runs the
     blocked-qudit propagation when a BarrierBin is created (fixes/C08.Q1.patch). *)
From Coq Require Import List Arith Bool NArith ZArith Lia.
Import ListNotations.
From BQ Require Import part.PartSpec part.PartCheck.

Inductive err := EBadHint | EAssert | ENoBin | EFuel | EPending.
Definition res (A : Type) := sum A err.
Notation "'do' x <- e ; f" := (match e with inl x => f | inr er => inr er end)
  (at level 200, x pattern, e at level 100, f at level 200).

Record slot := mkSlot { sq : nat; sstart : Z; send : option Z; sact : bool }.
Record bin := mkBin { bid : nat; bslots : list slot; bblocked : list nat; bops : list op; bbar : bool }.
Record state := mkSt {
  bins : list bin;            (* live bins: active ones and pending ones *)
  act : list (option nat);    (* active_bins: qudit -> bin id *)
  dl : list Z;                (* dividing_line *)
  pend : list nat;            (* pending_bins (ids, in append order) *)
  nclosed : nat;              (* num_closed *)
  out : pcircuit;             (* partitioned_circuit *)
  nextid : nat                (* Bin.id *)
}.

(* ---------- small helpers ---------- *)
Fixpoint set_nth {A} (d : A) (q : nat) (v : A) (l : list A) : list A :=
  match q, l with
  | 0, [] => [v]
  | 0, _ :: t => v :: t
  | S q', [] => d :: set_nth d q' v []
  | S q', x :: t => x :: set_nth d q' v t
  end.

Definition disjointb (a b : list nat) : bool := negb (existsb (fun q => memb q b) a).
Definition subsetb (a b : list nat) : bool := forallb (fun q => memb q b) a.
Definition union (a b : list nat) : list nat :=
  fold_left (fun acc q => if memb q acc then acc else acc ++ [q]) a b.

Fixpoint insert_sorted (x : nat) (l : list nat) : list nat :=
  match l with [] => [x] | y :: t => if x <=? y then x :: l else y :: insert_sorted x t end.
Definition sort (l : list nat) : list nat := fold_right insert_sorted [] l.

Definition same_set (a b : list nat) : bool :=
  (length a =? length b) && nodupb a && subsetb a b && subsetb b a.

Definition is_gate (o : op) : bool := kind_is_gate o.
Definition touchesb (q : nat) (o : op) : bool := memb q (oloc o).

Definition bqudits (b : bin) : list nat := map sq (bslots b).
Definition is_active (b : bin) (q : nat) : bool :=
  existsb (fun s => Nat.eqb (sq s) q && sact s) (bslots b).
Definition any_active (b : bin) : bool := existsb sact (bslots b).

Definition getb (id : nat) (bs : list bin) : option bin := find (fun b => Nat.eqb (bid b) id) bs.
Definition putb (b' : bin) (bs : list bin) : list bin :=
  map (fun b => if Nat.eqb (bid b) (bid b') then b' else b) bs.
Definition delb (id : nat) (bs : list bin) : list bin :=
  filter (fun b => negb (Nat.eqb (bid b) id)) bs.

Definition with_slots (b : bin) (ss : list slot) : bin := mkBin (bid b) ss (bblocked b) (bops b) (bbar b).
Definition with_blocked (b : bin) (bl : list nat) : bin := mkBin (bid b) (bslots b) bl (bops b) (bbar b).

Definition set_bins (st : state) (bs : list bin) : state :=
  mkSt bs (act st) (dl st) (pend st) (nclosed st) (out st) (nextid st).
Definition set_nclosed (st : state) (n : nat) : state :=
  mkSt (bins st) (act st) (dl st) (pend st) n (out st) (nextid st).

(* ---------- close_bin_qudits ---------- *)
Definition close_slot (loc : list nat) (cur : Z) (s : slot) : slot :=
  if sact s && memb (sq s) loc then mkSlot (sq s) (sstart s) (Some (cur - 1)%Z) false else s.

Definition opt_is (id : nat) (x : option nat) : bool :=
  match x with Some y => Nat.eqb y id | None => false end.

Definition clear_act (id : nat) (loc : list nat) (a : list (option nat)) : list (option nat) :=
  fold_left (fun a q => if opt_is id (nth q a None) then set_nth None q None a else a) loc a.

(* returns the new state and "bin is completely inactive now" *)
Definition close_bin (id : nat) (loc : list nat) (cur : Z) (st : state) : res (state * bool) :=
  match getb id (bins st) with
  | None => inr ENoBin
  | Some b =>
    let b' := with_slots b (map (close_slot loc cur) (bslots b)) in
    let inactive := negb (any_active b') in
    inl (mkSt (putb b' (bins st)) (clear_act id loc (act st)) (dl st)
              (if inactive then pend st ++ [id] else pend st)
              (nclosed st) (out st) (nextid st), inactive)
  end.

(* `if close_bin_qudits(bin, location, cycle): num_closed += 1` *)
Definition close_count (id : nat) (loc : list nat) (cur : Z) (st : state) : res state :=
  do r <- close_bin id loc cur st;
  let '(st', b) := r in
  inl (if b then set_nclosed st' (S (nclosed st')) else st').

(* ---------- Bin.can_accommodate ---------- *)
Definition can_accommodate (b : bin) (loc : list nat) (k : nat) : bool :=
  negb (existsb (fun q => memb q (bblocked b) && negb (is_active b q)) loc) &&
  (forallb (fun q => negb (memb q (bqudits b)) || is_active b q) loc &&
   (length (dedup (bqudits b ++ loc)) <=? Nat.max k (length (bqudits b)))).

(* ---------- Bin.add_op ---------- *)
Definition add_slots (cur : Z) (loc : list nat) (ss : list slot) : list slot :=
  fold_left (fun ss q => if memb q (map sq ss) then ss else ss ++ [mkSlot q cur None true]) loc ss.

Definition add_op (cur : Z) (o : op) (b : bin) : bin :=
  mkBin (bid b) (add_slots cur (oloc o) (bslots b)) (bblocked b) (bops b ++ [o]) (bbar b).

(* ---------- the merge-with-rear loop ---------- *)
Definition candidate (loc cov : list nat) (it : item) : bool :=
  match it with
  | Leaf _ => false   (* barrier / measurement / reset: `continue` *)
  | Block bl _ => disjointb bl cov && (subsetb bl loc || subsetb loc bl)
  end.

(* r = reversed prefix still to inspect, after = the items behind it (in order),
   cov = qudits used by `after`.  Result: (reversed prefix, candidate, after). *)
Fixpoint find_merge (loc cov : list nat) (after : list item) (r : list item)
  : option (list item * item * list item) :=
  match r with
  | [] => None
  | it :: r' =>
    if candidate loc cov it then Some (r', it, after)
    else find_merge loc (union (item_loc it) cov) (it :: after) r'
  end.

Fixpoint merge_loop (fuel : nat) (o : pcircuit) (loc : list nat) (body : list op)
  : pcircuit * list nat * list op :=
  match fuel with
  | 0 => (o, loc, body)
  | S f =>
    match find_merge loc [] [] (rev o) with
    | Some (r', Block bl bb, after) =>
        if subsetb bl loc
        then merge_loop f (rev r' ++ after) loc (bb ++ body)   (* subc.insert_circuit(0, prev, ..) *)
        else merge_loop f (rev r' ++ after) bl (bb ++ body)    (* prev.append_circuit(subc, ..); loc = qudits *)
    | _ => (o, loc, body)
    end
  end.

(* ---------- process_pending_bins ---------- *)
Definition ready (d : list Z) (b : bin) : bool :=
  forallb (fun s => Z.eqb (nth (sq s) d 0%Z) (sstart s)) (bslots b).

Fixpoint find_ready (bs : list bin) (d : list Z) (ps : list nat) : res (option bin) :=
  match ps with
  | [] => inl None
  | id :: t =>
    match getb id bs with
    | None => inr ENoBin
    | Some b => if ready d b then inl (Some b) else find_ready bs d t
    end
  end.

Fixpoint remove_first (id : nat) (l : list nat) : list nat :=
  match l with [] => [] | x :: t => if Nat.eqb x id then t else x :: remove_first id t end.

Definition advance (ncyc : Z) (d : list Z) (ss : list slot) : list Z :=
  fold_left (fun d s => set_nth 0%Z (sq s)
                          (match send s with Some e => (e + 1)%Z | None => ncyc end) d) ss d.

Definition emit (ncyc : Z) (b : bin) (st : state) : state :=
  let loc := sort (bqudits b) in
  let out' :=
    if bbar b then out st ++ map Leaf (bops b)                 (* append_circuit(subc, loc, False) *)
    else let '(o', loc', body') := merge_loop (S (length (out st))) (out st) loc (bops b) in
         o' ++ [Block loc' body'] in                            (* append_circuit(subc, loc, True) *)
  mkSt (delb (bid b) (bins st)) (act st) (advance ncyc (dl st) (bslots b))
       (remove_first (bid b) (pend st)) (nclosed st) out' (nextid st).

Fixpoint process_pending (fuel : nat) (ncyc : Z) (st : state) : res state :=
  match fuel with
  | 0 => inr EFuel
  | S f =>
    do r <- find_ready (bins st) (dl st) (pend st);
    match r with
    | None => inl st
    | Some b => process_pending f ncyc (emit ncyc b st)
    end
  end.

Definition process_pending_bins (ncyc : Z) (st : state) : res state :=
  process_pending (S (length (pend st))) ncyc st.

(* ---------- blocked-qudit propagation ---------- *)
Definition block_one (sb : bin) (A : bin) : bin :=
  if existsb (fun x => memb x (bqudits sb)) (bblocked A ++ bqudits A)
  then with_blocked A (union (bqudits sb ++ bblocked sb) (bblocked A))
  else A.

Definition block_update (sel : nat) (st : state) : res state :=
  match getb sel (bins st) with
  | None => inr ENoBin
  | Some sb =>
    inl (set_bins st
      (fold_left (fun bs ab =>
         match ab with
         | None => bs
         | Some a => if Nat.eqb a sel then bs
                     else map (fun A => if Nat.eqb (bid A) a then block_one sb A else A) bs
         end) (act st) (bins st)))
  end.

(* ---------- one gate of the main loop ---------- *)
Fixpoint filter_some {A} (l : list (option A)) : list A :=
  match l with [] => [] | Some x :: t => x :: filter_some t | None :: t => filter_some t end.

Definition overlap_ids (st : state) (loc : list nat) : list nat :=
  dedup (filter_some (map (fun q => nth q (act st) None) loc)).

Fixpoint flags (bs : list bin) (loc : list nat) (k : nat) (ids : list nat) : res (list (nat * bool)) :=
  match ids with
  | [] => inl []
  | id :: t =>
    match getb id bs with
    | None => inr ENoBin
    | Some b => do r <- flags bs loc k t; inl ((id, can_accommodate b loc k) :: r)
    end
  end.

Fixpoint close_where (keep : nat * bool -> bool) (loc : list nat) (cur : Z)
         (l : list (nat * bool)) (st : state) : res state :=
  match l with
  | [] => inl st
  | x :: t =>
    if keep x then close_where keep loc cur t st
    else do st' <- close_count (fst x) loc cur st; close_where keep loc cur t st'
  end.

Fixpoint select_subset (bs : list bin) (loc : list nat) (adm : list nat) : option nat :=
  match adm with
  | [] => None
  | id :: t =>
    match getb id bs with
    | Some b => if subsetb loc (bqudits b) then Some id else select_subset bs loc t
    | None => select_subset bs loc t
    end
  end.

Fixpoint set_active (sel : nat) (loc : list nat) (a : list (option nat)) : res (list (option nat)) :=
  match loc with
  | [] => inl a
  | q :: t =>
    match nth q a None with
    | None => set_active sel t (set_nth None q (Some sel) a)
    | Some x => if Nat.eqb x sel then set_active sel t a else inr EAssert   (* assert active_bins[q] == selected_bin *)
    end
  end.

Definition is_none {A} (x : option A) : bool := match x with None => true | Some _ => false end.

Definition step_gate (k : nat) (ncyc : Z) (cur : Z) (o : op) (hint : list nat) (st : state) : res state :=
  let loc := oloc o in
  if negb (same_set hint (overlap_ids st loc)) then inr EBadHint else
  do fl <- flags (bins st) loc k hint;
  let adm := map fst (filter snd fl) in
  (* close location on inadmissible overlapping bins *)
  do st1 <- close_where snd loc cur fl st;
  (* select bin or make new one *)
  do r <-
    match adm with
    | [] =>
      if forallb (fun q => is_none (nth q (act st1) None)) loc
      then let id := nextid st1 in
           inl (mkSt (bins st1 ++ [mkBin id [] [] [] false]) (act st1) (dl st1) (pend st1)
                     (nclosed st1) (out st1) (S id), id)
      else inr EAssert
    | a0 :: _ =>
      let sel := match select_subset (bins st1) loc adm with Some id => id | None => a0 end in
      do st2 <- close_where (fun x => Nat.eqb (fst x) sel) loc cur (filter snd fl) st1;
      inl (st2, sel)
    end;
  let '(st2, sel) := r in
  (* add op to selected bin *)
  match getb sel (bins st2) with
  | None => inr ENoBin
  | Some sb =>
    do a' <- set_active sel loc (act st2);
    let st3 := mkSt (putb (add_op cur o sb) (bins st2)) a' (dl st2) (pend st2)
                    (nclosed st2) (out st2) (nextid st2) in
    (* block qudits to prevent circular dependencies *)
    do st4 <- block_update sel st3;
    if 5 <=? nclosed st4
    then do st5 <- process_pending_bins ncyc st4; inl (set_nclosed st5 0)
    else inl st4
  end.

(* ---------- barrier / measurement / reset ---------- *)
Fixpoint next_cycle (q : nat) (rest : list (Z * op)) : option Z :=
  match rest with
  | [] => None
  | (c, o) :: t => if touchesb q o then Some c else next_cycle q t
  end.

Definition barrier_bin (id : nat) (cur : Z) (o : op) (rest : list (Z * op)) : bin :=
  mkBin id
    (map (fun q => mkSlot q cur
                     (match next_cycle q rest with Some c => Some (c - 1)%Z | None => None end)
                     false) (oloc o))
    [] [o] true.

Fixpoint close_barrier (loc : list nat) (cur : Z) (ids : list nat) (st : state) : res state :=
  match ids with
  | [] => inl st
  | id :: t =>
    do r <- close_bin id loc cur st;
    let '(st', b) := r in
    let st'' :=
      if b then set_nclosed st' (S (nclosed st'))
      else set_bins st' (map (fun A => if Nat.eqb (bid A) id
                                       then with_blocked A (union (filter (fun q => negb (memb q (bqudits A))) loc) (bblocked A))
                                       else A) (bins st')) in
    close_barrier loc cur t st''
  end.

Definition step_barrier (fx : bool) (cur : Z) (o : op) (rest : list (Z * op)) (hint : list nat) (st : state) : res state :=
  let loc := oloc o in
  if negb (same_set hint (overlap_ids st loc)) then inr EBadHint else
  do st1 <- close_barrier loc cur hint st;
  let id := nextid st1 in
  let st2 := mkSt (bins st1 ++ [barrier_bin id cur o rest]) (act st1) (dl st1) (pend st1 ++ [id])
                  (nclosed st1) (out st1) (S id) in
  if fx then block_update id st2 else inl st2.

(* ---------- main loop, final close, final emission ---------- *)
Fixpoint run_ops (k : nat) (fx : bool) (ncyc : Z) (ops : list (Z * op)) (hints : list (list nat))
         (st : state) : res state :=
  match ops with
  | [] => inl st
  | (cur, o) :: rest =>
    match hints with
    | [] => inr EBadHint
    | h :: hs =>
      do st' <- (if is_gate o then step_gate k ncyc cur o h st else step_barrier fx cur o rest h st);
      run_ops k fx ncyc rest hs st'
    end
  end.

Fixpoint close_all_from (n q : nat) (ncyc : Z) (st : state) : res state :=
  match n with
  | 0 => inl st
  | S n' =>
    do st' <-
      match nth q (act st) None with
      | None => inl st
      | Some id =>
        match getb id (bins st) with
        | None => inr ENoBin
        | Some b => do r <- close_bin id (bqudits b) ncyc st; inl (fst r)
        end
      end;
    close_all_from n' (S q) ncyc st'
  end.

Definition first_cycle (q : nat) (ops : list (Z * op)) : Z :=
  match next_cycle q ops with Some c => c | None => 0%Z end.

Definition init (nq : nat) (ops : list (Z * op)) : state :=
  mkSt [] (repeat None nq) (map (fun q => first_cycle q ops) (seq 0 nq)) [] 0 [] 0.

Definition quick_state (k : nat) (fx : bool) (nq : nat) (ncyc : Z) (ops : list (Z * op)) (hints : list (list nat))
  : res state :=
  do st <- run_ops k fx ncyc ops hints (init nq ops);
  do st1 <- close_all_from (length (act st)) 0 ncyc st;
  process_pending_bins ncyc st1.

Definition quick (k : nat) (fx : bool) (nq : nat) (ncyc : Z) (ops : list (Z * op)) (hints : list (list nat))
  : res pcircuit :=
  do st2 <- quick_state k fx nq ncyc ops hints;
  match pend st2 with
  | [] => inl (out st2)
  | _ => inr EPending      (* RuntimeError('Unable to process all pending bins ...') *)
  end.

(* the set-iteration order "sorted by bin id", for examples and for runs without a recording *)
Definition canonical_hint (st : state) (o : op) : list nat := sort (overlap_ids st (oloc o)).
