(* C08 - the property "partitioning regroups operations without changing the
   program" as a predicate on plain data.  No proofs here.

   A circuit is the list of its operations in iteration order.  An operation is
   (gate id, location, parameter id, kind); gate and parameter ids are interned
   by the harness ((gate object, parameter tuple) -> small number), so two
   operations are equal exactly when they apply the same gate with the same
   parameters to the same qudits.  Blocks that are already present in the
   *input* are atomic gates for a partitioner and are interned like any other
   gate.  A partitioned circuit is a list of top-level items: an operation left
   at top level, or a block (its location + the operations it contains, with
   their locations expressed in the qudits of the outer circuit). *)
From Coq Require Import List Arith Bool NArith Permutation.
Import ListNotations.
From BQ Require Import lib.Trace.

Inductive kind := KGate | KBarrier | KMeasure | KReset.

Record op := mkOp { ogate : N; oloc : list nat; oparams : N; okind : kind }.

Inductive item :=
| Leaf (o : op)
| Block (bloc : list nat) (body : list op).

Definition circuit := list op.
Definition pcircuit := list item.

Definition item_ops (it : item) : list op :=
  match it with Leaf o => [o] | Block _ b => b end.

Definition item_loc (it : item) : list nat :=
  match it with Leaf o => oloc o | Block l _ => l end.

(* Circuit.unfold_all restricted to the blocks the partitioner made *)
Definition unfold (o : pcircuit) : list op := flat_map item_ops o.

(* per-qudit timeline (Trace.proj instantiated with op / oloc) *)
Definition pq (q : nat) (s : list op) : list op := proj op oloc q s.

Definition widest (b : list op) : nat := fold_right (fun o m => Nat.max (length (oloc o)) m) 0 b.

(* a block spans at most max(block size, widest gate it contains) distinct
   qudits and contains nothing outside its location *)
Definition block_ok (k : nat) (it : item) : Prop :=
  match it with
  | Leaf _ => True
  | Block l b =>
      length l <= Nat.max k (widest b) /\ NoDup l /\
      (forall o, In o b -> incl (oloc o) l)
  end.

(* barriers, measurements and resets are never inside a block
   (every operation is either a top-level Leaf or inside a Block, so they are
   all top-level) *)
Definition no_barrier_inside (it : item) : Prop :=
  match it with
  | Leaf _ => True
  | Block _ b => forall o, In o b -> okind o = KGate
  end.

Definition good_partition (k : nat) (i : circuit) (o : pcircuit) : Prop :=
  Forall (block_ok k) o /\
  Forall no_barrier_inside o /\
  Permutation (unfold o) i /\
  (forall q, pq q (unfold o) = pq q i).

(* what QuickPartitioner promises in addition: every gate ends up in a block *)
Definition all_gates_blocked (o : pcircuit) : Prop :=
  forall x, In (Leaf x) o -> okind x <> KGate.
