(* C08 - ScanPartitioner model: the region computed by calculate_block is CLOSED
   (an operation with one point inside the region lies inside it entirely). *)
From Coq Require Import List Arith Bool NArith ZArith Lia Permutation.
Import ListNotations.
From BQ Require Import lib.Trace part.PartSpec part.PartCheck part.QuickLemmas part.Scan.

(* ---------- the grid ---------- *)
Lemma ordered_unique c cy X Y q :
  ordered c -> In (cy, X) c -> In (cy, Y) c -> In q (oloc X) -> In q (oloc Y) -> X = Y.
Proof.
  intros Ho HX HY HqX HqY.
  assert (TX : touch q (cy, X) = true) by (apply memb_In; exact HqX).
  assert (TY : touch q (cy, Y) = true) by (apply memb_In; exact HqY).
  apply in_split in HX as (l1 & l2 & E). subst c.
  apply in_app_or in HY as [HY|[HY|HY]].
  - apply in_split in HY as (a & b & E). subst l1. exfalso.
    assert (H : (fst (cy, Y) < fst (cy, X))%Z).
    { apply (Ho a (cy, Y) (b ++ (cy, X) :: l2) (cy, X) q); auto.
      - rewrite <- app_assoc. reflexivity.
      - apply in_or_app. right. left. reflexivity. }
    simpl in H. lia.
  - inversion HY; auto.
  - exfalso. assert (H : (fst (cy, X) < fst (cy, Y))%Z) by (apply (Ho l1 (cy, X) l2 (cy, Y) q); auto).
    simpl in H. lia.
Qed.

Lemma at_point_some c cy q X : at_point c cy q = Some X -> In (cy, X) c /\ In q (oloc X).
Proof. unfold at_point. destruct (find (fun x => Z.eqb (fst x) cy && memb q (oloc (snd x))) c) as [x|] eqn:F; [|discriminate]. intros H. inversion H; subst.
  apply find_some in F as [Hin Hb]. apply andb_true_iff in Hb as [H1 H2].
  apply Z.eqb_eq in H1. apply memb_In in H2. destruct x as [cy' X']. simpl in *. subst. auto. Qed.

Lemma at_point_complete c cy q X :
  ordered c -> In (cy, X) c -> In q (oloc X) -> at_point c cy q = Some X.
Proof. intros Ho Hin Hq. unfold at_point. destruct (find (fun x => Z.eqb (fst x) cy && memb q (oloc (snd x))) c) as [x|] eqn:F.
  - apply find_some in F as [Hin' Hb]. apply andb_true_iff in Hb as [H1 H2].
    apply Z.eqb_eq in H1. apply memb_In in H2. destruct x as [cy' X']. simpl in *. subst.
    f_equal. eapply ordered_unique; eauto.
  - exfalso. pose proof (find_none _ _ F _ Hin) as H. simpl in H.
    rewrite Z.eqb_refl in H. simpl in H. apply memb_In in Hq. congruence. Qed.

(* ---------- the iterator ---------- *)
Fixpoint csorted (l : list scop) : Prop :=
  match l with [] => True | x :: t => (forall y, In y t -> (fst x <= fst y)%Z) /\ csorted t end.

Lemma csorted_app a b :
  csorted a -> csorted b -> (forall x y, In x a -> In y b -> (fst x <= fst y)%Z) -> csorted (a ++ b).
Proof. induction a as [|x a IH]; simpl; intros Ha Hb H; auto. destruct Ha as [H1 H2]. split.
  - intros y Hy. apply in_app_or in Hy as [Hy|Hy]; auto.
  - apply IH; auto. Qed.

Lemma csorted_const l cy : (forall x, In x l -> fst x = cy) -> csorted l.
Proof. induction l as [|x l IH]; simpl; intros H; auto. split.
  - intros y Hy. rewrite (H x), (H y); auto. lia.
  - apply IH. intros; apply H; auto. Qed.

Lemma yields_at_In c srt cy x :
  In x (yields_at c srt cy) <->
  exists e, In e srt /\ (snd e <= cy)%Z /\ at_point c cy (fst e) = Some (snd x) /\ fst x = cy.
Proof. unfold yields_at. rewrite in_flat_map. split.
  - intros (e & He & Hx). exists e. destruct (snd e <=? cy)%Z eqn:E; [|destruct Hx].
    destruct (at_point c cy (fst e)) as [o|] eqn:A; [|destruct Hx]. destruct Hx as [<-|[]]. simpl.
    repeat split; auto. lia.
  - intros (e & He & H1 & H2 & H3). exists e. split; auto.
    assert ((snd e <=? cy)%Z = true) as -> by lia. rewrite H2. left. destruct x; simpl in *; subst; reflexivity. Qed.

Lemma yields_from_In c srt : forall n m x,
  In x (yields_from c srt m n) <-> (m <= fst x < m + Z.of_nat n)%Z /\ In x (yields_at c srt (fst x)).
Proof. induction n as [|n IH]; intros m x; simpl yields_from.
  - split; [intros []| intros [H _]; lia].
  - rewrite in_app_iff, IH. split.
    + intros [H|[H1 H2]].
      * assert (fst x = m) by (apply yields_at_In in H as (e & _ & _ & _ & H); exact H). subst m. split; [lia|exact H].
      * split; [lia|exact H2].
    + intros [H1 H2]. destruct (Z.eq_dec (fst x) m) as [E|E].
      * left. rewrite <- E. exact H2.
      * right. split; [lia|exact H2]. Qed.

Lemma yields_from_sorted c srt : forall n m, csorted (yields_from c srt m n).
Proof. induction n as [|n IH]; intros m; simpl; auto. apply csorted_app.
  - apply (csorted_const _ m). intros x Hx. apply yields_at_In in Hx as (e & _ & _ & _ & H). exact H.
  - apply IH.
  - intros x y Hx Hy. apply yields_at_In in Hx as (e & _ & _ & _ & H).
    apply yields_from_In in Hy as [Hy _]. lia. Qed.

Lemma insert_by_start_In x l y : In y (insert_by_start x l) <-> y = x \/ In y l.
Proof. induction l as [|z l IH]; simpl.
  - split; [intros [H|[]]; auto| intros [H|[]]; auto].
  - destruct (snd x <=? snd z)%Z; simpl; [split; intros [H|H]; auto|].
    rewrite IH. tauto. Qed.

Lemma sort_by_start_In l y : In y (sort_by_start l) <-> In y l.
Proof. induction l as [|z l IH]; simpl; [tauto|]. rewrite insert_by_start_In, IH. split; intros [H|H]; auto. Qed.

(* the minimum is below every entry *)
Lemma min_start_le l : forall y, In y l -> (min_start (sort_by_start l) <= snd y)%Z.
Proof. induction l as [|z l IH]; intros y Hy; [destruct Hy|]. simpl sort_by_start.
  destruct (sort_by_start l) as [|h t] eqn:S.
  - assert (l = []) as ->.
    { destruct l as [|w l']; auto. exfalso. assert (In w (sort_by_start (w :: l'))) by (apply sort_by_start_In; left; reflexivity).
      rewrite S in H. destruct H. }
    destruct Hy as [<-|[]]. simpl. lia.
  - simpl in IH. simpl. destruct (snd z <=? snd h)%Z eqn:E; simpl.
    + destruct Hy as [<-|Hy]; [lia|]. specialize (IH y Hy). lia.
    + destruct Hy as [<-|Hy]; [lia|]. apply IH. exact Hy. Qed.

Section Calc.
Variables (k : nat) (nc : Z) (c : list scop) (g : list nat).
Hypothesis Hord : ordered c.
Hypothesis Hnc : forall x, In x c -> (fst x < nc)%Z.

(* membership in the stream of the iterator *)
Lemma region_iter_sound starts x :
  In x (region_iter nc c g starts) ->
  In x c /\ exists q s, In (q, s) (combine g starts) /\ In q (oloc (snd x)) /\ (s <= fst x)%Z.
Proof. unfold region_iter. intros H. apply yields_from_In in H as [_ H].
  apply yields_at_In in H as (e & He & H1 & H2 & _). rewrite sort_by_start_In in He.
  apply at_point_some in H2 as [H2 H3]. destruct x as [cy X]. simpl in *. split; auto.
  exists (fst e), (snd e). destruct e; simpl in *. repeat split; auto. Qed.

Lemma region_iter_complete starts cy X q s :
  In (cy, X) c -> In (q, s) (combine g starts) -> In q (oloc X) -> (s <= cy)%Z ->
  In (cy, X) (region_iter nc c g starts).
Proof. intros Hin Hqs Hq Hs. unfold region_iter. apply yields_from_In. simpl.
  pose proof (min_start_le _ _ Hqs) as Hm. simpl in Hm. pose proof (Hnc _ Hin) as Hlt. simpl in Hlt.
  split; [lia|]. apply yields_at_In. exists (q, s). simpl. repeat split; auto.
  - apply sort_by_start_In. exact Hqs.
  - apply at_point_complete; auto. Qed.

(* ---------- stop_of ---------- *)
Lemma stop_of_none stp q : (forall e, In e stp -> fst e <> q) -> stop_of nc stp q = nc.
Proof. unfold stop_of. intros H. destruct (find _ stp) as [e|] eqn:F; auto.
  apply find_some in F as [Hin Hb]. apply Nat.eqb_eq in Hb. exfalso. exact (H e Hin Hb). Qed.

Lemma stop_of_app_keep stp new q :
  (forall e, In e new -> fst e <> q) -> stop_of nc (stp ++ new) q = stop_of nc stp q.
Proof. intros H. unfold stop_of. induction stp as [|e stp IH]; simpl.
  - destruct (find (fun e => fst e =? q) new) as [e|] eqn:F; auto.
    apply find_some in F as [Hin Hb]. apply Nat.eqb_eq in Hb. exfalso. exact (H e Hin Hb).
  - destruct (fst e =? q); auto. Qed.

Lemma stop_of_app_new stp new q :
  (forall e, In e stp -> fst e <> q) -> stop_of nc (stp ++ new) q = stop_of nc new q.
Proof. intros H. unfold stop_of. induction stp as [|e stp IH]; simpl; auto.
  destruct (fst e =? q) eqn:E.
  - apply Nat.eqb_eq in E. exfalso. apply (H e); auto. left; reflexivity.
  - apply IH. intros e' He'. apply H. right; exact He'. Qed.

Lemma stop_of_map l cy q : In q l -> stop_of nc (map (fun q => (q, cy)) l) q = cy.
Proof. unfold stop_of. induction l as [|a l IH]; simpl; intros H; [destruct H|].
  destruct (a =? q) eqn:E; auto. apply Nat.eqb_neq in E. destruct H as [H|H]; [congruence|auto]. Qed.

(* ---------- invariant of the calculate_block loop ---------- *)
Definition sinv (done : list scop) (st : cbstate) : Prop :=
  let inq := fst (fst st) in let stp := snd (fst st) in
  incl inq g /\
  (forall x, In x done -> In x c) /\
  (forall q, In q inq -> forall e, In e stp -> fst e <> q) /\
  (forall q, In q g -> ~ In q inq ->
     exists x, In x done /\ fst x = stop_of nc stp q /\ In q (oloc (snd x))) /\
  (forall x, In x done ->
     (forall q', In q' (oloc (snd x)) -> In q' g /\ (fst x < stop_of nc stp q')%Z) \/
     (forall q', In q' (oloc (snd x)) -> In q' g -> ~ In q' inq /\ (stop_of nc stp q' <= fst x)%Z)).

Lemma cb_step_inv done cy X st st' :
  sinv done st -> In (cy, X) c -> (forall d, In d done -> (fst d <= cy)%Z) ->
  cb_step k cy X st = inl st' -> sinv (done ++ [(cy, X)]) st'.
Proof.
  destruct st as [[inq stp] acc]. unfold sinv, cb_step. simpl fst; simpl snd.
  intros (I1 & I0 & I2 & I3 & I4) Hin Hle H.
  destruct (forallb (fun q => memb q inq) (oloc X)) eqn:Fa.
  - (* included *)
    inversion H; subst; clear H. simpl fst; simpl snd.
    rewrite forallb_forall in Fa.
    split; [exact I1|]. split.
    { intros x Hx. apply in_app_or in Hx as [Hx|[<-|[]]]; auto. }
    split; [exact I2|]. split.
    { intros q Hq Hn. destruct (I3 q Hq Hn) as (x & Hx & H1 & H2). exists x. split; auto. apply in_or_app; auto. }
    intros x Hx. apply in_app_or in Hx as [Hx|[<-|[]]]; [apply I4; exact Hx|].
    left. simpl. intros q' Hq'. specialize (Fa q' Hq'). apply memb_In in Fa. split; [apply I1; exact Fa|].
    rewrite stop_of_none; [apply (Hnc _ Hin)| apply I2; exact Fa].
  - destruct (k <? length (oloc X)); [discriminate|]. inversion H; subst; clear H. simpl fst; simpl snd.
    set (new := map (fun q => (q, cy)) (filter (fun q => memb q inq) (oloc X))).
    assert (Hnew : forall e, In e new -> In (fst e) inq /\ In (fst e) (oloc X) /\ snd e = cy).
    { intros e He. unfold new in He. apply in_map_iff in He as (q & <- & Hq). apply filter_In in Hq as [H1 H2].
      apply memb_In in H2. simpl. auto. }
    (* a qudit of X outside in_qudits *)
    assert (Hout : exists q0, In q0 (oloc X) /\ ~ In q0 inq).
    { destruct (forallb_forall (fun q => memb q inq) (oloc X)) as [_ Hf].
      destruct (existsb (fun q => negb (memb q inq)) (oloc X)) eqn:Ex.
      - apply existsb_exists in Ex as (q0 & H1 & H2). exists q0. split; auto. intros Hc. apply memb_In in Hc.
        rewrite Hc in H2. discriminate.
      - exfalso. rewrite Hf in Fa; [discriminate|]. intros q Hq.
        destruct (memb q inq) eqn:M; auto. exfalso.
        assert (existsb (fun q => negb (memb q inq)) (oloc X) = true); [|congruence].
        apply existsb_exists. exists q. rewrite M. auto. }
    (* stop_of after the step *)
    assert (Sold : forall q, ~ In q inq -> stop_of nc (stp ++ new) q = stop_of nc stp q).
    { intros q Hq. apply stop_of_app_keep. intros e He. destruct (Hnew e He) as [H1 _]. intros E. subst. auto. }
    assert (Skeep : forall q, In q inq -> ~ In q (oloc X) -> stop_of nc (stp ++ new) q = stop_of nc stp q).
    { intros q Hq Hn. apply stop_of_app_keep. intros e He. destruct (Hnew e He) as (_ & H1 & _). intros E. subst. auto. }
    assert (Snew : forall q, In q inq -> In q (oloc X) -> stop_of nc (stp ++ new) q = cy).
    { intros q Hq HX. rewrite stop_of_app_new; [|apply I2; exact Hq]. apply stop_of_map.
      apply filter_In. split; auto. apply memb_In. exact Hq. }
    split.
    { intros q Hq. apply filter_In in Hq as [Hq _]. apply I1. exact Hq. }
    split.
    { intros x Hx. apply in_app_or in Hx as [Hx|[<-|[]]]; auto. }
    split.
    { intros q Hq e He. apply filter_In in Hq as [Hq Hn]. apply negb_true_iff in Hn.
      apply in_app_or in He as [He|He]; [apply I2; auto|].
      destruct (Hnew e He) as (_ & H1 & _). intros E. subst. apply memb_In in H1. congruence. }
    split.
    { intros q Hg Hn. destruct (in_dec Nat.eq_dec q inq) as [Hq|Hq].
      - (* removed now *)
        assert (HX : In q (oloc X)).
        { destruct (in_dec Nat.eq_dec q (oloc X)) as [HX|HX]; auto. exfalso. apply Hn. apply filter_In. split; auto.
          apply negb_true_iff. destruct (memb q (oloc X)) eqn:M; auto. apply memb_In in M. contradiction. }
        exists (cy, X). split; [apply in_or_app; right; left; reflexivity|]. simpl. rewrite Snew; auto.
      - destruct (I3 q Hg Hq) as (x & Hx & H1 & H2). exists x. split; [apply in_or_app; auto|].
        rewrite Sold; auto. }
    intros x Hx. apply in_app_or in Hx as [Hx|[<-|[]]].
    + destruct (I4 x Hx) as [Hi|He].
      * (* an included operation stays strictly left of every stop *)
        left. intros q' Hq'. destruct (Hi q' Hq') as [Hg Hlt]. split; auto.
        destruct (in_dec Nat.eq_dec q' inq) as [Hq|Hq].
        -- destruct (in_dec Nat.eq_dec q' (oloc X)) as [HX|HX]; [|rewrite Skeep; auto].
           rewrite Snew; auto. pose proof (Hle x Hx) as Hc.
           destruct (Z.eq_dec (fst x) cy) as [E|E]; [|lia]. exfalso.
           (* same cycle, common qudit: x is X itself, but X has a qudit outside in_qudits *)
           assert (EX : snd x = X).
           { apply (ordered_unique c cy (snd x) X q'); auto. rewrite <- E. destruct x; simpl. apply I0; exact Hx. }
           destruct Hout as (q0 & H0 & Hn0). rewrite <- EX in H0. destruct (Hi q0 H0) as [Hg0 Hlt0].
           destruct (I3 q0 Hg0 Hn0) as (y & Hy & H1 & _). pose proof (Hle y Hy). lia.
        -- rewrite Sold; auto.
      * right. intros q' Hq' Hg. destruct (He q' Hq' Hg) as [Hn Hs]. split.
        -- intros Hf. apply filter_In in Hf as [Hf _]. auto.
        -- rewrite Sold; auto.
    + (* X itself: excluded *)
      right. simpl. intros q' Hq' Hg. split.
      * intros Hf. apply filter_In in Hf as [_ Hf]. apply negb_true_iff in Hf. apply memb_In in Hq'. congruence.
      * destruct (in_dec Nat.eq_dec q' inq) as [Hq|Hq].
        -- rewrite Snew; auto. lia.
        -- rewrite Sold; auto. destruct (I3 q' Hg Hq) as (y & Hy & H1 & _). pose proof (Hle y Hy). lia.
Qed.

Lemma cb_loop_inv : forall ys done st st',
  sinv done st -> csorted ys -> (forall d y, In d done -> In y ys -> (fst d <= fst y)%Z) ->
  (forall x, In x ys -> In x c) ->
  cb_loop k ys st = inl st' ->
  exists done', sinv done' st' /\
    (forall x, In x done \/ In x ys ->
       In x done' \/ (fst (fst st') = [] /\ forall d, In d done' -> (fst d <= fst x)%Z)).
Proof.
  induction ys as [|[cy X] t IH]; intros done st st' Hinv Hs Hle Hc H; simpl in H.
  - inversion H; subst. exists done. split; auto. intros x [Hx|[]]. left; exact Hx.
  - destruct (cb_step k cy X st) as [st1|] eqn:S; [|discriminate].
    simpl in Hs. destruct Hs as [Hs1 Hs2].
    assert (I1 : sinv (done ++ [(cy, X)]) st1).
    { eapply cb_step_inv; eauto.
      - apply Hc. left; reflexivity.
      - intros d Hd. apply (Hle d (cy, X) Hd). left; reflexivity. }
    assert (Hle1 : forall d y, In d (done ++ [(cy, X)]) -> In y t -> (fst d <= fst y)%Z).
    { intros d y Hd Hy. apply in_app_or in Hd as [Hd|[<-|[]]].
      - apply Hle; auto. right; exact Hy.
      - apply Hs1. exact Hy. }
    destruct (fst (fst st1)) as [|q0 r0] eqn:Eq.
    + inversion H; subst. exists (done ++ [(cy, X)]). split; auto.
      intros x [Hx|[Hx|Hx]].
      * left. apply in_or_app. left; exact Hx.
      * left. apply in_or_app. right. left. exact Hx.
      * right. split; [exact Eq|]. intros d Hd. apply Hle1; auto.
    + destruct (IH _ _ _ I1 Hs2 Hle1 (fun x Hx => Hc x (or_intror Hx)) H) as (done' & Hd' & Hcov).
      exists done'. split; auto. intros x [Hx|[Hx|Hx]].
      * apply Hcov. left. apply in_or_app. left; exact Hx.
      * apply Hcov. left. apply in_or_app. right. left. exact Hx.
      * apply Hcov. right. exact Hx.
Qed.

(* ---------- the region ---------- *)
Variable D : list Z.
Hypothesis Hg : NoDup g.
Hypothesis Hcut : forall x q q', In x c -> In q (oloc (snd x)) -> In q' (oloc (snd x)) ->
  (fst x < dv D q)%Z -> (fst x < dv D q')%Z.

Lemma combine_map_In {A} (f : nat -> A) l q s : In (q, s) (combine l (map f l)) <-> In q l /\ s = f q.
Proof. induction l as [|a l IH]; simpl; [tauto|]. rewrite IH. split.
  - intros [H|[H1 H2]]; [inversion H; auto| auto].
  - intros [[<-|H1] ->]; auto. Qed.

Lemma mk_region_In stp gs e :
  In e (mk_region nc stp gs) <->
  exists q s, In (q, s) gs /\ e = (q, (s, stop_of nc stp q - 1)%Z) /\ (s <= stop_of nc stp q - 1)%Z.
Proof. unfold mk_region. rewrite in_flat_map. split.
  - intros ([q s] & Hin & H). simpl in H. destruct (s <=? stop_of nc stp q - 1)%Z eqn:E; [|destruct H].
    destruct H as [<-|[]]. exists q, s. repeat split; auto. lia.
  - intros (q & s & Hin & -> & Hle). exists (q, s). split; auto. simpl.
    assert ((s <=? stop_of nc stp q - 1)%Z = true) as -> by lia. left; reflexivity. Qed.

Lemma mk_region_qudits stp gs q : In q (map rq (mk_region nc stp gs)) -> In q (map fst gs).
Proof. intros H. apply in_map_iff in H as (e & <- & He). apply mk_region_In in He as (q' & s & Hin & -> & _).
  apply in_map_iff. exists (q', s). auto. Qed.

Lemma mk_region_nodup stp gs : NoDup (map fst gs) -> NoDup (map rq (mk_region nc stp gs)).
Proof. induction gs as [|[q s] gs IH]; simpl; intros H; [constructor|]. inversion H; subst.
  change (mk_region nc stp ((q, s) :: gs)) with
    ((if (s <=? stop_of nc stp q - 1)%Z then [(q, (s, stop_of nc stp q - 1)%Z)] else []) ++ mk_region nc stp gs).
  destruct (s <=? stop_of nc stp q - 1)%Z; simpl; auto.
  constructor; auto. intros Hc. apply mk_region_qudits in Hc. contradiction. Qed.

Lemma combine_fst {A} (f : nat -> A) l : map fst (combine l (map f l)) = l.
Proof. induction l; simpl; congruence. Qed.

Definition closed_region (r : region) : Prop :=
  forall x, In x c -> forall e, In e r -> In (rq e) (oloc (snd x)) -> (rlo e <= fst x <= rhi e)%Z ->
  forall q', In q' (oloc (snd x)) -> exists e', In e' r /\ rq e' = q' /\ (rlo e' <= fst x <= rhi e')%Z.

Theorem calc_block_closed r ops :
  calc_block k nc c g (starts_of D g) = inl (r, ops) ->
  (forall e, In e r -> In (rq e) g /\ rlo e = dv D (rq e) /\ (rlo e <= rhi e)%Z) /\
  NoDup (map rq r) /\ closed_region r.
Proof.
  unfold calc_block. destruct (cb_loop k _ _) as [st'|] eqn:L; [|discriminate]. intros H. inversion H; subst; clear H.
  set (gs := combine g (starts_of D g)) in *. set (stp := snd (fst st')).
  assert (Hgs : forall q s, In (q, s) gs <-> In q g /\ s = dv D q) by (intros; apply combine_map_In).
  assert (I0 : sinv [] (g, [], @nil op)).
  { unfold sinv. simpl. split; [apply incl_refl|]. split; [intros ? []|]. split; [intros ? ? ? []|].
    split; [intros q H1 H2; contradiction| intros ? []]. }
  destruct (cb_loop_inv _ _ _ _ I0 (yields_from_sorted _ _ _ _) (fun d y Hd _ => match Hd with end)
              (fun x Hx => proj1 (region_iter_sound _ _ Hx)) L) as (done & Hinv & Hcov).
  destruct st' as [[inq stp'] acc]. simpl in stp. subst stp. simpl in Hcov.
  destruct Hinv as (I1 & Ic & I2 & I3 & I4). simpl in I1, I2, I3, I4.
  split; [|split].
  - intros e He. apply mk_region_In in He as (q & s & Hin & -> & Hle). apply Hgs in Hin as [Hq ->].
    unfold rq, rlo, rhi. simpl. auto.
  - apply mk_region_nodup. unfold gs, starts_of. rewrite combine_fst. exact Hg.
  - intros [cy X] Hx e He Hq Hint q' Hq'. simpl in *.
    apply mk_region_In in He as (q & s & Hin & -> & Hle). apply Hgs in Hin as [Hqg ->].
    unfold rq, rlo, rhi in Hq, Hint. simpl in Hq, Hint.
    assert (Hy : In (cy, X) (region_iter nc c g (starts_of D g))).
    { apply (region_iter_complete _ cy X q (dv D q)); auto; [|lia]. apply Hgs. auto. }
    (* all qudits of X are in the group, left of their stop *)
    assert (Hall : forall q'', In q'' (oloc X) -> In q'' g /\ (cy < stop_of nc stp' q'')%Z).
    { destruct (Hcov (cy, X) (or_intror Hy)) as [Hd|[He Hd]].
      - destruct (I4 _ Hd) as [Hi|Hex]; [exact Hi|]. exfalso. simpl in Hex.
        destruct (Hex q Hq Hqg) as [_ Hs]. lia.
      - exfalso. rewrite He in *. destruct (I3 q Hqg (fun f => f)) as (y & Hyd & H1 & _).
        specialize (Hd y Hyd). simpl in Hd. lia. }
    destruct (Hall q' Hq') as [Hg' Hlt].
    exists (q', (dv D q', stop_of nc stp' q' - 1)%Z). unfold rq, rlo, rhi. simpl.
    assert (Hs : (dv D q' <= cy)%Z).
    { destruct (Z_lt_le_dec cy (dv D q')) as [Hc|Hc]; auto. exfalso.
      pose proof (Hcut (cy, X) q' q Hx Hq' Hq Hc). simpl in H. lia. }
    split; [|split; [reflexivity|lia]].
    apply mk_region_In. exists q', (dv D q'). split; [apply Hgs; auto|]. split; auto. lia.
Qed.

End Calc.
