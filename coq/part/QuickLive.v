(* C08 - liveness of the QuickPartitioner model: with the blocked-qudit propagation also
   run at barriers (fx = true), or on circuits without barrier-like operations, no bin is
   left pending (the RuntimeError is unreachable). *)
From Coq Require Import List Arith Bool NArith ZArith Lia Permutation Relations.
Import ListNotations.
From BQ Require Import lib.Trace part.PartSpec part.PartCheck part.Quick part.QuickLemmas part.QuickMerge
  part.QuickInv part.QuickThm.

(* ---------- the dependency graph between live bins ---------- *)
Definition slot_prec (sa sb : slot) : bool :=
  Nat.eqb (sq sa) (sq sb) && match send sa with Some e => (e <? sstart sb)%Z | None => false end.
Definition precb (a b : bin) : bool := existsb (fun sa => existsb (slot_prec sa) (bslots b)) (bslots a).

Lemma precb_spec a b : precb a b = true <->
  exists sa sb e, In sa (bslots a) /\ In sb (bslots b) /\ sq sa = sq sb /\ send sa = Some e /\ (e < sstart sb)%Z.
Proof. unfold precb, slot_prec. rewrite existsb_exists. split.
  - intros (sa & Ha & H). apply existsb_exists in H as (sb & Hb & H).
    apply andb_true_iff in H as [H1 H2]. apply Nat.eqb_eq in H1.
    destruct (send sa) as [e|] eqn:Es; [|discriminate]. apply Z.ltb_lt in H2. exists sa, sb, e. auto.
  - intros (sa & sb & e & Ha & Hb & Eq & Es & Hlt). exists sa. split; auto. apply existsb_exists.
    exists sb. split; auto. rewrite Eq, Nat.eqb_refl, Es. simpl. apply Z.ltb_lt. exact Hlt. Qed.

Definition E (bs : list bin) (i j : nat) : Prop :=
  exists a b, In a bs /\ In b bs /\ bid a = i /\ bid b = j /\ precb a b = true.
Definition reach (bs : list bin) : nat -> nat -> Prop := clos_trans nat (E bs).

Lemma reach_mono bs bs' : (forall i j, E bs' i j -> E bs i j) -> forall i j, reach bs' i j -> reach bs i j.
Proof. intros H i j R. induction R as [x y Hxy|x y z _ IH1 _ IH2].
  - apply t_step. auto. - eapply t_trans; eauto. Qed.

Lemma close_slot_start loc cur s : sstart (close_slot loc cur s) = sstart s.
Proof. unfold close_slot. destruct (sact s && memb (sq s) loc); reflexivity. Qed.

Lemma close_slot_end loc cur s e :
  send (close_slot loc cur s) = Some e ->
  send s = Some e \/ (sact s = true /\ In (sq s) loc /\ e = (cur - 1)%Z).
Proof. unfold close_slot. destruct (sact s) eqn:A; simpl; auto.
  destruct (memb (sq s) loc) eqn:M; simpl; auto. intros H. inversion H. right. split; auto. split; auto.
  apply memb_In; auto. Qed.

Lemma close_slot_inactive loc cur s : sact s = false -> close_slot loc cur s = s.
Proof. unfold close_slot. intros ->. reflexivity. Qed.

Lemma app_assoc_reverse_cons {A} (pre : list A) x rest : (pre ++ [x]) ++ rest = pre ++ x :: rest.
Proof. rewrite <- app_assoc. reflexivity. Qed.

Section Live.
Variable k : nat.
Variable ncyc : Z.
Variable c : list cop.
Hypothesis Hord : ordered c.
Hypothesis Hcyc : forall x, In x c -> (fst x < ncyc)%Z.
Hypothesis Hnd : forall x, In x c -> NoDup (oloc (snd x)).
Hypothesis Hne : forall x, In x c -> oloc (snd x) <> [].
Notation inv := (inv k c).

Record linv (suf : list cop) (st : state) : Prop := {
  (* two live slots on the same qudit start at different cycles *)
  l_D3 : forall a b sa sb, In a (bins st) -> In b (bins st) -> In sa (bslots a) -> In sb (bslots b) ->
           sq sa = sq sb -> sstart sa = sstart sb -> bid a = bid b;
  (* a live slot starts at the dividing line or right after another live slot *)
  l_Dp : forall b s, In b (bins st) -> In s (bslots b) ->
           nth (sq s) (dl st) 0%Z = sstart s \/
           exists a sa e, In a (bins st) /\ In sa (bslots a) /\ sq sa = sq s /\ send sa = Some e /\ (e + 1 = sstart s)%Z;
  (* the next operation on q will find an active slot, the dividing line, or a live predecessor *)
  l_D5 : forall q n, next_cycle q suf = Some n ->
           (exists b s, In b (bins st) /\ In s (bslots b) /\ sq s = q /\ sact s = true) \/
           nth q (dl st) 0%Z = n \/
           (exists b s, In b (bins st) /\ In s (bslots b) /\ sq s = q /\ send s = Some (n - 1)%Z);
  l_J1 : forall i, ~ reach (bins st) i i;
  l_J2 : forall A, In A (bins st) -> any_active A = true ->
           forall j C, reach (bins st) (bid A) j -> In C (bins st) -> bid C = j ->
           incl (bqudits C) (bblocked A ++ bqudits A)
}.


Definition sub_edges (bs bs' : list bin) : Prop := forall i j, E bs' i j -> E bs i j.

Lemma J1_transfer bs bs' : sub_edges bs bs' -> (forall i, ~ reach bs i i) -> forall i, ~ reach bs' i i.
Proof. intros Hs H i R. apply (H i). eapply reach_mono; eauto. Qed.

Definition J2 (bs : list bin) : Prop :=
  forall A, In A bs -> any_active A = true ->
    forall j C, reach bs (bid A) j -> In C bs -> bid C = j -> incl (bqudits C) (bblocked A ++ bqudits A).

(* bins keep identity and qudits, blocked sets only grow, activity only shrinks, edges only disappear *)
Lemma J2_transfer bs bs' :
  NoDup (ids bs) ->
  (forall x', In x' bs' -> exists x, In x bs /\ bid x = bid x' /\ bqudits x = bqudits x' /\
                                     incl (bblocked x) (bblocked x') /\
                                     (any_active x' = true -> any_active x = true)) ->
  sub_edges bs bs' -> J2 bs -> J2 bs'.
Proof. intros Hnd' Hm Hs H A' HA' Act j C' R HC' EC'.
  destruct (Hm A' HA') as (A & HA & IA & QA & BA & AA).
  destruct (Hm C' HC') as (C & HC & IC & QC & _ & _).
  rewrite <- QC, <- QA. intros q Hq.
  assert (In q (bblocked A ++ bqudits A)).
  { apply (H A HA (AA Act) j C); auto; [|congruence]. rewrite IA. eapply reach_mono; eauto. }
  apply in_app_or in H0 as [H0|H0]; apply in_or_app; auto. Qed.

(* every live slot on a qudit of the current location started before the current cycle *)
Lemma slot_start_lt pre st loc cur b s :
  inv pre st ->
  (forall q, In q loc -> forall x, In x pre -> touch q x = true -> (fst x < cur)%Z) ->
  In b (bins st) -> In s (bslots b) -> In (sq s) loc -> (sstart s < cur)%Z.
Proof. intros I Hp Hb Hs Hq. destruct I as [_ _ _ i_static0 _ _ _ _ _ _ _ _].
  destruct (i_static0 b Hb) as (_ & _ & S3 & _). rewrite Forall_forall in S3.
  destruct (S3 s Hs) as [(x & Hx & Tx & Ex) _]. rewrite <- Ex. eapply Hp; eauto. Qed.

Lemma active_end_none pre st b s :
  inv pre st -> In b (bins st) -> In s (bslots b) -> sact s = true -> send s = None.
Proof. intros I Hb Hs Ha. destruct I as [_ _ _ i_static0 _ _ _ _ _ _ _ _].
  destruct (i_static0 b Hb) as (_ & _ & S3 & _). rewrite Forall_forall in S3.
  destruct (S3 s Hs) as [_ S]. rewrite Ha in S. tauto. Qed.

(* ---------- close_bin_qudits ---------- *)
Lemma close_bin_linv pre suf id loc cur st st' fl :
  c = pre ++ suf ->
  (forall q, In q loc -> forall x, In x pre -> touch q x = true -> (fst x < cur)%Z) ->
  (forall q n, In q loc -> next_cycle q suf = Some n -> n = cur) ->
  inv pre st -> linv suf st -> close_bin id loc cur st = inl (st', fl) -> linv suf st'.
Proof. intros Hc Hp Hn I L H.
  pose proof (fun b s => slot_start_lt pre st loc cur b s I Hp) as W.
  pose proof (fun b s => active_end_none pre st b s I) as AE.
  unfold close_bin in H. destruct (getb id (bins st)) as [b|] eqn:G; [|discriminate].
  pose proof I as I'. destruct I' as [i_nd0 _ _ _ _ _ _ _ _ _ _ _].
  destruct (getb_split _ _ _ i_nd0 G) as (l1 & l2 & Eb & N1 & N2).
  apply getb_In in G as [Gin Gid]. subst id.
  set (b' := with_slots b (map (close_slot loc cur) (bslots b))) in *.
  assert (Hbins : bins st' = l1 ++ b' :: l2).
  { inversion H; subst. simpl. rewrite Eb. apply putb_split; auto. }
  assert (Hdl : dl st' = dl st) by (inversion H; reflexivity).
  (* every new bin x' comes from an old bin x; slots are mapped by f (identity except for b) *)
  assert (Hcor : forall x', In x' (bins st') ->
     exists x, In x (bins st) /\ bid x = bid x' /\ bblocked x = bblocked x' /\
       ((x' = b' /\ x = b) \/ (x' = x /\ bid x <> bid b))).
  { intros x' Hx. rewrite Hbins in Hx. apply in_mid in Hx as [Hx|[Hx|Hx]].
    - exists x'. split; [rewrite Eb; apply in_or_app; auto|]. repeat split; auto. right. split; auto.
      intros E0. apply N1. rewrite <- E0. apply in_map; auto.
    - subst x'. exists b. repeat split; auto.
    - exists x'. split; [rewrite Eb; apply in_or_app; right; right; auto|]. repeat split; auto. right. split; auto.
      intros E0. apply N2. rewrite <- E0. apply in_map; auto. }
  (* slots of a new bin come from slots of its old version *)
  assert (Hsl : forall x' s', In x' (bins st') -> In s' (bslots x') ->
     exists x s, In x (bins st) /\ bid x = bid x' /\ In s (bslots x) /\ sq s' = sq s /\ sstart s' = sstart s /\
       (s' = s \/ (x = b /\ s' = close_slot loc cur s /\ sact s = true /\ In (sq s) loc /\
                   send s' = Some (cur - 1)%Z /\ sact s' = false))).
  { intros x' s' Hx Hs'. destruct (Hcor x' Hx) as (x & Hxin & Ei & _ & [[-> ->]|[-> Hne']]).
    - unfold b' in Hs'. simpl in Hs'. apply in_map_iff in Hs' as (s & <- & Hs).
      exists b, s. rewrite close_slot_sq, close_slot_start. repeat split; auto.
      destruct (sact s) eqn:A; [destruct (memb (sq s) loc) eqn:M|].
      + right. repeat split; auto; try (apply memb_In; exact M); unfold close_slot; rewrite A, M; reflexivity.
      + left. unfold close_slot. rewrite A, M. reflexivity.
      + left. unfold close_slot. rewrite A. reflexivity.
    - exists x, s'. repeat split; auto. }
  (* and every old slot has a new version *)
  assert (Hfw : forall x s, In x (bins st) -> In s (bslots x) ->
     exists x' s', In x' (bins st') /\ bid x' = bid x /\ In s' (bslots x') /\ sq s' = sq s /\ sstart s' = sstart s /\
       (sact s = false -> s' = s) /\ (sact s = true -> ~ In (sq s) loc -> s' = s) /\
       (sact s = true -> In (sq s) loc -> x = b -> send s' = Some (cur - 1)%Z) /\
       (x <> b -> s' = s)).
  { intros x s Hx Hs0. rewrite Eb in Hx. apply in_mid in Hx as [Hx|[Hx|Hx]].
    - exists x, s. split; [rewrite Hbins; apply in_or_app; auto|]. repeat split; auto.
      intros _ _ ->. exfalso. apply N1. apply in_map; auto.
    - subst x. exists b', (close_slot loc cur s).
      split; [rewrite Hbins; apply in_or_app; right; left; auto|]. split; auto.
      split; [unfold b'; simpl; apply in_map; auto|].
      rewrite close_slot_sq, close_slot_start. repeat split; auto.
      + intros A. apply close_slot_inactive; auto.
      + intros A Nq. unfold close_slot. rewrite A. apply memb_false in Nq. rewrite Nq. reflexivity.
      + intros A Iq _. unfold close_slot. rewrite A. apply memb_In in Iq. rewrite Iq. reflexivity.
      + intros Hne'. congruence.
    - exists x, s. split; [rewrite Hbins; apply in_or_app; right; right; auto|]. repeat split; auto.
      intros _ _ ->. exfalso. apply N2. apply in_map; auto. }
  assert (Hsub : sub_edges (bins st) (bins st')).
  { intros i j (a' & t' & Ha' & Ht' & <- & <- & Hp'). apply precb_spec in Hp' as (sa' & sb' & e & Hsa & Hsb & Eq & Ee & Hlt).
    destruct (Hsl a' sa' Ha' Hsa) as (a & sa & Ha & Eia & Hsa0 & Eqa & Esa & Ca).
    destruct (Hsl t' sb' Ht' Hsb) as (t & sb & Ht & Eit & Hsb0 & Eqb & Esb & _).
    exists a, t. repeat split; auto. apply precb_spec.
    destruct Ca as [->|(-> & -> & A & Iq & Es' & _)].
    - exists sa, sb, e. repeat split; auto; congruence.
    - exfalso. rewrite Es' in Ee. inversion Ee; subst e.
      assert (sstart sb < cur)%Z. { apply (W t sb); auto. rewrite <- Eqb, <- Eq, Eqa. exact Iq. }
      lia. }
  destruct L as [D3 Dp D5 J1 J2'].
  constructor.
  - intros a' t' sa' sb' Ha' Ht' Hsa Hsb Eq Es.
    destruct (Hsl a' sa' Ha' Hsa) as (a & sa & Ha & Eia & Hsa0 & Eqa & Esa & _).
    destruct (Hsl t' sb' Ht' Hsb) as (t & sb & Ht & Eit & Hsb0 & Eqb & Esb & _).
    rewrite <- Eia, <- Eit. apply (D3 a t sa sb); auto; congruence.
  - intros x' s' Hx' Hs'. rewrite Hdl.
    destruct (Hsl x' s' Hx' Hs') as (x & s & Hx & Eix & Hs0 & Eq & Es & _).
    rewrite Eq, Es. destruct (Dp x s Hx Hs0) as [D|(a & sa & e & Ha & Hsa & Eqa & Ea & He)]; auto.
    right. destruct (Hfw a sa Ha Hsa) as (a' & sa' & Ha' & _ & Hsa' & Eq' & _ & F1 & _).
    assert (sact sa = false).
    { destruct (sact sa) eqn:A; auto. rewrite (AE a sa Ha Hsa A) in Ea. discriminate. }
    rewrite (F1 H0) in *. exists a', sa, e. repeat split; auto.
  - intros q n Hq. rewrite Hdl. destruct (D5 q n Hq) as [(x & s & Hx & Hs0 & Eq & A)|[D|(x & s & Hx & Hs0 & Eq & Ee)]]; auto.
    + destruct (Hfw x s Hx Hs0) as (x' & s' & Hx' & _ & Hs' & Eq' & _ & _ & F2 & F3 & F4).
      destruct (in_dec Nat.eq_dec (sq s) loc) as [Iq|Nq].
      * destruct (Nat.eq_dec (bid x) (bid b)) as [Ex|Nx'].
        -- assert (x = b) by (eapply nodup_ids_eq; eauto). subst x.
           right; right. exists x', s'. repeat split; auto; [congruence|].
           rewrite (F3 A Iq eq_refl). rewrite Eq in Iq. rewrite (Hn q n Iq Hq). reflexivity.
        -- assert (Nx : x <> b) by (intros ->; apply Nx'; reflexivity).
           left. exists x', s'. rewrite (F4 Nx) in *. repeat split; auto.
      * left. exists x', s'. rewrite (F2 A Nq) in *. repeat split; auto.
    + right; right. destruct (Hfw x s Hx Hs0) as (x' & s' & Hx' & _ & Hs' & Eq' & _ & F1 & _).
      assert (sact s = false).
      { destruct (sact s) eqn:A; auto. rewrite (AE x s Hx Hs0 A) in Ee. discriminate. }
      rewrite (F1 H0) in *. exists x', s. repeat split; auto.
  - apply (J1_transfer (bins st)); auto.
  - apply (J2_transfer (bins st)); auto.
    intros x' Hx'. destruct (Hcor x' Hx') as (x & Hx & Ei & Bx & [[-> ->]|[-> Hne']]).
    + exists b. repeat split; auto.
      * unfold bqudits, b'. simpl. symmetry. apply map_close_slot_sq.
      * rewrite Bx. apply incl_refl.
      * intros Aa. apply any_active_ex in Aa as [q Aq]. apply is_active_slot in Aq as (s' & Hs' & _ & As).
        unfold b' in Hs'. simpl in Hs'. apply in_map_iff in Hs' as (s & <- & Hs0).
        apply close_slot_active in As as (_ & As & _). unfold any_active. apply existsb_exists. eauto.
    + exists x. repeat split; auto. apply incl_refl.
Qed.


(* ---------- updates that only enlarge blocked_qudits ---------- *)
Definition bog (bs bs' : list bin) : Prop :=
  Forall2 (fun b b' => exists l, b' = with_blocked b l /\ incl (bblocked b) l) bs bs'.

Lemma bog_refl bs : bog bs bs.
Proof. induction bs; constructor; auto. exists (bblocked a). split; [symmetry; apply with_blocked_self| apply incl_refl]. Qed.

Lemma bog_trans a b d : bog a b -> bog b d -> bog a d.
Proof. intros H. revert d. induction H as [|x y l l' (lx & -> & Hx) H IH]; intros d Hd; inversion Hd; subst; constructor.
  - destruct H2 as (ly & -> & Hy). exists ly. split; [reflexivity|]. simpl in Hy. eapply incl_tran; eauto.
  - apply IH; auto. Qed.

Lemma bog_map f bs : (forall b, exists l, f b = with_blocked b l /\ incl (bblocked b) l) -> bog bs (map f bs).
Proof. intros H. induction bs; simpl; constructor; auto. Qed.

Lemma bog_bo bs bs' : bog bs bs' -> bo bs bs'.
Proof. induction 1 as [|x y l l' (lx & -> & _) H IH]; constructor; auto. exists lx; auto. Qed.

Lemma bog_facts bs bs' : bog bs bs' ->
  (forall b', In b' bs' -> exists b l, In b bs /\ b' = with_blocked b l /\ incl (bblocked b) l) /\
  (forall b, In b bs -> exists l, In (with_blocked b l) bs' /\ incl (bblocked b) l).
Proof. induction 1 as [|x y l l' (lx & -> & Hx) H IH]; simpl.
  - split; intros ? [].
  - destruct IH as (I3 & I4). split.
    + intros b' [<-|Hb']; [exists x, lx; auto|]. destruct (I3 b' Hb') as (b & l0 & Hb & -> & Hi). exists b, l0; auto.
    + intros b [->|Hb]; [exists lx; auto|]. destruct (I4 b Hb) as (l0 & Hl0 & Hi). exists l0; auto. Qed.

Lemma linv_bog pre suf st bs' : inv pre st -> linv suf st -> bog (bins st) bs' -> linv suf (set_bins st bs').
Proof. intros I L Hb. destruct (bog_facts _ _ Hb) as [F3 F4]. destruct L as [D3 Dp D5 J1 J2'].
  assert (Hsub : sub_edges (bins st) bs').
  { intros i j (a' & t' & Ha' & Ht' & <- & <- & Hp').
    destruct (F3 a' Ha') as (a & la & Ha & -> & _). destruct (F3 t' Ht') as (t & lt & Ht & -> & _).
    exists a, t. repeat split; auto. }
  constructor; simpl.
  - intros a' t' sa sb Ha' Ht' Hsa Hsb Eq Es.
    destruct (F3 a' Ha') as (a & la & Ha & -> & _). destruct (F3 t' Ht') as (t & lt & Ht & -> & _).
    apply (D3 a t sa sb); auto.
  - intros x' s Hx' Hs. destruct (F3 x' Hx') as (x & lx & Hx & -> & _).
    destruct (Dp x s Hx Hs) as [D|(a & sa & e & Ha & Hsa & R)]; auto.
    right. destruct (F4 a Ha) as (la & Hla & _). exists (with_blocked a la), sa, e. auto.
  - intros q n Hq. destruct (D5 q n Hq) as [(x & s & Hx & Hs & R)|[D|(x & s & Hx & Hs & R)]]; auto.
    + left. destruct (F4 x Hx) as (lx & Hlx & _). exists (with_blocked x lx), s. auto.
    + right; right. destruct (F4 x Hx) as (lx & Hlx & _). exists (with_blocked x lx), s. auto.
  - apply (J1_transfer (bins st)); auto.
  - apply (J2_transfer (bins st)); auto.
    + destruct I; auto.
    + intros x' Hx'. destruct (F3 x' Hx') as (x & lx & Hx & -> & Hi). exists x. repeat split; auto. Qed.

Lemma linv_set_nclosed suf st n : linv suf st -> linv suf (set_nclosed st n).
Proof. intros []. constructor; auto. Qed.

(* ---------- close_where / close_barrier ---------- *)
Lemma close_count_linv pre suf id loc cur st st' :
  c = pre ++ suf ->
  (forall q, In q loc -> forall x, In x pre -> touch q x = true -> (fst x < cur)%Z) ->
  (forall q n, In q loc -> next_cycle q suf = Some n -> n = cur) ->
  inv pre st -> linv suf st -> close_count id loc cur st = inl st' -> linv suf st'.
Proof. intros Hc Hp Hn I L H. unfold close_count in H.
  destruct (close_bin id loc cur st) as [[st1 fl]|] eqn:C; [|discriminate].
  assert (L1 : linv suf st1) by (exact (close_bin_linv pre suf id loc cur st st1 fl Hc Hp Hn I L C)).
  inversion H; subst. destruct fl; auto. apply linv_set_nclosed; auto. Qed.

Lemma close_where_linv keep pre suf loc cur : forall l st st',
  c = pre ++ suf ->
  (forall q, In q loc -> forall x, In x pre -> touch q x = true -> (fst x < cur)%Z) ->
  (forall q, In q loc -> forall y, In y suf -> touch q y = true -> (cur <= fst y)%Z) ->
  (forall q n, In q loc -> next_cycle q suf = Some n -> n = cur) ->
  inv pre st -> linv suf st -> close_where keep loc cur l st = inl st' -> linv suf st'.
Proof. induction l as [|x l IH]; simpl; intros st st' Hc Hp Hs Hn I L H.
  - inversion H; subst. auto.
  - destruct (keep x) eqn:K; [eapply IH; eauto|].
    destruct (close_count (fst x) loc cur st) as [st1|] eqn:C; [|discriminate].
    assert (L1 : linv suf st1) by (exact (close_count_linv pre suf (fst x) loc cur st st1 Hc Hp Hn I L C)).
    destruct (close_count_inv k ncyc c Hord Hcyc Hnd Hne pre suf _ _ _ _ _ Hc Hp Hs I C) as [I1 _].
    eapply IH; eauto. Qed.

Lemma close_barrier_linv pre suf loc cur : forall ids st st',
  c = pre ++ suf ->
  (forall q, In q loc -> forall x, In x pre -> touch q x = true -> (fst x < cur)%Z) ->
  (forall q, In q loc -> forall y, In y suf -> touch q y = true -> (cur <= fst y)%Z) ->
  (forall q n, In q loc -> next_cycle q suf = Some n -> n = cur) ->
  inv pre st -> linv suf st -> close_barrier loc cur ids st = inl st' -> linv suf st'.
Proof. induction ids as [|id ids IH]; simpl; intros st st' Hc Hp Hs Hn I L H.
  - inversion H; subst. auto.
  - destruct (close_bin id loc cur st) as [[st1 fl]|] eqn:C; [|discriminate].
    assert (I1 : inv pre st1) by (eapply close_bin_inv; eauto).
    assert (L1 : linv suf st1) by (exact (close_bin_linv pre suf id loc cur st st1 fl Hc Hp Hn I L C)).
    destruct fl.
    + eapply IH; [..|exact H]; auto. apply inv_set_nclosed; auto. apply linv_set_nclosed; auto.
    + assert (Hbg : bog (bins st1) (map (fun A => if Nat.eqb (bid A) id
               then with_blocked A (union (filter (fun q => negb (memb q (bqudits A))) loc) (bblocked A))
               else A) (bins st1))).
      { apply bog_map. intros b. destruct (Nat.eqb (bid b) id).
        - eexists. split; [reflexivity|]. intros q Hq. apply union_In. auto.
        - exists (bblocked b). split; [symmetry; apply with_blocked_self| apply incl_refl]. }
      eapply IH; [..|exact H]; auto.
      * apply inv_bo; auto. apply bog_bo; auto.
      * apply linv_bog with (pre := pre); auto. Qed.


(* ---------- emitting a ready pending bin ---------- *)
Lemma delb_In id bs x : In x (delb id bs) <-> In x bs /\ bid x <> id.
Proof. unfold delb. rewrite filter_In. split; intros [H1 H2]; split; auto.
  - apply negb_true_iff in H2. apply Nat.eqb_neq; auto.
  - apply negb_true_iff. apply Nat.eqb_neq; auto. Qed.

Lemma emit_linv pre suf st b :
  c = pre ++ suf ->
  inv pre st -> linv suf st -> In b (bins st) -> In (bid b) (pend st) -> ready (dl st) b = true ->
  linv suf (emit ncyc b st).
Proof. intros Hc I L Hb Hp Hr. destruct L as [D3 Dp D5 J1 J2'].
  pose proof I as I'. destruct I' as [i_nd0 _ _ i_static0 _ _ i_pend0 _ _ _ _ _].
  assert (Hina : any_active b = false) by (eapply i_pend0; eauto).
  destruct (i_static0 b Hb) as (S1 & _ & S3 & _).
  assert (Hrdy : forall s0, In s0 (bslots b) -> nth (sq s0) (dl st) 0%Z = sstart s0).
  { intros s0 Hs0. unfold ready in Hr. rewrite forallb_forall in Hr. apply Z.eqb_eq. apply Hr; auto. }
  assert (Hsub : sub_edges (bins st) (delb (bid b) (bins st))).
  { intros i j (a' & t' & Ha' & Ht' & <- & <- & Hp'). apply delb_In in Ha' as [Ha' _]. apply delb_In in Ht' as [Ht' _].
    exists a', t'. auto. }
  constructor; simpl.
  - intros a t sa sb Ha Ht. apply delb_In in Ha as [Ha _]. apply delb_In in Ht as [Ht _]. apply D3; auto.
  - intros x s Hx Hs. apply delb_In in Hx as [Hx Nx].
    destruct (Dp x s Hx Hs) as [D|(a & sa & e & Ha & Hsa & Eq & Ee & He)].
    + left. rewrite advance_notin; auto. intros Hq. apply in_map_iff in Hq as (s0 & Es0 & Hs0).
      apply Nx. apply (D3 x b s s0); auto. rewrite <- D. rewrite <- Es0. apply Hrdy; auto.
    + destruct (Nat.eq_dec (bid a) (bid b)) as [Ea|Na].
      * assert (a = b) by (eapply nodup_ids_eq; eauto). subst a. left.
        rewrite <- Eq. rewrite (advance_in ncyc _ _ sa S1 Hsa), Ee. exact He.
      * right. exists a, sa, e. repeat split; auto. apply delb_In; auto.
  - intros q n Hq. destruct (D5 q n Hq) as [(x & s & Hx & Hs & Eq & A)|[D|(x & s & Hx & Hs & Eq & Ee)]].
    + left. exists x, s. repeat split; auto. apply delb_In. split; auto. intros Ex.
      assert (x = b) by (eapply nodup_ids_eq; eauto). subst x.
      assert (sact s = false) by (eapply any_inactive_slots; eauto). congruence.
    + right; left. rewrite advance_notin; auto. intros Hq'. apply in_map_iff in Hq' as (s0 & Es0 & Hs0).
      (* a live slot cannot start at the cycle of an unprocessed operation *)
      rewrite Forall_forall in S3. destruct (S3 s0 Hs0) as [(x & Hx & Tx & Ex) _].
      pose proof (next_cycle_spec q suf) as NC. rewrite Hq in NC. destruct NC as (r1 & y & r2 & Er & _ & Ty & Ey).
      assert (fst x < fst y)%Z.
      { apply in_split in Hx as (p1 & p2 & ->). apply (Hord p1 x (p2 ++ r1 ++ y :: r2) y q).
        - rewrite Hc, Er, <- app_assoc. reflexivity.
        - apply in_or_app. right. apply in_or_app. right. left. reflexivity.
        - rewrite <- Es0. exact Tx. - exact Ty. }
      rewrite <- Es0 in D. rewrite (Hrdy s0 Hs0) in D. lia.
    + destruct (Nat.eq_dec (bid x) (bid b)) as [Ex|Nx].
      * assert (x = b) by (eapply nodup_ids_eq; eauto). subst x. right; left.
        rewrite <- Eq. rewrite (advance_in ncyc _ _ s S1 Hs), Ee. lia.
      * right; right. exists x, s. repeat split; auto. apply delb_In; auto.
  - apply (J1_transfer (bins st)); auto.
  - apply (J2_transfer (bins st)); auto.
    intros x' Hx'. apply delb_In in Hx' as [Hx' _]. exists x'. repeat split; auto. apply incl_refl. Qed.

Lemma process_pending_linv pre suf : forall fuel st st',
  c = pre ++ suf -> inv pre st -> linv suf st -> process_pending fuel ncyc st = inl st' -> linv suf st'.
Proof. induction fuel as [|f IH]; simpl; intros st st' Hc I L H; [discriminate|].
  destruct (find_ready (bins st) (dl st) (pend st)) as [[b|]|] eqn:F; [| |discriminate].
  - apply find_ready_spec in F as (F1 & F2 & F3).
    assert (I1 : inv pre (emit ncyc b st)) by (eapply emit_inv; eauto).
    assert (L1 : linv suf (emit ncyc b st)) by (eapply emit_linv; eauto).
    eapply IH; eauto.
  - inversion H; subst. auto. Qed.


(* ---------- linv = (the four structural clauses) + J2 ---------- *)
Definition dprops (suf : list cop) (st : state) : Prop :=
  (forall a b sa sb, In a (bins st) -> In b (bins st) -> In sa (bslots a) -> In sb (bslots b) ->
           sq sa = sq sb -> sstart sa = sstart sb -> bid a = bid b) /\
  (forall b s, In b (bins st) -> In s (bslots b) ->
           nth (sq s) (dl st) 0%Z = sstart s \/
           exists a sa e, In a (bins st) /\ In sa (bslots a) /\ sq sa = sq s /\ send sa = Some e /\ (e + 1 = sstart s)%Z) /\
  (forall q n, next_cycle q suf = Some n ->
           (exists b s, In b (bins st) /\ In s (bslots b) /\ sq s = q /\ sact s = true) \/
           nth q (dl st) 0%Z = n \/
           (exists b s, In b (bins st) /\ In s (bslots b) /\ sq s = q /\ send s = Some (n - 1)%Z)) /\
  (forall i, ~ reach (bins st) i i).

Lemma linv_split suf st : linv suf st <-> dprops suf st /\ J2 (bins st).
Proof. split.
  - intros [D3 Dp D5 J1 J2']. repeat split; auto.
  - intros [(D3 & Dp & D5 & J1) J2']. constructor; auto. Qed.

Lemma dprops_bog suf st bs' : dprops suf st -> bog (bins st) bs' -> dprops suf (set_bins st bs').
Proof. intros (D3 & Dp & D5 & J1) Hb. destruct (bog_facts _ _ Hb) as [F3 F4].
  assert (Hsub : sub_edges (bins st) bs').
  { intros i j (a' & t' & Ha' & Ht' & <- & <- & Hp').
    destruct (F3 a' Ha') as (a & la & Ha & -> & _). destruct (F3 t' Ht') as (t & lt & Ht & -> & _).
    exists a, t. repeat split; auto. }
  repeat split; simpl.
  - intros a' t' sa sb Ha' Ht' Hsa Hsb Eq Es.
    destruct (F3 a' Ha') as (a & la & Ha & -> & _). destruct (F3 t' Ht') as (t & lt & Ht & -> & _).
    apply (D3 a t sa sb); auto.
  - intros x' s Hx' Hs. destruct (F3 x' Hx') as (x & lx & Hx & -> & _).
    destruct (Dp x s Hx Hs) as [D|(a & sa & e & Ha & Hsa & R)]; auto.
    right. destruct (F4 a Ha) as (la & Hla & _). exists (with_blocked a la), sa, e. auto.
  - intros q n Hq. destruct (D5 q n Hq) as [(x & s & Hx & Hs & R)|[D|(x & s & Hx & Hs & R)]]; auto.
    + left. destruct (F4 x Hx) as (lx & Hlx & _). exists (with_blocked x lx), s. auto.
    + right; right. destruct (F4 x Hx) as (lx & Hlx & _). exists (with_blocked x lx), s. auto.
  - apply (J1_transfer (bins st)); auto. Qed.

(* ---------- adding edges that all point INTO one bin ---------- *)
Lemma reach_into bs bs' sel (NewPred : nat -> Prop) :
  (forall i j, E bs' i j -> E bs i j \/ (j = sel /\ NewPred i)) ->
  forall i j, reach bs' i j ->
    reach bs i j \/
    exists p, NewPred p /\ (i = p \/ reach bs i p) /\ (j = sel \/ reach bs sel j).
Proof. intros H i j R. induction R as [x y Hxy|x y z _ IH1 _ IH2].
  - destruct (H x y Hxy) as [Ho|[-> Hn]]; [left; apply t_step; auto|].
    right. exists x. auto.
  - destruct IH1 as [L1|(p & Np & P1 & P2)], IH2 as [L2|(p' & Np' & P1' & P2')].
    + left. eapply t_trans; eauto.
    + right. exists p'. split; auto. split; auto. right.
      destruct P1' as [->|P1']; auto. eapply t_trans; eauto.
    + right. exists p. split; auto. split; auto. right.
      destruct P2 as [->|P2]; auto. eapply t_trans; eauto.
    + right. exists p. auto. Qed.

Lemma J1_into bs bs' sel (NewPred : nat -> Prop) :
  (forall i j, E bs' i j -> E bs i j \/ (j = sel /\ NewPred i)) ->
  (forall p, NewPred p -> p <> sel /\ ~ reach bs sel p) ->
  (forall i, ~ reach bs i i) -> forall i, ~ reach bs' i i.
Proof. intros H K J1 i R. destruct (reach_into bs bs' sel NewPred H i i R) as [L|(p & Np & P1 & P2)].
  - apply (J1 i L).
  - destruct (K p Np) as [K1 K2]. destruct P2 as [->|P2].
    + destruct P1 as [->|P1]; auto.
    + apply K2. destruct P1 as [->|P1]; auto. eapply t_trans; eauto. Qed.


(* ---------- what block_update does ---------- *)
Definition trigger (sb A : bin) : bool := existsb (fun x => memb x (bqudits sb)) (bblocked A ++ bqudits A).

Lemma Forall2_map_l {A B C} (R : B -> C -> Prop) (g : A -> B) : forall l r,
  Forall2 R (map g l) r -> Forall2 (fun x y => R (g x) y) l r.
Proof. induction l as [|x l IH]; simpl; intros r H; inversion H; subst; constructor; auto. Qed.

Lemma Forall2_impl' {A B} (R R' : A -> B -> Prop) l r :
  (forall x y, R x y -> R' x y) -> Forall2 R l r -> Forall2 R' l r.
Proof. intros H. induction 1; constructor; auto. Qed.

Lemma with_blocked_twice b l0 l : with_blocked (with_blocked b l0) l = with_blocked b l.
Proof. reflexivity. Qed.

Definition bspec (sel : nat) (sb : bin) (a : list (option nat)) (b b' : bin) : Prop :=
  (exists l, b' = with_blocked b l /\ incl (bblocked b) l) /\
  (In (Some (bid b)) a -> bid b <> sel -> trigger sb b = true ->
   incl (bqudits sb ++ bblocked sb) (bblocked b')).

Lemma block_fold_spec sel sb : forall a bs,
  Forall2 (bspec sel sb a) bs
    (fold_left (fun bs ab =>
         match ab with
         | None => bs
         | Some a => if Nat.eqb a sel then bs
                     else map (fun A => if Nat.eqb (bid A) a then block_one sb A else A) bs
         end) a bs).
Proof. induction a as [|x a IH]; simpl; intros bs.
  - induction bs; constructor; auto. split; [|intros []].
    exists (bblocked a). split; [symmetry; apply with_blocked_self| apply incl_refl].
  - destruct x as [id|].
    2:{ eapply Forall2_impl'; [|apply IH]. intros b b' [P1 P2]. split; auto.
        intros [Hd|Hin]; [discriminate| auto]. }
    destruct (Nat.eqb id sel) eqn:Es.
    + apply Nat.eqb_eq in Es. subst id.
      eapply Forall2_impl'; [|apply IH]. intros b b' [P1 P2]. split; auto.
      intros [Hd|Hin] Hn; [inversion Hd; congruence| auto].
    + specialize (IH (map (fun A => if Nat.eqb (bid A) id then block_one sb A else A) bs)).
      apply Forall2_map_l in IH. eapply Forall2_impl'; [|exact IH].
      intros b b' [P1 P2]. simpl in *. destruct (Nat.eqb (bid b) id) eqn:Eb.
      * (* this bin is updated now *)
        unfold block_one in *. fold (trigger sb b) in *.
        destruct (trigger sb b) eqn:T.
        -- destruct P1 as (l & -> & Hl). simpl in Hl. split.
           ++ exists l. split; [reflexivity|]. intros q Hq. apply Hl. apply union_In. auto.
           ++ intros _ _ _ q Hq. simpl. apply Hl. apply union_In. auto.
        -- split; auto. intros _ _ Ht. congruence.
      * split; auto. intros [Hd|Hin]; auto. inversion Hd. subst id. rewrite Nat.eqb_refl in Eb. discriminate. Qed.

Lemma block_update_spec sel st st' :
  block_update sel st = inl st' ->
  exists sb bs', getb sel (bins st) = Some sb /\ st' = set_bins st bs' /\
                 Forall2 (bspec sel sb (act st)) (bins st) bs'.
Proof. unfold block_update. destruct (getb sel (bins st)) as [sb|] eqn:G; [|discriminate].
  intros H. inversion H; subst. exists sb. eexists. split; auto. split; [reflexivity|]. apply block_fold_spec. Qed.

Lemma bspec_bog sel sb a bs bs' : Forall2 (bspec sel sb a) bs bs' -> bog bs bs'.
Proof. induction 1 as [|x y l l' [P1 _] H IH]; constructor; auto. Qed.

Lemma Forall2_In_r {A B} (R : A -> B -> Prop) l r y : Forall2 R l r -> In y r -> exists x, In x l /\ R x y.
Proof. intros H. induction H as [|x0 y0 l0 r0 Hxy H IH]; intros Hy; [destruct Hy|].
  destruct Hy as [<-|Hy]; [exists x0; split; [left; reflexivity| exact Hxy]|].
  destruct (IH Hy) as (x1 & Hx1 & Rx). exists x1. split; [right; exact Hx1| exact Rx]. Qed.


Lemma reach_ends bs i j : reach bs i j ->
  (exists a0, In a0 bs /\ bid a0 = i /\ bslots a0 <> []) /\
  (exists t q, In t bs /\ bid t = j /\ In q (bqudits t)).
Proof. induction 1 as [x y (a & t & Ha & Ht & Ia & It & Hp)|x y z _ [IH1 _] _ [_ IH2]]; auto.
  apply precb_spec in Hp as (sa & sb & e & Hsa & Hsb & _). split.
  - exists a. repeat split; auto. intros E0. rewrite E0 in Hsa. destruct Hsa.
  - exists t, (sq sb). repeat split; auto. apply in_map; auto. Qed.

Lemma trigger_true sb A q :
  In q (bblocked A ++ bqudits A) -> In q (bqudits sb) -> trigger sb A = true.
Proof. intros H1 H2. unfold trigger. apply existsb_exists. exists q. split; auto. apply memb_In; auto. Qed.

(* J2 is re-established by block_update after edges INTO sel have been added *)
Lemma J2_after_block bs bs1 bs2 sel S' a (NewPred : nat -> Prop) :
  NoDup (ids bs) -> NoDup (ids bs1) ->
  (forall i, ~ reach bs i i) -> J2 bs ->
  (forall i j, E bs1 i j -> E bs i j \/ (j = sel /\ NewPred i)) ->
  (forall p, NewPred p -> p <> sel /\ ~ reach bs sel p) ->
  In S' bs1 -> bid S' = sel ->
  (forall x1, In x1 bs1 -> bid x1 <> sel -> In x1 bs) ->
  (forall S, In S bs -> bid S = sel ->
     incl (bqudits S) (bqudits S') /\ incl (bblocked S) (bblocked S') /\ (bslots S = [] \/ any_active S = true)) ->
  (forall p, NewPred p -> exists P q, In P bs /\ bid P = p /\ In q (bqudits P) /\ In q (bqudits S')) ->
  Forall2 (bspec sel S' a) bs1 bs2 ->
  (forall x1, In x1 bs1 -> any_active x1 = true -> bid x1 <> sel -> In (Some (bid x1)) a) ->
  J2 bs2.
Proof. intros Hnd0 Hnd1 J1 J2' H1 K HS' IS' Hcor Hsel NP Hspec HactA.
  assert (Hsub : sub_edges bs1 bs2).
  { intros i j (a' & t' & Ha' & Ht' & <- & <- & Hp').
    destruct (Forall2_In_r _ _ _ _ Hspec Ha') as (a1 & Ha1 & [(la & -> & _) _]).
    destruct (Forall2_In_r _ _ _ _ Hspec Ht') as (t1 & Ht1 & [(lt & -> & _) _]).
    exists a1, t1. repeat split; auto. }
  intros A2 HA2 Act j C2 R HC2 EC2.
  destruct (Forall2_In_r _ _ _ _ Hspec HA2) as (A1 & HA1 & [(la & -> & Hla) PA]).
  destruct (Forall2_In_r _ _ _ _ Hspec HC2) as (C1 & HC1 & [(lc & -> & _) _]).
  change (bid (with_blocked A1 la)) with (bid A1) in *.
  change (bid (with_blocked C1 lc)) with (bid C1) in *.
  change (any_active (with_blocked A1 la)) with (any_active A1) in Act.
  change (bqudits (with_blocked C1 lc)) with (bqudits C1).
  change (bqudits (with_blocked A1 la)) with (bqudits A1).
  change (bblocked (with_blocked A1 la)) with la.
  change (bblocked (with_blocked A1 la)) with la in PA.
  assert (R1 : reach bs1 (bid A1) j) by (eapply reach_mono; eauto).
  assert (Huse : forall S, In S bs -> bid S = sel -> bslots S <> [] ->
            forall C, reach bs sel (bid C) -> In C bs -> incl (bqudits C) (bblocked S' ++ bqudits S')).
  { intros S HS IS NS C RC HC. destruct (Hsel S HS IS) as (Q1 & Q2 & [Q3|Q3]); [contradiction|].
    intros q Hq. assert (In q (bblocked S ++ bqudits S)).
    { apply (J2' S HS Q3 (bid C) C); auto. rewrite IS. exact RC. }
    apply in_app_or in H as [H|H]; apply in_or_app; auto. }
  destruct (Nat.eq_dec (bid A1) sel) as [Ea|Na].
  - (* the selected bin itself *)
    assert (A1 = S') by (apply (nodup_ids_eq bs1 A1 S' Hnd1 HA1 HS'); congruence). subst A1.
    destruct (reach_into bs bs1 sel NewPred H1 _ _ R1) as [L|(p & Np & P1 & P2)].
    + rewrite Ea in L. destruct (reach_ends _ _ _ L) as [(S & HS & IS & NS) _].
      assert (Nj : j <> sel) by (intros ->; apply (J1 sel L)).
      assert (HC : In C1 bs) by (apply Hcor; auto; congruence).
      intros q Hq. assert (In q (bblocked S' ++ bqudits S')).
      { apply (Huse S HS IS NS C1); auto. rewrite EC2. exact L. }
      apply in_app_or in H as [H|H]; apply in_or_app; auto.
    + exfalso. destruct (K p Np) as [K1 K2]. rewrite Ea in P1. destruct P1 as [->|P1]; auto.
  - assert (HA : In A1 bs) by (apply Hcor; auto).
    assert (Hin : In (Some (bid A1)) a) by (apply HactA; auto).
    destruct (reach_into bs bs1 sel NewPred H1 _ _ R1) as [L|(p & Np & P1 & P2)].
    + destruct (Nat.eq_dec j sel) as [->|Nj].
      * assert (C1 = S') by (apply (nodup_ids_eq bs1 C1 S' Hnd1 HC1 HS'); congruence). subst C1.
        destruct (reach_ends _ _ _ L) as [_ (S & q0 & HS & IS & Hq0)].
        destruct (Hsel S HS IS) as (Q1 & _ & _).
        assert (Hq0' : In q0 (bblocked A1 ++ bqudits A1)) by (apply (J2' A1 HA Act sel S); auto).
        assert (T : trigger S' A1 = true) by (eapply trigger_true; eauto).
        intros q Hq. apply in_or_app. left. apply (PA Hin Na T). apply in_or_app. auto.
      * assert (HC : In C1 bs) by (apply Hcor; auto; congruence).
        intros q Hq. assert (In q (bblocked A1 ++ bqudits A1)) by (apply (J2' A1 HA Act j C1); auto).
        apply in_app_or in H as [H|H]; apply in_or_app; auto.
    + destruct (NP p Np) as (P & q & HP & IP & Hq1 & Hq2).
      assert (T : trigger S' A1 = true).
      { apply (trigger_true S' A1 q); auto. destruct P1 as [E1|P1].
        - assert (A1 = P) by (apply (nodup_ids_eq bs A1 P Hnd0 HA HP); congruence). subst A1. apply in_or_app; auto.
        - apply (J2' A1 HA Act p P); auto. }
      pose proof (PA Hin Na T) as Hadd.
      destruct P2 as [->|P2].
      * assert (C1 = S') by (apply (nodup_ids_eq bs1 C1 S' Hnd1 HC1 HS'); congruence). subst C1.
        intros q' Hq'. apply in_or_app. left. apply Hadd. apply in_or_app. auto.
      * destruct (reach_ends _ _ _ P2) as [(S & HS & IS & NS) _].
        assert (Nj : j <> sel) by (intros ->; apply (J1 sel P2)).
        assert (HC : In C1 bs) by (apply Hcor; auto; congruence).
        intros q' Hq'. assert (In q' (bblocked S' ++ bqudits S')).
        { apply (Huse S HS IS NS C1); auto. rewrite EC2. exact P2. }
        apply in_or_app. left. apply Hadd. apply in_app_or in H as [H|H]; apply in_or_app; auto. Qed.


Lemma nth_some_In {A} (l : list (option A)) q x : nth q l None = Some x -> In (Some x) l.
Proof. intros H. destruct (Nat.lt_ge_cases q (length l)) as [Hl|Hl].
  - rewrite <- H. apply nth_In. exact Hl. - rewrite nth_overflow in H; [discriminate| exact Hl]. Qed.

(* ---------- a gate: add the operation to the selected bin, then block_update ---------- *)
Lemma add_block_linv pre cur o rest st2 sel sb a' st4 :
  c = pre ++ (cur, o) :: rest ->
  inv pre st2 -> linv ((cur, o) :: rest) st2 ->
  getb sel (bins st2) = Some sb ->
  (forall q, In q (oloc o) -> In q (bqudits sb) -> is_active sb q = true) ->
  (forall q, In q (oloc o) -> In q (bblocked sb) -> is_active sb q = true) ->
  (bslots sb = [] \/ any_active sb = true) ->
  set_active sel (oloc o) (act st2) = inl a' ->
  inv (pre ++ [(cur, o)])
      (mkSt (putb (add_op cur o sb) (bins st2)) a' (dl st2) (pend st2) (nclosed st2) (out st2) (nextid st2)) ->
  block_update sel
      (mkSt (putb (add_op cur o sb) (bins st2)) a' (dl st2) (pend st2) (nclosed st2) (out st2) (nextid st2)) = inl st4 ->
  linv rest st4.
Proof. intros Hc I L G C1 C0 Cact SA I3 BU.
  destruct (ctx_facts c Hord pre cur o rest Hc) as [Hp Hs].
  pose proof (fun b s => slot_start_lt pre st2 (oloc o) cur b s I Hp) as W.
  pose proof (fun b s => active_end_none pre st2 b s I) as AE.
  pose proof I as I'. destruct I' as [i_nd0 _ _ i_static0 i_dyn0 _ _ _ _ _ _ _].
  destruct (getb_split _ _ _ i_nd0 G) as (l1 & l2 & Eb & N1 & N2).
  apply getb_In in G as [Gin Gid]. subst sel.
  destruct (add_slots_spec cur (oloc o) (bslots sb)) as (new & EN & NW1 & NW2 & NW3).
  destruct (set_active_spec _ _ _ _ SA) as [SA1 SA2].
  set (S' := add_op cur o sb) in *.
  assert (Hsl : bslots S' = bslots sb ++ new) by (unfold S'; simpl; exact EN).
  assert (Hid : bid S' = bid sb) by reflexivity.
  assert (Hbl : bblocked S' = bblocked sb) by reflexivity.
  assert (Hbins : putb S' (bins st2) = l1 ++ S' :: l2) by (rewrite Eb; apply putb_split; auto).
  rewrite Hbins in *.
  pose (bs := bins st2). pose (bs1 := l1 ++ S' :: l2).
  assert (Hnd1 : NoDup (ids bs1)).
  { unfold bs1, bs in *. rewrite Eb in i_nd0. unfold ids in *. rewrite map_app in *. simpl in *. exact i_nd0. }
  (* correspondence between the tables *)
  assert (Hold : forall x1, In x1 bs1 -> (x1 = S') \/ (In x1 bs /\ bid x1 <> bid sb)).
  { intros x Hx. unfold bs1 in Hx. apply in_mid in Hx as [Hx|[Hx|Hx]]; auto; right; split.
    - unfold bs. rewrite Eb. apply in_or_app; auto.
    - intros E0. apply N1. rewrite <- E0. apply in_map; auto.
    - unfold bs. rewrite Eb. apply in_or_app; right; right; auto.
    - intros E0. apply N2. rewrite <- E0. apply in_map; auto. }
  assert (Hfw : forall x s, In x bs -> In s (bslots x) -> exists x1, In x1 bs1 /\ bid x1 = bid x /\ In s (bslots x1)).
  { intros x s Hx Hs0. unfold bs in Hx. rewrite Eb in Hx. apply in_mid in Hx as [Hx|[Hx|Hx]].
    - exists x. repeat split; auto. unfold bs1. apply in_or_app; auto.
    - subst x. exists S'. repeat split; auto; [unfold bs1; apply in_or_app; right; left; auto|].
      rewrite Hsl. apply in_or_app; auto.
    - exists x. repeat split; auto. unfold bs1. apply in_or_app; right; right; auto. }
  (* slots of the new table: old slots of the old version, or new slots of S' *)
  assert (Hsl1 : forall x1 s, In x1 bs1 -> In s (bslots x1) ->
     (exists x, In x bs /\ bid x = bid x1 /\ In s (bslots x)) \/ (x1 = S' /\ In s new)).
  { intros x1 s Hx Hs0. destruct (Hold x1 Hx) as [->|[Hx' _]].
    - rewrite Hsl in Hs0. apply in_app_or in Hs0 as [Hs0|Hs0]; auto. left. exists sb. auto.
    - left. exists x1. auto. }
  (* other bins have no active slot on the location *)
  assert (Hoth : forall x s, In x bs -> bid x <> bid sb -> In s (bslots x) -> sact s = true -> ~ In (sq s) (oloc o)).
  { intros x s Hx Hn Hs0 As Hq. destruct (i_dyn0 x Hx) as [D1 _].
    assert (Aq : is_active x (sq s) = true) by (apply is_active_slot; eauto).
    specialize (D1 _ Aq). destruct (SA1 _ Hq) as [E0|E0]; rewrite E0 in D1; [discriminate| inversion D1; congruence]. }
  destruct L as [D3 Dp D5 J1 J2'].
  set (NewPred := fun p => exists P sa e, In P bs /\ bid P = p /\ In sa (bslots P) /\ send sa = Some e /\ In (sq sa) (map sq new)).
  assert (H1 : forall i j, E bs1 i j -> E bs i j \/ (j = bid sb /\ NewPred i)).
  { intros i j (a1 & t1 & Ha1 & Ht1 & <- & <- & Hpr). apply precb_spec in Hpr as (sa & st & e & Hsa & Hst & Eq & Ee & Hlt).
    destruct (Hsl1 a1 sa Ha1 Hsa) as [(a0 & Ha0 & Ia0 & Hsa0)|[-> Hnew]].
    2:{ destruct (NW1 sa Hnew) as (_ & En & _). congruence. }
    destruct (Hsl1 t1 st Ht1 Hst) as [(t0 & Ht0 & It0 & Hst0)|[-> Hnew]].
    - left. exists a0, t0. repeat split; auto. apply precb_spec. exists sa, st, e. auto.
    - right. split; auto. exists a0, sa, e. repeat split; auto. rewrite Eq. apply in_map; auto. }
  assert (K : forall p, NewPred p -> p <> bid sb /\ ~ reach bs (bid sb) p).
  { intros p (P & sa & e & HP & IP & Hsa & Ee & Hq). apply in_map_iff in Hq as (sn & Eqn & Hsn).
    destruct (NW1 sn Hsn) as (_ & _ & _ & Hloc & Hnq). rewrite Eqn in *.
    assert (Hqp : In (sq sa) (bqudits P)) by (apply in_map; auto).
    split.
    - intros ->. assert (P = sb) by (apply (nodup_ids_eq (bins st2) P sb i_nd0 HP Gin IP)). subst P. auto.
    - intros R. destruct (reach_ends _ _ _ R) as [(S0 & HS0 & IS0 & NS0) _].
      assert (S0 = sb) by (apply (nodup_ids_eq (bins st2) S0 sb i_nd0 HS0 Gin IS0)). subst S0.
      destruct Cact as [Cact|Cact]; [contradiction|].
      assert (In (sq sa) (bblocked sb ++ bqudits sb)) by (apply (J2' sb Gin Cact p P); auto).
      apply in_app_or in H as [H|H]; auto.
      pose proof (is_active_In _ _ (C0 _ Hloc H)) as Hin'. auto. }
  (* the structural clauses after the addition *)
  assert (DP3 : dprops rest (mkSt bs1 a' (dl st2) (pend st2) (nclosed st2) (out st2) (nextid st2))).
  { unfold dprops. simpl. split; [|split; [|split]].
    - intros x1 y1 sx sy Hx1 Hy1 Hsx Hsy Eq Es.
      destruct (Hsl1 x1 sx Hx1 Hsx) as [(x0 & Hx0 & Ix0 & Hsx0)|[-> Hnx]];
      destruct (Hsl1 y1 sy Hy1 Hsy) as [(y0 & Hy0 & Iy0 & Hsy0)|[-> Hny]].
      + rewrite <- Ix0, <- Iy0. apply (D3 x0 y0 sx sy); auto.
      + exfalso. destruct (NW1 sy Hny) as (Sy & _ & _ & Ly & _).
        assert (sstart sx < cur)%Z by (apply (W x0 sx); auto; rewrite Eq; auto). lia.
      + exfalso. destruct (NW1 sx Hnx) as (Sx & _ & _ & Lx & _).
        assert (sstart sy < cur)%Z by (apply (W y0 sy); auto; rewrite <- Eq; auto). lia.
      + reflexivity.
    - intros x1 s Hx1 Hs1. destruct (Hsl1 x1 s Hx1 Hs1) as [(x0 & Hx0 & Ix0 & Hs0)|[-> Hn]].
      + destruct (Dp x0 s Hx0 Hs0) as [D|(a0 & sa & e & Ha0 & Hsa & R)]; auto.
        right. destruct (Hfw a0 sa Ha0 Hsa) as (a1 & Ha1 & _ & Hsa1). exists a1, sa, e. auto.
      + destruct (NW1 s Hn) as (Ss & _ & _ & Ls & Nq).
        assert (NC : next_cycle (sq s) ((cur, o) :: rest) = Some cur).
        { simpl. unfold touchesb. apply memb_In in Ls. rewrite Ls. reflexivity. }
        destruct (D5 _ _ NC) as [(x0 & s0 & Hx0 & Hs0 & Eq & A)|[D|(x0 & s0 & Hx0 & Hs0 & Eq & Ee)]].
        * exfalso. destruct (Nat.eq_dec (bid x0) (bid sb)) as [E0|N0].
          -- assert (x0 = sb) by (apply (nodup_ids_eq (bins st2) x0 sb i_nd0 Hx0 Gin E0)). subst x0. apply Nq. rewrite <- Eq. apply in_map; auto.
          -- apply (Hoth x0 s0 Hx0 N0 Hs0 A). rewrite Eq. exact Ls.
        * left. rewrite Ss. exact D.
        * right. destruct (Hfw x0 s0 Hx0 Hs0) as (x1 & Hx1' & _ & Hs1'). exists x1, s0, (cur - 1)%Z.
          repeat split; auto. rewrite Ss. lia.
    - intros q n Hq. destruct (in_dec Nat.eq_dec q (oloc o)) as [Lq|Nq].
      + left. specialize (NW3 q Lq). rewrite map_app in NW3. apply in_app_or in NW3 as [Hq0|Hq0].
        * assert (Aq : is_active sb q = true) by (apply C1; auto).
          apply is_active_slot in Aq as (s & Hs0 & Eq & As). exists S', s. repeat split; auto.
          -- unfold bs1. apply in_or_app; right; left; auto.
          -- rewrite Hsl. apply in_or_app; auto.
        * apply in_map_iff in Hq0 as (s & Eq & Hs0). exists S', s. repeat split; auto.
          -- unfold bs1. apply in_or_app; right; left; auto.
          -- rewrite Hsl. apply in_or_app; auto.
          -- apply NW1; auto.
      + assert (NC : next_cycle q ((cur, o) :: rest) = Some n).
        { simpl. unfold touchesb. apply memb_false in Nq. rewrite Nq. exact Hq. }
        destruct (D5 _ _ NC) as [(x0 & s0 & Hx0 & Hs0 & Eq & A)|[D|(x0 & s0 & Hx0 & Hs0 & Eq & Ee)]]; auto.
        * left. destruct (Hfw x0 s0 Hx0 Hs0) as (x1 & Hx1 & _ & Hs1). exists x1, s0. auto.
        * right; right. destruct (Hfw x0 s0 Hx0 Hs0) as (x1 & Hx1 & _ & Hs1). exists x1, s0. auto.
    - apply (J1_into bs bs1 (bid sb) NewPred); auto. }
  (* block_update *)
  destruct (block_update_spec _ _ _ BU) as (sb2 & bs2 & G2 & -> & Hspec). simpl in G2, Hspec.
  assert (sb2 = S').
  { apply getb_In in G2 as [G2a G2b]. apply (nodup_ids_eq bs1 sb2 S' Hnd1); auto.
    unfold bs1. apply in_or_app; right; left; auto. }
  subst sb2.
  apply linv_split. split.
  - apply (dprops_bog rest _ bs2 DP3). simpl. eapply bspec_bog; eauto.
  - simpl. apply (J2_after_block bs bs1 bs2 (bid sb) S' a' NewPred); auto.
    + unfold bs1. apply in_or_app; right; left; auto.
    + intros x1 Hx1 Hn. destruct (Hold x1 Hx1) as [->|[Hx _]]; auto. congruence.
    + intros S HS IS. assert (S = sb) by (apply (nodup_ids_eq (bins st2) S sb i_nd0 HS Gin IS)). subst S.
      split; [|split; auto].
      * unfold bqudits. rewrite Hsl, map_app. apply incl_appl. apply incl_refl.
      * rewrite Hbl. apply incl_refl.
    + intros p (P & sa & e & HP & IP & Hsa & Ee & Hq). exists P, (sq sa). repeat split; auto.
      * apply in_map; auto.
      * unfold bqudits. rewrite Hsl, map_app. apply in_or_app; auto.
    + intros x1 Hx1 Act Hn. destruct I3 as [_ _ _ _ i_dyn3 _ _ _ _ _ _ _].
      simpl in i_dyn3. destruct (i_dyn3 x1 Hx1) as [D1 _]. simpl in D1.
      apply any_active_ex in Act as [q Aq]. eapply nth_some_In. apply (D1 q Aq). Qed.


(* ---------- a fresh empty bin ---------- *)
Lemma new_bin_linv pre suf st :
  inv pre st -> linv suf st ->
  linv suf (mkSt (bins st ++ [mkBin (nextid st) [] [] [] false]) (act st) (dl st) (pend st)
                 (nclosed st) (out st) (S (nextid st))).
Proof. intros I L. destruct L as [D3 Dp D5 J1 J2']. destruct I as [_ i_lt0 _ _ _ _ _ _ _ _ _ _].
  set (N0 := mkBin (nextid st) [] [] [] false).
  assert (Hsl : forall x s, In x (bins st ++ [N0]) -> In s (bslots x) -> In x (bins st)).
  { intros x s Hx Hs. apply in_app_or in Hx as [Hx|[<-|[]]]; auto. destruct Hs. }
  assert (Hsub : sub_edges (bins st) (bins st ++ [N0])).
  { intros i j (a & t & Ha & Ht & <- & <- & Hp'). pose proof Hp' as Hp''.
    apply precb_spec in Hp' as (sa & sb & e & Hsa & Hsb & _).
    exists a, t. repeat split; eauto. }
  constructor; simpl.
  - intros a t sa sb Ha Ht Hsa Hsb. apply D3; eauto.
  - intros x s Hx Hs. destruct (Dp x s (Hsl x s Hx Hs) Hs) as [D|(a & sa & e & Ha & R)]; auto.
    right. exists a, sa, e. split; auto. apply in_or_app; auto.
  - intros q n Hq. destruct (D5 q n Hq) as [(x & s & Hx & R)|[D|(x & s & Hx & R)]]; auto.
    + left. exists x, s. split; auto. apply in_or_app; auto.
    + right; right. exists x, s. split; auto. apply in_or_app; auto.
  - apply (J1_transfer (bins st)); auto.
  - intros A HA Act j C R HC EC. apply in_app_or in HA as [HA|[<-|[]]]; [|discriminate].
    assert (R0 : reach (bins st) (bid A) j) by (eapply reach_mono; eauto).
    apply in_app_or in HC as [HC|[<-|[]]]; [apply (J2' A HA Act j C); auto|].
    exfalso. destruct (reach_ends _ _ _ R0) as [_ (t & q & Ht & It & _)]. simpl in EC.
    specialize (i_lt0 t Ht). lia. Qed.

(* ---------- a barrier: the BarrierBin, then block_update (the repair) ---------- *)
Lemma barrier_block_linv pre cur o rest st1 st4 :
  c = pre ++ (cur, o) :: rest ->
  inv pre st1 -> linv ((cur, o) :: rest) st1 ->
  (forall q, In q (oloc o) -> nth q (act st1) None = None) ->
  inv (pre ++ [(cur, o)])
      (mkSt (bins st1 ++ [barrier_bin (nextid st1) cur o rest]) (act st1) (dl st1)
            (pend st1 ++ [nextid st1]) (nclosed st1) (out st1) (S (nextid st1))) ->
  block_update (nextid st1)
      (mkSt (bins st1 ++ [barrier_bin (nextid st1) cur o rest]) (act st1) (dl st1)
            (pend st1 ++ [nextid st1]) (nclosed st1) (out st1) (S (nextid st1))) = inl st4 ->
  linv rest st4.
Proof. intros Hc I L Hnone I2 BU.
  destruct (ctx_facts c Hord pre cur o rest Hc) as [Hp Hs].
  pose proof (fun b s => slot_start_lt pre st1 (oloc o) cur b s I Hp) as W.
  pose proof I as I'. destruct I' as [i_nd0 i_lt0 _ _ i_dyn0 _ _ _ _ _ _ _].
  set (N := barrier_bin (nextid st1) cur o rest) in *.
  pose (bs := bins st1). pose (bs1 := bins st1 ++ [N]).
  assert (HNs : forall s, In s (bslots N) ->
     In (sq s) (oloc o) /\ sstart s = cur /\ sact s = false /\
     send s = match next_cycle (sq s) rest with Some cn => Some (cn - 1)%Z | None => None end).
  { intros s Hs0. unfold N, barrier_bin in Hs0. simpl in Hs0. apply in_map_iff in Hs0 as (q & <- & Hq). simpl. auto. }
  assert (HNq : forall q, In q (oloc o) -> exists s, In s (bslots N) /\ sq s = q).
  { intros q Hq. eexists. split; [unfold N, barrier_bin; simpl; apply in_map; exact Hq| reflexivity]. }
  assert (Hnd1 : NoDup (ids bs1)).
  { destruct I2 as [i_nd2 _ _ _ _ _ _ _ _ _ _ _]. exact i_nd2. }
  assert (Hnext : forall q cn, In q (oloc o) -> next_cycle q rest = Some cn -> (cur < cn)%Z).
  { intros q cn Hq Hn. pose proof (next_cycle_spec q rest) as NC. rewrite Hn in NC.
    destruct NC as (r1 & y & r2 & Er & _ & Ty & Ey). rewrite <- Ey.
    apply (ctx_suf c pre (cur, o) rest q y Hord Hc); auto.
    - rewrite Er. apply in_or_app; right; left; auto. - apply touch_loc; auto. }
  destruct L as [D3 Dp D5 J1 J2'].
  set (NewPred := fun p => exists P sa e, In P bs /\ bid P = p /\ In sa (bslots P) /\ send sa = Some e /\ In (sq sa) (oloc o)).
  assert (H1 : forall i j, E bs1 i j -> E bs i j \/ (j = nextid st1 /\ NewPred i)).
  { intros i j (a1 & t1 & Ha1 & Ht1 & <- & <- & Hpr). apply precb_spec in Hpr as (sa & st & e & Hsa & Hst & Eq & Ee & Hlt).
    assert (Ha0 : In a1 bs).
    { apply in_app_or in Ha1 as [Ha1|[<-|[]]]; auto. exfalso.
      destruct (HNs sa Hsa) as (Lq & _ & _ & En). rewrite Ee in En.
      destruct (next_cycle (sq sa) rest) as [cn|] eqn:Nc; [|discriminate]. inversion En; subst e.
      pose proof (Hnext _ _ Lq Nc).
      apply in_app_or in Ht1 as [Ht1|[<-|[]]].
      - assert (sstart st < cur)%Z by (apply (W t1 st); auto; rewrite <- Eq; auto). lia.
      - destruct (HNs st Hst) as (_ & Sst & _). lia. }
    apply in_app_or in Ht1 as [Ht1|[<-|[]]].
    - left. exists a1, t1. repeat split; auto. apply precb_spec. exists sa, st, e. auto.
    - right. split; auto. exists a1, sa, e. repeat split; auto. rewrite Eq. apply HNs; auto. }
  assert (K : forall p, NewPred p -> p <> nextid st1 /\ ~ reach bs (nextid st1) p).
  { intros p (P & sa & e & HP & IP & _). split.
    - specialize (i_lt0 P HP). lia.
    - intros R. destruct (reach_ends _ _ _ R) as [(S0 & HS0 & IS0 & _) _]. specialize (i_lt0 S0 HS0). lia. }
  assert (DP3 : dprops rest (mkSt bs1 (act st1) (dl st1) (pend st1 ++ [nextid st1]) (nclosed st1) (out st1) (S (nextid st1)))).
  { unfold dprops. simpl. split; [|split; [|split]].
    - intros x1 y1 sx sy Hx1 Hy1 Hsx Hsy Eq Es.
      apply in_app_or in Hx1 as [Hx1|[<-|[]]]; apply in_app_or in Hy1 as [Hy1|[<-|[]]]; auto.
      + apply (D3 x1 y1 sx sy); auto.
      + exfalso. destruct (HNs sy Hsy) as (Ly & Sy & _).
        assert (sstart sx < cur)%Z by (apply (W x1 sx); auto; rewrite Eq; auto). lia.
      + exfalso. destruct (HNs sx Hsx) as (Lx & Sx & _).
        assert (sstart sy < cur)%Z by (apply (W y1 sy); auto; rewrite <- Eq; auto). lia.
    - intros x1 s Hx1 Hs1. apply in_app_or in Hx1 as [Hx1|[<-|[]]].
      + destruct (Dp x1 s Hx1 Hs1) as [D|(a0 & sa & e & Ha0 & R)]; auto.
        right. exists a0, sa, e. split; auto. apply in_or_app; auto.
      + destruct (HNs s Hs1) as (Ls & Ss & _).
        assert (NC : next_cycle (sq s) ((cur, o) :: rest) = Some cur).
        { simpl. unfold touchesb. apply memb_In in Ls. rewrite Ls. reflexivity. }
        destruct (D5 _ _ NC) as [(x0 & s0 & Hx0 & Hs0 & Eq & A)|[D|(x0 & s0 & Hx0 & Hs0 & Eq & Ee)]].
        * exfalso. destruct (i_dyn0 x0 Hx0) as [D1 _].
          assert (Aq : is_active x0 (sq s0) = true) by (apply is_active_slot; eauto).
          specialize (D1 _ Aq). rewrite Eq, (Hnone _ Ls) in D1. discriminate.
        * left. rewrite Ss. exact D.
        * right. exists x0, s0, (cur - 1)%Z. repeat split; auto; [apply in_or_app; auto| rewrite Ss; lia].
    - intros q n Hq. destruct (in_dec Nat.eq_dec q (oloc o)) as [Lq|Nq].
      + right; right. destruct (HNq q Lq) as (s & Hs0 & Eq). exists N, s. repeat split; auto.
        * apply in_or_app; right; left; auto.
        * destruct (HNs s Hs0) as (_ & _ & _ & En). rewrite En, Eq, Hq. reflexivity.
      + assert (NC : next_cycle q ((cur, o) :: rest) = Some n).
        { simpl. unfold touchesb. apply memb_false in Nq. rewrite Nq. exact Hq. }
        destruct (D5 _ _ NC) as [(x0 & s0 & Hx0 & R)|[D|(x0 & s0 & Hx0 & R)]]; auto.
        * left. exists x0, s0. split; auto. apply in_or_app; auto.
        * right; right. exists x0, s0. split; auto. apply in_or_app; auto.
    - apply (J1_into bs bs1 (nextid st1) NewPred); auto. }
  destruct (block_update_spec _ _ _ BU) as (sb2 & bs2 & G2 & -> & Hspec). simpl in G2, Hspec.
  assert (sb2 = N).
  { apply getb_In in G2 as [G2a G2b]. apply (nodup_ids_eq bs1 sb2 N Hnd1); auto.
    unfold bs1. apply in_or_app; right; left; auto. }
  subst sb2.
  apply linv_split. split.
  - apply (dprops_bog rest _ bs2 DP3). simpl. eapply bspec_bog; eauto.
  - simpl. apply (J2_after_block bs bs1 bs2 (nextid st1) N (act st1) NewPred); auto.
    + unfold bs1. apply in_or_app; right; left; auto.
    + intros x1 Hx1 Hn. apply in_app_or in Hx1 as [Hx1|[<-|[]]]; auto. exfalso. apply Hn. reflexivity.
    + intros S HS IS. exfalso. specialize (i_lt0 S HS). lia.
    + intros p (P & sa & e & HP & IP & Hsa & Ee & Hq). exists P, (sq sa). repeat split; auto.
      * apply in_map; auto.
      * unfold N, barrier_bin, bqudits. simpl. rewrite map_map. simpl. rewrite map_id. exact Hq.
    + intros x1 Hx1 Act Hn. destruct I2 as [_ _ _ _ i_dyn3 _ _ _ _ _ _ _].
      simpl in i_dyn3. destruct (i_dyn3 x1 Hx1) as [D1 _]. simpl in D1.
      apply any_active_ex in Act as [q Aq]. eapply nth_some_In. apply (D1 q Aq). Qed.


(* ---------- one gate ---------- *)
Lemma next_here q cur o rest n : In q (oloc o) -> next_cycle q ((cur, o) :: rest) = Some n -> n = cur.
Proof. simpl. unfold touchesb. intros Hq. apply memb_In in Hq. rewrite Hq. congruence. Qed.

Lemma step_gate_linv pre cur o rest hint st st' :
  c = pre ++ (cur, o) :: rest -> okind o = KGate ->
  inv pre st -> linv ((cur, o) :: rest) st ->
  step_gate k ncyc cur o hint st = inl st' -> linv rest st'.
Proof. intros Hc Hk I L H. unfold step_gate in H.
  destruct (ctx_facts c Hord pre cur o rest Hc) as [Hp Hs].
  assert (Hn : forall q n, In q (oloc o) -> next_cycle q ((cur, o) :: rest) = Some n -> n = cur)
    by (intros q n; apply next_here).
  destruct (same_set hint (overlap_ids st (oloc o))) eqn:SS; simpl in H; [|discriminate].
  apply same_set_incl in SS as (SS1 & _ & _).
  destruct (flags (bins st) (oloc o) k hint) as [fl|] eqn:F; [|discriminate].
  destruct (flags_spec _ _ _ _ _ F) as [F1 F2].
  destruct (close_where snd (oloc o) cur fl st) as [st1|] eqn:C1; [|discriminate].
  destruct (close_where_inv k ncyc c Hord Hcyc Hnd Hne snd pre ((cur, o) :: rest) (oloc o) cur fl st st1 Hc Hp Hs I C1) as [I1 G1].
  assert (L1 : linv ((cur, o) :: rest) st1) by (exact (close_where_linv snd pre _ _ _ _ _ _ Hc Hp Hs Hn I L C1)).
  match type of H with (match ?e0 with inl _ => _ | inr _ => _ end) = _ =>
    destruct e0 as [[st2 sel]|] eqn:SEL; [|discriminate] end.
  destruct (getb sel (bins st2)) as [sb|] eqn:G2; [|discriminate].
  destruct (set_active sel (oloc o) (act st2)) as [a'|] eqn:SA; [|discriminate].
  match type of H with (match block_update ?s0 ?x0 with inl _ => _ | inr _ => _ end) = _ =>
    destruct (block_update s0 x0) as [st4|] eqn:BU; [|discriminate] end.
  assert (R : inv (pre ++ [(cur, o)])
     (mkSt (putb (add_op cur o sb) (bins st2)) a' (dl st2) (pend st2) (nclosed st2) (out st2) (nextid st2)) /\
     linv rest st4).
  { destruct (map fst (filter snd fl)) as [|a0 adm'] eqn:ADM.
    - destruct (forallb (fun q => is_none (nth q (act st1) None)) (oloc o)); [|discriminate].
      inversion SEL; subst st2 sel. clear SEL.
      pose proof (new_bin_inv k c pre st1 I1) as I2.
      pose proof (new_bin_linv pre _ st1 I1 L1) as L2.
      assert (Gn : getb (nextid st1) (bins st1 ++ [mkBin (nextid st1) [] [] [] false]) = Some (mkBin (nextid st1) [] [] [] false)).
      { rewrite getb_app_notin.
        - simpl. rewrite Nat.eqb_refl. reflexivity.
        - intros Hin. apply in_map_iff in Hin as (b & E0 & Hb). destruct I1 as [_ i_lt0 _ _ _ _ _ _ _ _ _ _]. specialize (i_lt0 b Hb). lia. }
      simpl in G2. rewrite Gn in G2. inversion G2; subst sb.
      assert (I3 : inv (pre ++ [(cur, o)])
         (mkSt (putb (add_op cur o (mkBin (nextid st1) [] [] [] false)) (bins st1 ++ [mkBin (nextid st1) [] [] [] false])) a' (dl st1) (pend st1) (nclosed st1) (out st1) (S (nextid st1)))).
      { refine (add_step_inv k c Hord Hnd Hne pre cur o rest _ _ _ a' Hc I2 Gn Hk _ _ _ _ SA).
        + reflexivity.
        + simpl. intros q _ [].
        + simpl. intros Hin. destruct I1 as [_ _ i_plt0 _ _ _ _ _ _ _ _ _]. specialize (i_plt0 _ Hin). lia.
        + left. split; reflexivity. }
      split; [exact I3|].
      refine (add_block_linv pre cur o rest _ _ _ a' st4 Hc I2 L2 Gn _ _ _ SA I3 BU).
      + simpl. intros q _ [].
      + simpl. intros q _ [].
      + left. reflexivity.
    - set (adm := a0 :: adm') in *.
      set (sel0 := match select_subset (bins st1) (oloc o) adm with Some id => id | None => a0 end) in *.
      destruct (close_where (fun x => Nat.eqb (fst x) sel0) (oloc o) cur (filter snd fl) st1) as [st2'|] eqn:C2; [|discriminate].
      inversion SEL; subst st2' sel. clear SEL.
      destruct (close_where_inv k ncyc c Hord Hcyc Hnd Hne _ pre ((cur, o) :: rest) (oloc o) cur _ st1 st2 Hc Hp Hs I1 C2) as [I2 G2'].
      assert (L2 : linv ((cur, o) :: rest) st2) by (exact (close_where_linv _ pre _ _ _ _ _ _ Hc Hp Hs Hn I1 L1 C2)).
      assert (Hsel : In sel0 adm).
      { unfold sel0. destruct (select_subset (bins st1) (oloc o) adm) eqn:SSb; [eapply select_subset_In; eauto| left; auto]. }
      rewrite <- ADM in Hsel. apply in_map_iff in Hsel as (x & Ex & Hx).
      apply filter_In in Hx as [Hx Sx]. destruct (F2 x Hx) as (b0 & Gb0 & Eb0). rewrite Ex in Gb0.
      assert (Gst2 : getb sel0 (bins st2) = Some b0).
      { rewrite G2', G1; auto.
        - intros y Hy Ky Ey. destruct (F2 y Hy) as (by0 & Gy & Fy). rewrite Ey, Gb0 in Gy. inversion Gy; subst by0.
          rewrite Ky in Fy. rewrite <- Eb0 in Fy. congruence.
        - intros y Hy Ky Ey. apply Nat.eqb_neq in Ky. auto. }
      rewrite Gst2 in G2. inversion G2; subst sb. clear G2.
      rewrite Sx in Eb0. symmetry in Eb0. unfold can_accommodate in Eb0.
      apply andb_true_iff in Eb0 as [CA1 CA2]. apply andb_true_iff in CA2 as [CA2 CA3].
      assert (Hact : exists q0, is_active b0 q0 = true).
      { assert (In sel0 hint) by (rewrite <- F1, <- Ex; apply in_map; auto).
        apply SS1 in H0. apply overlap_ids_spec in H0 as (q0 & Hq0 & Aq0).
        destruct I as [i_nd0 _ _ _ _ i_act0 _ _ _ _ _ _]. destruct (i_act0 q0 sel0 Aq0) as (b' & Hb' & Eb' & Ab').
        apply getb_In in Gb0 as [Gb0 Gb0']. assert (b' = b0) by (eapply nodup_ids_eq; eauto; congruence).
        subst b'. eauto. }
      destruct Hact as [q0 Aq0].
      assert (Hin2 : In b0 (bins st2)) by (apply getb_In in Gst2; tauto).
      assert (HC1 : forall q, In q (oloc o) -> In q (bqudits b0) -> is_active b0 q = true).
      { intros q Hq Hqb. rewrite forallb_forall in CA2. specialize (CA2 q Hq).
        apply orb_true_iff in CA2 as [CA2|CA2]; auto.
        apply negb_true_iff in CA2. apply memb_false in CA2. contradiction. }
      assert (I3 : inv (pre ++ [(cur, o)])
         (mkSt (putb (add_op cur o b0) (bins st2)) a' (dl st2) (pend st2) (nclosed st2) (out st2) (nextid st2))).
      { refine (add_step_inv k c Hord Hnd Hne pre cur o rest _ _ _ a' Hc I2 Gst2 Hk _ HC1 _ _ SA).
        + destruct I2 as [_ _ _ i_static0 _ _ _ _ _ _ _ _]. destruct (i_static0 b0 Hin2) as (_ & _ & _ & _ & S5 & _).
          destruct (bbar b0) eqn:Bb; auto. destruct (S5 eq_refl) as [_ S5b].
          apply is_active_any in Aq0. congruence.
        + intros Hp2. destruct I2 as [_ _ _ _ _ _ i_pend0 _ _ _ _ _]. apply is_active_any in Aq0.
          assert (any_active b0 = false); [|congruence]. eapply (i_pend0 sel0 b0); eauto.
          apply getb_In in Gst2; tauto.
        + right. apply Nat.leb_le. exact CA3. }
      split; [exact I3|].
      refine (add_block_linv pre cur o rest _ _ _ a' st4 Hc I2 L2 Gst2 HC1 _ _ SA I3 BU).
      + intros q Hq Hqb. apply negb_true_iff in CA1.
        destruct (is_active b0 q) eqn:Aq; auto. exfalso.
        assert (existsb (fun q1 => memb q1 (bblocked b0) && negb (is_active b0 q1)) (oloc o) = true); [|congruence].
        apply existsb_exists. exists q. split; auto. apply memb_In in Hqb. rewrite Hqb, Aq. reflexivity.
      + right. eapply is_active_any; eauto. }
  destruct R as [I3 L4].
  assert (I4 : inv (pre ++ [(cur, o)]) st4) by (eapply block_update_inv; eauto).
  match type of H with (if ?b0 then _ else _) = _ => destruct b0 end.
  - unfold process_pending_bins in H.
    destruct (process_pending (S (length (pend st4))) ncyc st4) as [st5|] eqn:PP; [|discriminate].
    injection H as <-. apply linv_set_nclosed.
    assert (Hc' : c = (pre ++ [(cur, o)]) ++ rest) by (rewrite <- app_assoc; exact Hc).
    apply (process_pending_linv (pre ++ [(cur, o)]) rest _ _ _ Hc' I4 L4 PP).
  - injection H as <-. exact L4.
Qed.


(* ---------- barrier / measurement / reset, with the repair ---------- *)
Lemma step_barrier_linv pre cur o rest hint st st' :
  c = pre ++ (cur, o) :: rest -> okind o <> KGate ->
  inv pre st -> linv ((cur, o) :: rest) st ->
  step_barrier true cur o rest hint st = inl st' -> linv rest st'.
Proof. intros Hc Hk I L H. unfold step_barrier in H.
  destruct (ctx_facts c Hord pre cur o rest Hc) as [Hp Hs].
  assert (Hn : forall q n, In q (oloc o) -> next_cycle q ((cur, o) :: rest) = Some n -> n = cur)
    by (intros q n; apply next_here).
  destruct (same_set hint (overlap_ids st (oloc o))) eqn:SS; simpl in H; [|discriminate].
  apply same_set_incl in SS as (_ & SS2 & _).
  destruct (close_barrier (oloc o) cur hint st) as [st1|] eqn:CB; [|discriminate].
  destruct (close_barrier_inv k ncyc c Hord Hcyc Hnd Hne pre ((cur, o) :: rest) _ _ _ _ _ Hc Hp Hs I CB) as [I1 A1].
  assert (L1 : linv ((cur, o) :: rest) st1) by (exact (close_barrier_linv pre _ _ _ _ _ _ Hc Hp Hs Hn I L CB)).
  assert (Hnone : forall q, In q (oloc o) -> nth q (act st1) None = None).
  { intros q Hq. rewrite A1. apply act_cleared; auto.
    destruct (nth q (act st) None) as [id|] eqn:E0; auto. right. exists id. split; auto.
    apply SS2. apply overlap_ids_spec. eauto. }
  pose proof (barrier_bin_inv k c Hord Hnd Hne pre cur o rest st1 Hc Hk I1 Hnone) as I2.
  exact (barrier_block_linv pre cur o rest st1 st' Hc I1 L1 Hnone I2 H). Qed.

(* ---------- the main loop ---------- *)
Lemma run_ops_full fx : forall ops pre hints st st',
  c = pre ++ ops ->
  (fx = true \/ forall x, In x ops -> okind (snd x) = KGate) ->
  inv pre st -> linv ops st -> run_ops k fx ncyc ops hints st = inl st' -> inv c st' /\ linv [] st'.
Proof. induction ops as [|[cur o] rest IH]; simpl; intros pre hints st st' Hc Hfx I L H.
  - inversion H; subst. rewrite app_nil_r in *. auto.
  - destruct hints as [|h hs]; [discriminate|].
    assert (Hc' : c = (pre ++ [(cur, o)]) ++ rest) by (rewrite <- app_assoc; exact Hc).
    assert (Hfx' : fx = true \/ forall x, In x rest -> okind (snd x) = KGate).
    { destruct Hfx as [Hfx|Hfx]; auto. }
    destruct (is_gate o) eqn:Gt.
    + destruct (step_gate k ncyc cur o h st) as [st1|] eqn:S1; [|discriminate].
      apply kind_is_gate_spec in Gt.
      apply (IH (pre ++ [(cur, o)]) hs st1 st'); auto.
      * eapply step_gate_inv; eauto.
      * eapply step_gate_linv; eauto.
    + assert (Hk : okind o <> KGate) by (intros E0; apply kind_is_gate_spec in E0; congruence).
      destruct Hfx as [->|Hfx].
      2:{ exfalso. apply Hk. apply (Hfx (cur, o)). left; reflexivity. }
      destruct (step_barrier true cur o rest h st) as [st1|] eqn:S1; [|discriminate].
      apply (IH (pre ++ [(cur, o)]) hs st1 st'); auto.
      * eapply step_barrier_inv; eauto.
      * eapply step_barrier_linv; eauto.
Qed.

(* ---------- closing the remaining active bins ---------- *)
Lemma close_all_linv : forall n q0 st st',
  inv c st -> linv [] st -> close_all_from n q0 ncyc st = inl st' -> linv [] st'.
Proof. induction n as [|n IH]; simpl; intros q0 st st' I L H.
  - inversion H; subst. auto.
  - match type of H with (match ?e with inl _ => _ | inr _ => _ end) = _ => destruct e as [st1|] eqn:E1; [|discriminate] end.
    assert (S1 : inv c st1 /\ linv [] st1).
    { destruct (nth q0 (act st) None) as [id|] eqn:Eq.
      - destruct (getb id (bins st)) as [b|] eqn:G; [|discriminate].
        destruct (close_bin id (bqudits b) ncyc st) as [[st2 fl]|] eqn:C; [|discriminate].
        inversion E1; subst st1. simpl.
        assert (Hc0 : c = c ++ []) by (rewrite app_nil_r; reflexivity).
        split.
        + eapply (close_bin_inv k ncyc c Hord Hcyc Hnd Hne c [] id (bqudits b) ncyc st st2 fl); eauto.
          intros _ _ _ [].
        + refine (close_bin_linv c [] id (bqudits b) ncyc st st2 fl Hc0 _ _ I L C).
          * intros q _ x Hx _. apply Hcyc; auto.
          * intros q n0 _ Hd. discriminate.
      - inversion E1; subst st1. auto. }
    destruct S1 as [I1 L1]. eapply IH; eauto. Qed.

(* ---------- no bin is left pending ---------- *)
Lemma process_pending_done : forall fuel st st',
  process_pending fuel ncyc st = inl st' -> find_ready (bins st') (dl st') (pend st') = inl None.
Proof. induction fuel as [|f IH]; simpl; intros st st' H; [discriminate|].
  destruct (find_ready (bins st) (dl st) (pend st)) as [[b|]|] eqn:F; [| |discriminate].
  - eapply IH; eauto. - inversion H; subst. exact F. Qed.

Lemma find_ready_none bs d : forall ps,
  find_ready bs d ps = inl None -> forall id, In id ps -> exists b, getb id bs = Some b /\ ready d b = false.
Proof. induction ps as [|x ps IH]; simpl; intros H id Hid; [destruct Hid|].
  destruct (getb x bs) as [b|] eqn:G; [|discriminate].
  destruct (ready d b) eqn:R; [discriminate|].
  destruct Hid as [<-|Hid]; eauto. Qed.

Lemma min_exists bs :
  NoDup (ids bs) -> (forall i, ~ reach bs i i) ->
  forall n visited x,
  length (ids bs) - length visited <= n -> NoDup visited -> incl visited (ids bs) ->
  In x bs -> bslots x <> [] -> In (bid x) visited ->
  (forall v, In v visited -> v = bid x \/ reach bs (bid x) v) ->
  exists m, In m bs /\ bslots m <> [] /\ forall a, In a bs -> precb a m = false.
Proof. intros Hnd' J1. induction n as [|n IH]; intros visited x Hlen Hv Hincl Hx Hsx Hin Hreach.
  - (* all bins visited: some bin must be minimal anyway *)
    destruct (existsb (fun a => precb a x) bs) eqn:Ex.
    + exfalso. apply existsb_exists in Ex as (a & Ha & Pa).
      assert (Hnv : ~ In (bid a) visited).
      { intros Hv'. destruct (Hreach _ Hv') as [E0|R].
        - apply (J1 (bid x)). apply t_step. exists a, x. repeat split; auto.
        - apply (J1 (bid x)). eapply t_trans; [exact R|]. apply t_step. exists a, x. auto. }
      assert (NoDup (bid a :: visited)) by (constructor; auto).
      assert (incl (bid a :: visited) (ids bs)).
      { intros v [<-|Hv']; auto. apply in_map; auto. }
      pose proof (NoDup_incl_length H H0). simpl in H1. lia.
    + exists x. repeat split; auto. intros a Ha. destruct (precb a x) eqn:Pa; auto.
      assert (existsb (fun a => precb a x) bs = true) by (apply existsb_exists; eauto). congruence.
  - destruct (existsb (fun a => precb a x) bs) eqn:Ex.
    + apply existsb_exists in Ex as (a & Ha & Pa).
      assert (Eax : E bs (bid a) (bid x)) by (exists a, x; auto).
      assert (Hnv : ~ In (bid a) visited).
      { intros Hv'. destruct (Hreach _ Hv') as [E0|R].
        - apply (J1 (bid x)). apply t_step. rewrite <- E0 at 1. exact Eax.
        - apply (J1 (bid x)). eapply t_trans; [exact R|]. apply t_step. exact Eax. }
      assert (Hsa : bslots a <> []).
      { apply precb_spec in Pa as (sa & _ & _ & Hsa & _). intros E0. rewrite E0 in Hsa. destruct Hsa. }
      apply (IH (bid a :: visited) a); auto.
      * assert (NoDup (bid a :: visited)) by (constructor; auto).
        assert (incl (bid a :: visited) (ids bs)).
        { intros v [<-|Hv']; auto. apply in_map; auto. }
        pose proof (NoDup_incl_length H H0). simpl in *. lia.
      * constructor; auto.
      * intros v [<-|Hv']; auto. apply in_map; auto.
      * left; reflexivity.
      * intros v [<-|Hv']; auto. right. destruct (Hreach _ Hv') as [->|R].
        -- apply t_step. exact Eax.
        -- eapply t_trans; [apply t_step; exact Eax| exact R].
    + exists x. repeat split; auto. intros a Ha. destruct (precb a x) eqn:Pa; auto.
      assert (existsb (fun a => precb a x) bs = true) by (apply existsb_exists; eauto). congruence. Qed.

Lemma no_pending st :
  inv c st -> linv [] st -> (forall q, nth q (act st) None = None) ->
  find_ready (bins st) (dl st) (pend st) = inl None -> pend st = [].
Proof. intros I L Hnone F. destruct (pend st) as [|id ps] eqn:Ep; auto. exfalso.
  destruct (find_ready_none _ _ _ F id) as (b0 & G0 & R0); [first [rewrite Ep; left; reflexivity| left; reflexivity]|]. try rewrite Ep in F.
  destruct I as [i_nd0 _ _ _ i_dyn0 _ _ _ _ _ _ _]. destruct L as [D3 Dp D5 J1 J2'].
  apply getb_In in G0 as [Hb0 _].
  assert (Hs0 : bslots b0 <> []).
  { intros E0. unfold ready in R0. rewrite E0 in R0. discriminate. }
  destruct (min_exists (bins st) i_nd0 J1 (length (ids (bins st))) [bid b0] b0) as (m & Hm & Hsm & Hmin); auto.
  - simpl. lia.
  - constructor; auto. constructor.
  - intros v [<-|[]]. apply in_map; auto.
  - left; reflexivity.
  - intros v [<-|[]]. auto.
  - (* the minimal bin is ready *)
    assert (Rm : ready (dl st) m = true).
    { unfold ready. apply forallb_forall. intros s Hs. apply Z.eqb_eq.
      destruct (Dp m s Hm Hs) as [D|(a & sa & e & Ha & Hsa & Eq & Ee & He)]; auto.
      exfalso. assert (precb a m = true); [|rewrite (Hmin a Ha) in H; discriminate].
      apply precb_spec. exists sa, s, e. repeat split; auto. lia. }
    (* and it is pending *)
    destruct (i_dyn0 m Hm) as [D1 D2]. destruct D2 as [D2|[D2|D2]]; [| |contradiction].
    + apply any_active_ex in D2 as [q Aq]. specialize (D1 q Aq). rewrite Hnone in D1. discriminate.
    + try rewrite Ep in D2. destruct (find_ready_none _ _ _ F (bid m) D2) as (m' & Gm & Rm').
      apply getb_In in Gm as [Hm' Em']. assert (m' = m) by (eapply nodup_ids_eq; eauto). subst m'. congruence. Qed.

End Live.

Lemma init_linv nq ncyc c : wf_input nq ncyc c -> linv c (init nq c).
Proof. intros (Hord & Hcyc & Hnd & Hne & Hq). constructor; simpl; try (intros; contradiction).
  - intros q n Hn. right; left.
    assert (Hlt : q < nq).
    { pose proof (next_cycle_spec q c) as NC. rewrite Hn in NC. destruct NC as (r1 & y & r2 & Er & _ & Ty & _).
      apply (Hq y); [rewrite Er; apply in_or_app; right; left; auto|]. unfold touch in Ty. apply memb_In; exact Ty. }
    rewrite nth_map_seq by exact Hlt. unfold first_cycle. rewrite Hn. reflexivity.
  - intros i R. destruct (reach_ends _ _ _ R) as [(a0 & [] & _) _].
Qed.

(* Liveness: with the repair (fx = true), or on circuits without barrier-like operations,
   QuickPartitioner's final `len(pending_bins) != 0` test can never fire. *)
Theorem quick_all_emitted k fx nq ncyc c hints st2 :
  wf_input nq ncyc c ->
  (fx = true \/ forall x, In x c -> okind (snd x) = KGate) ->
  quick_state k fx nq ncyc c hints = inl st2 -> pend st2 = [].
Proof. intros W Hfx H. pose proof (init_inv k nq ncyc c W) as I0. pose proof (init_linv nq ncyc c W) as L0.
  destruct W as (Hord & Hcyc & Hnd & Hne & Hq).
  unfold quick_state in H.
  destruct (run_ops k fx ncyc c hints (init nq c)) as [st|] eqn:R; [|discriminate].
  destruct (close_all_from (length (act st)) 0 ncyc st) as [st1|] eqn:C; [|discriminate].
  assert (IL : inv k c c st /\ linv [] st).
  { eapply (run_ops_full k ncyc c) with (pre := []); eauto. reflexivity. }
  destruct IL as [I L].
  destruct (close_all_inv k ncyc c Hord Hcyc Hnd Hne (length (act st)) 0 st st1 I) as (I1 & Z1 & L1); auto.
  { intros q Hq0. lia. }
  assert (Ll1 : linv [] st1) by (eapply (close_all_linv k ncyc c) with (st := st) (n := length (act st)) (q0 := 0); eauto).
  unfold process_pending_bins in H.
  destruct (process_pending_inv k ncyc c Hord Hcyc c _ _ _ I1 H) as (I2 & A2 & _ & _).
  assert (Ll2 : linv [] st2).
  { eapply (process_pending_linv k ncyc c) with (pre := c) (st := st1); eauto. rewrite app_nil_r; reflexivity. }
  pose proof (process_pending_done ncyc _ _ _ H) as F.
  eapply (no_pending k c); eauto.
  intros q. rewrite A2. destruct (Nat.lt_ge_cases q (length (act st))) as [Hlt|Hge].
  - apply Z1. simpl. exact Hlt. - apply nth_overflow. rewrite L1. exact Hge. Qed.

(* hence: once the sweep itself went through, run() returns, and what it returns is a good partition *)
Theorem quick_returns k fx nq ncyc c hints st2 :
  wf_input nq ncyc c ->
  (fx = true \/ forall x, In x c -> okind (snd x) = KGate) ->
  quick_state k fx nq ncyc c hints = inl st2 ->
  quick k fx nq ncyc c hints = inl (out st2) /\
  good_partition k (map snd c) (out st2) /\ all_gates_blocked (out st2).
Proof. intros W Hfx H. assert (E0 : quick k fx nq ncyc c hints = inl (out st2)).
  { unfold quick. rewrite H. rewrite (quick_all_emitted _ _ _ _ _ _ _ W Hfx H). reflexivity. }
  split; auto. eapply quick_correct_partial; eauto. Qed.
