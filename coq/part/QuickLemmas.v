(* C08 - generic lemmas used by the QuickPartitioner proofs (lists, set_nth, sort,
   the bin table, per-qudit filters on a list of (cycle, op)). *)
From Coq Require Import List Arith Bool NArith ZArith Lia Permutation.
Import ListNotations.
From BQ Require Import lib.Trace part.PartSpec part.PartCheck part.Quick.

(* ---------- booleans on lists of qudits ---------- *)
Lemma memb_false q l : memb q l = false <-> ~ In q l.
Proof. rewrite <- memb_In. destruct (memb q l); split; intros H; try congruence; try (intros H'; discriminate). Qed.

Lemma subsetb_incl a b : subsetb a b = true <-> incl a b.
Proof. unfold subsetb. rewrite forallb_forall. split; intros H x Hx.
  - apply memb_In. auto. - apply memb_In. auto. Qed.

Lemma disjointb_spec a b : disjointb a b = true <-> (forall q, In q a -> ~ In q b).
Proof. unfold disjointb. rewrite negb_true_iff. split.
  - intros H q Ha Hb. assert (existsb (fun q => memb q b) a = true); [|congruence].
    apply existsb_exists. exists q. split; auto. apply memb_In; auto.
  - intros H. destruct (existsb (fun q => memb q b) a) eqn:E; auto.
    apply existsb_exists in E as [q [Ha Hb]]. apply memb_In in Hb. exfalso. eapply H; eauto. Qed.

Lemma union_In a b q : In q (union a b) <-> In q a \/ In q b.
Proof. unfold union. revert b. induction a as [|x a IH]; simpl; intros b; [tauto|].
  rewrite IH. destruct (memb x b) eqn:E.
  - apply memb_In in E. split; [intros [H|H]; auto| intros [[<-|H]|H]; auto].
  - rewrite in_app_iff. simpl. tauto. Qed.

Lemma dedup_NoDup l : NoDup (dedup l).
Proof. induction l as [|x t IH]; simpl; [constructor|].
  destruct (memb x t) eqn:E; auto. constructor; auto.
  rewrite dedup_In. apply memb_false; exact E. Qed.

Lemma NoDup_same_length (a b : list nat) :
  NoDup a -> NoDup b -> (forall x, In x a <-> In x b) -> length a = length b.
Proof. intros Ha Hb H. apply Permutation_length. apply NoDup_Permutation; auto. Qed.

(* ---------- set_nth ---------- *)
Lemma nth_set_nth {A} (d : A) q q' v l :
  nth q (set_nth d q' v l) d = if Nat.eqb q q' then v else nth q l d.
Proof. revert q l. induction q' as [|q' IH]; intros q l.
  - destruct l, q; simpl; auto; destruct q; auto.
  - destruct l as [|x t], q as [|q]; simpl; auto; rewrite IH; auto.
    destruct (Nat.eqb q q'); auto. destruct q; auto. Qed.

(* ---------- insertion sort ---------- *)
Lemma insert_sorted_perm x l : Permutation (insert_sorted x l) (x :: l).
Proof. induction l as [|y t IH]; simpl; auto.
  destruct (x <=? y); auto. eapply perm_trans; [apply perm_skip; exact IH| apply perm_swap]. Qed.

Lemma sort_perm l : Permutation (sort l) l.
Proof. induction l as [|x t IH]; simpl; auto.
  eapply perm_trans; [apply insert_sorted_perm| apply perm_skip; exact IH]. Qed.

Lemma sort_In l x : In x (sort l) <-> In x l.
Proof. split; apply Permutation_in; [|apply Permutation_sym]; apply sort_perm. Qed.

Lemma sort_NoDup l : NoDup l -> NoDup (sort l).
Proof. intros H. eapply Permutation_NoDup; [apply Permutation_sym; apply sort_perm| exact H]. Qed.

Lemma sort_length l : length (sort l) = length l.
Proof. apply Permutation_length. apply sort_perm. Qed.

(* ---------- widest ---------- *)
Lemma widest_app a b : widest (a ++ b) = Nat.max (widest a) (widest b).
Proof. induction a as [|x a IH]; simpl; auto. rewrite IH. lia. Qed.

(* ---------- per-qudit timelines ---------- *)
Lemma pq_app q a b : pq q (a ++ b) = pq q a ++ pq q b.
Proof. apply filter_app. Qed.

Lemma pq_cons q o s : pq q (o :: s) = if memb q (oloc o) then o :: pq q s else pq q s.
Proof. reflexivity. Qed.

Lemma pq_nil_notin q s : (forall o, In o s -> ~ In q (oloc o)) -> pq q s = [].
Proof. induction s as [|o s IH]; intros H; auto. rewrite pq_cons.
  destruct (memb q (oloc o)) eqn:E.
  - apply memb_In in E. exfalso. eapply H; [left; reflexivity| exact E].
  - apply IH. intros o' Ho'. apply H. right; exact Ho'. Qed.

Lemma unfold_app a b : unfold (a ++ b) = unfold a ++ unfold b.
Proof. apply flat_map_app. Qed.

(* ---------- (cycle, op) lists: operations on qudit q whose cycle satisfies P ---------- *)
Definition cop := (Z * op)%type.
Definition touch (q : nat) (x : cop) : bool := memb q (oloc (snd x)).
Definition fq (q : nat) (P : Z -> bool) (l : list cop) : list op :=
  map snd (filter (fun x => touch q x && P (fst x)) l).

Lemma fq_app q P a b : fq q P (a ++ b) = fq q P a ++ fq q P b.
Proof. unfold fq. rewrite filter_app, map_app. reflexivity. Qed.

Lemma fq_ext q P Q l :
  (forall x, In x l -> touch q x = true -> P (fst x) = Q (fst x)) -> fq q P l = fq q Q l.
Proof. unfold fq. intros H. f_equal. apply filter_ext_in. intros x Hx.
  destruct (touch q x) eqn:E; simpl; auto. Qed.

Lemma fq_none q P l :
  (forall x, In x l -> touch q x = true -> P (fst x) = false) -> fq q P l = [].
Proof. induction l as [|x l IH]; intros H; auto. unfold fq in *. simpl.
  destruct (touch q x) eqn:E; simpl.
  - rewrite (H x (or_introl eq_refl) E). apply IH. intros y Hy. apply H. right; auto.
  - apply IH. intros y Hy. apply H. right; auto. Qed.

Lemma fq_all q l : fq q (fun _ => true) l = pq q (map snd l).
Proof. unfold fq, pq, proj. induction l as [|x l IH]; simpl; auto.
  unfold touch at 1. unfold touches. fold (memb q (oloc (snd x))).
  rewrite andb_true_r. destruct (memb q (oloc (snd x))); simpl; rewrite IH; reflexivity. Qed.

(* per-qudit strictly increasing cycles *)
Definition ordered (c : list cop) : Prop :=
  forall l1 x l2 y q, c = l1 ++ x :: l2 -> In y l2 ->
    touch q x = true -> touch q y = true -> (fst x < fst y)%Z.

Lemma ordered_tail x c : ordered (x :: c) -> ordered c.
Proof. intros H l1 a l2 y q -> Hy Ha Hb. apply (H (x :: l1) a l2 y q); auto. Qed.

(* on an ordered list:  (cy < a) ++ (a <= cy <= e)  =  (cy < e + 1)   when a <= e + 1 *)
Lemma fq_split_sorted q a e c :
  ordered c -> (a <= e + 1)%Z ->
  fq q (fun cy => cy <? a)%Z c ++ fq q (fun cy => (a <=? cy) && (cy <=? e))%Z c
  = fq q (fun cy => cy <? e + 1)%Z c.
Proof. intros Ho Hae. induction c as [|x c IH]; auto.
  specialize (IH (ordered_tail _ _ Ho)).
  unfold fq in *. simpl. destruct (touch q x) eqn:T; simpl; auto.
  destruct (fst x <? a)%Z eqn:E1.
  - assert ((a <=? fst x)%Z = false) as -> by lia. simpl.
    assert ((fst x <? e + 1)%Z = true) as -> by lia. simpl. f_equal. exact IH.
  - (* fst x >= a: nothing later is below a *)
    assert (Hn : map snd (filter (fun y => touch q y && (fst y <? a)%Z) c) = []).
    { apply (fq_none q (fun cy => cy <? a)%Z). intros y Hy Ty.
      pose proof (Ho [] x c y q eq_refl Hy T Ty). lia. }
    rewrite Hn in *. simpl in *.
    assert ((a <=? fst x)%Z = true) as -> by lia. simpl.
    destruct (fst x <=? e)%Z eqn:E2.
    + assert ((fst x <? e + 1)%Z = true) as -> by lia. simpl. f_equal. exact IH.
    + assert ((fst x <? e + 1)%Z = false) as -> by lia. simpl. exact IH. Qed.

Lemma fq_split_sorted_inf q a c :
  ordered c ->
  fq q (fun cy => cy <? a)%Z c ++ fq q (fun cy => a <=? cy)%Z c = fq q (fun _ => true) c.
Proof. intros Ho. induction c as [|x c IH]; auto.
  specialize (IH (ordered_tail _ _ Ho)).
  unfold fq in *. simpl. destruct (touch q x) eqn:T; simpl; auto.
  destruct (fst x <? a)%Z eqn:E1.
  - assert ((a <=? fst x)%Z = false) as -> by lia. simpl. f_equal. exact IH.
  - assert (Hn : map snd (filter (fun y => touch q y && (fst y <? a)%Z) c) = []).
    { apply (fq_none q (fun cy => cy <? a)%Z). intros y Hy Ty.
      pose proof (Ho [] x c y q eq_refl Hy T Ty). lia. }
    rewrite Hn in *. simpl in *.
    assert ((a <=? fst x)%Z = true) as -> by lia. simpl. f_equal. exact IH. Qed.

(* ---------- the bin table ---------- *)
Definition ids (bs : list bin) : list nat := map bid bs.

Lemma getb_In id bs b : getb id bs = Some b -> In b bs /\ bid b = id.
Proof. unfold getb. intros H. apply find_some in H as [H1 H2]. apply Nat.eqb_eq in H2. auto. Qed.

Lemma getb_split id bs b :
  NoDup (ids bs) -> getb id bs = Some b ->
  exists l1 l2, bs = l1 ++ b :: l2 /\ ~ In id (ids l1) /\ ~ In id (ids l2).
Proof. unfold ids. induction bs as [|x bs IH]; simpl; intros Hnd H; [discriminate|].
  inversion Hnd as [|? ? Hx Hnd']; subst.
  destruct (Nat.eqb (bid x) id) eqn:E.
  - inversion H; subst. apply Nat.eqb_eq in E. subst. exists [], bs. simpl. auto.
  - destruct (IH Hnd' H) as (l1 & l2 & -> & H1 & H2). exists (x :: l1), l2.
    simpl. split; auto. split; auto. apply Nat.eqb_neq in E. intros [?|?]; auto. Qed.

Lemma In_getb bs b : NoDup (ids bs) -> In b bs -> getb (bid b) bs = Some b.
Proof. unfold ids. induction bs as [|x bs IH]; simpl; intros Hnd H; [destruct H|].
  inversion Hnd as [|? ? Hx Hnd']; subst. destruct H as [->|H].
  - rewrite Nat.eqb_refl. reflexivity.
  - destruct (Nat.eqb (bid x) (bid b)) eqn:E.
    + apply Nat.eqb_eq in E. exfalso. apply Hx. rewrite E. apply in_map. exact H.
    + apply IH; auto. Qed.

Lemma putb_notin b' l : ~ In (bid b') (ids l) -> putb b' l = l.
Proof. unfold putb, ids. induction l as [|x l IH]; simpl; intros H; auto.
  destruct (Nat.eqb (bid x) (bid b')) eqn:E.
  - apply Nat.eqb_eq in E. exfalso. apply H. left; exact E.
  - f_equal. apply IH. tauto. Qed.

Lemma putb_split b b' l1 l2 :
  bid b' = bid b -> ~ In (bid b) (ids l1) -> ~ In (bid b) (ids l2) ->
  putb b' (l1 ++ b :: l2) = l1 ++ b' :: l2.
Proof. intros He H1 H2.
  assert (Ha : forall a c, putb b' (a ++ c) = putb b' a ++ putb b' c) by (intros; apply map_app).
  assert (Hc : forall x c, putb b' (x :: c) = (if Nat.eqb (bid x) (bid b') then b' else x) :: putb b' c) by reflexivity.
  rewrite Ha, Hc, He, Nat.eqb_refl, !putb_notin; auto; rewrite He; auto. Qed.

Lemma delb_notin id l : ~ In id (ids l) -> delb id l = l.
Proof. unfold delb, ids. induction l as [|x l IH]; simpl; intros H; auto.
  destruct (Nat.eqb (bid x) id) eqn:E; simpl.
  - apply Nat.eqb_eq in E. exfalso. apply H. left; exact E.
  - f_equal. apply IH. tauto. Qed.

Lemma delb_split b l1 l2 :
  ~ In (bid b) (ids l1) -> ~ In (bid b) (ids l2) ->
  delb (bid b) (l1 ++ b :: l2) = l1 ++ l2.
Proof. intros H1 H2.
  assert (Ha : forall a c, delb (bid b) (a ++ c) = delb (bid b) a ++ delb (bid b) c) by (intros; apply filter_app).
  assert (Hc : forall x c, delb (bid b) (x :: c) = if negb (Nat.eqb (bid x) (bid b)) then x :: delb (bid b) c else delb (bid b) c) by reflexivity.
  rewrite Ha, Hc, Nat.eqb_refl, !delb_notin; auto. Qed.

Lemma ids_app a b : ids (a ++ b) = ids a ++ ids b.
Proof. apply map_app. Qed.

Lemma getb_app_notin id l1 l2 : ~ In id (ids l1) -> getb id (l1 ++ l2) = getb id l2.
Proof. unfold getb, ids. induction l1 as [|x l1 IH]; simpl; intros H; auto.
  destruct (Nat.eqb (bid x) id) eqn:E.
  - apply Nat.eqb_eq in E. exfalso. apply H. left; exact E.
  - apply IH. tauto. Qed.

Lemma getb_none_notin id l : getb id l = None -> ~ In id (ids l).
Proof. unfold getb, ids. induction l as [|x l IH]; simpl; intros H; auto.
  destruct (Nat.eqb (bid x) id) eqn:E; [discriminate|].
  apply Nat.eqb_neq in E. intros [?|?]; auto. apply IH; auto. Qed.
