(* C08 - liveness of the QuickPartitioner model: with the blocked-qudit propagation also
   run at barriers (fx = true), or on circuits without barrier-like operations, no bin is
   left pending (the RuntimeError is unreachable). *)
From Coq Require Import List Arith Bool NArith ZArith Lia Permutation Relations.
Import ListNotations.
From BQ Require Import lib.Trace part.PartSpec part.PartCheck part.Quick part.QuickLemmas part.QuickMerge
  part.QuickInv part.QuickThm.

(* ---------- the dependency graph between live bins ---------- *)
Definition slot_prec (sa sb : slot) : bool :=
  Nat.eqb (sq sa) (sq sb) && match send sa with Some e => (e <? sstart sb)%Z | None => false end.
Definition precb (a b : bin) : bool := existsb (fun sa => existsb (slot_prec sa) (bslots b)) (bslots a).

Lemma precb_spec a b : precb a b = true <->
  exists sa sb e, In sa (bslots a) /\ In sb (bslots b) /\ sq sa = sq sb /\ send sa = Some e /\ (e < sstart sb)%Z.
Proof. unfold precb, slot_prec. rewrite existsb_exists. split.
  - intros (sa & Ha & H). apply existsb_exists in H as (sb & Hb & H).
    apply andb_true_iff in H as [H1 H2]. apply Nat.eqb_eq in H1.
    destruct (send sa) as [e|] eqn:Es; [|discriminate]. apply Z.ltb_lt in H2. exists sa, sb, e. auto.
  - intros (sa & sb & e & Ha & Hb & Eq & Es & Hlt). exists sa. split; auto. apply existsb_exists.
    exists sb. split; auto. rewrite Eq, Nat.eqb_refl, Es. simpl. apply Z.ltb_lt. exact Hlt. Qed.

Definition E (bs : list bin) (i j : nat) : Prop :=
  exists a b, In a bs /\ In b bs /\ bid a = i /\ bid b = j /\ precb a b = true.
Definition reach (bs : list bin) : nat -> nat -> Prop := clos_trans nat (E bs).

Lemma reach_mono bs bs' : (forall i j, E bs' i j -> E bs i j) -> forall i j, reach bs' i j -> reach bs i j.
Proof. intros H i j R. induction R as [x y Hxy|x y z _ IH1 _ IH2].
  - apply t_step. auto. - eapply t_trans; eauto. Qed.

Lemma close_slot_start loc cur s : sstart (close_slot loc cur s) = sstart s.
Proof. unfold close_slot. destruct (sact s && memb (sq s) loc); reflexivity. Qed.

Lemma close_slot_end loc cur s e :
  send (close_slot loc cur s) = Some e ->
  send s = Some e \/ (sact s = true /\ In (sq s) loc /\ e = (cur - 1)%Z).
Proof. unfold close_slot. destruct (sact s) eqn:A; simpl; auto.
  destruct (memb (sq s) loc) eqn:M; simpl; auto. intros H. inversion H. right. split; auto. split; auto.
  apply memb_In; auto. Qed.

Lemma close_slot_inactive loc cur s : sact s = false -> close_slot loc cur s = s.
Proof. unfold close_slot. intros ->. reflexivity. Qed.

Section Live.
Variable k : nat.
Variable ncyc : Z.
Variable c : list cop.
Hypothesis Hord : ordered c.
Hypothesis Hcyc : forall x, In x c -> (fst x < ncyc)%Z.
Hypothesis Hnd : forall x, In x c -> NoDup (oloc (snd x)).
Hypothesis Hne : forall x, In x c -> oloc (snd x) <> [].
Notation inv := (inv k c).

Record linv (suf : list cop) (st : state) : Prop := {
  (* two live slots on the same qudit start at different cycles *)
  l_D3 : forall a b sa sb, In a (bins st) -> In b (bins st) -> In sa (bslots a) -> In sb (bslots b) ->
           sq sa = sq sb -> sstart sa = sstart sb -> bid a = bid b;
  (* a live slot starts at the dividing line or right after another live slot *)
  l_Dp : forall b s, In b (bins st) -> In s (bslots b) ->
           nth (sq s) (dl st) 0%Z = sstart s \/
           exists a sa e, In a (bins st) /\ In sa (bslots a) /\ sq sa = sq s /\ send sa = Some e /\ (e + 1 = sstart s)%Z;
  (* the next operation on q will find an active slot, the dividing line, or a live predecessor *)
  l_D5 : forall q n, next_cycle q suf = Some n ->
           (exists b s, In b (bins st) /\ In s (bslots b) /\ sq s = q /\ sact s = true) \/
           nth q (dl st) 0%Z = n \/
           (exists b s, In b (bins st) /\ In s (bslots b) /\ sq s = q /\ send s = Some (n - 1)%Z);
  l_J1 : forall i, ~ reach (bins st) i i;
  l_J2 : forall A, In A (bins st) -> any_active A = true ->
           forall j C, reach (bins st) (bid A) j -> In C (bins st) -> bid C = j ->
           incl (bqudits C) (bblocked A ++ bqudits A)
}.


Definition sub_edges (bs bs' : list bin) : Prop := forall i j, E bs' i j -> E bs i j.

Lemma J1_transfer bs bs' : sub_edges bs bs' -> (forall i, ~ reach bs i i) -> forall i, ~ reach bs' i i.
Proof. intros Hs H i R. apply (H i). eapply reach_mono; eauto. Qed.

Definition J2 (bs : list bin) : Prop :=
  forall A, In A bs -> any_active A = true ->
    forall j C, reach bs (bid A) j -> In C bs -> bid C = j -> incl (bqudits C) (bblocked A ++ bqudits A).

(* bins keep identity and qudits, blocked sets only grow, activity only shrinks, edges only disappear *)
Lemma J2_transfer bs bs' :
  NoDup (ids bs) ->
  (forall x', In x' bs' -> exists x, In x bs /\ bid x = bid x' /\ bqudits x = bqudits x' /\
                                     incl (bblocked x) (bblocked x') /\
                                     (any_active x' = true -> any_active x = true)) ->
  sub_edges bs bs' -> J2 bs -> J2 bs'.
Proof. intros Hnd' Hm Hs H A' HA' Act j C' R HC' EC'.
  destruct (Hm A' HA') as (A & HA & IA & QA & BA & AA).
  destruct (Hm C' HC') as (C & HC & IC & QC & _ & _).
  rewrite <- QC, <- QA. intros q Hq.
  assert (In q (bblocked A ++ bqudits A)).
  { apply (H A HA (AA Act) j C); auto; [|congruence]. rewrite IA. eapply reach_mono; eauto. }
  apply in_app_or in H0 as [H0|H0]; apply in_or_app; auto. Qed.

(* every live slot on a qudit of the current location started before the current cycle *)
Lemma slot_start_lt pre st loc cur b s :
  inv pre st ->
  (forall q, In q loc -> forall x, In x pre -> touch q x = true -> (fst x < cur)%Z) ->
  In b (bins st) -> In s (bslots b) -> In (sq s) loc -> (sstart s < cur)%Z.
Proof. intros I Hp Hb Hs Hq. destruct I as [_ _ _ i_static0 _ _ _ _ _ _ _ _].
  destruct (i_static0 b Hb) as (_ & _ & S3 & _). rewrite Forall_forall in S3.
  destruct (S3 s Hs) as [(x & Hx & Tx & Ex) _]. rewrite <- Ex. eapply Hp; eauto. Qed.

Lemma active_end_none pre st b s :
  inv pre st -> In b (bins st) -> In s (bslots b) -> sact s = true -> send s = None.
Proof. intros I Hb Hs Ha. destruct I as [_ _ _ i_static0 _ _ _ _ _ _ _ _].
  destruct (i_static0 b Hb) as (_ & _ & S3 & _). rewrite Forall_forall in S3.
  destruct (S3 s Hs) as [_ S]. rewrite Ha in S. tauto. Qed.

(* ---------- close_bin_qudits ---------- *)
Lemma close_bin_linv pre suf id loc cur st st' fl :
  c = pre ++ suf ->
  (forall q, In q loc -> forall x, In x pre -> touch q x = true -> (fst x < cur)%Z) ->
  (forall q n, In q loc -> next_cycle q suf = Some n -> n = cur) ->
  inv pre st -> linv suf st -> close_bin id loc cur st = inl (st', fl) -> linv suf st'.
Proof. intros Hc Hp Hn I L H.
  pose proof (fun b s => slot_start_lt pre st loc cur b s I Hp) as W.
  pose proof (fun b s => active_end_none pre st b s I) as AE.
  unfold close_bin in H. destruct (getb id (bins st)) as [b|] eqn:G; [|discriminate].
  pose proof I as I'. destruct I' as [i_nd0 _ _ _ _ _ _ _ _ _ _ _].
  destruct (getb_split _ _ _ i_nd0 G) as (l1 & l2 & Eb & N1 & N2).
  apply getb_In in G as [Gin Gid]. subst id.
  set (b' := with_slots b (map (close_slot loc cur) (bslots b))) in *.
  assert (Hbins : bins st' = l1 ++ b' :: l2).
  { inversion H; subst. simpl. rewrite Eb. apply putb_split; auto. }
  assert (Hdl : dl st' = dl st) by (inversion H; reflexivity).
  (* every new bin x' comes from an old bin x; slots are mapped by f (identity except for b) *)
  assert (Hcor : forall x', In x' (bins st') ->
     exists x, In x (bins st) /\ bid x = bid x' /\ bblocked x = bblocked x' /\
       ((x' = b' /\ x = b) \/ (x' = x /\ bid x <> bid b))).
  { intros x' Hx. rewrite Hbins in Hx. apply in_mid in Hx as [Hx|[Hx|Hx]].
    - exists x'. split; [rewrite Eb; apply in_or_app; auto|]. repeat split; auto. right. split; auto.
      intros E0. apply N1. rewrite <- E0. apply in_map; auto.
    - subst x'. exists b. repeat split; auto.
    - exists x'. split; [rewrite Eb; apply in_or_app; right; right; auto|]. repeat split; auto. right. split; auto.
      intros E0. apply N2. rewrite <- E0. apply in_map; auto. }
  (* slots of a new bin come from slots of its old version *)
  assert (Hsl : forall x' s', In x' (bins st') -> In s' (bslots x') ->
     exists x s, In x (bins st) /\ bid x = bid x' /\ In s (bslots x) /\ sq s' = sq s /\ sstart s' = sstart s /\
       (s' = s \/ (x = b /\ s' = close_slot loc cur s /\ sact s = true /\ In (sq s) loc /\
                   send s' = Some (cur - 1)%Z /\ sact s' = false))).
  { intros x' s' Hx Hs'. destruct (Hcor x' Hx) as (x & Hxin & Ei & _ & [[-> ->]|[-> Hne']]).
    - unfold b' in Hs'. simpl in Hs'. apply in_map_iff in Hs' as (s & <- & Hs).
      exists b, s. rewrite close_slot_sq, close_slot_start. repeat split; auto.
      destruct (sact s) eqn:A; [destruct (memb (sq s) loc) eqn:M|].
      + right. repeat split; auto; try (apply memb_In; exact M); unfold close_slot; rewrite A, M; reflexivity.
      + left. unfold close_slot. rewrite A, M. reflexivity.
      + left. unfold close_slot. rewrite A. reflexivity.
    - exists x, s'. repeat split; auto. }
  (* and every old slot has a new version *)
  assert (Hfw : forall x s, In x (bins st) -> In s (bslots x) ->
     exists x' s', In x' (bins st') /\ bid x' = bid x /\ In s' (bslots x') /\ sq s' = sq s /\ sstart s' = sstart s /\
       (sact s = false -> s' = s) /\ (sact s = true -> ~ In (sq s) loc -> s' = s) /\
       (sact s = true -> In (sq s) loc -> x = b -> send s' = Some (cur - 1)%Z) /\
       (x <> b -> s' = s)).
  { intros x s Hx Hs0. rewrite Eb in Hx. apply in_mid in Hx as [Hx|[Hx|Hx]].
    - exists x, s. split; [rewrite Hbins; apply in_or_app; auto|]. repeat split; auto.
      intros _ _ ->. exfalso. apply N1. apply in_map; auto.
    - subst x. exists b', (close_slot loc cur s).
      split; [rewrite Hbins; apply in_or_app; right; left; auto|]. split; auto.
      split; [unfold b'; simpl; apply in_map; auto|].
      rewrite close_slot_sq, close_slot_start. repeat split; auto.
      + intros A. apply close_slot_inactive; auto.
      + intros A Nq. unfold close_slot. rewrite A. apply memb_false in Nq. rewrite Nq. reflexivity.
      + intros A Iq _. unfold close_slot. rewrite A. apply memb_In in Iq. rewrite Iq. reflexivity.
      + intros Hne'. congruence.
    - exists x, s. split; [rewrite Hbins; apply in_or_app; right; right; auto|]. repeat split; auto.
      intros _ _ ->. exfalso. apply N2. apply in_map; auto. }
  assert (Hsub : sub_edges (bins st) (bins st')).
  { intros i j (a' & t' & Ha' & Ht' & <- & <- & Hp'). apply precb_spec in Hp' as (sa' & sb' & e & Hsa & Hsb & Eq & Ee & Hlt).
    destruct (Hsl a' sa' Ha' Hsa) as (a & sa & Ha & Eia & Hsa0 & Eqa & Esa & Ca).
    destruct (Hsl t' sb' Ht' Hsb) as (t & sb & Ht & Eit & Hsb0 & Eqb & Esb & _).
    exists a, t. repeat split; auto. apply precb_spec.
    destruct Ca as [->|(-> & -> & A & Iq & Es' & _)].
    - exists sa, sb, e. repeat split; auto; congruence.
    - exfalso. rewrite Es' in Ee. inversion Ee; subst e.
      assert (sstart sb < cur)%Z. { apply (W t sb); auto. rewrite <- Eqb, <- Eq, Eqa. exact Iq. }
      lia. }
  destruct L as [D3 Dp D5 J1 J2'].
  constructor.
  - intros a' t' sa' sb' Ha' Ht' Hsa Hsb Eq Es.
    destruct (Hsl a' sa' Ha' Hsa) as (a & sa & Ha & Eia & Hsa0 & Eqa & Esa & _).
    destruct (Hsl t' sb' Ht' Hsb) as (t & sb & Ht & Eit & Hsb0 & Eqb & Esb & _).
    rewrite <- Eia, <- Eit. apply (D3 a t sa sb); auto; congruence.
  - intros x' s' Hx' Hs'. rewrite Hdl.
    destruct (Hsl x' s' Hx' Hs') as (x & s & Hx & Eix & Hs0 & Eq & Es & _).
    rewrite Eq, Es. destruct (Dp x s Hx Hs0) as [D|(a & sa & e & Ha & Hsa & Eqa & Ea & He)]; auto.
    right. destruct (Hfw a sa Ha Hsa) as (a' & sa' & Ha' & _ & Hsa' & Eq' & _ & F1 & _).
    assert (sact sa = false).
    { destruct (sact sa) eqn:A; auto. rewrite (AE a sa Ha Hsa A) in Ea. discriminate. }
    rewrite (F1 H0) in *. exists a', sa, e. repeat split; auto.
  - intros q n Hq. rewrite Hdl. destruct (D5 q n Hq) as [(x & s & Hx & Hs0 & Eq & A)|[D|(x & s & Hx & Hs0 & Eq & Ee)]]; auto.
    + destruct (Hfw x s Hx Hs0) as (x' & s' & Hx' & _ & Hs' & Eq' & _ & _ & F2 & F3 & F4).
      destruct (in_dec Nat.eq_dec (sq s) loc) as [Iq|Nq].
      * destruct (Nat.eq_dec (bid x) (bid b)) as [Ex|Nx'].
        -- assert (x = b) by (eapply nodup_ids_eq; eauto). subst x.
           right; right. exists x', s'. repeat split; auto; [congruence|].
           rewrite (F3 A Iq eq_refl). rewrite Eq in Iq. rewrite (Hn q n Iq Hq). reflexivity.
        -- assert (Nx : x <> b) by (intros ->; apply Nx'; reflexivity).
           left. exists x', s'. rewrite (F4 Nx) in *. repeat split; auto.
      * left. exists x', s'. rewrite (F2 A Nq) in *. repeat split; auto.
    + right; right. destruct (Hfw x s Hx Hs0) as (x' & s' & Hx' & _ & Hs' & Eq' & _ & F1 & _).
      assert (sact s = false).
      { destruct (sact s) eqn:A; auto. rewrite (AE x s Hx Hs0 A) in Ee. discriminate. }
      rewrite (F1 H0) in *. exists x', s. repeat split; auto.
  - apply (J1_transfer (bins st)); auto.
  - apply (J2_transfer (bins st)); auto.
    intros x' Hx'. destruct (Hcor x' Hx') as (x & Hx & Ei & Bx & [[-> ->]|[-> Hne']]).
    + exists b. repeat split; auto.
      * unfold bqudits, b'. simpl. symmetry. apply map_close_slot_sq.
      * rewrite Bx. apply incl_refl.
      * intros Aa. apply any_active_ex in Aa as [q Aq]. apply is_active_slot in Aq as (s' & Hs' & _ & As).
        unfold b' in Hs'. simpl in Hs'. apply in_map_iff in Hs' as (s & <- & Hs0).
        apply close_slot_active in As as (_ & As & _). unfold any_active. apply existsb_exists. eauto.
    + exists x. repeat split; auto. apply incl_refl.
Qed.


(* ---------- updates that only enlarge blocked_qudits ---------- *)
Definition bog (bs bs' : list bin) : Prop :=
  Forall2 (fun b b' => exists l, b' = with_blocked b l /\ incl (bblocked b) l) bs bs'.

Lemma bog_refl bs : bog bs bs.
Proof. induction bs; constructor; auto. exists (bblocked a). split; [symmetry; apply with_blocked_self| apply incl_refl]. Qed.

Lemma bog_trans a b d : bog a b -> bog b d -> bog a d.
Proof. intros H. revert d. induction H as [|x y l l' (lx & -> & Hx) H IH]; intros d Hd; inversion Hd; subst; constructor.
  - destruct H2 as (ly & -> & Hy). exists ly. split; [reflexivity|]. simpl in Hy. eapply incl_tran; eauto.
  - apply IH; auto. Qed.

Lemma bog_map f bs : (forall b, exists l, f b = with_blocked b l /\ incl (bblocked b) l) -> bog bs (map f bs).
Proof. intros H. induction bs; simpl; constructor; auto. Qed.

Lemma bog_bo bs bs' : bog bs bs' -> bo bs bs'.
Proof. induction 1 as [|x y l l' (lx & -> & _) H IH]; constructor; auto. exists lx; auto. Qed.

Lemma bog_facts bs bs' : bog bs bs' ->
  (forall b', In b' bs' -> exists b l, In b bs /\ b' = with_blocked b l /\ incl (bblocked b) l) /\
  (forall b, In b bs -> exists l, In (with_blocked b l) bs' /\ incl (bblocked b) l).
Proof. induction 1 as [|x y l l' (lx & -> & Hx) H IH]; simpl.
  - split; intros ? [].
  - destruct IH as (I3 & I4). split.
    + intros b' [<-|Hb']; [exists x, lx; auto|]. destruct (I3 b' Hb') as (b & l0 & Hb & -> & Hi). exists b, l0; auto.
    + intros b [->|Hb]; [exists lx; auto|]. destruct (I4 b Hb) as (l0 & Hl0 & Hi). exists l0; auto. Qed.

Lemma linv_bog pre suf st bs' : inv pre st -> linv suf st -> bog (bins st) bs' -> linv suf (set_bins st bs').
Proof. intros I L Hb. destruct (bog_facts _ _ Hb) as [F3 F4]. destruct L as [D3 Dp D5 J1 J2'].
  assert (Hsub : sub_edges (bins st) bs').
  { intros i j (a' & t' & Ha' & Ht' & <- & <- & Hp').
    destruct (F3 a' Ha') as (a & la & Ha & -> & _). destruct (F3 t' Ht') as (t & lt & Ht & -> & _).
    exists a, t. repeat split; auto. }
  constructor; simpl.
  - intros a' t' sa sb Ha' Ht' Hsa Hsb Eq Es.
    destruct (F3 a' Ha') as (a & la & Ha & -> & _). destruct (F3 t' Ht') as (t & lt & Ht & -> & _).
    apply (D3 a t sa sb); auto.
  - intros x' s Hx' Hs. destruct (F3 x' Hx') as (x & lx & Hx & -> & _).
    destruct (Dp x s Hx Hs) as [D|(a & sa & e & Ha & Hsa & R)]; auto.
    right. destruct (F4 a Ha) as (la & Hla & _). exists (with_blocked a la), sa, e. auto.
  - intros q n Hq. destruct (D5 q n Hq) as [(x & s & Hx & Hs & R)|[D|(x & s & Hx & Hs & R)]]; auto.
    + left. destruct (F4 x Hx) as (lx & Hlx & _). exists (with_blocked x lx), s. auto.
    + right; right. destruct (F4 x Hx) as (lx & Hlx & _). exists (with_blocked x lx), s. auto.
  - apply (J1_transfer (bins st)); auto.
  - apply (J2_transfer (bins st)); auto.
    + destruct I; auto.
    + intros x' Hx'. destruct (F3 x' Hx') as (x & lx & Hx & -> & Hi). exists x. repeat split; auto. Qed.

Lemma linv_set_nclosed suf st n : linv suf st -> linv suf (set_nclosed st n).
Proof. intros []. constructor; auto. Qed.

(* ---------- close_where / close_barrier ---------- *)
Lemma close_count_linv pre suf id loc cur st st' :
  c = pre ++ suf ->
  (forall q, In q loc -> forall x, In x pre -> touch q x = true -> (fst x < cur)%Z) ->
  (forall q n, In q loc -> next_cycle q suf = Some n -> n = cur) ->
  inv pre st -> linv suf st -> close_count id loc cur st = inl st' -> linv suf st'.
Proof. intros Hc Hp Hn I L H. unfold close_count in H.
  destruct (close_bin id loc cur st) as [[st1 fl]|] eqn:C; [|discriminate].
  assert (L1 : linv suf st1) by (exact (close_bin_linv pre suf id loc cur st st1 fl Hc Hp Hn I L C)).
  inversion H; subst. destruct fl; auto. apply linv_set_nclosed; auto. Qed.

Lemma close_where_linv keep pre suf loc cur : forall l st st',
  c = pre ++ suf ->
  (forall q, In q loc -> forall x, In x pre -> touch q x = true -> (fst x < cur)%Z) ->
  (forall q, In q loc -> forall y, In y suf -> touch q y = true -> (cur <= fst y)%Z) ->
  (forall q n, In q loc -> next_cycle q suf = Some n -> n = cur) ->
  inv pre st -> linv suf st -> close_where keep loc cur l st = inl st' -> linv suf st'.
Proof. induction l as [|x l IH]; simpl; intros st st' Hc Hp Hs Hn I L H.
  - inversion H; subst. auto.
  - destruct (keep x) eqn:K; [eapply IH; eauto|].
    destruct (close_count (fst x) loc cur st) as [st1|] eqn:C; [|discriminate].
    assert (L1 : linv suf st1) by (exact (close_count_linv pre suf (fst x) loc cur st st1 Hc Hp Hn I L C)).
    destruct (close_count_inv k ncyc c Hord Hcyc Hnd Hne pre suf _ _ _ _ _ Hc Hp Hs I C) as [I1 _].
    eapply IH; eauto. Qed.

Lemma close_barrier_linv pre suf loc cur : forall ids st st',
  c = pre ++ suf ->
  (forall q, In q loc -> forall x, In x pre -> touch q x = true -> (fst x < cur)%Z) ->
  (forall q, In q loc -> forall y, In y suf -> touch q y = true -> (cur <= fst y)%Z) ->
  (forall q n, In q loc -> next_cycle q suf = Some n -> n = cur) ->
  inv pre st -> linv suf st -> close_barrier loc cur ids st = inl st' -> linv suf st'.
Proof. induction ids as [|id ids IH]; simpl; intros st st' Hc Hp Hs Hn I L H.
  - inversion H; subst. auto.
  - destruct (close_bin id loc cur st) as [[st1 fl]|] eqn:C; [|discriminate].
    assert (I1 : inv pre st1) by (eapply close_bin_inv; eauto).
    assert (L1 : linv suf st1) by (exact (close_bin_linv pre suf id loc cur st st1 fl Hc Hp Hn I L C)).
    destruct fl.
    + eapply IH; [..|exact H]; auto. apply inv_set_nclosed; auto. apply linv_set_nclosed; auto.
    + assert (Hbg : bog (bins st1) (map (fun A => if Nat.eqb (bid A) id
               then with_blocked A (union (filter (fun q => negb (memb q (bqudits A))) loc) (bblocked A))
               else A) (bins st1))).
      { apply bog_map. intros b. destruct (Nat.eqb (bid b) id).
        - eexists. split; [reflexivity|]. intros q Hq. apply union_In. auto.
        - exists (bblocked b). split; [symmetry; apply with_blocked_self| apply incl_refl]. }
      eapply IH; [..|exact H]; auto.
      * apply inv_bo; auto. apply bog_bo; auto.
      * apply linv_bog with (pre := pre); auto. Qed.


(* ---------- emitting a ready pending bin ---------- *)
Lemma delb_In id bs x : In x (delb id bs) <-> In x bs /\ bid x <> id.
Proof. unfold delb. rewrite filter_In. split; intros [H1 H2]; split; auto.
  - apply negb_true_iff in H2. apply Nat.eqb_neq; auto.
  - apply negb_true_iff. apply Nat.eqb_neq; auto. Qed.

Lemma emit_linv pre suf st b :
  c = pre ++ suf ->
  inv pre st -> linv suf st -> In b (bins st) -> In (bid b) (pend st) -> ready (dl st) b = true ->
  linv suf (emit ncyc b st).
Proof. intros Hc I L Hb Hp Hr. destruct L as [D3 Dp D5 J1 J2'].
  pose proof I as I'. destruct I' as [i_nd0 _ _ i_static0 _ _ i_pend0 _ _ _ _ _].
  assert (Hina : any_active b = false) by (eapply i_pend0; eauto).
  destruct (i_static0 b Hb) as (S1 & _ & S3 & _).
  assert (Hrdy : forall s0, In s0 (bslots b) -> nth (sq s0) (dl st) 0%Z = sstart s0).
  { intros s0 Hs0. unfold ready in Hr. rewrite forallb_forall in Hr. apply Z.eqb_eq. apply Hr; auto. }
  assert (Hsub : sub_edges (bins st) (delb (bid b) (bins st))).
  { intros i j (a' & t' & Ha' & Ht' & <- & <- & Hp'). apply delb_In in Ha' as [Ha' _]. apply delb_In in Ht' as [Ht' _].
    exists a', t'. auto. }
  constructor; simpl.
  - intros a t sa sb Ha Ht. apply delb_In in Ha as [Ha _]. apply delb_In in Ht as [Ht _]. apply D3; auto.
  - intros x s Hx Hs. apply delb_In in Hx as [Hx Nx].
    destruct (Dp x s Hx Hs) as [D|(a & sa & e & Ha & Hsa & Eq & Ee & He)].
    + left. rewrite advance_notin; auto. intros Hq. apply in_map_iff in Hq as (s0 & Es0 & Hs0).
      apply Nx. apply (D3 x b s s0); auto. rewrite <- D. rewrite <- Es0. apply Hrdy; auto.
    + destruct (Nat.eq_dec (bid a) (bid b)) as [Ea|Na].
      * assert (a = b) by (eapply nodup_ids_eq; eauto). subst a. left.
        rewrite <- Eq. rewrite (advance_in ncyc _ _ sa S1 Hsa), Ee. exact He.
      * right. exists a, sa, e. repeat split; auto. apply delb_In; auto.
  - intros q n Hq. destruct (D5 q n Hq) as [(x & s & Hx & Hs & Eq & A)|[D|(x & s & Hx & Hs & Eq & Ee)]].
    + left. exists x, s. repeat split; auto. apply delb_In. split; auto. intros Ex.
      assert (x = b) by (eapply nodup_ids_eq; eauto). subst x.
      assert (sact s = false) by (eapply any_inactive_slots; eauto). congruence.
    + right; left. rewrite advance_notin; auto. intros Hq'. apply in_map_iff in Hq' as (s0 & Es0 & Hs0).
      (* a live slot cannot start at the cycle of an unprocessed operation *)
      rewrite Forall_forall in S3. destruct (S3 s0 Hs0) as [(x & Hx & Tx & Ex) _].
      pose proof (next_cycle_spec q suf) as NC. rewrite Hq in NC. destruct NC as (r1 & y & r2 & Er & _ & Ty & Ey).
      assert (fst x < fst y)%Z.
      { apply in_split in Hx as (p1 & p2 & ->). apply (Hord p1 x (p2 ++ r1 ++ y :: r2) y q).
        - rewrite Hc, Er, <- app_assoc. reflexivity.
        - apply in_or_app. right. apply in_or_app. right. left. reflexivity.
        - rewrite <- Es0. exact Tx. - exact Ty. }
      rewrite <- Es0 in D. rewrite (Hrdy s0 Hs0) in D. lia.
    + destruct (Nat.eq_dec (bid x) (bid b)) as [Ex|Nx].
      * assert (x = b) by (eapply nodup_ids_eq; eauto). subst x. right; left.
        rewrite <- Eq. rewrite (advance_in ncyc _ _ s S1 Hs), Ee. lia.
      * right; right. exists x, s. repeat split; auto. apply delb_In; auto.
  - apply (J1_transfer (bins st)); auto.
  - apply (J2_transfer (bins st)); auto.
    intros x' Hx'. apply delb_In in Hx' as [Hx' _]. exists x'. repeat split; auto. apply incl_refl. Qed.

Lemma process_pending_linv pre suf : forall fuel st st',
  c = pre ++ suf -> inv pre st -> linv suf st -> process_pending fuel ncyc st = inl st' -> linv suf st'.
Proof. induction fuel as [|f IH]; simpl; intros st st' Hc I L H; [discriminate|].
  destruct (find_ready (bins st) (dl st) (pend st)) as [[b|]|] eqn:F; [| |discriminate].
  - apply find_ready_spec in F as (F1 & F2 & F3).
    assert (I1 : inv pre (emit ncyc b st)) by (eapply emit_inv; eauto).
    assert (L1 : linv suf (emit ncyc b st)) by (eapply emit_linv; eauto).
    eapply IH; eauto.
  - inversion H; subst. auto. Qed.

End Live.
