(* C08 - the merge-with-rear loop of process_pending_bins preserves timelines,
   the multiset of operations and block well-formedness (merge_rear_preserves). *)
From Coq Require Import List Arith Bool NArith ZArith Lia Permutation.
Import ListNotations.
From BQ Require Import lib.Trace part.PartSpec part.PartCheck part.Quick part.QuickLemmas.

Lemma find_merge_spec loc : forall r cov after r' it after',
  (forall x, In x after -> forall q, In q (item_loc x) -> In q cov) ->
  find_merge loc cov after r = Some (r', it, after') ->
  exists mid, r = mid ++ it :: r' /\ after' = rev mid ++ after /\
    exists bl bb, it = Block bl bb /\ (subsetb bl loc || subsetb loc bl = true) /\
      forall x, In x after' -> forall q, In q bl -> ~ In q (item_loc x).
Proof. induction r as [|x r IH]; simpl; intros cov after r' it after' Hcov H; [discriminate|].
  destruct (candidate loc cov x) eqn:C.
  - inversion H; subst. exists []. simpl. split; auto. split; auto.
    destruct it as [o|bl bb]; simpl in C; [discriminate|].
    apply andb_true_iff in C as [C1 C2]. exists bl, bb. split; auto. split; auto.
    intros y Hy q Hq Hq'. rewrite disjointb_spec in C1. apply (C1 q Hq). eapply Hcov; eauto.
  - apply IH in H.
    + destruct H as (mid & -> & -> & bl & bb & -> & Hs & Hd).
      exists (x :: mid). simpl. split; auto. rewrite <- app_assoc. simpl. split; auto.
      exists bl, bb. auto.
    + intros y [<-|Hy] q Hq; apply union_In; auto. right. eapply Hcov; eauto. Qed.

Definition ops_in_loc (it : item) : Prop := forall o, In o (item_ops it) -> incl (oloc o) (item_loc it).

Lemma block_ok_ops_in_loc k it : block_ok k it -> ops_in_loc it.
Proof. destruct it as [o|l b]; simpl; intros H o' Ho'.
  - destruct Ho' as [<-|[]]. apply incl_refl.
  - destruct H as (_ & _ & H). apply H. exact Ho'. Qed.

Lemma pq_unfold_disjoint q (l : list item) :
  Forall ops_in_loc l -> (forall x, In x l -> ~ In q (item_loc x)) -> pq q (unfold l) = [].
Proof. intros Hw Hd. apply pq_nil_notin. intros o Ho Hq.
  unfold unfold in Ho. apply in_flat_map in Ho as (x & Hx & Ho).
  rewrite Forall_forall in Hw. apply (Hd x Hx). apply (Hw x Hx o Ho). exact Hq. Qed.

Definition item_gates_only (it : item) : Prop := no_barrier_inside it.

(* what the loop must preserve, stated for the circuit that would result from
   appending the block now *)
Record merge_ok (k : nat) (o : pcircuit) (loc : list nat) (body : list op)
                (o' : pcircuit) (loc' : list nat) (body' : list op) : Prop := {
  m_pq : forall q, pq q (unfold o' ++ body') = pq q (unfold o ++ body);
  m_perm : Permutation (unfold o' ++ body') (unfold o ++ body);
  m_ok : Forall (block_ok k) o';
  m_nb : Forall no_barrier_inside o';
  m_leaf : forall x, In (Leaf x) o' -> In (Leaf x) o;
  m_blk : block_ok k (Block loc' body');
  m_gates : forall x, In x body' -> okind x = KGate
}.

Theorem merge_rear_preserves k : forall fuel o loc body o' loc' body',
  Forall (block_ok k) o -> Forall no_barrier_inside o ->
  block_ok k (Block loc body) -> (forall x, In x body -> okind x = KGate) ->
  merge_loop fuel o loc body = (o', loc', body') ->
  merge_ok k o loc body o' loc' body'.
Proof. induction fuel as [|f IH]; intros o loc body o' loc' body' Hok Hnb Hb Hg H.
  { simpl in H. inversion H; subst. constructor; auto. }
  simpl in H. destruct (find_merge loc [] [] (rev o)) as [[[r' it] after]|] eqn:F.
  2:{ inversion H; subst. constructor; auto. }
  apply find_merge_spec in F; [|intros ? []].
  destruct F as (mid & Hr & -> & bl & bb & -> & Hs & Hd).
  rewrite app_nil_r in *.
  assert (Ho : o = rev r' ++ Block bl bb :: rev mid).
  { rewrite <- (rev_involutive o), Hr, rev_app_distr. simpl. rewrite <- app_assoc. reflexivity. }
  subst o. clear Hr.
  apply Forall_app in Hok as [Hok1 Hok2]. inversion Hok2 as [|? ? Hokb Hok3]; subst.
  apply Forall_app in Hnb as [Hnb1 Hnb2]. inversion Hnb2 as [|? ? Hnbb Hnb3]; subst.
  destruct Hokb as (Hw & Hnd & Hin). simpl in Hnbb.
  destruct Hb as (Hbw & Hbnd & Hbin).
  (* the state after removing the rear block and putting its body in front *)
  assert (Hok' : Forall (block_ok k) (rev r' ++ rev mid)) by (apply Forall_app; auto).
  assert (Hnb' : Forall no_barrier_inside (rev r' ++ rev mid)) by (apply Forall_app; auto).
  assert (Hg' : forall x, In x (bb ++ body) -> okind x = KGate).
  { intros x Hx. apply in_app_or in Hx as [Hx|Hx]; auto. }
  assert (Hw3 : Forall ops_in_loc (rev mid)).
  { eapply Forall_impl; [|exact Hok3]. intros a; apply block_ok_ops_in_loc. }
  (* timelines: the rear block commutes with everything behind it *)
  assert (Hpq : forall q, pq q (unfold (rev r' ++ rev mid) ++ bb ++ body)
                        = pq q (unfold (rev r' ++ Block bl bb :: rev mid) ++ body)).
  { intros q. rewrite !unfold_app.
    assert (Hu : unfold (Block bl bb :: rev mid) = bb ++ unfold (rev mid)) by reflexivity.
    rewrite Hu, !pq_app, <- !app_assoc. f_equal.
    destruct (in_dec Nat.eq_dec q bl) as [Hq|Hq].
    - rewrite (pq_unfold_disjoint q (rev mid)); [reflexivity|assumption|].
      intros x Hx. apply Hd; auto.
    - rewrite (pq_nil_notin q bb); [reflexivity|].
      intros x Hx Hqx. apply Hq. eapply Hin; eauto. }
  assert (Hperm : Permutation (unfold (rev r' ++ rev mid) ++ bb ++ body)
                              (unfold (rev r' ++ Block bl bb :: rev mid) ++ body)).
  { rewrite !unfold_app.
    assert (Hu : unfold (Block bl bb :: rev mid) = bb ++ unfold (rev mid)) by reflexivity.
    rewrite Hu, <- !app_assoc. apply Permutation_app_head.
    rewrite !app_assoc. apply Permutation_app_tail. apply Permutation_app_comm. }
  assert (Hleaf : forall x, In (Leaf x) (rev r' ++ rev mid) -> In (Leaf x) (rev r' ++ Block bl bb :: rev mid)).
  { intros x Hx. apply in_app_or in Hx as [Hx|Hx]; apply in_or_app; auto. right; right; auto. }
  destruct (subsetb bl loc) eqn:S1.
  - (* previous block inside the new one *)
    apply subsetb_incl in S1.
    assert (Hb' : block_ok k (Block loc (bb ++ body))).
    { split; [|split]; auto.
      - rewrite widest_app. lia.
      - intros x Hx. apply in_app_or in Hx as [Hx|Hx]; auto.
        intros q Hq. apply S1. eapply Hin; eauto. }
    specialize (IH _ _ _ _ _ _ Hok' Hnb' Hb' Hg' H). destruct IH.
    constructor; auto.
    + intros q. rewrite m_pq0. apply Hpq.
    + eapply perm_trans; [exact m_perm0| exact Hperm].
  - (* new block inside the previous one *)
    simpl in Hs. apply subsetb_incl in Hs.
    assert (Hb' : block_ok k (Block bl (bb ++ body))).
    { split; [|split]; auto.
      - rewrite widest_app. lia.
      - intros x Hx. apply in_app_or in Hx as [Hx|Hx]; auto.
        intros q Hq. apply Hs. eapply Hbin; eauto. }
    specialize (IH _ _ _ _ _ _ Hok' Hnb' Hb' Hg' H). destruct IH.
    constructor; auto.
    + intros q. rewrite m_pq0. apply Hpq.
    + eapply perm_trans; [exact m_perm0| exact Hperm]. Qed.
