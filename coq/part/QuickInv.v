(* C08 - the invariant of QuickPartitioner's main loop (every live bin is a slab,
   the emitted prefix is exactly what lies left of the dividing line, no operation is
   lost) and its preservation by the primitive steps of the model. *)
From Coq Require Import List Arith Bool NArith ZArith Lia Permutation.
Import ListNotations.
From BQ Require Import lib.Trace part.PartSpec part.PartCheck part.Quick part.QuickLemmas part.QuickMerge.

(* ---------- small facts about the model's helpers ---------- *)
Lemma with_blocked_self b : with_blocked b (bblocked b) = b.
Proof. destruct b; reflexivity. Qed.

Lemma is_active_In b q : is_active b q = true -> In q (bqudits b).
Proof. unfold is_active, bqudits. intros H. apply existsb_exists in H as (s & Hs & H).
  apply andb_true_iff in H as [H _]. apply Nat.eqb_eq in H. subst. apply in_map. exact Hs. Qed.

Lemma is_active_any b q : is_active b q = true -> any_active b = true.
Proof. unfold is_active, any_active. intros H. apply existsb_exists in H as (s & Hs & H).
  apply andb_true_iff in H as [_ H]. apply existsb_exists. eauto. Qed.

Lemma any_active_ex b : any_active b = true -> exists q, is_active b q = true.
Proof. unfold is_active, any_active. intros H. apply existsb_exists in H as (s & Hs & H).
  exists (sq s). apply existsb_exists. exists s. rewrite Nat.eqb_refl. auto. Qed.

Lemma is_active_slot b q : is_active b q = true <-> exists s, In s (bslots b) /\ sq s = q /\ sact s = true.
Proof. unfold is_active. rewrite existsb_exists. split.
  - intros (s & Hs & H). apply andb_true_iff in H as [H1 H2]. apply Nat.eqb_eq in H1. eauto.
  - intros (s & Hs & H1 & H2). exists s. rewrite H1, H2, Nat.eqb_refl. auto. Qed.

Lemma nodup_slot_eq (ss : list slot) s1 s2 :
  NoDup (map sq ss) -> In s1 ss -> In s2 ss -> sq s1 = sq s2 -> s1 = s2.
Proof. induction ss as [|s ss IH]; simpl; intros Hnd H1 H2 He; [destruct H1|].
  inversion Hnd as [|? ? Hn Hnd']; subst.
  destruct H1 as [->|H1], H2 as [->|H2]; auto.
  - exfalso. apply Hn. rewrite He. apply in_map; auto.
  - exfalso. apply Hn. rewrite <- He. apply in_map; auto. Qed.

Lemma nodup_ids_eq bs a b : NoDup (ids bs) -> In a bs -> In b bs -> bid a = bid b -> a = b.
Proof. unfold ids. induction bs as [|x bs IH]; simpl; intros Hnd H1 H2 He; [destruct H1|].
  inversion Hnd as [|? ? Hn Hnd']; subst.
  destruct H1 as [->|H1], H2 as [->|H2]; auto.
  - exfalso. apply Hn. rewrite He. apply in_map; auto.
  - exfalso. apply Hn. rewrite <- He. apply in_map; auto. Qed.

Lemma close_slot_sq loc cur s : sq (close_slot loc cur s) = sq s.
Proof. unfold close_slot. destruct (sact s && memb (sq s) loc); reflexivity. Qed.

Lemma map_close_slot_sq loc cur ss : map sq (map (close_slot loc cur) ss) = map sq ss.
Proof. rewrite map_map. apply map_ext. intros; apply close_slot_sq. Qed.

Lemma close_slot_active loc cur s :
  sact (close_slot loc cur s) = true -> close_slot loc cur s = s /\ sact s = true /\ ~ In (sq s) loc.
Proof. unfold close_slot. destruct (sact s) eqn:A; simpl.
  - destruct (memb (sq s) loc) eqn:M; simpl; [discriminate|]. intros _. split; auto. split; auto.
    apply memb_false; exact M.
  - rewrite A. discriminate. Qed.

(* the act map after close_bin_qudits *)
Lemma nth_clear_act id loc : forall a q,
  nth q (clear_act id loc a) None =
  if memb q loc && opt_is id (nth q a None) then None else nth q a None.
Proof. unfold clear_act. induction loc as [|x loc IH]; intros a q; simpl; auto.
  rewrite IH. destruct (opt_is id (nth x a None)) eqn:O.
  - rewrite nth_set_nth. destruct (Nat.eqb q x) eqn:E.
    + apply Nat.eqb_eq in E. subst x. rewrite O. simpl. destruct (memb q loc); reflexivity.
    + simpl. reflexivity.
  - destruct (Nat.eqb q x) eqn:E; simpl; auto.
    apply Nat.eqb_eq in E. subst x. rewrite O. rewrite andb_false_r.
    destruct (memb q loc); reflexivity. Qed.

Lemma opt_is_true id x : opt_is id x = true <-> x = Some id.
Proof. destruct x as [y|]; simpl; split; intros H; try discriminate.
  - apply Nat.eqb_eq in H. subst; auto. - inversion H. apply Nat.eqb_refl. Qed.

Lemma in_mid {A} (x b' : A) l1 l2 : In x (l1 ++ b' :: l2) -> In x l1 \/ x = b' \/ In x l2.
Proof. intros H. apply in_app_or in H as [H|[H|H]]; auto. Qed.

Lemma flat_map_mid {A B} (f : A -> list B) l1 x l2 :
  flat_map f (l1 ++ x :: l2) = flat_map f l1 ++ f x ++ flat_map f l2.
Proof. rewrite flat_map_app. reflexivity. Qed.

Section Inv.
Variable k : nat.
Variable ncyc : Z.
Variable c : list cop.
Hypothesis Hord : ordered c.
Hypothesis Hcyc : forall x, In x c -> (fst x < ncyc)%Z.
Hypothesis Hnd : forall x, In x c -> NoDup (oloc (snd x)).
Hypothesis Hne : forall x, In x c -> oloc (snd x) <> [].

(* a slot of a bin with operations `ops`, when `pre` is the processed prefix of c *)
Definition slot_ok (pre : list cop) (ops : list op) (s : slot) : Prop :=
  (exists x, In x pre /\ touch (sq s) x = true /\ fst x = sstart s) /\
  if sact s then
    send s = None /\ pq (sq s) ops = fq (sq s) (fun cy => sstart s <=? cy)%Z pre
  else match send s with
    | Some e => pq (sq s) ops = fq (sq s) (fun cy => (sstart s <=? cy) && (cy <=? e))%Z c /\
                (sstart s <= e)%Z
    | None => pq (sq s) ops = fq (sq s) (fun cy => sstart s <=? cy)%Z c
    end.

Definition bin_static (pre : list cop) (b : bin) : Prop :=
  NoDup (bqudits b) /\
  (forall o, In o (bops b) -> incl (oloc o) (bqudits b)) /\
  Forall (slot_ok pre (bops b)) (bslots b) /\
  (bbar b = false -> (forall o, In o (bops b) -> okind o = KGate) /\
                     length (bqudits b) <= Nat.max k (widest (bops b))) /\
  (bbar b = true -> (forall o, In o (bops b) -> okind o <> KGate) /\ any_active b = false) /\
  (bslots b = [] -> bops b = []).

Definition bin_dyn (st : state) (b : bin) : Prop :=
  (forall q, is_active b q = true -> nth q (act st) None = Some (bid b)) /\
  (any_active b = true \/ In (bid b) (pend st) \/ bslots b = []).

Record inv (pre : list cop) (st : state) : Prop := {
  i_nd : NoDup (ids (bins st));
  i_lt : forall b, In b (bins st) -> bid b < nextid st;
  i_plt : forall id, In id (pend st) -> id < nextid st;
  i_static : forall b, In b (bins st) -> bin_static pre b;
  i_dyn : forall b, In b (bins st) -> bin_dyn st b;
  i_act : forall q id, nth q (act st) None = Some id ->
            exists b, In b (bins st) /\ bid b = id /\ is_active b q = true;
  i_pend : forall id b, In id (pend st) -> In b (bins st) -> bid b = id -> any_active b = false;
  i_E : forall q, pq q (unfold (out st)) = fq q (fun cy => cy <? nth q (dl st) 0)%Z c;
  i_P : Permutation (unfold (out st) ++ flat_map bops (bins st)) (map snd pre);
  i_ok : Forall (block_ok k) (out st);
  i_nb : Forall no_barrier_inside (out st);
  i_leaf : forall x, In (Leaf x) (out st) -> okind x <> KGate
}.

(* ---------- closing a slot: the slab over the processed prefix becomes a slab over c ---------- *)
Lemma close_slab q start cur pre suf :
  c = pre ++ suf ->
  (forall x, In x pre -> touch q x = true -> (fst x < cur)%Z) ->
  (forall y, In y suf -> touch q y = true -> (cur <= fst y)%Z) ->
  fq q (fun cy => (start <=? cy) && (cy <=? cur - 1))%Z c = fq q (fun cy => start <=? cy)%Z pre.
Proof. intros -> Hp Hs. rewrite fq_app.
  rewrite (fq_none q _ suf).
  - rewrite app_nil_r. apply fq_ext. intros x Hx Tx. specialize (Hp x Hx Tx).
    destruct (start <=? fst x)%Z; simpl; auto. apply Z.leb_le. lia.
  - intros y Hy Ty. specialize (Hs y Hy Ty). apply andb_false_iff. right. apply Z.leb_gt. lia. Qed.

Lemma slot_ok_close pre suf ops loc cur s :
  c = pre ++ suf ->
  (forall q, In q loc -> forall x, In x pre -> touch q x = true -> (fst x < cur)%Z) ->
  (forall q, In q loc -> forall y, In y suf -> touch q y = true -> (cur <= fst y)%Z) ->
  slot_ok pre ops s -> slot_ok pre ops (close_slot loc cur s).
Proof. intros Hc Hp Hs H. unfold close_slot. destruct (sact s) eqn:A; simpl; auto.
  destruct (memb (sq s) loc) eqn:M; simpl; auto.
  apply memb_In in M. unfold slot_ok in *. rewrite A in H. simpl.
  destruct H as [(x & Hx & Tx & Ex) [_ H]]. split; [exists x; auto|]. split.
  - rewrite H. symmetry. eapply close_slab; eauto.
  - specialize (Hp _ M x Hx Tx). lia. Qed.

(* ---------- close_bin_qudits preserves the invariant ---------- *)
Lemma close_bin_inv pre suf id loc cur st st' fl :
  c = pre ++ suf ->
  (forall q, In q loc -> forall x, In x pre -> touch q x = true -> (fst x < cur)%Z) ->
  (forall q, In q loc -> forall y, In y suf -> touch q y = true -> (cur <= fst y)%Z) ->
  inv pre st -> close_bin id loc cur st = inl (st', fl) -> inv pre st'.
Proof. intros Hc Hp Hs I H. unfold close_bin in H.
  destruct (getb id (bins st)) as [b|] eqn:G; [|discriminate].
  destruct I. destruct (getb_split _ _ _ i_nd0 G) as (l1 & l2 & Eb & N1 & N2).
  apply getb_In in G as [Gin Gid]. subst id.
  set (b' := with_slots b (map (close_slot loc cur) (bslots b))) in *.
  assert (Hid : bid b' = bid b) by reflexivity.
  assert (Hq : bqudits b' = bqudits b) by (unfold bqudits, b'; simpl; apply map_close_slot_sq).
  assert (Hact' : forall q, is_active b' q = true -> is_active b q = true /\ ~ In q loc).
  { intros q Hq'. apply is_active_slot in Hq' as (s' & Hs' & Es & As). unfold b' in Hs'. simpl in Hs'.
    apply in_map_iff in Hs' as (s & <- & Hin). apply close_slot_active in As as (E1 & A1 & N).
    rewrite E1 in *. subst q. split; auto. apply is_active_slot. eauto. }
  assert (Hbins : bins st' = l1 ++ b' :: l2).
  { inversion H; subst. simpl. rewrite Eb. apply putb_split; auto. }
  assert (Hactm : act st' = clear_act (bid b) loc (act st)) by (inversion H; reflexivity).
  assert (Hpend : pend st' = if negb (any_active b') then pend st ++ [bid b] else pend st) by (inversion H; reflexivity).
  assert (Hrest : dl st' = dl st /\ out st' = out st /\ nextid st' = nextid st) by (inversion H; auto).
  destruct Hrest as (Hdl & Hout & Hnext).
  assert (Hpin : forall x, In x (pend st) -> In x (pend st')).
  { intros x Hx. rewrite Hpend. destruct (negb (any_active b')); auto. apply in_or_app; auto. }
  assert (Hold : forall x, In x (bins st') -> x = b' \/ (In x (bins st) /\ bid x <> bid b)).
  { intros x Hx. rewrite Hbins in Hx. apply in_mid in Hx as [Hx|[Hx|Hx]]; auto; right; split.
    - rewrite Eb. apply in_or_app; auto.
    - intros E. apply N1. rewrite <- E. apply in_map; auto.
    - rewrite Eb. apply in_or_app; right; right; auto.
    - intros E. apply N2. rewrite <- E. apply in_map; auto. }
  constructor.
  - rewrite Hbins. rewrite Eb in i_nd0. unfold ids in *. rewrite map_app in *. simpl in *. exact i_nd0.
  - intros x Hx. rewrite Hnext. destruct (Hold x Hx) as [->|[Hx' _]]; auto. rewrite Hid; auto.
  - intros x Hx. rewrite Hnext. rewrite Hpend in Hx. destruct (negb (any_active b')); auto.
    apply in_app_or in Hx as [Hx|[<-|[]]]; auto.
  - intros x Hx. destruct (Hold x Hx) as [->|[Hx' _]]; auto.
    destruct (i_static0 b Gin) as (S1 & S2 & S3 & S4 & S5 & S6).
    split; [rewrite Hq; exact S1|]. split; [intros o Ho; rewrite Hq; apply S2; exact Ho|].
    split.
    { unfold b'. simpl. apply Forall_forall. intros s' Hs'. apply in_map_iff in Hs' as (s & <- & Hin).
      eapply slot_ok_close; eauto. rewrite Forall_forall in S3. apply S3; auto. }
    split.
    { intros Hb. rewrite Hq. apply S4. exact Hb. }
    split.
    { intros Hb. destruct (S5 Hb) as [S5a S5b]. split; auto.
      destruct (any_active b') eqn:Aa; auto. apply any_active_ex in Aa as [q Aq].
      apply Hact' in Aq as [Aq _]. apply is_active_any in Aq. congruence. }
    { unfold b'. simpl. intros Hm. apply S6. destruct (bslots b); [reflexivity| discriminate]. }
  - intros x Hx. destruct (Hold x Hx) as [->|[Hx' Hne']].
    + split.
      * intros q Aq. apply Hact' in Aq as [Aq Nq]. rewrite Hactm, nth_clear_act.
        apply memb_false in Nq. rewrite Nq. simpl. apply (i_dyn0 b Gin). exact Aq.
      * rewrite Hpend, Hid. destruct (any_active b'); simpl; auto. right; left. apply in_or_app. right; left; auto.
    + destruct (i_dyn0 x Hx') as [D1 D2]. split.
      * intros q Aq. rewrite Hactm, nth_clear_act, (D1 q Aq). simpl.
        destruct (Nat.eqb (bid x) (bid b)) eqn:E; [apply Nat.eqb_eq in E; congruence|].
        rewrite andb_false_r. reflexivity.
      * destruct D2 as [D2|[D2|D2]]; auto.
  - intros q id Hq'. rewrite Hactm, nth_clear_act in Hq'.
    destruct (memb q loc && opt_is (bid b) (nth q (act st) None)) eqn:E; [discriminate|].
    destruct (i_act0 q id Hq') as (x & Hx & Ex & Ax).
    destruct (Nat.eq_dec id (bid b)) as [->|Nid].
    + assert (x = b) by (eapply nodup_ids_eq; eauto). subst x.
      exists b'. split; [rewrite Hbins; apply in_or_app; right; left; auto|]. split; auto.
      assert (Mq : memb q loc = false).
      { apply andb_false_iff in E as [E|E]; auto.
        assert (opt_is (bid b) (nth q (act st) None) = true) by (apply opt_is_true; auto). congruence. }
      apply is_active_slot in Ax as (s & Hsl & Es & As). apply is_active_slot.
      exists s. split; auto. unfold b'. simpl. apply in_map_iff. exists s. split; auto.
      unfold close_slot. rewrite As, Es, Mq. reflexivity.
    + exists x. split; auto. rewrite Hbins. rewrite Eb in Hx.
      apply in_mid in Hx as [Hx|[Hx|Hx]]; [apply in_or_app; auto| subst x; congruence| apply in_or_app; right; right; auto].
  - intros id x Hid' Hx Ex. destruct (Hold x Hx) as [->|[Hx' Hne']].
    + rewrite Hpend in Hid'. destruct (any_active b') eqn:Aa; simpl in Hid'; auto.
      apply any_active_ex in Aa as [q Aq]. apply Hact' in Aq as [Aq _]. apply is_active_any in Aq.
      assert (any_active b = false) by (eapply (i_pend0 id b); eauto). congruence.
    + rewrite Hpend in Hid'. destruct (negb (any_active b')).
      * apply in_app_or in Hid' as [Hid'|[Hid'|[]]]; [eapply i_pend0; eauto| congruence].
      * eapply i_pend0; eauto.
  - intros q. rewrite Hout, Hdl. apply i_E0.
  - rewrite Hout, Hbins. rewrite Eb in i_P0. rewrite flat_map_mid in *. exact i_P0.
  - rewrite Hout; auto.
  - rewrite Hout; auto.
  - rewrite Hout; auto.
Qed.

End Inv.

(* ---------- updates that only touch blocked_qudits ---------- *)
Definition bo (bs bs' : list bin) : Prop :=
  Forall2 (fun b b' => exists l, b' = with_blocked b l) bs bs'.

Lemma bo_refl bs : bo bs bs.
Proof. induction bs; constructor; auto. exists (bblocked a). symmetry. apply with_blocked_self. Qed.

Lemma bo_trans a b d : bo a b -> bo b d -> bo a d.
Proof. intros H. revert d. induction H as [|x y l l' [lx ->] H IH]; intros d Hd; inversion Hd; subst; constructor.
  - destruct H2 as [ly ->]. exists ly. reflexivity.
  - apply IH; auto. Qed.

Lemma bo_map f bs : (forall b, exists l, f b = with_blocked b l) -> bo bs (map f bs).
Proof. intros H. induction bs; simpl; constructor; auto. Qed.

Lemma bo_facts bs bs' : bo bs bs' ->
  ids bs' = ids bs /\ flat_map bops bs' = flat_map bops bs /\
  (forall b', In b' bs' -> exists b l, In b bs /\ b' = with_blocked b l) /\
  (forall b, In b bs -> exists l, In (with_blocked b l) bs').
Proof. induction 1 as [|x y l l' [lx ->] H IH]; simpl.
  - split; [|split; [|split]]; auto; intros ? [].
  - destruct IH as (I1 & I2 & I3 & I4). rewrite I1, I2. split; [|split; [|split]]; auto.
    + intros b' [<-|Hb']; [exists x, lx; auto|]. destruct (I3 b' Hb') as (b & l0 & Hb & ->). exists b, l0; auto.
    + intros b [->|Hb]; [exists lx; auto|]. destruct (I4 b Hb) as [l0 Hl0]. exists l0; auto. Qed.

Lemma bin_static_wb k c pre b l : bin_static k c pre (with_blocked b l) <-> bin_static k c pre b.
Proof. reflexivity. Qed.

Lemma inv_bo k c pre st bs' : inv k c pre st -> bo (bins st) bs' -> inv k c pre (set_bins st bs').
Proof. intros I Hbo. destruct I. destruct (bo_facts _ _ Hbo) as (F1 & F2 & F3 & F4).
  constructor; simpl; auto.
  - rewrite F1; auto.
  - intros b' Hb'. destruct (F3 b' Hb') as (b & l & Hb & ->). apply (i_lt0 b Hb).
  - intros b' Hb'. destruct (F3 b' Hb') as (b & l & Hb & ->). apply (i_static0 b Hb).
  - intros b' Hb'. destruct (F3 b' Hb') as (b & l & Hb & ->). apply (i_dyn0 b Hb).
  - intros q id Hq. destruct (i_act0 q id Hq) as (b & Hb & Eb & Ab). destruct (F4 b Hb) as [l Hl].
    exists (with_blocked b l). auto.
  - intros id b' Hid Hb' Eb'. destruct (F3 b' Hb') as (b & l & Hb & ->). apply (i_pend0 id b); auto.
  - rewrite F2; auto.
Qed.

Lemma inv_set_nclosed k c pre st n : inv k c pre st -> inv k c pre (set_nclosed st n).
Proof. intros []. constructor; auto. Qed.

(* ---------- context facts from `ordered` ---------- *)
Lemma ctx_pre c pre x rest q y :
  ordered c -> c = pre ++ x :: rest -> In y pre -> touch q y = true -> touch q x = true -> (fst y < fst x)%Z.
Proof. intros Ho -> Hy Ty Tx. apply in_split in Hy as (p1 & p2 & ->).
  apply (Ho p1 y (p2 ++ x :: rest) x q); auto.
  - rewrite <- app_assoc. reflexivity. - apply in_or_app. right; left; auto. Qed.

Lemma ctx_suf c pre x rest q y :
  ordered c -> c = pre ++ x :: rest -> In y rest -> touch q x = true -> touch q y = true -> (fst x < fst y)%Z.
Proof. intros Ho -> Hy Tx Ty. apply (Ho pre x rest y q); auto. Qed.

Lemma touch_loc q cur o : touch q (cur, o) = true <-> In q (oloc o).
Proof. unfold touch. simpl. apply memb_In. Qed.

(* ---------- close_where ---------- *)
Lemma getb_putb_other sel b' bs : bid b' <> sel -> getb sel (putb b' bs) = getb sel bs.
Proof. unfold getb, putb. intros Hn. induction bs as [|x bs IH]; simpl; auto.
  destruct (Nat.eqb (bid x) (bid b')) eqn:E.
  - apply Nat.eqb_eq in E. destruct (Nat.eqb (bid b') sel) eqn:E1; [apply Nat.eqb_eq in E1; congruence|].
    destruct (Nat.eqb (bid x) sel) eqn:E2; [apply Nat.eqb_eq in E2; congruence|]. exact IH.
  - destruct (Nat.eqb (bid x) sel); auto. Qed.

Lemma close_bin_getb_other id loc cur st st' fl sel :
  close_bin id loc cur st = inl (st', fl) -> id <> sel -> getb sel (bins st') = getb sel (bins st).
Proof. unfold close_bin. destruct (getb id (bins st)) as [b|] eqn:G; [|discriminate].
  intros H Hn. inversion H; subst. simpl. apply getb_putb_other. simpl.
  apply getb_In in G as [_ G]. congruence. Qed.

Lemma close_bin_frame id loc cur st st' fl :
  close_bin id loc cur st = inl (st', fl) ->
  nextid st' = nextid st /\ out st' = out st /\ dl st' = dl st /\
  (forall x, In x (pend st') -> In x (pend st) \/ x = id).
Proof. unfold close_bin. destruct (getb id (bins st)) as [b|] eqn:G; [|discriminate].
  intros H. inversion H; subst; simpl. repeat split; auto.
  intros x Hx. destruct (negb _); auto. apply in_app_or in Hx as [Hx|[Hx|[]]]; auto. Qed.

Section Steps.
Variable k : nat.
Variable ncyc : Z.
Variable c : list cop.
Hypothesis Hord : ordered c.
Hypothesis Hcyc : forall x, In x c -> (fst x < ncyc)%Z.
Hypothesis Hnd : forall x, In x c -> NoDup (oloc (snd x)).
Hypothesis Hne : forall x, In x c -> oloc (snd x) <> [].
Notation inv := (inv k c).
Notation bin_static := (bin_static k c).
Notation slot_ok := (slot_ok c).

Lemma close_count_inv pre suf id loc cur st st' :
  c = pre ++ suf ->
  (forall q, In q loc -> forall x, In x pre -> touch q x = true -> (fst x < cur)%Z) ->
  (forall q, In q loc -> forall y, In y suf -> touch q y = true -> (cur <= fst y)%Z) ->
  inv pre st -> close_count id loc cur st = inl st' ->
  inv pre st' /\ (forall sel, id <> sel -> getb sel (bins st') = getb sel (bins st)).
Proof. intros Hc Hp Hs I H. unfold close_count in H.
  destruct (close_bin id loc cur st) as [[st1 fl]|] eqn:C; [|discriminate].
  assert (I1 : inv pre st1) by (eapply close_bin_inv; eauto).
  split.
  - inversion H; subst. destruct fl; auto. apply inv_set_nclosed; auto.
  - intros sel Hn. inversion H; subst. destruct fl; simpl; eapply close_bin_getb_other; eauto. Qed.

Lemma close_where_inv keep pre suf loc cur : forall l st st',
  c = pre ++ suf ->
  (forall q, In q loc -> forall x, In x pre -> touch q x = true -> (fst x < cur)%Z) ->
  (forall q, In q loc -> forall y, In y suf -> touch q y = true -> (cur <= fst y)%Z) ->
  inv pre st -> close_where keep loc cur l st = inl st' ->
  inv pre st' /\
  (forall sel, (forall x, In x l -> keep x = false -> fst x <> sel) -> getb sel (bins st') = getb sel (bins st)).
Proof. induction l as [|x l IH]; simpl; intros st st' Hc Hp Hs I H.
  - inversion H; subst. auto.
  - destruct (keep x) eqn:K.
    + destruct (IH _ _ Hc Hp Hs I H) as [I' G]. split; [exact I'|].
      intros sel Hsel. apply G. intros y Hy. apply Hsel. right; exact Hy.
    + destruct (close_count (fst x) loc cur st) as [st1|] eqn:C; [|discriminate].
      destruct (close_count_inv _ _ _ _ _ _ _ Hc Hp Hs I C) as [I1 G1].
      destruct (IH _ _ Hc Hp Hs I1 H) as [I' G]. split; [exact I'|].
      intros sel Hsel. rewrite G; [apply G1; apply Hsel; [left; reflexivity| exact K]|].
      intros y Hy. apply Hsel. right; exact Hy. Qed.

(* ---------- set_active ---------- *)
Lemma set_active_spec sel : forall loc a a',
  set_active sel loc a = inl a' ->
  (forall q, In q loc -> nth q a None = None \/ nth q a None = Some sel) /\
  (forall q, nth q a' None = if memb q loc then Some sel else nth q a None).
Proof. induction loc as [|x loc IH]; simpl; intros a a' H.
  - inversion H; subst. split; [intros ? []| auto].
  - destruct (nth x a None) as [y|] eqn:E.
    + destruct (Nat.eqb y sel) eqn:E1; [|discriminate]. apply Nat.eqb_eq in E1. subst y.
      destruct (IH _ _ H) as [H1 H2]. split.
      * intros q [<-|Hq]; auto.
      * intros q. rewrite H2. destruct (Nat.eqb q x) eqn:Eq; simpl; auto.
        apply Nat.eqb_eq in Eq. subst q. destruct (memb x loc); auto.
    + destruct (IH _ _ H) as [H1 H2]. split.
      * intros q [<-|Hq]; auto. specialize (H1 q Hq). rewrite nth_set_nth in H1.
        destruct (Nat.eqb q x) eqn:Eq; auto. apply Nat.eqb_eq in Eq. subst q. auto.
      * intros q. rewrite H2, nth_set_nth. destruct (Nat.eqb q x) eqn:Eq; simpl; auto.
        destruct (memb q loc); auto. Qed.

(* ---------- Bin.add_op ---------- *)
Lemma NoDup_app_intro {A} (a b : list A) :
  NoDup a -> NoDup b -> (forall x, In x a -> ~ In x b) -> NoDup (a ++ b).
Proof. induction a as [|x a IH]; simpl; intros Ha Hb H; auto.
  inversion Ha; subst. constructor.
  - intros Hin. apply in_app_or in Hin as [Hin|Hin]; auto. eapply H; eauto.
  - apply IH; auto. Qed.

Lemma add_slots_spec cur : forall loc ss,
  exists new, add_slots cur loc ss = ss ++ new /\
    (forall s, In s new -> sstart s = cur /\ send s = None /\ sact s = true /\
                           In (sq s) loc /\ ~ In (sq s) (map sq ss)) /\
    NoDup (map sq new) /\
    (forall q, In q loc -> In q (map sq (ss ++ new))).
Proof. unfold add_slots. induction loc as [|q loc IH]; simpl; intros ss.
  - exists []. rewrite app_nil_r. split; [reflexivity|]. split; [intros ? []|]. split; [constructor| intros ? []].
  - destruct (memb q (map sq ss)) eqn:M.
    + destruct (IH ss) as (new & E & H1 & H2 & H3). exists new. split; auto. split; [|split; auto].
      * intros s Hs. destruct (H1 s Hs) as (? & ? & ? & ? & ?). auto 10.
      * intros q' [<-|Hq']; auto. apply memb_In in M. rewrite map_app. apply in_or_app; auto.
    + destruct (IH (ss ++ [mkSlot q cur None true])) as (new & E & H1 & H2 & H3).
      exists (mkSlot q cur None true :: new). rewrite E, <- app_assoc. simpl. split; auto.
      apply memb_false in M. split; [|split].
      * intros s [<-|Hs]; simpl; [auto 10|]. destruct (H1 s Hs) as (? & ? & ? & ? & Hn).
        repeat split; auto. intros Hin. apply Hn. rewrite map_app. apply in_or_app; auto.
      * constructor; auto. intros Hin. apply in_map_iff in Hin as (s & Es & Hs).
        destruct (H1 s Hs) as (_ & _ & _ & _ & Hn). apply Hn. rewrite map_app. apply in_or_app. right. simpl. auto.
      * intros q' [<-|Hq'].
        -- rewrite map_app. apply in_or_app. right. simpl. auto.
        -- specialize (H3 q' Hq'). rewrite <- app_assoc in H3. exact H3. Qed.


(* ---------- extending the processed prefix by the current operation ---------- *)
Lemma fq_single q P cur o : fq q P [(cur, o)] = if memb q (oloc o) && P cur then [o] else [].
Proof. unfold fq, touch. simpl. destruct (memb q (oloc o) && P cur); reflexivity. Qed.

Lemma pq_single q o : pq q [o] = if memb q (oloc o) then [o] else [].
Proof. reflexivity. Qed.

Lemma slot_ok_other pre x ops s :
  slot_ok pre ops s -> (sact s = true -> touch (sq s) x = false) -> slot_ok (pre ++ [x]) ops s.
Proof. unfold slot_ok. intros [(y & Hy & Ty & Ey) H] Ht.
  split; [exists y; split; auto; apply in_or_app; auto|].
  destruct (sact s); auto. destruct H as [Hn H]. split; auto.
  rewrite fq_app, H. unfold fq at 3. simpl. rewrite (Ht eq_refl). simpl. rewrite app_nil_r. reflexivity. Qed.

Lemma slot_ok_sel_old pre cur o rest ops s :
  c = pre ++ (cur, o) :: rest ->
  slot_ok pre ops s -> (In (sq s) (oloc o) -> sact s = true) ->
  slot_ok (pre ++ [(cur, o)]) (ops ++ [o]) s.
Proof. intros Hc H Hin. unfold slot_ok in *. destruct H as [(y & Hy & Ty & Ey) H].
  split; [exists y; split; auto; apply in_or_app; auto|].
  destruct (sact s) eqn:A.
  - destruct H as [Hn H]. split; auto.
    rewrite pq_app, fq_app, H, pq_single, fq_single. f_equal.
    destruct (memb (sq s) (oloc o)) eqn:M; simpl; auto.
    assert (fst y < cur)%Z.
    { apply (ctx_pre c pre (cur, o) rest (sq s) y); auto. }
    assert ((sstart s <=? cur)%Z = true) as -> by (apply Z.leb_le; lia). reflexivity.
  - assert (M : memb (sq s) (oloc o) = false).
    { apply memb_false. intros Hq. specialize (Hin Hq). discriminate. }
    rewrite pq_app, pq_single, M, app_nil_r. exact H. Qed.

Lemma slot_ok_new pre cur o rest ops s :
  c = pre ++ (cur, o) :: rest ->
  sstart s = cur -> send s = None -> sact s = true -> In (sq s) (oloc o) -> pq (sq s) ops = [] ->
  slot_ok (pre ++ [(cur, o)]) (ops ++ [o]) s.
Proof. intros Hc Hs He Ha Hq Hp. unfold slot_ok. rewrite Ha.
  assert (M : memb (sq s) (oloc o) = true) by (apply memb_In; auto). split.
  - exists (cur, o). split; [apply in_or_app; right; left; auto|]. split; auto.
  - split; [exact He|]. rewrite pq_app, fq_app, Hp, pq_single, fq_single, M, Hs. simpl.
    rewrite Z.leb_refl. rewrite (fq_none (sq s) _ pre); auto.
    intros y Hy Ty. apply Z.leb_gt.
    apply (ctx_pre c pre (cur, o) rest (sq s) y); auto. Qed.

(* ---------- adding the operation to the selected bin ---------- *)
Lemma add_step_inv pre cur o rest st2 sel sb a' :
  c = pre ++ (cur, o) :: rest ->
  inv pre st2 ->
  getb sel (bins st2) = Some sb ->
  okind o = KGate -> bbar sb = false ->
  (forall q, In q (oloc o) -> In q (bqudits sb) -> is_active sb q = true) ->
  ~ In sel (pend st2) ->
  ((bslots sb = [] /\ bops sb = []) \/
   length (dedup (bqudits sb ++ oloc o)) <= Nat.max k (length (bqudits sb))) ->
  set_active sel (oloc o) (act st2) = inl a' ->
  inv (pre ++ [(cur, o)])
      (mkSt (putb (add_op cur o sb) (bins st2)) a' (dl st2) (pend st2) (nclosed st2) (out st2) (nextid st2)).
Proof. intros Hc I G Hk Hbar C1 C2 C3 SA.
  destruct I. destruct (getb_split _ _ _ i_nd0 G) as (l1 & l2 & Eb & N1 & N2).
  apply getb_In in G as [Gin Gid]. subst sel.
  destruct (add_slots_spec cur (oloc o) (bslots sb)) as (new & EN & NW1 & NW2 & NW3).
  destruct (set_active_spec _ _ _ _ SA) as [SA1 SA2].
  set (sb' := add_op cur o sb) in *.
  assert (Hsl : bslots sb' = bslots sb ++ new) by (unfold sb'; simpl; exact EN).
  assert (Hops : bops sb' = bops sb ++ [o]) by reflexivity.
  assert (Hid : bid sb' = bid sb) by reflexivity.
  assert (Hqd : bqudits sb' = bqudits sb ++ map sq new) by (unfold bqudits; rewrite Hsl, map_app; reflexivity).
  assert (Hxin : In (cur, o) c) by (rewrite Hc; apply in_or_app; right; left; auto).
  assert (Hlnd : NoDup (oloc o)) by (apply (Hnd _ Hxin)).
  assert (Hlne : oloc o <> []) by (apply (Hne _ Hxin)).
  destruct (i_static0 sb Gin) as (S1 & S2 & S3 & S4 & S5 & S6).
  assert (Hbins : putb sb' (bins st2) = l1 ++ sb' :: l2) by (rewrite Eb; apply putb_split; auto).
  assert (Hold : forall x, In x (l1 ++ sb' :: l2) -> x = sb' \/ (In x (bins st2) /\ bid x <> bid sb)).
  { intros x Hx. apply in_mid in Hx as [Hx|[Hx|Hx]]; auto; right; split.
    - rewrite Eb. apply in_or_app; auto.
    - intros E. apply N1. rewrite <- E. apply in_map; auto.
    - rewrite Eb. apply in_or_app; right; right; auto.
    - intros E. apply N2. rewrite <- E. apply in_map; auto. }
  (* other bins have no active slot on the location *)
  assert (Hoth : forall x, In x (bins st2) -> bid x <> bid sb -> forall q, is_active x q = true -> ~ In q (oloc o)).
  { intros x Hx Hn q Aq Hq. destruct (i_dyn0 x Hx) as [D1 _]. specialize (D1 q Aq).
    destruct (SA1 q Hq) as [E|E]; rewrite E in D1; [discriminate| inversion D1; congruence]. }
  (* activity of the extended bin *)
  assert (Hact' : forall q, is_active sb' q = true <-> (is_active sb q = true \/ In q (map sq new))).
  { intros q. rewrite !is_active_slot. rewrite Hsl. split.
    - intros (s & Hs & Es & As). apply in_app_or in Hs as [Hs|Hs]; [left; eauto| right; subst q; apply in_map; auto].
    - intros [(s & Hs & Es & As)|Hq]; [exists s; split; auto; apply in_or_app; auto|].
      apply in_map_iff in Hq as (s & Es & Hs). exists s. split; [apply in_or_app; auto|]. split; auto. apply NW1; auto. }
  assert (Hany' : any_active sb' = true).
  { destruct (oloc o) as [|q0 t] eqn:El; [congruence|].
    apply (is_active_any sb' q0). apply Hact'.
    assert (Hq0 : In q0 (map sq (bslots sb ++ new))) by (apply NW3; left; auto).
    rewrite map_app in Hq0. apply in_app_or in Hq0 as [Hq0|Hq0]; auto. left. apply C1; [left; auto| exact Hq0]. }
  constructor; simpl.
  - rewrite Hbins. rewrite Eb in i_nd0. unfold ids in *. rewrite map_app in *. simpl in *. exact i_nd0.
  - rewrite Hbins. intros x Hx. destruct (Hold x Hx) as [->|[Hx' _]]; auto. rewrite Hid; auto.
  - exact i_plt0.
  - rewrite Hbins. intros x Hx. destruct (Hold x Hx) as [->|[Hx' Hn]].
    + (* the selected bin *)
      split; [|split; [|split; [|split; [|split]]]].
      * rewrite Hqd. apply NoDup_app_intro; auto. intros q Hq Hq'.
        apply in_map_iff in Hq' as (s & Es & Hs). destruct (NW1 s Hs) as (_ & _ & _ & _ & Hn). subst q. auto.
      * rewrite Hops, Hqd. intros o' Ho' q Hq. apply in_app_or in Ho' as [Ho'|[<-|[]]].
        -- apply in_or_app. left. eapply S2; eauto.
        -- specialize (NW3 q Hq). rewrite map_app in NW3. exact NW3.
      * rewrite Hsl, Hops. apply Forall_app. split.
        -- apply Forall_forall. intros s Hs. eapply slot_ok_sel_old; eauto.
           { rewrite Forall_forall in S3. apply S3; auto. }
           intros Hq. assert (Aq : is_active sb (sq s) = true) by (apply C1; auto; apply in_map; auto).
           apply is_active_slot in Aq as (s' & Hs' & Es' & As').
           assert (s' = s) by (eapply nodup_slot_eq; eauto). subst s'. exact As'.
        -- apply Forall_forall. intros s Hs. destruct (NW1 s Hs) as (E1 & E2 & E3 & E4 & E5).
           eapply slot_ok_new; eauto. apply pq_nil_notin. intros o' Ho' Hq. apply E5. eapply S2; eauto.
      * intros _. destruct (S4 Hbar) as [K1 K2]. split.
        -- rewrite Hops. intros o' Ho'. apply in_app_or in Ho' as [Ho'|[<-|[]]]; auto.
        -- rewrite Hops, widest_app. simpl.
           assert (Hlen : length (bqudits sb') = length (dedup (bqudits sb ++ oloc o))).
           { apply NoDup_same_length.
             - rewrite Hqd. apply NoDup_app_intro; auto. intros q Hq Hq'.
               apply in_map_iff in Hq' as (s & Es & Hs). destruct (NW1 s Hs) as (_ & _ & _ & _ & Hn'). subst q. auto.
             - apply dedup_NoDup.
             - intros q. rewrite dedup_In, Hqd, !in_app_iff. split.
               + intros [Hq|Hq]; auto. right. apply in_map_iff in Hq as (s & Es & Hs). subst q. apply NW1; auto.
               + intros [Hq|Hq]; auto. specialize (NW3 q Hq). rewrite map_app in NW3. apply in_app_or in NW3. exact NW3. }
           destruct C3 as [[Z1 Z2]|C3].
           ++ rewrite Hlen. unfold bqudits. rewrite Z1. simpl.
              assert (length (dedup (oloc o)) <= length (oloc o)).
              { clear. induction (oloc o) as [|a l IH]; simpl; auto. destruct (memb a l); simpl; lia. }
              lia.
           ++ rewrite Hlen. lia.
      * unfold sb'. simpl. rewrite Hbar. discriminate.
      * intros Hm. unfold any_active in Hany'. rewrite Hm in Hany'. discriminate.
    + (* any other bin *)
      destruct (i_static0 x Hx') as (T1 & T2 & T3 & T4 & T5 & T6).
      split; [|split; [|split; [|split; [|split]]]]; auto.
      apply Forall_forall. intros s Hs. apply slot_ok_other; [rewrite Forall_forall in T3; auto|].
      intros As. destruct (touch (sq s) (cur, o)) eqn:T; auto. exfalso.
      apply touch_loc in T. apply (Hoth x Hx' Hn (sq s)); auto. apply is_active_slot. eauto.
  - rewrite Hbins. intros x Hx. destruct (Hold x Hx) as [->|[Hx' Hn]].
    + split; auto. intros q Aq. rewrite SA2, Hid. apply Hact' in Aq as [Aq|Aq].
      * destruct (i_dyn0 sb Gin) as [D1 _]. rewrite (D1 q Aq). destruct (memb q (oloc o)); reflexivity.
      * apply in_map_iff in Aq as (s & Es & Hs). destruct (NW1 s Hs) as (_ & _ & _ & E4 & _).
        subst q. apply memb_In in E4. rewrite E4. reflexivity.
    + destruct (i_dyn0 x Hx') as [D1 D2]. split; auto.
      intros q Aq. rewrite SA2. assert (M : memb q (oloc o) = false) by (apply memb_false; eapply Hoth; eauto).
      rewrite M. auto.
  - rewrite Hbins. intros q id Hq. rewrite SA2 in Hq. destruct (memb q (oloc o)) eqn:M.
    + inversion Hq; subst id. exists sb'. split; [apply in_or_app; right; left; auto|]. split; auto.
      apply Hact'. apply memb_In in M. specialize (NW3 q M). rewrite map_app in NW3.
      apply in_app_or in NW3 as [Hq'|Hq']; auto.
    + destruct (i_act0 q id Hq) as (x & Hx & Ex & Ax).
      destruct (Nat.eq_dec id (bid sb)) as [->|Nid].
      * assert (x = sb) by (eapply nodup_ids_eq; eauto). subst x.
        exists sb'. split; [apply in_or_app; right; left; auto|]. split; auto. apply Hact'. auto.
      * exists x. split; auto. rewrite Eb in Hx.
        apply in_mid in Hx as [Hx|[Hx|Hx]]; [apply in_or_app; auto| subst x; congruence| apply in_or_app; right; right; auto].
  - rewrite Hbins. intros id x Hid' Hx Ex. destruct (Hold x Hx) as [->|[Hx' Hn]].
    + exfalso. apply C2. rewrite <- Hid, Ex. exact Hid'.
    + eapply i_pend0; eauto.
  - exact i_E0.
  - rewrite Hbins, flat_map_mid, Hops, map_app. simpl.
    rewrite Eb, flat_map_mid in i_P0.
    eapply perm_trans; [|apply Permutation_app_tail; exact i_P0].
    rewrite <- !app_assoc. do 3 apply Permutation_app_head. apply Permutation_app_comm.
  - exact i_ok0.
  - exact i_nb0.
  - exact i_leaf0.
Qed.


(* ---------- process_pending_bins: emitting a ready bin ---------- *)
Lemma advance_notin : forall ss d q, ~ In q (map sq ss) -> nth q (advance ncyc d ss) 0%Z = nth q d 0%Z.
Proof. unfold advance. induction ss as [|s ss IH]; simpl; intros d q H; auto.
  rewrite IH; [|tauto]. rewrite nth_set_nth. destruct (Nat.eqb q (sq s)) eqn:E; auto.
  apply Nat.eqb_eq in E. subst q. tauto. Qed.

Lemma advance_in : forall ss d s, NoDup (map sq ss) -> In s ss ->
  nth (sq s) (advance ncyc d ss) 0%Z = match send s with Some e => (e + 1)%Z | None => ncyc end.
Proof. induction ss as [|s0 ss IH]; intros d s Hn Hs; [destruct Hs|].
  simpl in Hn. inversion Hn as [|? ? Hn1 Hn2]; subst.
  assert (E : advance ncyc d (s0 :: ss) = advance ncyc (set_nth 0%Z (sq s0) (match send s0 with Some e => (e + 1)%Z | None => ncyc end) d) ss) by reflexivity.
  rewrite E. destruct Hs as [->|Hs].
  - rewrite advance_notin; auto. rewrite nth_set_nth, Nat.eqb_refl. reflexivity.
  - apply IH; auto. Qed.

Lemma remove_first_incl id l x : In x (remove_first id l) -> In x l.
Proof. induction l as [|y l IH]; simpl; auto. destruct (Nat.eqb y id); simpl; auto. intros [H|H]; auto. Qed.

Lemma remove_first_other id l x : x <> id -> In x l -> In x (remove_first id l).
Proof. induction l as [|y l IH]; simpl; auto. intros Hn [->|H].
  - destruct (Nat.eqb x id) eqn:E; [apply Nat.eqb_eq in E; congruence| left; auto].
  - destruct (Nat.eqb y id); simpl; auto. Qed.

Lemma unfold_leaves ops : unfold (map Leaf ops) = ops.
Proof. induction ops; simpl; auto. f_equal. exact IHops. Qed.

Lemma any_inactive_slots b s : any_active b = false -> In s (bslots b) -> sact s = false.
Proof. unfold any_active. intros H Hs. destruct (sact s) eqn:A; auto.
  assert (existsb sact (bslots b) = true) by (apply existsb_exists; eauto). congruence. Qed.

Lemma emit_inv pre st b :
  inv pre st -> In b (bins st) -> In (bid b) (pend st) -> ready (dl st) b = true ->
  inv pre (emit ncyc b st).
Proof. intros I Hb Hp Hr. destruct I.
  pose proof (In_getb _ _ i_nd0 Hb) as G.
  destruct (getb_split _ _ _ i_nd0 G) as (l1 & l2 & Eb & N1 & N2).
  assert (Hina : any_active b = false) by (eapply i_pend0; eauto).
  destruct (i_static0 b Hb) as (S1 & S2 & S3 & S4 & S5 & S6).
  assert (Hbins : bins (emit ncyc b st) = l1 ++ l2) by (simpl; rewrite Eb; apply delb_split; auto).
  assert (Hsub : forall x, In x (l1 ++ l2) -> In x (bins st) /\ bid x <> bid b).
  { intros x Hx. apply in_app_or in Hx as [Hx|Hx]; split.
    - rewrite Eb. apply in_or_app; auto.
    - intros E. apply N1. rewrite <- E. apply in_map; auto.
    - rewrite Eb. apply in_or_app; right; right; auto.
    - intros E. apply N2. rewrite <- E. apply in_map; auto. }
  (* the new partitioned circuit *)
  assert (Hout : exists o',
     out (emit ncyc b st) = o' /\
     (forall q, pq q (unfold o') = pq q (unfold (out st) ++ bops b)) /\
     Permutation (unfold o') (unfold (out st) ++ bops b) /\
     Forall (block_ok k) o' /\ Forall no_barrier_inside o' /\
     (forall x, In (Leaf x) o' -> okind x <> KGate)).
  { unfold emit. cbn [out]. destruct (bbar b) eqn:Bb.
    - eexists. split; [reflexivity|]. rewrite unfold_app, unfold_leaves.
      split; auto. split; auto. split; [|split].
      + apply Forall_app. split; auto. apply Forall_forall. intros x Hx.
        apply in_map_iff in Hx as (o & <- & _). exact I.
      + apply Forall_app. split; auto. apply Forall_forall. intros x Hx.
        apply in_map_iff in Hx as (o & <- & _). exact I.
      + intros x Hx. apply in_app_or in Hx as [Hx|Hx]; auto.
        apply in_map_iff in Hx as (o & E & Ho). inversion E; subst. apply (proj1 (S5 eq_refl)); auto.
    - destruct (S4 eq_refl) as [K1 K2].
      destruct (merge_loop (S (length (out st))) (out st) (sort (bqudits b)) (bops b)) as [[o' loc'] body'] eqn:M.
      apply (merge_rear_preserves k) in M; auto.
      + destruct M. eexists. split; [reflexivity|]. rewrite unfold_app. simpl. rewrite app_nil_r.
        split; auto. split; auto. split; [|split].
        * apply Forall_app. split; [assumption|]. constructor; [assumption|constructor].
        * apply Forall_app. split; [assumption|]. constructor; [exact m_gates|constructor].
        * intros x Hx. apply in_app_or in Hx as [Hx|[Hx|[]]]; [auto| discriminate].
      + split; [rewrite sort_length; exact K2|]. split; [apply sort_NoDup; exact S1|].
        intros o Ho q Hq. apply sort_In. eapply S2; eauto. }
  destruct Hout as (o' & Eo & O1 & O2 & O3 & O4 & O5).
  constructor.
  - rewrite Hbins. rewrite Eb in i_nd0. unfold ids in *. rewrite map_app in *. simpl in i_nd0.
    apply NoDup_remove_1 in i_nd0. exact i_nd0.
  - rewrite Hbins. intros x Hx. apply Hsub in Hx as [Hx _]. simpl. auto.
  - simpl. intros id Hid. apply remove_first_incl in Hid. auto.
  - rewrite Hbins. intros x Hx. apply Hsub in Hx as [Hx _]. auto.
  - rewrite Hbins. intros x Hx. apply Hsub in Hx as [Hx Hn]. destruct (i_dyn0 x Hx) as [D1 D2].
    split; simpl; auto. destruct D2 as [D2|[D2|D2]]; auto. right; left. apply remove_first_other; auto.
  - rewrite Hbins. simpl. intros q id Hq. destruct (i_act0 q id Hq) as (x & Hx & Ex & Ax).
    exists x. split; auto. rewrite Eb in Hx. apply in_mid in Hx as [Hx|[Hx|Hx]]; [apply in_or_app; auto| | apply in_or_app; auto].
    subst x. apply is_active_any in Ax. congruence.
  - rewrite Hbins. simpl. intros id x Hid Hx Ex. apply remove_first_incl in Hid. apply Hsub in Hx as [Hx _].
    eapply i_pend0; eauto.
  - rewrite Eo. intros q. rewrite O1, pq_app, i_E0. simpl.
    destruct (in_dec Nat.eq_dec q (bqudits b)) as [Hq|Hq].
    + unfold bqudits in Hq. apply in_map_iff in Hq as (s & Es & Hs). subst q.
      rewrite (advance_in _ _ s S1 Hs).
      assert (Hst : nth (sq s) (dl st) 0%Z = sstart s).
      { unfold ready in Hr. rewrite forallb_forall in Hr. apply Z.eqb_eq. apply Hr; auto. }
      rewrite Hst. rewrite Forall_forall in S3. specialize (S3 s Hs). unfold slot_ok in S3.
      destruct S3 as [_ S3].
      rewrite (any_inactive_slots b s Hina Hs) in S3. destruct (send s) as [e|].
      * destruct S3 as [S3 Hle]. rewrite S3. apply fq_split_sorted; auto. lia.
      * rewrite S3, fq_split_sorted_inf; auto. apply fq_ext. intros x Hx _.
        symmetry. apply Z.ltb_lt. apply Hcyc; auto.
    + rewrite advance_notin; auto. rewrite (pq_nil_notin q (bops b)); [rewrite app_nil_r; reflexivity|].
      intros o Ho Hq'. apply Hq. eapply S2; eauto.
  - rewrite Eo, Hbins. rewrite Eb, flat_map_mid in i_P0. rewrite flat_map_app.
    eapply perm_trans; [apply Permutation_app_tail; exact O2|].
    eapply perm_trans; [|exact i_P0]. rewrite <- !app_assoc. apply Permutation_app_head.
    rewrite !app_assoc. apply Permutation_app_tail. apply Permutation_app_comm.
  - rewrite Eo; auto.
  - rewrite Eo; auto.
  - rewrite Eo; auto.
Qed.

Lemma find_ready_spec bs d : forall ps b,
  find_ready bs d ps = inl (Some b) -> In (bid b) ps /\ In b bs /\ ready d b = true.
Proof. induction ps as [|id ps IH]; simpl; intros b H; [discriminate|].
  destruct (getb id bs) as [x|] eqn:G; [|discriminate].
  destruct (ready d x) eqn:R.
  - inversion H; subst. apply getb_In in G as [G1 G2]. auto.
  - destruct (IH _ H) as (? & ? & ?). auto. Qed.

Lemma process_pending_inv pre : forall fuel st st',
  inv pre st -> process_pending fuel ncyc st = inl st' ->
  inv pre st' /\ act st' = act st /\ nextid st' = nextid st /\
  (forall b, In b (bins st') -> In b (bins st)).
Proof. induction fuel as [|f IH]; simpl; intros st st' I H; [discriminate|].
  destruct (find_ready (bins st) (dl st) (pend st)) as [[b|]|] eqn:F; [| |discriminate].
  - apply find_ready_spec in F as (F1 & F2 & F3).
    assert (I1 : inv pre (emit ncyc b st)) by (apply emit_inv; auto).
    destruct (IH _ _ I1 H) as (I' & A' & N' & B'). split; auto. split; auto. split; auto.
    intros x Hx. apply B' in Hx. simpl in Hx. unfold delb in Hx. apply filter_In in Hx as [Hx _]. exact Hx.
  - inversion H; subst. auto. Qed.

End Steps.
