(* C08 - ScanPartitioner (bqskit/passes/partitioning/scan.py) transcribed as an executable
   model.  No proofs here (see ScanCalc.v / ScanThm.v).

   which code -> which definition
     circuit._circuit[cycle][qudit]                     at_point
     FastRegionIterator (inactive/active lists, step)   sort_by_start, yields_at, yields_from, region_iter
       (`qudits_to_skip` is filled but never read: a gate on two scanned qudits is yielded twice,
        which only changes the op_list used for scoring - transcribed as is)
     calculate_block (in_qudits, stopped_cycles,
        op_list, RuntimeError for wide gates, break)    cb_step, cb_loop, calc_block
     scoring_fn / default_scoring_fn                    parameter `score` / default_score
     find_best_block (stable sort by score, last)       best
     run: divider, potential_blocks (dict in insertion
        order), adjacent groups, while loop             scan_loop (update_div, remap), scan
     fold_circuit                                       in_region, fold_region
     `if self.block_size > circuit.num_qudits: fold`    first branch of scan
     calculate_qudit_groups (MachineModel.get_locations
        over the circuit's coupling graph)              NOT modelled: the list it returned is an input
        (`groups`, replayed from the implementation) that the model CHECKS (groups_okb: every group
        non-empty, without repeats, at most block-size qudits, inside the circuit; every qudit that
        carries an operation is in some group); the theorems hold for every such list.

   Representation: the circuit is the list of (cycle, op) as for Quick (part/Quick.v); a
   CircuitRegion is the list of (qudit, (lower, upper)); cycles are Z.  The partitioned circuit is
   the list of blocks in `regions` order (cycle placement of append_gate is not modelled: outputs
   are compared up to commutation of operations on disjoint qudits); inside a block the
   operations keep the input order, which is cycle order (the code sorts by (cycle, location): the
   two differ only by the order of operations in the same cycle, which act on disjoint qudits).
   Error results: SWide = the documented RuntimeError; SLoop = the best block is the empty region,
   the `while` loop would repeat the same iteration forever; SEmptyBlock = a chosen region without
   operations (fold_circuit would raise building a 0-qudit circuit); SEmptyFold = whole-circuit fold
   of a circuit without cycles (the implementation raises ValueError); SFuel; SBadGroups. *)
From Coq Require Import List Arith Bool NArith ZArith Lia.
Import ListNotations.
From BQ Require Import part.PartSpec part.PartCheck.

Inductive serr := SBadGroups | SWide | SLoop | SEmptyBlock | SEmptyFold | SFuel.
Definition sres (A : Type) := sum A serr.
Notation "'sdo' x <- e ; f" := (match e with inl x => f | inr er => inr er end)
  (at level 200, x pattern, e at level 100, f at level 200).

Definition scop := (Z * op)%type.
Definition region := list (nat * (Z * Z)).
Definition rq (e : nat * (Z * Z)) : nat := fst e.
Definition rlo (e : nat * (Z * Z)) : Z := fst (snd e).
Definition rhi (e : nat * (Z * Z)) : Z := snd (snd e).

(* the property without the barrier clause (ScanPartitioner treats barriers as gates) *)
Definition regrouping (k : nat) (i : circuit) (o : pcircuit) : Prop :=
  Forall (block_ok k) o /\
  Permutation.Permutation (unfold o) i /\
  (forall q, pq q (unfold o) = pq q i).

Definition all_blocks (o : pcircuit) : Prop := forall it, In it o -> exists l b, it = Block l b.

(* ---------- circuit._circuit[cycle][qudit] ---------- *)
Definition at_point (c : list scop) (cy : Z) (q : nat) : option op :=
  match find (fun x => Z.eqb (fst x) cy && memb q (oloc (snd x))) c with
  | Some x => Some (snd x)
  | None => None
  end.

(* ---------- FastRegionIterator ---------- *)
(* sorted(zip(qudits, starting_cycles), key=lambda x: x[1])  (stable) *)
Fixpoint insert_by_start (x : nat * Z) (l : list (nat * Z)) : list (nat * Z) :=
  match l with
  | [] => [x]
  | y :: t => if (snd x <=? snd y)%Z then x :: l else y :: insert_by_start x t
  end.
Definition sort_by_start (l : list (nat * Z)) : list (nat * Z) := fold_right insert_by_start [] l.

Definition min_start (srt : list (nat * Z)) : Z := match srt with [] => 0%Z | x :: _ => snd x end.

(* one sweep over the active qudits (those whose starting cycle has been reached) at cycle cy *)
Definition yields_at (c : list scop) (srt : list (nat * Z)) (cy : Z) : list scop :=
  flat_map (fun e => if (snd e <=? cy)%Z
                     then match at_point c cy (fst e) with Some o => [(cy, o)] | None => [] end
                     else []) srt.

Fixpoint yields_from (c : list scop) (srt : list (nat * Z)) (cy : Z) (n : nat) : list scop :=
  match n with
  | 0 => []
  | S n' => yields_at c srt cy ++ yields_from c srt (cy + 1) n'
  end.

Definition region_iter (nc : Z) (c : list scop) (g : list nat) (starts : list Z) : list scop :=
  let srt := sort_by_start (combine g starts) in
  let m := min_start srt in
  yields_from c srt m (Z.to_nat (nc - m)).

(* ---------- calculate_block ---------- *)
Definition cbstate := (list nat * list (nat * Z) * list op)%type.   (* in_qudits, stopped_cycles, op_list *)

Definition cb_step (k : nat) (cy : Z) (X : op) (st : cbstate) : sres cbstate :=
  let '(inq, stp, acc) := st in
  if forallb (fun q => memb q inq) (oloc X) then inl (inq, stp, acc ++ [X])
  else if k <? length (oloc X) then inr SWide
  else inl (filter (fun q => negb (memb q (oloc X))) inq,
            stp ++ map (fun q => (q, cy)) (filter (fun q => memb q inq) (oloc X)),
            acc).

Fixpoint cb_loop (k : nat) (ys : list scop) (st : cbstate) : sres cbstate :=
  match ys with
  | [] => inl st
  | (cy, X) :: t =>
    sdo st' <- cb_step k cy X st;
    match fst (fst st') with
    | [] => inl st'                      (* if len(in_qudits) == 0: break *)
    | _ => cb_loop k t st'
    end
  end.

Definition stop_of (nc : Z) (stp : list (nat * Z)) (q : nat) : Z :=
  match find (fun e => Nat.eqb (fst e) q) stp with Some e => snd e | None => nc end.

Definition mk_region (nc : Z) (stp : list (nat * Z)) (gs : list (nat * Z)) : region :=
  flat_map (fun e => let hi := (stop_of nc stp (fst e) - 1)%Z in
                     if (snd e <=? hi)%Z then [(fst e, (snd e, hi))] else []) gs.

Definition calc_block (k : nat) (nc : Z) (c : list scop) (g : list nat) (starts : list Z)
  : sres (region * list op) :=
  sdo r <- cb_loop k (region_iter nc c g starts) (g, [], []);
  inl (mk_region nc (snd (fst r)) (combine g starts), snd r).

(* ---------- scoring, find_best_block ---------- *)
Definition default_score (ops : list op) : N :=
  fold_left (fun s o => (s + (N.of_nat (length (oloc o)) - 1) * 100 + 1)%N) ops 0%N.

Definition pblock := (list nat * (region * list op))%type.

Definition best (score : list op -> N) (P : list pblock) : option region :=
  match P with
  | [] => None
  | p :: t =>
    Some (fst (snd (fold_left (fun b x => if (score (snd (snd b)) <=? score (snd (snd x)))%N then x else b) t p)))
  end.

(* ---------- the main loop ---------- *)
Fixpoint set_nthZ (q : nat) (v : Z) (l : list Z) : list Z :=
  match q, l with
  | _, [] => []
  | 0, _ :: t => v :: t
  | S q', x :: t => x :: set_nthZ q' v t
  end.

Definition dv (D : list Z) (q : nat) : Z := nth q D 0%Z.
Definition starts_of (D : list Z) (g : list nat) : list Z := map (dv D) g.

Definition update_div (D : list Z) (r : region) : list Z :=
  fold_left (fun D e => set_nthZ (rq e) (rhi e + 1)%Z D) r D.

Definition intersects (a b : list nat) : bool := existsb (fun q => memb q b) a.

Fixpoint remap (k : nat) (nc : Z) (c : list scop) (D : list Z) (qs : list nat) (P : list pblock)
  : sres (list pblock) :=
  match P with
  | [] => inl []
  | (g, blk) :: t =>
    sdo blk' <- (if intersects g qs then calc_block k nc c g (starts_of D g) else inl blk);
    sdo t' <- remap k nc c D qs t;
    inl ((g, blk') :: t')
  end.

Definition all_done (nc : Z) (D : list Z) : bool := forallb (fun d => (nc <=? d)%Z) D.

Fixpoint scan_loop (score : list op -> N) (k : nat) (nc : Z) (c : list scop) (fuel : nat)
         (D : list Z) (P : list pblock) (R : list region) : sres (list region) :=
  match fuel with
  | 0 => if all_done nc D then inl (rev R) else inr SFuel
  | S f =>
    if all_done nc D then inl (rev R) else
    match best score P with
    | None => inr SBadGroups
    | Some [] => inr SLoop
    | Some r =>
      let D' := update_div D r in
      sdo P' <- remap k nc c D' (map rq r) P;
      scan_loop score k nc c f D' P' (r :: R)
    end
  end.

(* ---------- fold_circuit ---------- *)
Definition in_region (r : region) (x : scop) : bool :=
  existsb (fun e => memb (rq e) (oloc (snd x)) && (rlo e <=? fst x)%Z && (fst x <=? rhi e)%Z) r.

Definition body_of (c : list scop) (r : region) : list op := map snd (filter (in_region r) c).

(* qudits = sorted(set(union of the operations' locations)) *)
Definition mk_block (nq : nat) (body : list op) : item :=
  Block (filter (fun q => existsb (fun o => memb q (oloc o)) body) (seq 0 nq)) body.

Definition fold_region (nq : nat) (c : list scop) (r : region) : sres item :=
  let body := body_of c r in
  match body with
  | [] => inr SEmptyBlock
  | _ => inl (mk_block nq body)
  end.

Fixpoint fold_all (nq : nat) (c : list scop) (R : list region) : sres pcircuit :=
  match R with
  | [] => inl []
  | r :: t => sdo b <- fold_region nq c r; sdo t' <- fold_all nq c t; inl (b :: t')
  end.

(* ---------- the replayed result of calculate_qudit_groups, checked ---------- *)
Definition group_okb (k nq : nat) (g : list nat) : bool :=
  negb (match g with [] => true | _ => false end) && nodupb g && (length g <=? k) &&
  forallb (fun q => q <? nq) g.

Definition groups_okb (k nq : nat) (c : list scop) (groups : list (list nat)) : bool :=
  forallb (group_okb k nq) groups &&
  forallb (fun x => forallb (fun q => existsb (memb q) groups) (oloc (snd x))) c.

(* dict keys: first occurrence keeps its position *)
Fixpoint dedup_groups (gs : list (list nat)) (seen : list (list nat)) : list (list nat) :=
  match gs with
  | [] => []
  | g :: t => if existsb (nats_eqb g) seen then dedup_groups t seen else g :: dedup_groups t (g :: seen)
  end.

Fixpoint initial_blocks (k : nat) (nc : Z) (c : list scop) (gs : list (list nat)) : sres (list pblock) :=
  match gs with
  | [] => inl []
  | g :: t =>
    sdo blk <- calc_block k nc c g (map (fun _ => 0%Z) g);
    sdo t' <- initial_blocks k nc c t;
    inl ((g, blk) :: t')
  end.

Definition scan_regions (score : list op -> N) (k nq : nat) (nc : Z) (c : list scop) (groups : list (list nat))
  : sres (list region) :=
  if negb (groups_okb k nq c groups) then inr SBadGroups else
  let gs := dedup_groups groups [] in
  let D0 := map (fun q => if existsb (memb q) gs then 0%Z else nc) (seq 0 nq) in
  sdo P0 <- initial_blocks k nc c gs;
  scan_loop score k nc c (S (nq * Z.to_nat nc)) D0 P0 [].

Definition scan (score : list op -> N) (k nq : nat) (nc : Z) (c : list scop) (groups : list (list nat))
  : sres pcircuit :=
  if nq <? k then
    (* block size greater than circuit size: blocking entire circuit; Circuit.fold downsizes the
       region to the qudits that carry operations *)
    (if (nc <=? 0)%Z then inr SEmptyFold else inl [mk_block nq (map snd c)])
  else
    sdo R <- scan_regions score k nq nc c groups;
    fold_all nq c R.

Definition scan_default := scan default_score.
