(* C08 - executable oracle for good_partition, its soundness, and the
   "same unitary" corollary through lib/Trace.v.  The oracle is extracted and run
   on the output of EVERY partitioner of /repo (harness/props/c08.py). *)
From Coq Require Import List Arith Bool NArith Permutation Lia.
Import ListNotations.
From BQ Require Import lib.Trace part.PartSpec.

(* ---------- decidable equality on operations ---------- *)
Definition kind_eqb (a b : kind) : bool :=
  match a, b with
  | KGate, KGate | KBarrier, KBarrier | KMeasure, KMeasure | KReset, KReset => true
  | _, _ => false
  end.

Fixpoint nats_eqb (a b : list nat) : bool :=
  match a, b with
  | [], [] => true
  | x :: a', y :: b' => Nat.eqb x y && nats_eqb a' b'
  | _, _ => false
  end.

Definition op_eqb (a b : op) : bool :=
  N.eqb (ogate a) (ogate b) && nats_eqb (oloc a) (oloc b) &&
  N.eqb (oparams a) (oparams b) && kind_eqb (okind a) (okind b).

Fixpoint ops_eqb (a b : list op) : bool :=
  match a, b with
  | [], [] => true
  | x :: a', y :: b' => op_eqb x y && ops_eqb a' b'
  | _, _ => false
  end.

Definition memb (q : nat) (l : list nat) : bool := existsb (Nat.eqb q) l.

Fixpoint nodupb (l : list nat) : bool :=
  match l with [] => true | x :: t => negb (memb x t) && nodupb t end.

Fixpoint dedup (l : list nat) : list nat :=
  match l with [] => [] | x :: t => if memb x t then dedup t else x :: dedup t end.

(* ---------- multiset equality ---------- *)
Fixpoint remove1 (x : op) (l : list op) : option (list op) :=
  match l with
  | [] => None
  | y :: t => if op_eqb x y then Some t
              else match remove1 x t with Some t' => Some (y :: t') | None => None end
  end.

Fixpoint perm_check (a b : list op) : bool :=
  match a with
  | [] => match b with [] => true | _ => false end
  | x :: a' => match remove1 x b with Some b' => perm_check a' b' | None => false end
  end.

(* ---------- the oracle ---------- *)
Definition block_okb (k : nat) (it : item) : bool :=
  match it with
  | Leaf _ => true
  | Block l b =>
      (length l <=? Nat.max k (widest b)) && nodupb l &&
      forallb (fun o => forallb (fun q => memb q l) (oloc o)) b
  end.

Definition kind_is_gate (o : op) : bool := kind_eqb (okind o) KGate.

Definition no_barrier_insideb (it : item) : bool :=
  match it with Leaf _ => true | Block _ b => forallb kind_is_gate b end.

Definition qudits_of (s : list op) : list nat := flat_map oloc s.

Definition timelines_eqb (a b : list op) : bool :=
  forallb (fun q => ops_eqb (pq q a) (pq q b)) (dedup (qudits_of a ++ qudits_of b)).

Definition check_partition (k : nat) (i : circuit) (o : pcircuit) : bool :=
  forallb (block_okb k) o && forallb no_barrier_insideb o &&
  perm_check (unfold o) i && timelines_eqb (unfold o) i.

(* ---------- soundness ---------- *)
Lemma kind_eqb_eq a b : kind_eqb a b = true -> a = b.
Proof. destruct a, b; simpl; congruence. Qed.

Lemma nats_eqb_eq a : forall b, nats_eqb a b = true -> a = b.
Proof. induction a as [|x a IH]; intros [|y b]; simpl; try congruence.
  intros H. apply andb_true_iff in H as [H1 H2]. apply Nat.eqb_eq in H1. f_equal; auto. Qed.

Lemma op_eqb_eq a b : op_eqb a b = true -> a = b.
Proof. unfold op_eqb. intros H.
  apply andb_true_iff in H as [H H4]. apply andb_true_iff in H as [H H3].
  apply andb_true_iff in H as [H1 H2].
  apply N.eqb_eq in H1. apply N.eqb_eq in H3. apply nats_eqb_eq in H2. apply kind_eqb_eq in H4.
  destruct a, b; simpl in *; subst; reflexivity. Qed.

Lemma ops_eqb_eq a : forall b, ops_eqb a b = true -> a = b.
Proof. induction a as [|x a IH]; intros [|y b]; simpl; try congruence.
  intros H. apply andb_true_iff in H as [H1 H2]. apply op_eqb_eq in H1. f_equal; auto. Qed.

Lemma memb_In q l : memb q l = true <-> In q l.
Proof. unfold memb. rewrite existsb_exists. split.
  - intros [x [Hx He]]. apply Nat.eqb_eq in He. subst; auto.
  - intros H. exists q. split; auto. apply Nat.eqb_refl. Qed.

Lemma nodupb_NoDup l : nodupb l = true -> NoDup l.
Proof. induction l as [|x t IH]; simpl; intros H; constructor.
  - apply andb_true_iff in H as [H _]. intros Hin. apply memb_In in Hin. rewrite Hin in H. discriminate.
  - apply IH. apply andb_true_iff in H as [_ H]. exact H. Qed.

Lemma dedup_In q l : In q (dedup l) <-> In q l.
Proof. induction l as [|x t IH]; simpl; [tauto|].
  destruct (memb x t) eqn:E.
  - rewrite IH. split; auto. intros [<-|H]; auto. apply memb_In; exact E.
  - simpl. rewrite IH. tauto. Qed.

Lemma remove1_perm x l l' : remove1 x l = Some l' -> Permutation l (x :: l').
Proof. revert l'. induction l as [|y t IH]; simpl; intros l' H; [discriminate|].
  destruct (op_eqb x y) eqn:E.
  - apply op_eqb_eq in E. inversion H; subst. apply Permutation_refl.
  - destruct (remove1 x t) as [t'|] eqn:R; [|discriminate]. inversion H; subst.
    eapply perm_trans; [apply perm_skip; apply IH; reflexivity| apply perm_swap]. Qed.

Lemma perm_check_perm a : forall b, perm_check a b = true -> Permutation a b.
Proof. induction a as [|x a IH]; simpl; intros b H.
  - destruct b; [constructor|discriminate].
  - destruct (remove1 x b) as [b'|] eqn:R; [|discriminate].
    apply remove1_perm in R. eapply perm_trans; [apply perm_skip; apply IH; exact H|].
    apply Permutation_sym; exact R. Qed.

Lemma pq_untouched q s : ~ In q (qudits_of s) -> pq q s = [].
Proof. unfold pq. intros H. apply proj_none. intros b Hb.
  destruct (touches op oloc q b) eqn:E; auto. exfalso. apply H.
  apply touches_In in E. unfold qudits_of. apply in_flat_map. exists b; auto. Qed.

Lemma timelines_eqb_sound a b : timelines_eqb a b = true -> forall q, pq q a = pq q b.
Proof. unfold timelines_eqb. intros H q. rewrite forallb_forall in H.
  destruct (in_dec Nat.eq_dec q (qudits_of a ++ qudits_of b)) as [Hin|Hn].
  - apply ops_eqb_eq. apply H. apply dedup_In. exact Hin.
  - rewrite !pq_untouched; auto; intros Hq; apply Hn; apply in_or_app; auto. Qed.

Lemma block_okb_sound k it : block_okb k it = true -> block_ok k it.
Proof. destruct it as [o|l b]; simpl; auto. intros H.
  apply andb_true_iff in H as [H H3]. apply andb_true_iff in H as [H1 H2].
  split; [apply Nat.leb_le; exact H1|]. split; [apply nodupb_NoDup; exact H2|].
  intros o Ho q Hq. rewrite forallb_forall in H3. specialize (H3 o Ho).
  rewrite forallb_forall in H3. apply memb_In. apply H3. exact Hq. Qed.

Lemma no_barrier_insideb_sound it : no_barrier_insideb it = true -> no_barrier_inside it.
Proof. destruct it as [o|l b]; simpl; auto. intros H o Ho.
  rewrite forallb_forall in H. apply kind_eqb_eq. apply H. exact Ho. Qed.

Theorem check_partition_sound k i o : check_partition k i o = true -> good_partition k i o.
Proof. unfold check_partition. intros H.
  apply andb_true_iff in H as [H H4]. apply andb_true_iff in H as [H H3].
  apply andb_true_iff in H as [H1 H2].
  split; [|split; [|split]].
  - apply Forall_forall. intros it Hit. apply block_okb_sound. rewrite forallb_forall in H1. auto.
  - apply Forall_forall. intros it Hit. apply no_barrier_insideb_sound. rewrite forallb_forall in H2. auto.
  - apply perm_check_perm; exact H3.
  - apply timelines_eqb_sound; exact H4. Qed.

(* ---------- "therefore the same unitary" ----------
   For ANY monoid-valued semantics in which operations on disjoint qudits
   commute (den_comm), a good partition denotes the same element as its input. *)
Section SameUnitary.
Variable M : Type.
Variable mul : M -> M -> M.
Variable one : M.
Variable den : op -> M.
Hypothesis mul_assoc : forall x y z, mul x (mul y z) = mul (mul x y) z.
Hypothesis mul_one_l : forall x, mul one x = x.
Hypothesis mul_one_r : forall x, mul x one = x.
Hypothesis den_comm : forall a b, indep op oloc a b -> mul (den a) (den b) = mul (den b) (den a).

Definition sem (s : list op) : M := prod op M mul one den s.

Theorem good_partition_same_unitary k i o :
  (forall a, In a i -> oloc a <> []) ->
  good_partition k i o -> sem (unfold o) = sem i.
Proof. intros Hne (_ & _ & Hp & Hq). unfold sem.
  apply (equiv_prod op oloc M mul one den mul_assoc mul_one_l den_comm).
  apply proj_eq_equiv.
  - intros a Ha. apply Hne. eapply Permutation_in; eauto.
  - exact Hq.
  - apply Permutation_length; exact Hp. Qed.

Corollary check_partition_same_unitary k i o :
  (forall a, In a i -> oloc a <> []) ->
  check_partition k i o = true -> sem (unfold o) = sem i.
Proof. intros Hne H. eapply good_partition_same_unitary; eauto. apply check_partition_sound; exact H. Qed.
End SameUnitary.
