(* C08 - theorems about the QuickPartitioner model (part/Quick.v).
   Partial correctness for every circuit, block size, set-iteration order and for the
   unchanged (fx = false) as well as the repaired (fx = true) barrier handling:
   if `quick` returns a circuit (i.e. the implementation's RuntimeError is not raised)
   the result is a good partition.  Liveness (no RuntimeError) is REFUTED for the
   unchanged code by a 5-operation witness with barriers. *)
From Coq Require Import List Arith Bool NArith ZArith Lia Permutation.
Import ListNotations.
From BQ Require Import lib.Trace part.PartSpec part.PartCheck part.Quick part.QuickLemmas part.QuickMerge part.QuickInv.

(* well-formed input: per-qudit strictly increasing cycles (what a Circuit guarantees
   for operations_with_cycles), cycles below num_cycles, locations without repeats,
   non-empty and inside the circuit *)
Definition wf_input (nq : nat) (ncyc : Z) (c : list cop) : Prop :=
  ordered c /\
  (forall x, In x c -> (fst x < ncyc)%Z) /\
  (forall x, In x c -> NoDup (oloc (snd x))) /\
  (forall x, In x c -> oloc (snd x) <> []) /\
  (forall x, In x c -> forall q, In q (oloc (snd x)) -> q < nq).

(* ---------- small specs ---------- *)
Lemma flags_spec bs loc k : forall ids fl,
  flags bs loc k ids = inl fl ->
  map fst fl = ids /\
  (forall x, In x fl -> exists b, getb (fst x) bs = Some b /\ snd x = can_accommodate b loc k).
Proof. induction ids as [|id ids IH]; simpl; intros fl H.
  - inversion H; subst. split; auto. intros ? [].
  - destruct (getb id bs) as [b|] eqn:G; [|discriminate].
    destruct (flags bs loc k ids) as [r|] eqn:F; [|discriminate]. inversion H; subst.
    destruct (IH _ eq_refl) as [H1 H2]. simpl. split; [f_equal; auto|].
    intros x [<-|Hx]; simpl; eauto. Qed.

Lemma filter_some_In {A} (l : list (option A)) x : In x (filter_some l) <-> In (Some x) l.
Proof. induction l as [|[y|] l IH]; simpl; [tauto| |].
  - rewrite IH. split; intros [H|H]; auto; [left; congruence| inversion H; auto].
  - rewrite IH. split; auto. intros [H|H]; [discriminate|auto]. Qed.

Lemma overlap_ids_spec st loc id :
  In id (overlap_ids st loc) <-> exists q, In q loc /\ nth q (act st) None = Some id.
Proof. unfold overlap_ids. rewrite dedup_In, filter_some_In, in_map_iff. split.
  - intros (q & E & Hq). eauto. - intros (q & Hq & E). eauto. Qed.

Lemma same_set_incl a b : same_set a b = true -> incl a b /\ incl b a /\ NoDup a.
Proof. unfold same_set. intros H. apply andb_true_iff in H as [H H4]. apply andb_true_iff in H as [H H3].
  apply andb_true_iff in H as [_ H2]. apply subsetb_incl in H3, H4. apply nodupb_NoDup in H2. auto. Qed.

Lemma select_subset_In bs loc : forall adm id, select_subset bs loc adm = Some id -> In id adm.
Proof. induction adm as [|a adm IH]; simpl; intros id H; [discriminate|].
  destruct (getb a bs) as [b|]; [destruct (subsetb loc (bqudits b))|]; auto. inversion H; auto. Qed.

Lemma set_nth_length_lt {A} (d : A) v : forall q l, q < length l -> length (set_nth d q v l) = length l.
Proof. induction q as [|q IH]; intros [|x l] H; simpl in *; try lia. rewrite IH; lia. Qed.

Lemma clear_act_length id loc : forall a, length (clear_act id loc a) = length a.
Proof. unfold clear_act. induction loc as [|q loc IH]; simpl; intros a; auto.
  rewrite IH. destruct (opt_is id (nth q a None)) eqn:O; auto.
  apply set_nth_length_lt. destruct (Nat.lt_ge_cases q (length a)) as [|Hge]; auto.
  rewrite nth_overflow in O; auto. discriminate. Qed.

Lemma next_cycle_spec q : forall rest,
  match next_cycle q rest with
  | Some cn => exists r1 y r2, rest = r1 ++ y :: r2 /\ (forall z, In z r1 -> touch q z = false) /\
                               touch q y = true /\ fst y = cn
  | None => forall z, In z rest -> touch q z = false
  end.
Proof. induction rest as [|[cy o] rest IH]; simpl; [intros ? []|].
  unfold touchesb. destruct (memb q (oloc o)) eqn:M.
  - exists [], (cy, o), rest. simpl. repeat split; auto. intros ? [].
  - destruct (next_cycle q rest) as [cn|].
    + destruct IH as (r1 & y & r2 & -> & H1 & H2 & H3). exists ((cy, o) :: r1), y, r2. simpl.
      repeat split; auto. intros z [<-|Hz]; auto.
    + intros z [<-|Hz]; auto. Qed.

Section Thm.
Variable k : nat.
Variable ncyc : Z.
Variable c : list cop.
Hypothesis Hord : ordered c.
Hypothesis Hcyc : forall x, In x c -> (fst x < ncyc)%Z.
Hypothesis Hnd : forall x, In x c -> NoDup (oloc (snd x)).
Hypothesis Hne : forall x, In x c -> oloc (snd x) <> [].
Notation inv := (inv k c).

(* context of the operation being processed *)
Lemma ctx_facts pre cur o rest :
  c = pre ++ (cur, o) :: rest ->
  (forall q, In q (oloc o) -> forall x, In x pre -> touch q x = true -> (fst x < cur)%Z) /\
  (forall q, In q (oloc o) -> forall y, In y ((cur, o) :: rest) -> touch q y = true -> (cur <= fst y)%Z).
Proof. intros Hc. split.
  - intros q Hq x Hx Tx. apply (ctx_pre c pre (cur, o) rest q x Hord Hc Hx Tx). apply touch_loc; auto.
  - intros q Hq y [<-|Hy] Ty; simpl; [lia|].
    assert (cur < fst y)%Z; [|lia].
    apply (ctx_suf c pre (cur, o) rest q y Hord Hc Hy); auto. apply touch_loc; auto. Qed.

(* ---------- block_update only changes blocked_qudits ---------- *)
Lemma block_fold_bo sel sb : forall a bs,
  bo bs (fold_left (fun bs ab =>
         match ab with
         | None => bs
         | Some a => if Nat.eqb a sel then bs
                     else map (fun A => if Nat.eqb (bid A) a then block_one sb A else A) bs
         end) a bs).
Proof. induction a as [|ab a IH]; simpl; intros bs; [apply bo_refl|].
  destruct ab as [x|]; [|apply IH]. destruct (Nat.eqb x sel); [apply IH|].
  eapply bo_trans; [|apply IH]. apply bo_map. intros b.
  destruct (Nat.eqb (bid b) x); [|exists (bblocked b); symmetry; apply with_blocked_self].
  unfold block_one. destruct (existsb _ _); [eexists; reflexivity| exists (bblocked b); symmetry; apply with_blocked_self]. Qed.

Lemma block_update_bo sel st st' :
  block_update sel st = inl st' -> exists bs', st' = set_bins st bs' /\ bo (bins st) bs'.
Proof. unfold block_update. destruct (getb sel (bins st)) as [sb|]; [|discriminate].
  intros H. inversion H; subst. eexists. split; [reflexivity|]. apply block_fold_bo. Qed.

Lemma block_update_inv pre sel st st' : inv pre st -> block_update sel st = inl st' -> inv pre st'.
Proof. intros I H. apply block_update_bo in H as (bs' & -> & Hbo). apply inv_bo; auto. Qed.

(* ---------- a fresh empty bin ---------- *)
Lemma new_bin_inv pre st :
  inv pre st ->
  inv pre (mkSt (bins st ++ [mkBin (nextid st) [] [] [] false]) (act st) (dl st) (pend st)
                (nclosed st) (out st) (S (nextid st))).
Proof. intros I. destruct I as [i_nd0 i_lt0 i_plt0 i_static0 i_dyn0 i_act0 i_pend0 i_E0 i_P0 i_ok0 i_nb0 i_leaf0]. constructor; simpl.
  - unfold ids in *. rewrite map_app. simpl. apply NoDup_app_intro; auto.
    + constructor; auto. constructor.
    + intros x Hx [<-|[]]. apply in_map_iff in Hx as (b & E & Hb). specialize (i_lt0 b Hb). lia.
  - intros b Hb. apply in_app_or in Hb as [Hb|[<-|[]]]; simpl; auto. specialize (i_lt0 b Hb). lia.
  - intros id Hid. specialize (i_plt0 id Hid). lia.
  - intros b Hb. apply in_app_or in Hb as [Hb|[<-|[]]]; [auto|].
    split; [constructor|]. split; [intros ? []|]. split; [constructor|]. simpl.
    split; [intros _; split; [intros ? []| lia]|]. split; [intros Hd; discriminate Hd| auto].
  - intros b Hb. apply in_app_or in Hb as [Hb|[<-|[]]]; [apply (i_dyn0 b Hb)|]. split; simpl; auto. intros q Hd; discriminate Hd.
  - intros q id Hq. destruct (i_act0 q id Hq) as (b & Hb & E & A). exists b. split; auto. apply in_or_app; auto.
  - intros id b Hid Hb E. apply in_app_or in Hb as [Hb|[<-|[]]]; [eauto|]. simpl in E. subst id.
    specialize (i_plt0 _ Hid). lia.
  - exact i_E0.
  - rewrite flat_map_app. simpl. rewrite !app_nil_r. auto.
  - exact i_ok0.
  - exact i_nb0.
  - exact i_leaf0.
Qed.

(* ---------- one gate ---------- *)
Lemma step_gate_inv pre cur o rest hint st st' :
  c = pre ++ (cur, o) :: rest -> okind o = KGate ->
  inv pre st -> step_gate k ncyc cur o hint st = inl st' -> inv (pre ++ [(cur, o)]) st'.
Proof. intros Hc Hk I H. unfold step_gate in H.
  destruct (ctx_facts pre cur o rest Hc) as [Hp Hs].
  destruct (same_set hint (overlap_ids st (oloc o))) eqn:SS; simpl in H; [|discriminate].
  apply same_set_incl in SS as (SS1 & _ & _).
  destruct (flags (bins st) (oloc o) k hint) as [fl|] eqn:F; [|discriminate].
  destruct (flags_spec _ _ _ _ _ F) as [F1 F2].
  destruct (close_where snd (oloc o) cur fl st) as [st1|] eqn:C1; [|discriminate].
  destruct (close_where_inv k ncyc c Hord Hcyc Hnd Hne snd pre ((cur, o) :: rest) (oloc o) cur fl st st1 Hc Hp Hs I C1) as [I1 G1].
  (* the selection *)
  match type of H with (match ?e0 with inl _ => _ | inr _ => _ end) = _ =>
    destruct e0 as [[st2 sel]|] eqn:SEL; [|discriminate] end.
  destruct (getb sel (bins st2)) as [sb|] eqn:G2; [|discriminate].
  destruct (set_active sel (oloc o) (act st2)) as [a'|] eqn:SA; [|discriminate].
  match type of H with (match block_update ?s0 ?x0 with inl _ => _ | inr _ => _ end) = _ =>
    destruct (block_update s0 x0) as [st4|] eqn:BU; [|discriminate] end.
  assert (I3 : inv (pre ++ [(cur, o)])
     (mkSt (putb (add_op cur o sb) (bins st2)) a' (dl st2) (pend st2) (nclosed st2) (out st2) (nextid st2))).
  { destruct (map fst (filter snd fl)) as [|a0 adm'] eqn:ADM.
    - (* a new bin *)
      destruct (forallb (fun q => is_none (nth q (act st1) None)) (oloc o)); [|discriminate].
      inversion SEL; subst st2 sel. clear SEL.
      pose proof (new_bin_inv pre st1 I1) as I2.
      simpl in G2. rewrite getb_app_notin in G2.
      2:{ intros Hin. apply in_map_iff in Hin as (b & E & Hb). destruct I1 as [i_nd0 i_lt0 i_plt0 i_static0 i_dyn0 i_act0 i_pend0 i_E0 i_P0 i_ok0 i_nb0 i_leaf0]. specialize (i_lt0 b Hb). lia. }
      simpl in G2. rewrite Nat.eqb_refl in G2. inversion G2; subst sb.
      refine (add_step_inv k c Hord Hnd Hne pre cur o rest _ _ _ a' Hc I2 _ Hk _ _ _ _ SA).
      + simpl. rewrite getb_app_notin.
        * simpl. rewrite Nat.eqb_refl. reflexivity.
        * intros Hin. apply in_map_iff in Hin as (b & E & Hb). destruct I1 as [i_nd0 i_lt0 i_plt0 i_static0 i_dyn0 i_act0 i_pend0 i_E0 i_P0 i_ok0 i_nb0 i_leaf0]. specialize (i_lt0 b Hb). lia.
      + reflexivity.
      + simpl. intros q _ [].
      + simpl. intros Hin. destruct I1 as [i_nd0 i_lt0 i_plt0 i_static0 i_dyn0 i_act0 i_pend0 i_E0 i_P0 i_ok0 i_nb0 i_leaf0]. specialize (i_plt0 _ Hin). lia.
      + left. split; reflexivity.
    - (* an admissible overlapping bin *)
      set (adm := a0 :: adm') in *.
      set (sel0 := match select_subset (bins st1) (oloc o) adm with Some id => id | None => a0 end) in *.
      destruct (close_where (fun x => Nat.eqb (fst x) sel0) (oloc o) cur (filter snd fl) st1) as [st2'|] eqn:C2; [|discriminate].
      inversion SEL; subst st2' sel. clear SEL.
      destruct (close_where_inv k ncyc c Hord Hcyc Hnd Hne _ pre ((cur, o) :: rest) (oloc o) cur _ st1 st2 Hc Hp Hs I1 C2) as [I2 G2'].
      assert (Hsel : In sel0 adm).
      { unfold sel0. destruct (select_subset (bins st1) (oloc o) adm) eqn:SSb; [eapply select_subset_In; eauto| left; auto]. }
      rewrite <- ADM in Hsel. apply in_map_iff in Hsel as (x & Ex & Hx).
      apply filter_In in Hx as [Hx Sx]. destruct (F2 x Hx) as (b0 & Gb0 & Eb0). rewrite Ex in Gb0.
      (* the selected bin is untouched by the closes *)
      assert (Gst2 : getb sel0 (bins st2) = Some b0).
      { rewrite G2', G1; auto.
        - intros y Hy Ky Ey. destruct (F2 y Hy) as (by0 & Gy & Fy). rewrite Ey, Gb0 in Gy. inversion Gy; subst by0.
          rewrite Ky in Fy. rewrite <- Eb0 in Fy. congruence.
        - intros y Hy Ky Ey. apply Nat.eqb_neq in Ky. auto. }
      rewrite Gst2 in G2. inversion G2; subst sb. clear G2.
      rewrite Sx in Eb0. symmetry in Eb0. unfold can_accommodate in Eb0.
      apply andb_true_iff in Eb0 as [CA1 CA2]. apply andb_true_iff in CA2 as [CA2 CA3].
      (* it is active somewhere on the location *)
      assert (Hact : exists q0, is_active b0 q0 = true).
      { assert (In sel0 hint) by (rewrite <- F1, <- Ex; apply in_map; auto).
        apply SS1 in H0. apply overlap_ids_spec in H0 as (q0 & Hq0 & Aq0).
        destruct I as [i_nd0 i_lt0 i_plt0 i_static0 i_dyn0 i_act0 i_pend0 i_E0 i_P0 i_ok0 i_nb0 i_leaf0]. destruct (i_act0 q0 sel0 Aq0) as (b' & Hb' & Eb' & Ab').
        apply getb_In in Gb0 as [Gb0 Gb0']. assert (b' = b0) by (eapply nodup_ids_eq; eauto; congruence).
        subst b'. eauto. }
      destruct Hact as [q0 Aq0].
      assert (Hin2 : In b0 (bins st2)) by (apply getb_In in Gst2; tauto).
      refine (add_step_inv k c Hord Hnd Hne pre cur o rest _ _ _ a' Hc I2 Gst2 Hk _ _ _ _ SA).
      + destruct I2 as [i_nd0 i_lt0 i_plt0 i_static0 i_dyn0 i_act0 i_pend0 i_E0 i_P0 i_ok0 i_nb0 i_leaf0]. destruct (i_static0 b0 Hin2) as (_ & _ & _ & _ & S5 & _).
        destruct (bbar b0) eqn:Bb; auto. destruct (S5 eq_refl) as [_ S5b].
        apply is_active_any in Aq0. congruence.
      + intros q Hq Hqb. rewrite forallb_forall in CA2. specialize (CA2 q Hq).
        apply orb_true_iff in CA2 as [CA2|CA2]; auto.
        apply negb_true_iff in CA2. apply memb_false in CA2. contradiction.
      + intros Hp2. destruct I2 as [i_nd0 i_lt0 i_plt0 i_static0 i_dyn0 i_act0 i_pend0 i_E0 i_P0 i_ok0 i_nb0 i_leaf0]. apply is_active_any in Aq0.
        assert (any_active b0 = false); [|congruence]. eapply (i_pend0 sel0 b0); eauto.
        apply getb_In in Gst2; tauto.
      + right. apply Nat.leb_le. exact CA3. }
  assert (I4 : inv (pre ++ [(cur, o)]) st4) by (eapply block_update_inv; eauto).
  match type of H with (if ?b0 then _ else _) = _ => destruct b0 end.
  - unfold process_pending_bins in H.
    destruct (process_pending (S (length (pend st4))) ncyc st4) as [st5|] eqn:PP; [|discriminate].
    injection H as <-. apply inv_set_nclosed.
    exact (proj1 (process_pending_inv k ncyc c Hord Hcyc _ _ _ _ I4 PP)).
  - injection H as <-. exact I4.
Qed.

(* ---------- barrier / measurement / reset ---------- *)
Lemma close_barrier_inv pre suf loc cur : forall ids st st',
  c = pre ++ suf ->
  (forall q, In q loc -> forall x, In x pre -> touch q x = true -> (fst x < cur)%Z) ->
  (forall q, In q loc -> forall y, In y suf -> touch q y = true -> (cur <= fst y)%Z) ->
  inv pre st -> close_barrier loc cur ids st = inl st' ->
  inv pre st' /\ act st' = fold_left (fun a id => clear_act id loc a) ids (act st).
Proof. induction ids as [|id ids IH]; simpl; intros st st' Hc Hp Hs I H.
  - inversion H; subst. auto.
  - destruct (close_bin id loc cur st) as [[st1 fl]|] eqn:C; [|discriminate].
    assert (I1 : inv pre st1) by (eapply close_bin_inv; eauto).
    assert (A1 : act st1 = clear_act id loc (act st)).
    { unfold close_bin in C. destruct (getb id (bins st)); [|discriminate]. inversion C; reflexivity. }
    destruct fl.
    + destruct (IH _ _ Hc Hp Hs (inv_set_nclosed k c pre st1 _ I1) H) as [I' A']. split; auto.
      rewrite A'. simpl. rewrite A1. reflexivity.
    + assert (I2 : inv pre (set_bins st1 (map (fun A => if Nat.eqb (bid A) id
               then with_blocked A (union (filter (fun q => negb (memb q (bqudits A))) loc) (bblocked A))
               else A) (bins st1)))).
      { apply inv_bo; auto. apply bo_map. intros b. destruct (Nat.eqb (bid b) id); [eexists; reflexivity|].
        exists (bblocked b). symmetry. apply with_blocked_self. }
      destruct (IH _ _ Hc Hp Hs I2 H) as [I' A']. split; auto.
      rewrite A'. simpl. rewrite A1. reflexivity. Qed.

Lemma act_cleared loc : forall ids a q,
  In q loc -> (nth q a None = None \/ exists id, In id ids /\ nth q a None = Some id) ->
  nth q (fold_left (fun a id => clear_act id loc a) ids a) None = None.
Proof. induction ids as [|id ids IH]; simpl; intros a q Hq H.
  - destruct H as [H|(id & [] & _)]; auto.
  - apply IH; auto. rewrite nth_clear_act. apply memb_In in Hq. rewrite Hq. simpl.
    destruct H as [H|(id' & Hid' & H)]; rewrite H; simpl; auto.
    destruct (Nat.eqb id' id) eqn:E; auto. right. exists id'. split; auto.
    destruct Hid' as [->|Hid']; auto. rewrite Nat.eqb_refl in E. discriminate. Qed.

Lemma barrier_bin_inv pre cur o rest st1 :
  c = pre ++ (cur, o) :: rest -> okind o <> KGate ->
  inv pre st1 -> (forall q, In q (oloc o) -> nth q (act st1) None = None) ->
  inv (pre ++ [(cur, o)])
      (mkSt (bins st1 ++ [barrier_bin (nextid st1) cur o rest]) (act st1) (dl st1)
            (pend st1 ++ [nextid st1]) (nclosed st1) (out st1) (S (nextid st1))).
Proof. intros Hc Hk I Hnone. destruct I as [i_nd0 i_lt0 i_plt0 i_static0 i_dyn0 i_act0 i_pend0 i_E0 i_P0 i_ok0 i_nb0 i_leaf0].
  destruct (ctx_facts pre cur o rest Hc) as [Hp Hs].
  assert (Hxin : In (cur, o) c) by (rewrite Hc; apply in_or_app; right; left; auto).
  set (nb := barrier_bin (nextid st1) cur o rest).
  assert (Hnbq : bqudits nb = oloc o).
  { unfold nb, barrier_bin, bqudits. simpl. rewrite map_map. simpl. apply map_id. }
  assert (Hnba : any_active nb = false).
  { unfold nb, barrier_bin, any_active. simpl.
    assert (Hg : forall (f : nat -> option Z) l, existsb sact (map (fun q => mkSlot q cur (f q) false) l) = false)
      by (intros f l; induction l; simpl; auto).
    apply (Hg (fun q => match next_cycle q rest with Some c0 => Some (c0 - 1)%Z | None => None end)). }
  constructor; simpl.
  - unfold ids in *. rewrite map_app. simpl. apply NoDup_app_intro; auto.
    + constructor; auto. constructor.
    + intros x Hx [<-|[]]. apply in_map_iff in Hx as (b & E & Hb). specialize (i_lt0 b Hb). lia.
  - intros b Hb. apply in_app_or in Hb as [Hb|[<-|[]]]; simpl; auto. specialize (i_lt0 b Hb). lia.
  - intros id Hid. apply in_app_or in Hid as [Hid|[<-|[]]]; auto. specialize (i_plt0 id Hid). lia.
  - intros b Hb. apply in_app_or in Hb as [Hb|[<-|[]]].
    + destruct (i_static0 b Hb) as (T1 & T2 & T3 & T4 & T5 & T6).
      split; [|split; [|split; [|split; [|split]]]]; auto.
      apply Forall_forall. intros s Hsl. apply slot_ok_other; [rewrite Forall_forall in T3; auto|].
      intros As. destruct (touch (sq s) (cur, o)) eqn:T; auto. exfalso. apply touch_loc in T.
      destruct (i_dyn0 b Hb) as [D1 _].
      assert (Ha : is_active b (sq s) = true) by (apply is_active_slot; eauto).
      specialize (D1 _ Ha). rewrite (Hnone _ T) in D1. discriminate.
    + fold nb. split; [rewrite Hnbq; apply (Hnd _ Hxin)|].
      split; [rewrite Hnbq; simpl; intros o' [<-|[]]; apply incl_refl|].
      split; [|split; [discriminate|split]].
      * (* the slots of the barrier bin are slabs *)
        unfold nb, barrier_bin. simpl. apply Forall_forall. intros s Hsl.
        apply in_map_iff in Hsl as (q & <- & Hq). unfold slot_ok. simpl.
        assert (Mq : memb q (oloc o) = true) by (apply memb_In; auto).
        split; [exists (cur, o); split; [apply in_or_app; right; left; reflexivity| split; [exact Mq| reflexivity]]|].
        assert (Hpre0 : forall P, fq q (fun cy => (cur <=? cy) && P cy)%Z pre = []).
        { intros P. apply fq_none. intros x Hx Tx. specialize (Hp q Hq x Hx Tx).
          apply andb_false_iff. left. apply Z.leb_gt. exact Hp. }
        pose proof (next_cycle_spec q rest) as NC. destruct (next_cycle q rest) as [cn|].
        -- destruct NC as (r1 & y & r2 & Er & NC1 & NC2 & NC3).
           assert (Hcn : (cur < cn)%Z).
           { rewrite <- NC3. apply (ctx_suf c pre (cur, o) rest q y Hord Hc);
               [rewrite Er; apply in_or_app; right; left; reflexivity| apply touch_loc; exact Hq| exact NC2]. }
           split; [|lia]. change (touches op oloc q o) with (memb q (oloc o)); rewrite Mq. rewrite Hc, fq_app, Hpre0.
           change ((cur, o) :: rest) with ([(cur, o)] ++ rest). rewrite fq_app, fq_single, Mq.
           assert (((cur <=? cur) && (cur <=? cn - 1))%Z = true) as -> by (apply andb_true_iff; split; apply Z.leb_le; lia).
           rewrite (fq_none q _ rest); [reflexivity|].
           intros z Hz Tz. apply andb_false_iff. right. apply Z.leb_gt.
           rewrite Er in Hz. apply in_app_or in Hz as [Hz|[<-|Hz]].
           ++ rewrite (NC1 z Hz) in Tz. discriminate.
           ++ lia.
           ++ assert (fst y < fst z)%Z; [|lia].
              apply (Hord (pre ++ (cur, o) :: r1) y r2 z q); auto.
              rewrite Hc, Er, <- app_assoc. reflexivity.
        -- change (touches op oloc q o) with (memb q (oloc o)); rewrite Mq. rewrite Hc, fq_app.
           rewrite (fq_none q _ pre).
           2:{ intros x Hx Tx. specialize (Hp q Hq x Hx Tx). apply Z.leb_gt. exact Hp. }
           change ((cur, o) :: rest) with ([(cur, o)] ++ rest). rewrite fq_app, fq_single, Mq, Z.leb_refl.
           rewrite (fq_none q _ rest); [reflexivity|]. intros z Hz Tz. rewrite (NC z Hz) in Tz. discriminate.
      * intros _. split; auto. simpl. intros o' [<-|[]]. exact Hk.
      * unfold nb, barrier_bin. simpl. intros Hm. exfalso. apply (Hne _ Hxin). simpl.
        destruct (oloc o); [reflexivity| discriminate].
  - intros b Hb. apply in_app_or in Hb as [Hb|[<-|[]]].
    + destruct (i_dyn0 b Hb) as [D1 D2]. split; auto.
      destruct D2 as [D2|[D2|D2]]; auto. right; left. apply in_or_app; auto.
    + split.
      * intros q Aq. apply is_active_any in Aq. fold nb in Aq. congruence.
      * right; left. apply in_or_app. right. left. reflexivity.
  - intros q id Hq. destruct (i_act0 q id Hq) as (b & Hb & E & A). exists b. split; auto. apply in_or_app; auto.
  - intros id b Hid Hb E. apply in_app_or in Hb as [Hb|[<-|[]]]; [|exact Hnba].
    apply in_app_or in Hid as [Hid|[<-|[]]]; [eauto|]. specialize (i_lt0 b Hb). lia.
  - exact i_E0.
  - rewrite flat_map_app, map_app. simpl. rewrite app_assoc. apply Permutation_app_tail. exact i_P0.
  - exact i_ok0.
  - exact i_nb0.
  - exact i_leaf0.
Qed.

Lemma step_barrier_inv fx pre cur o rest hint st st' :
  c = pre ++ (cur, o) :: rest -> okind o <> KGate ->
  inv pre st -> step_barrier fx cur o rest hint st = inl st' -> inv (pre ++ [(cur, o)]) st'.
Proof. intros Hc Hk I H. unfold step_barrier in H.
  destruct (ctx_facts pre cur o rest Hc) as [Hp Hs].
  destruct (same_set hint (overlap_ids st (oloc o))) eqn:SS; simpl in H; [|discriminate].
  apply same_set_incl in SS as (_ & SS2 & _).
  destruct (close_barrier (oloc o) cur hint st) as [st1|] eqn:CB; [|discriminate].
  destruct (close_barrier_inv pre ((cur, o) :: rest) _ _ _ _ _ Hc Hp Hs I CB) as [I1 A1].
  assert (Hnone : forall q, In q (oloc o) -> nth q (act st1) None = None).
  { intros q Hq. rewrite A1. apply act_cleared; auto.
    destruct (nth q (act st) None) as [id|] eqn:E; auto. right. exists id. split; auto.
    apply SS2. apply overlap_ids_spec. eauto. }
  pose proof (barrier_bin_inv pre cur o rest st1 Hc Hk I1 Hnone) as I2.
  destruct fx; [eapply block_update_inv; eauto| inversion H; subst; exact I2].
Qed.

(* ---------- the main loop ---------- *)
Lemma kind_is_gate_spec o : is_gate o = true <-> okind o = KGate.
Proof. unfold is_gate, kind_is_gate. destruct (okind o); simpl; split; intros; congruence. Qed.

Lemma run_ops_inv fx : forall ops pre hints st st',
  c = pre ++ ops -> inv pre st -> run_ops k fx ncyc ops hints st = inl st' -> inv c st'.
Proof. induction ops as [|[cur o] rest IH]; simpl; intros pre hints st st' Hc I H.
  - inversion H; subst. rewrite app_nil_r in *. exact I.
  - destruct hints as [|h hs]; [discriminate|].
    destruct (is_gate o) eqn:Gt.
    + destruct (step_gate k ncyc cur o h st) as [st1|] eqn:S1; [|discriminate].
      apply (IH (pre ++ [(cur, o)]) hs st1 st'); auto.
      * rewrite <- app_assoc. exact Hc.
      * eapply step_gate_inv; eauto. apply kind_is_gate_spec; auto.
    + destruct (step_barrier fx cur o rest h st) as [st1|] eqn:S1; [|discriminate].
      apply (IH (pre ++ [(cur, o)]) hs st1 st'); auto.
      * rewrite <- app_assoc. exact Hc.
      * eapply step_barrier_inv; eauto. intros E. apply kind_is_gate_spec in E. congruence.
Qed.

(* ---------- closing the remaining active bins ---------- *)
Lemma close_all_inv : forall n q0 st st',
  inv c st -> (forall q, q < q0 -> nth q (act st) None = None) ->
  close_all_from n q0 ncyc st = inl st' ->
  inv c st' /\ (forall q, q < q0 + n -> nth q (act st') None = None) /\ length (act st') = length (act st).
Proof. induction n as [|n IH]; simpl; intros q0 st st' I Hz H.
  - inversion H; subst. rewrite Nat.add_0_r. auto.
  - match type of H with (match ?e with inl _ => _ | inr _ => _ end) = _ => destruct e as [st1|] eqn:E1; [|discriminate] end.
    assert (S1 : inv c st1 /\ (forall q, q < S q0 -> nth q (act st1) None = None) /\ length (act st1) = length (act st)).
    { destruct (nth q0 (act st) None) as [id|] eqn:Eq.
      - destruct (getb id (bins st)) as [b|] eqn:G; [|discriminate].
        destruct (close_bin id (bqudits b) ncyc st) as [[st2 fl]|] eqn:C; [|discriminate].
        inversion E1; subst st1. simpl.
        assert (A2 : act st2 = clear_act id (bqudits b) (act st)).
        { unfold close_bin in C. rewrite G in C. inversion C; reflexivity. }
        split; [|split].
        + eapply (close_bin_inv k ncyc c Hord Hcyc Hnd Hne c [] id (bqudits b) ncyc st st2 fl); eauto.
          * rewrite app_nil_r; reflexivity.
          * intros _ _ _ [].
        + intros q Hq. rewrite A2, nth_clear_act.
          destruct (Nat.eq_dec q q0) as [->|Nq].
          * rewrite Eq. simpl. rewrite Nat.eqb_refl.
            destruct I as [i_nd0 i_lt0 i_plt0 i_static0 i_dyn0 i_act0 i_pend0 i_E0 i_P0 i_ok0 i_nb0 i_leaf0]. destruct (i_act0 q0 id Eq) as (b' & Hb' & Eb' & Ab').
            apply getb_In in G as [G1 G2]. assert (b' = b) by (eapply nodup_ids_eq; eauto; congruence). subst b'.
            apply is_active_In in Ab'. apply memb_In in Ab'. rewrite Ab'. reflexivity.
          * rewrite (Hz q); [|lia]. destruct (memb q (bqudits b)); reflexivity.
        + rewrite A2. apply clear_act_length.
      - inversion E1; subst st1. split; auto. split; auto.
        intros q Hq. destruct (Nat.eq_dec q q0) as [->|Nq]; auto. apply Hz. lia. }
    destruct S1 as (I1 & Z1 & L1).
    destruct (IH (S q0) st1 st' I1 Z1 H) as (I' & Z' & L'). split; auto. split; [|congruence].
    intros q Hq. apply Z'. lia.
Qed.


(* ---------- the result ---------- *)
Lemma fq_length_le q P l : length (fq q P l) <= length (fq q (fun _ => true) l).
Proof. unfold fq. induction l as [|x l IH]; simpl; auto.
  destruct (touch q x); simpl; auto. destruct (P (fst x)); simpl; lia. Qed.

Lemma fq_len_eq q P l :
  length (fq q P l) = length (fq q (fun _ => true) l) -> fq q P l = fq q (fun _ => true) l.
Proof. unfold fq. induction l as [|x l IH]; simpl; auto.
  destruct (touch q x); simpl; auto. destruct (P (fst x)); simpl; intros H.
  - f_equal. apply IH. lia.
  - pose proof (fq_length_le q P l) as Hle. unfold fq in Hle. lia. Qed.

Lemma Permutation_filter' {A} (f : A -> bool) l l' : Permutation l l' -> Permutation (filter f l) (filter f l').
Proof. induction 1; simpl; auto.
  - destruct (f x); auto.
  - destruct (f x), (f y); auto. apply perm_swap.
  - eapply perm_trans; eauto. Qed.

Lemma flat_map_nil {A B} (f : A -> list B) l : (forall x, In x l -> f x = []) -> flat_map f l = [].
Proof. induction l as [|x l IH]; simpl; intros H; auto. rewrite (H x), IH; auto. Qed.

Lemma nth_repeat_none {A} n q : nth q (repeat (@None A) n) None = None.
Proof. revert q. induction n; intros [|q]; simpl; auto. Qed.

End Thm.

Lemma nth_map_seq {A} (f : nat -> A) d n q : q < n -> nth q (map f (seq 0 n)) d = f q.
Proof. intros H. rewrite (nth_indep _ d (f 0)) by (rewrite map_length, seq_length; auto).
  rewrite map_nth, seq_nth; auto. Qed.

Lemma init_inv k nq ncyc c : wf_input nq ncyc c -> inv k c [] (init nq c).
Proof. intros (Hord & Hcyc & Hnd & Hne & Hq). constructor; simpl; try (intros; contradiction); auto.
  - constructor.
  - intros q id H. rewrite nth_repeat_none in H. discriminate.
  - intros q. symmetry. apply fq_none. intros x Hx Tx. apply Z.ltb_ge.
    destruct (Nat.lt_ge_cases q nq) as [Hlt|Hge].
    + rewrite nth_map_seq by exact Hlt. unfold first_cycle.
      pose proof (next_cycle_spec q c) as NC. destruct (next_cycle q c) as [cn|].
      * destruct NC as (r1 & y & r2 & Er & N1 & N2 & N3). rewrite Er in Hx.
        apply in_app_or in Hx as [Hx|[<-|Hx]].
        -- rewrite (N1 x Hx) in Tx. discriminate.
        -- lia.
        -- assert (fst y < fst x)%Z; [|lia]. apply (Hord r1 y r2 x q); auto.
      * rewrite (NC x Hx) in Tx. discriminate.
    + exfalso. unfold touch in Tx. apply memb_In in Tx. specialize (Hq x Hx q Tx). lia.
Qed.

(* Partial correctness of QuickPartitioner.run: whenever it returns (no RuntimeError), for every
   block size, every iteration order of the overlapping-bin sets, with or without the barrier repair. *)
Theorem quick_correct_partial k fx nq ncyc c hints o :
  wf_input nq ncyc c ->
  quick k fx nq ncyc c hints = inl o ->
  good_partition k (map snd c) o /\ all_gates_blocked o.
Proof. intros W H. pose proof (init_inv k nq ncyc c W) as I0.
  destruct W as (Hord & Hcyc & Hnd & Hne & Hq).
  unfold quick, quick_state in H.
  destruct (run_ops k fx ncyc c hints (init nq c)) as [st|] eqn:R; [|discriminate].
  destruct (close_all_from (length (act st)) 0 ncyc st) as [st1|] eqn:C; [|discriminate].
  destruct (process_pending_bins ncyc st1) as [st2|] eqn:PP; [|discriminate].
  destruct (pend st2) as [|p ps] eqn:Ep; [|discriminate]. injection H as <-.
  assert (I : inv k c c st) by (eapply (run_ops_inv k ncyc c Hord Hcyc Hnd Hne fx c [] hints); eauto).
  destruct (close_all_inv k ncyc c Hord Hcyc Hnd Hne (length (act st)) 0 st st1 I) as (I1 & Z1 & L1); auto.
  { intros q Hq0. lia. }
  unfold process_pending_bins in PP.
  destruct (process_pending_inv k ncyc c Hord Hcyc c _ _ _ I1 PP) as (I2 & A2 & N2 & B2).
  assert (Hnone : forall q, nth q (act st2) None = None).
  { intros q. rewrite A2. destruct (Nat.lt_ge_cases q (length (act st))) as [Hlt|Hge].
    - apply Z1. simpl. exact Hlt. - apply nth_overflow. rewrite L1. exact Hge. }
  destruct I2 as [i_nd0 i_lt0 i_plt0 i_static0 i_dyn0 i_act0 i_pend0 i_E0 i_P0 i_ok0 i_nb0 i_leaf0].
  assert (Hempty : flat_map bops (bins st2) = []).
  { apply flat_map_nil. intros b Hb. destruct (i_dyn0 b Hb) as [D1 D2].
    destruct (i_static0 b Hb) as (_ & _ & _ & _ & _ & S6).
    destruct D2 as [D2|[D2|D2]]; auto.
    - apply any_active_ex in D2 as [q Aq]. specialize (D1 q Aq). rewrite Hnone in D1. discriminate.
    - rewrite Ep in D2. destruct D2. }
  rewrite Hempty, app_nil_r in i_P0.
  split; [|exact i_leaf0].
  split; [exact i_ok0|]. split; [exact i_nb0|]. split; [exact i_P0|].
  intros q. rewrite i_E0, <- fq_all. apply fq_len_eq.
  rewrite <- i_E0, fq_all. unfold pq, proj. apply Permutation_length.
  apply Permutation_filter'. exact i_P0.
Qed.

(* ... hence the same unitary, in every semantics where disjoint operations commute *)
Theorem quick_same_unitary k fx nq ncyc c hints o
  (M : Type) (mul : M -> M -> M) (one : M) (den : op -> M) :
  (forall x y z, mul x (mul y z) = mul (mul x y) z) ->
  (forall x, mul one x = x) ->
  (forall a b, indep op oloc a b -> mul (den a) (den b) = mul (den b) (den a)) ->
  wf_input nq ncyc c ->
  quick k fx nq ncyc c hints = inl o ->
  sem M mul one den (unfold o) = sem M mul one den (map snd c).
Proof. intros Ha Hl Hc W H. destruct (quick_correct_partial _ _ _ _ _ _ _ W H) as [G _].
  eapply good_partition_same_unitary; eauto.
  intros a Hin. apply in_map_iff in Hin as (x & <- & Hx). destruct W as (_ & _ & _ & Hne & _). auto. Qed.

(* ---------- a decidable form of wf_input, for concrete examples ---------- *)
Fixpoint orderedb (c : list cop) : bool :=
  match c with
  | [] => true
  | x :: t =>
    forallb (fun y => negb (existsb (fun q => memb q (oloc (snd y))) (oloc (snd x))) || (fst x <? fst y)%Z) t
    && orderedb t
  end.

Lemma orderedb_sound c : orderedb c = true -> ordered c.
Proof. induction c as [|x t IH]; simpl; intros H l1 a l2 y q E Hy Ta Ty.
  - destruct l1; discriminate.
  - apply andb_true_iff in H as [H1 H2]. destruct l1 as [|z l1]; simpl in E; inversion E; subst.
    + rewrite forallb_forall in H1. specialize (H1 y Hy). apply orb_true_iff in H1 as [H1|H1].
      * apply negb_true_iff in H1. exfalso.
        assert (existsb (fun q0 => memb q0 (oloc (snd y))) (oloc (snd a)) = true); [|congruence].
        apply existsb_exists. exists q. unfold touch in *. split; [apply memb_In; exact Ta| exact Ty].
      * apply Z.ltb_lt. exact H1.
    + apply (IH H2 l1 a l2 y q); auto. Qed.

Definition wf_inputb (nq : nat) (ncyc : Z) (c : list cop) : bool :=
  orderedb c &&
  forallb (fun x => (fst x <? ncyc)%Z && nodupb (oloc (snd x)) &&
                    negb (match oloc (snd x) with [] => true | _ => false end) &&
                    forallb (fun q => q <? nq) (oloc (snd x))) c.

Lemma wf_inputb_sound nq ncyc c : wf_inputb nq ncyc c = true -> wf_input nq ncyc c.
Proof. unfold wf_inputb. intros H. apply andb_true_iff in H as [H1 H2]. rewrite forallb_forall in H2.
  split; [apply orderedb_sound; exact H1|].
  assert (Hx : forall x, In x c -> (fst x < ncyc)%Z /\ NoDup (oloc (snd x)) /\ oloc (snd x) <> [] /\
                                   forall q, In q (oloc (snd x)) -> q < nq).
  { intros x Hx. specialize (H2 x Hx). apply andb_true_iff in H2 as [H2 H5]. apply andb_true_iff in H2 as [H2 H4].
    apply andb_true_iff in H2 as [H2 H3]. split; [apply Z.ltb_lt; exact H2|]. split; [apply nodupb_NoDup; exact H3|].
    split.
    - intros E. rewrite E in H4. discriminate.
    - intros q Hq'. rewrite forallb_forall in H5. apply Nat.ltb_lt. apply H5. exact Hq'. }
  repeat split; intros x Hin; apply Hx; exact Hin. Qed.

(* ---------- liveness is refuted for the unchanged code ---------- *)
Definition cx (a b : nat) : op := mkOp 1 [a; b] 1 KGate.
Definition bar (l : list nat) : op := mkOp 2 l 1 KBarrier.

(* CX(0,1); barrier(1); CX(1,2); barrier(2,3); CX(0,3)  with block size 3 *)
Definition deadlock_circuit : list cop :=
  [(0%Z, cx 0 1); (1%Z, bar [1]); (2%Z, cx 1 2); (3%Z, bar [2; 3]); (4%Z, cx 0 3)].
Definition deadlock_hints : list (list nat) := [[]; [0]; []; [2]; [0]].

Theorem quick_all_emitted_refuted :
  wf_input 4 5 deadlock_circuit /\
  quick 3 false 4 5 deadlock_circuit deadlock_hints = inr EPending.
Proof. split; [apply wf_inputb_sound; vm_compute; reflexivity| vm_compute; reflexivity]. Qed.

Lemma quick_correct_full_refuted :
  ~ (forall k nq ncyc c hints, 2 <= k -> wf_input nq ncyc c ->
     quick k false nq ncyc c hints = inr EBadHint \/
     exists o, quick k false nq ncyc c hints = inl o /\ good_partition k (map snd c) o).
Proof. intros H. destruct quick_all_emitted_refuted as [W E].
  destruct (H 3 4 5%Z deadlock_circuit deadlock_hints) as [H1|(o & H1 & _)]; auto; rewrite E in H1; discriminate. Qed.

(* with the blocked-qudit propagation also run when a BarrierBin is created
   (fixes/C08.Q1.patch) the same circuit is partitioned *)
Lemma quick_fixed_on_witness :
  quick 3 true 4 5 deadlock_circuit deadlock_hints =
  inl [Block [0; 1] [cx 0 1]; Leaf (bar [1]); Block [1; 2] [cx 1 2]; Leaf (bar [2; 3]); Block [0; 3] [cx 0 3]].
Proof. vm_compute. reflexivity. Qed.
