(* Theorems about the circuit model, part 2: timelines and invariant preservation
   of the remaining modelled editors (replace, batch_pop, replace_with_circuit /
   unfold, the qudit editors, concatenation, clear) and the invariant over every
   history of the whole modelled alphabet. *)
From Coq Require Import List Arith Bool PeanoNat ZArith Lia Permutation.
Import ListNotations.
From BQ Require Import lib.Trace circuit.CModel circuit.CThm.
Open Scope nat_scope.

(* ---- small facts ------------------------------------------------------------------ *)
Lemma valid_op_ext c c' o : nq c' = nq c -> rads c' = rads c -> valid_op c' o = valid_op c o.
Proof. unfold valid_op. intros -> ->. reflexivity. Qed.

Lemma normZ_nat i n : normZ (Z.of_nat i) n = i.
Proof. unfold normZ. destruct (Z.ltb_spec (Z.of_nat i) 0); [lia|]. apply Nat2Z.id. Qed.

Lemma in_rangeZ_nat i n : i < n -> in_rangeZ (Z.of_nat i) n = true.
Proof. intros H. unfold in_rangeZ. apply andb_true_iff. split; [apply Z.ltb_lt|apply Z.leb_le]; lia. Qed.

Lemma insert_index_nat c i : i < ncyc c -> insert_index c (Z.of_nat i) = Some i.
Proof. intros H. unfold insert_index. destruct (Nat.eqb_spec (ncyc c) 0); [lia|].
  rewrite in_rangeZ_nat by exact H. rewrite normZ_nat. reflexivity. Qed.

Lemma insert_out c ci o : valid_op c o = true -> snd (insert c ci o) = OkU.
Proof. intros Hv. unfold insert. rewrite Hv. cbn [negb].
  repeat match goal with |- context[if ?b then _ else _] => destruct b end; reflexivity. Qed.

Lemma insert_nq c ci o : nq (fst (insert c ci o)) = nq c /\ rads (fst (insert c ci o)) = rads c.
Proof. unfold insert, append_raw, place.
  repeat match goal with |- context[if ?b then _ else _] => destruct b end; cbn; auto. Qed.

Lemma append_raw_nq c o : nq (fst (append_raw c o)) = nq c /\ rads (fst (append_raw c o)) = rads c.
Proof. unfold append_raw, place. destruct (Nat.eqb _ _); cbn; auto. Qed.

Lemma remove_op_nq c i q : nq (remove_op c i q) = nq c /\ rads (remove_op c i q) = rads c.
Proof. unfold remove_op. destruct (filter _ _); cbn; auto. Qed.

Lemma firstn_app_l {A} (a b : list A) n : length a = n -> firstn n (a ++ b) = a.
Proof. intros <-. induction a as [|x a IH]; cbn; [destruct b; reflexivity|]. rewrite IH. reflexivity. Qed.

Lemma skipn_app_l {A} (a b : list A) n : length a = n -> skipn n (a ++ b) = b.
Proof. intros <-. induction a as [|x a IH]; cbn; auto. Qed.

Lemma skipn_update_at {A} i f (l : list A) d : i < length l -> skipn i (update_at i f l) = f (nth i l d) :: skipn (S i) l.
Proof. revert i. induction l as [|y t IH]; intros i Hi; cbn in Hi; [lia|].
  destruct i as [|i]; cbn; [reflexivity|]. apply IH. lia. Qed.

Lemma update_at_app_r {A} (a b : list A) x f : update_at (length a) f (a ++ x :: b) = a ++ f x :: b.
Proof. induction a as [|y a IH]; cbn; [reflexivity|]. rewrite IH. reflexivity. Qed.

Lemma split_at {A} (l : list A) i d : i < length l -> l = firstn i l ++ nth i l d :: skipn (S i) l.
Proof. revert i. induction l as [|y t IH]; intros i Hi; cbn in Hi; [lia|].
  destruct i as [|i]; cbn; [reflexivity|]. f_equal. apply IH. lia. Qed.

Lemma firstn_len {A} (l : list A) i : i <= length l -> length (firstn i l) = i.
Proof. intros H. rewrite firstn_length. lia. Qed.

Lemma tlc_nil q : tlc [] q = [].
Proof. reflexivity. Qed.

Lemma tlc_cons cy cs q : tlc (cy :: cs) q = filter (touches q) cy ++ tlc cs q.
Proof. reflexivity. Qed.

(* ---- cells under `amo` ----------------------------------------------------------------- *)
Lemma amo_unique cy q x y : amo cy -> In x cy -> In y cy -> touches q x = true -> touches q y = true -> x = y.
Proof. intros A Hx Hy Tx Ty. specialize (A q).
  assert (Ix : In x (filter (touches q) cy)) by (apply filter_In; auto).
  assert (Iy : In y (filter (touches q) cy)) by (apply filter_In; auto).
  destruct (filter (touches q) cy) as [|a [|b t]]; cbn in *; try lia; try tauto.
  destruct Ix as [<-|[]], Iy as [<-|[]]. reflexivity. Qed.

Lemma find_hd_filter {A} (f : A -> bool) l : find f l = hd_error (filter f l).
Proof. induction l as [|x l IH]; cbn; auto. destruct (f x); auto. Qed.

Lemma cell_Some cy q o : cell cy q = Some o -> In o cy /\ touches q o = true.
Proof. unfold cell. apply find_some. Qed.

Lemma cell_None cy q : cell cy q = None -> filter (touches q) cy = [].
Proof. unfold cell. rewrite find_hd_filter. destruct (filter (touches q) cy); [reflexivity|discriminate]. Qed.

Lemma amo_filter_one cy q o : amo cy -> In o cy -> touches q o = true -> filter (touches q) cy = [o].
Proof. intros A Ho To. specialize (A q).
  assert (Io : In o (filter (touches q) cy)) by (apply filter_In; auto).
  destruct (filter (touches q) cy) as [|a [|b t]]; cbn in *; try lia; try tauto.
  destruct Io as [<-|[]]. reflexivity. Qed.

Lemma cell_filter cy q o : amo cy -> cell cy q = Some o -> filter (touches q) cy = [o].
Proof. intros A H. apply cell_Some in H as [H1 H2]. apply amo_filter_one; auto. Qed.

Lemma cell_amo cy q o : amo cy -> In o cy -> touches q o = true -> cell cy q = Some o.
Proof. intros A Ho To. unfold cell. rewrite find_hd_filter, (amo_filter_one cy q o); auto. Qed.

Lemma Inv_amo c i : Inv c -> amo (cycle_at c i).
Proof. intros H. unfold cycle_at. destruct (Nat.lt_ge_cases i (length (cycles c))) as [Hi|Hi].
  - unfold Inv in H. rewrite Forall_forall in H. apply (H (nth i (cycles c) [])). apply nth_In. exact Hi.
  - rewrite nth_overflow by exact Hi. intros q. cbn. lia. Qed.

Lemma Inv_Forall_amo c : Inv c -> Forall amo (cycles c).
Proof. intros H. eapply Forall_impl; [|exact H]. intros cy [_ A]. exact A. Qed.

Lemma subsetb_mem a b q : subsetb a b = true -> memn q a = true -> memn q b = true.
Proof. unfold subsetb. rewrite forallb_forall. intros H Hq. apply H. apply memn_In. exact Hq. Qed.

Lemma seteqb_mem a b q : seteqb a b = true -> memn q a = memn q b.
Proof. unfold seteqb. intros H. apply andb_true_iff in H as [H1 H2].
  destruct (memn q a) eqn:Ea; [symmetry; eapply subsetb_mem; eauto|].
  destruct (memn q b) eqn:Eb; auto. rewrite (subsetb_mem b a q H2 Eb) in Ea. discriminate. Qed.

Lemma filter_map_comm {A B} (f : B -> bool) (g : A -> B) l : filter f (map g l) = map g (filter (fun x => f (g x)) l).
Proof. induction l as [|x l IH]; cbn; auto. destruct (f (g x)); cbn; rewrite IH; reflexivity. Qed.

Lemma filter_ext_in' {A} (f g : A -> bool) l : (forall x, In x l -> f x = g x) -> filter f l = filter g l.
Proof. induction l as [|x l IH]; intros H; cbn; auto.
  rewrite (H x) by (left; reflexivity). rewrite IH by (intros; apply H; right; assumption). reflexivity. Qed.

Lemma map_id_in {A} (f : A -> A) l : (forall x, In x l -> f x = x) -> map f l = l.
Proof. induction l as [|x l IH]; intros H; cbn; auto.
  rewrite (H x) by (left; reflexivity). rewrite IH by (intros; apply H; right; assumption). reflexivity. Qed.

(* ---- replace ------------------------------------------------------------------------------ *)
Definition subst_op (q : nat) (o : op) (x : op) : op := if touches q x then o else x.

(* substituting `o` for the operation at qudit q of a cycle, when both occupy the same qudits *)
Lemma subst_filter cy q old o q' :
  amo cy -> cell cy q = Some old -> seteqb (o_loc old) (o_loc o) = true ->
  filter (touches q') (map (subst_op q o) cy) = if touches q' old then [o] else filter (touches q') cy.
Proof. intros A Hc Hs. destruct (cell_Some _ _ _ Hc) as [Hin Hq].
  assert (Hsub : forall x, In x cy -> touches q' (subst_op q o x) = touches q' x).
  { intros x Hx. unfold subst_op. destruct (touches q x) eqn:T; auto.
    assert (x = old) by (eapply amo_unique; eauto). subst x. unfold touches. symmetry. apply seteqb_mem. exact Hs. }
  rewrite filter_map_comm. rewrite (filter_ext_in' _ (touches q') cy Hsub).
  destruct (touches q' old) eqn:T.
  - rewrite (amo_filter_one cy q' old A Hin T). cbn. unfold subst_op. rewrite Hq. reflexivity.
  - apply map_id_in. intros x Hx. apply filter_In in Hx as [Hx Tx]. unfold subst_op.
    destruct (touches q x) eqn:Tq; auto.
    assert (x = old) by (eapply amo_unique; eauto). subst x. congruence. Qed.

Lemma pir_lt c ci qi : point_in_range c ci qi = true -> normZ ci (ncyc c) < ncyc c /\ normZ qi (nq c) < nq c.
Proof. unfold point_in_range. intros H. apply andb_true_iff in H as [H1 H2]. split; apply normZ_lt; assumption. Qed.

Lemma seteq_not_disjoint a b q : memn q a = true -> seteqb a b = true -> disjointb a b = false.
Proof. intros Hq Hs. destruct (disjointb a b) eqn:D; auto.
  pose proof (disjointb_free a b q D (proj1 (memn_In q a) Hq)) as F.
  rewrite <- (seteqb_mem a b q Hs) in F. congruence. Qed.

(* in-place branch: same set of qudits; the new operation takes the old one's place
   on every one of them, nothing else changes *)
Theorem replace_inplace_tl c ci qi o old q' :
  let i := normZ ci (ncyc c) in let q := normZ qi (nq c) in
  valid_op c o = true -> point_in_range c ci qi = true -> amo (cycle_at c i) ->
  get_cell c i q = Some old -> seteqb (o_loc old) (o_loc o) = true ->
  let r := replace c (ci, qi) o in
  snd r = OkU /\ nq (fst r) = nq c /\ rads (fst r) = rads c /\ ncyc (fst r) = ncyc c /\
  tl (fst r) q' = tlc (firstn i (cycles c)) q'
                  ++ (if touches q' old then [o] else filter (touches q') (cycle_at c i))
                  ++ tlc (skipn (S i) (cycles c)) q'.
Proof. intros i q Hv Hp A Hc Hs r. unfold r, replace. rewrite Hv, Hp. cbn [negb].
  fold i q. rewrite Hc.
  destruct (cell_Some _ _ _ Hc) as [Hin Hq].
  rewrite (seteq_not_disjoint _ _ q Hq Hs), Hs. cbn [fst snd nq rads].
  destruct (pir_lt _ _ _ Hp) as [Hi _]. fold i in Hi. unfold ncyc in *. cbn [cycles].
  rewrite length_update_at. repeat split; auto.
  unfold tl. cbn [cycles]. rewrite tlc_update_at by exact Hi.
  change (map (fun x => if touches q x then o else x)) with (map (subst_op q o)).
  change (nth i (cycles c) []) with (cycle_at c i).
  rewrite (subst_filter _ q old o q' A Hc Hs). reflexivity. Qed.

(* the old timeline, for comparison: the same with [old] in the place of [o] *)
Lemma cell_tl c i q old q' :
  i < ncyc c -> amo (cycle_at c i) -> get_cell c i q = Some old ->
  tl c q' = tlc (firstn i (cycles c)) q'
            ++ (if touches q' old then [old] else filter (touches q') (cycle_at c i))
            ++ tlc (skipn (S i) (cycles c)) q'.
Proof. intros Hi A Hc. unfold tl. rewrite (tlc_split (cycles c) i q' Hi) at 1. f_equal. f_equal.
  destruct (cell_Some _ _ _ Hc) as [Hin Hq]. fold (cycle_at c i).
  destruct (touches q' old) eqn:T; auto. apply amo_filter_one; auto. Qed.

(* pop + insert branch: the old operation is removed, the new one is inserted at
   the old cycle index: on each of its qudits it comes after the operations of the
   cycles before i and before what is left of cycle i and all later cycles (this
   includes the case where the old operation was alone in the last cycle) *)
Theorem replace_move_tl c ci qi o old q' :
  let i := normZ ci (ncyc c) in let q := normZ qi (nq c) in
  valid_op c o = true -> point_in_range c ci qi = true ->
  get_cell c i q = Some old -> disjointb (o_loc old) (o_loc o) = false -> seteqb (o_loc old) (o_loc o) = false ->
  let r := replace c (ci, qi) o in
  snd r = OkU /\
  tl (fst r) q' = tlc (firstn i (cycles c)) q' ++ one q' o
                  ++ filter (touches q') (filter (fun x => negb (touches q x)) (cycle_at c i))
                  ++ tlc (skipn (S i) (cycles c)) q'.
Proof. intros i q Hv Hp Hc Hd Hs r. unfold r, replace. rewrite Hv, Hp. cbn [negb].
  fold i q. rewrite Hc, Hd, Hs.
  destruct (pir_lt _ _ _ Hp) as [Hi _]. fold i in Hi.
  destruct (remove_op_nq c i q) as [Hn Hr].
  set (c1 := remove_op c i q) in *.
  set (c2 := if Nat.eqb i (ncyc c1) then mkC (nq c1) (rads c1) (cycles c1 ++ [[]]) else c1).
  assert (Hv2 : valid_op c2 o = true).
  { rewrite <- Hv. apply valid_op_ext; unfold c2; destruct (Nat.eqb i (ncyc c1)); cbn; auto. }
  pose proof (insert_out c2 (Z.of_nat i) o Hv2) as Ho.
  pose proof (insert_tl c2 (Z.of_nat i) o q' Hv2) as Ht.
  destruct (insert c2 (Z.of_nat i) o) as [c3 o3] eqn:E3. cbn [fst snd] in *. subst o3. cbn [fst snd]. split; [reflexivity|].
  rewrite Ht. clear Ht E3.
  unfold ncyc in Hi.
  unfold c2, c1, remove_op, ncyc. fold (cycle_at c i).
  destruct (filter (fun o0 => negb (touches q o0)) (cycle_at c i)) as [|x rest] eqn:Ef; cbn [cycles nq rads].
  - rewrite remove_at_split by exact Hi.
    pose proof (firstn_len (cycles c) i (Nat.lt_le_incl _ _ Hi)) as Hl.
    destruct (Nat.eqb_spec i (length (firstn i (cycles c) ++ skipn (S i) (cycles c)))) as [E|E].
    + (* alone in the last cycle *)
      assert (Hsk : skipn (S i) (cycles c) = []).
      { rewrite app_length, Hl in E. apply length_zero_iff_nil. lia. }
      rewrite Hsk, app_nil_r in *. rewrite insert_index_nat by (unfold ncyc; cbn [cycles]; rewrite app_length, Hl; cbn; lia).
      cbn [cycles]. rewrite firstn_app_l, skipn_app_l by exact Hl. cbn. rewrite !app_nil_r. reflexivity.
    + rewrite app_length, Hl in E. rewrite skipn_length in E.
      rewrite insert_index_nat by (unfold ncyc; cbn [cycles]; rewrite app_length, Hl, skipn_length; lia).
      cbn [cycles]. rewrite firstn_app_l, skipn_app_l by exact Hl. cbn. reflexivity.
  - rewrite length_update_at. destruct (Nat.eqb_spec i (length (cycles c))) as [E|E]; [lia|].
    rewrite insert_index_nat by (unfold ncyc; cbn [cycles]; rewrite length_update_at; exact Hi).
    cbn [cycles]. rewrite firstn_update_at, (skipn_update_at i _ (cycles c) []) by exact Hi.
    rewrite tlc_cons. reflexivity. Qed.

(* ---- replace preserves the invariant (any arguments) ----------------------------------------- *)
Lemma amo_subst cy q old o :
  amo cy -> cell cy q = Some old -> seteqb (o_loc old) (o_loc o) = true -> amo (map (subst_op q o) cy).
Proof. intros A Hc Hs q'. rewrite (subst_filter cy q old o q' A Hc Hs).
  destruct (touches q' old); [cbn; lia|apply A]. Qed.

Lemma Inv_nth c i : Inv c -> i < ncyc c -> good_cycle (cycle_at c i).
Proof. unfold Inv, ncyc, cycle_at. intros H Hi. rewrite Forall_forall in H. apply H. apply nth_In. exact Hi. Qed.

Lemma insert_into_last_empty c o :
  valid_op c o = true ->
  fst (insert (mkC (nq c) (rads c) (cycles c ++ [[]])) (Z.of_nat (ncyc c)) o) = mkC (nq c) (rads c) (cycles c ++ [[o]]).
Proof. intros Hv. unfold insert.
  assert (Hv' : valid_op (mkC (nq c) (rads c) (cycles c ++ [[]])) o = true) by (rewrite <- Hv; apply valid_op_ext; reflexivity).
  rewrite Hv'. cbn [negb]. unfold ncyc at 1. cbn [cycles]. rewrite app_length. cbn [length].
  destruct (Nat.eqb_spec (length (cycles c) + 1) 0) as [E|_]; [lia|].
  unfold ncyc. cbn [cycles]. rewrite app_length. cbn [length].
  rewrite in_rangeZ_nat by lia. cbn [negb andb]. rewrite normZ_nat.
  unfold cycle_at. cbn [cycles]. rewrite app_nth2 by lia. rewrite Nat.sub_diag. cbn [nth unoccupied forallb].
  unfold place. cbn [fst nq rads cycles]. rewrite update_at_app_r. reflexivity. Qed.

Theorem replace_inv c pt o : Inv c -> Inv (fst (replace c pt o)).
Proof. intros H. destruct pt as [ci qi]. unfold replace.
  destruct (valid_op c o) eqn:Hv; cbn [negb fst]; [|exact H].
  destruct (point_in_range c ci qi) eqn:Hp; cbn [negb fst]; [|exact H].
  destruct (pir_lt _ _ _ Hp) as [Hi _].
  set (i := normZ ci (ncyc c)) in *. set (q := normZ qi (nq c)) in *.
  destruct (get_cell c i q) as [old|] eqn:Hc; cbn [fst]; [|exact H].
  destruct (disjointb (o_loc old) (o_loc o)); cbn [fst]; [exact H|].
  destruct (seteqb (o_loc old) (o_loc o)) eqn:Hs; cbn [fst].
  - unfold Inv. cbn [cycles]. apply Forall_update_at with (d := []); [exact H|]. intros _.
    destruct (Inv_nth c i H Hi) as [Hne A]. split.
    + intros E. apply map_eq_nil in E. exact (Hne E).
    + exact (amo_subst _ q old o A Hc Hs).
  - pose proof (remove_op_inv c i q H) as H1. destruct (remove_op_nq c i q) as [Hn Hr].
    set (c1 := remove_op c i q) in *.
    destruct (Nat.eqb_spec i (ncyc c1)) as [E|E].
    + assert (Hv1 : valid_op c1 o = true) by (rewrite <- Hv; apply valid_op_ext; auto).
      pose proof (insert_into_last_empty c1 o Hv1) as Hins. rewrite <- E in Hins.
      destruct (insert _ (Z.of_nat i) o) as [c3 [| | | |e]] eqn:E3; cbn [fst] in *; subst c3;
        unfold Inv; cbn [cycles]; (apply Forall_app; split; [exact H1|constructor; [split; [discriminate|apply amo_single]|constructor]]).
    + pose proof (insert_inv c1 (Z.of_nat i) o H1) as H3.
      destruct (insert c1 (Z.of_nat i) o) as [c3 [| | | |e]]; cbn [fst] in *; exact H3. Qed.

(* ---- removing several operations, highest cycle first (batch_pop, pop_qudit) -------------------- *)
(* a request (i, q) names the operation of cycle i touching qudit q *)
Notation req := (nat * nat)%type (only parsing).
Definition hit (R : list req) (i : nat) (o : op) : bool :=
  existsb (fun p => Nat.eqb (fst p) i && touches (snd p) o) R.
(* the grid without the named operations (cycles keep their indices; they may become empty) *)
Fixpoint filt (R : list req) (k : nat) (cs : list cycle) : list cycle :=
  match cs with
  | [] => []
  | cy :: t => filter (fun o => negb (hit R k o)) cy :: filt R (S k) t
  end.
Definition removes (R : list req) (c : circuit) : circuit :=
  fold_left (fun c p => remove_op c (fst p) (snd p)) R c.

(* cycles weakly descending *)
Fixpoint desc (R : list req) : Prop :=
  match R with [] => True | p :: R' => Forall (fun p' => fst p' <= fst p) R' /\ desc R' end.
(* every request names an operation *)
Definition named (c : circuit) (R : list req) : Prop :=
  Forall (fun p => exists o, In o (cycle_at c (fst p)) /\ touches (snd p) o = true) R.
(* two requests never name the same operation *)
Fixpoint distinct_reqs (c : circuit) (R : list req) : Prop :=
  match R with
  | [] => True
  | p :: R' => (forall p', In p' R' -> fst p' = fst p ->
                forall o, In o (cycle_at c (fst p)) -> touches (snd p) o = true -> touches (snd p') o = false)
               /\ distinct_reqs c R'
  end.

Lemma filt_app R k a b : filt R k (a ++ b) = filt R k a ++ filt R (k + length a) b.
Proof. revert k. induction a as [|cy a IH]; intros k; cbn.
  - rewrite Nat.add_0_r. reflexivity.
  - rewrite IH. rewrite <- Nat.add_succ_comm. reflexivity. Qed.

Lemma filter_all {A} (f : A -> bool) l : (forall x, In x l -> f x = true) -> filter f l = l.
Proof. induction l as [|x l IH]; intros H; cbn; auto.
  rewrite (H x) by (left; reflexivity). rewrite IH by (intros; apply H; right; assumption). reflexivity. Qed.

Lemma filt_id R k cs : (forall j o, k <= j -> hit R j o = false) -> filt R k cs = cs.
Proof. revert k. induction cs as [|cy t IH]; intros k H; cbn; auto.
  rewrite filter_all by (intros x _; rewrite H by lia; reflexivity).
  rewrite IH by (intros; apply H; lia). reflexivity. Qed.

Lemma filt_ext R R' k cs :
  (forall j o, k <= j < k + length cs -> hit R j o = hit R' j o) -> filt R k cs = filt R' k cs.
Proof. revert k. induction cs as [|cy t IH]; intros k H; cbn; auto.
  rewrite (IH (S k)) by (intros; apply H; cbn; lia).
  f_equal. apply filter_ext. intros o. rewrite H by (cbn; lia). reflexivity. Qed.

Lemma filter_filter {A} (f g : A -> bool) l : filter f (filter g l) = filter (fun x => g x && f x) l.
Proof. induction l as [|x l IH]; cbn; auto. destruct (g x); cbn; [destruct (f x)|]; rewrite IH; reflexivity. Qed.

Lemma hit_cons p R j o : hit (p :: R) j o = (Nat.eqb (fst p) j && touches (snd p) o) || hit R j o.
Proof. reflexivity. Qed.

Lemma hit_true R j o : hit R j o = true -> exists p, In p R /\ fst p = j /\ touches (snd p) o = true.
Proof. unfold hit. intros E. apply existsb_exists in E as (p & Hp & E).
  apply andb_true_iff in E as [E1 E2]. apply Nat.eqb_eq in E1. eauto. Qed.

Lemma hit_none R j o : (forall p, In p R -> fst p <> j) -> hit R j o = false.
Proof. intros H. apply not_true_is_false. intros E. apply hit_true in E as (p & Hp & E & _). exact (H p Hp E). Qed.

Lemma update_at_split {A} i f (l : list A) d : i < length l -> update_at i f l = firstn i l ++ f (nth i l d) :: skipn (S i) l.
Proof. revert i. induction l as [|y t IH]; intros i Hi; cbn in Hi; [lia|].
  destruct i as [|i]; cbn; [reflexivity|]. f_equal. apply IH. lia. Qed.

Lemma nth_update_at_same {A} i f (l : list A) d : i < length l -> nth i (update_at i f l) d = f (nth i l d).
Proof. revert i. induction l as [|y t IH]; intros i Hi; cbn in Hi; [lia|].
  destruct i; cbn; [reflexivity|]. apply IH. lia. Qed.

Lemma remove_op_cycles c i q :
  i < ncyc c ->
  cycles (remove_op c i q) =
  firstn i (cycles c)
  ++ (match filter (fun o => negb (touches q o)) (cycle_at c i) with [] => [] | cy' => [cy'] end)
  ++ skipn (S i) (cycles c).
Proof. intros Hi. unfold remove_op, ncyc in *. destruct (filter _ _) as [|x r] eqn:E; cbn [cycles app].
  - apply remove_at_split. exact Hi.
  - rewrite (update_at_split i _ (cycles c) [] Hi). reflexivity. Qed.

Lemma distinct_mono c c1 R :
  (forall p o, In p R -> In o (cycle_at c1 (fst p)) -> In o (cycle_at c (fst p))) ->
  distinct_reqs c R -> distinct_reqs c1 R.
Proof. induction R as [|p R IH]; intros Hs H; cbn in *; auto. destruct H as [H1 H2]. split.
  - intros p' Hp' E o Ho. apply H1; auto.
  - apply IH; auto. Qed.

(* the timelines after the removals are those of the grid without the named operations *)
Theorem removes_tl R : forall c q,
  desc R -> named c R -> distinct_reqs c R ->
  tl (removes R c) q = tlc (filt R 0 (cycles c)) q.
Proof. induction R as [|p R IH]; intros c q Hd Hn Hx; cbn [removes fold_left].
  - unfold tl. rewrite filt_id by reflexivity. reflexivity.
  - destruct p as [i q0]. cbn [fst snd] in *. destruct Hd as [Hle Hd]. destruct Hx as [Hx1 Hx].
    inversion Hn as [|? ? (o0 & Hin0 & T0) Hn']; subst. cbn [fst snd] in *.
    assert (Hi : i < ncyc c).
    { unfold ncyc, cycle_at in *. destruct (Nat.lt_ge_cases i (length (cycles c))); auto.
      rewrite nth_overflow in Hin0 by assumption. destruct Hin0. }
    fold (removes R (remove_op c i q0)).
    pose proof (remove_op_cycles c i q0 Hi) as Hcs.
    set (c1 := remove_op c i q0) in *.
    set (cy := cycle_at c i) in *. set (cy' := filter (fun o => negb (touches q0 o)) cy) in *.
    set (A := firstn i (cycles c)) in *. set (B := skipn (S i) (cycles c)) in *.
    assert (HA : length A = i) by (apply firstn_len; unfold ncyc in Hi; lia).
    assert (Hc0 : cycles c = A ++ cy :: B) by (apply split_at; exact Hi).
    (* requests of R at cycle i name operations that survive *)
    assert (Hsurv : forall p', In p' R -> fst p' = i -> exists o, In o cy' /\ touches (snd p') o = true).
    { intros p' Hp' E. rewrite Forall_forall in Hn'. destruct (Hn' p' Hp') as (o & Ho & To). rewrite E in Ho. fold cy in Ho.
      exists o. split; auto. apply filter_In. split; auto.
      destruct (touches q0 o) eqn:Tq; auto. rewrite (Hx1 p' Hp' E o Ho Tq) in To. discriminate. }
    assert (Hlt : forall j, j < i -> cycle_at c1 j = cycle_at c j).
    { intros j Hj. unfold cycle_at. rewrite Hcs, Hc0. rewrite !app_nth1 by lia. reflexivity. }
    assert (Hat : cy' <> [] -> cycle_at c1 i = cy').
    { intros Hne. unfold cycle_at. rewrite Hcs. rewrite app_nth2 by lia. rewrite HA, Nat.sub_diag.
      destruct cy'; [congruence|reflexivity]. }
    assert (Hin1 : forall p' o, In p' R -> In o (cycle_at c1 (fst p')) -> In o (cycle_at c (fst p'))).
    { intros p' o Hp' Ho. rewrite Forall_forall in Hle. pose proof (Hle p' Hp') as L.
      destruct (Nat.eq_dec (fst p') i) as [E|E].
      - destruct (Hsurv p' Hp' E) as (o' & Ho' & _). rewrite E in *. rewrite Hat in Ho by (intros Z; rewrite Z in Ho'; destruct Ho').
        apply filter_In in Ho. tauto.
      - rewrite Hlt in Ho by lia. exact Ho. }
    rewrite IH; auto.
    2:{ unfold named. rewrite Forall_forall in *. intros p' Hp'. pose proof (Hle p' Hp') as L.
        destruct (Nat.eq_dec (fst p') i) as [E|E].
        - destruct (Hsurv p' Hp' E) as (o & Ho & To). exists o. rewrite E. rewrite Hat by (intros Z; rewrite Z in Ho; destruct Ho). auto.
        - destruct (Hn' p' Hp') as (o & Ho & To). exists o. rewrite Hlt by lia. auto. }
    2:{ apply (distinct_mono c c1 R Hin1 Hx). }
    (* the two grids have the same timelines *)
    rewrite Hcs, Hc0. rewrite !filt_app. cbn [filt]. rewrite !tlc_app, !tlc_cons. rewrite HA. cbn [plus].
    assert (EA : filt ((i, q0) :: R) 0 A = filt R 0 A).
    { apply filt_ext. intros j o Hj. rewrite hit_cons. cbn [fst]. destruct (Nat.eqb_spec i j); [lia|reflexivity]. }
    assert (EB : filt ((i, q0) :: R) (S i) B = B).
    { apply filt_id. intros j o Hj. apply hit_none. intros p' [<-|Hp']; cbn [fst]; [lia|].
      rewrite Forall_forall in Hle. specialize (Hle p' Hp'). lia. }
    assert (Ecy : filter (fun o => negb (hit ((i, q0) :: R) i o)) cy = filter (fun o => negb (hit R i o)) cy').
    { unfold cy'. rewrite filter_filter. apply filter_ext. intros o. rewrite hit_cons. cbn [fst snd].
      rewrite Nat.eqb_refl. cbn [andb]. rewrite negb_orb. reflexivity. }
    rewrite EA, EB, Ecy. f_equal.
    destruct cy' as [|x r] eqn:Ecy'.
    + cbn [app filter length filt]. rewrite Nat.add_0_r, tlc_nil. cbn [app].
      rewrite filt_id; [reflexivity|]. intros j o Hj. apply hit_none. intros p' Hp' E.
      rewrite Forall_forall in Hle. pose proof (Hle p' Hp') as L.
      assert (fst p' = i) by lia. destruct (Hsurv p' Hp' H) as (o' & [] & _).
    + cbn [app length filt]. rewrite tlc_cons, tlc_nil, app_nil_r. f_equal. replace (i + 1) with (S i) by lia.
      rewrite filt_id; [reflexivity|]. intros j o Hj. apply hit_none. intros p' Hp' E.
      rewrite Forall_forall in Hle. specialize (Hle p' Hp'). lia. Qed.

Theorem removes_inv R c : Inv c -> Inv (removes R c).
Proof. revert c. induction R as [|p R IH]; intros c H; cbn; auto. apply IH. apply remove_op_inv. exact H. Qed.

Lemma removes_nq R c : nq (removes R c) = nq c /\ rads (removes R c) = rads c.
Proof. revert c. induction R as [|p R IH]; intros c; [cbn; auto|].
  change (removes (p :: R) c) with (removes R (remove_op c (fst p) (snd p))).
  destruct (IH (remove_op c (fst p) (snd p))) as [-> ->]. apply remove_op_nq. Qed.

(* ---- relabelling the qudits of a grid ------------------------------------------------------------- *)
Definition relab (f : nat -> nat) (o : op) : op := set_loc o (map f (o_loc o)).

Lemma o_loc_set_loc o l : o_loc (set_loc o l) = l.
Proof. destruct o. reflexivity. Qed.

Lemma map_locs_eq f cs : map_locs f cs = map (map (relab f)) cs.
Proof. reflexivity. Qed.

Lemma memn_map_inj f q l : (forall a, In a l -> f a = f q -> a = q) -> memn (f q) (map f l) = memn q l.
Proof. induction l as [|x l IH]; intros H; cbn; auto.
  rewrite IH by (intros; apply H; auto; right; assumption). f_equal.
  destruct (Nat.eqb_spec q x) as [->|Hne]; [apply Nat.eqb_refl|].
  apply Nat.eqb_neq. intros E. apply Hne. symmetry. apply H; [left; reflexivity|auto]. Qed.

Lemma touches_relab f q o : (forall a, In a (o_loc o) -> f a = f q -> a = q) -> touches (f q) (relab f o) = touches q o.
Proof. intros H. unfold touches, relab. rewrite o_loc_set_loc. apply memn_map_inj. exact H. Qed.

(* qudits of all operations of a grid satisfy P *)
Definition all_qudits (P : nat -> Prop) (cs : list cycle) : Prop :=
  forall cy o a, In cy cs -> In o cy -> In a (o_loc o) -> P a.

Lemma tlc_map_locs f cs q :
  all_qudits (fun a => f a = f q -> a = q) cs ->
  tlc (map_locs f cs) (f q) = map (relab f) (tlc cs q).
Proof. rewrite map_locs_eq. induction cs as [|cy cs IH]; intros H; [reflexivity|].
  cbn [map]. rewrite !tlc_cons, map_app. rewrite IH by (intros cy' o a Hc; apply H; right; exact Hc).
  f_equal. rewrite filter_map_comm. f_equal. apply filter_ext_in'. intros o Ho.
  apply touches_relab. intros a Ha. apply (H cy o a); auto. left. reflexivity. Qed.

Lemma tlc_map_locs_fresh f cs q' :
  all_qudits (fun a => f a <> q') cs -> tlc (map_locs f cs) q' = [].
Proof. rewrite map_locs_eq. induction cs as [|cy cs IH]; intros H; [reflexivity|].
  cbn [map]. rewrite tlc_cons. rewrite IH by (intros cy' o a Hc; apply H; right; exact Hc). rewrite app_nil_r.
  rewrite filter_map_comm. replace (filter _ cy) with (@nil op); [reflexivity|]. symmetry.
  assert (G : forall l, (forall o, In o l -> touches q' (relab f o) = false) -> filter (fun x => touches q' (relab f x)) l = []).
  { induction l as [|x l IHl]; intros Hl; cbn; auto. rewrite Hl by (left; reflexivity). apply IHl. intros; apply Hl; right; assumption. }
  apply G. intros o Ho. unfold touches, relab. rewrite o_loc_set_loc. apply not_true_is_false. intros E.
  apply memn_In in E. apply in_map_iff in E as (a & Ea & Ha). apply (H cy o a); auto. left. reflexivity. Qed.

(* ---- append_qudit / insert_qudit -------------------------------------------------------------------- *)
Theorem append_qudit_tl c radix q :
  2 <= radix ->
  let r := append_qudit c radix in
  snd r = OkU /\ nq (fst r) = S (nq c) /\ rads (fst r) = rads c ++ [radix] /\ tl (fst r) q = tl c q.
Proof. intros H r. unfold r, append_qudit. destruct (Nat.ltb_spec radix 2); [lia|]. cbn. auto. Qed.

Theorem insert_qudit_past_end c qi radix : (Z.of_nat (nq c) <= qi)%Z -> insert_qudit c qi radix = append_qudit c radix.
Proof. intros H. unfold insert_qudit, append_qudit. destruct (Nat.ltb radix 2); [reflexivity|].
  destruct (Z.leb_spec (Z.of_nat (nq c)) qi); [reflexivity|lia]. Qed.

(* the index the new qudit gets (for an index below the number of qudits) *)
Definition qudit_index (c : circuit) (qi : Z) : nat :=
  if Z.leb qi (- Z.of_nat (nq c)) then 0 else normZ qi (nq c).

Lemma shift_up_inj k a b : shift_up k a = shift_up k b -> a = b.
Proof. unfold shift_up. destruct (Nat.ltb_spec a k), (Nat.ltb_spec b k); lia. Qed.
Lemma shift_up_fresh k a : shift_up k a <> k.
Proof. unfold shift_up. destruct (Nat.ltb_spec a k); lia. Qed.

(* every old qudit q becomes shift_up k q with its timeline relabelled; the new qudit k is idle *)
Theorem insert_qudit_tl c qi radix q :
  2 <= radix -> (qi < Z.of_nat (nq c))%Z ->
  let k := qudit_index c qi in
  let r := insert_qudit c qi radix in
  snd r = OkU /\ nq (fst r) = S (nq c) /\ rads (fst r) = insert_at k radix (rads c) /\
  tl (fst r) (shift_up k q) = map (relab (shift_up k)) (tl c q) /\ tl (fst r) k = [].
Proof. intros H Hq k r. unfold r, insert_qudit. destruct (Nat.ltb_spec radix 2); [lia|].
  destruct (Z.leb_spec (Z.of_nat (nq c)) qi); [lia|]. fold (qudit_index c qi). fold k. cbn [fst snd nq rads].
  repeat split; auto; unfold tl; cbn [cycles].
  - apply tlc_map_locs. intros cy o a _ _ _. apply shift_up_inj.
  - apply tlc_map_locs_fresh. intros cy o a _ _ _. apply shift_up_fresh. Qed.

(* ---- pop_qudit ------------------------------------------------------------------------------------------ *)
Lemma fold_left_map {A B C} (f : A -> C -> A) (g : B -> C) l a : fold_left (fun a x => f a (g x)) l a = fold_left f (map g l) a.
Proof. revert a. induction l as [|x l IH]; intros a; cbn; auto. Qed.

Definition pq_reqs (c : circuit) (k : nat) : list (nat * nat) :=
  map (fun i => (i, k)) (rev (filter (fun i => existsb (touches k) (cycle_at c i)) (seq 0 (ncyc c)))).

Lemma pop_qudit_removes c k :
  fold_left (fun c i => remove_op c i k) (rev (filter (fun i => existsb (touches k) (cycle_at c i)) (seq 0 (ncyc c)))) c
  = removes (pq_reqs c k) c.
Proof. unfold removes, pq_reqs. rewrite <- fold_left_map. reflexivity. Qed.

(* strictly descending cycle indices *)
Fixpoint sdesc (R : list (nat * nat)) : Prop :=
  match R with [] => True | p :: R' => Forall (fun p' => fst p' < fst p) R' /\ sdesc R' end.

Lemma sdesc_desc R : sdesc R -> desc R.
Proof. induction R as [|p R IH]; cbn; auto. intros [H1 H2]. split; auto. eapply Forall_impl; [|exact H1]. cbn. intros; lia. Qed.

Lemma sdesc_distinct c R : sdesc R -> distinct_reqs c R.
Proof. induction R as [|p R IH]; cbn; auto. intros [H1 H2]. split; auto.
  intros p' Hp' E. rewrite Forall_forall in H1. specialize (H1 p' Hp'). lia. Qed.

Lemma sdesc_filter_seq (f : nat -> bool) k n : sdesc (map (fun i => (i, k)) (rev (filter f (seq 0 n))))
  /\ Forall (fun p => fst p < n) (map (fun i => (i, k)) (rev (filter f (seq 0 n)))).
Proof. induction n as [|n [IH1 IH2]]; [cbn; auto|].
  rewrite seq_S, filter_app, rev_app_distr. cbn [seq filter plus].
  assert (W : Forall (fun p : nat * nat => fst p < S n) (map (fun i => (i, k)) (rev (filter f (seq 0 n))))).
  { eapply Forall_impl; [|exact IH2]. cbn. intros; lia. }
  destruct (f n); cbn [rev app map sdesc]; auto. Qed.

Lemma pq_hit c k i o : i < ncyc c -> In o (cycle_at c i) -> hit (pq_reqs c k) i o = touches k o.
Proof. intros Hi Ho. destruct (touches k o) eqn:T.
  - unfold hit. apply existsb_exists. exists (i, k). cbn [fst snd]. rewrite Nat.eqb_refl, T. split; auto.
    unfold pq_reqs. apply in_map_iff. exists i. split; [reflexivity|]. apply -> in_rev. apply filter_In. split; [apply in_seq; lia|].
    apply existsb_exists. eauto.
  - apply not_true_is_false. intros E. apply hit_true in E as (p & Hp & _ & Tp).
    unfold pq_reqs in Hp. apply in_map_iff in Hp as (j & <- & _). cbn in Tp. congruence. Qed.

Lemma tlc_filt_pq c k q :
  tlc (filt (pq_reqs c k) 0 (cycles c)) q = filter (fun o => negb (touches k o)) (tl c q).
Proof. unfold tl.
  assert (G : forall cs j, (forall i, i < length cs -> nth i cs [] = cycle_at c (j + i)) -> j + length cs <= ncyc c ->
              tlc (filt (pq_reqs c k) j cs) q = filter (fun o => negb (touches k o)) (tlc cs q)).
  { induction cs as [|cy cs IH]; intros j Hn Hl; [reflexivity|]. cbn [filt]. rewrite !tlc_cons, filter_app.
    cbn [length] in Hl. rewrite (IH (S j)); [|intros i Hi; pose proof (Hn (S i) ltac:(cbn; lia)) as Hs; cbn [nth] in Hs; rewrite Hs; f_equal; lia|lia].
    f_equal. pose proof (Hn 0 ltac:(cbn; lia)) as H0. cbn in H0. rewrite Nat.add_0_r in H0.
    rewrite !filter_filter. apply filter_ext_in'. intros o Ho. rewrite pq_hit; [apply andb_comm|lia|rewrite <- H0; exact Ho]. }
  apply G; [intros; reflexivity|apply Nat.le_refl]. Qed.

Lemma shift_down_inj k a b : a <> k -> b <> k -> shift_down k a = shift_down k b -> a = b.
Proof. unfold shift_down. destruct (Nat.ltb_spec a k), (Nat.ltb_spec b k); lia. Qed.

Lemma tlc_no_touch cs k : (forall q, tlc cs q = filter (fun o => negb (touches k o)) (tlc cs q)) ->
  all_qudits (fun a => a <> k) cs.
Proof. intros H cy o a Hcy Ho Ha E. subst a.
  assert (In o (tlc cs k)).
  { unfold tlc. apply in_flat_map. exists cy. split; auto. apply filter_In. split; auto. apply memn_In. exact Ha. }
  rewrite H in H0. apply filter_In in H0 as [_ H0]. apply negb_true_iff in H0.
  unfold touches in H0. apply memn_In in Ha. congruence. Qed.

(* pop_qudit k: the operations touching k disappear; every other qudit q becomes
   shift_down k q and keeps its remaining timeline, relabelled *)
Theorem pop_qudit_tl c qi q :
  Inv c -> in_rangeZ qi (nq c) = true -> nq c <> 1 ->
  let k := normZ qi (nq c) in
  q <> k ->
  let r := pop_qudit c qi in
  snd r = OkU /\ nq (fst r) = nq c - 1 /\ rads (fst r) = remove_at k (rads c) /\
  tl (fst r) (shift_down k q) = map (relab (shift_down k)) (filter (fun o => negb (touches k o)) (tl c q)).
Proof. intros HI Hr Hn k Hq r. unfold r, pop_qudit. rewrite Hr. cbn [negb].
  destruct (Nat.eqb_spec (nq c) 1); [lia|]. fold k. rewrite pop_qudit_removes. cbn [fst snd nq rads].
  repeat split; auto. unfold tl at 1. cbn [cycles].
  destruct (sdesc_filter_seq (fun i => existsb (touches k) (cycle_at c i)) k (ncyc c)) as [Hs Hb]. fold (pq_reqs c k) in Hs, Hb.
  assert (Htl : forall q', tl (removes (pq_reqs c k) c) q' = filter (fun o => negb (touches k o)) (tl c q')).
  { intros q'. rewrite removes_tl; [apply tlc_filt_pq|apply sdesc_desc; exact Hs| |apply sdesc_distinct; exact Hs].
    unfold named, pq_reqs. apply Forall_forall. intros p Hp. apply in_map_iff in Hp as (i & <- & Hi). cbn [fst snd].
    apply in_rev in Hi. apply filter_In in Hi as [_ Hi]. apply existsb_exists in Hi. exact Hi. }
  rewrite tlc_map_locs.
  - fold (tl (removes (pq_reqs c k) c) q). rewrite Htl. reflexivity.
  - assert (Hk : all_qudits (fun a => a <> k) (cycles (removes (pq_reqs c k) c))).
    { apply tlc_no_touch. intros q'. fold (tl (removes (pq_reqs c k) c) q'). rewrite Htl.
      rewrite filter_filter. apply filter_ext. intros o. destruct (touches k o); reflexivity. }
    intros cy o a Hcy Ho Ha E. apply (shift_down_inj k); auto. apply (Hk cy o a); auto. Qed.

(* ---- renumber_qudits ------------------------------------------------------------------------------------ *)
Lemma nodupn_NoDup l : nodupn l = true -> NoDup l.
Proof. induction l as [|x l IH]; cbn; intros H; constructor.
  - apply andb_true_iff in H as [H _]. apply negb_true_iff in H. intros I. apply memn_In in I. congruence.
  - apply IH. apply andb_true_iff in H as [_ H]. exact H. Qed.

Lemma index_of_nth l q : NoDup l -> q < length l -> index_of (nth q l 0) l = q.
Proof. revert q. induction l as [|x l IH]; intros q Hn Hq; cbn in Hq; [lia|].
  inversion Hn as [|? ? Hx Hl]; subst. destruct q as [|q]; cbn.
  - rewrite Nat.eqb_refl. reflexivity.
  - destruct (Nat.eqb_spec (nth q l 0) x) as [E|E].
    + exfalso. apply Hx. rewrite <- E. apply nth_In. lia.
    + rewrite IH; auto. lia. Qed.

Lemma nth_map_seq {A} (f : nat -> A) n i d : i < n -> nth i (map f (seq 0 n)) d = f i.
Proof. intros H. rewrite (nth_indep _ d (f 0)) by (rewrite map_length, seq_length; exact H).
  rewrite map_nth. rewrite seq_nth by exact H. reflexivity. Qed.

(* all operations sit on qudits of the circuit *)
Definition in_range (c : circuit) : Prop := all_qudits (fun a => a < nq c) (cycles c).

(* a valid permutation: qudit q becomes perm[q]; timelines are relabelled, radixes move along *)
Theorem renumber_tl c perm q :
  length perm = nq c -> nodupn perm = true -> forallb (fun a => Nat.ltb a (nq c)) perm = true ->
  in_range c -> q < nq c ->
  let r := renumber_qudits c perm in
  snd r = OkU /\ nq (fst r) = nq c /\
  tl (fst r) (nth q perm 0) = map (relab (fun a => nth a perm 0)) (tl c q) /\
  nth (nth q perm 0) (rads (fst r)) 0 = nth q (rads c) 0.
Proof. intros Hl Hd Hb Hr Hq r. unfold r, renumber_qudits. rewrite Hl, Nat.eqb_refl, Hd, Hb. cbn [negb fst snd nq rads].
  pose proof (nodupn_NoDup _ Hd) as ND.
  repeat split; auto.
  - unfold tl. cbn [cycles]. apply (tlc_map_locs (fun a => nth a perm 0)).
    intros cy o a Hcy Ho Ha E. apply (proj1 (NoDup_nth perm 0) ND); auto; rewrite Hl; auto. apply (Hr cy o a); auto.
  - assert (Hp : nth q perm 0 < nq c).
    { rewrite forallb_forall in Hb. apply Nat.ltb_lt. apply Hb. apply nth_In. lia. }
    rewrite nth_map_seq by exact Hp. rewrite index_of_nth; auto. lia. Qed.

(* ---- concatenation: extend, append_circuit, +=, * ; clear --------------------------------------------------- *)
(* the operations appended before the first rejected one *)
Fixpoint valid_prefix (c : circuit) (ops : list op) : list op :=
  match ops with [] => [] | o :: t => if valid_op c o then o :: valid_prefix c t else [] end.

Lemma append_nq c o : nq (fst (append c o)) = nq c /\ rads (fst (append c o)) = rads c.
Proof. unfold append. destruct (valid_op c o); cbn [negb]; [|auto].
  pose proof (append_raw_nq c o). destruct (append_raw c o). exact H. Qed.

Lemma append_tl c o q : tl (fst (append c o)) q = tl c q ++ (if valid_op c o then one q o else []).
Proof. unfold append. destruct (valid_op c o); cbn [negb fst]; [|rewrite app_nil_r; reflexivity].
  pose proof (append_raw_tl c o q). destruct (append_raw c o). exact H. Qed.

Lemma append_err c o e : snd (append c o) = Err e -> valid_op c o = false.
Proof. unfold append. destruct (valid_op c o); cbn [negb]; auto. destruct (append_raw c o). discriminate. Qed.

Lemma append_ok c o : valid_op c o = true -> exists n, snd (append c o) = OkN n.
Proof. unfold append. intros ->. cbn [negb]. destruct (append_raw c o). eexists. reflexivity. Qed.

Lemma valid_prefix_ext c c' ops : nq c' = nq c -> rads c' = rads c -> valid_prefix c' ops = valid_prefix c ops.
Proof. intros Hn Hr. induction ops as [|o t IH]; cbn; auto. rewrite (valid_op_ext c c' o Hn Hr), IH. reflexivity. Qed.

Lemma filter_one q o : filter (touches q) [o] = one q o.
Proof. reflexivity. Qed.

(* extend (and every loop of appends): the operations up to the first invalid one are
   appended, in order; the outcome is an error exactly when one was rejected *)
Theorem extend_tl ops : forall c q,
  let r := seq_ops append c ops in
  tl (fst r) q = tl c q ++ filter (touches q) (valid_prefix c ops)
  /\ nq (fst r) = nq c /\ rads (fst r) = rads c
  /\ (valid_prefix c ops = ops -> snd r = OkU)
  /\ (valid_prefix c ops <> ops -> snd r = Err ValueError).
Proof. induction ops as [|o t IH]; intros c q; cbn [seq_ops valid_prefix filter].
  - cbn. rewrite app_nil_r. repeat split; auto. congruence.
  - assert (Ea : append c o = (if negb (valid_op c o) then (c, Err ValueError)
                               else let '(c', i) := append_raw c o in (c', OkN (Z.of_nat i)))) by reflexivity.
    rewrite Ea. clear Ea. destruct (valid_op c o) eqn:V; cbn [negb].
    + pose proof (append_raw_tl c o q) as Ht. destruct (append_raw_nq c o) as [Hn Hr].
      destruct (append_raw c o) as [c' n]. cbn [fst snd] in *. cbv beta iota zeta.
      destruct (IH c' q) as (T & N & R & O & O'). rewrite (valid_prefix_ext c c' t Hn Hr) in *.
      rewrite T, Ht, N, R. cbn [filter]. unfold one.
      repeat split; auto.
      * destruct (touches q o); rewrite <- ?app_assoc; reflexivity.
      * intros Hp. apply O. congruence.
      * intros Hp. apply O'. congruence.
    + cbn [fst snd filter]. rewrite app_nil_r. repeat split; auto. discriminate. Qed.

Lemma all_valid_prefix c ops : (forall o, In o ops -> valid_op c o = true) -> valid_prefix c ops = ops.
Proof. induction ops as [|o t IH]; intros H; cbn; auto. rewrite H by (left; reflexivity).
  rewrite IH by (intros; apply H; right; assumption). reflexivity. Qed.

(* append_circuit, operation by operation: the sub-circuit's operations in its iteration order,
   relabelled through `location` *)
Theorem append_circuit_tl c sub location q :
  nq sub = length location ->
  let ops := map (map_loc location) (iter_ops (cycles sub)) in
  let r := append_circuit c sub location false in
  tl (fst r) q = tl c q ++ filter (touches q) (valid_prefix c ops)
  /\ nq (fst r) = nq c /\ rads (fst r) = rads c
  /\ (valid_prefix c ops = ops -> snd r = OkN (-1)).
Proof. intros Hn ops r. unfold r, append_circuit. rewrite Hn, Nat.eqb_refl. cbn [negb].
  destruct (extend_tl ops c q) as (T & N & R & O & _). fold ops.
  destruct (seq_ops append c ops) as [c' out]. cbn [fst snd] in *.
  destruct out; cbn [fst snd]; repeat split; auto; intros Hp; specialize (O Hp); congruence. Qed.

(* ... and as one block *)
Theorem append_circuit_gate_tl c sub location q :
  nq sub = length location ->
  let r := append_circuit c sub location true in
  tl (fst r) q = tl c q ++ (if valid_op c (block_of sub location) then one q (block_of sub location) else []).
Proof. intros Hn r. unfold r, append_circuit. rewrite Hn, Nat.eqb_refl. cbn [negb]. apply append_tl. Qed.

(* relabelling through the identity location changes nothing *)
Lemma map_loc_id n o : Forall (fun a => a < n) (o_loc o) -> map_loc (seq 0 n) o = o.
Proof. intros H. unfold map_loc. destruct o as [b g l p r s]. cbn [set_loc o_loc] in *. f_equal.
  apply map_id_in. intros a Ha. rewrite Forall_forall in H. specialize (H a Ha). apply seq_nth. exact H. Qed.

Lemma iter_ops_in cs o : In o (iter_ops cs) <-> exists cy, In cy cs /\ In o cy.
Proof. unfold iter_ops. rewrite in_flat_map. split; intros (cy & H1 & H2); exists cy; split; auto.
  - eapply Permutation_in; [apply sort_by_perm|exact H2].
  - eapply Permutation_in; [apply Permutation_sym; apply sort_by_perm|exact H2]. Qed.

(* a += b : b's timelines after a's (all of b's operations valid in a) *)
Theorem iadd_tl a b q :
  nq b = nq a -> Forall amo (cycles b) -> all_qudits (fun x => x < nq a) (cycles b) ->
  (forall o, In o (iter_ops (cycles b)) -> valid_op a o = true) ->
  let r := c_iadd a b in
  snd r = OkU /\ tl (fst r) q = tl a q ++ tl b q.
Proof. intros Hn A Hr Hv r. unfold r, c_iadd.
  assert (Hl : nq b = length (all_loc a)) by (unfold all_loc; rewrite seq_length; exact Hn).
  destruct (append_circuit_tl a b (all_loc a) q Hl) as (T & _ & _ & O).
  assert (Hid : map (map_loc (all_loc a)) (iter_ops (cycles b)) = iter_ops (cycles b)).
  { apply map_id_in. intros o Ho. apply map_loc_id. apply Forall_forall. intros x Hx.
    apply iter_ops_in in Ho as (cy & H1 & H2). apply (Hr cy o x); auto. }
  rewrite Hid in *. rewrite (all_valid_prefix a _ Hv) in *. specialize (O eq_refl).
  destruct (append_circuit a b (all_loc a) false) as [c' out]. cbn [fst snd] in *. subst out. cbv iota beta. cbn [fst snd]. split; auto.
  rewrite T. f_equal. apply proj_iter. exact A. Qed.

Theorem clear_tl c q : tl (clear c) q = [] /\ nq (clear c) = nq c /\ rads (clear c) = rads c.
Proof. cbn. auto. Qed.

(* a * n : n copies of a's timeline *)
Fixpoint repeat_app {A} (n : nat) (l : list A) : list A := match n with 0 => [] | S k => l ++ repeat_app k l end.

Theorem mul_tl a n q :
  Forall amo (cycles a) -> in_range a ->
  (forall o, In o (iter_ops (cycles a)) -> valid_op a o = true) ->
  tl (c_mul a n) q = repeat_app n (tl a q).
Proof. intros A Hr Hv. unfold c_mul.
  assert (G : forall n s, nq s = nq a -> rads s = rads a -> tl (rep_append n s a) q = tl s q ++ repeat_app n (tl a q)).
  { clear n. induction n as [|n IH]; intros s Hn Hrd; cbn [rep_append repeat_app]; [rewrite app_nil_r; reflexivity|].
    assert (Hl : nq a = length (all_loc a)) by (unfold all_loc; rewrite seq_length; reflexivity).
    destruct (append_circuit_tl s a (all_loc a) q Hl) as (T & N & R & _).
    assert (Hid : map (map_loc (all_loc a)) (iter_ops (cycles a)) = iter_ops (cycles a)).
    { apply map_id_in. intros o Ho. apply map_loc_id. apply Forall_forall. intros x Hx.
      apply iter_ops_in in Ho as (cy & H1 & H2). apply (Hr cy o x); auto. }
    rewrite Hid in T. rewrite (valid_prefix_ext a s _ Hn Hrd), (all_valid_prefix a _ Hv) in T.
    rewrite IH by congruence. rewrite T, (proj_iter _ q A), <- app_assoc. reflexivity. }
  rewrite G by reflexivity. reflexivity. Qed.

(* ---- replace_with_circuit / unfold ---------------------------------------------------------------------------- *)
Lemma map_loc_relab location o : map_loc location o = relab (fun a => nth a location 0) o.
Proof. reflexivity. Qed.

Lemma filter_relab f L q :
  (forall o a, In o L -> In a (o_loc o) -> f a = f q -> a = q) ->
  filter (touches (f q)) (map (relab f) L) = map (relab f) (filter (touches q) L).
Proof. intros H. rewrite filter_map_comm. f_equal. apply filter_ext_in'. intros o Ho.
  apply touches_relab. intros a Ha. apply (H o a); auto. Qed.

Lemma filter_relab_fresh f L q' :
  (forall o a, In o L -> In a (o_loc o) -> f a <> q') -> filter (touches q') (map (relab f) L) = [].
Proof. intros H. rewrite filter_map_comm.
  assert (G : forall l, (forall o, In o l -> touches q' (relab f o) = false) -> filter (fun x => touches q' (relab f x)) l = []).
  { induction l as [|x l IHl]; intros Hl; cbn; auto. rewrite Hl by (left; reflexivity). apply IHl. intros; apply Hl; right; assumption. }
  rewrite G; [reflexivity|]. intros o Ho. unfold touches, relab. rewrite o_loc_set_loc. apply not_true_is_false. intros E.
  apply memn_In in E. apply in_map_iff in E as (a & Ea & Ha). apply (H o a); auto. Qed.

Lemma riter_ops_in cs o : In o (riter_ops cs) <-> exists cy, In cy cs /\ In o cy.
Proof. unfold riter_ops. rewrite in_flat_map. split.
  - intros (cy & H1 & H2). exists cy. split; [apply in_rev; exact H1|].
    unfold rev_cycle in H2. apply in_rev in H2. eapply Permutation_in; [apply sort_by_perm|exact H2].
  - intros (cy & H1 & H2). exists cy. split; [apply -> in_rev; exact H1|].
    unfold rev_cycle. apply -> in_rev. eapply Permutation_in; [apply Permutation_sym; apply sort_by_perm|exact H2]. Qed.

(* relabelled through an injective location, the reversed reverse iteration and the forward
   iteration show every qudit the same thing: the inner circuit's own order *)
Lemma relabel_riter_iter location cs q :
  NoDup location -> Forall amo cs -> all_qudits (fun a => a < length location) cs ->
  filter (touches q) (rev (map (map_loc location) (riter_ops cs))) = filter (touches q) (map (map_loc location) (iter_ops cs)).
Proof. intros ND A Hr. set (f := fun a => nth a location 0).
  change (map_loc location) with (relab f). rewrite <- map_rev.
  destruct (in_dec Nat.eq_dec q location) as [Hq|Hq].
  - apply (In_nth _ _ 0) in Hq as (a0 & Ha0 & <-). change (nth a0 location 0) with (f a0).
    assert (Hinj : forall a, a < length location -> f a = f a0 -> a = a0)
      by (intros a Ha E; apply (proj1 (NoDup_nth location 0) ND); auto).
    rewrite !filter_relab.
    + rewrite (rev_riter_timeline cs a0 A), (proj_iter cs a0 A). reflexivity.
    + intros o a Ho Ha. apply Hinj. apply iter_ops_in in Ho as (cy & H1 & H2). apply (Hr cy o a); auto.
    + intros o a Ho Ha. apply Hinj. apply in_rev in Ho. apply riter_ops_in in Ho as (cy & H1 & H2). apply (Hr cy o a); auto.
  - rewrite !filter_relab_fresh; auto.
    + intros o a Ho Ha E. apply Hq. rewrite <- E. apply nth_In. apply iter_ops_in in Ho as (cy & H1 & H2). apply (Hr cy o a); auto.
    + intros o a Ho Ha E. apply Hq. rewrite <- E. apply nth_In. apply in_rev in Ho. apply riter_ops_in in Ho as (cy & H1 & H2). apply (Hr cy o a); auto. Qed.

Fixpoint nat_list_eqb (x y : list nat) : bool :=
  match x, y with [], [] => true | u :: x', v :: y' => Nat.eqb u v && nat_list_eqb x' y' | _, _ => false end.

Lemma remove_op_parts c i q0 q :
  i < ncyc c ->
  let c1 := remove_op c i q0 in
  firstn i (cycles c1) = firstn i (cycles c) /\ i <= ncyc c1 /\
  tlc (skipn i (cycles c1)) q = filter (touches q) (filter (fun x => negb (touches q0 x)) (cycle_at c i)) ++ tlc (skipn (S i) (cycles c)) q.
Proof. intros Hi c1. pose proof (remove_op_cycles c i q0 Hi) as Hcs. fold c1 in Hcs.
  assert (HA : length (firstn i (cycles c)) = i) by (apply firstn_len; unfold ncyc in Hi; lia).
  unfold ncyc. rewrite Hcs. rewrite firstn_app_l, skipn_app_l by exact HA. rewrite app_length, HA.
  repeat split; [lia|]. destruct (filter _ (cycle_at c i)) as [|x r]; cbn [app]; [reflexivity|]. rewrite tlc_cons. reflexivity. Qed.

Theorem replace_with_circuit_tl c ci qi sub old q' :
  let i := normZ ci (ncyc c) in let q := normZ qi (nq c) in
  point_in_range c ci qi = true -> get_cell c i q = Some old ->
  nq sub = length (o_loc old) ->
  nat_list_eqb (rads sub) (map (fun a => nth a (rads c) 0) (o_loc old)) = true ->
  NoDup (o_loc old) -> Forall amo (cycles sub) -> all_qudits (fun a => a < nq sub) (cycles sub) ->
  (forall o, In o (iter_ops (cycles sub)) -> valid_op c (map_loc (o_loc old) o) = true) ->
  let r := replace_with_circuit c (ci, qi) sub false in
  snd r = OkU /\
  tl (fst r) q' = tlc (firstn i (cycles c)) q'
                  ++ filter (touches q') (map (map_loc (o_loc old)) (iter_ops (cycles sub)))
                  ++ filter (touches q') (filter (fun x => negb (touches q x)) (cycle_at c i))
                  ++ tlc (skipn (S i) (cycles c)) q'.
Proof. intros i q Hp Hc Hn Hrd ND A Hr Hv r. unfold r, replace_with_circuit, pop.
  rewrite Hp. cbn [negb fst]. fold i q. rewrite Hc. rewrite Hn, Nat.eqb_refl. cbn [negb].
  unfold nat_list_eqb in Hrd. rewrite Hrd. cbn [negb].
  destruct (pir_lt _ _ _ Hp) as [Hi _]. fold i in Hi.
  destruct (remove_op_parts c i q q' Hi) as (F & Hle & S). destruct (remove_op_nq c i q) as [N R].
  set (c1 := remove_op c i q) in *.
  assert (Hv1 : forall o c', In o (iter_ops (cycles sub)) -> nq c' = nq c -> rads c' = rads c -> valid_op c' (map_loc (o_loc old) o) = true).
  { intros o c' Ho E1 E2. rewrite (valid_op_ext c c' _ E1 E2). apply Hv. exact Ho. }
  unfold insert_circuit. rewrite Hn, Nat.eqb_refl. cbn [negb].
  destruct (Z.leb_spec (Z.of_nat (ncyc c1)) (Z.of_nat i)) as [L|L].
  - (* the popped operation was alone in the last cycle: append *)
    assert (Ei : ncyc c1 = i) by lia.
    destruct (append_circuit_tl c1 sub (o_loc old) q' Hn) as (T & _ & _ & O).
    rewrite (all_valid_prefix c1) in *
      by (intros o Ho; apply in_map_iff in Ho as (o' & <- & Ho'); apply Hv1; auto).
    specialize (O eq_refl).
    destruct (append_circuit c1 sub (o_loc old) false) as [c2 out]. cbn [fst snd] in *. subst out. cbv iota beta. cbn [fst snd].
    split; [reflexivity|]. rewrite T. unfold tl. rewrite (firstn_skipn_tlc (cycles c1) i q'), F, S.
    rewrite <- !app_assoc.
    assert (Hz : tlc (skipn i (cycles c1)) q' = []).
    { rewrite skipn_all2; [reflexivity|]. unfold ncyc in Ei. lia. }
    rewrite S in Hz. apply app_eq_nil in Hz as [Z1 Z2]. rewrite Z1, Z2. cbn [app]. rewrite !app_nil_r. reflexivity.
  - assert (Hi1 : i < ncyc c1) by lia.
    assert (Hlt : Z.ltb (Z.of_nat i) (- Z.of_nat (ncyc c1)) = false) by (apply Z.ltb_ge; lia).
    rewrite Hlt, normZ_nat.
    destruct (inserts_at_index (map (map_loc (o_loc old)) (riter_ops (cycles sub))) c1 i q') as (O & F2 & S2); [|exact Hi1|].
    { intros o c' Ho E1 E2. apply in_map_iff in Ho as (o' & <- & Ho'). apply Hv1; try congruence.
      apply riter_ops_in in Ho'. apply iter_ops_in. exact Ho'. }
    split; [exact O|]. unfold tl. rewrite (firstn_skipn_tlc _ i q'), F2, S2, F, S.
    rewrite relabel_riter_iter; auto. rewrite <- Hn. exact Hr. Qed.

(* set_params_cycles keeps the inner circuit's structure: cycle by cycle, in iteration order,
   the same operations with only their parameters replaced *)
Definition same_but_ps (a b : op) : Prop := exists p, a = set_ps b p.

Lemma spo_same l : forall ps, Forall2 same_but_ps (fst (set_params_ops l ps)) l.
Proof. induction l as [|o t IH]; intros ps; cbn [set_params_ops]; [constructor|].
  specialize (IH (skipn (length (o_ps o)) ps)). destruct (set_params_ops t _) as [t' rest]. cbn [fst] in *.
  constructor; [eexists; reflexivity|exact IH]. Qed.

Lemma fwd_cycle_length cy : length (fwd_cycle cy) = length cy.
Proof. unfold fwd_cycle. apply Permutation_length. apply sort_by_perm. Qed.

Lemma Forall2_len {A B} (R : A -> B -> Prop) l l' : Forall2 R l l' -> length l = length l'.
Proof. induction 1; cbn; auto. Qed.

Lemma spc_same cs ps : Forall2 (Forall2 same_but_ps) (set_params_cycles cs ps) (map fwd_cycle cs).
Proof. unfold set_params_cycles. pose proof (spo_same (iter_ops cs) ps) as H.
  set (flat := fst (set_params_ops (iter_ops cs) ps)) in *. clearbody flat. unfold iter_ops in H.
  revert flat H. induction cs as [|cy t IH]; intros flat H; cbn [map flat_map] in *; [constructor|].
  apply Forall2_app_inv_r in H as (l1 & l2 & H1 & H2 & ->).
  assert (Hl : length l1 = length cy) by (rewrite (Forall2_len _ _ _ H1); apply fwd_cycle_length).
  rewrite <- Hl. rewrite firstn_app_l, skipn_app_l by reflexivity. constructor; auto. Qed.

Lemma same_touches a b q : same_but_ps a b -> touches q a = touches q b.
Proof. intros [p ->]. destruct b. reflexivity. Qed.

Lemma same_filter_length X Y q : Forall2 same_but_ps X Y -> length (filter (touches q) X) = length (filter (touches q) Y).
Proof. induction 1 as [|a b X Y H _ IH]; cbn; auto. rewrite (same_touches a b q H). destruct (touches q b); cbn; lia. Qed.

Lemma amo_fwd cy : amo cy -> amo (fwd_cycle cy).
Proof. intros A q. unfold fwd_cycle. rewrite filter_sorted by exact A. apply A. Qed.

Lemma spc_amo cs ps : Forall amo cs -> Forall amo (set_params_cycles cs ps).
Proof. intros A. pose proof (spc_same cs ps) as H. remember (set_params_cycles cs ps) as X. clear HeqX.
  revert X H. induction A as [|cy t Hcy _ IH]; intros X H; cbn [map] in H; inversion H as [|x y X' Y' Hxy Hr]; subst; constructor.
  - intros q. rewrite (same_filter_length _ _ q Hxy). apply amo_fwd. exact Hcy.
  - apply IH. exact Hr. Qed.

Lemma same_loc a b : same_but_ps a b -> o_loc a = o_loc b.
Proof. intros [p ->]. destruct b. reflexivity. Qed.

Lemma spc_qudits P cs ps : all_qudits P cs -> all_qudits P (set_params_cycles cs ps).
Proof. intros H. pose proof (spc_same cs ps) as F. remember (set_params_cycles cs ps) as X. clear HeqX.
  intros cy o a Hcy Ho Ha.
  revert cs H F. induction X as [|x X IH]; intros cs H F; [destruct Hcy|].
  destruct cs as [|cy0 cs]; cbn [map] in F; inversion F as [|? ? ? ? Hxy Hr]; subst.
  destruct Hcy as [->|Hcy].
  - clear IH Hr F. assert (G : exists o', In o' (fwd_cycle cy0) /\ o_loc o = o_loc o').
    { revert Ho. induction Hxy as [|u v U V Huv _ IHu]; intros Ho; [destruct Ho|]. destruct Ho as [->|Ho].
      - exists v. split; [left; reflexivity|apply same_loc; exact Huv].
      - destruct (IHu Ho) as (o' & I1 & I2). exists o'. split; [right; exact I1|exact I2]. }
    destruct G as (o' & I1 & I2). rewrite I2 in Ha. apply (H cy0 o' a); [left; reflexivity| |exact Ha].
    unfold fwd_cycle in I1. eapply Permutation_in; [apply sort_by_perm|exact I1].
  - apply (IH Hcy cs); auto. intros cy' o' a' H1. apply H. right. exact H1. Qed.

Lemma unfold_is_replace c ci qi blk :
  point_in_range c ci qi = true -> get_cell c (normZ ci (ncyc c)) (normZ qi (nq c)) = Some blk -> o_isblk blk = true ->
  unfold c (ci, qi) = replace_with_circuit c (ci, qi)
                        (mkC (length (o_rad blk)) (o_rad blk) (set_params_cycles (o_sub blk) (o_ps blk))) false.
Proof. intros Hp Hc Hb. unfold unfold. rewrite Hp. cbn [negb]. rewrite Hc, Hb. reflexivity. Qed.

(* unfold: the block's place is taken by its inner operations, with the block's parameter
   vector distributed over them (set_params_cycles), relabelled through the block's location,
   in the inner circuit's order *)
Theorem unfold_tl c ci qi blk q' :
  let i := normZ ci (ncyc c) in let q := normZ qi (nq c) in
  point_in_range c ci qi = true -> get_cell c i q = Some blk -> o_isblk blk = true ->
  length (o_rad blk) = length (o_loc blk) ->
  nat_list_eqb (o_rad blk) (map (fun a => nth a (rads c) 0) (o_loc blk)) = true ->
  NoDup (o_loc blk) -> Forall amo (o_sub blk) -> all_qudits (fun a => a < length (o_rad blk)) (o_sub blk) ->
  let inner := iter_ops (set_params_cycles (o_sub blk) (o_ps blk)) in
  (forall o, In o inner -> valid_op c (map_loc (o_loc blk) o) = true) ->
  let r := unfold c (ci, qi) in
  snd r = OkU /\
  tl (fst r) q' = tlc (firstn i (cycles c)) q'
                  ++ filter (touches q') (map (map_loc (o_loc blk)) inner)
                  ++ filter (touches q') (filter (fun x => negb (touches q x)) (cycle_at c i))
                  ++ tlc (skipn (S i) (cycles c)) q'.
Proof. intros i q Hp Hc Hb Hl Hrd ND A Hr inner Hv r. unfold r. rewrite (unfold_is_replace c ci qi blk Hp Hc Hb).
  set (sub := mkC (length (o_rad blk)) (o_rad blk) (set_params_cycles (o_sub blk) (o_ps blk))).
  pose proof (replace_with_circuit_tl c ci qi sub blk q') as H. cbv zeta in H. apply H; auto; cbn [sub nq rads cycles].
  - apply spc_amo. exact A.
  - apply spc_qudits. exact Hr. Qed.

(* ---- the invariant is preserved by every modelled editor ------------------------------------------------------- *)
Lemma seq_ops_inv {A} (f : circuit -> A -> res) l :
  (forall c x, Inv c -> Inv (fst (f c x))) -> forall c, Inv c -> Inv (fst (seq_ops f c l)).
Proof. intros Hf. induction l as [|x t IH]; intros c H; cbn [seq_ops fst]; auto.
  specialize (Hf c x H). destruct (f c x) as [c' [| | | |e]]; cbn [fst] in *; auto. Qed.

Theorem append_inv c o : Inv c -> Inv (fst (append c o)).
Proof. intros H. unfold append. destruct (valid_op c o); cbn [negb fst]; auto.
  pose proof (append_raw_inv c o H). destruct (append_raw c o). exact H0. Qed.

Theorem extend_inv c ops : Inv c -> Inv (fst (extend c ops)).
Proof. apply seq_ops_inv. intros; apply append_inv; assumption. Qed.

Theorem append_circuit_inv c sub loc g : Inv c -> Inv (fst (append_circuit c sub loc g)).
Proof. intros H. unfold append_circuit. destruct (negb _); cbn [fst]; auto. destruct g; [apply append_inv; exact H|].
  pose proof (seq_ops_inv append (map (map_loc loc) (iter_ops (cycles sub))) (fun c x Hc => append_inv c x Hc) c H) as H1.
  destruct (seq_ops append c _) as [c' [| | | |e]]; exact H1. Qed.

Theorem insert_circuit_inv c ci sub loc g : Inv c -> Inv (fst (insert_circuit c ci sub loc g)).
Proof. intros H. unfold insert_circuit. destruct (negb _); cbn [fst]; auto. destruct g; [apply insert_inv; exact H|].
  destruct (Z.leb _ _).
  - pose proof (append_circuit_inv c sub loc false H) as H1. destruct (append_circuit c sub loc false) as [c' [| | | |e]]; exact H1.
  - apply seq_ops_inv; auto. intros; apply insert_inv; assumption. Qed.

Lemma fold_left_inv {A} (f : circuit -> A -> circuit) l :
  (forall c x, Inv c -> Inv (f c x)) -> forall c, Inv c -> Inv (fold_left f l c).
Proof. intros Hf. induction l as [|x t IH]; intros c H; cbn; auto. Qed.

Theorem batch_pop_inv c pts : Inv c -> Inv (fst (batch_pop c pts)).
Proof. intros H. unfold batch_pop. destruct (negb _); cbn [fst]; auto.
  destruct (dedup_pts _); cbn [fst]; auto.
  apply fold_left_inv; auto. intros; apply remove_op_inv; assumption. Qed.

Lemma batch_replace_loop_inv l : forall c cur shift, Inv c -> Inv (fst (batch_replace_loop c cur shift l)).
Proof. induction l as [|[[i q] o] t IH]; intros c cur shift H; cbn [batch_replace_loop fst]; auto.
  pose proof (replace_inv c (Z.of_nat (i + (if Nat.eqb i cur then shift else 0)), Z.of_nat q) o H) as H1.
  destruct (replace c _ o) as [c' [| | | |e]]; cbn [fst] in *; auto. Qed.

Theorem batch_replace_inv c pts ops : Inv c -> Inv (fst (batch_replace c pts ops)).
Proof. intros H. unfold batch_replace. destruct (negb _); cbn [fst]; auto. destruct (negb _); cbn [fst]; auto.
  apply batch_replace_loop_inv. exact H. Qed.

Theorem replace_with_circuit_inv c pt sub g : Inv c -> Inv (fst (replace_with_circuit c pt sub g)).
Proof. intros H. unfold replace_with_circuit. pose proof (pop_inv c (Some pt) H) as H1.
  destruct (pop c (Some pt)) as [c' [| |old| |e]]; cbn [fst] in *; auto.
  destruct (negb _); cbn [fst]; auto. destruct (negb _); cbn [fst]; auto. apply insert_circuit_inv. exact H1. Qed.

Theorem unfold_inv c pt : Inv c -> Inv (fst (unfold c pt)).
Proof. intros H. destruct pt as [ci qi]. unfold unfold. destruct (negb _); cbn [fst]; auto.
  destruct (get_cell _ _ _); cbn [fst]; auto. destruct (negb _); cbn [fst]; auto. apply replace_with_circuit_inv. exact H. Qed.

Lemma appends_inv ops : forall s, Inv s -> Inv (fold_left (fun s o => fst (append_raw s o)) ops s).
Proof. apply fold_left_inv. intros; apply append_raw_inv; assumption. Qed.

Theorem unfold_once_inv c : Inv (unfold_once c).
Proof. unfold unfold_once. apply fold_left_inv; [|constructor]. intros s o Hs.
  destruct (o_isblk o); [|apply append_raw_inv; exact Hs].
  apply (fold_left_inv (fun s o' => fst (append_raw s (map_loc (o_loc o) o')))); auto.
  intros; apply append_raw_inv; assumption. Qed.

Theorem unfold_all_inv fuel : forall c c', Inv c -> unfold_all_fuel fuel c = Some c' -> Inv c'.
Proof. induction fuel as [|f IH]; intros c c' H; cbn [unfold_all_fuel]; destruct (has_block c); try discriminate.
  - intros E; inversion E; subst; exact H.
  - apply IH. apply unfold_once_inv.
  - intros E; inversion E; subst; exact H. Qed.

Theorem append_qudit_inv c r : Inv c -> Inv (fst (append_qudit c r)).
Proof. intros H. unfold append_qudit. destruct (Nat.ltb r 2); exact H. Qed.

(* relabelling with a function that is injective on the qudits of a cycle keeps `amo` *)
Lemma amo_relab f cy :
  (forall o a o' a', In o cy -> In a (o_loc o) -> In o' cy -> In a' (o_loc o') -> f a = f a' -> a = a') ->
  amo cy -> amo (map (relab f) cy).
Proof. intros Hf A q'.
  destruct (filter (touches q') (map (relab f) cy)) as [|x r] eqn:E; [cbn; lia|].
  assert (Hx : In x (filter (touches q') (map (relab f) cy))) by (rewrite E; left; reflexivity).
  apply filter_In in Hx as [Hx Tx]. apply in_map_iff in Hx as (o & <- & Ho).
  unfold touches, relab in Tx. rewrite o_loc_set_loc in Tx. apply memn_In in Tx. apply in_map_iff in Tx as (a & <- & Ha).
  rewrite <- E. rewrite filter_relab.
  - rewrite map_length. apply A.
  - intros o' a' Ho' Ha' E'. apply (Hf o' a' o a); auto. Qed.

Lemma Inv_map_locs f c n rs :
  (forall cy, In cy (cycles c) -> forall o a o' a', In o cy -> In a (o_loc o) -> In o' cy -> In a' (o_loc o') -> f a = f a' -> a = a') ->
  Inv c -> Inv (mkC n rs (map_locs f (cycles c))).
Proof. intros Hf H. unfold Inv in *. cbn [cycles]. rewrite map_locs_eq. rewrite Forall_forall in *.
  intros cy' Hcy'. apply in_map_iff in Hcy' as (cy & <- & Hcy). destruct (H cy Hcy) as [Hne A]. split.
  - intros E. apply map_eq_nil in E. exact (Hne E).
  - apply amo_relab; auto. apply Hf. exact Hcy. Qed.

Theorem insert_qudit_inv c qi r : Inv c -> Inv (fst (insert_qudit c qi r)).
Proof. intros H. unfold insert_qudit. destruct (Nat.ltb r 2) eqn:E; [exact H|].
  destruct (Z.leb _ _); [unfold append_qudit; rewrite E; exact H|]. cbn [fst].
  apply Inv_map_locs; auto. intros cy _ o a o' a' _ _ _ _. apply shift_up_inj. Qed.

Theorem pop_qudit_inv c qi : Inv c -> Inv (fst (pop_qudit c qi)).
Proof. intros H. unfold pop_qudit. destruct (in_rangeZ qi (nq c)) eqn:Hr; cbn [negb fst]; auto.
  destruct (Nat.eqb_spec (nq c) 1); cbn [fst]; auto.
  set (k := normZ qi (nq c)). rewrite pop_qudit_removes.
  destruct (sdesc_filter_seq (fun i => existsb (touches k) (cycle_at c i)) k (ncyc c)) as [Hs Hb]. fold (pq_reqs c k) in Hs, Hb.
  assert (Htl : forall q', tl (removes (pq_reqs c k) c) q' = filter (fun o => negb (touches k o)) (tl c q')).
  { intros q'. rewrite removes_tl; [apply tlc_filt_pq|apply sdesc_desc; exact Hs| |apply sdesc_distinct; exact Hs].
    unfold named, pq_reqs. apply Forall_forall. intros p Hp. apply in_map_iff in Hp as (i & <- & Hi). cbn [fst snd].
    apply in_rev in Hi. apply filter_In in Hi as [_ Hi]. apply existsb_exists in Hi. exact Hi. }
  assert (Hk : all_qudits (fun a => a <> k) (cycles (removes (pq_reqs c k) c))).
  { apply tlc_no_touch. intros q'. fold (tl (removes (pq_reqs c k) c) q'). rewrite Htl.
    rewrite filter_filter. apply filter_ext. intros o. destruct (touches k o); reflexivity. }
  apply (Inv_map_locs (shift_down k) (removes (pq_reqs c k) c)); [|apply removes_inv; exact H].
  intros cy Hcy o a o' a' Ho Ha Ho' Ha'. apply shift_down_inj; [apply (Hk cy o a)|apply (Hk cy o' a')]; auto. Qed.

Theorem renumber_inv c perm : Inv c -> in_range c -> Inv (fst (renumber_qudits c perm)).
Proof. intros H Hr. unfold renumber_qudits. destruct (Nat.eqb_spec (length perm) (nq c)) as [Hl|]; cbn [negb fst]; auto.
  destruct (nodupn perm) eqn:Hd; cbn [negb fst]; auto. destruct (forallb _ perm); cbn [negb fst]; auto.
  apply Inv_map_locs; auto. intros cy Hcy o a o' a' Ho Ha Ho' Ha' E.
  apply (proj1 (NoDup_nth perm 0) (nodupn_NoDup _ Hd)); auto; rewrite Hl; [apply (Hr cy o a)|apply (Hr cy o' a')]; auto. Qed.

Theorem clear_inv c : Inv (clear c).
Proof. constructor. Qed.

Theorem iadd_inv a b : Inv a -> Inv (fst (c_iadd a b)).
Proof. intros H. unfold c_iadd. pose proof (append_circuit_inv a b (all_loc a) false H) as H1.
  destruct (append_circuit a b (all_loc a) false) as [s [| | | |e]]; exact H1. Qed.

Lemma rep_append_inv n : forall s a, Inv s -> Inv (rep_append n s a).
Proof. induction n as [|n IH]; intros s a H; cbn [rep_append]; auto. apply IH. apply append_circuit_inv. exact H. Qed.

Theorem imul_inv a n : Inv a -> Inv (c_imul a n).
Proof. intros H. apply rep_append_inv. exact H. Qed.

Theorem mul_inv a n : Inv (c_mul a n).
Proof. apply rep_append_inv. constructor. Qed.

Theorem add_self_unchanged a b : fst (c_add a b) = a.
Proof. unfold c_add. destruct (append_circuit _ a _ false) as [s [| | | |e]]; auto;
  destruct (append_circuit s b _ false) as [s' [| | | |e']]; auto. Qed.

(* ---- every history over the whole modelled alphabet ---------------------------------------------------------------- *)
Inductive callF :=
| FAppend (o : op) | FExtend (ops : list op) | FAppendCircuit (sub : circuit) (loc : list nat) (as_gate : bool)
| FInsert (ci : Z) (o : op) | FInsertCircuit (ci : Z) (sub : circuit) (loc : list nat) (as_gate : bool)
| FPop (pt : option (Z * Z)) | FBatchPop (pts : list (Z * Z))
| FReplace (pt : Z * Z) (o : op) | FBatchReplace (pts : list (Z * Z)) (ops : list op)
| FReplaceWithCircuit (pt : Z * Z) (sub : circuit) (as_gate : bool) | FUnfold (pt : Z * Z) | FUnfoldAll (fuel : nat)
| FCompress | FAppendQudit (r : nat) | FInsertQudit (qi : Z) (r : nat) | FPopQudit (qi : Z)
| FRenumber (perm : list nat) | FClear | FAdd (b : circuit) | FIadd (b : circuit) | FMul (n : nat) | FImul (n : nat).

Definition do_callF (c : circuit) (k : callF) : circuit :=
  match k with
  | FAppend o => fst (append c o)
  | FExtend ops => fst (extend c ops)
  | FAppendCircuit sub loc g => fst (append_circuit c sub loc g)
  | FInsert ci o => fst (insert c ci o)
  | FInsertCircuit ci sub loc g => fst (insert_circuit c ci sub loc g)
  | FPop pt => fst (pop c pt)
  | FBatchPop pts => fst (batch_pop c pts)
  | FReplace pt o => fst (replace c pt o)
  | FBatchReplace pts ops => fst (batch_replace c pts ops)
  | FReplaceWithCircuit pt sub g => fst (replace_with_circuit c pt sub g)
  | FUnfold pt => fst (unfold c pt)
  | FUnfoldAll fuel => match unfold_all_fuel fuel c with Some c' => c' | None => c end
  | FCompress => compress c
  | FAppendQudit r => fst (append_qudit c r)
  | FInsertQudit qi r => fst (insert_qudit c qi r)
  | FPopQudit qi => fst (pop_qudit c qi)
  | FRenumber perm => fst (renumber_qudits c perm)
  | FClear => clear c
  | FAdd b => fst (c_add c b)          (* self + b leaves self alone *)
  | FIadd b => fst (c_iadd c b)
  | FMul n => c                         (* self * n returns a new circuit *)
  | FImul n => c_imul c n
  end.

(* renumber_qudits needs every operation on qudits of the circuit (which check_valid_operation
   guarantees for every operation that entered through a checked call) *)
Fixpoint renumbers_in_range (ks : list callF) (c : circuit) : Prop :=
  match ks with
  | [] => True
  | k :: t => (match k with FRenumber _ => in_range c | _ => True end) /\ renumbers_in_range t (do_callF c k)
  end.

Theorem do_callF_inv c k : Inv c -> (match k with FRenumber _ => in_range c | _ => True end) -> Inv (do_callF c k).
Proof. intros H Hr. destruct k; cbn [do_callF].
  - apply append_inv; auto.
  - apply extend_inv; auto.
  - apply append_circuit_inv; auto.
  - apply insert_inv; auto.
  - apply insert_circuit_inv; auto.
  - apply pop_inv; auto.
  - apply batch_pop_inv; auto.
  - apply replace_inv; auto.
  - apply batch_replace_inv; auto.
  - apply replace_with_circuit_inv; auto.
  - apply unfold_inv; auto.
  - destruct (unfold_all_fuel fuel c) eqn:E; auto. eapply unfold_all_inv; eauto.
  - apply compress_inv.
  - apply append_qudit_inv; auto.
  - apply insert_qudit_inv; auto.
  - apply pop_qudit_inv; auto.
  - apply renumber_inv; auto.
  - apply clear_inv.
  - rewrite add_self_unchanged. exact H.
  - apply iadd_inv; auto.
  - exact H.
  - apply imul_inv; auto. Qed.

Theorem history_inv_full ks : forall c, Inv c -> renumbers_in_range ks c -> Inv (fold_left do_callF ks c).
Proof. induction ks as [|k t IH]; intros c H Hr; cbn [fold_left]; auto. destruct Hr as [H1 H2].
  apply IH; auto. apply do_callF_inv; auto. Qed.

(* ---- batch_pop --------------------------------------------------------------------------------------------- *)
Definition pt_eqb2 (p p' : nat * nat) : bool := Nat.eqb (fst p) (fst p') && Nat.eqb (snd p) (snd p').
Lemma pt_eqb2_spec p p' : pt_eqb2 p p' = true <-> p = p'.
Proof. unfold pt_eqb2. destruct p, p'. cbn. rewrite andb_true_iff, !Nat.eqb_eq. split; [intros [-> ->]; reflexivity|intros E; inversion E; auto]. Qed.

Lemma dedup_In l p : In p (dedup_pts l) <-> In p l.
Proof. unfold dedup_pts. induction l as [|x l IH]; cbn; [tauto|].
  destruct (existsb _ _) eqn:E.
  - rewrite IH. split; [auto|]. intros [<-|H]; auto.
    apply existsb_exists in E as (y & Hy & Ey). change (pt_eqb2 x y = true) in Ey. apply pt_eqb2_spec in Ey. subst y. apply IH. exact Hy.
  - cbn. rewrite IH. tauto. Qed.

Lemma dedup_NoDup l : NoDup (dedup_pts l).
Proof. unfold dedup_pts. induction l as [|x l IH]; cbn; [constructor|].
  destruct (existsb _ _) eqn:E; auto. constructor; auto. intros Hx.
  assert (existsb (fun p' => Nat.eqb (fst x) (fst p') && Nat.eqb (snd x) (snd p')) 
                  (fold_right (fun p acc => if existsb (fun p' => Nat.eqb (fst p) (fst p') && Nat.eqb (snd p) (snd p')) acc then acc else p :: acc) [] l) = true).
  { apply existsb_exists. exists x. split; auto. rewrite !Nat.eqb_refl. reflexivity. }
  congruence. Qed.

(* sorting by cycle *)
Lemma ins_pt_perm p l : Permutation (ins_pt p l) (p :: l).
Proof. induction l as [|y t IH]; cbn; auto. destruct (Nat.leb (fst p) (fst y)); auto.
  eapply perm_trans; [apply perm_skip; exact IH|apply perm_swap]. Qed.
Lemma sort_pt_perm l : Permutation (fold_right ins_pt [] l) l.
Proof. induction l as [|y t IH]; cbn; auto. eapply perm_trans; [apply ins_pt_perm|apply perm_skip; exact IH]. Qed.

Fixpoint asc {X} (l : list (nat * X)) : Prop :=
  match l with [] => True | p :: t => Forall (fun p' => fst p <= fst p') t /\ asc t end.

Lemma ins_pt_asc p l : asc l -> asc (ins_pt p l).
Proof. induction l as [|y t IH]; cbn; intros H; [split; auto|].
  destruct H as [H1 H2]. destruct (Nat.leb_spec (fst p) (fst y)).
  - cbn. split; [|split; auto]. constructor; auto. eapply Forall_impl; [|exact H1]. cbn. intros; lia.
  - cbn. split; [|apply IH; exact H2].
    apply Forall_forall. intros z Hz. eapply Permutation_in in Hz; [|apply ins_pt_perm]. destruct Hz as [<-|Hz]; [lia|].
    rewrite Forall_forall in H1. apply H1. exact Hz. Qed.
Lemma sort_pt_asc l : asc (fold_right ins_pt [] l).
Proof. induction l as [|y t IH]; cbn; auto. apply ins_pt_asc. exact IH. Qed.

Lemma asc_rev_desc (l : list (nat * op)) (g : nat * op -> nat * nat) :
  (forall p, fst (g p) = fst p) -> asc l -> desc (map g (rev l)).
Proof. intros Hg. induction l as [|p t IH]; intros H; cbn; auto. destruct H as [H1 H2].
  rewrite map_app. cbn.
  assert (G : forall a b, desc a -> Forall (fun p' => fst b <= fst p') a -> desc (a ++ [b])).
  { induction a as [|x a IHa]; intros b Ha Hb; cbn; auto. destruct Ha as [A1 A2]. inversion Hb; subst. split.
    - apply Forall_app. split; auto.
    - apply IHa; auto. }
  apply G; [apply IH; exact H2|]. apply Forall_forall. intros z Hz. apply in_map_iff in Hz as (y & <- & Hy).
  apply in_rev in Hy. rewrite !Hg. rewrite Forall_forall in H1. apply H1. exact Hy. Qed.

Definition req_of (p : nat * op) : nat * nat := (fst p, hd0 (o_loc (snd p))).

Lemma touches_hd o q : touches q o = true -> touches (hd0 (o_loc o)) o = true.
Proof. unfold touches, hd0. destruct (o_loc o) as [|a l]; cbn; [discriminate|]. rewrite Nat.eqb_refl. reflexivity. Qed.

Lemma filt_ext_in R R' : forall k cs,
  (forall j cy o, nth_error cs j = Some cy -> In o cy -> hit R (k + j) o = hit R' (k + j) o) -> filt R k cs = filt R' k cs.
Proof. intros k cs. revert k. induction cs as [|cy t IH]; intros k H; cbn; auto. f_equal.
  - apply filter_ext_in'. intros o Ho. specialize (H 0 cy o eq_refl Ho). rewrite Nat.add_0_r in H. rewrite H. reflexivity.
  - apply IH. intros j cy' o Hj Ho. specialize (H (S j) cy' o Hj Ho). rewrite <- Nat.add_succ_comm in H. exact H. Qed.

(* NoDup requests of the form (i, first qudit of an operation of cycle i) name distinct operations *)
Lemma nodup_distinct c R :
  Forall amo (cycles c) -> NoDup R ->
  Forall (fun p => exists o, In o (cycle_at c (fst p)) /\ touches (snd p) o = true /\ snd p = hd0 (o_loc o)) R ->
  distinct_reqs c R.
Proof. intros A. induction R as [|p R IH]; intros ND HN; cbn; auto.
  inversion ND as [|? ? Hp ND']; subst. inversion HN as [|? ? (o & Ho & To & Eo) HN']; subst. split; auto.
  intros p' Hp' E x Hx Tx. destruct (touches (snd p') x) eqn:T'; auto. exfalso. apply Hp.
  rewrite Forall_forall in HN'. destruct (HN' p' Hp') as (o' & Ho' & To' & Eo'). rewrite E in Ho'.
  assert (Ham : amo (cycle_at c (fst p))).
  { unfold cycle_at. destruct (Nat.lt_ge_cases (fst p) (length (cycles c))) as [L|L].
    - rewrite Forall_forall in A. apply A. apply nth_In. exact L.
    - rewrite nth_overflow by exact L. intros q. cbn. lia. }
  assert (x = o) by (apply (amo_unique (cycle_at c (fst p)) (snd p) x o Ham Hx Ho Tx To)).
  assert (x = o') by (apply (amo_unique (cycle_at c (fst p)) (snd p') x o' Ham Hx Ho' T' To')). subst.
  assert (p = p') by (destruct p, p'; cbn in *; congruence). subst. exact Hp'. Qed.

(* the circuit batch_pop returns: the popped operations (as listed by the model, cycle after
   cycle) on the used qudits, renumbered 0.. in increasing order *)
Definition bp_ops (c : circuit) (pts : list (Z * Z)) : list op :=
  let npts := map (fun p => (normZ (fst p) (ncyc c), normZ (snd p) (nq c))) pts in
  let ids := dedup_pts (flat_map (fun p => match get_cell c (fst p) (snd p) with
                                           | Some o => [(fst p, hd0 (o_loc o))] | None => [] end) npts) in
  let cops := fold_right ins_pt [] (flat_map (fun p => match get_cell c (fst p) (snd p) with
                                           | Some o => [(fst p, o)] | None => [] end) ids) in
  flat_map (fun i => fwd_cycle (map snd (filter (fun p => Nat.eqb (fst p) i) cops))) (seq 0 (ncyc c)).


Section BatchPop.
Variable c : circuit.
Hypothesis HI : Inv c.
Variable pts : list (Z * Z).
Let npts := map (fun p => (normZ (fst p) (ncyc c), normZ (snd p) (nq c))) pts.
Let look1 := fun p : nat * nat => match get_cell c (fst p) (snd p) with Some o => [(fst p, hd0 (o_loc o))] | None => [] end.
Let look2 := fun p : nat * nat => match get_cell c (fst p) (snd p) with Some o => [(fst p, o)] | None => [] end.
Let ids := dedup_pts (flat_map look1 npts).
Let cops := fold_right ins_pt [] (flat_map look2 ids).
Let R := map req_of (rev cops).

Lemma ids_spec id : In id ids <-> exists q o, In (fst id, q) npts /\ get_cell c (fst id) q = Some o /\ snd id = hd0 (o_loc o).
Proof. unfold ids. rewrite dedup_In, in_flat_map. split.
  - intros ([i q] & Hp & Hl). unfold look1 in Hl. cbn [fst snd] in Hl. destruct (get_cell c i q) as [o|] eqn:E; [|destruct Hl].
    destruct Hl as [<-|[]]. cbn [fst snd]. eauto.
  - intros (q & o & Hp & Hc & E). exists (fst id, q). split; auto. unfold look1. cbn [fst snd]. rewrite Hc. left. destruct id; cbn in *; congruence. Qed.

Lemma id_look2 id : In id ids -> exists o, look2 id = [(fst id, o)] /\ req_of (fst id, o) = id /\ In o (cycle_at c (fst id)) /\ touches (snd id) o = true.
Proof. intros H. apply ids_spec in H as (q & o & Hp & Hc & E). exists o.
  destruct (cell_Some _ _ _ Hc) as [Hin Hq]. pose proof (touches_hd o q Hq) as Th.
  assert (Hc2 : get_cell c (fst id) (snd id) = Some o).
  { rewrite E. unfold get_cell. apply cell_amo; auto. apply Inv_amo. exact HI. }
  unfold look2. rewrite Hc2. repeat split; auto.
  - unfold req_of. cbn. destruct id; cbn in *; congruence.
  - rewrite E. exact Th. Qed.

Lemma map_req_look2 l : (forall id, In id l -> In id ids) -> map req_of (flat_map look2 l) = l.
Proof. induction l as [|id l IH]; intros H; cbn [flat_map map]; auto.
  destruct (id_look2 id (H id (or_introl eq_refl))) as (o & -> & E & _). cbn [app map]. rewrite E, IH; auto.
  intros; apply H; right; assumption. Qed.

Lemma R_perm : Permutation R ids.
Proof. unfold R. rewrite map_rev. eapply perm_trans; [apply Permutation_sym; apply Permutation_rev|].
  unfold cops. eapply perm_trans; [apply Permutation_map; apply sort_pt_perm|].
  rewrite map_req_look2; auto. Qed.

Lemma R_desc : desc R.
Proof. unfold R. apply asc_rev_desc; [reflexivity|]. apply sort_pt_asc. Qed.

Lemma R_named : Forall (fun p => exists o, In o (cycle_at c (fst p)) /\ touches (snd p) o = true /\ snd p = hd0 (o_loc o)) R.
Proof. apply Forall_forall. intros p Hp. eapply Permutation_in in Hp; [|apply R_perm].
  destruct (id_look2 p Hp) as (o & _ & E & Ho & To). exists o. repeat split; auto.
  unfold req_of in E. destruct p; cbn in *. congruence. Qed.

Lemma R_hit i o : In o (cycle_at c i) -> hit R i o = hit npts i o.
Proof. intros Ho. pose proof (Inv_amo c i HI) as A.
  destruct (hit npts i o) eqn:E.
  - apply hit_true in E as ([i' q] & Hp & Ei & Tq). cbn [fst snd] in *. subst i'.
    unfold hit. apply existsb_exists. exists (i, hd0 (o_loc o)). cbn [fst snd]. rewrite Nat.eqb_refl, (touches_hd o q Tq). split; auto.
    eapply Permutation_in; [apply Permutation_sym; apply R_perm|]. apply ids_spec. exists q, o. cbn [fst snd]. repeat split; auto.
    unfold get_cell. apply cell_amo; auto.
  - apply not_true_is_false. intros E'. apply hit_true in E' as (p & Hp & Ei & Tp).
    eapply Permutation_in in Hp; [|apply R_perm]. apply ids_spec in Hp as (q & o' & Hn & Hc & Es). rewrite Ei in *.
    destruct (cell_Some _ _ _ Hc) as [Hin' Hq'].
    assert (o = o') by (eapply (amo_unique _ (snd p)); eauto; rewrite Es; eapply touches_hd; eauto). subst o'.
    assert (hit npts i o = true); [|congruence].
    unfold hit. apply existsb_exists. exists (i, q). cbn [fst snd]. rewrite Nat.eqb_refl, Hq'. auto. Qed.

(* batch_pop: exactly the operations named by the (normalised) points disappear; nothing else moves *)
Theorem batch_pop_tl q :
  forallb (fun p => point_in_range c (fst p) (snd p)) pts = true -> ids <> [] ->
  exists sub, snd (batch_pop c pts) = OkC sub /\
  tl (fst (batch_pop c pts)) q = tlc (filt npts 0 (cycles c)) q.
Proof. intros Hr Hne. unfold batch_pop. rewrite Hr. cbn [negb]. fold npts. fold look1. fold ids.
  assert (Hm : forall (A : Type) (l : list (nat * nat)) (a b : A), l <> [] -> match l with [] => a | _ :: _ => b end = b)
    by (intros A [|x l] a b H; congruence).
  rewrite Hm by exact Hne. fold look2. fold cops.
  eexists. split; [reflexivity|]. cbn [fst].
  assert (Hrm : fold_left (fun c p => remove_op c (fst p) (hd0 (o_loc (snd p)))) (rev cops) c = removes R c)
    by (unfold removes, R; rewrite <- fold_left_map; reflexivity).
  rewrite Hrm.
  rewrite removes_tl.
  - f_equal. apply filt_ext_in. intros j cy o Hj Ho. cbn [plus]. apply R_hit. unfold cycle_at.
    rewrite (nth_error_nth _ _ _ Hj). exact Ho.
  - apply R_desc.
  - eapply Forall_impl; [|apply R_named]. cbn. intros p (o & H1 & H2 & _). eauto.
  - apply nodup_distinct; [apply Inv_Forall_amo; exact HI| |apply R_named].
    eapply Permutation_NoDup; [apply Permutation_sym; apply R_perm|]. apply dedup_NoDup. Qed.
(* ---- the returned circuit lists exactly the removed operations, cycle after cycle ------------ *)
Let L2 := flat_map look2 ids.

Lemma L2_spec i o : In (i, o) L2 <-> In o (cycle_at c i) /\ hit npts i o = true.
Proof. unfold L2. rewrite in_flat_map. split.
  - intros (id & Hid & Hl). destruct (id_look2 id Hid) as (o' & El & Er & Ho & To). rewrite El in Hl.
    destruct Hl as [E|[]]. inversion E; subst. split; auto. rewrite <- R_hit by exact Ho.
    unfold hit. apply existsb_exists. exists id. split; [eapply Permutation_in; [apply Permutation_sym; apply R_perm|exact Hid]|].
    rewrite Nat.eqb_refl, To. reflexivity.
  - intros [Ho Hh]. rewrite <- R_hit in Hh by exact Ho. apply hit_true in Hh as (p & Hp & Ei & Tp).
    eapply Permutation_in in Hp; [|apply R_perm]. exists p. split; auto.
    destruct (id_look2 p Hp) as (o' & El & Er & Ho' & To'). rewrite El. left. rewrite Ei in *.
    assert (o' = o) by (apply (amo_unique (cycle_at c i) (snd p) o' o (Inv_amo c i HI) Ho' Ho To' Tp)). subst. reflexivity. Qed.

Lemma L2_nodup : NoDup L2.
Proof. apply (NoDup_map_inv req_of). unfold L2. rewrite map_req_look2; auto. apply dedup_NoDup. Qed.

Lemma cops_spec i o : In (i, o) cops <-> In o (cycle_at c i) /\ hit npts i o = true.
Proof. rewrite <- L2_spec. unfold cops. fold L2. split; intros H.
  - eapply Permutation_in; [apply sort_pt_perm|exact H].
  - eapply Permutation_in; [apply Permutation_sym; apply sort_pt_perm|exact H]. Qed.

Lemma cops_nodup : NoDup cops.
Proof. eapply Permutation_NoDup; [apply Permutation_sym; apply sort_pt_perm|]. apply L2_nodup. Qed.

Definition Lcyc (i : nat) : list op := map snd (filter (fun p => Nat.eqb (fst p) i) cops).

Lemma Lcyc_spec i o : In o (Lcyc i) <-> In o (cycle_at c i) /\ hit npts i o = true.
Proof. unfold Lcyc. rewrite in_map_iff. rewrite <- cops_spec. split.
  - intros ([i' o'] & E & H). cbn in E. subst o'. apply filter_In in H as [H E]. cbn in E. apply Nat.eqb_eq in E. subst. exact H.
  - intros H. exists (i, o). split; auto. apply filter_In. split; auto. cbn. apply Nat.eqb_refl. Qed.

Lemma Lcyc_nodup i : NoDup (Lcyc i).
Proof. unfold Lcyc. assert (G : forall l : list (nat * op), NoDup l -> (forall p, In p l -> fst p = i) -> NoDup (map snd l)).
  { induction l as [|p l IH]; intros ND Hf; cbn; [constructor|]. inversion ND; subst. constructor.
    - intros Hin. apply in_map_iff in Hin as (p' & E & Hp'). apply H1.
      assert (p' = p); [|subst; exact Hp']. pose proof (Hf p' (or_intror Hp')) as F1. pose proof (Hf p (or_introl eq_refl)) as F2.
      destruct p as [n1 o1], p' as [n2 o2]. cbn in *. congruence.
    - apply IH; auto. intros; apply Hf; right; assumption. }
  apply G; [apply NoDup_filter; apply cops_nodup|]. intros p Hp. apply filter_In in Hp as [_ E]. apply Nat.eqb_eq. exact E. Qed.

Lemma nodup_sub_amo (l cy : list op) : NoDup l -> (forall o, In o l -> In o cy) -> amo cy -> amo l.
Proof. intros ND Hs A q. pose proof (NoDup_filter (touches q) ND) as NF.
  destruct (filter (touches q) l) as [|x [|y t]] eqn:E; cbn; try lia. exfalso.
  assert (Hx : In x (filter (touches q) l)) by (rewrite E; left; reflexivity).
  assert (Hy : In y (filter (touches q) l)) by (rewrite E; right; left; reflexivity).
  apply filter_In in Hx as [Hx Tx]. apply filter_In in Hy as [Hy Ty].
  assert (x = y) by (apply (amo_unique cy q x y A (Hs x Hx) (Hs y Hy) Tx Ty)). subst.
  inversion NF as [|? ? Hn _]; subst. apply Hn. left. reflexivity. Qed.

Lemma short_eq {A} (a b : list A) : length a <= 1 -> length b <= 1 -> (forall x, In x a <-> In x b) -> a = b.
Proof. intros Ha Hb H. destruct a as [|x [|? ?]], b as [|y [|? ?]]; cbn in *; try lia; auto.
  - exfalso. apply (H y). left. reflexivity.
  - exfalso. apply (H x). left. reflexivity.
  - f_equal. destruct (proj1 (H x) (or_introl eq_refl)) as [E|[]]. auto. Qed.

Lemma Lcyc_tl i q :
  filter (touches q) (fwd_cycle (Lcyc i)) = filter (touches q) (filter (hit npts i) (cycle_at c i)).
Proof. pose proof (Inv_amo c i HI) as A.
  assert (AL : amo (Lcyc i)).
  { apply (nodup_sub_amo _ (cycle_at c i)); auto; [apply Lcyc_nodup|]. intros o Ho. apply Lcyc_spec in Ho. tauto. }
  unfold fwd_cycle. rewrite filter_sorted by exact AL.
  apply short_eq; [apply AL|apply (amo_filter _ _ A)|].
  intros x. rewrite !filter_In, Lcyc_spec. tauto. Qed.

Lemma bp_ops_tl q :
  filter (touches q) (bp_ops c pts)
  = flat_map (fun i => filter (touches q) (filter (hit npts i) (cycle_at c i))) (seq 0 (ncyc c)).
Proof. unfold bp_ops. fold npts. fold look1. fold ids. fold look2. fold cops.
  rewrite filter_flat_map. apply flat_map_ext. intros i. apply Lcyc_tl. Qed.
End BatchPop.

Theorem batch_pop_removed_tl c pts q :
  Inv c -> forallb (fun p => point_in_range c (fst p) (snd p)) pts = true ->
  (exists p o, In p pts /\ get_cell c (normZ (fst p) (ncyc c)) (normZ (snd p) (nq c)) = Some o) ->
  let npts := map (fun p => (normZ (fst p) (ncyc c), normZ (snd p) (nq c))) pts in
  exists sub, snd (batch_pop c pts) = OkC sub /\
  tl (fst (batch_pop c pts)) q = tlc (filt npts 0 (cycles c)) q.
Proof. intros HI Hr (p & o & Hp & Hc) npts. apply batch_pop_tl; auto.
  intros E.
  assert (Hin : In (normZ (fst p) (ncyc c), hd0 (o_loc o))
                   (dedup_pts (flat_map (fun p : nat * nat => match get_cell c (fst p) (snd p) with
                                                             | Some o => [(fst p, hd0 (o_loc o))] | None => [] end) npts))).
  { apply (ids_spec c pts). exists (normZ (snd p) (nq c)), o. cbn [fst snd]. repeat split; auto.
    unfold npts. apply in_map_iff. exists p. auto. }
  fold npts in E. rewrite E in Hin. destruct Hin. Qed.

Lemma index_of_inj l a b : In a l -> In b l -> index_of a l = index_of b l -> a = b.
Proof. induction l as [|x l IH]; cbn; [tauto|]. intros Ha Hb.
  destruct (Nat.eqb_spec a x), (Nat.eqb_spec b x); try congruence; try discriminate.
  intros E. apply IH; [destruct Ha; congruence|destruct Hb; congruence|lia]. Qed.

Lemma used_qudits_In ops a : In a (used_qudits ops) <-> In a (flat_map o_loc ops).
Proof. unfold used_qudits. rewrite filter_In, memn_In, in_seq. split; [tauto|]. intros H. split; auto. split; [lia|].
  assert (a <= maxl (flat_map o_loc ops)); [|lia].
  clear - H. induction (flat_map o_loc ops) as [|x l IH]; [destruct H|]. change (maxl (x :: l)) with (Nat.max x (maxl l)).
  pose proof (Nat.le_max_l x (maxl l)). pose proof (Nat.le_max_r x (maxl l)).
  destruct H as [->|H]; [lia|]. specialize (IH H). lia. Qed.

Theorem batch_pop_returned_partial c pts q sub :
  snd (batch_pop c pts) = OkC sub ->
  let ops := bp_ops c pts in let qs := used_qudits ops in
  In q qs ->
  nq sub = length qs /\
  tl sub (index_of q qs) = map (relab (fun a => index_of a qs)) (filter (touches q) ops).
Proof. intros Hs ops qs Hq. revert Hs. unfold batch_pop. destruct (negb _); [discriminate|]. cbn zeta.
  destruct (dedup_pts _) as [|id0 idr] eqn:Eids; [discriminate|]. rewrite <- Eids. cbn [snd]. intros E. inversion E as [Es]. clear E.
  fold (bp_ops c pts). fold ops. fold qs.
  set (g := fun a => index_of a qs).
  set (sub0 := mkC (length qs) (map (fun q0 => nth q0 (rads c) 0) qs) []).
  assert (Hf : forall l s, fold_left (fun (s : circuit) (o : op) => fst (append_raw s (set_loc o (map (fun q0 => index_of q0 qs) (o_loc o))))) l s
                           = fold_left (fun s o' => fst (append_raw s o')) (map (relab g) l) s)
    by (induction l as [|x l IHl]; intros s; cbn [fold_left map]; auto; rewrite IHl; reflexivity).
  rewrite !Hf. fold sub0.
  split.
  - assert (G : forall l s, nq (fold_left (fun s o' => fst (append_raw s o')) l s) = nq s).
    { induction l as [|x l IH]; intros s; cbn; auto. rewrite IH. apply append_raw_nq. }
    rewrite G. reflexivity.
  - rewrite appends_tl. unfold tl at 1. cbn [cycles tlc flat_map app].
    change (index_of q qs) with (g q). apply filter_relab.
    intros o a Ho Ha E. apply (index_of_inj qs); auto.
    apply used_qudits_In. apply in_flat_map. exists o. auto. Qed.

(* both halves together: every used qudit q of the returned circuit shows, renumbered, exactly the
   operations removed from q's timeline, in cycle order *)
Theorem batch_pop_returned_tl c pts q sub :
  Inv c -> snd (batch_pop c pts) = OkC sub ->
  let npts := map (fun p => (normZ (fst p) (ncyc c), normZ (snd p) (nq c))) pts in
  let qs := used_qudits (bp_ops c pts) in
  In q qs ->
  tl sub (index_of q qs)
  = map (relab (fun a => index_of a qs))
        (flat_map (fun i => filter (touches q) (filter (hit npts i) (cycle_at c i))) (seq 0 (ncyc c))).
Proof. intros HI Hs npts qs Hq. destruct (batch_pop_returned_partial c pts q sub Hs Hq) as [_ T]. fold qs in T.
  rewrite T. f_equal. apply bp_ops_tl. exact HI. Qed.

(* ---- operations stay on qudits of the circuit (in_range) --------------------------------------------------- *)
Lemma In_update_at {A} i f (l : list A) d x : In x (update_at i f l) -> x = f (nth i l d) \/ In x l.
Proof. revert i. induction l as [|y t IH]; intros i H; destruct i; cbn in *; try tauto.
  - destruct H as [<-|H]; auto.
  - destruct H as [<-|H]; auto. destruct (IH i H); auto. Qed.

Lemma In_insert_at {A} i (x y : A) l : In y (insert_at i x l) -> y = x \/ In y l.
Proof. revert i. induction l as [|z t IH]; intros i H; destruct i; cbn in *;
    try (destruct H as [<-|H]; auto; fail); try tauto.
  destruct H as [<-|H]; auto. destruct (IH i H); auto. Qed.

Lemma In_remove_at {A} i (y : A) l : In y (remove_at i l) -> In y l.
Proof. revert i. induction l as [|z t IH]; intros i H; destruct i; cbn in *; auto.
  destruct H as [<-|H]; auto. right. eapply IH. exact H. Qed.

Definition op_ok (P : nat -> Prop) (o : op) : Prop := forall a, In a (o_loc o) -> P a.

Lemma all_qudits_alt P cs : all_qudits P cs <-> (forall cy o, In cy cs -> In o cy -> op_ok P o).
Proof. unfold all_qudits, op_ok. split; intros H; intros; eapply H; eauto. Qed.

Lemma aq_app P a b : all_qudits P a -> all_qudits P b -> all_qudits P (a ++ b).
Proof. intros Ha Hb cy o x Hcy. apply in_app_or in Hcy as [H|H]; [apply (Ha cy o x H)|apply (Hb cy o x H)]. Qed.

Lemma aq_single P o : op_ok P o -> all_qudits P [[o]].
Proof. intros H cy o' a [<-|[]] [<-|[]] Ha. apply H. exact Ha. Qed.

Lemma aq_place P cs i o : all_qudits P cs -> op_ok P o -> all_qudits P (update_at i (fun cy => cy ++ [o]) cs).
Proof. intros H Ho cy o' a Hcy Ho' Ha. apply (In_update_at _ _ _ []) in Hcy as [->|Hcy].
  - apply in_app_or in Ho' as [Ho'|[<-|[]]]; [|apply Ho; exact Ha].
    destruct (Nat.lt_ge_cases i (length cs)) as [L|L]; [apply (H (nth i cs []) o' a); auto; apply nth_In; exact L|].
    rewrite nth_overflow in Ho' by exact L. destruct Ho'.
  - apply (H cy o' a); auto. Qed.

Lemma aq_insert_at P cs i o : all_qudits P cs -> op_ok P o -> all_qudits P (insert_at i [o] cs).
Proof. intros H Ho cy o' a Hcy Ho' Ha. apply In_insert_at in Hcy as [->|Hcy].
  - destruct Ho' as [<-|[]]. apply Ho. exact Ha.
  - apply (H cy o' a); auto. Qed.

Lemma aq_append_raw P c o : all_qudits P (cycles c) -> op_ok P o -> all_qudits P (cycles (fst (append_raw c o))).
Proof. intros H Ho. unfold append_raw. destruct (Nat.eqb _ _); cbn [fst cycles place].
  - apply aq_app; auto. apply aq_single. exact Ho.
  - apply aq_place; auto. Qed.

Lemma valid_op_ok c o : valid_op c o = true -> op_ok (fun a => a < nq c) o.
Proof. unfold valid_op. intros H a Ha. apply andb_true_iff in H as [H _]. rewrite forallb_forall in H.
  apply Nat.ltb_lt. apply H. exact Ha. Qed.

Definition inr (n : nat) (c : circuit) : Prop := all_qudits (fun a => a < n) (cycles c).
Lemma in_range_inr c : in_range c <-> inr (nq c) c.
Proof. reflexivity. Qed.

Lemma append_inr c o : in_range c -> in_range (fst (append c o)).
Proof. intros H. unfold in_range. rewrite (proj1 (append_nq c o)). unfold append.
  destruct (valid_op c o) eqn:V; cbn [negb fst]; auto.
  pose proof (aq_append_raw (fun a => a < nq c) c o H (valid_op_ok c o V)) as H1. destruct (append_raw c o). exact H1. Qed.

Lemma insert_inr c ci o : in_range c -> in_range (fst (insert c ci o)).
Proof. intros H. unfold in_range. rewrite (proj1 (insert_nq c ci o)). unfold insert.
  destruct (valid_op c o) eqn:V; cbn [negb fst]; auto. pose proof (valid_op_ok c o V) as Ho.
  destruct (Nat.eqb _ 0); cbn [fst]; [apply aq_append_raw; auto|].
  destruct (negb _ && negb _); cbn [fst]; [apply aq_append_raw; auto|].
  destruct (unoccupied _ _); cbn [fst cycles place]; [apply aq_place|apply aq_insert_at]; auto. Qed.

Lemma remove_op_inr n c i q : inr n c -> inr n (remove_op c i q).
Proof. intros H cy o a Hcy Ho Ha. unfold remove_op in Hcy. destruct (filter _ _) as [|x r] eqn:E; cbn [cycles] in Hcy.
  - apply In_remove_at in Hcy. apply (H cy o a); auto.
  - apply (In_update_at _ _ _ []) in Hcy as [->|Hcy]; [|apply (H cy o a); auto].
    rewrite <- E in Ho. apply filter_In in Ho as [Ho _]. unfold cycle_at in Ho.
    destruct (Nat.lt_ge_cases i (length (cycles c))) as [L|L]; [apply (H (nth i (cycles c) []) o a); auto; apply nth_In; exact L|].
    rewrite nth_overflow in Ho by exact L. destruct Ho. Qed.

Lemma seq_ops_inr {A} (f : circuit -> A -> res) l :
  (forall c x, in_range c -> in_range (fst (f c x))) -> forall c, in_range c -> in_range (fst (seq_ops f c l)).
Proof. intros Hf. induction l as [|x t IH]; intros c H; cbn [seq_ops fst]; auto.
  specialize (Hf c x H). destruct (f c x) as [c' [| | | |e]]; cbn [fst] in *; auto. Qed.

Lemma pop_inr c pt : in_range c -> in_range (fst (pop c pt)).
Proof. intros H. unfold pop. destruct pt as [[ci qi]|].
  - destruct (negb _); cbn [fst]; auto. destruct (get_cell _ _ _); cbn [fst]; auto.
    unfold in_range. rewrite (proj1 (remove_op_nq _ _ _)). apply remove_op_inr. exact H.
  - destruct (ncyc c); cbn [fst]; auto. destruct (rev_cycle _); cbn [fst]; auto.
    unfold in_range. rewrite (proj1 (remove_op_nq _ _ _)). apply remove_op_inr. exact H. Qed.

Lemma append_circuit_inr c sub loc g : in_range c -> in_range (fst (append_circuit c sub loc g)).
Proof. intros H. unfold append_circuit. destruct (negb _); cbn [fst]; auto. destruct g; [apply append_inr; exact H|].
  pose proof (seq_ops_inr append (map (map_loc loc) (iter_ops (cycles sub))) (fun c x Hc => append_inr c x Hc) c H) as H1.
  destruct (seq_ops append c _) as [c' [| | | |e]]; exact H1. Qed.

Lemma insert_circuit_inr c ci sub loc g : in_range c -> in_range (fst (insert_circuit c ci sub loc g)).
Proof. intros H. unfold insert_circuit. destruct (negb _); cbn [fst]; auto. destruct g; [apply insert_inr; exact H|].
  destruct (Z.leb _ _).
  - pose proof (append_circuit_inr c sub loc false H) as H1. destruct (append_circuit c sub loc false) as [c' [| | | |e]]; exact H1.
  - apply seq_ops_inr; auto. intros; apply insert_inr; assumption. Qed.

Lemma fold_left_inr {A} (f : circuit -> A -> circuit) l :
  (forall c x, in_range c -> in_range (f c x)) -> forall c, in_range c -> in_range (fold_left f l c).
Proof. intros Hf. induction l as [|x t IH]; intros c H; cbn; auto. Qed.

Lemma remove_op_in_range c i q : in_range c -> in_range (remove_op c i q).
Proof. intros H. unfold in_range. rewrite (proj1 (remove_op_nq _ _ _)). apply remove_op_inr. exact H. Qed.

Lemma batch_pop_inr c pts : in_range c -> in_range (fst (batch_pop c pts)).
Proof. intros H. unfold batch_pop. destruct (negb _); cbn [fst]; auto. destruct (dedup_pts _); cbn [fst]; auto.
  apply fold_left_inr; auto. intros; apply remove_op_in_range; assumption. Qed.

Lemma replace_inr c pt o : in_range c -> in_range (fst (replace c pt o)).
Proof. intros H. destruct pt as [ci qi]. unfold replace.
  destruct (valid_op c o) eqn:Hv; cbn [negb fst]; [|exact H]. pose proof (valid_op_ok c o Hv) as Ho.
  destruct (point_in_range c ci qi); cbn [negb fst]; [|exact H].
  destruct (get_cell _ _ _) as [old|]; cbn [fst]; [|exact H].
  destruct (disjointb _ _); cbn [fst]; [exact H|].
  destruct (seteqb _ _); cbn [fst].
  - intros cy o' a Hcy Ho' Ha. cbn [cycles nq] in *. apply (In_update_at _ _ _ []) in Hcy as [->|Hcy]; [|apply (H cy o' a); auto].
    apply in_map_iff in Ho' as (x & E & Hx). destruct (touches _ x); [subst o'; apply Ho; exact Ha|subst x].
    destruct (Nat.lt_ge_cases (normZ ci (ncyc c)) (length (cycles c))) as [L|L];
      [apply (H (nth (normZ ci (ncyc c)) (cycles c) []) o' a); auto; apply nth_In; exact L|].
    rewrite nth_overflow in Hx by exact L. destruct Hx.
  - pose proof (remove_op_in_range c (normZ ci (ncyc c)) (normZ qi (nq c)) H) as H1.
    destruct (remove_op_nq c (normZ ci (ncyc c)) (normZ qi (nq c))) as [Hn Hr].
    set (c1 := remove_op c _ _) in *.
    set (c2 := if Nat.eqb _ (ncyc c1) then mkC (nq c1) (rads c1) (cycles c1 ++ [[]]) else c1).
    assert (H2 : in_range c2).
    { unfold c2. destruct (Nat.eqb _ _); auto. intros cy o' a Hcy. cbn [cycles nq] in *. apply in_app_or in Hcy as [Hcy|[<-|[]]].
      - apply (H1 cy o' a Hcy). - intros []. }
    pose proof (insert_inr c2 (Z.of_nat (normZ ci (ncyc c))) o H2) as H3.
    destruct (insert c2 _ o) as [c3 [| | | |e]]; exact H3. Qed.

Lemma batch_replace_loop_inr l : forall c cur shift, in_range c -> in_range (fst (batch_replace_loop c cur shift l)).
Proof. induction l as [|[[i q] o] t IH]; intros c cur shift H; cbn [batch_replace_loop fst]; auto.
  pose proof (replace_inr c (Z.of_nat (i + (if Nat.eqb i cur then shift else 0)), Z.of_nat q) o H) as H1.
  destruct (replace c _ o) as [c' [| | | |e]]; cbn [fst] in *; auto. Qed.

Lemma batch_replace_inr c pts ops : in_range c -> in_range (fst (batch_replace c pts ops)).
Proof. intros H. unfold batch_replace. destruct (negb _); cbn [fst]; auto. destruct (negb _); cbn [fst]; auto.
  apply batch_replace_loop_inr. exact H. Qed.

Lemma replace_with_circuit_inr c pt sub g : in_range c -> in_range (fst (replace_with_circuit c pt sub g)).
Proof. intros H. unfold replace_with_circuit. pose proof (pop_inr c (Some pt) H) as H1.
  destruct (pop c (Some pt)) as [c' [| |old| |e]]; cbn [fst] in *; auto.
  destruct (negb _); cbn [fst]; auto. destruct (negb _); cbn [fst]; auto. apply insert_circuit_inr. exact H1. Qed.

Lemma unfold_inr c pt : in_range c -> in_range (fst (unfold c pt)).
Proof. intros H. destruct pt as [ci qi]. unfold unfold. destruct (negb _); cbn [fst]; auto.
  destruct (get_cell _ _ _); cbn [fst]; auto. destruct (negb _); cbn [fst]; auto. apply replace_with_circuit_inr. exact H. Qed.

Lemma appends_inr n ops : forall s, inr n s -> (forall o, In o ops -> op_ok (fun a => a < n) o) ->
  inr n (fold_left (fun s o => fst (append_raw s o)) ops s).
Proof. induction ops as [|o t IH]; intros s H Ho; cbn [fold_left]; auto.
  apply IH; [apply aq_append_raw; auto; apply Ho; left; reflexivity|intros; apply Ho; right; assumption]. Qed.

Lemma appends_nq ops : forall s, nq (fold_left (fun s o => fst (append_raw s o)) ops s) = nq s.
Proof. induction ops as [|o t IH]; intros s; cbn [fold_left]; auto. rewrite IH. apply append_raw_nq. Qed.

Lemma compress_inr c : in_range c -> in_range (compress c).
Proof. intros H. unfold in_range, compress. rewrite appends_nq. cbn [nq]. apply appends_inr.
  - intros cy o a []. 
  - intros o Ho a Ha. apply iter_ops_in in Ho as (cy & H1 & H2). apply (H cy o a); auto. Qed.

Lemma aq_map_locs (P Q : nat -> Prop) f cs : (forall a, P a -> Q (f a)) -> all_qudits P cs -> all_qudits Q (map_locs f cs).
Proof. intros Hf H cy o a Hcy Ho Ha. rewrite map_locs_eq in Hcy. apply in_map_iff in Hcy as (cy0 & <- & Hcy0).
  apply in_map_iff in Ho as (o0 & <- & Ho0). unfold relab in Ha. rewrite o_loc_set_loc in Ha.
  apply in_map_iff in Ha as (a0 & <- & Ha0). apply Hf. apply (H cy0 o0 a0); auto. Qed.

Lemma append_qudit_inr c r : in_range c -> in_range (fst (append_qudit c r)).
Proof. intros H. unfold append_qudit. destruct (Nat.ltb r 2); cbn [fst]; auto.
  intros cy o a Hcy Ho Ha. cbn [cycles nq] in *. pose proof (H cy o a Hcy Ho Ha). cbn in H0. lia. Qed.

Lemma insert_qudit_inr c qi r : in_range c -> in_range (fst (insert_qudit c qi r)).
Proof. intros H. unfold insert_qudit. destruct (Nat.ltb r 2) eqn:E; cbn [fst]; auto.
  destruct (Z.leb _ _); [unfold append_qudit; rewrite E; cbn [fst]; intros cy o a Hcy Ho Ha; cbn [cycles nq] in *; pose proof (H cy o a Hcy Ho Ha) as L; cbn in L; lia|].
  cbn [fst]. unfold in_range. cbn [nq cycles]. apply (aq_map_locs (fun a => a < nq c)); auto.
  intros a Ha. unfold shift_up. destruct (Nat.ltb a _); lia. Qed.

Lemma removes_inr n R : forall c, inr n c -> inr n (removes R c).
Proof. induction R as [|p R IH]; intros c H; cbn; auto. apply IH. apply remove_op_inr. exact H. Qed.

Lemma pop_qudit_inr c qi : Inv c -> in_range c -> in_range (fst (pop_qudit c qi)).
Proof. intros HI H. unfold pop_qudit. destruct (in_rangeZ qi (nq c)) eqn:Hr; cbn [negb fst]; auto.
  destruct (Nat.eqb_spec (nq c) 1); cbn [fst]; auto.
  set (k := normZ qi (nq c)). rewrite pop_qudit_removes.
  destruct (sdesc_filter_seq (fun i => existsb (touches k) (cycle_at c i)) k (ncyc c)) as [Hs Hb]. fold (pq_reqs c k) in Hs, Hb.
  assert (Htl : forall q', tl (removes (pq_reqs c k) c) q' = filter (fun o => negb (touches k o)) (tl c q')).
  { intros q'. rewrite removes_tl; [apply tlc_filt_pq|apply sdesc_desc; exact Hs| |apply sdesc_distinct; exact Hs].
    unfold named, pq_reqs. apply Forall_forall. intros p Hp. apply in_map_iff in Hp as (i & <- & Hi). cbn [fst snd].
    apply in_rev in Hi. apply filter_In in Hi as [_ Hi]. apply existsb_exists in Hi. exact Hi. }
  assert (Hk : all_qudits (fun a => a <> k) (cycles (removes (pq_reqs c k) c))).
  { apply tlc_no_touch. intros q'. fold (tl (removes (pq_reqs c k) c) q'). rewrite Htl.
    rewrite filter_filter. apply filter_ext. intros o. destruct (touches k o); reflexivity. }
  assert (Hrm : inr (nq c) (removes (pq_reqs c k) c)).
  { apply removes_inr. exact H. }
  unfold in_range. cbn [nq cycles].
  apply (aq_map_locs (fun a => a < nq c /\ a <> k)).
  - intros a [L Ne]. pose proof (normZ_lt _ _ Hr) as Lk. fold k in Lk. unfold shift_down. destruct (Nat.ltb_spec a k); lia.
  - intros cy o a Hcy Ho Ha. split; [apply (Hrm cy o a)|apply (Hk cy o a)]; auto. Qed.

Lemma renumber_inr c perm : in_range c -> in_range (fst (renumber_qudits c perm)).
Proof. intros H. unfold renumber_qudits. destruct (Nat.eqb_spec (length perm) (nq c)) as [Hl|]; cbn [negb fst]; auto.
  destruct (nodupn perm); cbn [negb fst]; auto. destruct (forallb _ perm) eqn:Hb; cbn [negb fst]; auto.
  unfold in_range. cbn [nq cycles]. apply (aq_map_locs (fun a => a < nq c)); auto.
  intros a Ha. rewrite forallb_forall in Hb. apply Nat.ltb_lt. apply Hb. apply nth_In. lia. Qed.

Lemma iadd_inr a b : in_range a -> in_range (fst (c_iadd a b)).
Proof. intros H. unfold c_iadd. pose proof (append_circuit_inr a b (all_loc a) false H) as H1.
  destruct (append_circuit a b (all_loc a) false) as [s [| | | |e]]; exact H1. Qed.

Lemma rep_append_inr n : forall s a, in_range s -> in_range (rep_append n s a).
Proof. induction n as [|n IH]; intros s a H; cbn [rep_append]; auto. apply IH. apply append_circuit_inr. exact H. Qed.

Definition no_unfold_all (k : callF) : Prop := match k with FUnfoldAll _ => False | _ => True end.

Theorem do_callF_inr c k : Inv c -> in_range c -> no_unfold_all k -> in_range (do_callF c k).
Proof. intros HI H Hk. destruct k; cbn [do_callF]; try destruct Hk.
  - apply append_inr; auto.
  - apply seq_ops_inr; auto. intros; apply append_inr; assumption.
  - apply append_circuit_inr; auto.
  - apply insert_inr; auto.
  - apply insert_circuit_inr; auto.
  - apply pop_inr; auto.
  - apply batch_pop_inr; auto.
  - apply replace_inr; auto.
  - apply batch_replace_inr; auto.
  - apply replace_with_circuit_inr; auto.
  - apply unfold_inr; auto.
  - apply compress_inr; auto.
  - apply append_qudit_inr; auto.
  - apply insert_qudit_inr; auto.
  - apply pop_qudit_inr; auto.
  - apply renumber_inr; auto.
  - intros cy o a [].
  - rewrite add_self_unchanged. exact H.
  - apply iadd_inr; auto.
  - exact H.
  - apply rep_append_inr; auto. Qed.

(* every history over the modelled alphabet without unfold_all, from the empty circuit, with ANY
   arguments: the grid invariant holds and every operation sits on qudits of the circuit *)
Theorem history_inv_range ks : forall c, Inv c -> in_range c -> Forall no_unfold_all ks ->
  Inv (fold_left do_callF ks c) /\ in_range (fold_left do_callF ks c).
Proof. induction ks as [|k t IH]; intros c HI H Hk; cbn [fold_left]; auto. inversion Hk; subst.
  apply IH; auto.
  - apply do_callF_inv; auto. destruct k; auto.
  - apply do_callF_inr; auto. Qed.

Theorem history_inv_range_empty ks n rs : Forall no_unfold_all ks ->
  Inv (fold_left do_callF ks (mkC n rs [])) /\ in_range (fold_left do_callF ks (mkC n rs [])).
Proof. intros H. apply history_inv_range; auto. constructor. intros cy o a []. Qed.

(* ---- *=, +, unfold_all's step ----------------------------------------------------------------- *)
Lemma rep_append_tl a q :
  Forall amo (cycles a) -> in_range a -> (forall o, In o (iter_ops (cycles a)) -> valid_op a o = true) ->
  forall n s, nq s = nq a -> rads s = rads a -> tl (rep_append n s a) q = tl s q ++ repeat_app n (tl a q).
Proof. intros A Hr Hv. induction n as [|n IH]; intros s Hn Hrd; cbn [rep_append repeat_app]; [rewrite app_nil_r; reflexivity|].
  assert (Hl : nq a = length (all_loc a)) by (unfold all_loc; rewrite seq_length; reflexivity).
  destruct (append_circuit_tl s a (all_loc a) q Hl) as (T & N & R & _).
  assert (Hid : map (map_loc (all_loc a)) (iter_ops (cycles a)) = iter_ops (cycles a)).
  { apply map_id_in. intros o Ho. apply map_loc_id. apply Forall_forall. intros x Hx.
    apply iter_ops_in in Ho as (cy & H1 & H2). apply (Hr cy o x); auto. }
  rewrite Hid in T. rewrite (valid_prefix_ext a s _ Hn Hrd), (all_valid_prefix a _ Hv) in T.
  rewrite IH by congruence. rewrite T, (proj_iter _ q A), <- app_assoc. reflexivity. Qed.

(* a *= n (n >= 1): n copies of a's timeline *)
Theorem imul_tl a n q :
  Forall amo (cycles a) -> in_range a -> (forall o, In o (iter_ops (cycles a)) -> valid_op a o = true) ->
  tl (c_imul a n) q = repeat_app (S (n - 1)) (tl a q).
Proof. intros A Hr Hv. unfold c_imul. rewrite (rep_append_tl a q A Hr Hv) by reflexivity. reflexivity. Qed.

(* a + b : a new circuit holding a's timelines followed by b's; a itself is unchanged *)
Theorem add_tl a b q :
  nq b = nq a -> Forall amo (cycles a) -> Forall amo (cycles b) -> in_range a ->
  all_qudits (fun x => x < nq a) (cycles b) ->
  (forall o, In o (iter_ops (cycles a)) -> valid_op a o = true) ->
  (forall o, In o (iter_ops (cycles b)) -> valid_op a o = true) ->
  exists s, c_add a b = (a, OkC s) /\ tl s q = tl a q ++ tl b q.
Proof. intros Hn Aa Ab Hra Hrb Hva Hvb. unfold c_add.
  set (e := mkC (nq a) (rads a) []).
  assert (Hla : nq a = length (all_loc a)) by (unfold all_loc; rewrite seq_length; reflexivity).
  assert (Hlb : nq b = length (all_loc a)) by (unfold all_loc; rewrite seq_length; exact Hn).
  assert (Hida : map (map_loc (all_loc a)) (iter_ops (cycles a)) = iter_ops (cycles a)).
  { apply map_id_in. intros o Ho. apply map_loc_id. apply Forall_forall. intros x Hx.
    apply iter_ops_in in Ho as (cy & H1 & H2). apply (Hra cy o x); auto. }
  assert (Hidb : map (map_loc (all_loc a)) (iter_ops (cycles b)) = iter_ops (cycles b)).
  { apply map_id_in. intros o Ho. apply map_loc_id. apply Forall_forall. intros x Hx.
    apply iter_ops_in in Ho as (cy & H1 & H2). apply (Hrb cy o x); auto. }
  destruct (append_circuit_tl e a (all_loc a) q Hla) as (T1 & N1 & R1 & O1).
  rewrite Hida in *. rewrite (valid_prefix_ext a e _ eq_refl eq_refl), (all_valid_prefix a _ Hva) in *. specialize (O1 eq_refl).
  destruct (append_circuit e a (all_loc a) false) as [s1 out1]. cbn [fst snd] in *. subst out1. cbv iota beta.
  destruct (append_circuit_tl s1 b (all_loc a) q Hlb) as (T2 & N2 & R2 & O2).
  rewrite Hidb in *. rewrite (valid_prefix_ext a s1 _ N1 R1), (all_valid_prefix a _ Hvb) in *. specialize (O2 eq_refl).
  destruct (append_circuit s1 b (all_loc a) false) as [s2 out2]. cbn [fst snd] in *. subst out2. cbv iota beta.
  exists s2. split; [reflexivity|]. rewrite T2, T1. unfold tl at 1. cbn [e cycles tlc flat_map app].
  rewrite (proj_iter _ q Aa), (proj_iter _ q Ab). reflexivity. Qed.

(* one pass of unfold_all: every block is replaced, in iteration order, by its inner operations
   (parameters distributed, relabelled through the block's location); leaves stay *)
Definition expand_op (o : op) : list op :=
  if o_isblk o then map (map_loc (o_loc o)) (iter_ops (set_params_cycles (o_sub o) (o_ps o))) else [o].

Theorem unfold_once_tl c q :
  tl (unfold_once c) q = filter (touches q) (flat_map expand_op (iter_ops (cycles c))).
Proof. unfold unfold_once.
  assert (G : forall ops s, tl (fold_left (fun s o => if o_isblk o
                  then fold_left (fun s o' => fst (append_raw s (map_loc (o_loc o) o'))) (iter_ops (set_params_cycles (o_sub o) (o_ps o))) s
                  else fst (append_raw s o)) ops s) q = tl s q ++ filter (touches q) (flat_map expand_op ops)).
  { induction ops as [|o t IH]; intros s; cbn [fold_left flat_map filter]; [rewrite app_nil_r; reflexivity|].
    rewrite IH, filter_app, app_assoc. f_equal. unfold expand_op. destruct (o_isblk o).
    - rewrite (fold_left_map (fun s o' => fst (append_raw s o')) (map_loc (o_loc o))). apply appends_tl.
    - rewrite append_raw_tl. reflexivity. }
  rewrite G. reflexivity. Qed.
