(* circuit/SimExec.v - the Tensor/Sim model instantiated over the Gaussian integers Z[i] with integer
   parameters, for extraction (coq/extract/tensor.v).  DEFINITIONS ONLY.
   Gates handed to the extracted model are affine in their parameters,
   U(p) = A_0 + p_0 A_1 + ... + p_{k-1} A_k  with Gaussian-integer matrices (exact in floats), or
   nested circuits (CircuitGate). *)
From Coq Require Import List NArith Arith Bool ZArith.
Import ListNotations.
From BQ Require Import lib.Tensor circuit.Sim.

Definition ndg := nd GI.
Definition gi_scale (z : Z) (a : GI) : GI := (z * fst a, z * snd a)%Z.

Definition rows := list (list GI).
Definition rows_nd (ld : N) (rw : rows) : ndg :=
  mk_nd [ld; ld] (fun i => nth (N.to_nat (nth 1 i 0%N)) (nth (N.to_nat (nth 0 i 0%N)) rw []) gi0).
Definition flat_nd (sh : list N) (data : list GI) : ndg :=
  materialize GI gi0 (mk_nd sh (fun i => nth (N.to_nat (flatten sh i)) data gi0)).
Definition nd_to_list (T : ndg) : list GI := map (at_ T) (all_idx (shape T)).

Definition rows_add (a b : rows) : rows := map (fun rr => map (fun xy => gi_add (fst xy) (snd xy)) (combine (fst rr) (snd rr))) (combine a b).
Definition rows_scale (z : Z) (a : rows) : rows := map (map (gi_scale z)) a.
Fixpoint affine_rows (acc : rows) (mats : list rows) (ps : list Z) : rows :=
  match mats, ps with
  | A :: mr, p :: pr => affine_rows (rows_add acc (rows_scale p A)) mr pr
  | _, _ => acc
  end.

Definition gop := op GI Z.
Definition gcircuit := circuit GI Z.
Definition mzg (T : ndg) : ndg := materialize GI gi0 T.

Definition affine_op (loc : list nat) (np : nat) (stored : list Z) (ld : N) (mats : list rows) : gop :=
  mk_op GI Z loc np stored
    (fun ps => rows_nd ld (affine_rows (hd [] mats) (tl mats) ps))
    (fun ps => map (rows_nd ld) (tl mats)).

Definition g_get_unitary (c : gcircuit) (ps : list Z) : option ndg := get_unitary GI gi0 gi1 gi_add gi_mul gi_conj Z mzg c ps.
Definition g_get_statevector (c : gcircuit) (v : ndg) (ps : list Z) : option ndg := get_statevector GI gi0 gi_add gi_mul gi_conj Z mzg c v ps.
Definition g_get_unitary_and_grad (c : gcircuit) (ps : list Z) : option (ndg * list ndg) :=
  get_unitary_and_grad GI gi0 gi1 gi_add gi_mul gi_conj Z mzg c ps.

(* a CircuitGate: the gate oracle is the inner circuit's own simulation *)
Definition dummy : ndg := mk_nd [] (fun _ => gi0).
Definition block_op (loc : list nat) (stored : list Z) (inner : gcircuit) : gop :=
  mk_op GI Z loc (num_params GI Z inner) stored
    (fun ps => match g_get_unitary inner ps with Some U => U | None => dummy end)
    (fun ps => match g_get_unitary_and_grad inner ps with Some (_, g) => g | None => [] end).

Definition g_apply_right (r : list N) (T U : ndg) (loc : list nat) (inv : bool) : ndg := apply_right GI gi0 gi_add gi_mul gi_conj r T U loc inv.
Definition g_apply_left (r : list N) (T U : ndg) (loc : list nat) (inv : bool) : ndg := apply_left GI gi0 gi_add gi_mul gi_conj r T U loc inv.
Definition g_eval_apply_right (r : list N) (T U : ndg) (loc : list nat) : ndg := eval_apply_right GI gi0 gi_add gi_mul r T U loc.
Definition g_sv_apply (r : list N) (T U : ndg) (loc : list nat) (inv : bool) : ndg := sv_apply GI gi0 gi_add gi_mul gi_conj r T U loc inv.
Definition g_embed (r : list N) (loc : list nat) (U : ndg) : ndg := embed GI gi0 r loc U.
Definition g_matmul (A B : ndg) : ndg := nd_matmul GI gi0 gi_add gi_mul A B.
Definition g_params (c : gcircuit) : list Z := params GI Z c.
Definition g_num_params (c : gcircuit) : nat := num_params GI Z c.
Definition g_get_param_location (c : gcircuit) (i : nat) : option (nat * nat * nat) := get_param_location GI Z c i.
Definition g_get_param (c : gcircuit) (i : nat) : option Z := get_param GI Z c i.
Definition g_set_param (c : gcircuit) (i : nat) (x : Z) : option gcircuit := set_param GI Z c i x.
Definition g_set_params (c : gcircuit) (v : list Z) : option gcircuit := set_params GI Z c v.
Definition g_freeze_param (c : gcircuit) (i : nat) : option gcircuit := freeze_param GI Z c i.
Definition g_mk_circuit (r : list N) (ops : list (nat * gop)) : gcircuit := mk_circuit GI Z r ops.

(* ------------------------------------------------------------------ a ring with a non-trivial derivation,
   used only for the non-vacuity example of the gradient theorem: dual numbers Z[e]/(e^2),
   conjugation e -> -e, derivation D(a + b e) = b e. *)
Definition DU : Type := (Z * Z)%type.
Definition du0 : DU := (0, 0)%Z.
Definition du1 : DU := (1, 0)%Z.
Definition du_add (a b : DU) : DU := (fst a + fst b, snd a + snd b)%Z.
Definition du_mul (a b : DU) : DU := (fst a * fst b, fst a * snd b + snd a * fst b)%Z.
Definition du_opp (a : DU) : DU := (- fst a, - snd a)%Z.
Definition du_sub (a b : DU) : DU := du_add a (du_opp b).
Definition du_conj (a : DU) : DU := (fst a, - snd a)%Z.
Definition du_D (a : DU) : DU := (0, snd a)%Z.

(* the one-qubit "phase" gate diag(1 + e, 1), its derivative diag(e, 0), as a one-operation circuit *)
Definition du_gate : nd DU :=
  mk_nd [2; 2]%N (fun i => match i with
                          | [0; 0]%N => (1, 1)%Z
                          | [1; 1]%N => (1, 0)%Z
                          | _ => du0 end).
Definition du_dgate : nd DU :=
  mk_nd [2; 2]%N (fun i => match i with [0; 0]%N => (0, 1)%Z | _ => du0 end).
Definition du_circuit : circuit DU unit :=
  mk_circuit DU unit [2%N] [(0%nat, mk_op DU unit [0%nat] 1 [tt] (fun _ => du_gate) (fun _ => [du_dgate]))].
