(* Theorems about the circuit model: per-qudit timelines of the core editors
   (C04) and the grid invariant (C05). *)
From Coq Require Import List Arith Bool PeanoNat ZArith Lia Permutation.
Import ListNotations.
From BQ Require Import lib.Trace circuit.CModel.
Open Scope nat_scope.

(* ---- timelines ------------------------------------------------------------------ *)
(* the operations on qudit q, cycle after cycle *)
Definition tlc (cs : list cycle) (q : nat) : list op := flat_map (filter (touches q)) cs.
Definition tl (c : circuit) (q : nat) : list op := tlc (cycles c) q.

(* at most one operation of a cycle touches a given qudit: the cell (cycle, q)
   is well defined; this is "each operation occupies exactly its location" *)
Definition amo (cy : cycle) : Prop := forall q, length (filter (touches q) cy) <= 1.

Lemma memn_In x l : memn x l = true <-> In x l.
Proof. induction l as [|y t IH]; simpl; [split; [discriminate|tauto]|].
  rewrite orb_true_iff, Nat.eqb_eq, IH. split; intros [H|H]; auto. Qed.

Lemma tlc_app a b q : tlc (a ++ b) q = tlc a q ++ tlc b q.
Proof. unfold tlc. apply flat_map_app. Qed.

(* ---- sorting a cycle does not change any timeline ---------------------------------- *)
Lemma ins_by_perm key o l : Permutation (ins_by key o l) (o :: l).
Proof. induction l as [|y t IH]; simpl; auto.
  destruct (Nat.leb (key o) (key y)); auto.
  eapply perm_trans; [apply perm_skip; exact IH|apply perm_swap]. Qed.

Lemma sort_by_perm key l : Permutation (sort_by key l) l.
Proof. induction l as [|y t IH]; simpl; auto.
  eapply perm_trans; [apply ins_by_perm|apply perm_skip; exact IH]. Qed.

Lemma filter_perm {A} (f : A -> bool) l l' : Permutation l l' -> Permutation (filter f l) (filter f l').
Proof. induction 1 as [|x l l' _ IH|x y l|l l' l'' _ IH1 _ IH2]; simpl; auto.
  - destruct (f x); auto.
  - destruct (f x), (f y); auto. apply perm_swap.
  - eapply perm_trans; eauto. Qed.

Lemma perm_short {A} (l l' : list A) : Permutation l l' -> length l <= 1 -> l = l'.
Proof. intros H Hl. destruct l as [|a [|b t]]; simpl in Hl; try lia.
  - apply Permutation_nil in H. auto.
  - apply Permutation_length_1_inv in H. auto. Qed.

Lemma filter_sorted key cy q : amo cy -> filter (touches q) (sort_by key cy) = filter (touches q) cy.
Proof. intros H. symmetry. apply perm_short; [|apply H].
  apply filter_perm. apply Permutation_sym. apply sort_by_perm. Qed.

Lemma filter_flat_map {A B} (f : B -> bool) (g : A -> list B) l :
  filter f (flat_map g l) = flat_map (fun x => filter f (g x)) l.
Proof. induction l as [|x t IH]; simpl; auto. rewrite filter_app, IH. reflexivity. Qed.

(* the timeline read off the iteration order is the timeline of the grid *)
Theorem proj_iter cs q : Forall amo cs -> filter (touches q) (iter_ops cs) = tlc cs q.
Proof. intros H. unfold iter_ops, tlc. rewrite filter_flat_map.
  induction H as [|cy t Hcy _ IH]; simpl; [reflexivity|].
  f_equal; [unfold fwd_cycle; apply filter_sorted; exact Hcy|exact IH]. Qed.

(* ---- rear_after -------------------------------------------------------------------- *)
Lemma rear_after_lower cs q k : rear_after cs q k = 0 \/ rear_after cs q k > k.
Proof. revert k. induction cs as [|cy t IH]; intros k; simpl; auto.
  destruct (IH (S k)) as [H|H].
  - rewrite H. simpl. destruct (existsb (touches q) cy); [right; lia|left; reflexivity].
  - destruct (Nat.eqb_spec (rear_after t q (S k)) 0) as [E|E]; [lia|]. right; lia. Qed.

Lemma rear_after_upper cs q k : rear_after cs q k <= k + length cs.
Proof. revert k. induction cs as [|cy t IH]; intros k; simpl; [lia|].
  specialize (IH (S k)). destruct (Nat.eqb_spec (rear_after t q (S k)) 0) as [E|E].
  - destruct (existsb (touches q) cy); lia.
  - lia. Qed.

Lemma rear_after_free cs q k j :
  rear_after cs q k <= k + j -> filter (touches q) (nth j cs []) = [].
Proof. revert k j. induction cs as [|cy t IH]; intros k j H; simpl.
  - destruct j; reflexivity.
  - simpl in H. destruct j as [|j].
    + destruct (rear_after_lower t q (S k)) as [E|E].
      * rewrite E in H. simpl in H. destruct (existsb (touches q) cy) eqn:Ex; [lia|].
        clear - Ex. induction cy as [|o cy IH]; simpl in *; auto.
        apply orb_false_iff in Ex as [E1 E2]. rewrite E1. auto.
      * destruct (Nat.eqb_spec (rear_after t q (S k)) 0); lia.
    + apply (IH (S k)). destruct (Nat.eqb_spec (rear_after t q (S k)) 0) as [E|E]; lia. Qed.

Lemma fac_bound c loc : find_available_cycle c loc <= ncyc c.
Proof. unfold find_available_cycle, ncyc. induction loc as [|q t IH]; simpl; [lia|].
  pose proof (rear_after_upper (cycles c) q 0). lia. Qed.

Lemma fac_ge c loc q : In q loc -> rear_after (cycles c) q 0 <= find_available_cycle c loc.
Proof. unfold find_available_cycle. induction loc as [|x t IH]; simpl; [tauto|].
  intros [->|H]; [lia|]. specialize (IH H). lia. Qed.

(* ---- list surgery ------------------------------------------------------------------- *)
Lemma tlc_update_at cs i f q :
  i < length cs ->
  tlc (update_at i f cs) q = tlc (firstn i cs) q ++ filter (touches q) (f (nth i cs [])) ++ tlc (skipn (S i) cs) q.
Proof. revert i. induction cs as [|cy t IH]; intros i Hi; simpl in Hi; [lia|].
  destruct i as [|i]; simpl.
  - reflexivity.
  - unfold tlc in *. simpl. rewrite IH by lia. rewrite <- app_assoc. reflexivity. Qed.

Lemma tlc_split cs i q :
  i < length cs ->
  tlc cs q = tlc (firstn i cs) q ++ filter (touches q) (nth i cs []) ++ tlc (skipn (S i) cs) q.
Proof. revert i. induction cs as [|cy t IH]; intros i Hi; simpl in Hi; [lia|].
  destruct i as [|i]; simpl; [reflexivity|].
  unfold tlc in *. simpl. rewrite (IH i) at 1 by lia. rewrite <- app_assoc. reflexivity. Qed.

Lemma tlc_free_suffix cs q i :
  (forall j, i <= j -> filter (touches q) (nth j cs []) = []) -> tlc (skipn i cs) q = [].
Proof. revert i. induction cs as [|cy t IH]; intros i H.
  - destruct i; reflexivity.
  - destruct i as [|i].
    + simpl. unfold tlc. simpl. pose proof (H 0 (Nat.le_refl 0)) as H0. simpl in H0. rewrite H0. simpl.
      apply (IH 0). intros j Hj. apply (H (S j)). lia.
    + simpl. apply IH. intros j Hj. apply (H (S j)). lia. Qed.

(* ---- append ----------------------------------------------------------------------------- *)
Definition one (q : nat) (o : op) : list op := if touches q o then [o] else [].

(* the appended operation comes last on each of its qudits; nothing else moves *)
Theorem append_raw_tl c o q :
  tl (fst (append_raw c o)) q = tl c q ++ one q o.
Proof. unfold append_raw, tl, one.
  pose proof (fac_bound c (o_loc o)) as Hb.
  destruct (Nat.eqb_spec (find_available_cycle c (o_loc o)) (ncyc c)) as [E|E]; simpl.
  - rewrite tlc_app. unfold tlc at 2. simpl. rewrite app_nil_r. reflexivity.
  - set (i := find_available_cycle c (o_loc o)) in *. unfold ncyc in *.
    rewrite tlc_update_at by lia. rewrite filter_app.
    change (filter (touches q) [o]) with (if touches q o then [o] else []).
    rewrite (tlc_split (cycles c) i q) at 1 by lia.
    destruct (touches q o) eqn:T.
    + assert (Hq : In q (o_loc o)) by (apply memn_In; exact T).
      assert (Hfree : forall j, i <= j -> filter (touches q) (nth j (cycles c) []) = []).
      { intros j Hj. apply (rear_after_free _ _ 0). pose proof (fac_ge c (o_loc o) q Hq). fold i in H. lia. }
      assert (Hs : tlc (skipn (S i) (cycles c)) q = []) by (apply tlc_free_suffix; intros j Hj; apply Hfree; lia).
      rewrite Hs, (Hfree i (Nat.le_refl i)). rewrite !app_nil_r. reflexivity.
    + rewrite !app_nil_r. reflexivity. Qed.

(* ---- insert ------------------------------------------------------------------------------- *)
Lemma insert_at_split {A} (x : A) l i : i <= length l -> insert_at i x l = firstn i l ++ x :: skipn i l.
Proof. revert i. induction l as [|y t IH]; intros i Hi; simpl in Hi.
  - assert (i = 0) by lia. subst. reflexivity.
  - destruct i as [|i]; simpl; [reflexivity|]. rewrite IH by lia. reflexivity. Qed.

Lemma disjointb_free loc l q : disjointb loc l = true -> In q loc -> memn q l = false.
Proof. unfold disjointb. rewrite forallb_forall. intros H Hq. specialize (H q Hq).
  apply negb_true_iff in H. exact H. Qed.

Lemma unoccupied_free cy loc q : unoccupied cy loc = true -> In q loc -> filter (touches q) cy = [].
Proof. unfold unoccupied. rewrite forallb_forall. intros H Hq.
  induction cy as [|o cy IH]; simpl; auto.
  assert (Ho : touches q o = false) by (apply (disjointb_free loc); [apply H; left; reflexivity|exact Hq]).
  rewrite Ho. apply IH. intros x Hx. apply H. right. exact Hx. Qed.

Lemma firstn_skipn_tlc cs i q : tlc cs q = tlc (firstn i cs) q ++ tlc (skipn i cs) q.
Proof. rewrite <- tlc_app, firstn_skipn. reflexivity. Qed.

Lemma skipn_1_skipn {A} i (l : list A) : skipn 1 (skipn i l) = skipn (S i) l.
Proof. revert l. induction i as [|i IH]; intros l; [destruct l; reflexivity|].
  destruct l as [|x t]; [reflexivity|]. change (skipn 1 (skipn i t) = skipn (S i) t). apply IH. Qed.

(* the clamped cycle index of insert: None = the call degenerates to append *)
Definition insert_index (c : circuit) (ci : Z) : option nat :=
  let n := ncyc c in
  if Nat.eqb n 0 then None
  else if in_rangeZ ci n then Some (normZ ci n)
  else if Z.ltb ci (- Z.of_nat n) then Some 0 else None.

Lemma normZ_lt ci n : in_rangeZ ci n = true -> normZ ci n < n.
Proof. unfold in_rangeZ, normZ. intros H. apply andb_true_iff in H as [H1 H2].
  apply Z.ltb_lt in H1. apply Z.leb_le in H2. destruct (Z.ltb_spec ci 0); lia. Qed.

Lemma insert_index_lt c ci i : insert_index c ci = Some i -> i < ncyc c.
Proof. unfold insert_index. destruct (Nat.eqb_spec (ncyc c) 0) as [E|E]; [discriminate|].
  destruct (in_rangeZ ci (ncyc c)) eqn:R.
  - intros H. inversion H. apply normZ_lt. exact R.
  - destruct (Z.ltb ci (- Z.of_nat (ncyc c))); intros H; inversion H. lia. Qed.

(* insert puts the operation, on each of its qudits, after exactly the operations
   lying in cycles before the (clamped) index and before all the others; an index
   past the end (or an empty circuit) appends. *)
Lemma tlc_skipn_split cs i q :
  i < length cs -> tlc (skipn i cs) q = filter (touches q) (nth i cs []) ++ tlc (skipn (S i) cs) q.
Proof. revert i. induction cs as [|cy t IH]; intros i Hi; simpl in Hi; [lia|].
  destruct i as [|i]; [reflexivity|]. apply (IH i). lia. Qed.

Lemma place_tl (cs : list cycle) i o q :
  i < length cs -> unoccupied (nth i cs []) (o_loc o) = true ->
  tlc (update_at i (fun cy => cy ++ [o]) cs) q = tlc (firstn i cs) q ++ one q o ++ tlc (skipn i cs) q.
Proof. intros Hi U. rewrite tlc_update_at by exact Hi. rewrite filter_app.
  change (filter (touches q) [o]) with (one q o).
  rewrite (tlc_skipn_split cs i q Hi). unfold one. destruct (touches q o) eqn:T.
  - assert (Hq : In q (o_loc o)) by (apply memn_In; exact T).
    rewrite (unoccupied_free _ _ q U Hq). reflexivity.
  - rewrite app_nil_r. reflexivity. Qed.

Lemma newcycle_tl (cs : list cycle) i o q :
  i <= length cs ->
  tlc (insert_at i [o] cs) q = tlc (firstn i cs) q ++ one q o ++ tlc (skipn i cs) q.
Proof. intros Hi. rewrite insert_at_split by exact Hi. rewrite tlc_app. f_equal. Qed.

Theorem insert_tl c ci o q :
  valid_op c o = true ->
  tl (fst (insert c ci o)) q =
  match insert_index c ci with
  | Some i => tlc (firstn i (cycles c)) q ++ one q o ++ tlc (skipn i (cycles c)) q
  | None => tl c q ++ one q o
  end.
Proof. intros Hv. unfold insert, insert_index. rewrite Hv. cbn [negb].
  destruct (Nat.eqb_spec (ncyc c) 0) as [E0|E0]; [apply append_raw_tl|].
  destruct (in_rangeZ ci (ncyc c)) eqn:R; cbn [negb andb].
  - pose proof (normZ_lt _ _ R) as Hi. set (i := normZ ci (ncyc c)) in *. unfold ncyc in Hi.
    destruct (unoccupied (cycle_at c i) (o_loc o)) eqn:U; unfold tl, place; cbn [fst cycles].
    + apply place_tl; assumption.
    + apply newcycle_tl. lia.
  - destruct (Z.ltb ci (- Z.of_nat (ncyc c))) eqn:L; cbn [negb andb].
    + assert (Hi : 0 < length (cycles c)) by (unfold ncyc in E0; lia).
      destruct (unoccupied (cycle_at c 0) (o_loc o)) eqn:U; unfold tl, place; cbn [fst cycles].
      * apply place_tl; assumption.
      * apply newcycle_tl. lia.
    + apply append_raw_tl. Qed.

(* ---- pop / remove_op ------------------------------------------------------------------------ *)
Lemma remove_at_split {A} (l : list A) i : i < length l -> remove_at i l = firstn i l ++ skipn (S i) l.
Proof. revert i. induction l as [|y t IH]; intros i Hi; simpl in Hi; [lia|].
  destruct i as [|i]; [reflexivity|]. cbn [remove_at firstn skipn app]. rewrite IH by lia. reflexivity. Qed.

(* removing the operation at (i, q0) deletes, from cycle i, exactly the operations
   touching q0 (one, under the invariant) and nothing else anywhere *)
Theorem remove_op_tl c i q0 q :
  i < ncyc c ->
  tl (remove_op c i q0) q =
  tlc (firstn i (cycles c)) q
  ++ filter (touches q) (filter (fun o => negb (touches q0 o)) (cycle_at c i))
  ++ tlc (skipn (S i) (cycles c)) q.
Proof. unfold ncyc, remove_op, tl. intros Hi.
  destruct (filter (fun o => negb (touches q0 o)) (cycle_at c i)) as [|x r] eqn:E; cbn [cycles].
  - rewrite remove_at_split by exact Hi. rewrite tlc_app. reflexivity.
  - rewrite tlc_update_at by exact Hi. reflexivity. Qed.

(* ---- compress ---------------------------------------------------------------------------------- *)
Lemma appends_tl ops s q :
  tl (fold_left (fun s o => fst (append_raw s o)) ops s) q = tl s q ++ filter (touches q) ops.
Proof. revert s. induction ops as [|o t IH]; intros s; cbn [fold_left filter].
  - rewrite app_nil_r. reflexivity.
  - rewrite IH, append_raw_tl. unfold one. rewrite <- app_assoc. destruct (touches q o); reflexivity. Qed.

(* compress rebuilds the circuit but keeps every qudit's timeline *)
Theorem compress_tl c q : Forall amo (cycles c) -> tl (compress c) q = tl c q.
Proof. intros H. unfold compress. rewrite appends_tl. unfold tl at 1. cbn [cycles tlc flat_map app].
  apply proj_iter. exact H. Qed.

(* ---- the grid invariant ---------------------------------------------------------------------------- *)
Definition good_cycle (cy : cycle) : Prop := cy <> [] /\ amo cy.
Definition Inv (c : circuit) : Prop := Forall good_cycle (cycles c).

Lemma Forall_update_at {A} (P : A -> Prop) f i (l : list A) (d : A) :
  Forall P l -> (i < length l -> P (f (nth i l d))) -> Forall P (update_at i f l).
Proof. revert i. induction l as [|y t IH]; intros i H Hf; simpl; [destruct i; constructor|].
  inversion H as [|? ? Hy Ht]; subst. destruct i as [|i]; simpl.
  - constructor; [apply Hf; simpl; lia|exact Ht].
  - constructor; [exact Hy|apply IH; [exact Ht|intros Hi; apply Hf; simpl; lia]]. Qed.

Lemma amo_single o : amo [o].
Proof. intros q. simpl. destruct (touches q o); simpl; lia. Qed.

Lemma amo_snoc cy o : amo cy -> unoccupied cy (o_loc o) = true -> amo (cy ++ [o]).
Proof. intros H U q. rewrite filter_app, app_length. simpl.
  destruct (touches q o) eqn:T; simpl.
  - rewrite (unoccupied_free cy (o_loc o) q U) by (apply memn_In; exact T). simpl. lia.
  - specialize (H q). lia. Qed.

Lemma amo_filter f cy : amo cy -> amo (filter f cy).
Proof. intros H q. specialize (H q). 
  assert (length (filter (touches q) (filter f cy)) <= length (filter (touches q) cy)).
  { clear H. induction cy as [|o cy IH]; simpl; auto. destruct (f o); simpl; destruct (touches q o); simpl; lia. }
  lia. Qed.

Lemma free_unoccupied cy loc : (forall q, In q loc -> filter (touches q) cy = []) -> unoccupied cy loc = true.
Proof. intros H. unfold unoccupied. apply forallb_forall. intros o Ho.
  unfold disjointb. apply forallb_forall. intros q Hq. apply negb_true_iff.
  destruct (memn q (o_loc o)) eqn:E; auto. exfalso.
  specialize (H q Hq). assert (In o (filter (touches q) cy)) by (apply filter_In; split; auto).
  rewrite H in H0. destruct H0. Qed.

Theorem append_raw_inv c o : Inv c -> Inv (fst (append_raw c o)).
Proof. unfold Inv, append_raw. intros H.
  pose proof (fac_bound c (o_loc o)) as Hb.
  destruct (Nat.eqb_spec (find_available_cycle c (o_loc o)) (ncyc c)) as [E|E]; cbn [fst cycles place].
  - apply Forall_app. split; auto. constructor; [|constructor]. split; [discriminate|apply amo_single].
  - apply Forall_update_at with (d := []); auto. intros Hi.
    assert (Hg : good_cycle (nth (find_available_cycle c (o_loc o)) (cycles c) [])).
    { rewrite Forall_forall in H. apply H. apply nth_In. exact Hi. }
    destruct Hg as [Hne Ham]. split.
    + intros Ea. apply app_eq_nil in Ea. destruct Ea as [_ Ea]. discriminate Ea.
    + apply amo_snoc; auto. apply free_unoccupied. intros q Hq.
      apply (rear_after_free _ _ 0). pose proof (fac_ge c (o_loc o) q Hq). lia. Qed.

Lemma Forall_insert_at {A} (P : A -> Prop) x i (l : list A) : Forall P l -> P x -> Forall P (insert_at i x l).
Proof. revert i. induction l as [|y t IH]; intros i H Hx; destruct i; simpl; auto.
  inversion H; subst. constructor; auto. Qed.

Theorem insert_inv c ci o : Inv c -> Inv (fst (insert c ci o)).
Proof. unfold insert. intros H.
  destruct (valid_op c o); cbn [negb fst]; [|exact H].
  destruct (Nat.eqb (ncyc c) 0); [apply append_raw_inv; exact H|].
  assert (Hplace : forall i, Inv (fst (if unoccupied (cycle_at c i) (o_loc o) then (place c i o, OkU)
                                       else (mkC (nq c) (rads c) (insert_at i [o] (cycles c)), OkU)))).
  { intros i. destruct (unoccupied (cycle_at c i) (o_loc o)) eqn:U; cbn [fst]; unfold Inv, place; cbn [cycles].
    - apply Forall_update_at with (d := []); auto. intros Hi.
      assert (Hg : good_cycle (nth i (cycles c) [])) by (unfold Inv in H; rewrite Forall_forall in H; apply H; apply nth_In; exact Hi).
      destruct Hg as [Hne Ham]. split; [intros Ea; apply app_eq_nil in Ea; destruct Ea as [_ Ea]; discriminate Ea|apply amo_snoc; auto].
    - apply Forall_insert_at; auto. split; [discriminate|apply amo_single]. }
  destruct (negb (in_rangeZ ci (ncyc c)) && negb (Z.ltb ci (- Z.of_nat (ncyc c)))); [apply append_raw_inv; exact H|].
  apply Hplace. Qed.

Lemma Forall_remove_at {A} (P : A -> Prop) i (l : list A) : Forall P l -> Forall P (remove_at i l).
Proof. revert i. induction l as [|y t IH]; intros i H; destruct i; simpl; auto; inversion H; subst; auto. Qed.

Theorem remove_op_inv c i q : Inv c -> Inv (remove_op c i q).
Proof. unfold Inv, remove_op. intros H.
  destruct (filter (fun o => negb (touches q o)) (cycle_at c i)) as [|x r] eqn:E; cbn [cycles].
  - apply Forall_remove_at. exact H.
  - apply Forall_update_at with (d := []); auto. intros Hi. split; [discriminate|].
    rewrite <- E. apply amo_filter. unfold cycle_at.
    rewrite Forall_forall in H. apply (H (nth i (cycles c) [])). apply nth_In. exact Hi. Qed.

Theorem pop_inv c pt : Inv c -> Inv (fst (pop c pt)).
Proof. intros H. unfold pop. destruct pt as [[ci qi]|].
  - destruct (point_in_range c ci qi); cbn [negb fst]; auto.
    destruct (get_cell c (normZ ci (ncyc c)) (normZ qi (nq c))); cbn [fst]; auto. apply remove_op_inv; exact H.
  - destruct (ncyc c); cbn [fst]; auto.
    destruct (rev_cycle (cycle_at c n)); cbn [fst]; auto. apply remove_op_inv; exact H. Qed.

Theorem compress_inv c : Inv (compress c).
Proof. unfold compress. 
  assert (G : forall ops s, Inv s -> Inv (fold_left (fun s o => fst (append_raw s o)) ops s)).
  { induction ops as [|o t IH]; intros s Hs; cbn [fold_left]; auto. apply IH. apply append_raw_inv. exact Hs. }
  apply G. constructor. Qed.

(* every history of the core editing calls from the empty circuit satisfies the invariant *)
Inductive call := CAppend (o : op) | CInsert (ci : Z) (o : op) | CPop (pt : option (Z * Z)) | CCompress.
Definition do_call (c : circuit) (k : call) : circuit :=
  match k with
  | CAppend o => fst (append c o)
  | CInsert ci o => fst (insert c ci o)
  | CPop pt => fst (pop c pt)
  | CCompress => compress c
  end.

Theorem history_inv n rs ks : Inv (fold_left do_call ks (mkC n rs [])).
Proof. assert (G : forall l c, Inv c -> Inv (fold_left do_call l c)).
  { induction l as [|k t IH]; intros c Hc; cbn [fold_left]; auto. apply IH.
    destruct k; cbn [do_call].
    - unfold append. destruct (valid_op c o); cbn [negb]; [|exact Hc].
      destruct (append_raw c o) as [c' i] eqn:E. cbn [fst].
      change c' with (fst (c', i)). rewrite <- E. apply append_raw_inv. exact Hc.
    - apply insert_inv. exact Hc.
    - apply pop_inv. exact Hc.
    - apply compress_inv. }
  apply G. constructor. Qed.

(* ---- equal timelines, equal unitary ------------------------------------------------------------------ *)
Lemma memn_existsb q l : memn q l = existsb (Nat.eqb q) l.
Proof. induction l as [|y t IH]; simpl; congruence. Qed.

Section SameUnitary.
Variable M : Type.
Variable mul : M -> M -> M.
Variable one_ : M.
Variable den : op -> M.
Hypothesis mul_assoc : forall x y z, mul x (mul y z) = mul (mul x y) z.
Hypothesis mul_one_l : forall x, mul one_ x = x.
Hypothesis mul_one_r : forall x, mul x one_ = x.
Hypothesis den_comm : forall a b, indep op o_loc a b -> mul (den a) (den b) = mul (den b) (den a).

Definition denote (c : circuit) : M := prod op M mul one_ den (iter_ops (cycles c)).

Lemma proj_is_filter q s : proj op o_loc q s = filter (touches q) s.
Proof. unfold proj. apply filter_ext. intros a. unfold Trace.touches, touches. symmetry. apply memn_existsb. Qed.

(* Two circuits satisfying the invariant that hold, on every qudit, the same
   operations in the same order, denote the same element of any monoid in which
   operations on disjoint qudits commute - in particular the same unitary. *)
Theorem same_timelines_same_denotation c1 c2 :
  Inv c1 -> Inv c2 ->
  (forall o, In o (iter_ops (cycles c1)) -> o_loc o <> []) ->
  length (iter_ops (cycles c1)) = length (iter_ops (cycles c2)) ->
  (forall q, tl c1 q = tl c2 q) ->
  denote c1 = denote c2.
Proof. intros I1 I2 Hne Hlen Htl. unfold denote.
  apply (equiv_prod op o_loc M mul one_ den mul_assoc mul_one_l den_comm).
  apply proj_eq_equiv; auto.
  intros q. rewrite !proj_is_filter.
  rewrite !proj_iter.
  - apply Htl.
  - unfold Inv in I2. eapply Forall_impl; [|exact I2]. intros cy [_ H]; exact H.
  - unfold Inv in I1. eapply Forall_impl; [|exact I1]. intros cy [_ H]; exact H. Qed.
End SameUnitary.

(* ---- insert_circuit: a whole sub-circuit at one (resolved) cycle index ----------------------------- *)
Lemma firstn_update_at {A} i f (l : list A) : firstn i (update_at i f l) = firstn i l.
Proof. revert i. induction l as [|y t IH]; intros i; destruct i; simpl; auto. rewrite IH. reflexivity. Qed.

Lemma firstn_insert_at {A} i (x : A) l : i <= length l -> firstn i (insert_at i x l) = firstn i l.
Proof. revert i. induction l as [|y t IH]; intros i Hi; destruct i; simpl in *; auto; try lia. rewrite IH by lia. reflexivity. Qed.

Lemma length_update_at {A} i f (l : list A) : length (update_at i f l) = length l.
Proof. revert i. induction l as [|y t IH]; intros i; destruct i; simpl; auto. Qed.

Lemma length_insert_at {A} i (x : A) l : length (insert_at i x l) = S (length l).
Proof. revert i. induction l as [|y t IH]; intros i; destruct i; simpl; auto. Qed.

(* one insert at an in-range non-negative index i: the prefix before i is untouched
   and the operation is put in front of everything from cycle i on *)
Lemma insert_at_index c i o q :
  valid_op c o = true -> i < ncyc c ->
  let c' := fst (insert c (Z.of_nat i) o) in
  firstn i (cycles c') = firstn i (cycles c)
  /\ tlc (skipn i (cycles c')) q = one q o ++ tlc (skipn i (cycles c)) q
  /\ i < ncyc c' /\ nq c' = nq c /\ rads c' = rads c.
Proof. intros Hv Hi c'. unfold c', insert. rewrite Hv. cbn [negb].
  assert (E0 : Nat.eqb (ncyc c) 0 = false) by (apply Nat.eqb_neq; lia). rewrite E0.
  assert (R : in_rangeZ (Z.of_nat i) (ncyc c) = true).
  { unfold in_rangeZ. apply andb_true_iff. split; [apply Z.ltb_lt|apply Z.leb_le]; lia. }
  rewrite R. cbn [negb andb].
  assert (N : normZ (Z.of_nat i) (ncyc c) = i).
  { unfold normZ. destruct (Z.ltb_spec (Z.of_nat i) 0); [lia|]. apply Nat2Z.id. }
  rewrite N. unfold ncyc in *.
  destruct (unoccupied (cycle_at c i) (o_loc o)) eqn:U; unfold place; cbn [fst cycles nq rads].
  - rewrite firstn_update_at, length_update_at. repeat split; auto.
    pose proof (place_tl (cycles c) i o q Hi U) as P.
    rewrite (firstn_skipn_tlc (update_at i (fun cy => cy ++ [o]) (cycles c)) i q) in P.
    rewrite firstn_update_at in P. apply app_inv_head in P. exact P.
  - rewrite firstn_insert_at by lia. rewrite length_insert_at. repeat split; auto; try lia.
    pose proof (newcycle_tl (cycles c) i o q (Nat.lt_le_incl _ _ Hi)) as P.
    rewrite (firstn_skipn_tlc (insert_at i [o] (cycles c)) i q) in P.
    rewrite firstn_insert_at in P by lia. apply app_inv_head in P. exact P. Qed.

(* inserting a list of operations one after the other at the same index puts them,
   in REVERSE order of insertion, between the cycles before i and those from i on *)
Lemma inserts_at_index ops : forall c i q,
  (forall o c', In o ops -> nq c' = nq c -> rads c' = rads c -> valid_op c' o = true) ->
  i < ncyc c ->
  let r := seq_ops (fun c o => insert c (Z.of_nat i) o) c ops in
  snd r = OkU
  /\ firstn i (cycles (fst r)) = firstn i (cycles c)
  /\ tlc (skipn i (cycles (fst r))) q = filter (touches q) (rev ops) ++ tlc (skipn i (cycles c)) q.
Proof. induction ops as [|o t IH]; intros c i q Hv Hi; cbn [seq_ops rev filter fst snd app].
  - repeat split; reflexivity.
  - assert (Hvo : valid_op c o = true) by (apply Hv; auto; left; reflexivity).
    destruct (insert_at_index c i o q Hvo Hi) as (F & S1 & Hi' & Hn & Hr).
    destruct (insert c (Z.of_nat i) o) as [c1 out1] eqn:E. cbn [fst] in *.
    assert (Hok : match out1 with Err _ => False | _ => True end).
    { unfold insert in E. rewrite Hvo in E. cbn [negb] in E.
      repeat match type of E with context[if ?b then _ else _] => destruct b end; inversion E; exact I. }
    destruct out1; try contradiction;
    (specialize (IH c1 i q);
     destruct IH as (O & F2 & S2); [intros o' c' Ho' H1 H2; apply Hv; [right; exact Ho'|congruence|congruence]|exact Hi'|];
     repeat split; [exact O|rewrite F2; exact F|rewrite S2, S1, filter_app, <- app_assoc; reflexivity]). Qed.

(* reverse iteration, reversed, shows each qudit its forward timeline *)
Lemma rev_riter_timeline cs q : Forall amo cs -> filter (touches q) (rev (riter_ops cs)) = tlc cs q.
Proof. intros H. unfold riter_ops, tlc.
  induction H as [|cy t Hcy _ IH]; cbn [rev flat_map]; [reflexivity|].
  rewrite flat_map_app. cbn [flat_map]. rewrite app_nil_r, rev_app_distr, filter_app, IH. f_equal.
  unfold rev_cycle. rewrite rev_involutive. apply filter_sorted. exact Hcy. Qed.

(* insert_circuit (operations inserted individually) with an index that resolves
   inside the circuit: the sub-circuit's operations, relabelled through `location`
   and in their own order (the reverse of the reversed iteration the code uses),
   sit between the cycles before the index and those from the index on. *)
Theorem insert_circuit_tl c ci sub location q i :
  nq sub = length location ->
  insert_index c ci = Some i ->
  (forall o c', In o (map (map_loc location) (riter_ops (cycles sub))) -> nq c' = nq c -> rads c' = rads c -> valid_op c' o = true) ->
  let r := insert_circuit c ci sub location false in
  snd r = OkU /\
  tl (fst r) q = tlc (firstn i (cycles c)) q
                 ++ filter (touches q) (rev (map (map_loc location) (riter_ops (cycles sub))))
                 ++ tlc (skipn i (cycles c)) q.
Proof. intros Hn Hidx Hv r. unfold r, insert_circuit. rewrite Hn, Nat.eqb_refl. cbn [negb].
  pose proof (insert_index_lt c ci i Hidx) as Hi.
  unfold insert_index in Hidx.
  destruct (Nat.eqb_spec (ncyc c) 0) as [E0|E0]; [discriminate|].
  assert (Hle : Z.leb (Z.of_nat (ncyc c)) ci = false /\
                (if Z.ltb ci (- Z.of_nat (ncyc c)) then 0 else normZ ci (ncyc c)) = i).
  { destruct (in_rangeZ ci (ncyc c)) eqn:R.
    - unfold in_rangeZ in R. apply andb_true_iff in R as [R1 R2]. apply Z.ltb_lt in R1. apply Z.leb_le in R2.
      split; [apply Z.leb_gt; lia|]. destruct (Z.ltb_spec ci (- Z.of_nat (ncyc c))); [lia|]. inversion Hidx. reflexivity.
    - destruct (Z.ltb_spec ci (- Z.of_nat (ncyc c))); [|discriminate]. split; [apply Z.leb_gt; lia|]. inversion Hidx. reflexivity. }
  destruct Hle as [Hle Hi2]. rewrite Hle, Hi2.
  destruct (inserts_at_index (map (map_loc location) (riter_ops (cycles sub))) c i q Hv Hi) as (O & F & S).
  split; [exact O|]. unfold tl. rewrite (firstn_skipn_tlc _ i q), F, S. reflexivity. Qed.
