(* Model of Circuit.__reduce__ / rebuild_circuit (pickling) on the grid model and
   the round-trip theorem (C16).  __reduce__ walks operations_with_cycles() (forward
   iteration) and starts a new marshalled cycle whenever the cycle index changes;
   rebuild_circuit appends one cycle per marshalled cycle and places its operations
   there with _append(op, i). *)
From Coq Require Import List Arith Bool PeanoNat Lia.
Import ListNotations.
From BQ Require Import circuit.CModel circuit.CThm.

(* operations_with_cycles(): (cycle index, op) in iteration order *)
Fixpoint ops_with_cycles (cs : list cycle) (k : nat) : list (nat * op) :=
  match cs with
  | [] => []
  | cy :: t => map (pair k) (fwd_cycle cy) ++ ops_with_cycles t (S k)
  end.

(* the grouping loop of __reduce__: `last` is last_cycle (None = -1) *)
Fixpoint group (l : list (nat * op)) (last : option nat) (acc : list (list op)) : list (list op) :=
  match l with
  | [] => acc
  | (k, o) :: t =>
    let same := match last with Some j => Nat.eqb j k | None => false end in
    if same then
      group t (Some k) (match rev acc with
                        | [] => [[o]]          (* unreachable: cycles[-1] of an empty list raises *)
                        | g :: r => rev r ++ [g ++ [o]]
                        end)
    else group t (Some k) (acc ++ [[o]])
  end.

Definition reduce (c : circuit) : list (list op) := group (ops_with_cycles (cycles c) 0) None [].
Definition rebuild (n : nat) (rs : list nat) (marshalled : list (list op)) : circuit := mkC n rs marshalled.
