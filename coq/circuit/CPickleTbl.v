(* Model of the GATE TABLE of Circuit.__reduce__ / rebuild_circuit (C16).

     gate_table = {}                          for gate in self.gate_set:  gate_table[gate] = len(serialized_gates); ...
     marshalled_op = (gate_table[op.gate], op.location._location, op.params)
     rebuild_circuit:  gate = gate_table[marshalled_op[0]]   (the i-th unpickled gate)

   self.gate_set is a Python set and gate_table a dict: both are keyed by the gates' own __hash__ / __eq__
   (a stored key k matches a looked-up gate g when hash(k) = hash(g) and k == g).  The gate type, its hash and its
   equality are parameters: the theorems of CPickleTblThm.v say exactly which property of them the round trip needs.
   X is the rest of a marshalled operation (location, parameters), shipped verbatim. *)
From Coq Require Import List Arith Bool PeanoNat.
Import ListNotations.

Section Table.
Variable G : Type.
Variable ghash : G -> nat.          (* Gate.__hash__ *)
Variable geq : G -> G -> bool.      (* Gate.__eq__   *)
Variable X : Type.

(* key match of set / dict *)
Definition keq (k g : G) : bool := Nat.eqb (ghash k) (ghash g) && geq k g.

(* set insertion: a gate matching a key already present is dropped *)
Fixpoint set_add (tbl : list G) (g : G) : list G :=
  match tbl with
  | [] => [g]
  | h :: t => if keq h g then h :: t else h :: set_add t g
  end.

(* the gate_set of a circuit whose operations carry the gates gs (some enumeration order; the theorems hold for
   every table that covers the operations, see roundtrip_injective) *)
Definition gate_set_of (gs : list G) : list G := fold_left set_add gs [].

(* gate_table[g] *)
Fixpoint lookup (tbl : list G) (g : G) : option nat :=
  match tbl with
  | [] => None
  | h :: t => if keq h g then Some 0 else option_map S (lookup t g)
  end.

Fixpoint marshal (tbl : list G) (ops : list (G * X)) : option (list (nat * X)) :=
  match ops with
  | [] => Some []
  | (g, x) :: t =>
    match lookup tbl g, marshal tbl t with
    | Some i, Some r => Some ((i, x) :: r)
    | _, _ => None                   (* KeyError *)
    end
  end.

Fixpoint unmarshal (tbl : list G) (ms : list (nat * X)) : option (list (G * X)) :=
  match ms with
  | [] => Some []
  | (i, x) :: t =>
    match nth_error tbl i, unmarshal tbl t with
    | Some g, Some r => Some ((g, x) :: r)
    | _, _ => None
    end
  end.

Definition roundtrip (tbl : list G) (ops : list (G * X)) : option (list (G * X)) :=
  match marshal tbl ops with Some ms => unmarshal tbl ms | None => None end.

Definition table_roundtrip (ops : list (G * X)) : option (list (G * X)) :=
  roundtrip (gate_set_of (map fst ops)) ops.
End Table.

(* Instance used by the extracted correspondence (harness/c16_families.py): a gate is (ident, hash class, == class) as
   observed on the real objects; ident numbers the distinct constructor states. *)
Definition ngate := (nat * (nat * nat))%type.
Definition n_hash (g : ngate) : nat := fst (snd g).
Definition n_eq (a b : ngate) : bool := Nat.eqb (snd (snd a)) (snd (snd b)).
Definition n_marshal (tbl : list ngate) (ops : list ngate) : option (list nat * list nat * nat) :=
  let ops' := map (fun g => (g, tt)) ops in
  match marshal ngate n_hash n_eq unit tbl ops' with
  | None => None
  | Some ms =>
    match unmarshal ngate unit tbl ms with
    | None => None
    | Some back => Some (map fst ms, map (fun o => fst (fst o)) back, length (gate_set_of ngate n_hash n_eq ops))
    end
  end.
