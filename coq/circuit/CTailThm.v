(* The tail of fold (CExt.fold_tail): batch_pop(region.points) + insert_circuit(min_cycle, popped, sorted keys,
   as_gate=True) on a straightened region replaces, on every qudit, the region's operations by one block, and the
   original timeline is the same with the popped operations in the block's place. *)
From Coq Require Import List Arith Bool PeanoNat ZArith Lia Permutation.
Import ListNotations.
From BQ Require Import circuit.CModel circuit.CThm circuit.CFold circuit.CFoldThm circuit.CThm2 circuit.CExt.
Open Scope nat_scope.

Theorem fold_is_tail c items :
  fold c items =
  let r := mk_region items in
  if negb (intervals_ok r) then (c, Err ValueError)
  else match r with
       | [] => (c, Err ValueError)
       | _ => match straighten_r c r with
              | (c1, SErr e) => (c1, Err e)
              | (c1, SOk r1 _ _) => fold_tail c1 r1
              end
       end.
Proof. reflexivity. Qed.

Theorem fold_x_is_tail fx c items :
  fold_x fx c items =
  let r := mk_region items in
  if negb (intervals_ok r) then (c, Err ValueError)
  else match r with
       | [] => (c, Err ValueError)
       | _ => match straighten_rx fx c r with
              | (c1, SErr e) => (c1, Err e)
              | (c1, SOk r1 _ _) => fold_tail c1 r1
              end
       end.
Proof. reflexivity. Qed.

(* ---- regions ---------------------------------------------------------------------------------- *)
Lemma r_points_in r i q : In (i, q) (r_points r) <-> exists lo hi, In (q, (lo, hi)) r /\ lo <= i <= hi.
Proof. unfold r_points. rewrite in_flat_map. split.
  - intros ([q' [lo hi]] & Hin & H). cbn [fst snd] in H. apply in_map_iff in H as (cy & E & Hs). inversion E; subst.
    apply in_seq in Hs. exists lo, hi. split; [exact Hin|lia].
  - intros (lo & hi & Hin & L). exists (q, (lo, hi)). split; [exact Hin|]. cbn [fst snd]. apply in_map_iff. exists i.
    split; [reflexivity|]. apply in_seq. lia. Qed.

Lemma r_get_in r q iv : NoDup (r_keys r) -> (r_get r q = Some iv <-> In (q, iv) r).
Proof. induction r as [|[q' iv'] t IH]; intros ND; cbn [r_get]; [split; [discriminate|intros []]|].
  cbn [r_keys map fst] in ND. inversion ND as [|? ? Hn ND']; subst. destruct (Nat.eqb_spec q q') as [->|Hne].
  - split; [intros E; inversion E; left; reflexivity|]. intros [E|Hin]; [inversion E; reflexivity|].
    exfalso. apply Hn. change (In (fst (q', iv)) (map fst t)). apply in_map. exact Hin.
  - rewrite (IH ND'). split; [intros H; right; exact H|]. intros [E|H]; [inversion E; congruence|exact H]. Qed.

Lemma in_region_points r i q : NoDup (r_keys r) -> (in_region r i q = true <-> In (i, q) (r_points r)).
Proof. intros ND. rewrite r_points_in. unfold in_region. destruct (r_get r q) as [[lo hi]|] eqn:E.
  - rewrite andb_true_iff, !Nat.leb_le. split.
    + intros L. exists lo, hi. split; [apply (r_get_in r q (lo, hi) ND); exact E|exact L].
    + intros (lo' & hi' & Hin & L). apply (r_get_in r q (lo', hi') ND) in Hin. rewrite E in Hin. inversion Hin; subst. exact L.
  - split; [discriminate|]. intros (lo' & hi' & Hin & L). apply (r_get_in r q (lo', hi') ND) in Hin. congruence. Qed.

Lemma hit_region r i o : NoDup (r_keys r) -> hit (r_points r) i o = existsb (in_region r i) (o_loc o).
Proof. intros ND. apply Bool.eq_iff_eq_true. unfold hit. rewrite !existsb_exists. split.
  - intros ([i' q] & Hin & E). cbn [fst snd] in E. apply andb_true_iff in E as [E1 E2]. apply Nat.eqb_eq in E1. subst i'.
    exists q. split; [apply memn_In; exact E2|]. apply in_region_points; assumption.
  - intros (q & Hq & E). exists (i, q). split; [apply in_region_points; assumption|]. cbn [fst snd].
    rewrite Nat.eqb_refl. cbn [andb]. apply memn_In. exact Hq. Qed.

Lemma npts_zpoints r n1 n2 : map (fun p => (normZ (fst p) n1, normZ (snd p) n2)) (zpoints r) = r_points r.
Proof. unfold zpoints. rewrite map_map. apply map_id_in. intros [i q] _. cbn [fst snd]. rewrite !normZ_nat. reflexivity. Qed.

Lemma nonempty_in {A} (l : list A) : l <> [] -> exists x, In x l.
Proof. destruct l as [|x t]; [congruence|]. intros _. exists x. left. reflexivity. Qed.

Lemma tail_ok_parts c r : tail_ok c r = true ->
  r <> [] /\ aligned_b c r = true /\ closed_b c r = true /\ populated_b c r = true /\ used_b c r = true.
Proof. unfold tail_ok. destruct r as [|e t]; [discriminate|]. intros H. apply andb_true_iff in H as [H H4]. apply andb_true_iff in H as [H H3]. apply andb_true_iff in H as [H1 H2].
  split; [discriminate|]. auto. Qed.

(* ---- what the boolean side conditions mean ------------------------------------------------------- *)
Section Tail.
Variable c : circuit.
Variable r : region.
Hypothesis HI : Inv c.
Hypothesis Hok : tail_ok c r = true.
Let m := r_min_cycle r.
Let npts := r_points r.
Let K := sort_nat (r_keys r).

Lemma ok_parts : r <> [] /\ aligned_b c r = true /\ closed_b c r = true /\ populated_b c r = true /\ used_b c r = true.
Proof. exact (tail_ok_parts c r Hok). Qed.

Lemma keys_nodup : NoDup (r_keys r).
Proof. destruct ok_parts as (_ & A & _). unfold aligned_b in A. apply andb_true_iff in A as [_ A]. apply nodupn_NoDup. exact A. Qed.

Lemma aligned q lo hi : In (q, (lo, hi)) r -> lo = m /\ lo <= hi /\ hi < ncyc c /\ q < nq c.
Proof. destruct ok_parts as (_ & A & _). unfold aligned_b in A. apply andb_true_iff in A as [A _]. rewrite forallb_forall in A.
  intros Hin. specialize (A _ Hin). cbn [fst snd] in A. repeat (apply andb_true_iff in A as [A ?]).
  apply Nat.eqb_eq in A. apply Nat.leb_le in H1. apply Nat.ltb_lt in H0. apply Nat.ltb_lt in H. auto. Qed.

Lemma closed i o q : In o (cycle_at c i) -> hit npts i o = true -> In q (o_loc o) -> in_region r i q = true.
Proof. intros Ho Hh Hq. destruct ok_parts as (_ & _ & C & _). unfold closed_b in C. rewrite forallb_forall in C.
  assert (Hi : i < ncyc c).
  { unfold ncyc, cycle_at in *. destruct (Nat.lt_ge_cases i (length (cycles c))); auto. rewrite nth_overflow in Ho by assumption. destruct Ho. }
  specialize (C i). rewrite in_seq in C. specialize (C (conj (Nat.le_0_l _) Hi)). rewrite forallb_forall in C. specialize (C o Ho).
  unfold npts in Hh. rewrite (hit_region r i o keys_nodup) in Hh. rewrite Hh in C. cbn [negb orb] in C.
  rewrite forallb_forall in C. auto. Qed.

Lemma points_ge p : In p npts -> m <= fst p /\ fst p < ncyc c /\ snd p < nq c.
Proof. destruct p as [i q]. intros H. apply r_points_in in H as (lo & hi & Hin & L). destruct (aligned q lo hi Hin) as (Elo & ? & ? & ?).
  cbn [fst snd]. lia. Qed.

Lemma m_le : m <= ncyc c.
Proof. destruct ok_parts as (Hne & _). destruct (nonempty_in r Hne) as ([q [lo hi]] & Hin).
  destruct (aligned q lo hi Hin) as (Elo & ? & ? & ?). lia. Qed.

Lemma pts_in_range : forallb (fun p => point_in_range c (fst p) (snd p)) (zpoints r) = true.
Proof. apply forallb_forall. intros p Hp. unfold zpoints in Hp. apply in_map_iff in Hp as ([i q] & <- & Hin).
  destruct (points_ge (i, q) Hin) as (_ & ? & ?). cbn [fst snd] in *. unfold point_in_range. rewrite !in_rangeZ_nat by assumption. reflexivity. Qed.

Lemma some_hit : exists p o, In p (zpoints r) /\ get_cell c (normZ (fst p) (ncyc c)) (normZ (snd p) (nq c)) = Some o.
Proof. destruct ok_parts as (Hne & _ & _ & P & _). destruct (nonempty_in r Hne) as (e & He). unfold populated_b in P.
  rewrite forallb_forall in P. specialize (P e He). apply existsb_exists in P as (i & Hi & G).
  cbv beta in G. assert (Ho : exists o, get_cell c i (fst e) = Some o).
  { revert G. match goal with |- context[match ?t with _ => _ end] => destruct t as [o|] eqn:Gc end; intros G; [|discriminate G]. exists o. exact Gc. }
  destruct Ho as [o Gc].
  exists (Z.of_nat i, Z.of_nat (fst e)), o. cbn [fst snd]. rewrite !normZ_nat. split; [|exact Gc].
  unfold zpoints. apply in_map_iff. exists (i, fst e). split; [reflexivity|]. apply in_seq in Hi. destruct e as [q [lo hi]]. cbn [fst snd] in *.
  apply r_points_in. exists lo, hi. split; [exact He|lia]. Qed.

(* ---- the popped circuit ------------------------------------------------------------------------------ *)
Lemma popped_is_bp : popped_ops c r = bp_ops c (zpoints r).
Proof. unfold popped_ops, bp_ops. rewrite npts_zpoints. reflexivity. Qed.

Lemma nat_list_eqb'_eq x : forall y, nat_list_eqb' x y = true -> x = y.
Proof. induction x as [|a x IH]; intros [|b y]; cbn; try discriminate; auto.
  intros H. apply andb_true_iff in H as [H1 H2]. apply Nat.eqb_eq in H1. rewrite (IH y H2). congruence. Qed.

Lemma used_K : used_qudits (bp_ops c (zpoints r)) = K.
Proof. destruct ok_parts as (_ & _ & _ & _ & U). unfold used_b in U. apply nat_list_eqb'_eq in U. rewrite popped_is_bp in U. exact U. Qed.

Lemma appends_rads ops : forall s, rads (fold_left (fun s o => fst (append_raw s o)) ops s) = rads s.
Proof. induction ops as [|o t IH]; intros s; cbn [fold_left]; [reflexivity|]. rewrite IH. apply append_raw_nq. Qed.

Lemma sub_shape sub : snd (batch_pop c (zpoints r)) = OkC sub ->
  nq sub = length K /\ rads sub = map (fun q => nth q (rads c) 0) K /\ Inv sub.
Proof. intros Hs. rewrite <- used_K. revert Hs. unfold batch_pop. destruct (negb _); [discriminate|]. cbn zeta.
  destruct (dedup_pts _) as [|id0 idr] eqn:Eids; [discriminate|]. rewrite <- Eids. cbn [snd]. intros E. inversion E as [Es]. clear E.
  fold (bp_ops c (zpoints r)). set (qs := used_qudits (bp_ops c (zpoints r))).
  assert (Hf : forall l s, fold_left (fun (s : circuit) (o : op) => fst (append_raw s (set_loc o (map (fun q0 => index_of q0 qs) (o_loc o))))) l s
                           = fold_left (fun s o' => fst (append_raw s o')) (map (relab (fun a => index_of a qs)) l) s)
    by (induction l as [|x l IHl]; intros s; cbn [fold_left map]; auto; rewrite IHl; reflexivity).
  rewrite !Hf. rewrite appends_nq, appends_rads. cbn [nq rads]. repeat split.
  apply appends_inv. constructor. Qed.

Lemma nq_rads_fold {X} (f g : X -> nat) l : forall c0,
  nq (fold_left (fun c p => remove_op c (f p) (g p)) l c0) = nq c0 /\ rads (fold_left (fun c p => remove_op c (f p) (g p)) l c0) = rads c0.
Proof. induction l as [|x l IH]; intros c0; cbn [fold_left]; [auto|]. destruct (IH (remove_op c0 (f x) (g x))) as [-> ->]. apply remove_op_nq. Qed.

Lemma batch_pop_nq : nq (fst (batch_pop c (zpoints r))) = nq c /\ rads (fst (batch_pop c (zpoints r))) = rads c.
Proof. unfold batch_pop. destruct (negb _); [auto|]. cbn zeta. destruct (dedup_pts _) as [|id0 idr] eqn:Eids; [auto|]. cbn [fst].
  apply (nq_rads_fold (fun p : nat * op => fst p) (fun p => hd0 (o_loc (snd p)))). Qed.

Lemma remove_at_overflow {A} i (l : list A) : length l <= i -> remove_at i l = l.
Proof. revert i. induction l as [|x l IH]; intros i H; [destruct i; reflexivity|]. destruct i; cbn in *; [lia|]. rewrite IH by lia. reflexivity. Qed.

Lemma remove_op_prefix c0 i q k : k <= i -> firstn k (cycles (remove_op c0 i q)) = firstn k (cycles c0).
Proof. intros L. destruct (Nat.lt_ge_cases i (ncyc c0)) as [Hi|Hi].
  - rewrite (remove_op_cycles c0 i q Hi). rewrite firstn_app. rewrite firstn_firstn. rewrite (firstn_len (cycles c0) i) by (unfold ncyc in Hi; lia).
    replace (k - i) with 0 by lia. replace (Nat.min k i) with k by lia. cbn [firstn]. apply app_nil_r.
  - unfold remove_op, cycle_at. rewrite nth_overflow by exact Hi. cbn [filter cycles]. rewrite remove_at_overflow by exact Hi. reflexivity. Qed.

Lemma fold_remove_prefix {X} (f g : X -> nat) k l : forall c0,
  (forall x, In x l -> k <= f x) ->
  firstn k (cycles (fold_left (fun c p => remove_op c (f p) (g p)) l c0)) = firstn k (cycles c0).
Proof. induction l as [|x l IH]; intros c0 H; cbn [fold_left]; [reflexivity|].
  rewrite IH by (intros; apply H; right; assumption). apply remove_op_prefix. apply H. left. reflexivity. Qed.

Lemma batch_pop_prefix : firstn m (cycles (fst (batch_pop c (zpoints r)))) = firstn m (cycles c).
Proof. unfold batch_pop. destruct (negb _); [reflexivity|]. cbn zeta. destruct (dedup_pts _) as [|id0 idr] eqn:Eids; [reflexivity|].
  rewrite <- Eids. cbn [fst].
  apply (fold_remove_prefix (fun p : nat * op => fst p) (fun p => hd0 (o_loc (snd p)))).
  intros [i o] Hx. apply in_rev in Hx. apply (cops_spec c HI (zpoints r)) in Hx as [_ Hh]. rewrite npts_zpoints in Hh.
  apply hit_true in Hh as (p & Hp & E & _). cbn [fst]. rewrite <- E. apply (points_ge p Hp). Qed.

Lemma no_hit_below j o : j < m -> hit npts j o = false.
Proof. intros L. apply hit_none. intros p Hp E. destruct (points_ge p Hp) as (G & _). lia. Qed.

Lemma filt_prefix : filt npts 0 (cycles c) = firstn m (cycles c) ++ filt npts m (skipn m (cycles c)).
Proof. rewrite <- (firstn_skipn m (cycles c)) at 1. rewrite filt_app. cbn [plus].
  rewrite (firstn_len (cycles c) m) by (pose proof m_le; unfold ncyc in *; lia). f_equal.
  rewrite (filt_ext npts [] 0 (firstn m (cycles c))).
  - apply filt_id. reflexivity.
  - intros j o Hj. rewrite firstn_len in Hj by (pose proof m_le; unfold ncyc in *; lia). cbn [hit existsb]. apply no_hit_below. lia. Qed.

Lemma radix_ok_self R l : radix_ok (map (fun q => nth q R 0) l) l R = true.
Proof. induction l as [|q l IH]; cbn; [reflexivity|]. rewrite Nat.eqb_refl, IH. reflexivity. Qed.

Lemma ins_nat_perm x l : Permutation (ins_nat x l) (x :: l).
Proof. induction l as [|y l IH]; cbn; [apply Permutation_refl|]. destruct (Nat.leb x y); [apply Permutation_refl|].
  eapply Permutation_trans; [apply perm_skip; exact IH|apply perm_swap]. Qed.
Lemma sort_nat_perm l : Permutation (sort_nat l) l.
Proof. induction l as [|x l IH]; cbn; [constructor|]. eapply Permutation_trans; [apply ins_nat_perm|apply perm_skip; exact IH]. Qed.

Lemma K_in q : In q K <-> In q (r_keys r).
Proof. unfold K. split; intros H; [eapply Permutation_in; [apply sort_nat_perm|exact H]|eapply Permutation_in; [apply Permutation_sym; apply sort_nat_perm|exact H]]. Qed.

Lemma key_lt q : In q (r_keys r) -> q < nq c.
Proof. intros H. apply in_map_iff in H as ([q' [lo hi]] & E & Hin). cbn in E. subst q'. apply (aligned q lo hi Hin). Qed.

(* ---- the theorem: the region's operations are replaced by one block --------------------------------------- *)
Theorem fold_tail_replaces q :
  exists sub, snd (batch_pop c (zpoints r)) = OkC sub /\
  let blk := block_of sub K in
  nq sub = length K /\ Inv sub /\
  snd (fold_tail c r) = OkN (Z.of_nat m) /\
  tl (fst (fold_tail c r)) q = tlc (firstn m (cycles c)) q ++ one q blk ++ tlc (filt npts m (skipn m (cycles c))) q.
Proof. destruct (batch_pop_removed_tl c (zpoints r) q HI pts_in_range some_hit) as (sub & Es & T). rewrite npts_zpoints in T. fold npts in T.
  exists sub. split; [exact Es|]. intros blk. destruct (sub_shape sub Es) as (Hn & Hr & Hs). split; [exact Hn|]. split; [exact Hs|].
  pose proof batch_pop_prefix as Pf. pose proof batch_pop_nq as (N1 & N2).
  unfold fold_tail. destruct (batch_pop c (zpoints r)) as [c2 o2]. cbn [fst snd] in *. subst o2.
  unfold insert_circuit. rewrite Hn, Nat.eqb_refl. cbn [negb]. fold K. fold blk. fold m.
  assert (V : valid_op c2 blk = true).
  { unfold valid_op, blk, block_of. cbn [o_loc o_rad]. rewrite N1, N2, Hr, radix_ok_self, andb_true_r.
    apply forallb_forall. intros a Ha. apply Nat.ltb_lt. apply key_lt. apply K_in. exact Ha. }
  pose proof (insert_out c2 (Z.of_nat m) blk V) as O. pose proof (insert_tl c2 (Z.of_nat m) blk q V) as IT.
  destruct (insert c2 (Z.of_nat m) blk) as [c3 o3]. cbn [fst snd] in *. subst o3. cbn [fst snd]. split; [reflexivity|].
  assert (IT' : tl c3 q = tlc (firstn m (cycles c2)) q ++ one q blk ++ tlc (skipn m (cycles c2)) q).
  { rewrite IT. unfold insert_index. destruct (Nat.eqb_spec (ncyc c2) 0) as [E0|E0].
    - unfold ncyc in E0. apply length_zero_iff_nil in E0. unfold tl. rewrite E0. rewrite firstn_nil, skipn_nil. cbn. rewrite app_nil_r. reflexivity.
    - destruct (Nat.lt_ge_cases m (ncyc c2)) as [L|L].
      + rewrite in_rangeZ_nat by exact L. rewrite normZ_nat. reflexivity.
      + assert (R0 : in_rangeZ (Z.of_nat m) (ncyc c2) = false) by (unfold in_rangeZ; apply andb_false_iff; left; apply Z.ltb_ge; lia).
        rewrite R0. assert (R1 : (Z.of_nat m <? - Z.of_nat (ncyc c2))%Z = false) by (apply Z.ltb_ge; lia). rewrite R1.
        unfold ncyc in L. rewrite firstn_all2 by exact L. rewrite skipn_all2 by exact L. cbn. rewrite app_nil_r. reflexivity. }
  rewrite IT'. rewrite Pf. f_equal. f_equal.
  unfold tl in T. rewrite filt_prefix in T. rewrite (firstn_skipn_tlc (cycles c2) m q), Pf, tlc_app in T.
  apply app_inv_head in T. exact T. Qed.

(* ---- ... and the original timeline is the same with the popped operations in the block's place --------------- *)
Definition popped_on (q : nat) : list op :=
  flat_map (fun i => filter (touches q) (filter (hit npts i) (cycle_at c i))) (seq 0 (ncyc c)).

Lemma filter_both_all (h : op -> bool) q cy : (forall o, In o cy -> touches q o = true -> h o = true) ->
  filter (touches q) (filter h cy) = filter (touches q) cy /\ filter (touches q) (filter (fun o => negb (h o)) cy) = [].
Proof. intros H. rewrite !filter_filter. split.
  - apply filter_ext_in'. intros o Ho. destruct (touches q o) eqn:T; [rewrite (H o Ho T); reflexivity|apply andb_false_r].
  - apply filter_nil_iff. intros o Ho. destruct (touches q o) eqn:T; [rewrite (H o Ho T); reflexivity|apply andb_false_r]. Qed.

Lemma filter_both_none (h : op -> bool) q cy : (forall o, In o cy -> touches q o = true -> h o = false) ->
  filter (touches q) (filter h cy) = [] /\ filter (touches q) (filter (fun o => negb (h o)) cy) = filter (touches q) cy.
Proof. intros H. rewrite !filter_filter. split.
  - apply filter_nil_iff. intros o Ho. destruct (touches q o) eqn:T; [rewrite (H o Ho T); reflexivity|apply andb_false_r].
  - apply filter_ext_in'. intros o Ho. destruct (touches q o) eqn:T; [rewrite (H o Ho T); reflexivity|apply andb_false_r]. Qed.

(* the popped part of a list of cycles starting at index k *)
Definition popped_from (q k : nat) (cs : list cycle) : list op :=
  flat_map (fun p => filter (touches q) (filter (hit npts (fst p)) (snd p))) (combine (seq k (length cs)) cs).

Lemma popped_from_none q : forall cs k,
  (forall j o, j < length cs -> In o (nth j cs []) -> touches q o = true -> hit npts (k + j) o = false) ->
  popped_from q k cs = [] /\ tlc (filt npts k cs) q = tlc cs q.
Proof. induction cs as [|cy cs IH]; intros k H; [split; reflexivity|]. unfold popped_from in *. cbn [length seq combine flat_map fst snd filt].
  destruct (filter_both_none (hit npts k) q cy) as [E1 E2].
  { intros o Ho T. specialize (H 0 o). rewrite Nat.add_0_r in H. apply H; cbn; [lia|exact Ho|exact T]. }
  destruct (IH (S k)) as [I1 I2].
  { intros j o Hj Ho T. replace (S k + j) with (k + S j) by lia. apply H; cbn; [lia|exact Ho|exact T]. }
  rewrite E1, I1. split; [reflexivity|]. rewrite !tlc_cons, E2, I2. reflexivity. Qed.

Lemma popped_threshold q t : forall cs k,
  (forall j o, j < length cs -> In o (nth j cs []) -> touches q o = true -> hit npts (k + j) o = Nat.ltb (k + j) t) ->
  tlc cs q = popped_from q k cs ++ tlc (filt npts k cs) q.
Proof. induction cs as [|cy cs IH]; intros k H; [reflexivity|].
  destruct (Nat.ltb k t) eqn:Lt.
  - unfold popped_from in *. cbn [length seq combine flat_map fst snd filt]. rewrite !tlc_cons.
    destruct (filter_both_all (hit npts k) q cy) as [E1 E2].
    { intros o Ho T. specialize (H 0 o). rewrite Nat.add_0_r in H. rewrite H; cbn; [exact Lt|lia|exact Ho|exact T]. }
    rewrite E1, E2. cbn [app]. rewrite <- app_assoc. f_equal. apply IH.
    intros j o Hj Ho T. replace (S k + j) with (k + S j) by lia. apply H; cbn; [lia|exact Ho|exact T].
  - destruct (popped_from_none q (cy :: cs) k) as [E1 E2].
    { intros j o Hj Ho T. rewrite (H j o Hj Ho T). apply Nat.ltb_ge. apply Nat.ltb_ge in Lt. lia. }
    rewrite E1, E2. reflexivity. Qed.

Lemma flat_map_map' {A B C} (f : B -> list C) (g : A -> B) l : flat_map f (map g l) = flat_map (fun x => f (g x)) l.
Proof. induction l as [|x l IH]; cbn; [reflexivity|]. rewrite IH. reflexivity. Qed.

Lemma popped_from_seq q cs : forall k,
  popped_from q k cs = flat_map (fun j => filter (touches q) (filter (hit npts (k + j)) (nth j cs []))) (seq 0 (length cs)).
Proof. induction cs as [|cy cs IH]; intros k; [reflexivity|]. unfold popped_from in *. cbn [length seq combine flat_map fst snd nth].
  rewrite Nat.add_0_r. f_equal. rewrite IH. rewrite <- seq_shift, flat_map_map'.
  apply flat_map_ext. intros j. replace (S k + j) with (k + S j) by lia. reflexivity. Qed.

Lemma popped_from_app q a b k : popped_from q k (a ++ b) = popped_from q k a ++ popped_from q (k + length a) b.
Proof. revert k. induction a as [|cy a IH]; intros k; [cbn [app length]; rewrite Nat.add_0_r; reflexivity|].
  unfold popped_from in *. cbn [app length seq combine flat_map fst snd]. rewrite IH, <- app_assoc. replace (S k + length a) with (k + S (length a)) by lia. reflexivity. Qed.

Theorem fold_tail_original q :
  tl c q = tlc (firstn m (cycles c)) q ++ popped_on q ++ tlc (filt npts m (skipn m (cycles c))) q.
Proof. unfold tl. rewrite (firstn_skipn_tlc (cycles c) m q) at 1. f_equal.
  assert (Lm : length (firstn m (cycles c)) = m) by (apply firstn_len; pose proof m_le; unfold ncyc in *; lia).
  assert (E : popped_on q = popped_from q m (skipn m (cycles c))).
  { assert (E0 : popped_on q = popped_from q 0 (cycles c)) by (rewrite popped_from_seq; reflexivity). rewrite E0.
    rewrite <- (firstn_skipn m (cycles c)) at 1. rewrite popped_from_app, Lm. cbn [plus].
    assert (N : popped_from q 0 (firstn m (cycles c)) = []).
    { apply popped_from_none. intros j o Hj _ _. apply no_hit_below. cbn [plus]. unfold cycle in *. lia. }
    rewrite N. reflexivity. }
  rewrite E. clear E.
  (* the threshold on qudit q: one past its interval, or m when q is not in the region *)
  set (t := match r_get r q with Some (_, hi) => S hi | None => m end).
  apply (popped_threshold q t). intros j o Hj Ho T.
  assert (Ho' : In o (cycle_at c (m + j))) by (unfold cycle_at; rewrite <- nth_skipn'; exact Ho).
  assert (Hq : In q (o_loc o)) by (apply memn_In; exact T).
  destruct (hit npts (m + j) o) eqn:Hh.
  - pose proof (closed (m + j) o q Ho' Hh Hq) as IR. unfold in_region in IR. unfold t. destruct (r_get r q) as [[lo hi]|]; [|discriminate].
    apply andb_true_iff in IR as [_ IR]. apply Nat.leb_le in IR. symmetry. apply Nat.ltb_lt. lia.
  - symmetry. apply Nat.ltb_ge. unfold t. destruct (r_get r q) as [[lo hi]|] eqn:G; [|lia].
    destruct (Nat.lt_ge_cases (m + j) (S hi)) as [L|L]; [exfalso|exact L].
    apply (r_get_in r q (lo, hi) keys_nodup) in G. destruct (aligned q lo hi G) as (Elo & _).
    assert (IP : In (m + j, q) npts) by (apply r_points_in; exists lo, hi; split; [exact G|lia]).
    assert (hit npts (m + j) o = true); [|congruence].
    unfold hit. apply existsb_exists. exists (m + j, q). split; [exact IP|]. cbn [fst snd]. rewrite Nat.eqb_refl, T. reflexivity. Qed.

(* the block's inner circuit shows, on the renumbered qudit, exactly the popped operations in order ... *)
Theorem fold_tail_block q sub : snd (batch_pop c (zpoints r)) = OkC sub -> In q K ->
  tl sub (index_of q K) = map (relab (fun a => index_of a K)) (popped_on q).
Proof. intros Hs Hq. pose proof (batch_pop_returned_tl c (zpoints r) q sub HI Hs) as T. cbv zeta in T.
  rewrite used_K, npts_zpoints in T. apply T. exact Hq. Qed.

(* ... and a qudit outside the region loses nothing *)
Theorem fold_tail_outside q : ~ In q K -> popped_on q = [].
Proof. intros Hq. unfold popped_on. apply flat_map_all_nil. intros i _. apply filter_nil_iff. intros o Ho.
  apply filter_In in Ho as [Ho Hh]. destruct (touches q o) eqn:T; [exfalso|reflexivity].
  pose proof (closed i o q Ho Hh (proj1 (memn_In q (o_loc o)) T)) as IR. unfold in_region in IR.
  destruct (r_get r q) as [iv|] eqn:G; [|discriminate]. apply Hq. apply K_in.
  apply (r_get_in r q iv keys_nodup) in G. change q with (fst (q, iv)). apply in_map. exact G. Qed.
End Tail.

Theorem fold_tail_block_both c r q sub :
  Inv c -> tail_ok c r = true -> snd (batch_pop c (zpoints r)) = OkC sub ->
  let K := sort_nat (r_keys r) in
  (In q K -> tl sub (index_of q K) = map (relab (fun a => index_of a K)) (popped_on c r q))
  /\ (~ In q K -> popped_on c r q = []).
Proof. intros HI Hok Hs K. split; [exact (fold_tail_block c r HI Hok q sub Hs)|exact (fold_tail_outside c r Hok q)]. Qed.
