(* The dependency views of bqskit/ir/circuit.py as FUNCTIONS of the cycle grid
   (property C05): what the implementation maintains incrementally in `_front`,
   `_rear`, `_dag`, `_gate_info`, `_graph_info` and reports through `first_on`,
   `last_on`, `next`, `prev`, `front`, `rear`, `num_operations`, `gate_counts`,
   `coupling_graph`, `active_qudits`, `depth`, and the default iteration order
   (`CircuitDagIterator` of bqskit/ir/iterator.py) are defined here from the grid
   alone.  The harness compares them with the implementation's after every call
   of every editing history.  A point is (cycle, location[0]).  No proofs in this
   file (CViewsThm.v). *)
From Coq Require Import List Arith Bool PeanoNat ZArith.
Import ListNotations.
From BQ Require Import circuit.CModel.
Open Scope nat_scope.

Definition pt := (nat * nat)%type.
Definition pt_of (i : nat) (o : op) : pt := (i, hd0 (o_loc o)).
Definition pt_eqb (a b : pt) : bool := Nat.eqb (fst a) (fst b) && Nat.eqb (snd a) (snd b).
(* tuple order of Python: by cycle, then by qudit *)
Definition pt_ltb (a b : pt) : bool :=
  Nat.ltb (fst a) (fst b) || (Nat.eqb (fst a) (fst b) && Nat.ltb (snd a) (snd b)).
Definition pt_leb (a b : pt) : bool := negb (pt_ltb b a).

(* operations_with_cycles(): (cycle, operation) in iteration order *)
Fixpoint owc (cs : list cycle) (k : nat) : list (nat * op) :=
  match cs with
  | [] => []
  | cy :: t => map (pair k) (fwd_cycle cy) ++ owc t (S k)
  end.
Definition ops_with_cycles (c : circuit) : list (nat * op) := owc (cycles c) 0.
Definition points (c : circuit) : list pt := map (fun p => pt_of (fst p) (snd p)) (ops_with_cycles c).

(* ---- _front / _rear : first and last operation on a qudit ------------------------ *)
Fixpoint first_from (cs : list cycle) (q k : nat) : option pt :=
  match cs with
  | [] => None
  | cy :: t => match cell cy q with
               | Some o => Some (pt_of k o)
               | None => first_from t q (S k)
               end
  end.
Fixpoint last_from (cs : list cycle) (q k : nat) : option pt :=
  match cs with
  | [] => None
  | cy :: t => match last_from t q (S k) with
               | Some p => Some p
               | None => match cell cy q with Some o => Some (pt_of k o) | None => None end
               end
  end.
Definition first_on (c : circuit) (q : nat) : option pt := first_from (cycles c) q 0.
Definition last_on (c : circuit) (q : nat) : option pt := last_from (cycles c) q 0.

(* ---- _dag : for the operation at cycle i, per qudit of its location ---------------- *)
Definition next_on (c : circuit) (i q : nat) : option pt := first_from (skipn (S i) (cycles c)) q (S i).
Definition prev_on (c : circuit) (i q : nat) : option pt := last_from (firstn i (cycles c)) q 0.

(* the _dag entry of a point: ([(q, prev)], [(q, next)]) for q in the location *)
Definition dag_entry (c : circuit) (p : pt) : option (list (nat * option pt) * list (nat * option pt)) :=
  match get_cell c (fst p) (snd p) with
  | None => None
  | Some o => Some (map (fun q => (q, prev_on c (fst p) q)) (o_loc o),
                    map (fun q => (q, next_on c (fst p) q)) (o_loc o))
  end.

(* sets of points are kept as strictly increasing lists *)
Fixpoint pt_insert (p : pt) (l : list pt) : list pt :=
  match l with
  | [] => [p]
  | x :: t => if pt_ltb p x then p :: l else if pt_eqb p x then l else x :: pt_insert p t
  end.
Definition pt_set (l : list pt) : list pt := fold_right pt_insert [] l.
Definition somes {A} (l : list (option A)) : list A :=
  flat_map (fun x => match x with Some a => [a] | None => [] end) l.

(* Circuit.next(point) / Circuit.prev(point) *)
Definition nexts (c : circuit) (p : pt) : list pt :=
  match get_cell c (fst p) (snd p) with
  | None => []
  | Some o => pt_set (somes (map (next_on c (fst p)) (o_loc o)))
  end.
Definition prevs (c : circuit) (p : pt) : list pt :=
  match get_cell c (fst p) (snd p) with
  | None => []
  | Some o => pt_set (somes (map (prev_on c (fst p)) (o_loc o)))
  end.

(* Circuit.front / Circuit.rear *)
Definition front (c : circuit) : list pt :=
  pt_set (filter (fun p => match prevs c p with [] => true | _ => false end)
                 (somes (map (first_on c) (seq 0 (nq c))))).
Definition rear (c : circuit) : list pt :=
  pt_set (filter (fun p => match nexts c p with [] => true | _ => false end)
                 (somes (map (last_on c) (seq 0 (nq c))))).

(* ---- counters --------------------------------------------------------------------- *)
Definition num_operations (c : circuit) : nat := fold_right (fun cy n => length cy + n) 0 (cycles c).

(* structural equality of operations *)
Fixpoint nat_list_eqb (x y : list nat) : bool :=
  match x, y with [], [] => true | u :: x', v :: y' => Nat.eqb u v && nat_list_eqb x' y' | _, _ => false end.
Fixpoint z_list_eqb (x y : list Z) : bool :=
  match x, y with [], [] => true | u :: x', v :: y' => Z.eqb u v && z_list_eqb x' y' | _, _ => false end.
Fixpoint op_eqb (a b : op) {struct a} : bool :=
  let 'Op b1 g1 l1 p1 r1 s1 := a in
  let 'Op b2 g2 l2 p2 r2 s2 := b in
  Bool.eqb b1 b2 && Nat.eqb g1 g2 && nat_list_eqb l1 l2 && z_list_eqb p1 p2 && nat_list_eqb r1 r2
  && (fix ce (x y : list (list op)) {struct x} : bool :=
        match x, y with
        | [], [] => true
        | u :: x', v :: y' =>
          (fix oe (x y : list op) {struct x} : bool :=
             match x, y with
             | [], [] => true
             | u :: x', v :: y' => op_eqb u v && oe x' y'
             | _, _ => false
             end) u v && ce x' y'
        | _, _ => false
        end) s1 s2.

(* the gate of an operation: the operation without its location and parameters
   (a CircuitGate is identified by its inner circuit) *)
Definition gate_key (o : op) : op := Op (o_isblk o) (o_gate o) [] [] (o_rad o) (o_sub o).

Fixpoint count_add {K} (eqb : K -> K -> bool) (k : K) (l : list (K * nat)) : list (K * nat) :=
  match l with
  | [] => [(k, 1)]
  | (k', n) :: t => if eqb k k' then (k', S n) :: t else (k', n) :: count_add eqb k t
  end.

(* _gate_info *)
Definition gate_counts (c : circuit) : list (op * nat) :=
  fold_left (fun acc o => count_add op_eqb (gate_key o) acc) (iter_ops (cycles c)) [].

(* CircuitLocation.pairs: the ordered pairs (a < b) of distinct qudits of a location, as a set *)
Definition loc_pairs (loc : list nat) : list pt :=
  pt_set (flat_map (fun q1 => flat_map (fun q2 => if Nat.eqb q1 q2 then [] else [(Nat.min q1 q2, Nat.max q1 q2)]) loc) loc).

(* _graph_info *)
Definition graph_info (c : circuit) : list (pt * nat) :=
  fold_left (fun acc o => fold_left (fun acc p => count_add pt_eqb p acc) (loc_pairs (o_loc o)) acc)
            (iter_ops (cycles c)) [].

Definition active_qudits (c : circuit) : list nat :=
  filter (fun q => match first_on c q with Some _ => true | None => false end) (seq 0 (nq c)).

(* depth: length of the critical path *)
Fixpoint set_all (qs : list nat) (v : nat) (d : list nat) : list nat :=
  match qs with [] => d | q :: t => set_all t v (update_at q (fun _ => v) d) end.
Definition depth_step (d : list nat) (o : op) : list nat :=
  set_all (o_loc o) (S (maxl (map (fun q => nth q d 0) (o_loc o)))) d.
Definition depth (c : circuit) : nat :=
  maxl (fold_left depth_step (iter_ops (cycles c)) (repeat 0 (nq c))).

(* ---- CircuitDagIterator ------------------------------------------------------------- *)
(* heapq.heappop: the least point of the frontier and the rest *)
Fixpoint pop_min (l : list pt) : option (pt * list pt) :=
  match l with
  | [] => None
  | x :: t => match pop_min t with
              | None => Some (x, [])
              | Some (m, r) => if pt_leb x m then Some (x, t) else Some (m, x :: r)
              end
  end.

(* prev_binned_counts *)
Fixpoint cnt_get (p : pt) (l : list (pt * nat)) : option nat :=
  match l with [] => None | (k, n) :: t => if pt_eqb p k then Some n else cnt_get p t end.
Fixpoint cnt_del (p : pt) (l : list (pt * nat)) : list (pt * nat) :=
  match l with [] => [] | (k, n) :: t => if pt_eqb p k then t else (k, n) :: cnt_del p t end.
Fixpoint cnt_set (p : pt) (v : nat) (l : list (pt * nat)) : list (pt * nat) :=
  match l with [] => [(p, v)] | (k, n) :: t => if pt_eqb p k then (k, v) :: t else (k, n) :: cnt_set p v t end.

Record dag_state := mkDS { frontier : list pt; binned : list (pt * nat) }.

Definition dag_init (c : circuit) : dag_state :=
  mkDS (front c) (map (fun p => (p, 0)) (front c)).

(* one __next__: None = StopIteration *)
Definition dag_next (c : circuit) (s : dag_state) : option ((nat * option op) * dag_state) :=
  match pop_min (frontier s) with
  | None => None
  | Some (p, rest) =>
    let s1 := mkDS rest (cnt_del p (binned s)) in
    let s2 := fold_left (fun s succ =>
                           let n := match cnt_get succ (binned s) with None => 1 | Some k => S k end in
                           let b := cnt_set succ n (binned s) in
                           if Nat.eqb n (length (prevs c succ)) then mkDS (succ :: frontier s) b
                           else mkDS (frontier s) b)
                        (nexts c p) s1 in
    Some ((fst p, get_cell c (fst p) (snd p)), s2)
  end.

Fixpoint dag_run (fuel : nat) (c : circuit) (s : dag_state) : list (nat * option op) :=
  match fuel with
  | 0 => []
  | S f => match dag_next c s with
           | None => []
           | Some (x, s') => x :: dag_run f c s'
           end
  end.

(* list(circuit.operations_with_cycles()) through the DAG iterator; the fuel is one more than
   the number of operations, so a run that would yield too many is visible *)
Definition dag_iter (c : circuit) : list (nat * option op) :=
  dag_run (S (num_operations c)) c (dag_init c).
