From Coq Require Import List Arith Bool PeanoNat ZArith Lia Permutation.
Import ListNotations.
From BQ Require Import lib.Trace circuit.CModel circuit.CThm circuit.CThm2.
Open Scope nat_scope.

(* ---- *=, +, unfold_all's step ----------------------------------------------------------------- *)
Lemma rep_append_tl a q :
  Forall amo (cycles a) -> in_range a -> (forall o, In o (iter_ops (cycles a)) -> valid_op a o = true) ->
  forall n s, nq s = nq a -> rads s = rads a -> tl (rep_append n s a) q = tl s q ++ repeat_app n (tl a q).
Proof. intros A Hr Hv. induction n as [|n IH]; intros s Hn Hrd; cbn [rep_append repeat_app]; [rewrite app_nil_r; reflexivity|].
  assert (Hl : nq a = length (all_loc a)) by (unfold all_loc; rewrite seq_length; reflexivity).
  destruct (append_circuit_tl s a (all_loc a) q Hl) as (T & N & R & _).
  assert (Hid : map (map_loc (all_loc a)) (iter_ops (cycles a)) = iter_ops (cycles a)).
  { apply map_id_in. intros o Ho. apply map_loc_id. apply Forall_forall. intros x Hx.
    apply iter_ops_in in Ho as (cy & H1 & H2). apply (Hr cy o x); auto. }
  rewrite Hid in T. rewrite (valid_prefix_ext a s _ Hn Hrd), (all_valid_prefix a _ Hv) in T.
  rewrite IH by congruence. rewrite T, (proj_iter _ q A), <- app_assoc. reflexivity. Qed.

(* a *= n (n >= 1): n copies of a's timeline *)
Theorem imul_tl a n q :
  Forall amo (cycles a) -> in_range a -> (forall o, In o (iter_ops (cycles a)) -> valid_op a o = true) ->
  tl (c_imul a n) q = repeat_app (S (n - 1)) (tl a q).
Proof. intros A Hr Hv. unfold c_imul. rewrite (rep_append_tl a q A Hr Hv) by reflexivity. reflexivity. Qed.

(* a + b : a new circuit holding a's timelines followed by b's; a itself is unchanged *)
Theorem add_tl a b q :
  nq b = nq a -> Forall amo (cycles a) -> Forall amo (cycles b) -> in_range a ->
  all_qudits (fun x => x < nq a) (cycles b) ->
  (forall o, In o (iter_ops (cycles a)) -> valid_op a o = true) ->
  (forall o, In o (iter_ops (cycles b)) -> valid_op a o = true) ->
  exists s, c_add a b = (a, OkC s) /\ tl s q = tl a q ++ tl b q.
Proof. intros Hn Aa Ab Hra Hrb Hva Hvb. unfold c_add.
  set (e := mkC (nq a) (rads a) []).
  assert (Hla : nq a = length (all_loc a)) by (unfold all_loc; rewrite seq_length; reflexivity).
  assert (Hlb : nq b = length (all_loc a)) by (unfold all_loc; rewrite seq_length; exact Hn).
  assert (Hida : map (map_loc (all_loc a)) (iter_ops (cycles a)) = iter_ops (cycles a)).
  { apply map_id_in. intros o Ho. apply map_loc_id. apply Forall_forall. intros x Hx.
    apply iter_ops_in in Ho as (cy & H1 & H2). apply (Hra cy o x); auto. }
  assert (Hidb : map (map_loc (all_loc a)) (iter_ops (cycles b)) = iter_ops (cycles b)).
  { apply map_id_in. intros o Ho. apply map_loc_id. apply Forall_forall. intros x Hx.
    apply iter_ops_in in Ho as (cy & H1 & H2). apply (Hrb cy o x); auto. }
  destruct (append_circuit_tl e a (all_loc a) q Hla) as (T1 & N1 & R1 & O1).
  rewrite Hida in *. rewrite (valid_prefix_ext a e _ eq_refl eq_refl), (all_valid_prefix a _ Hva) in *. specialize (O1 eq_refl).
  destruct (append_circuit e a (all_loc a) false) as [s1 out1]. cbn [fst snd] in *. subst out1. cbv iota beta.
  destruct (append_circuit_tl s1 b (all_loc a) q Hlb) as (T2 & N2 & R2 & O2).
  rewrite Hidb in *. rewrite (valid_prefix_ext a s1 _ N1 R1), (all_valid_prefix a _ Hvb) in *. specialize (O2 eq_refl).
  destruct (append_circuit s1 b (all_loc a) false) as [s2 out2]. cbn [fst snd] in *. subst out2. cbv iota beta.
  exists s2. split; [reflexivity|]. rewrite T2, T1. unfold tl at 1. cbn [e cycles tlc flat_map app].
  rewrite (proj_iter _ q Aa), (proj_iter _ q Ab). reflexivity. Qed.

(* one pass of unfold_all: every block is replaced, in iteration order, by its inner operations
   (parameters distributed, relabelled through the block's location); leaves stay *)
Definition expand_op (o : op) : list op :=
  if o_isblk o then map (map_loc (o_loc o)) (iter_ops (set_params_cycles (o_sub o) (o_ps o))) else [o].

Theorem unfold_once_tl c q :
  tl (unfold_once c) q = filter (touches q) (flat_map expand_op (iter_ops (cycles c))).
Proof. unfold unfold_once.
  assert (G : forall ops s, tl (fold_left (fun s o => if o_isblk o
                  then fold_left (fun s o' => fst (append_raw s (map_loc (o_loc o) o'))) (iter_ops (set_params_cycles (o_sub o) (o_ps o))) s
                  else fst (append_raw s o)) ops s) q = tl s q ++ filter (touches q) (flat_map expand_op ops)).
  { induction ops as [|o t IH]; intros s; cbn [fold_left flat_map filter]; [rewrite app_nil_r; reflexivity|].
    rewrite IH, filter_app, app_assoc. f_equal. unfold expand_op. destruct (o_isblk o).
    - rewrite (fold_left_map (fun s o' => fst (append_raw s o')) (map_loc (o_loc o))). apply appends_tl.
    - rewrite append_raw_tl. reflexivity. }
  rewrite G. reflexivity. Qed.
