From Coq Require Import List Arith Bool PeanoNat Lia Permutation.
Import ListNotations.
From BQ Require Import circuit.CModel circuit.CThm circuit.CPickle.

Lemma group_same k ops t acc g :
  group (map (pair k) ops ++ t) (Some k) (acc ++ [g]) = group t (Some k) (acc ++ [g ++ ops]).
Proof. revert g. induction ops as [|o ops IH]; intros g; cbn [map app].
  - rewrite app_nil_r. reflexivity.
  - cbn [group]. rewrite Nat.eqb_refl. rewrite rev_unit. rewrite rev_involutive.
    rewrite IH. rewrite <- app_assoc. reflexivity. Qed.

Lemma group_cycles cs k last acc :
  Forall (fun cy => cy <> []) cs ->
  (match last with Some j => j < k | None => True end) ->
  group (ops_with_cycles cs k) last acc = acc ++ map fwd_cycle cs.
Proof. revert k last acc. induction cs as [|cy t IH]; intros k last acc Hne Hl; cbn [ops_with_cycles map].
  - rewrite app_nil_r. reflexivity.
  - inversion Hne as [|? ? Hcy Ht]; subst.
    assert (Hf : fwd_cycle cy <> []).
    { unfold fwd_cycle. intros E. apply Hcy.
      apply Permutation_nil. rewrite <- E. apply sort_by_perm. }
    destruct (fwd_cycle cy) as [|o ops] eqn:Ef; [congruence|].
    cbn [map app group].
    assert (Hs : (match last with Some j => Nat.eqb j k | None => false end) = false).
    { destruct last as [j|]; auto. apply Nat.eqb_neq. lia. }
    rewrite Hs. change [o] with ([] ++ [o]) at 1.
    rewrite group_same. cbn [app]. rewrite IH; auto.
    rewrite <- app_assoc. reflexivity. Qed.

(* the marshalled cycles are the circuit's cycles, each in iteration order *)
Theorem reduce_is_cycles c : Inv c -> reduce c = map fwd_cycle (cycles c).
Proof. intros H. unfold reduce. rewrite group_cycles; auto.
  unfold Inv in H. eapply Forall_impl; [|exact H]. intros cy [Hne _]. exact Hne. Qed.

Lemma find_perm_amo (cy cy' : cycle) q : Permutation cy cy' -> amo cy -> find (touches q) cy = find (touches q) cy'.
Proof. intros P A.
  assert (F : filter (touches q) cy = filter (touches q) cy') by (apply perm_short; [apply filter_perm; exact P|apply A]).
  assert (G : forall l, find (touches q) l = hd_error (filter (touches q) l)).
  { induction l as [|x l IH]; simpl; auto. destruct (touches q x); auto. }
  rewrite !G, F. reflexivity. Qed.

(* Pickling round trip: the rebuilt circuit has the same width, radixes, number of
   cycles and the same operation in every cell (hence the same cycle layout), and
   satisfies the invariant again. *)
Theorem pickle_roundtrip c :
  Inv c ->
  let c' := rebuild (nq c) (rads c) (reduce c) in
  nq c' = nq c /\ rads c' = rads c /\ ncyc c' = ncyc c
  /\ (forall i q, get_cell c' i q = get_cell c i q)
  /\ (forall q, tl c' q = tl c q)
  /\ Inv c'.
Proof. intros H c'. unfold c', rebuild. rewrite (reduce_is_cycles c H). cbn [nq rads].
  repeat split.
  - unfold ncyc. cbn [cycles]. apply map_length.
  - intros i q. unfold get_cell, cycle_at. cbn [cycles].
    destruct (Nat.lt_ge_cases i (length (cycles c))) as [Hi|Hi].
    + rewrite (nth_indep _ [] (fwd_cycle []) ) by (rewrite map_length; exact Hi).
      rewrite map_nth. unfold cell. symmetry. apply find_perm_amo.
      * apply Permutation_sym. apply sort_by_perm.
      * unfold Inv in H. rewrite Forall_forall in H. apply (H (nth i (cycles c) [])). apply nth_In. exact Hi.
    + rewrite !nth_overflow; auto. rewrite map_length. exact Hi.
  - intros q. unfold tl. cbn [cycles]. unfold tlc.
    unfold Inv in H. induction H as [|cy t [_ Hcy] _ IH]; cbn [map flat_map]; auto.
    rewrite IH. f_equal. unfold fwd_cycle. apply filter_sorted. exact Hcy.
  - unfold Inv in *. cbn [cycles]. rewrite Forall_forall in *. intros cy' Hin.
    apply in_map_iff in Hin as (cy & <- & Hin). destruct (H cy Hin) as [Hne Ham]. split.
    + intros E. apply Hne. apply Permutation_nil. unfold fwd_cycle in E. rewrite <- E.
      apply sort_by_perm.
    + intros q. unfold fwd_cycle. rewrite filter_sorted; auto. Qed.
