From Coq Require Import List Arith Bool PeanoNat Lia.
Import ListNotations.
From BQ Require Import circuit.CPickleTbl.

Section Thm.
Variable G : Type.
Variable ghash : G -> nat.
Variable geq : G -> G -> bool.
Variable X : Type.
Notation keq := (keq G ghash geq).
Notation lookup := (lookup G ghash geq).
Notation set_add := (set_add G ghash geq).
Notation gate_set_of := (gate_set_of G ghash geq).
Notation marshal := (marshal G ghash geq X).
Notation unmarshal := (unmarshal G X).
Notation roundtrip := (roundtrip G ghash geq X).
Notation table_roundtrip := (table_roundtrip G ghash geq X).

Lemma lookup_sound tbl g i : lookup tbl g = Some i -> exists h, nth_error tbl i = Some h /\ keq h g = true.
Proof. revert i. induction tbl as [|h t IH]; intros i; cbn [CPickleTbl.lookup]; [discriminate|].
  destruct (keq h g) eqn:E.
  - intros [= <-]. exists h. split; [reflexivity|exact E].
  - destruct (lookup t g) as [j|] eqn:L; cbn [option_map]; [|discriminate].
    intros [= <-]. destruct (IH j eq_refl) as (h' & Hn & Hk). exists h'. split; [exact Hn|exact Hk]. Qed.

(* what arrives is, operation by operation, a table entry that matches the sent gate AS A KEY, with the payload intact;
   so `received == sent` holds whatever the gates' equality is *)
Theorem roundtrip_keq tbl ops ops' :
  roundtrip tbl ops = Some ops' ->
  Forall2 (fun o o' => keq (fst o') (fst o) = true /\ snd o' = snd o) ops ops'.
Proof. unfold CPickleTbl.roundtrip. revert ops'. induction ops as [|[g x] t IH]; intros ops'; cbn [CPickleTbl.marshal].
  - cbn. intros [= <-]. constructor.
  - destruct (lookup tbl g) as [i|] eqn:L; [|discriminate].
    destruct (marshal tbl t) as [r|] eqn:M; [|discriminate].
    cbn [CPickleTbl.unmarshal]. destruct (lookup_sound _ _ _ L) as (h & Hn & Hk). rewrite Hn.
    destruct (unmarshal tbl r) as [r'|] eqn:U; [|discriminate].
    intros [= <-]. constructor; [split; [exact Hk|reflexivity]|]. apply IH. reflexivity. Qed.

Lemma roundtrip_total tbl ops :
  (forall g, In g (map fst ops) -> lookup tbl g <> None) -> exists ops', roundtrip tbl ops = Some ops'.
Proof. unfold CPickleTbl.roundtrip. induction ops as [|[g x] t IH]; intros H; cbn [CPickleTbl.marshal].
  - exists []. reflexivity.
  - destruct (lookup tbl g) as [i|] eqn:L; [|exfalso; apply (H g); [left; reflexivity|exact L]].
    destruct IH as (r' & Hr); [intros g' Hin; apply H; right; exact Hin|].
    destruct (marshal tbl t) as [r|] eqn:M; [|discriminate].
    cbn [CPickleTbl.unmarshal]. destruct (lookup_sound _ _ _ L) as (h & Hn & _). rewrite Hn, Hr. eexists. reflexivity. Qed.

(* THE hypothesis: a key match identifies the gate *)
Definition keq_injective : Prop := forall a b, keq a b = true -> a = b.

Theorem roundtrip_injective tbl ops :
  keq_injective ->
  (forall g, In g (map fst ops) -> lookup tbl g <> None) ->
  roundtrip tbl ops = Some ops.
Proof. intros Hinj Hc. destruct (roundtrip_total tbl ops Hc) as (ops' & Hr). rewrite Hr. f_equal.
  apply roundtrip_keq in Hr. clear Hc. induction Hr as [|o o' l l' Ho Hr IH]; [reflexivity|].
  destruct o as [g x], o' as [g' x']. destruct Ho as [Hk Hx]. cbn [fst snd] in Hk, Hx.
  apply Hinj in Hk. rewrite Hk, Hx, IH. reflexivity. Qed.

Lemma lookup_set_add_self tbl g : keq g g = true -> lookup (set_add tbl g) g <> None.
Proof. intros R. induction tbl as [|h t IH]; cbn [CPickleTbl.set_add CPickleTbl.lookup].
  - rewrite R. discriminate.
  - destruct (keq h g) eqn:E; cbn [CPickleTbl.lookup]; rewrite E; [discriminate|].
    destruct (lookup (set_add t g) g); [discriminate|exact IH]. Qed.

Lemma lookup_set_add_keep tbl g x : lookup tbl x <> None -> lookup (set_add tbl g) x <> None.
Proof. induction tbl as [|h t IH]; cbn [CPickleTbl.set_add CPickleTbl.lookup]; [intros H; exfalso; apply H; reflexivity|].
  destruct (keq h g) eqn:E; cbn [CPickleTbl.lookup]; [auto|].
  destruct (keq h x) eqn:E2; [discriminate|].
  destruct (lookup t x) eqn:L; [|intros H; exfalso; apply H; reflexivity].
  intros _. destruct (lookup (set_add t g) x) eqn:L2; [discriminate|]. exfalso. apply IH; [discriminate|reflexivity]. Qed.

Lemma gate_set_covers_acc gs acc g :
  (forall a, keq a a = true) -> In g gs \/ lookup acc g <> None -> lookup (fold_left set_add gs acc) g <> None.
Proof. intros R. revert acc. induction gs as [|h t IH]; intros acc [Hin|Hl]; cbn [fold_left].
  - destruct Hin.
  - exact Hl.
  - destruct Hin as [<-|Hin]; apply IH; [right; apply lookup_set_add_self; apply R|left; exact Hin].
  - apply IH. right. apply lookup_set_add_keep. exact Hl. Qed.

Theorem gate_set_covers gs g : (forall a, keq a a = true) -> In g gs -> lookup (gate_set_of gs) g <> None.
Proof. intros R Hin. unfold CPickleTbl.gate_set_of. apply gate_set_covers_acc; [exact R|left; exact Hin]. Qed.

(* with an injective key match the gate table is transparent: every operation arrives with the very gate that was sent *)
Theorem table_roundtrip_ok ops :
  keq_injective -> (forall a, keq a a = true) -> table_roundtrip ops = Some ops.
Proof. intros Hinj R. unfold CPickleTbl.table_roundtrip. apply roundtrip_injective; [exact Hinj|].
  intros g Hin. apply gate_set_covers; assumption. Qed.
End Thm.

(* The hypothesis cannot be dropped, even for an equality that is an equivalence relation consistent with the hash: gates
   (target, control level) compared on the target only -- ControlledGate.__eq__ without control_levels -- arrive merged,
   while the received list still "==" the sent one. *)
Definition w_hash (g : nat * nat) : nat := fst g.
Definition w_eq (a b : nat * nat) : bool := Nat.eqb (fst a) (fst b).
Definition w_ops : list ((nat * nat) * nat) := [((1, 1), 0); ((1, 0), 1); ((1, 1), 2)].

Theorem table_needs_injective_eq_refuted :
  (forall a, w_eq a a = true) /\ (forall a b, w_eq a b = true -> w_eq b a = true)
  /\ (forall a b c, w_eq a b = true -> w_eq b c = true -> w_eq a c = true)
  /\ (forall a b, w_eq a b = true -> w_hash a = w_hash b)
  /\ exists ops', table_roundtrip _ w_hash w_eq nat w_ops = Some ops' /\ ops' <> w_ops
       /\ Forall2 (fun o o' => w_eq (fst o') (fst o) = true /\ snd o' = snd o) w_ops ops'.
Proof. unfold w_eq, w_hash. repeat split.
  - intros a. apply Nat.eqb_refl.
  - intros a b H. apply Nat.eqb_eq in H. apply Nat.eqb_eq. congruence.
  - intros a b c H1 H2. apply Nat.eqb_eq in H1, H2. apply Nat.eqb_eq. congruence.
  - intros a b H. apply Nat.eqb_eq in H. exact H.
  - exists [((1, 1), 0); ((1, 1), 1); ((1, 1), 2)]. split; [vm_compute; reflexivity|]. split; [discriminate|].
    repeat constructor. Qed.
