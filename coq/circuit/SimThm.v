(* circuit/SimThm.v - theorems about circuit/Sim.v (C06) *)
From Coq Require Import List NArith Arith Bool ZArith Lia Ring Permutation.
Import ListNotations.
From BQ Require Import lib.Tensor lib.TensorThm circuit.Sim.
Open Scope N_scope.

Section SimThm.
Variable R : Type.
Variables (r0 r1 : R) (radd rmul rsub : R -> R -> R) (ropp : R -> R) (rconj : R -> R).
Hypothesis Rth : ring_theory r0 r1 radd rmul rsub ropp (@eq R).
Add Ring Rring2 : Rth.
Variable P : Type.
Variable mz : nd R -> nd R.
Hypothesis mz_ok : forall T, nd_eq R (mz T) T.

Local Notation "a +! b" := (radd a b) (at level 50, left associativity).
Local Notation "a *! b" := (rmul a b) (at level 40, left associativity).
Local Notation rsum := (rsum R r0 radd).
Local Notation nd_matmul := (nd_matmul R r0 radd rmul).
Local Notation nd_eq := (nd_eq R).
Local Notation embed := (embed R r0).
Local Notation nd_identity := (nd_identity R r0 r1).
Local Notation apply_right := (apply_right R r0 radd rmul rconj).
Local Notation apply_left := (apply_left R r0 radd rmul rconj).
Local Notation sv_apply := (sv_apply R r0 radd rmul rconj).
Local Notation ub_get_unitary := (ub_get_unitary R).
Local Notation ub_init := (ub_init R r0 r1).
Local Notation matvec := (matvec R r0 radd rmul).
Local Notation op := (op R P).
Local Notation circuit := (circuit R P).
Local Notation gu_loop := (gu_loop R r0 radd rmul rconj P mz).
Local Notation sv_loop := (sv_loop R r0 radd rmul rconj P mz).
Local Notation get_unitary := (get_unitary R r0 r1 radd rmul rconj P mz).
Local Notation get_statevector := (get_statevector R r0 radd rmul rconj P mz).
Local Notation uprod := (uprod R r0 radd rmul).
Local Notation op_get_unitary := (op_get_unitary R P).
Local Notation gparams_loop := (gparams_loop R P).
Local Notation ops_of := (ops_of R P).
Local Notation num_params := (num_params R P).
Local Notation params := (params R P).

(* an operation fits the circuit: valid location, gate matrix of the dimension of its qudits *)
Definition wf_op (radixes : list N) (o : op) : Prop :=
  wf_loc (length radixes) (op_loc o) /\
  forall ps, shape (op_u o ps) = [prodN (gather (op_loc o) radixes); prodN (gather (op_loc o) radixes)].

(* the matrices multiplied by the simulation loops, in iteration order *)
Definition mats_of (ops : list op) (gps : list (list P)) : list (nd R * list nat) :=
  map (fun og => (op_get_unitary (fst og) (snd og), op_loc (fst og))) (combine ops gps).

Lemma gparams_loop_length ops ps pi : length (gparams_loop ops ps pi) = length ops.
Proof. revert pi. induction ops as [|o r IH]; intros pi; simpl; auto. destruct (negb _); simpl; rewrite IH; reflexivity. Qed.

Lemma op_get_unitary_shape radixes o g : wf_op radixes o ->
  shape (op_get_unitary o g) = [prodN (gather (op_loc o) radixes); prodN (gather (op_loc o) radixes)].
Proof. intros [_ H]. unfold Sim.op_get_unitary. destruct (Nat.eqb _ _); apply H. Qed.

Lemma get_unitary_proper radixes A B : allpos radixes -> shape A = radixes ++ radixes -> nd_eq A B ->
  nd_eq (ub_get_unitary radixes A) (ub_get_unitary radixes B).
Proof.
  intros Hp HA E. apply reshape_proper; auto.
  - rewrite HA. apply allpos_app; auto.
  - rewrite HA, prodN_app. unfold prodN at 1. simpl. lia.
Qed.

Lemma prodN2 a b : prodN [a; b] = a * b.
Proof. unfold prodN. simpl. lia. Qed.

Lemma gu_loop_prod radixes ops : allpos radixes -> Forall (wf_op radixes) ops ->
  forall gps B acc, length gps = length ops -> shape B = radixes ++ radixes ->
  shape acc = [prodN radixes; prodN radixes] -> nd_eq (ub_get_unitary radixes B) acc ->
  shape (gu_loop radixes ops gps B) = radixes ++ radixes /\
  nd_eq (ub_get_unitary radixes (gu_loop radixes ops gps B)) (uprod radixes (mats_of ops gps) acc).
Proof.
  intros Hpos Hwf. induction Hwf as [|o ops Ho _ IH]; intros gps B acc Hl HB Hacc E.
  - destruct gps; [|discriminate]. simpl. auto.
  - destruct gps as [|g gps]; [discriminate|]. simpl in Hl. cbn [Sim.gu_loop mats_of combine map fst snd Sim.uprod].
    pose proof Ho as [Hw Hsh].
    pose proof (op_get_unitary_shape radixes o g Ho) as HU.
    assert (HU1 : nth 1 (shape (op_get_unitary o g)) 0 = prodN (gather (op_loc o) radixes)) by (rewrite HU; reflexivity).
    pose proof (mz_ok (apply_right radixes B (op_get_unitary o g) (op_loc o) false)) as Em.
    assert (Hs : shape (apply_right radixes B (op_get_unitary o g) (op_loc o) false) = radixes ++ radixes)
      by (apply apply_right_shape; exact Hw).
    apply IH; [lia | destruct Em as [Es _]; rewrite Es; exact Hs | unfold Tensor.nd_matmul; cbn [shape]; rewrite Hacc; reflexivity |].
    eapply nd_eq_trans; [apply get_unitary_proper; [exact Hpos | destruct Em as [Es _]; rewrite Es; exact Hs | exact Em]|].
    eapply nd_eq_trans; [eapply apply_right_embed; eauto|].
    eapply matmul_proper; eauto; [reflexivity | reflexivity | apply nd_eq_refl].
Qed.

Definition gate_mats (c : circuit) (ps : list P) : list (nd R * list nat) :=
  mats_of (ops_of c) (gparams_loop (ops_of c) ps 0).

(* C06: get_unitary is the ordered product of the embedded operation matrices *)
Theorem unitary_is_product (c : circuit) (ps : list P) :
  allpos (c_radixes c) -> Forall (wf_op (c_radixes c)) (ops_of c) ->
  (ps = [] \/ length ps = num_params c) ->
  exists G, get_unitary c ps = Some G /\
            nd_eq G (uprod (c_radixes c) (gate_mats c ps) (nd_identity (prodN (c_radixes c)))).
Proof.
  intros Hpos Hwf Hps. unfold Sim.get_unitary.
  assert (Hchk : negb (Nat.eqb (length ps) 0) && negb (check_parameters P (num_params c) ps) = false).
  { destruct Hps as [-> | Hl]; [reflexivity|]. unfold check_parameters. rewrite Hl, Nat.eqb_refl. apply andb_false_r. }
  rewrite Hchk. eexists. split; [reflexivity|].
  apply gu_loop_prod; auto.
  - apply gparams_loop_length.
  - eapply ub_init_identity; eauto.
Qed.

Theorem get_unitary_rejects (c : circuit) (ps : list P) :
  ps <> [] -> length ps <> num_params c -> get_unitary c ps = None.
Proof.
  intros Hne Hl. unfold Sim.get_unitary, check_parameters.
  destruct ps; [congruence|]. simpl Nat.eqb at 1. cbn [negb andb].
  destruct (Nat.eqb (length (p :: ps)) (num_params c)) eqn:E; [apply Nat.eqb_eq in E; congruence | reflexivity].
Qed.

(* ------------------------------------------------------------------ state vectors *)
Lemma at_matvec A v x :
  at_ (matvec A v) [x] = rsum (map (fun y => at_ A [x; y] *! at_ v [y]) (Nseq (nth 1 (shape A) 0))).
Proof. reflexivity. Qed.

Lemma shape_matvec A v : shape (matvec A v) = [nth 0 (shape A) 0].
Proof. reflexivity. Qed.

Lemma nd_eq_at1 (v w : nd R) d x : nd_eq v w -> shape v = [d] -> x < d -> at_ v [x] = at_ w [x].
Proof. intros [_ H] Hs Hx. apply H. rewrite Hs. apply valid_cons. split; [exact Hx | constructor]. Qed.

Lemma matvec_proper A A' v v' a b :
  shape A = [a; b] -> shape v = [b] -> nd_eq A A' -> nd_eq v v' -> nd_eq (matvec A v) (matvec A' v').
Proof.
  intros HA Hv EA Ev. pose proof EA as [SA _]. split.
  - rewrite !shape_matvec, SA. reflexivity.
  - intros i Hi. rewrite shape_matvec, HA in Hi. cbn [nth] in Hi. apply valid1_inv in Hi as (x & -> & Hx).
    rewrite !at_matvec, <- SA, HA. cbn [nth]. eapply rsum_ext; eauto. intros y Hy. apply Nseq_In in Hy.
    rewrite (nd_eq_at2 R A A' a b) by auto. rewrite (nd_eq_at1 v v' b) by auto. reflexivity.
Qed.

Lemma matvec_assoc A B v a b c :
  shape A = [a; b] -> shape B = [b; c] -> shape v = [c] ->
  nd_eq (matvec A (matvec B v)) (matvec (nd_matmul A B) v).
Proof.
  intros HA HB Hv. split; [reflexivity|].
  intros i Hi. rewrite shape_matvec, HA in Hi. cbn [nth] in Hi. apply valid1_inv in Hi as (x & -> & Hx).
  rewrite !at_matvec. unfold Tensor.nd_matmul at 2. cbn [shape]. rewrite HA, HB. cbn [nth].
  transitivity (rsum (map (fun y => rsum (map (fun z => at_ A [x; y] *! at_ B [y; z] *! at_ v [z]) (Nseq c))) (Nseq b))).
  { eapply rsum_ext; eauto. intros y _. rewrite at_matvec, HB. cbn [nth].
    erewrite rsum_mul_l by eauto. rewrite map_map. eapply rsum_ext; eauto. intros z _. ring. }
  erewrite rsum_swap by eauto. eapply rsum_ext; eauto. intros z _.
  change (at_ (nd_matmul A B) [x; z]) with (rsum (map (fun y => at_ A [x; y] *! at_ B [y; z]) (Nseq (nth 1 (shape A) 0)))).
  rewrite HA. cbn [nth]. erewrite rsum_mul_r by eauto. rewrite map_map. reflexivity.
Qed.

Lemma matvec_id v d : shape v = [d] -> nd_eq (matvec (nd_identity d) v) v.
Proof.
  intros Hv. split; [rewrite shape_matvec, Hv; reflexivity|].
  intros i Hi. rewrite shape_matvec in Hi. cbn [shape nth] in Hi. apply valid1_inv in Hi as (x & -> & Hx).
  rewrite at_matvec. cbn [shape nth].
  transitivity (rsum (map (fun y => if N.eqb y x then at_ v [y] else r0) (Nseq d))).
  { eapply rsum_ext; eauto. intros y _. change (at_ (nd_identity d) [x; y]) with (if N.eqb x y then r1 else r0).
    rewrite N.eqb_sym. destruct (N.eqb y x); ring. }
  apply (rsum_single R r0 r1 radd rmul rsub ropp Rth N.eqb (fun y => at_ v [y])); [apply N.eqb_eq | apply Nseq_NoDup | apply Nseq_In; exact Hx].
Qed.

Lemma uprod_shape radixes mats acc : shape acc = [prodN radixes; prodN radixes] ->
  shape (uprod radixes mats acc) = [prodN radixes; prodN radixes].
Proof.
  revert acc. induction mats as [|[M loc] r IH]; intros acc H; simpl; auto.
  apply IH. unfold Tensor.nd_matmul. cbn [shape]. rewrite H. reflexivity.
Qed.

Lemma sv_loop_prod radixes ops v0 : allpos radixes -> Forall (wf_op radixes) ops -> shape v0 = [prodN radixes] ->
  forall gps v acc, length gps = length ops -> shape v = [prodN radixes] ->
  shape acc = [prodN radixes; prodN radixes] -> nd_eq v (matvec acc v0) ->
  nd_eq (sv_loop radixes ops gps v) (matvec (uprod radixes (mats_of ops gps) acc) v0).
Proof.
  intros Hpos Hwf Hv0. induction Hwf as [|o ops Ho _ IH]; intros gps v acc Hl Hv Hacc E.
  - destruct gps; [|discriminate]. simpl. exact E.
  - destruct gps as [|g gps]; [discriminate|]. simpl in Hl. cbn [Sim.sv_loop mats_of combine map fst snd Sim.uprod].
    pose proof Ho as [Hw Hsh].
    pose proof (op_get_unitary_shape radixes o g Ho) as HU.
    assert (HU1 : nth 1 (shape (op_get_unitary o g)) 0 = prodN (gather (op_loc o) radixes)) by (rewrite HU; reflexivity).
    pose proof (mz_ok (sv_apply radixes v (op_get_unitary o g) (op_loc o) false)) as Em.
    assert (Esv : nd_eq (sv_apply radixes v (op_get_unitary o g) (op_loc o) false)
                        (matvec (embed radixes (op_loc o) (op_get_unitary o g)) v))
      by (eapply sv_apply_embed; eauto).
    assert (Hacc' : shape (nd_matmul (embed radixes (op_loc o) (op_get_unitary o g)) acc) = [prodN radixes; prodN radixes])
      by (unfold Tensor.nd_matmul; cbn [shape]; rewrite Hacc; reflexivity).
    apply IH; [lia | destruct Em as [Es _]; destruct Esv as [Es2 _]; rewrite Es, Es2; reflexivity | exact Hacc' |].
    eapply nd_eq_trans; [exact Em|]. eapply nd_eq_trans; [exact Esv|].
    eapply nd_eq_trans; [eapply (matvec_proper _ _ _ _ (prodN radixes) (prodN radixes)); [reflexivity | exact Hv | apply nd_eq_refl | exact E]|].
    eapply matvec_assoc; eauto. reflexivity.
Qed.

(* C06: get_statevector c v = get_unitary c * v *)
Theorem statevector_is_unitary_times_state (c : circuit) (v : nd R) (ps : list P) G :
  allpos (c_radixes c) -> Forall (wf_op (c_radixes c)) (ops_of c) -> shape v = [prodN (c_radixes c)] ->
  (ps = [] \/ length ps = num_params c) -> get_unitary c ps = Some G ->
  exists w, get_statevector c v ps = Some w /\ nd_eq w (matvec G v).
Proof.
  intros Hpos Hwf Hv Hps HG.
  destruct (unitary_is_product c ps Hpos Hwf Hps) as (G' & HG' & EG). rewrite HG in HG'. inversion HG'; subst G'.
  unfold Sim.get_statevector.
  assert (Hchk : negb (Nat.eqb (length ps) 0) && negb (check_parameters P (num_params c) ps) = false).
  { destruct Hps as [-> | Hl]; [reflexivity|]. unfold check_parameters. rewrite Hl, Nat.eqb_refl. apply andb_false_r. }
  rewrite Hchk. eexists. split; [reflexivity|].
  assert (HsG : shape G = [prodN (c_radixes c); prodN (c_radixes c)]).
  { destruct EG as [Es _]. rewrite Es. apply uprod_shape. reflexivity. }
  eapply nd_eq_trans.
  - apply (sv_loop_prod (c_radixes c) (ops_of c) v Hpos Hwf Hv (gparams_loop (ops_of c) ps 0) v (nd_identity (prodN (c_radixes c)))).
    + apply gparams_loop_length.
    + exact Hv.
    + reflexivity.
    + apply nd_eq_sym. apply matvec_id. exact Hv.
  - eapply (matvec_proper _ _ _ _ (prodN (c_radixes c)) (prodN (c_radixes c))); auto.
    + apply uprod_shape. reflexivity.
    + apply nd_eq_sym. exact EG.
    + apply nd_eq_refl.
Qed.

(* ------------------------------------------------------------------ the loops only see matrices and locations *)
Local Notation right_loop := (right_loop R r0 radd rmul rconj mz).

Lemma gu_loop_mats radixes ops : forall gps B, length gps = length ops ->
  gu_loop radixes ops gps B = right_loop radixes (mats_of ops gps) B.
Proof.
  induction ops as [|o ops IH]; intros [|g gps] B Hl; try discriminate; [reflexivity|].
  cbn [Sim.gu_loop mats_of combine map fst snd Sim.right_loop]. apply IH. simpl in Hl. lia.
Qed.

Lemma get_unitary_mats (c c' : circuit) ps ps' :
  c_radixes c = c_radixes c' ->
  (negb (Nat.eqb (length ps) 0) && negb (check_parameters P (num_params c) ps) = false) ->
  (negb (Nat.eqb (length ps') 0) && negb (check_parameters P (num_params c') ps') = false) ->
  gate_mats c ps = gate_mats c' ps' -> get_unitary c ps = get_unitary c' ps'.
Proof.
  intros Hr H1 H2 Hm. unfold Sim.get_unitary. rewrite H1, H2, <- Hr.
  rewrite !gu_loop_mats by apply gparams_loop_length. unfold gate_mats in Hm. rewrite Hm. reflexivity.
Qed.

(* ------------------------------------------------------------------ flat parameter vector *)
Local Notation get_param_location := (get_param_location R P).
Local Notation get_param := (get_param R P).
Local Notation set_param := (set_param R P).
Local Notation set_params := (set_params R P).
Local Notation freeze_param := (freeze_param R P).
Local Notation gpl_loop := (gpl_loop R P).
Local Notation c_at := (c_at R P).
Local Notation upd_at := (upd_at R P).
Local Notation occupies := (occupies R P).
Local Notation sp_loop := (sp_loop R P).
Local Notation with_params := (with_params R P).
Local Notation frozen := (frozen R P).

Definition pconcat (l : list (nat * op)) : list P := concat (map (fun co => op_params (snd co)) l).

Lemma params_pconcat (c : circuit) : params c = pconcat (c_ops c).
Proof. unfold Sim.params, Sim.ops_of, pconcat. rewrite map_map. reflexivity. Qed.

Lemma pconcat_app a b : pconcat (a ++ b) = pconcat a ++ pconcat b.
Proof. unfold pconcat. rewrite map_app, concat_app. reflexivity. Qed.

Lemma pconcat_cons co l : pconcat (co :: l) = op_params (snd co) ++ pconcat l.
Proof. reflexivity. Qed.

Lemma gpl_loop_spec ops : forall i count,
  (count <= i)%nat ->
  (i < count + length (pconcat ops) ->
     exists pre cy o post k, ops = pre ++ (cy, o) :: post /\
       gpl_loop ops i count = Some (cy, hd 0%nat (op_loc o), k) /\
       (i = count + length (pconcat pre) + k)%nat /\ (k < length (op_params o))%nat)%nat
  /\ ((count + length (pconcat ops) <= i)%nat -> gpl_loop ops i count = None).
Proof.
  induction ops as [|[cy o] ops IH]; intros i count Hc; split; intros H.
  - simpl in H. lia.
  - reflexivity.
  - rewrite pconcat_cons, app_length in H. cbn [snd] in H. cbn [Sim.gpl_loop].
    destruct (Nat.ltb i (count + length (op_params o))) eqn:E.
    + apply Nat.ltb_lt in E. exists [], cy, o, ops, (i - count)%nat. split; [reflexivity|]. split; [|simpl; lia].
      do 3 f_equal. lia.
    + apply Nat.ltb_ge in E. destruct (IH i (count + length (op_params o))%nat E) as [IH1 _].
      destruct IH1 as (pre & cy' & o' & post & k & -> & Hg & Hi & Hk); [lia|].
      exists ((cy, o) :: pre), cy', o', post, k. split; [reflexivity|]. split; [exact Hg|].
      rewrite pconcat_cons, app_length. cbn [snd]. lia.
  - rewrite pconcat_cons, app_length in H. cbn [snd] in H. cbn [Sim.gpl_loop].
    destruct (Nat.ltb i (count + length (op_params o))) eqn:E; [apply Nat.ltb_lt in E; lia|].
    apply Nat.ltb_ge in E. apply (IH i (count + length (op_params o))%nat E). lia.
Qed.

(* C06: get_param_location i addresses the operation holding params[i] *)
Theorem get_param_location_spec (c : circuit) i :
  ((i < length (params c))%nat ->
     exists pre cy o post k, c_ops c = pre ++ (cy, o) :: post /\
       get_param_location c i = Some (cy, hd 0%nat (op_loc o), k) /\
       (i = length (pconcat pre) + k)%nat /\ (k < length (op_params o))%nat /\
       nth_error (params c) i = nth_error (op_params o) k)
  /\ ((length (params c) <= i)%nat -> get_param_location c i = None).
Proof.
  rewrite params_pconcat. unfold Sim.get_param_location.
  destruct (gpl_loop_spec (c_ops c) i 0 (Nat.le_0_l i)) as [H1 H2]. split.
  - intros Hi. destruct (H1 Hi) as (pre & cy & o & post & k & E & Hg & Hik & Hk).
    exists pre, cy, o, post, k. repeat split; auto.
    rewrite E, pconcat_app, pconcat_cons. cbn [snd].
    rewrite nth_error_app2 by lia. replace (i - length (pconcat pre))%nat with k by lia.
    rewrite nth_error_app1 by exact Hk. reflexivity.
  - intros Hi. apply H2. simpl. exact Hi.
Qed.

(* one operation per grid point: an operation is found through its first qudit *)
Definition grid_ok (ops : list (nat * op)) : Prop :=
  forall pre cy o post, ops = pre ++ (cy, o) :: post ->
    op_loc o <> [] /\ Forall (fun co => occupies cy (hd 0%nat (op_loc o)) co = false) pre.

Lemma occupies_self cy o : op_loc o <> [] -> occupies cy (hd 0%nat (op_loc o)) (cy, o) = true.
Proof.
  intros H. unfold Sim.occupies. cbn [fst snd]. rewrite Nat.eqb_refl. destruct (op_loc o) as [|q l]; [congruence|].
  simpl. rewrite Nat.eqb_refl. reflexivity.
Qed.

Lemma find_skip {A} (f : A -> bool) pre x post :
  Forall (fun y => f y = false) pre -> f x = true -> find f (pre ++ x :: post) = Some x.
Proof. induction 1 as [|y pre Hy _ IH]; intros Hx; simpl; [rewrite Hx; reflexivity | rewrite Hy; auto]. Qed.

Lemma upd_at_skip pre cy q o post f :
  Forall (fun co => occupies cy q co = false) pre -> occupies cy q (cy, o) = true ->
  upd_at (pre ++ (cy, o) :: post) cy q f = pre ++ (cy, f o) :: post.
Proof.
  induction 1 as [|y pre Hy _ IH]; intros Hx; simpl.
  - rewrite Hx. reflexivity.
  - rewrite Hy. f_equal. auto.
Qed.

Theorem get_param_spec (c : circuit) i : grid_ok (c_ops c) -> get_param c i = nth_error (params c) i.
Proof.
  intros Hg. unfold Sim.get_param. destruct (get_param_location_spec c i) as [H1 H2].
  destruct (Nat.ltb i (length (params c))) eqn:E.
  - apply Nat.ltb_lt in E. destruct (H1 E) as (pre & cy & o & post & k & Eo & Hl & _ & _ & Hn).
    fold (get_param_location c i). rewrite Hl. destruct (Hg _ _ _ _ Eo) as [Hne Hpre].
    assert (Hf : c_at c cy (hd 0%nat (op_loc o)) = Some o).
    { unfold Sim.c_at. rewrite Eo. rewrite (find_skip _ pre (cy, o) post Hpre (occupies_self cy o Hne)). reflexivity. }
    rewrite Hf. symmetry. exact Hn.
  - apply Nat.ltb_ge in E. fold (get_param_location c i). rewrite (H2 E). symmetry. apply nth_error_None. exact E.
Qed.

Lemma set_nth_app {A} (a b : list A) k x : (length a <= k)%nat -> set_nth (a ++ b) k x = a ++ set_nth b (k - length a) x.
Proof.
  revert k. induction a as [|y a IH]; intros k H; simpl.
  - rewrite Nat.sub_0_r. reflexivity.
  - destruct k; [simpl in H; lia|]. simpl. f_equal. apply IH. simpl in H. lia.
Qed.

Lemma set_nth_app_l {A} (a b : list A) k x : (k < length a)%nat -> set_nth (a ++ b) k x = set_nth a k x ++ b.
Proof.
  revert k. induction a as [|y a IH]; intros k H; simpl in *; [lia|].
  destruct k; simpl; [reflexivity|]. f_equal. apply IH. lia.
Qed.

Theorem set_param_spec (c : circuit) i x : grid_ok (c_ops c) -> (i < length (params c))%nat ->
  exists c', set_param c i x = Some c' /\ params c' = set_nth (params c) i x /\ c_radixes c' = c_radixes c.
Proof.
  intros Hg Hi. destruct (get_param_location_spec c i) as [H1 _].
  destruct (H1 Hi) as (pre & cy & o & post & k & Eo & Hl & Hik & Hk & _).
  unfold Sim.set_param. fold (get_param_location c i). rewrite Hl. eexists. split; [reflexivity|]. split; [|reflexivity].
  destruct (Hg _ _ _ _ Eo) as [Hne Hpre].
  rewrite !params_pconcat. cbn [c_ops]. rewrite Eo. rewrite (upd_at_skip pre cy _ o post _ Hpre (occupies_self cy o Hne)).
  rewrite !pconcat_app, !pconcat_cons. cbn [snd Sim.with_params op_params].
  rewrite set_nth_app by lia. f_equal. replace (i - length (pconcat pre))%nat with k by lia.
  rewrite set_nth_app_l by exact Hk. reflexivity.
Qed.

(* ------------------------------------------------------------------ set_params / explicit parameters *)
Lemma firstn_add {A} (l : list A) x y : firstn x l ++ firstn y (skipn x l) = firstn (x + y) l.
Proof.
  revert l. induction x as [|x IH]; intros l; simpl; [reflexivity|].
  destruct l as [|a l]; simpl; [rewrite firstn_nil; reflexivity|]. f_equal. apply IH.
Qed.

Lemma skipn_add {A} (l : list A) a x : skipn x (skipn a l) = skipn (a + x) l.
Proof.
  revert l. induction a as [|a IH]; intros l; simpl; [reflexivity|].
  destruct l as [|y l]; [destruct x; reflexivity|]. apply IH.
Qed.

Lemma slice_add {A} (l : list A) a x y :
  slice l a (a + x) ++ slice l (a + x) (a + x + y) = slice l a (a + x + y).
Proof.
  unfold slice. replace (a + x - a)%nat with x by lia. replace (a + x + y - (a + x))%nat with y by lia.
  replace (a + x + y - a)%nat with (x + y)%nat by lia.
  rewrite <- (firstn_add (skipn a l) x y). rewrite skipn_add. reflexivity.
Qed.

Definition np_sum (ops : list (nat * op)) : nat := fold_right (fun co a => (op_np (snd co) + a)%nat) 0%nat ops.

Lemma num_params_np_sum (c : circuit) : num_params c = np_sum (c_ops c).
Proof. unfold Sim.num_params, Sim.ops_of, np_sum. induction (c_ops c) as [|co l IH]; simpl; auto. Qed.

Lemma sp_loop_params ops : forall (v : list P) pi,
  pconcat (sp_loop ops v pi) = slice v pi (pi + np_sum ops).
Proof.
  induction ops as [|[cy o] ops IH]; intros v pi.
  - simpl. unfold slice. rewrite Nat.add_0_r, Nat.sub_diag. reflexivity.
  - cbn [Sim.sp_loop np_sum snd]. rewrite pconcat_cons. cbn [snd Sim.with_params op_params].
    rewrite IH. change (np_sum ((cy, o) :: ops)) with (op_np o + np_sum ops)%nat. rewrite Nat.add_assoc. apply slice_add.
Qed.

(* C06: params (set_params c v) = v *)
Theorem set_params_spec (c : circuit) (v : list P) :
  (length v = num_params c -> exists c', set_params c v = Some c' /\ params c' = v /\ c_radixes c' = c_radixes c)
  /\ (length v <> num_params c -> set_params c v = None).
Proof.
  unfold Sim.set_params, check_parameters. split; intros H.
  - rewrite H, Nat.eqb_refl. eexists. split; [reflexivity|]. split; [|reflexivity].
    rewrite params_pconcat. cbn [c_ops]. rewrite sp_loop_params, <- num_params_np_sum, <- H.
    unfold slice. simpl. rewrite Nat.sub_0_r. apply firstn_all.
  - destruct (Nat.eqb (length v) (num_params c)) eqn:E; [apply Nat.eqb_eq in E; congruence | reflexivity].
Qed.

(* every operation stores as many parameters as its gate takes (Operation.__init__ / params setter) *)
Definition params_ok (ops : list (nat * op)) : Prop :=
  Forall (fun co => length (op_params (snd co)) = op_np (snd co)) ops.

Lemma slice_app_mid {A} (a b c : list A) n : length b = n -> slice (a ++ b ++ c) (length a) (length a + n) = b.
Proof.
  intros H. unfold slice. replace (length a + n - length a)%nat with n by lia.
  rewrite skipn_app, skipn_all, Nat.sub_diag. simpl. rewrite firstn_app, <- H, firstn_all, Nat.sub_diag. simpl. apply app_nil_r.
Qed.

Lemma gate_mats_stored_aux ops : params_ok ops ->
  forall (pre : list P), pre ++ pconcat ops <> [] ->
  mats_of (map snd ops) (gparams_loop (map snd ops) (pre ++ pconcat ops) (length pre))
  = mats_of (map snd ops) (gparams_loop (map snd ops) [] 0).
Proof.
  induction 1 as [|[cy o] ops Ho _ IH]; intros pre Hne; [reflexivity|].
  cbn [map snd Sim.gparams_loop length]. cbn [snd] in Ho.
  assert (Hn : negb (Nat.eqb (length (pre ++ pconcat ((cy, o) :: ops))) 0) = true).
  { destruct (pre ++ pconcat ((cy, o) :: ops)); [congruence | reflexivity]. }
  rewrite Hn. cbn [Nat.eqb negb mats_of combine map fst snd]. f_equal.
  - f_equal. rewrite pconcat_cons. cbn [snd]. rewrite slice_app_mid by exact Ho.
    unfold Sim.op_get_unitary. cbn [length Nat.eqb]. destruct (Nat.eqb (length (op_params o)) 0); reflexivity.
  - rewrite pconcat_cons in *. cbn [snd] in *. rewrite <- Ho, <- app_length.
    replace (pre ++ op_params o ++ pconcat ops) with ((pre ++ op_params o) ++ pconcat ops) in * by (rewrite app_assoc; reflexivity).
    apply IH. exact Hne.
Qed.

(* C06: passing the stored parameters explicitly is the same as passing none *)
Theorem explicit_stored_same (c : circuit) : params_ok (c_ops c) ->
  get_unitary c (params c) = get_unitary c [].
Proof.
  intros Hok. destruct (params c) as [|p ps] eqn:E; [reflexivity|].
  apply get_unitary_mats; auto.
  - unfold check_parameters. rewrite <- E.
    assert (Hl : length (params c) = num_params c).
    { rewrite params_pconcat, num_params_np_sum. clear E. induction Hok as [|co l H _ IH]; [reflexivity|].
      rewrite pconcat_cons, app_length, IH, H. reflexivity. }
    rewrite Hl, Nat.eqb_refl. apply andb_false_r.
  - unfold gate_mats, Sim.ops_of. rewrite <- E, params_pconcat.
    apply (gate_mats_stored_aux (c_ops c) Hok []). simpl. rewrite <- params_pconcat, E. discriminate.
Qed.

Lemma slice_length {A} (v : list A) a n : (a + n <= length v)%nat -> length (slice v a (a + n)) = n.
Proof. intros H. unfold slice. rewrite firstn_length, skipn_length. lia. Qed.

Lemma gparams_loop_nil ops pi : gparams_loop ops [] pi = map (fun _ => []) ops.
Proof. revert pi. induction ops as [|o r IH]; intros pi; simpl; [reflexivity|]. f_equal. apply IH. Qed.

Lemma set_params_mats_aux ops : params_ok ops -> forall (v : list P) pi,
  v <> [] -> (pi + np_sum ops = length v)%nat ->
  mats_of (map snd (sp_loop ops v pi)) (gparams_loop (map snd (sp_loop ops v pi)) [] 0)
  = mats_of (map snd ops) (gparams_loop (map snd ops) v pi).
Proof.
  induction 1 as [|[cy o] ops Ho _ IH]; intros v pi Hne Hl; [reflexivity|].
  cbn [snd] in Ho. change (np_sum ((cy, o) :: ops)) with (op_np o + np_sum ops)%nat in Hl.
  cbn [Sim.sp_loop map snd Sim.gparams_loop]. 
  assert (Hn : negb (Nat.eqb (length v) 0) = true) by (destruct v; [congruence | reflexivity]).
  rewrite Hn. cbn [Nat.eqb length negb mats_of combine map fst snd]. f_equal.
  - f_equal. unfold Sim.op_get_unitary. cbn [length Nat.eqb Sim.with_params op_params op_u].
    destruct (Nat.eqb (length (slice v pi (pi + op_np o))) 0) eqn:E; [|reflexivity].
    apply Nat.eqb_eq in E. rewrite slice_length in E by lia.
    assert (Hs : slice v pi (pi + op_np o) = []) by (apply length_zero_iff_nil; rewrite slice_length by lia; exact E).
    assert (Hp : op_params o = []) by (apply length_zero_iff_nil; lia).
    rewrite Hs, Hp. reflexivity.
  - apply IH; [exact Hne | lia].
Qed.

(* C06: storing a (non-empty) parameter vector and simulating = simulating with it passed explicitly *)
Theorem set_params_then_stored (c c' : circuit) (v : list P) :
  params_ok (c_ops c) -> v <> [] -> set_params c v = Some c' -> get_unitary c' [] = get_unitary c v.
Proof.
  intros Hok Hne Hs. unfold Sim.set_params, check_parameters in Hs.
  destruct (Nat.eqb (length v) (num_params c)) eqn:E; [|discriminate]. apply Nat.eqb_eq in E.
  inversion Hs; subst c'. clear Hs.
  apply get_unitary_mats; [reflexivity | reflexivity | |].
  - unfold check_parameters. rewrite E, Nat.eqb_refl. apply andb_false_r.
  - unfold gate_mats, Sim.ops_of. cbn [c_ops]. apply set_params_mats_aux; auto.
    rewrite <- num_params_np_sum. simpl. symmetry. exact E.
Qed.

(* ------------------------------------------------------------------ freeze_param *)
Lemma remove_nth_app {A} (a b : list A) k : (length a <= k)%nat -> remove_nth (a ++ b) k = a ++ remove_nth b (k - length a).
Proof.
  revert k. induction a as [|y a IH]; intros k H; simpl.
  - rewrite Nat.sub_0_r. reflexivity.
  - destruct k; [simpl in H; lia|]. simpl. f_equal. apply IH. simpl in H. lia.
Qed.

Lemma remove_nth_app_l {A} (a b : list A) k : (k < length a)%nat -> remove_nth (a ++ b) k = remove_nth a k ++ b.
Proof.
  revert k. induction a as [|y a IH]; intros k H; simpl in *; [lia|].
  destruct k; simpl; [reflexivity|]. f_equal. apply IH. lia.
Qed.

Lemma insert_remove_nth {A} (l : list A) k x : nth_error l k = Some x -> insert_nth (remove_nth l k) k x = l.
Proof.
  revert k. induction l as [|y l IH]; intros k H; [destruct k; discriminate|].
  destruct k; simpl in *; [inversion H; destruct l; reflexivity|]. f_equal. apply IH. exact H.
Qed.

Lemma mats_of_nil (ops : list op) :
  mats_of ops (map (fun _ => []) ops) = map (fun o => (op_get_unitary o [], op_loc o)) ops.
Proof. induction ops as [|o ops IH]; [reflexivity|]. cbn [map mats_of combine fst snd]. f_equal. exact IH. Qed.

Lemma mats_of_frozen (pre : list (nat * op)) (cy : nat) (o : op) (post : list (nat * op)) k x :
  nth_error (op_params o) k = Some x ->
  mats_of (map snd (pre ++ (cy, frozen o k x) :: post)) (gparams_loop (map snd (pre ++ (cy, frozen o k x) :: post)) [] 0)
  = mats_of (map snd (pre ++ (cy, o) :: post)) (gparams_loop (map snd (pre ++ (cy, o) :: post)) [] 0).
Proof.
  intros Hx. rewrite !gparams_loop_nil, !mats_of_nil, !map_app. f_equal. cbn [map snd]. f_equal. f_equal.
  unfold Sim.op_get_unitary. cbn [length Nat.eqb Sim.frozen op_u op_params]. rewrite insert_remove_nth by exact Hx. reflexivity.
Qed.

(* C06: freeze_param removes exactly parameter i and leaves the simulated unitary unchanged *)
Theorem freeze_param_spec (c : circuit) i : grid_ok (c_ops c) -> (i < length (params c))%nat ->
  exists c', freeze_param c i = Some c' /\ params c' = remove_nth (params c) i /\
             c_radixes c' = c_radixes c /\ get_unitary c' [] = get_unitary c [].
Proof.
  intros Hg Hi. destruct (get_param_location_spec c i) as [H1 _].
  destruct (H1 Hi) as (pre & cy & o & post & k & Eo & Hl & Hik & Hk & _).
  destruct (Hg _ _ _ _ Eo) as [Hne Hpre].
  assert (Hf : c_at c cy (hd 0%nat (op_loc o)) = Some o).
  { unfold Sim.c_at. rewrite Eo. rewrite (find_skip _ pre (cy, o) post Hpre (occupies_self cy o Hne)). reflexivity. }
  destruct (nth_error (op_params o) k) as [x|] eqn:Ex; [| apply nth_error_None in Ex; lia].
  unfold Sim.freeze_param. fold (get_param_location c i). rewrite Hl. fold (c_at c cy (hd 0%nat (op_loc o))). rewrite Hf, Ex.
  eexists. split; [reflexivity|]. rewrite Eo. rewrite (upd_at_skip pre cy _ o post _ Hpre (occupies_self cy o Hne)).
  split; [|split; [reflexivity|]].
  - rewrite !params_pconcat. cbn [c_ops]. rewrite Eo, !pconcat_app, !pconcat_cons. cbn [snd Sim.frozen op_params].
    rewrite remove_nth_app by lia. f_equal. replace (i - length (pconcat pre))%nat with k by lia.
    rewrite remove_nth_app_l by exact Hk. reflexivity.
  - apply get_unitary_mats; [reflexivity | reflexivity | reflexivity |].
    unfold gate_mats, Sim.ops_of. cbn [c_ops]. rewrite Eo. apply mats_of_frozen. exact Ex.
Qed.
End SimThm.
