(* circuit/SimGradThm.v - the gradient computed by Circuit.get_unitary_and_grad is the product rule (C06).
   D is any derivation of the entry ring (additive + Leibniz); it acts on matrices entry-wise. *)
From Coq Require Import List NArith Arith Bool ZArith Lia Ring Permutation.
Import ListNotations.
From BQ Require Import lib.Tensor lib.TensorThm circuit.Sim circuit.SimThm.
Open Scope N_scope.

Section Grad.
Variable R : Type.
Variables (r0 r1 : R) (radd rmul rsub : R -> R -> R) (ropp : R -> R) (rconj : R -> R).
Hypothesis Rth : ring_theory r0 r1 radd rmul rsub ropp (@eq R).
Add Ring Rring3 : Rth.
Variable P : Type.
Variable mz : nd R -> nd R.
Hypothesis mz_ok : forall T, nd_eq R (mz T) T.
Variable D : R -> R.
Hypothesis D_add : forall a b, D (radd a b) = radd (D a) (D b).
Hypothesis D_mul : forall a b, D (rmul a b) = radd (rmul (D a) b) (rmul a (D b)).

Local Notation "a +! b" := (radd a b) (at level 50, left associativity).
Local Notation "a *! b" := (rmul a b) (at level 40, left associativity).
Local Notation rsum := (rsum R r0 radd).
Local Notation nd_matmul := (nd_matmul R r0 radd rmul).
Local Notation nd_eq := (nd_eq R).
Local Notation embed := (embed R r0).
Local Notation nd_identity := (nd_identity R r0 r1).
Local Notation nd_dagger := (nd_dagger R rconj).
Local Notation apply_right := (apply_right R r0 radd rmul rconj).
Local Notation apply_left := (apply_left R r0 radd rmul rconj).
Local Notation eval_apply_right := (eval_apply_right R r0 radd rmul).
Local Notation ub_get_unitary := (ub_get_unitary R).
Local Notation ub_init := (ub_init R r0 r1).
Local Notation uprod := (uprod R r0 radd rmul).
Local Notation right_loop := (right_loop R r0 radd rmul rconj mz).
Local Notation grad_loop := (grad_loop R r0 radd rmul rconj mz).

Definition nd_D (A : nd R) : nd R := mk_nd (shape A) (fun i => D (at_ A i)).
Definition Dconst (A : nd R) : Prop := forall i, valid (shape A) i -> D (at_ A i) = r0.

Lemma ring_cancel a : a = a +! a -> a = r0.
Proof. intros H. transitivity (radd (ropp a) (a +! a)); [ring | rewrite <- H; ring]. Qed.

Lemma D_zero : D r0 = r0.
Proof.
  apply ring_cancel. rewrite <- D_add. replace (r0 +! r0) with r0 by ring. reflexivity.
Qed.

Lemma D_one : D r1 = r0.
Proof.
  apply ring_cancel. transitivity (D (r1 *! r1)); [replace (r1 *! r1) with r1 by ring; reflexivity|].
  rewrite D_mul. ring.
Qed.

Lemma D_rsum l : D (rsum l) = rsum (map D l).
Proof. induction l as [|x l IH]; simpl; [apply D_zero | rewrite D_add, IH; reflexivity]. Qed.

Lemma nd_D_proper A B : nd_eq A B -> nd_eq (nd_D A) (nd_D B).
Proof. intros [Hs H]. split; [exact Hs|]. intros i Hi. cbn [nd_D at_ shape] in *. rewrite H by exact Hi. reflexivity. Qed.

Lemma Dconst_proper A B : nd_eq A B -> Dconst A -> Dconst B.
Proof. intros [Hs H] HA i Hi. rewrite <- Hs in Hi. rewrite <- H by exact Hi. apply HA. exact Hi. Qed.

Lemma valid2_of a b r c : r < a -> c < b -> valid [a; b] [r; c].
Proof. intros. apply valid2. auto. Qed.

Lemma D_matmul_const_r A B a b c : shape A = [a; b] -> shape B = [b; c] -> Dconst B ->
  nd_eq (nd_D (nd_matmul A B)) (nd_matmul (nd_D A) B).
Proof.
  intros HA HB HcB. split; [reflexivity|]. intros i Hi. cbn [nd_D shape Tensor.nd_matmul] in Hi. rewrite HA, HB in Hi. cbn [nth] in Hi.
  apply valid2_inv in Hi as (r & s & -> & Hr & Hs).
  cbn [nd_D at_ Tensor.nd_matmul shape nth]. rewrite HA. cbn [nth]. rewrite D_rsum, map_map.
  eapply rsum_ext; eauto. intros x Hx. apply Nseq_In in Hx. rewrite D_mul.
  rewrite (HcB [x; s]) by (rewrite HB; apply valid2_of; auto). ring.
Qed.

Lemma D_matmul_const_l A B a b c : shape A = [a; b] -> shape B = [b; c] -> Dconst A ->
  nd_eq (nd_D (nd_matmul A B)) (nd_matmul A (nd_D B)).
Proof.
  intros HA HB HcA. split; [reflexivity|]. intros i Hi. cbn [nd_D shape Tensor.nd_matmul] in Hi. rewrite HA, HB in Hi. cbn [nth] in Hi.
  apply valid2_inv in Hi as (r & s & -> & Hr & Hs).
  cbn [nd_D at_ Tensor.nd_matmul shape nth]. rewrite HA. cbn [nth]. rewrite D_rsum, map_map.
  eapply rsum_ext; eauto. intros x Hx. apply Nseq_In in Hx. rewrite D_mul.
  rewrite (HcA [r; x]) by (rewrite HA; apply valid2_of; auto). ring.
Qed.

Lemma Dconst_matmul A B a b c : shape A = [a; b] -> shape B = [b; c] -> Dconst A -> Dconst B -> Dconst (nd_matmul A B).
Proof.
  intros HA HB HcA HcB i Hi. cbn [shape Tensor.nd_matmul] in Hi. rewrite HA, HB in Hi. cbn [nth] in Hi.
  apply valid2_inv in Hi as (r & s & -> & Hr & Hs).
  cbn [at_ Tensor.nd_matmul nth]. rewrite HA. cbn [nth]. rewrite D_rsum, map_map.
  eapply rsum_zero; eauto. intros x Hx. apply Nseq_In in Hx. rewrite D_mul.
  rewrite (HcA [r; x]) by (rewrite HA; apply valid2_of; auto).
  rewrite (HcB [x; s]) by (rewrite HB; apply valid2_of; auto). ring.
Qed.

Lemma Dconst_identity d : Dconst (nd_identity d).
Proof. intros i _. cbn [at_ Tensor.nd_identity]. destruct (N.eqb _ _); [apply D_one | apply D_zero]. Qed.

Lemma D_embed radixes loc U : nd_eq (nd_D (embed radixes loc U)) (embed radixes loc (nd_D U)).
Proof.
  split; [reflexivity|]. intros i _. cbn [nd_D at_ Tensor.embed]. destruct (idx_eqb _ _); [reflexivity | apply D_zero].
Qed.

Lemma Dconst_embed radixes loc U : allpos radixes -> wf_loc (length radixes) loc ->
  shape U = [prodN (gather loc radixes); prodN (gather loc radixes)] -> Dconst U -> Dconst (embed radixes loc U).
Proof.
  intros Hpos [Hnd Hr] HU Hc i Hi. cbn [shape Tensor.embed] in Hi. apply valid2_inv in Hi as (r & c & -> & Hr' & Hc').
  cbn [at_ Tensor.embed nth]. destruct (idx_eqb _ _); [|apply D_zero].
  apply Hc. rewrite HU. apply valid2_of; apply flatten_lt; apply valid_gather; auto; apply unflatten_valid; auto.
Qed.

(* ------------------------------------------------------------------ square matrices of the circuit's dimension *)
Section Fixed.
Variable radixes : list N.
Hypothesis Hpos : allpos radixes.
Let dim := prodN radixes.
Definition sq (A : nd R) : Prop := shape A = [dim; dim].
Local Notation I := (nd_identity dim).
Local Notation "A ** B" := (nd_matmul A B) (at level 40, left associativity).
Local Notation "A ~~ B" := (nd_eq A B) (at level 70).

Lemma sq_mm A B : sq A -> sq B -> sq (A ** B).
Proof. unfold sq. intros HA HB. unfold Tensor.nd_matmul. cbn [shape]. rewrite HA, HB. reflexivity. Qed.
Lemma sq_embed loc U : sq (embed radixes loc U).
Proof. reflexivity. Qed.
Lemma sq_I : sq I.
Proof. reflexivity. Qed.
Lemma sq_get T : sq (ub_get_unitary radixes T).
Proof. reflexivity. Qed.
Lemma sq_eq A B : A ~~ B -> sq A -> sq B.
Proof. intros [Hs _] H. unfold sq in *. congruence. Qed.

Lemma mm_proper A A' B B' : sq A -> sq B -> A ~~ A' -> B ~~ B' -> A ** B ~~ A' ** B'.
Proof. intros HA HB. eapply matmul_proper; eauto. Qed.
Lemma mm_assoc A B C : sq A -> sq B -> sq C -> (A ** B) ** C ~~ A ** (B ** C).
Proof. intros HA HB HC. eapply matmul_assoc; eauto. Qed.
Lemma mm_id_l A : sq A -> I ** A ~~ A.
Proof. intros HA. eapply matmul_id_l; eauto. Qed.
Lemma mm_id_r A : sq A -> A ** I ~~ A.
Proof. intros HA. eapply matmul_id_r; eauto. Qed.
Lemma eq_refl' A : A ~~ A.
Proof. apply nd_eq_refl. Qed.
Lemma eq_sym' A B : A ~~ B -> B ~~ A.
Proof. apply nd_eq_sym. Qed.
Lemma eq_trans' A B C : A ~~ B -> B ~~ C -> A ~~ C.
Proof. apply nd_eq_trans. Qed.

(* one entry of the lists built by get_unitary_and_grad: gate matrix, its partial derivatives, location *)
Definition entry := (nd R * list (nd R) * list nat)%type.
Definition e_M (x : entry) := fst (fst x).
Definition e_dM (x : entry) := snd (fst x).
Definition e_loc (x : entry) := snd x.
Definition colmats (col : list entry) : list (nd R * list nat) := map (fun x => (e_M x, e_loc x)) col.
Definition ldim (loc : list nat) := prodN (gather loc radixes).

Definition wf_entry (x : entry) : Prop :=
  wf_loc (length radixes) (e_loc x) /\ shape (e_M x) = [ldim (e_loc x); ldim (e_loc x)] /\
  Forall (fun g => shape g = [ldim (e_loc x); ldim (e_loc x)]) (e_dM x).
(* the gate matrix is unitary: U U^dagger = 1 (dagger = conj().T as computed by the code) *)
Definition unitary_entry (x : entry) : Prop := e_M x ** nd_dagger (e_M x) ~~ nd_identity (ldim (e_loc x)).

Definition E (x : entry) := embed radixes (e_loc x) (e_M x).

Lemma sq_uprod mats acc : sq acc -> sq (uprod radixes mats acc).
Proof. revert acc. induction mats as [|[M loc] r IH]; intros acc H; simpl; auto. apply IH. apply sq_mm; auto. apply sq_embed. Qed.

Lemma uprod_proper mats acc acc' : sq acc -> acc ~~ acc' -> uprod radixes mats acc ~~ uprod radixes mats acc'.
Proof.
  revert acc acc'. induction mats as [|[M loc] r IH]; intros acc acc' Hs He; simpl; auto.
  apply IH; [apply sq_mm; auto; apply sq_embed|]. apply mm_proper; auto; [apply sq_embed | apply eq_refl'].
Qed.

Lemma uprod_acc mats acc : sq acc -> uprod radixes mats acc ~~ uprod radixes mats I ** acc.
Proof.
  revert acc. induction mats as [|[M loc] r IH]; intros acc Hs; simpl.
  - apply eq_sym'. apply mm_id_l. exact Hs.
  - set (Em := embed radixes loc M). set (S := uprod radixes r I).
    assert (HE : sq Em) by apply sq_embed.
    assert (HS : sq S) by (apply sq_uprod; apply sq_I).
    apply (eq_trans' _ (S ** (Em ** acc))); [apply IH; apply sq_mm; auto|].
    apply eq_sym'.
    apply (eq_trans' _ ((S ** (Em ** I)) ** acc)).
    { apply mm_proper; [apply sq_uprod; apply sq_mm; auto; apply sq_I | exact Hs | apply IH; apply sq_mm; auto; apply sq_I | apply eq_refl']. }
    apply (eq_trans' _ (S ** ((Em ** I) ** acc))).
    { apply mm_assoc; auto; try (apply sq_mm; auto; apply sq_I). }
    apply mm_proper; [exact HS | apply sq_mm; auto; apply sq_mm; auto; apply sq_I | apply eq_refl' |].
    apply mm_proper; [apply sq_mm; auto; apply sq_I | exact Hs | apply mm_id_r; exact HE | apply eq_refl'].
Qed.

Local Notation rr := (radixes ++ radixes).
Local Notation get := (ub_get_unitary radixes).

Lemma get_proper A B : shape A = rr -> A ~~ B -> get A ~~ get B.
Proof. intros HA HE. eapply get_unitary_proper; eauto. Qed.

Lemma get_mz T : shape T = rr -> get (mz T) ~~ get T.
Proof. intros HT. apply get_proper; [destruct (mz_ok T) as [Hs _]; rewrite Hs; exact HT | apply mz_ok]. Qed.

Lemma shape_mz T : shape (mz T) = shape T.
Proof. destruct (mz_ok T) as [Hs _]. exact Hs. Qed.

Lemma step_right_apply (B M : nd R) loc : wf_loc (length radixes) loc -> shape B = rr ->
  nth 1 (shape M) 0 = ldim loc ->
  shape (mz (apply_right radixes B M loc false)) = rr /\
  get (mz (apply_right radixes B M loc false)) ~~ embed radixes loc M ** get B.
Proof.
  intros Hw HB HM.
  assert (Hs : shape (apply_right radixes B M loc false) = rr) by (apply apply_right_shape; exact Hw).
  split; [rewrite shape_mz; exact Hs|].
  eapply eq_trans'; [apply get_mz; exact Hs|]. eapply apply_right_embed; eauto.
Qed.

Lemma step_left_apply_inv (B M : nd R) loc : wf_loc (length radixes) loc -> shape B = rr ->
  shape M = [ldim loc; ldim loc] ->
  shape (mz (apply_left radixes B M loc true)) = rr /\
  get (mz (apply_left radixes B M loc true)) ~~ get B ** embed radixes loc (nd_dagger M).
Proof.
  intros Hw HB HM.
  assert (Hs : shape (apply_left radixes B M loc true) = rr) by (apply apply_left_shape; exact Hw).
  split; [rewrite shape_mz; exact Hs|].
  eapply eq_trans'; [apply get_mz; exact Hs|].
  change (apply_left radixes B M loc true) with (apply_left radixes B (nd_dagger M) loc false).
  eapply apply_left_embed; eauto. cbn [shape Tensor.nd_dagger Tensor.nd_transpose Tensor.nd_conj gather map nth]. rewrite HM. reflexivity.
Qed.

Definition wf_mat (x : nd R * list nat) : Prop := wf_loc (length radixes) (snd x) /\ nth 1 (shape (fst x)) 0 = ldim (snd x).

Lemma right_loop_spec mats : Forall wf_mat mats -> forall B acc, shape B = rr -> sq acc -> get B ~~ acc ->
  shape (right_loop radixes mats B) = rr /\ get (right_loop radixes mats B) ~~ uprod radixes mats acc.
Proof.
  induction 1 as [|[M loc] mats [Hw HM] _ IH]; intros B acc HB Hacc HE; [simpl; auto|].
  cbn [fst snd] in *. cbn [Sim.right_loop Sim.uprod].
  destruct (step_right_apply B M loc Hw HB HM) as [Hs He].
  apply IH; [exact Hs | apply sq_mm; auto; apply sq_embed |].
  eapply eq_trans'; [exact He|]. apply mm_proper; [apply sq_embed | apply sq_get | apply eq_refl' | exact HE].
Qed.

(* what the gradient loop computes, in terms of matrices: for the operation x at the head of col,
   (product of the later embeddings) * embed(dM) * L  where L is the product of the earlier ones *)
Fixpoint grads_spec (col : list entry) (L : nd R) : list (nd R) :=
  match col with
  | [] => []
  | x :: rest =>
    map (fun g => uprod radixes (colmats rest) I ** (embed radixes (e_loc x) g ** L)) (e_dM x)
    ++ grads_spec rest (E x ** L)
  end.

Lemma wf_entry_mat x : wf_entry x -> wf_mat (e_M x, e_loc x).
Proof. intros (Hw & HM & _). split; [exact Hw|]. cbn [fst snd]. rewrite HM. reflexivity. Qed.

Lemma embed_unitary_cancel x : wf_entry x -> unitary_entry x ->
  E x ** embed radixes (e_loc x) (nd_dagger (e_M x)) ~~ I.
Proof.
  intros (Hw & HM & _) HU. unfold E.
  eapply eq_trans'; [eapply embed_mul; eauto; rewrite HM; reflexivity|].
  eapply eq_trans'; [| eapply embed_identity; eauto].
  eapply embed_proper; eauto. unfold Tensor.nd_matmul. cbn [shape Tensor.nd_dagger Tensor.nd_transpose Tensor.nd_conj gather map nth].
  rewrite HM. reflexivity.
Qed.

Lemma grad_loop_spec col : Forall wf_entry col -> Forall unitary_entry col ->
  forall left right L, shape left = rr -> shape right = rr -> sq L -> get left ~~ L ->
  get right ~~ uprod radixes (colmats col) I ->
  shape (fst (grad_loop radixes col left right)) = rr /\
  get (fst (grad_loop radixes col left right)) ~~ uprod radixes (colmats col) L /\
  Forall2 (fun a b => a ~~ b) (snd (grad_loop radixes col left right)) (grads_spec col L).
Proof.
  induction 1 as [|x col Hx _ IH]; intros HU left right L Hl Hr HL El Er.
  - simpl. auto.
  - inversion HU as [|? ? Hux HU']; subst. destruct x as [[M dM] loc]. pose proof Hx as (Hw & HM & HdM).
    cbn [e_M e_dM e_loc fst snd] in Hw, HM, HdM.
    cbn [Sim.grad_loop].
    destruct (step_left_apply_inv right M loc Hw Hr HM) as [Hsr Her].
    assert (HM1 : nth 1 (shape M) 0 = ldim loc) by (rewrite HM; reflexivity).
    destruct (step_right_apply left M loc Hw Hl HM1) as [Hsl Hel].
    set (right' := mz (apply_left radixes right M loc true)) in *.
    set (left' := mz (apply_right radixes left M loc false)) in *.
    set (Srest := uprod radixes (colmats col) I).
    assert (HS : sq Srest) by (apply sq_uprod; apply sq_I).
    set (Ex := embed radixes loc M).
    assert (HEx : sq Ex) by apply sq_embed.
    (* right' is the product of the later embeddings *)
    assert (Er' : get right' ~~ Srest).
    { eapply eq_trans'; [exact Her|].
      apply (eq_trans' _ ((Srest ** Ex) ** embed radixes loc (nd_dagger M))).
      { apply mm_proper; [apply sq_get | apply sq_embed | | apply eq_refl'].
        eapply eq_trans'; [exact Er|]. cbn [colmats map Sim.uprod e_M e_loc fst snd]. fold Ex.
        eapply eq_trans'; [apply uprod_acc; apply sq_mm; auto; apply sq_I|]. fold Srest.
        apply mm_proper; [exact HS | apply sq_mm; auto; apply sq_I | apply eq_refl' | apply mm_id_r; exact HEx]. }
      eapply eq_trans'; [apply mm_assoc; auto; apply sq_embed|].
      eapply eq_trans'; [| apply mm_id_r; exact HS].
      apply mm_proper; [exact HS | apply sq_mm; auto; apply sq_embed | apply eq_refl' |].
      apply (embed_unitary_cancel (M, dM, loc) Hx Hux). }
    assert (El' : get left' ~~ Ex ** L).
    { eapply eq_trans'; [exact Hel|]. apply mm_proper; [exact HEx | apply sq_get | apply eq_refl' | exact El]. }
    specialize (IH HU' left' right' (Ex ** L) Hsl Hsr (sq_mm _ _ HEx HL) El' Er').
    destruct (grad_loop radixes col left' right') as [lfin grest] eqn:Eg. cbn [fst snd] in *.
    destruct IH as (IH1 & IH2 & IH3). split; [exact IH1|]. split; [exact IH2|].
    cbn [grads_spec e_dM e_loc fst snd]. apply Forall2_app; [|exact IH3].
    fold Srest. clear - HdM Er' El Hl Hw HS HL mz_ok Rth Hpos HEx.
    induction HdM as [|g dM Hg _ IHd]; [constructor|]. cbn [map]. constructor; [|exact IHd].
    eapply eq_trans'; [apply mz_ok|].
    assert (Hev : mz (eval_apply_right radixes left g loc) ~~ embed radixes loc g ** get left).
    { eapply eq_trans'; [apply mz_ok|]. eapply eval_apply_right_embed; eauto. rewrite Hg. reflexivity. }
    apply mm_proper; [apply sq_get | | exact Er' |].
    + eapply sq_eq; [apply eq_sym'; exact Hev|]. apply sq_mm; [apply sq_embed | apply sq_get].
    + eapply eq_trans'; [exact Hev|]. apply mm_proper; [apply sq_embed | apply sq_get | apply eq_refl' | exact El].
Qed.

Definition glen (col : list entry) : nat := fold_right (fun x a => (length (e_dM x) + a)%nat) 0%nat col.

Lemma grads_spec_length col L : length (grads_spec col L) = glen col.
Proof. revert L. induction col as [|x col IH]; intros L; simpl; [reflexivity|]. rewrite app_length, map_length, IH. reflexivity. Qed.

Lemma grads_spec_nth pre x post p d : (p < length (e_dM x))%nat -> forall L,
  nth (glen pre + p) (grads_spec (pre ++ x :: post) L) d =
  uprod radixes (colmats post) I ** (embed radixes (e_loc x) (nth p (e_dM x) d) ** uprod radixes (colmats pre) L).
Proof.
  intros Hp. induction pre as [|y pre IH]; intros L.
  - cbn [app glen fold_right grads_spec colmats map Sim.uprod Nat.add].
    rewrite app_nth1 by (rewrite map_length; exact Hp).
    rewrite (map_nth_d _ _ _ d d) by exact Hp. reflexivity.
  - cbn [app glen fold_right grads_spec]. fold (glen pre).
    rewrite app_nth2 by (rewrite map_length; lia). rewrite map_length.
    replace (length (e_dM y) + glen pre + p - length (e_dM y))%nat with (glen pre + p)%nat by lia.
    rewrite IH. reflexivity.
Qed.

Lemma uprod_app a b acc : uprod radixes (a ++ b) acc = uprod radixes b (uprod radixes a acc).
Proof. revert acc. induction a as [|[M loc] a IH]; intros acc; simpl; auto. Qed.

Lemma Dconst_uprod mats acc : Forall wf_mat mats -> Forall (fun x => shape (fst x) = [ldim (snd x); ldim (snd x)] /\ Dconst (fst x)) mats ->
  sq acc -> Dconst acc -> Dconst (uprod radixes mats acc).
Proof.
  intros Hwf. revert acc. induction Hwf as [|[M loc] mats [Hw _] _ IH]; intros acc Hc Hs Hd; [simpl; auto|].
  inversion Hc as [|? ? [HM HcM] Hc']; subst. cbn [fst snd] in *. cbn [Sim.uprod]. apply IH; auto.
  - apply sq_mm; auto. apply sq_embed.
  - apply (Dconst_matmul _ _ dim dim dim); [reflexivity | exact Hs | | exact Hd]. apply Dconst_embed; auto.
Qed.

(* the derivative of the whole product when only the operation x depends on the parameter *)
Lemma D_total pre x post :
  Forall wf_entry (pre ++ x :: post) -> Forall (fun y => Dconst (e_M y)) (pre ++ post) ->
  nd_D (uprod radixes (colmats (pre ++ x :: post)) I) ~~
  uprod radixes (colmats post) I ** (embed radixes (e_loc x) (nd_D (e_M x)) ** uprod radixes (colmats pre) I).
Proof.
  intros Hwf Hc. apply Forall_app in Hwf as [Hwpre Hwx]. inversion Hwx as [|? ? Hx Hwpost]; subst.
  apply Forall_app in Hc as [Hcpre Hcpost].
  set (Sp := uprod radixes (colmats post) I). set (Lp := uprod radixes (colmats pre) I).
  assert (HSp : sq Sp) by (apply sq_uprod; apply sq_I). assert (HLp : sq Lp) by (apply sq_uprod; apply sq_I).
  assert (aux : forall l, Forall wf_entry l -> Forall (fun y => Dconst (e_M y)) l ->
                Forall wf_mat (colmats l) /\ Forall (fun z => shape (fst z) = [ldim (snd z); ldim (snd z)] /\ Dconst (fst z)) (colmats l)).
  { intros l Hw Hd. split; unfold colmats; rewrite Forall_map; rewrite Forall_forall in *; intros y Hy.
    - apply wf_entry_mat. auto.
    - cbn [fst snd]. split; [destruct (Hw y Hy) as (_ & H & _); exact H | auto]. }
  destruct (aux pre Hwpre Hcpre) as [Hm1 Hd1]. destruct (aux post Hwpost Hcpost) as [Hm2 Hd2].
  assert (DSp : Dconst Sp) by (apply Dconst_uprod; auto; [apply sq_I | apply Dconst_identity]).
  assert (DLp : Dconst Lp) by (apply Dconst_uprod; auto; [apply sq_I | apply Dconst_identity]).
  unfold colmats. rewrite map_app, uprod_app. cbn [map Sim.uprod]. fold (colmats pre) (colmats post). fold Lp.
  set (Ex := embed radixes (e_loc x) (e_M x)). assert (HEx : sq Ex) by apply sq_embed.
  apply (eq_trans' _ (nd_D (Sp ** (Ex ** Lp)))).
  { apply nd_D_proper. apply uprod_acc. apply sq_mm; auto. }
  apply (eq_trans' _ (Sp ** nd_D (Ex ** Lp))).
  { eapply (D_matmul_const_l _ _ dim dim dim); auto. apply sq_mm; auto. }
  apply mm_proper; [exact HSp | apply (sq_mm _ _ HEx HLp) | apply eq_refl' |].
  apply (eq_trans' _ (nd_D Ex ** Lp)).
  { eapply (D_matmul_const_r _ _ dim dim dim); auto. }
  apply mm_proper; [apply HEx | exact HLp | apply D_embed | apply eq_refl'].
Qed.

End Fixed.

(* ------------------------------------------------------------------ the circuit-level statement *)
Local Notation circuit := (circuit R P).
Local Notation get_unitary_and_grad := (get_unitary_and_grad R r0 r1 radd rmul rconj P mz).

(* the lists `matrices, grads, locations` collected by get_unitary_and_grad *)
Definition col_of (c : circuit) (ps : list P) : list entry :=
  map (fun og => (op_get_unitary R P (fst og) (snd og), op_get_grad R P (fst og) (snd og), op_loc (fst og)))
      (combine (ops_of R P c) (gparams_loop R P (ops_of R P c) ps 0)).

Lemma colmats_col_of c ps : colmats (col_of c ps) = gate_mats R P c ps.
Proof. unfold colmats, col_of, gate_mats, mats_of. rewrite map_map. reflexivity. Qed.

Lemma Forall2_nth {A} (Rel : A -> A -> Prop) l l' k d : Forall2 Rel l l' -> (k < length l)%nat -> Rel (nth k l d) (nth k l' d).
Proof.
  intros H. revert k. induction H as [|x y l l' Hxy _ IH]; intros k Hk; [simpl in Hk; lia|].
  destruct k; simpl; [exact Hxy|]. apply IH. simpl in Hk. lia.
Qed.

Lemma Forall2_length' {A B} (Rel : A -> B -> Prop) l l' : Forall2 Rel l l' -> length l = length l'.
Proof. induction 1; simpl; auto. Qed.

Lemma glen_app a b : glen (a ++ b) = (glen a + glen b)%nat.
Proof. induction a as [|x a IH]; simpl; [reflexivity|]. rewrite IH. lia. Qed.

(* C06: the gradient returned by get_unitary_and_grad is the product rule; the returned unitary is get_unitary *)
Theorem grad_product_rule (c : circuit) (ps : list P) G gs :
  allpos (c_radixes c) ->
  Forall (wf_entry (c_radixes c)) (col_of c ps) -> Forall (unitary_entry (c_radixes c)) (col_of c ps) ->
  (ps = [] \/ length ps = num_params R P c) ->
  get_unitary_and_grad c ps = Some (G, gs) ->
  nd_eq G (uprod (c_radixes c) (gate_mats R P c ps) (nd_identity (prodN (c_radixes c)))) /\
  length gs = glen (col_of c ps) /\
  forall pre x post p d, col_of c ps = pre ++ x :: post -> (p < length (e_dM x))%nat ->
    Forall (fun y => Dconst (e_M y)) (pre ++ post) -> nd_eq (nth p (e_dM x) d) (nd_D (e_M x)) ->
    nd_eq (nth (glen pre + p) gs d) (nd_D G).
Proof.
  intros Hpos Hwf Hun Hps Hg. set (radixes := c_radixes c) in *. set (col := col_of c ps) in *.
  unfold Sim.get_unitary_and_grad in Hg.
  assert (Hchk : negb (Nat.eqb (length ps) 0) && negb (check_parameters P (num_params R P c) ps) = false).
  { destruct Hps as [-> | Hl]; [reflexivity|]. unfold check_parameters. rewrite Hl, Nat.eqb_refl. apply andb_false_r. }
  rewrite Hchk in Hg. cbv zeta in Hg. fold radixes in Hg.
  change (map (fun og => (op_get_unitary R P (fst og) (snd og), op_get_grad R P (fst og) (snd og), op_loc (fst og)))
              (combine (ops_of R P c) (gparams_loop R P (ops_of R P c) ps 0))) with col in Hg.
  change (map (fun x : nd R * list (nd R) * list nat => (fst (fst x), snd x)) col) with (colmats col) in Hg.
  assert (Hmats : Forall (wf_mat radixes) (colmats col)).
  { unfold colmats. rewrite Forall_map. rewrite Forall_forall in *. intros y Hy. apply wf_entry_mat. auto. }
  assert (Hinit : nd_eq (ub_get_unitary radixes (ub_init radixes)) (nd_identity (prodN radixes))) by (eapply ub_init_identity; eauto).
  destruct (right_loop_spec radixes Hpos (colmats col) Hmats (ub_init radixes) (nd_identity (prodN radixes))
              (ub_init_shape R r0 r1 radixes) (sq_I radixes) Hinit) as [Hsr Her].
  pose proof (grad_loop_spec radixes Hpos col Hwf Hun (ub_init radixes)
                (right_loop radixes (colmats col) (ub_init radixes)) (nd_identity (prodN radixes))
                (ub_init_shape R r0 r1 radixes) Hsr (sq_I radixes) Hinit Her) as (Hs1 & Hs2 & Hs3).
  destruct (grad_loop radixes col (ub_init radixes) (right_loop radixes (colmats col) (ub_init radixes))) as [lfin grads] eqn:Eg.
  cbn [fst snd] in *. inversion Hg; subst G gs. clear Hg.
  rewrite <- colmats_col_of. fold col radixes.
  split; [exact Hs2|]. split; [rewrite (Forall2_length' _ _ _ Hs3); apply grads_spec_length|].
  intros pre x post p d Ecol Hp Hconst Hd.
  assert (Hk : (glen pre + p < length grads)%nat).
  { rewrite (Forall2_length' _ _ _ Hs3), grads_spec_length, Ecol, glen_app. simpl. lia. }
  eapply nd_eq_trans; [apply (Forall2_nth _ _ _ _ d Hs3 Hk)|].
  rewrite Ecol, grads_spec_nth by exact Hp.
  eapply nd_eq_trans; [| apply nd_D_proper; apply nd_eq_sym; exact Hs2].
  rewrite Ecol in Hwf.
  eapply nd_eq_trans; [| apply nd_eq_sym; rewrite Ecol; apply (D_total radixes Hpos pre x post Hwf Hconst)].
  assert (Hwx : wf_entry radixes x).
  { apply Forall_app in Hwf as [_ H]. inversion H; auto. }
  destruct Hwx as (Hw & HM & HdM).
  apply (mm_proper radixes); [apply sq_uprod; apply sq_I | apply sq_mm; [apply sq_embed | apply sq_uprod; apply sq_I] | apply nd_eq_refl |].
  apply (mm_proper radixes); [apply sq_embed | apply sq_uprod; apply sq_I | | apply nd_eq_refl].
  eapply embed_proper; eauto. rewrite Forall_forall in HdM. apply HdM. apply nth_In. exact Hp.
Qed.

End Grad.

(* ================================================================== non-vacuity: dual numbers *)
From BQ Require Import circuit.SimExec.

Lemma du_ring : ring_theory du0 du1 du_add du_mul du_sub du_opp (@eq DU).
Proof.
  constructor; intros; unfold du_sub, du_add, du_mul, du_opp, du0, du1;
    repeat match goal with x : DU |- _ => destruct x end; cbn [fst snd]; try reflexivity; f_equal; ring.
Qed.

Lemma du_D_add a b : du_D (du_add a b) = du_add (du_D a) (du_D b).
Proof. destruct a, b. reflexivity. Qed.

Lemma du_D_mul a b : du_D (du_mul a b) = du_add (du_mul (du_D a) b) (du_mul a (du_D b)).
Proof. destruct a, b. unfold du_D, du_mul, du_add. cbn [fst snd]. f_equal; ring. Qed.

Lemma lt2_cases r : r < 2 -> r = 0 \/ r = 1.
Proof. lia. Qed.

Lemma du_example :
  let c := du_circuit in
  let col := col_of DU unit c [] in
  allpos (c_radixes c) /\
  Forall (wf_entry DU (c_radixes c)) col /\
  Forall (unitary_entry DU du0 du1 du_add du_mul du_conj (c_radixes c)) col /\
  exists x, col = [] ++ x :: [] /\ (0 < length (e_dM DU x))%nat /\
    nd_eq DU (nth 0 (e_dM DU x) du_gate) (nd_D DU du_D (e_M DU x)) /\
    at_ (nd_D DU du_D (e_M DU x)) [0; 0] <> du0 /\
    exists G gs, get_unitary_and_grad DU du0 du1 du_add du_mul du_conj unit (fun T => T) c [] = Some (G, gs).
Proof.
  cbv zeta. split; [repeat constructor|]. split; [|split].
  - constructor; [|constructor]. split; [|split].
    + split; [repeat constructor; simpl; tauto | repeat constructor].
    + reflexivity.
    + repeat constructor.
  - constructor; [|constructor]. split; [reflexivity|].
    intros i Hi. apply valid2_inv in Hi as (r & c & -> & Hr & Hc).
    apply lt2_cases in Hr. apply lt2_cases in Hc. destruct Hr as [-> | ->], Hc as [-> | ->]; reflexivity.
  - eexists. split; [reflexivity|]. split; [simpl; lia|]. split; [|split].
    + split; [reflexivity|]. intros i Hi. apply valid2_inv in Hi as (r & c & -> & Hr & Hc).
      apply lt2_cases in Hr. apply lt2_cases in Hc. destruct Hr as [-> | ->], Hc as [-> | ->]; reflexivity.
    + discriminate.
    + eexists. eexists. reflexivity.
Qed.
