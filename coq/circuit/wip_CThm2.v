(* Theorems about the circuit model, part 2: timelines and invariant preservation
   of the remaining modelled editors (replace, batch_pop, replace_with_circuit /
   unfold, the qudit editors, concatenation, clear) and the invariant over every
   history of the whole modelled alphabet. *)
From Coq Require Import List Arith Bool PeanoNat ZArith Lia Permutation.
Import ListNotations.
From BQ Require Import lib.Trace circuit.CModel circuit.CThm.
Open Scope nat_scope.

(* ---- small facts ------------------------------------------------------------------ *)
Lemma valid_op_ext c c' o : nq c' = nq c -> rads c' = rads c -> valid_op c' o = valid_op c o.
Proof. unfold valid_op. intros -> ->. reflexivity. Qed.

Lemma normZ_nat i n : normZ (Z.of_nat i) n = i.
Proof. unfold normZ. destruct (Z.ltb_spec (Z.of_nat i) 0); [lia|]. apply Nat2Z.id. Qed.

Lemma in_rangeZ_nat i n : i < n -> in_rangeZ (Z.of_nat i) n = true.
Proof. intros H. unfold in_rangeZ. apply andb_true_iff. split; [apply Z.ltb_lt|apply Z.leb_le]; lia. Qed.

Lemma insert_index_nat c i : i < ncyc c -> insert_index c (Z.of_nat i) = Some i.
Proof. intros H. unfold insert_index. destruct (Nat.eqb_spec (ncyc c) 0); [lia|].
  rewrite in_rangeZ_nat by exact H. rewrite normZ_nat. reflexivity. Qed.

Lemma insert_out c ci o : valid_op c o = true -> snd (insert c ci o) = OkU.
Proof. intros Hv. unfold insert. rewrite Hv. cbn [negb].
  repeat match goal with |- context[if ?b then _ else _] => destruct b end; reflexivity. Qed.

Lemma insert_nq c ci o : nq (fst (insert c ci o)) = nq c /\ rads (fst (insert c ci o)) = rads c.
Proof. unfold insert, append_raw, place.
  repeat match goal with |- context[if ?b then _ else _] => destruct b end; cbn; auto. Qed.

Lemma append_raw_nq c o : nq (fst (append_raw c o)) = nq c /\ rads (fst (append_raw c o)) = rads c.
Proof. unfold append_raw, place. destruct (Nat.eqb _ _); cbn; auto. Qed.

Lemma remove_op_nq c i q : nq (remove_op c i q) = nq c /\ rads (remove_op c i q) = rads c.
Proof. unfold remove_op. destruct (filter _ _); cbn; auto. Qed.

Lemma firstn_app_l {A} (a b : list A) n : length a = n -> firstn n (a ++ b) = a.
Proof. intros <-. induction a as [|x a IH]; cbn; [destruct b; reflexivity|]. rewrite IH. reflexivity. Qed.

Lemma skipn_app_l {A} (a b : list A) n : length a = n -> skipn n (a ++ b) = b.
Proof. intros <-. induction a as [|x a IH]; cbn; auto. Qed.

Lemma skipn_update_at {A} i f (l : list A) d : i < length l -> skipn i (update_at i f l) = f (nth i l d) :: skipn (S i) l.
Proof. revert i. induction l as [|y t IH]; intros i Hi; cbn in Hi; [lia|].
  destruct i as [|i]; cbn; [reflexivity|]. apply IH. lia. Qed.

Lemma update_at_app_r {A} (a b : list A) x f : update_at (length a) f (a ++ x :: b) = a ++ f x :: b.
Proof. induction a as [|y a IH]; cbn; [reflexivity|]. rewrite IH. reflexivity. Qed.

Lemma split_at {A} (l : list A) i d : i < length l -> l = firstn i l ++ nth i l d :: skipn (S i) l.
Proof. revert i. induction l as [|y t IH]; intros i Hi; cbn in Hi; [lia|].
  destruct i as [|i]; cbn; [reflexivity|]. f_equal. apply IH. lia. Qed.

Lemma firstn_len {A} (l : list A) i : i <= length l -> length (firstn i l) = i.
Proof. intros H. rewrite firstn_length. lia. Qed.

Lemma tlc_nil q : tlc [] q = [].
Proof. reflexivity. Qed.

Lemma tlc_cons cy cs q : tlc (cy :: cs) q = filter (touches q) cy ++ tlc cs q.
Proof. reflexivity. Qed.

(* ---- cells under `amo` ----------------------------------------------------------------- *)
Lemma amo_unique cy q x y : amo cy -> In x cy -> In y cy -> touches q x = true -> touches q y = true -> x = y.
Proof. intros A Hx Hy Tx Ty. specialize (A q).
  assert (Ix : In x (filter (touches q) cy)) by (apply filter_In; auto).
  assert (Iy : In y (filter (touches q) cy)) by (apply filter_In; auto).
  destruct (filter (touches q) cy) as [|a [|b t]]; cbn in *; try lia; try tauto.
  destruct Ix as [<-|[]], Iy as [<-|[]]. reflexivity. Qed.

Lemma find_hd_filter {A} (f : A -> bool) l : find f l = hd_error (filter f l).
Proof. induction l as [|x l IH]; cbn; auto. destruct (f x); auto. Qed.

Lemma cell_Some cy q o : cell cy q = Some o -> In o cy /\ touches q o = true.
Proof. unfold cell. apply find_some. Qed.

Lemma cell_None cy q : cell cy q = None -> filter (touches q) cy = [].
Proof. unfold cell. rewrite find_hd_filter. destruct (filter (touches q) cy); [reflexivity|discriminate]. Qed.

Lemma amo_filter_one cy q o : amo cy -> In o cy -> touches q o = true -> filter (touches q) cy = [o].
Proof. intros A Ho To. specialize (A q).
  assert (Io : In o (filter (touches q) cy)) by (apply filter_In; auto).
  destruct (filter (touches q) cy) as [|a [|b t]]; cbn in *; try lia; try tauto.
  destruct Io as [<-|[]]. reflexivity. Qed.

Lemma cell_filter cy q o : amo cy -> cell cy q = Some o -> filter (touches q) cy = [o].
Proof. intros A H. apply cell_Some in H as [H1 H2]. apply amo_filter_one; auto. Qed.

Lemma cell_amo cy q o : amo cy -> In o cy -> touches q o = true -> cell cy q = Some o.
Proof. intros A Ho To. unfold cell. rewrite find_hd_filter, (amo_filter_one cy q o); auto. Qed.

Lemma Inv_amo c i : Inv c -> amo (cycle_at c i).
Proof. intros H. unfold cycle_at. destruct (Nat.lt_ge_cases i (length (cycles c))) as [Hi|Hi].
  - unfold Inv in H. rewrite Forall_forall in H. apply (H (nth i (cycles c) [])). apply nth_In. exact Hi.
  - rewrite nth_overflow by exact Hi. intros q. cbn. lia. Qed.

Lemma Inv_Forall_amo c : Inv c -> Forall amo (cycles c).
Proof. intros H. eapply Forall_impl; [|exact H]. intros cy [_ A]. exact A. Qed.

Lemma subsetb_mem a b q : subsetb a b = true -> memn q a = true -> memn q b = true.
Proof. unfold subsetb. rewrite forallb_forall. intros H Hq. apply H. apply memn_In. exact Hq. Qed.

Lemma seteqb_mem a b q : seteqb a b = true -> memn q a = memn q b.
Proof. unfold seteqb. intros H. apply andb_true_iff in H as [H1 H2].
  destruct (memn q a) eqn:Ea; [symmetry; eapply subsetb_mem; eauto|].
  destruct (memn q b) eqn:Eb; auto. rewrite (subsetb_mem b a q H2 Eb) in Ea. discriminate. Qed.

Lemma filter_map_comm {A B} (f : B -> bool) (g : A -> B) l : filter f (map g l) = map g (filter (fun x => f (g x)) l).
Proof. induction l as [|x l IH]; cbn; auto. destruct (f (g x)); cbn; rewrite IH; reflexivity. Qed.

Lemma filter_ext_in' {A} (f g : A -> bool) l : (forall x, In x l -> f x = g x) -> filter f l = filter g l.
Proof. induction l as [|x l IH]; intros H; cbn; auto.
  rewrite (H x) by (left; reflexivity). rewrite IH by (intros; apply H; right; assumption). reflexivity. Qed.

Lemma map_id_in {A} (f : A -> A) l : (forall x, In x l -> f x = x) -> map f l = l.
Proof. induction l as [|x l IH]; intros H; cbn; auto.
  rewrite (H x) by (left; reflexivity). rewrite IH by (intros; apply H; right; assumption). reflexivity. Qed.

(* ---- replace ------------------------------------------------------------------------------ *)
Definition subst_op (q : nat) (o : op) (x : op) : op := if touches q x then o else x.

(* substituting `o` for the operation at qudit q of a cycle, when both occupy the same qudits *)
Lemma subst_filter cy q old o q' :
  amo cy -> cell cy q = Some old -> seteqb (o_loc old) (o_loc o) = true ->
  filter (touches q') (map (subst_op q o) cy) = if touches q' old then [o] else filter (touches q') cy.
Proof. intros A Hc Hs. destruct (cell_Some _ _ _ Hc) as [Hin Hq].
  assert (Hsub : forall x, In x cy -> touches q' (subst_op q o x) = touches q' x).
  { intros x Hx. unfold subst_op. destruct (touches q x) eqn:T; auto.
    assert (x = old) by (eapply amo_unique; eauto). subst x. unfold touches. symmetry. apply seteqb_mem. exact Hs. }
  rewrite filter_map_comm. rewrite (filter_ext_in' _ (touches q') cy Hsub).
  destruct (touches q' old) eqn:T.
  - rewrite (amo_filter_one cy q' old A Hin T). cbn. unfold subst_op. rewrite Hq. reflexivity.
  - apply map_id_in. intros x Hx. apply filter_In in Hx as [Hx Tx]. unfold subst_op.
    destruct (touches q x) eqn:Tq; auto.
    assert (x = old) by (eapply amo_unique; eauto). subst x. congruence. Qed.

Lemma pir_lt c ci qi : point_in_range c ci qi = true -> normZ ci (ncyc c) < ncyc c /\ normZ qi (nq c) < nq c.
Proof. unfold point_in_range. intros H. apply andb_true_iff in H as [H1 H2]. split; apply normZ_lt; assumption. Qed.

Lemma seteq_not_disjoint a b q : memn q a = true -> seteqb a b = true -> disjointb a b = false.
Proof. intros Hq Hs. destruct (disjointb a b) eqn:D; auto.
  pose proof (disjointb_free a b q D (proj1 (memn_In q a) Hq)) as F.
  rewrite <- (seteqb_mem a b q Hs) in F. congruence. Qed.

(* in-place branch: same set of qudits; the new operation takes the old one's place
   on every one of them, nothing else changes *)
Theorem replace_inplace_tl c ci qi o old q' :
  let i := normZ ci (ncyc c) in let q := normZ qi (nq c) in
  valid_op c o = true -> point_in_range c ci qi = true -> amo (cycle_at c i) ->
  get_cell c i q = Some old -> seteqb (o_loc old) (o_loc o) = true ->
  let r := replace c (ci, qi) o in
  snd r = OkU /\ nq (fst r) = nq c /\ rads (fst r) = rads c /\ ncyc (fst r) = ncyc c /\
  tl (fst r) q' = tlc (firstn i (cycles c)) q'
                  ++ (if touches q' old then [o] else filter (touches q') (cycle_at c i))
                  ++ tlc (skipn (S i) (cycles c)) q'.
Proof. intros i q Hv Hp A Hc Hs r. unfold r, replace. rewrite Hv, Hp. cbn [negb].
  fold i q. rewrite Hc.
  destruct (cell_Some _ _ _ Hc) as [Hin Hq].
  rewrite (seteq_not_disjoint _ _ q Hq Hs), Hs. cbn [fst snd nq rads].
  destruct (pir_lt _ _ _ Hp) as [Hi _]. fold i in Hi. unfold ncyc in *. cbn [cycles].
  rewrite length_update_at. repeat split; auto.
  unfold tl. cbn [cycles]. rewrite tlc_update_at by exact Hi.
  change (map (fun x => if touches q x then o else x)) with (map (subst_op q o)).
  change (nth i (cycles c) []) with (cycle_at c i).
  rewrite (subst_filter _ q old o q' A Hc Hs). reflexivity. Qed.

(* the old timeline, for comparison: the same with [old] in the place of [o] *)
Lemma cell_tl c i q old q' :
  i < ncyc c -> amo (cycle_at c i) -> get_cell c i q = Some old ->
  tl c q' = tlc (firstn i (cycles c)) q'
            ++ (if touches q' old then [old] else filter (touches q') (cycle_at c i))
            ++ tlc (skipn (S i) (cycles c)) q'.
Proof. intros Hi A Hc. unfold tl. rewrite (tlc_split (cycles c) i q' Hi) at 1. f_equal. f_equal.
  destruct (cell_Some _ _ _ Hc) as [Hin Hq]. fold (cycle_at c i).
  destruct (touches q' old) eqn:T; auto. apply amo_filter_one; auto. Qed.

(* pop + insert branch: the old operation is removed, the new one is inserted at
   the old cycle index: on each of its qudits it comes after the operations of the
   cycles before i and before what is left of cycle i and all later cycles (this
   includes the case where the old operation was alone in the last cycle) *)
Theorem replace_move_tl c ci qi o old q' :
  let i := normZ ci (ncyc c) in let q := normZ qi (nq c) in
  valid_op c o = true -> point_in_range c ci qi = true ->
  get_cell c i q = Some old -> disjointb (o_loc old) (o_loc o) = false -> seteqb (o_loc old) (o_loc o) = false ->
  let r := replace c (ci, qi) o in
  snd r = OkU /\
  tl (fst r) q' = tlc (firstn i (cycles c)) q' ++ one q' o
                  ++ filter (touches q') (filter (fun x => negb (touches q x)) (cycle_at c i))
                  ++ tlc (skipn (S i) (cycles c)) q'.
Proof. intros i q Hv Hp Hc Hd Hs r. unfold r, replace. rewrite Hv, Hp. cbn [negb].
  fold i q. rewrite Hc, Hd, Hs.
  destruct (pir_lt _ _ _ Hp) as [Hi _]. fold i in Hi.
  destruct (remove_op_nq c i q) as [Hn Hr].
  set (c1 := remove_op c i q) in *.
  set (c2 := if Nat.eqb i (ncyc c1) then mkC (nq c1) (rads c1) (cycles c1 ++ [[]]) else c1).
  assert (Hv2 : valid_op c2 o = true).
  { rewrite <- Hv. apply valid_op_ext; unfold c2; destruct (Nat.eqb i (ncyc c1)); cbn; auto. }
  pose proof (insert_out c2 (Z.of_nat i) o Hv2) as Ho.
  pose proof (insert_tl c2 (Z.of_nat i) o q' Hv2) as Ht.
  destruct (insert c2 (Z.of_nat i) o) as [c3 o3] eqn:E3. cbn [fst snd] in *. subst o3. cbn [fst snd]. split; [reflexivity|].
  rewrite Ht. clear Ht E3.
  unfold ncyc in Hi.
  unfold c2, c1, remove_op, ncyc. fold (cycle_at c i).
  destruct (filter (fun o0 => negb (touches q o0)) (cycle_at c i)) as [|x rest] eqn:Ef; cbn [cycles nq rads].
  - rewrite remove_at_split by exact Hi.
    pose proof (firstn_len (cycles c) i (Nat.lt_le_incl _ _ Hi)) as Hl.
    destruct (Nat.eqb_spec i (length (firstn i (cycles c) ++ skipn (S i) (cycles c)))) as [E|E].
    + (* alone in the last cycle *)
      assert (Hsk : skipn (S i) (cycles c) = []).
      { rewrite app_length, Hl in E. apply length_zero_iff_nil. lia. }
      rewrite Hsk, app_nil_r in *. rewrite insert_index_nat by (unfold ncyc; cbn [cycles]; rewrite app_length, Hl; cbn; lia).
      cbn [cycles]. rewrite firstn_app_l, skipn_app_l by exact Hl. cbn. rewrite !app_nil_r. reflexivity.
    + rewrite app_length, Hl in E. rewrite skipn_length in E.
      rewrite insert_index_nat by (unfold ncyc; cbn [cycles]; rewrite app_length, Hl, skipn_length; lia).
      cbn [cycles]. rewrite firstn_app_l, skipn_app_l by exact Hl. cbn. reflexivity.
  - rewrite length_update_at. destruct (Nat.eqb_spec i (length (cycles c))) as [E|E]; [lia|].
    rewrite insert_index_nat by (unfold ncyc; cbn [cycles]; rewrite length_update_at; exact Hi).
    cbn [cycles]. rewrite firstn_update_at, (skipn_update_at i _ (cycles c) []) by exact Hi.
    rewrite tlc_cons. reflexivity. Qed.

(* ---- replace preserves the invariant (any arguments) ----------------------------------------- *)
Lemma amo_subst cy q old o :
  amo cy -> cell cy q = Some old -> seteqb (o_loc old) (o_loc o) = true -> amo (map (subst_op q o) cy).
Proof. intros A Hc Hs q'. rewrite (subst_filter cy q old o q' A Hc Hs).
  destruct (touches q' old); [cbn; lia|apply A]. Qed.

Lemma Inv_nth c i : Inv c -> i < ncyc c -> good_cycle (cycle_at c i).
Proof. unfold Inv, ncyc, cycle_at. intros H Hi. rewrite Forall_forall in H. apply H. apply nth_In. exact Hi. Qed.

Lemma insert_into_last_empty c o :
  valid_op c o = true ->
  fst (insert (mkC (nq c) (rads c) (cycles c ++ [[]])) (Z.of_nat (ncyc c)) o) = mkC (nq c) (rads c) (cycles c ++ [[o]]).
Proof. intros Hv. unfold insert.
  assert (Hv' : valid_op (mkC (nq c) (rads c) (cycles c ++ [[]])) o = true) by (rewrite <- Hv; apply valid_op_ext; reflexivity).
  rewrite Hv'. cbn [negb]. unfold ncyc at 1. cbn [cycles]. rewrite app_length. cbn [length].
  destruct (Nat.eqb_spec (length (cycles c) + 1) 0) as [E|_]; [lia|].
  unfold ncyc. cbn [cycles]. rewrite app_length. cbn [length].
  rewrite in_rangeZ_nat by lia. cbn [negb andb]. rewrite normZ_nat.
  unfold cycle_at. cbn [cycles]. rewrite app_nth2 by lia. rewrite Nat.sub_diag. cbn [nth unoccupied forallb].
  unfold place. cbn [fst nq rads cycles]. rewrite update_at_app_r. reflexivity. Qed.

Theorem replace_inv c pt o : Inv c -> Inv (fst (replace c pt o)).
Proof. intros H. destruct pt as [ci qi]. unfold replace.
  destruct (valid_op c o) eqn:Hv; cbn [negb fst]; [|exact H].
  destruct (point_in_range c ci qi) eqn:Hp; cbn [negb fst]; [|exact H].
  destruct (pir_lt _ _ _ Hp) as [Hi _].
  set (i := normZ ci (ncyc c)) in *. set (q := normZ qi (nq c)) in *.
  destruct (get_cell c i q) as [old|] eqn:Hc; cbn [fst]; [|exact H].
  destruct (disjointb (o_loc old) (o_loc o)); cbn [fst]; [exact H|].
  destruct (seteqb (o_loc old) (o_loc o)) eqn:Hs; cbn [fst].
  - unfold Inv. cbn [cycles]. apply Forall_update_at with (d := []); [exact H|]. intros _.
    destruct (Inv_nth c i H Hi) as [Hne A]. split.
    + intros E. apply map_eq_nil in E. exact (Hne E).
    + exact (amo_subst _ q old o A Hc Hs).
  - pose proof (remove_op_inv c i q H) as H1. destruct (remove_op_nq c i q) as [Hn Hr].
    set (c1 := remove_op c i q) in *.
    destruct (Nat.eqb_spec i (ncyc c1)) as [E|E].
    + assert (Hv1 : valid_op c1 o = true) by (rewrite <- Hv; apply valid_op_ext; auto).
      pose proof (insert_into_last_empty c1 o Hv1) as Hins. rewrite <- E in Hins.
      destruct (insert _ (Z.of_nat i) o) as [c3 [| | | |e]] eqn:E3; cbn [fst] in *; subst c3;
        unfold Inv; cbn [cycles]; (apply Forall_app; split; [exact H1|constructor; [split; [discriminate|apply amo_single]|constructor]]).
    + pose proof (insert_inv c1 (Z.of_nat i) o H1) as H3.
      destruct (insert c1 (Z.of_nat i) o) as [c3 [| | | |e]]; cbn [fst] in *; exact H3. Qed.

(* ---- removing several operations, highest cycle first (batch_pop, pop_qudit) -------------------- *)
(* a request (i, q) names the operation of cycle i touching qudit q *)
Notation req := (nat * nat)%type (only parsing).
Definition hit (R : list req) (i : nat) (o : op) : bool :=
  existsb (fun p => Nat.eqb (fst p) i && touches (snd p) o) R.
(* the grid without the named operations (cycles keep their indices; they may become empty) *)
Fixpoint filt (R : list req) (k : nat) (cs : list cycle) : list cycle :=
  match cs with
  | [] => []
  | cy :: t => filter (fun o => negb (hit R k o)) cy :: filt R (S k) t
  end.
Definition removes (R : list req) (c : circuit) : circuit :=
  fold_left (fun c p => remove_op c (fst p) (snd p)) R c.

(* cycles weakly descending *)
Fixpoint desc (R : list req) : Prop :=
  match R with [] => True | p :: R' => Forall (fun p' => fst p' <= fst p) R' /\ desc R' end.
(* every request names an operation *)
Definition named (c : circuit) (R : list req) : Prop :=
  Forall (fun p => exists o, In o (cycle_at c (fst p)) /\ touches (snd p) o = true) R.
(* two requests never name the same operation *)
Fixpoint distinct_reqs (c : circuit) (R : list req) : Prop :=
  match R with
  | [] => True
  | p :: R' => (forall p', In p' R' -> fst p' = fst p ->
                forall o, In o (cycle_at c (fst p)) -> touches (snd p) o = true -> touches (snd p') o = false)
               /\ distinct_reqs c R'
  end.

Lemma filt_app R k a b : filt R k (a ++ b) = filt R k a ++ filt R (k + length a) b.
Proof. revert k. induction a as [|cy a IH]; intros k; cbn.
  - rewrite Nat.add_0_r. reflexivity.
  - rewrite IH. rewrite <- Nat.add_succ_comm. reflexivity. Qed.

Lemma filter_all {A} (f : A -> bool) l : (forall x, In x l -> f x = true) -> filter f l = l.
Proof. induction l as [|x l IH]; intros H; cbn; auto.
  rewrite (H x) by (left; reflexivity). rewrite IH by (intros; apply H; right; assumption). reflexivity. Qed.

Lemma filt_id R k cs : (forall j o, k <= j -> hit R j o = false) -> filt R k cs = cs.
Proof. revert k. induction cs as [|cy t IH]; intros k H; cbn; auto.
  rewrite filter_all by (intros x _; rewrite H by lia; reflexivity).
  rewrite IH by (intros; apply H; lia). reflexivity. Qed.

Lemma filt_ext R R' k cs :
  (forall j o, k <= j < k + length cs -> hit R j o = hit R' j o) -> filt R k cs = filt R' k cs.
Proof. revert k. induction cs as [|cy t IH]; intros k H; cbn; auto.
  rewrite (IH (S k)) by (intros; apply H; cbn; lia).
  f_equal. apply filter_ext. intros o. rewrite H by (cbn; lia). reflexivity. Qed.

Lemma filter_filter {A} (f g : A -> bool) l : filter f (filter g l) = filter (fun x => g x && f x) l.
Proof. induction l as [|x l IH]; cbn; auto. destruct (g x); cbn; [destruct (f x)|]; rewrite IH; reflexivity. Qed.

Lemma hit_cons p R j o : hit (p :: R) j o = (Nat.eqb (fst p) j && touches (snd p) o) || hit R j o.
Proof. reflexivity. Qed.

Lemma hit_true R j o : hit R j o = true -> exists p, In p R /\ fst p = j /\ touches (snd p) o = true.
Proof. unfold hit. intros E. apply existsb_exists in E as (p & Hp & E).
  apply andb_true_iff in E as [E1 E2]. apply Nat.eqb_eq in E1. eauto. Qed.

Lemma hit_none R j o : (forall p, In p R -> fst p <> j) -> hit R j o = false.
Proof. intros H. apply not_true_is_false. intros E. apply hit_true in E as (p & Hp & E & _). exact (H p Hp E). Qed.

Lemma update_at_split {A} i f (l : list A) d : i < length l -> update_at i f l = firstn i l ++ f (nth i l d) :: skipn (S i) l.
Proof. revert i. induction l as [|y t IH]; intros i Hi; cbn in Hi; [lia|].
  destruct i as [|i]; cbn; [reflexivity|]. f_equal. apply IH. lia. Qed.

Lemma nth_update_at_same {A} i f (l : list A) d : i < length l -> nth i (update_at i f l) d = f (nth i l d).
Proof. revert i. induction l as [|y t IH]; intros i Hi; cbn in Hi; [lia|].
  destruct i; cbn; [reflexivity|]. apply IH. lia. Qed.

Lemma remove_op_cycles c i q :
  i < ncyc c ->
  cycles (remove_op c i q) =
  firstn i (cycles c)
  ++ (match filter (fun o => negb (touches q o)) (cycle_at c i) with [] => [] | cy' => [cy'] end)
  ++ skipn (S i) (cycles c).
Proof. intros Hi. unfold remove_op, ncyc in *. destruct (filter _ _) as [|x r] eqn:E; cbn [cycles app].
  - apply remove_at_split. exact Hi.
  - rewrite (update_at_split i _ (cycles c) [] Hi). reflexivity. Qed.

Lemma distinct_mono c c1 R :
  (forall p o, In p R -> In o (cycle_at c1 (fst p)) -> In o (cycle_at c (fst p))) ->
  distinct_reqs c R -> distinct_reqs c1 R.
Proof. induction R as [|p R IH]; intros Hs H; cbn in *; auto. destruct H as [H1 H2]. split.
  - intros p' Hp' E o Ho. apply H1; auto.
  - apply IH; auto. Qed.

(* the timelines after the removals are those of the grid without the named operations *)
Theorem removes_tl R : forall c q,
  desc R -> named c R -> distinct_reqs c R ->
  tl (removes R c) q = tlc (filt R 0 (cycles c)) q.
Proof. induction R as [|p R IH]; intros c q Hd Hn Hx; cbn [removes fold_left].
  - unfold tl. rewrite filt_id by reflexivity. reflexivity.
  - destruct p as [i q0]. cbn [fst snd] in *. destruct Hd as [Hle Hd]. destruct Hx as [Hx1 Hx].
    inversion Hn as [|? ? (o0 & Hin0 & T0) Hn']; subst. cbn [fst snd] in *.
    assert (Hi : i < ncyc c).
    { unfold ncyc, cycle_at in *. destruct (Nat.lt_ge_cases i (length (cycles c))); auto.
      rewrite nth_overflow in Hin0 by assumption. destruct Hin0. }
    fold (removes R (remove_op c i q0)).
    pose proof (remove_op_cycles c i q0 Hi) as Hcs.
    set (c1 := remove_op c i q0) in *.
    set (cy := cycle_at c i) in *. set (cy' := filter (fun o => negb (touches q0 o)) cy) in *.
    set (A := firstn i (cycles c)) in *. set (B := skipn (S i) (cycles c)) in *.
    assert (HA : length A = i) by (apply firstn_len; unfold ncyc in Hi; lia).
    assert (Hc0 : cycles c = A ++ cy :: B) by (apply split_at; exact Hi).
    (* requests of R at cycle i name operations that survive *)
    assert (Hsurv : forall p', In p' R -> fst p' = i -> exists o, In o cy' /\ touches (snd p') o = true).
    { intros p' Hp' E. rewrite Forall_forall in Hn'. destruct (Hn' p' Hp') as (o & Ho & To). rewrite E in Ho. fold cy in Ho.
      exists o. split; auto. apply filter_In. split; auto.
      destruct (touches q0 o) eqn:Tq; auto. rewrite (Hx1 p' Hp' E o Ho Tq) in To. discriminate. }
    assert (Hlt : forall j, j < i -> cycle_at c1 j = cycle_at c j).
    { intros j Hj. unfold cycle_at. rewrite Hcs, Hc0. rewrite !app_nth1 by lia. reflexivity. }
    assert (Hat : cy' <> [] -> cycle_at c1 i = cy').
    { intros Hne. unfold cycle_at. rewrite Hcs. rewrite app_nth2 by lia. rewrite HA, Nat.sub_diag.
      destruct cy'; [congruence|reflexivity]. }
    assert (Hin1 : forall p' o, In p' R -> In o (cycle_at c1 (fst p')) -> In o (cycle_at c (fst p'))).
    { intros p' o Hp' Ho. rewrite Forall_forall in Hle. pose proof (Hle p' Hp') as L.
      destruct (Nat.eq_dec (fst p') i) as [E|E].
      - destruct (Hsurv p' Hp' E) as (o' & Ho' & _). rewrite E in *. rewrite Hat in Ho by (intros Z; rewrite Z in Ho'; destruct Ho').
        apply filter_In in Ho. tauto.
      - rewrite Hlt in Ho by lia. exact Ho. }
    rewrite IH; auto.
    2:{ unfold named. rewrite Forall_forall in *. intros p' Hp'. pose proof (Hle p' Hp') as L.
        destruct (Nat.eq_dec (fst p') i) as [E|E].
        - destruct (Hsurv p' Hp' E) as (o & Ho & To). exists o. rewrite E. rewrite Hat by (intros Z; rewrite Z in Ho; destruct Ho). auto.
        - destruct (Hn' p' Hp') as (o & Ho & To). exists o. rewrite Hlt by lia. auto. }
    2:{ apply (distinct_mono c c1 R Hin1 Hx). }
    (* the two grids have the same timelines *)
    rewrite Hcs, Hc0. rewrite !filt_app. cbn [filt]. rewrite !tlc_app, !tlc_cons. rewrite HA. cbn [plus].
    assert (EA : filt ((i, q0) :: R) 0 A = filt R 0 A).
    { apply filt_ext. intros j o Hj. rewrite hit_cons. cbn [fst]. destruct (Nat.eqb_spec i j); [lia|reflexivity]. }
    assert (EB : filt ((i, q0) :: R) (S i) B = B).
    { apply filt_id. intros j o Hj. apply hit_none. intros p' [<-|Hp']; cbn [fst]; [lia|].
      rewrite Forall_forall in Hle. specialize (Hle p' Hp'). lia. }
    assert (Ecy : filter (fun o => negb (hit ((i, q0) :: R) i o)) cy = filter (fun o => negb (hit R i o)) cy').
    { unfold cy'. rewrite filter_filter. apply filter_ext. intros o. rewrite hit_cons. cbn [fst snd].
      rewrite Nat.eqb_refl. cbn [andb]. rewrite negb_orb. reflexivity. }
    rewrite EA, EB, Ecy. f_equal.
    destruct cy' as [|x r] eqn:Ecy'.
    + cbn [app filter length filt]. rewrite Nat.add_0_r, tlc_nil. cbn [app].
      rewrite filt_id; [reflexivity|]. intros j o Hj. apply hit_none. intros p' Hp' E.
      rewrite Forall_forall in Hle. pose proof (Hle p' Hp') as L.
      assert (fst p' = i) by lia. destruct (Hsurv p' Hp' H) as (o' & [] & _).
    + cbn [app length filt]. rewrite tlc_cons, tlc_nil, app_nil_r. f_equal. replace (i + 1) with (S i) by lia.
      rewrite filt_id; [reflexivity|]. intros j o Hj. apply hit_none. intros p' Hp' E.
      rewrite Forall_forall in Hle. specialize (Hle p' Hp'). lia. Qed.

Theorem removes_inv R c : Inv c -> Inv (removes R c).
Proof. revert c. induction R as [|p R IH]; intros c H; cbn; auto. apply IH. apply remove_op_inv. exact H. Qed.

Lemma removes_nq R c : nq (removes R c) = nq c /\ rads (removes R c) = rads c.
Proof. revert c. induction R as [|p R IH]; intros c; [cbn; auto|].
  change (removes (p :: R) c) with (removes R (remove_op c (fst p) (snd p))).
  destruct (IH (remove_op c (fst p) (snd p))) as [-> ->]. apply remove_op_nq. Qed.

(* ---- relabelling the qudits of a grid ------------------------------------------------------------- *)
Definition relab (f : nat -> nat) (o : op) : op := set_loc o (map f (o_loc o)).

Lemma o_loc_set_loc o l : o_loc (set_loc o l) = l.
Proof. destruct o. reflexivity. Qed.

Lemma map_locs_eq f cs : map_locs f cs = map (map (relab f)) cs.
Proof. reflexivity. Qed.

Lemma memn_map_inj f q l : (forall a, In a l -> f a = f q -> a = q) -> memn (f q) (map f l) = memn q l.
Proof. induction l as [|x l IH]; intros H; cbn; auto.
  rewrite IH by (intros; apply H; auto; right; assumption). f_equal.
  destruct (Nat.eqb_spec q x) as [->|Hne]; [apply Nat.eqb_refl|].
  apply Nat.eqb_neq. intros E. apply Hne. symmetry. apply H; [left; reflexivity|auto]. Qed.

Lemma touches_relab f q o : (forall a, In a (o_loc o) -> f a = f q -> a = q) -> touches (f q) (relab f o) = touches q o.
Proof. intros H. unfold touches, relab. rewrite o_loc_set_loc. apply memn_map_inj. exact H. Qed.

(* qudits of all operations of a grid satisfy P *)
Definition all_qudits (P : nat -> Prop) (cs : list cycle) : Prop :=
  forall cy o a, In cy cs -> In o cy -> In a (o_loc o) -> P a.

Lemma tlc_map_locs f cs q :
  all_qudits (fun a => f a = f q -> a = q) cs ->
  tlc (map_locs f cs) (f q) = map (relab f) (tlc cs q).
Proof. rewrite map_locs_eq. induction cs as [|cy cs IH]; intros H; [reflexivity|].
  cbn [map]. rewrite !tlc_cons, map_app. rewrite IH by (intros cy' o a Hc; apply H; right; exact Hc).
  f_equal. rewrite filter_map_comm. f_equal. apply filter_ext_in'. intros o Ho.
  apply touches_relab. intros a Ha. apply (H cy o a); auto. left. reflexivity. Qed.

Lemma tlc_map_locs_fresh f cs q' :
  all_qudits (fun a => f a <> q') cs -> tlc (map_locs f cs) q' = [].
Proof. rewrite map_locs_eq. induction cs as [|cy cs IH]; intros H; [reflexivity|].
  cbn [map]. rewrite tlc_cons. rewrite IH by (intros cy' o a Hc; apply H; right; exact Hc). rewrite app_nil_r.
  rewrite filter_map_comm. replace (filter _ cy) with (@nil op); [reflexivity|]. symmetry.
  assert (G : forall l, (forall o, In o l -> touches q' (relab f o) = false) -> filter (fun x => touches q' (relab f x)) l = []).
  { induction l as [|x l IHl]; intros Hl; cbn; auto. rewrite Hl by (left; reflexivity). apply IHl. intros; apply Hl; right; assumption. }
  apply G. intros o Ho. unfold touches, relab. rewrite o_loc_set_loc. apply not_true_is_false. intros E.
  apply memn_In in E. apply in_map_iff in E as (a & Ea & Ha). apply (H cy o a); auto. left. reflexivity. Qed.

(* ---- append_qudit / insert_qudit -------------------------------------------------------------------- *)
Theorem append_qudit_tl c radix q :
  2 <= radix ->
  let r := append_qudit c radix in
  snd r = OkU /\ nq (fst r) = S (nq c) /\ rads (fst r) = rads c ++ [radix] /\ tl (fst r) q = tl c q.
Proof. intros H r. unfold r, append_qudit. destruct (Nat.ltb_spec radix 2); [lia|]. cbn. auto. Qed.

Theorem insert_qudit_past_end c qi radix : (Z.of_nat (nq c) <= qi)%Z -> insert_qudit c qi radix = append_qudit c radix.
Proof. intros H. unfold insert_qudit, append_qudit. destruct (Nat.ltb radix 2); [reflexivity|].
  destruct (Z.leb_spec (Z.of_nat (nq c)) qi); [reflexivity|lia]. Qed.

(* the index the new qudit gets (for an index below the number of qudits) *)
Definition qudit_index (c : circuit) (qi : Z) : nat :=
  if Z.leb qi (- Z.of_nat (nq c)) then 0 else normZ qi (nq c).

Lemma shift_up_inj k a b : shift_up k a = shift_up k b -> a = b.
Proof. unfold shift_up. destruct (Nat.ltb_spec a k), (Nat.ltb_spec b k); lia. Qed.
Lemma shift_up_fresh k a : shift_up k a <> k.
Proof. unfold shift_up. destruct (Nat.ltb_spec a k); lia. Qed.

(* every old qudit q becomes shift_up k q with its timeline relabelled; the new qudit k is idle *)
Theorem insert_qudit_tl c qi radix q :
  2 <= radix -> (qi < Z.of_nat (nq c))%Z ->
  let k := qudit_index c qi in
  let r := insert_qudit c qi radix in
  snd r = OkU /\ nq (fst r) = S (nq c) /\ rads (fst r) = insert_at k radix (rads c) /\
  tl (fst r) (shift_up k q) = map (relab (shift_up k)) (tl c q) /\ tl (fst r) k = [].
Proof. intros H Hq k r. unfold r, insert_qudit. destruct (Nat.ltb_spec radix 2); [lia|].
  destruct (Z.leb_spec (Z.of_nat (nq c)) qi); [lia|]. fold (qudit_index c qi). fold k. cbn [fst snd nq rads].
  repeat split; auto; unfold tl; cbn [cycles].
  - apply tlc_map_locs. intros cy o a _ _ _. apply shift_up_inj.
  - apply tlc_map_locs_fresh. intros cy o a _ _ _. apply shift_up_fresh. Qed.

(* ---- pop_qudit ------------------------------------------------------------------------------------------ *)
Lemma fold_left_map {A B C} (f : A -> C -> A) (g : B -> C) l a : fold_left (fun a x => f a (g x)) l a = fold_left f (map g l) a.
Proof. revert a. induction l as [|x l IH]; intros a; cbn; auto. Qed.

Definition pq_reqs (c : circuit) (k : nat) : list (nat * nat) :=
  map (fun i => (i, k)) (rev (filter (fun i => existsb (touches k) (cycle_at c i)) (seq 0 (ncyc c)))).

Lemma pop_qudit_removes c k :
  fold_left (fun c i => remove_op c i k) (rev (filter (fun i => existsb (touches k) (cycle_at c i)) (seq 0 (ncyc c)))) c
  = removes (pq_reqs c k) c.
Proof. unfold removes, pq_reqs. rewrite <- fold_left_map. reflexivity. Qed.

(* strictly descending cycle indices *)
Fixpoint sdesc (R : list (nat * nat)) : Prop :=
  match R with [] => True | p :: R' => Forall (fun p' => fst p' < fst p) R' /\ sdesc R' end.

Lemma sdesc_desc R : sdesc R -> desc R.
Proof. induction R as [|p R IH]; cbn; auto. intros [H1 H2]. split; auto. eapply Forall_impl; [|exact H1]. cbn. intros; lia. Qed.

Lemma sdesc_distinct c R : sdesc R -> distinct_reqs c R.
Proof. induction R as [|p R IH]; cbn; auto. intros [H1 H2]. split; auto.
  intros p' Hp' E. rewrite Forall_forall in H1. specialize (H1 p' Hp'). lia. Qed.

Lemma sdesc_filter_seq (f : nat -> bool) k n : sdesc (map (fun i => (i, k)) (rev (filter f (seq 0 n))))
  /\ Forall (fun p => fst p < n) (map (fun i => (i, k)) (rev (filter f (seq 0 n)))).
Proof. induction n as [|n [IH1 IH2]]; [cbn; auto|].
  rewrite seq_S, filter_app, rev_app_distr. cbn [seq filter plus].
  assert (W : Forall (fun p : nat * nat => fst p < S n) (map (fun i => (i, k)) (rev (filter f (seq 0 n))))).
  { eapply Forall_impl; [|exact IH2]. cbn. intros; lia. }
  destruct (f n); cbn [rev app map sdesc]; auto. Qed.

Lemma pq_hit c k i o : i < ncyc c -> In o (cycle_at c i) -> hit (pq_reqs c k) i o = touches k o.
Proof. intros Hi Ho. destruct (touches k o) eqn:T.
  - unfold hit. apply existsb_exists. exists (i, k). cbn [fst snd]. rewrite Nat.eqb_refl, T. split; auto.
    unfold pq_reqs. apply in_map_iff. exists i. split; [reflexivity|]. apply -> in_rev. apply filter_In. split; [apply in_seq; lia|].
    apply existsb_exists. eauto.
  - apply not_true_is_false. intros E. apply hit_true in E as (p & Hp & _ & Tp).
    unfold pq_reqs in Hp. apply in_map_iff in Hp as (j & <- & _). cbn in Tp. congruence. Qed.

Lemma filt_spec R : forall k cs q,
  tlc (filt R k cs) q = flat_map (fun p => filter (touches q) (filter (fun o => negb (hit R (fst p) o)) (snd p)))
                                 (combine (seq k (length cs)) cs).
Proof. intros k cs q. revert k. induction cs as [|cy cs IH]; intros k; cbn; auto.
  rewrite tlc_cons, IH. reflexivity. Qed.

Lemma tlc_filt_pq c k q :
  tlc (filt (pq_reqs c k) 0 (cycles c)) q = filter (fun o => negb (touches k o)) (tl c q).
Proof. unfold tl.
  assert (G : forall cs j, (forall i, i < length cs -> nth i cs [] = cycle_at c (j + i)) -> j + length cs <= ncyc c ->
              tlc (filt (pq_reqs c k) j cs) q = filter (fun o => negb (touches k o)) (tlc cs q)).
  { induction cs as [|cy cs IH]; intros j Hn Hl; [reflexivity|]. cbn [filt]. rewrite !tlc_cons, filter_app.
    cbn [length] in Hl. rewrite (IH (S j)); [|intros i Hi; rewrite (Hn (S i)) by (cbn; lia); f_equal; lia|lia].
    f_equal. pose proof (Hn 0 ltac:(cbn; lia)) as H0. cbn in H0. rewrite Nat.add_0_r in H0.
    rewrite !filter_filter. apply filter_ext_in'. intros o Ho. rewrite pq_hit; [apply andb_comm|lia|rewrite <- H0; exact Ho]. }
  apply G; [intros; reflexivity|unfold ncyc; lia]. Qed.

Lemma shift_down_inj k a b : a <> k -> b <> k -> shift_down k a = shift_down k b -> a = b.
Proof. unfold shift_down. destruct (Nat.ltb_spec a k), (Nat.ltb_spec b k); lia. Qed.

Lemma tlc_no_touch cs k : (forall q, tlc cs q = filter (fun o => negb (touches k o)) (tlc cs q)) ->
  all_qudits (fun a => a <> k) cs.
Proof. intros H cy o a Hcy Ho Ha E. subst a.
  assert (In o (tlc cs k)).
  { unfold tlc. apply in_flat_map. exists cy. split; auto. apply filter_In. split; auto. apply memn_In. exact Ha. }
  rewrite H in H0. apply filter_In in H0 as [_ H0]. apply negb_true_iff in H0.
  unfold touches in H0. apply memn_In in Ha. congruence. Qed.

(* pop_qudit k: the operations touching k disappear; every other qudit q becomes
   shift_down k q and keeps its remaining timeline, relabelled *)
Theorem pop_qudit_tl c qi q :
  Inv c -> in_rangeZ qi (nq c) = true -> nq c <> 1 ->
  let k := normZ qi (nq c) in
  q <> k ->
  let r := pop_qudit c qi in
  snd r = OkU /\ nq (fst r) = nq c - 1 /\ rads (fst r) = remove_at k (rads c) /\
  tl (fst r) (shift_down k q) = map (relab (shift_down k)) (filter (fun o => negb (touches k o)) (tl c q)).
Proof. intros HI Hr Hn k Hq r. unfold r, pop_qudit. rewrite Hr. cbn [negb].
  destruct (Nat.eqb_spec (nq c) 1); [lia|]. fold k. rewrite pop_qudit_removes. cbn [fst snd nq rads].
  repeat split; auto. unfold tl at 1. cbn [cycles].
  destruct (sdesc_filter_seq (fun i => existsb (touches k) (cycle_at c i)) k (ncyc c)) as [Hs Hb]. fold (pq_reqs c k) in Hs, Hb.
  assert (Htl : forall q', tl (removes (pq_reqs c k) c) q' = filter (fun o => negb (touches k o)) (tl c q')).
  { intros q'. rewrite removes_tl; [apply tlc_filt_pq|apply sdesc_desc; exact Hs| |apply sdesc_distinct; exact Hs].
    unfold named, pq_reqs. apply Forall_forall. intros p Hp. apply in_map_iff in Hp as (i & <- & Hi). cbn [fst snd].
    apply in_rev in Hi. apply filter_In in Hi as [_ Hi]. apply existsb_exists in Hi. exact Hi. }
  rewrite tlc_map_locs.
  - fold (tl (removes (pq_reqs c k) c) q). rewrite Htl. reflexivity.
  - assert (Hk : all_qudits (fun a => a <> k) (cycles (removes (pq_reqs c k) c))).
    { apply tlc_no_touch. intros q'. fold (tl (removes (pq_reqs c k) c) q'). rewrite Htl.
      rewrite filter_filter. apply filter_ext. intros o. destruct (touches k o); reflexivity. }
    intros cy o a Hcy Ho Ha E. apply (shift_down_inj k); auto. apply (Hk cy o a); auto. Qed.
