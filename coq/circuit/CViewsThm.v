(* Theorems about the dependency views of the circuit grid (CViews.v): the views
   agree with each other and the DAG iterator yields every operation exactly once
   in the order cycles ascending / location[0] ascending (property C05). *)
From Coq Require Import List Arith Bool PeanoNat ZArith Lia Permutation Sorted.
Import ListNotations.
From BQ Require Import circuit.CModel circuit.CThm circuit.CViews.
Open Scope nat_scope.

(* ================================================================================== *)
(* A. the order on points, sets of points, pop_min                                     *)
(* ================================================================================== *)
Definition pt_lt (a b : pt) : Prop := pt_ltb a b = true.

Lemma pt_ltb_iff a b : pt_ltb a b = true <-> fst a < fst b \/ (fst a = fst b /\ snd a < snd b).
Proof. unfold pt_ltb. rewrite orb_true_iff, andb_true_iff, !Nat.ltb_lt, Nat.eqb_eq. tauto. Qed.

Theorem pt_eqb_spec a b : pt_eqb a b = true <-> a = b.
Proof. destruct a as [a1 a2], b as [b1 b2]. unfold pt_eqb. simpl.
  rewrite andb_true_iff, !Nat.eqb_eq. split; [intros [-> ->]; reflexivity|intros H; inversion H; auto]. Qed.

Lemma pt_eqb_refl a : pt_eqb a a = true.
Proof. apply pt_eqb_spec. reflexivity. Qed.

Lemma pt_eqb_neq a b : pt_eqb a b = false <-> a <> b.
Proof. rewrite <- pt_eqb_spec. destruct (pt_eqb a b); split; congruence. Qed.

Lemma pt_eq_dec (a b : pt) : {a = b} + {a <> b}.
Proof. destruct (pt_eqb a b) eqn:E; [left; apply pt_eqb_spec; exact E|right; apply pt_eqb_neq; exact E]. Qed.

Lemma pt_lt_irrefl a : ~ pt_lt a a.
Proof. unfold pt_lt. rewrite pt_ltb_iff. lia. Qed.

Lemma pt_lt_trans a b c : pt_lt a b -> pt_lt b c -> pt_lt a c.
Proof. unfold pt_lt. rewrite !pt_ltb_iff. lia. Qed.

Lemma pt_lt_asym a b : pt_lt a b -> ~ pt_lt b a.
Proof. unfold pt_lt. rewrite !pt_ltb_iff. lia. Qed.

Lemma pt_lt_total a b : pt_lt a b \/ a = b \/ pt_lt b a.
Proof. unfold pt_lt. rewrite !pt_ltb_iff. destruct a as [a1 a2], b as [b1 b2]. simpl.
  destruct (Nat.eq_dec a1 b1) as [->|N1]; [destruct (Nat.eq_dec a2 b2) as [->|N2]|]; auto; lia. Qed.

Lemma pt_lt_cycle a b : fst a < fst b -> pt_lt a b.
Proof. unfold pt_lt. rewrite pt_ltb_iff. auto. Qed.

Lemma pt_leb_iff a b : pt_leb a b = true <-> ~ pt_lt b a.
Proof. unfold pt_leb, pt_lt. rewrite negb_true_iff. destruct (pt_ltb b a); split; congruence. Qed.

Lemma pt_leb_refl a : pt_leb a a = true.
Proof. apply pt_leb_iff. apply pt_lt_irrefl. Qed.

Lemma pt_leb_trans a b c : pt_leb a b = true -> pt_leb b c = true -> pt_leb a c = true.
Proof. rewrite !pt_leb_iff. unfold pt_lt. rewrite !pt_ltb_iff. lia. Qed.

Lemma pt_leb_false a b : pt_leb a b = false -> pt_lt b a.
Proof. unfold pt_leb, pt_lt. rewrite negb_false_iff. auto. Qed.

Lemma pt_leb_antisym a b : pt_leb a b = true -> pt_leb b a = true -> a = b.
Proof. rewrite !pt_leb_iff. destruct (pt_lt_total a b) as [H|[H|H]]; tauto. Qed.

(* strictly sorted lists *)
Lemma ss_nodup l : StronglySorted pt_lt l -> NoDup l.
Proof. induction 1 as [|a l Hs IH Hf]; constructor; auto.
  intros Hin. rewrite Forall_forall in Hf. apply (pt_lt_irrefl a). apply Hf. exact Hin. Qed.

Lemma ss_app l1 l2 :
  StronglySorted pt_lt l1 -> StronglySorted pt_lt l2 ->
  (forall a b, In a l1 -> In b l2 -> pt_lt a b) -> StronglySorted pt_lt (l1 ++ l2).
Proof. induction 1 as [|a l Hs IH Hf]; intros H2 H; simpl; auto.
  constructor.
  - apply IH; auto. intros x y Hx Hy. apply H; [right; exact Hx|exact Hy].
  - apply Forall_app. split; auto. apply Forall_forall. intros y Hy. apply H; [left; reflexivity|exact Hy]. Qed.

Lemma ss_app_inv l1 l2 : StronglySorted pt_lt (l1 ++ l2) ->
  StronglySorted pt_lt l1 /\ StronglySorted pt_lt l2 /\ (forall a b, In a l1 -> In b l2 -> pt_lt a b).
Proof. induction l1 as [|x l1 IH]; simpl; intros H.
  - split; [constructor|split; [exact H|intros a b []]].
  - inversion H as [|? ? Hs Hf]; subst. destruct (IH Hs) as (S1 & S2 & S3).
    apply Forall_app in Hf as [F1 F2]. repeat split; auto.
    + constructor; auto.
    + intros a b [<-|Ha] Hb; [rewrite Forall_forall in F2; apply F2; exact Hb|apply S3; auto]. Qed.

(* pt_insert / pt_set *)
Lemma pt_insert_In x p l : In x (pt_insert p l) <-> x = p \/ In x l.
Proof. induction l as [|y t IH]; simpl.
  - split; [intros [H|[]]; auto|intros [H|[]]; auto].
  - destruct (pt_ltb p y); [simpl; split; [intros [H|H]; auto|intros [H|H]; auto]|].
    destruct (pt_eqb p y) eqn:E.
    + apply pt_eqb_spec in E. subst y. simpl. split; [auto|intros [H|H]; auto].
    + simpl. rewrite IH. split; [intros [H|[H|H]]; auto|intros [H|[H|H]]; auto]. Qed.

Lemma pt_insert_sorted p l : StronglySorted pt_lt l -> StronglySorted pt_lt (pt_insert p l).
Proof. induction 1 as [|y t Hs IH Hf]; simpl.
  - constructor; constructor.
  - destruct (pt_ltb p y) eqn:L.
    + constructor; [constructor; auto|]. constructor; [exact L|].
      eapply Forall_impl; [|exact Hf]. intros z Hz. eapply pt_lt_trans; [exact L|exact Hz].
    + destruct (pt_eqb p y) eqn:E; [constructor; auto|].
      constructor; [exact IH|]. apply Forall_forall. intros z Hz. apply pt_insert_In in Hz as [->|Hz].
      * destruct (pt_lt_total y p) as [H|[H|H]]; auto.
        -- subst. rewrite pt_eqb_refl in E. discriminate.
        -- unfold pt_lt in H. congruence.
      * rewrite Forall_forall in Hf. apply Hf. exact Hz. Qed.

Lemma pt_set_In x l : In x (pt_set l) <-> In x l.
Proof. induction l as [|y t IH]; simpl; [tauto|]. rewrite pt_insert_In, IH. split; intros [H|H]; auto. Qed.

Lemma pt_set_sorted l : StronglySorted pt_lt (pt_set l).
Proof. induction l as [|y t IH]; simpl; [constructor|apply pt_insert_sorted; exact IH]. Qed.

Lemma pt_set_nodup l : NoDup (pt_set l).
Proof. apply ss_nodup. apply pt_set_sorted. Qed.

Lemma pt_insert_not_nil p l : pt_insert p l <> [].
Proof. destruct l as [|y t]; simpl; [discriminate|].
  destruct (pt_ltb p y); [discriminate|]. destruct (pt_eqb p y); discriminate. Qed.

Lemma pt_set_nil l : pt_set l = [] <-> l = [].
Proof. split; [|intros ->; reflexivity]. destruct l as [|y t]; auto. simpl. intros H.
  exfalso. exact (pt_insert_not_nil _ _ H). Qed.

Lemma somes_In {A} (x : A) l : In x (somes l) <-> In (Some x) l.
Proof. unfold somes. rewrite in_flat_map. split.
  - intros ([y|] & Hy & Hx); simpl in Hx; [destruct Hx as [<-|[]]; exact Hy|destruct Hx].
  - intros H. exists (Some x). split; [exact H|left; reflexivity]. Qed.

Lemma somes_nil {A} (l : list (option A)) : somes l = [] <-> forall x, In x l -> x = None.
Proof. induction l as [|[a|] t IH]; simpl.
  - split; [intros _ x []|reflexivity].
  - split; [discriminate|]. intros H. specialize (H (Some a) (or_introl eq_refl)). discriminate.
  - unfold somes in IH. rewrite IH. split; [intros H x [<-|Hx]; auto|intros H x Hx; apply H; auto]. Qed.

(* heappop *)
Lemma pop_min_spec l :
  match pop_min l with
  | None => l = []
  | Some (m, r) => Permutation l (m :: r) /\ Forall (fun x => pt_leb m x = true) l
  end.
Proof. induction l as [|x t IH]; simpl; [reflexivity|].
  destruct (pop_min t) as [[m r]|].
  - destruct IH as [P F]. destruct (pt_leb x m) eqn:L.
    + split; [apply Permutation_refl|]. constructor; [apply pt_leb_refl|].
      eapply Forall_impl; [|exact F]. intros z Hz. eapply pt_leb_trans; eauto.
    + split.
      * eapply perm_trans; [apply perm_skip; exact P|apply perm_swap].
      * constructor; [|exact F]. apply pt_leb_iff. apply pt_lt_asym. apply pt_leb_false. exact L.
  - subst t. split; [apply Permutation_refl|]. constructor; [apply pt_leb_refl|constructor]. Qed.

(* ================================================================================== *)
(* B. reading the grid                                                                  *)
(* ================================================================================== *)
Definition wf_locs (c : circuit) : Prop := Forall (Forall (fun o => o_loc o <> [])) (cycles c).
(* every qudit of every operation is a qudit of the circuit *)
Definition locs_in_range (c : circuit) : Prop :=
  Forall (Forall (fun o => Forall (fun q => q < nq c) (o_loc o))) (cycles c).
Definition amo_all (c : circuit) : Prop := Forall amo (cycles c).

Lemma Inv_amo_all c : Inv c -> amo_all c.
Proof. unfold Inv, amo_all. intros H. eapply Forall_impl; [|exact H]. intros cy [_ A]. exact A. Qed.

Lemma amo_nil : amo [].
Proof. intros q. simpl. lia. Qed.

Lemma amo_at c i : amo_all c -> amo (cycle_at c i).
Proof. unfold amo_all, cycle_at. intros H. destruct (Nat.lt_ge_cases i (length (cycles c))) as [Hi|Hi].
  - rewrite Forall_forall in H. apply H. apply nth_In. exact Hi.
  - rewrite nth_overflow by exact Hi. apply amo_nil. Qed.

Lemma in_cycle_at c i o : In o (cycle_at c i) -> i < ncyc c /\ In (cycle_at c i) (cycles c).
Proof. unfold cycle_at, ncyc. intros H. destruct (Nat.lt_ge_cases i (length (cycles c))) as [Hi|Hi].
  - split; [exact Hi|apply nth_In; exact Hi].
  - rewrite nth_overflow in H by exact Hi. destruct H. Qed.

Lemma wf_at c i o : wf_locs c -> In o (cycle_at c i) -> o_loc o <> [].
Proof. unfold wf_locs. intros H Ho. destruct (in_cycle_at c i o Ho) as [_ Hc].
  rewrite Forall_forall in H. specialize (H _ Hc). rewrite Forall_forall in H. apply H. exact Ho. Qed.

Lemma range_at c i o q : locs_in_range c -> In o (cycle_at c i) -> In q (o_loc o) -> q < nq c.
Proof. unfold locs_in_range. intros H Ho Hq. destruct (in_cycle_at c i o Ho) as [_ Hc].
  rewrite Forall_forall in H. specialize (H _ Hc). rewrite Forall_forall in H. specialize (H _ Ho).
  rewrite Forall_forall in H. apply H. exact Hq. Qed.

Lemma hd0_in l : l <> [] -> In (hd0 l) l.
Proof. destruct l; [congruence|]. intros _. left. reflexivity. Qed.

(* cells *)
Lemma find_hd_filter {A} (f : A -> bool) l : find f l = hd_error (filter f l).
Proof. induction l as [|x l IH]; simpl; auto. destruct (f x); auto. Qed.

Lemma cell_some cy q o : cell cy q = Some o -> In o cy /\ In q (o_loc o).
Proof. unfold cell. intros H. apply find_some in H as [H1 H2]. split; auto. apply memn_In. exact H2. Qed.

Lemma cell_none cy q : cell cy q = None <-> filter (touches q) cy = [].
Proof. unfold cell. rewrite find_hd_filter. destruct (filter (touches q) cy); simpl; split; congruence. Qed.

Lemma filter_cell cy q : amo cy ->
  filter (touches q) cy = match cell cy q with Some o => [o] | None => [] end.
Proof. intros A. specialize (A q). unfold cell. rewrite find_hd_filter.
  destruct (filter (touches q) cy) as [|a [|b t]]; simpl in *; auto. lia. Qed.

Lemma cell_amo cy q o : amo cy -> In o cy -> In q (o_loc o) -> cell cy q = Some o.
Proof. intros A Ho Hq.
  assert (H : In o (filter (touches q) cy)) by (apply filter_In; split; [exact Ho|apply memn_In; exact Hq]).
  rewrite (filter_cell cy q A) in H. destruct (cell cy q) as [o'|]; simpl in H; [|destruct H].
  destruct H as [->|[]]. reflexivity. Qed.

Lemma get_cell_some c i q o : get_cell c i q = Some o -> In o (cycle_at c i) /\ In q (o_loc o).
Proof. apply cell_some. Qed.

Lemma get_cell_amo c i q o : amo_all c -> In o (cycle_at c i) -> In q (o_loc o) -> get_cell c i q = Some o.
Proof. intros A. apply cell_amo. apply amo_at. exact A. Qed.

Lemma get_cell_pt c i o : amo_all c -> wf_locs c -> In o (cycle_at c i) ->
  get_cell c i (hd0 (o_loc o)) = Some o.
Proof. intros A W Ho. apply get_cell_amo; auto. apply hd0_in. eapply wf_at; eauto. Qed.

(* (cycle, location[0]) identifies an operation *)
Lemma pt_of_inj c i j o o' : amo_all c -> wf_locs c ->
  In o (cycle_at c i) -> In o' (cycle_at c j) -> pt_of i o = pt_of j o' -> i = j /\ o = o'.
Proof. intros A W Ho Ho' E. unfold pt_of in E. inversion E as [[E1 E2]]. subst j. split; auto.
  pose proof (get_cell_pt c i o A W Ho) as G1. pose proof (get_cell_pt c i o' A W Ho') as G2.
  rewrite E2 in G1. congruence. Qed.

(* first_from / last_from *)
Lemma nth_nil {A} j (d : A) : nth j [] d = d.
Proof. destruct j; reflexivity. Qed.

Lemma first_from_none cs q k : first_from cs q k = None <-> forall j, cell (nth j cs []) q = None.
Proof. revert k. induction cs as [|cy t IH]; intros k; simpl.
  - split; auto. intros _ j. destruct j; reflexivity.
  - destruct (cell cy q) as [o|] eqn:E.
    + split; [discriminate|]. intros H. specialize (H 0). simpl in H. congruence.
    + rewrite IH. split; [intros H [|j]; auto|intros H j; apply (H (S j))]. Qed.

Lemma first_from_some cs q k p : first_from cs q k = Some p <->
  exists j o, cell (nth j cs []) q = Some o /\ p = pt_of (k + j) o
              /\ forall j', j' < j -> cell (nth j' cs []) q = None.
Proof. revert k. induction cs as [|cy t IH]; intros k; simpl.
  - split; [discriminate|]. intros (j & o & H & _). destruct j; discriminate.
  - destruct (cell cy q) as [o|] eqn:E.
    + split.
      * intros H. inversion H; subst. exists 0, o. rewrite Nat.add_0_r. repeat split; auto. intros j' Hj. lia.
      * intros ([|j] & o' & H1 & H2 & H3).
        -- rewrite Nat.add_0_r in H2. simpl in H1. congruence.
        -- specialize (H3 0 (Nat.lt_0_succ j)). simpl in H3. congruence.
    + rewrite IH. split.
      * intros (j & o & H1 & H2 & H3). exists (S j), o. rewrite Nat.add_succ_r. repeat split; auto.
        intros [|j'] Hj; simpl; auto. apply H3. lia.
      * intros ([|j] & o & H1 & H2 & H3); [simpl in H1; congruence|].
        exists j, o. rewrite Nat.add_succ_r in H2. repeat split; auto.
        intros j' Hj. apply (H3 (S j')). lia. Qed.

Lemma last_from_none cs q k : last_from cs q k = None <-> forall j, cell (nth j cs []) q = None.
Proof. revert k. induction cs as [|cy t IH]; intros k; simpl.
  - split; auto. intros _ j. destruct j; reflexivity.
  - destruct (last_from t q (S k)) as [p|] eqn:E.
    + split; [discriminate|]. intros H. assert (E' : last_from t q (S k) = None) by (apply IH; intros j; apply (H (S j))).
      congruence.
    + pose proof (proj1 (IH (S k)) E) as N. destruct (cell cy q) as [o|] eqn:Ec.
      * split; [discriminate|]. intros H. specialize (H 0). simpl in H. congruence.
      * split; auto. intros _ [|j]; simpl; auto. Qed.

Lemma last_from_some cs q k p : last_from cs q k = Some p <->
  exists j o, cell (nth j cs []) q = Some o /\ p = pt_of (k + j) o
              /\ forall j', j < j' -> cell (nth j' cs []) q = None.
Proof. revert k. induction cs as [|cy t IH]; intros k; simpl.
  - split; [discriminate|]. intros (j & o & H & _). destruct j; discriminate.
  - destruct (last_from t q (S k)) as [p0|] eqn:E.
    + split.
      * intros H. inversion H; subst p0. apply (IH (S k)) in E as (j & o & H1 & H2 & H3).
        exists (S j), o. rewrite Nat.add_succ_r. repeat split; auto.
        intros [|j'] Hj; [lia|]. apply H3. lia.
      * intros ([|j] & o & H1 & H2 & H3).
        -- assert (E' : last_from t q (S k) = None).
           { apply last_from_none. intros j. apply (H3 (S j)). lia. }
           congruence.
        -- assert (E' : last_from t q (S k) = Some p).
           { apply IH. exists j, o. rewrite Nat.add_succ_r in H2. repeat split; auto.
             intros j' Hj. apply (H3 (S j')). lia. }
           congruence.
    + pose proof (proj1 (last_from_none t q (S k)) E) as N. destruct (cell cy q) as [o|] eqn:Ec.
      * split.
        -- intros H. inversion H; subst. exists 0, o. rewrite Nat.add_0_r. repeat split; auto.
           intros [|j'] Hj; [lia|]. apply N.
        -- intros ([|j] & o' & H1 & H2 & H3).
           ++ rewrite Nat.add_0_r in H2. simpl in H1. congruence.
           ++ simpl in H1. rewrite N in H1. discriminate.
      * split; [discriminate|]. intros ([|j] & o' & H1 & _); simpl in H1; [congruence|].
        rewrite N in H1. discriminate. Qed.

Lemma nth_skipn {A} n j (l : list A) d : nth j (skipn n l) d = nth (n + j) l d.
Proof. revert l. induction n as [|n IH]; intros l; simpl; auto.
  destruct l as [|x t]; [rewrite nth_nil; reflexivity|apply IH]. Qed.

Lemma nth_firstn_lt {A} n j (l : list A) d : j < n -> nth j (firstn n l) d = nth j l d.
Proof. revert j l. induction n as [|n IH]; intros j l Hj; [lia|].
  destruct l as [|x t]; simpl; auto. destruct j as [|j]; auto. apply IH. lia. Qed.

Lemma nth_firstn_ge {A} n j (l : list A) d : n <= j -> nth j (firstn n l) d = d.
Proof. intros H. apply nth_overflow. rewrite firstn_length. lia. Qed.

(* next_on / prev_on: the nearest operation on the qudit after / before cycle i *)
Lemma next_on_some c i q p : next_on c i q = Some p <->
  exists j o, i < j /\ get_cell c j q = Some o /\ p = pt_of j o
              /\ forall j', i < j' -> j' < j -> get_cell c j' q = None.
Proof. unfold next_on. rewrite first_from_some. unfold get_cell, cycle_at. split.
  - intros (j & o & H1 & H2 & H3). exists (S i + j), o. rewrite nth_skipn in H1.
    repeat split; auto; try lia. intros j' L1 L2. specialize (H3 (j' - S i)).
    rewrite nth_skipn in H3. replace (S i + (j' - S i)) with j' in H3 by lia. apply H3. lia.
  - intros (j & o & L & H1 & H2 & H3). exists (j - S i), o. rewrite nth_skipn.
    replace (S i + (j - S i)) with j by lia. repeat split; auto.
    intros j' Hj. rewrite nth_skipn. apply H3; lia. Qed.

Lemma next_on_none c i q : next_on c i q = None <-> forall j, i < j -> get_cell c j q = None.
Proof. unfold next_on. rewrite first_from_none. unfold get_cell, cycle_at. split.
  - intros H j L. specialize (H (j - S i)). rewrite nth_skipn in H.
    replace (S i + (j - S i)) with j in H by lia. exact H.
  - intros H j. rewrite nth_skipn. apply H. lia. Qed.

Lemma prev_on_some c i q p : prev_on c i q = Some p <->
  exists j o, j < i /\ get_cell c j q = Some o /\ p = pt_of j o
              /\ forall j', j < j' -> j' < i -> get_cell c j' q = None.
Proof. unfold prev_on. rewrite last_from_some. unfold get_cell, cycle_at. split.
  - intros (j & o & H1 & H2 & H3). destruct (Nat.lt_ge_cases j i) as [L|L].
    + exists j, o. rewrite nth_firstn_lt in H1 by exact L. repeat split; auto.
      intros j' L1 L2. specialize (H3 j' L1). rewrite nth_firstn_lt in H3 by exact L2. exact H3.
    + rewrite nth_firstn_ge in H1 by exact L. discriminate.
  - intros (j & o & L & H1 & H2 & H3). exists j, o. rewrite nth_firstn_lt by exact L.
    repeat split; auto. intros j' Hj. destruct (Nat.lt_ge_cases j' i) as [L'|L'].
    + rewrite nth_firstn_lt by exact L'. apply H3; auto.
    + rewrite nth_firstn_ge by exact L'. reflexivity. Qed.

Lemma prev_on_none c i q : prev_on c i q = None <-> forall j, j < i -> get_cell c j q = None.
Proof. unfold prev_on. rewrite last_from_none. unfold get_cell, cycle_at. split.
  - intros H j L. specialize (H j). rewrite nth_firstn_lt in H by exact L. exact H.
  - intros H j. destruct (Nat.lt_ge_cases j i) as [L'|L'].
    + rewrite nth_firstn_lt by exact L'. apply H; auto.
    + rewrite nth_firstn_ge by exact L'. reflexivity. Qed.

(* per qudit, next and prev are inverse to each other *)
Theorem next_prev_on_inverse c i j q o o' :
  amo_all c -> get_cell c i q = Some o -> get_cell c j q = Some o' ->
  (next_on c i q = Some (pt_of j o') <-> prev_on c j q = Some (pt_of i o)).
Proof. intros A G G'. rewrite next_on_some, prev_on_some. split.
  - intros (j1 & o1 & L & H1 & H2 & H3). inversion H2 as [[E1 E2]]. subst j1.
    exists i, o. repeat split; auto.
  - intros (i1 & o1 & L & H1 & H2 & H3). inversion H2 as [[E1 E2]]. subst i1.
    exists j, o'. repeat split; auto. Qed.

(* ---- the operations and their points ------------------------------------------------ *)
Lemma fwd_cycle_perm cy : Permutation (fwd_cycle cy) cy.
Proof. apply sort_by_perm. Qed.

Lemma fwd_cycle_In o cy : In o (fwd_cycle cy) <-> In o cy.
Proof. split; apply Permutation_in; [|apply Permutation_sym]; apply fwd_cycle_perm. Qed.

Lemma owc_In cs k j o : In (j, o) (owc cs k) <-> k <= j /\ In o (nth (j - k) cs []).
Proof. revert k. induction cs as [|cy t IH]; intros k; simpl.
  - split; [tauto|]. intros [_ H]. destruct (j - k); destruct H.
  - rewrite in_app_iff, in_map_iff, IH. split.
    + intros [(x & E & Hx)|[L H]].
      * inversion E; subst. rewrite Nat.sub_diag. split; [lia|]. apply fwd_cycle_In. exact Hx.
      * split; [lia|]. replace (j - k) with (S (j - S k)) by lia. exact H.
    + intros [L H]. destruct (Nat.eq_dec j k) as [->|N].
      * left. rewrite Nat.sub_diag in H. exists o. split; auto. apply fwd_cycle_In. exact H.
      * right. split; [lia|]. replace (j - k) with (S (j - S k)) in H by lia. exact H. Qed.

Lemma owc_iff c i o : In (i, o) (ops_with_cycles c) <-> In o (cycle_at c i).
Proof. unfold ops_with_cycles, cycle_at. rewrite owc_In, Nat.sub_0_r. split; [tauto|]. split; [lia|auto]. Qed.

Lemma points_iff c p : In p (points c) <-> exists i o, In o (cycle_at c i) /\ p = pt_of i o.
Proof. unfold points. rewrite in_map_iff. split.
  - intros ([i o] & E & H). exists i, o. split; [apply owc_iff; exact H|symmetry; exact E].
  - intros (i & o & H & E). exists (i, o). split; [symmetry; exact E|apply owc_iff; exact H]. Qed.

Theorem owc_iter cs k : map snd (owc cs k) = iter_ops cs.
Proof. revert k. induction cs as [|cy t IH]; intros k; simpl; auto.
  rewrite map_app, map_map, IH. simpl. rewrite map_id. reflexivity. Qed.

Theorem ops_with_cycles_iter c : map snd (ops_with_cycles c) = iter_ops (cycles c).
Proof. apply owc_iter. Qed.

(* the sort of a cycle is strictly increasing in location[0] *)
Definition key0 (o : op) : nat := hd0 (o_loc o).

Lemma ins_by_In key o x l : In x (ins_by key o l) <-> x = o \/ In x l.
Proof. split.
  - intros H. apply (Permutation_in _ (ins_by_perm key o l)) in H. destruct H; auto.
  - intros H. apply (Permutation_in _ (Permutation_sym (ins_by_perm key o l))). destruct H; [left|right]; auto. Qed.

Lemma ins_by_sorted key o l :
  StronglySorted (fun a b => key a <= key b) l -> StronglySorted (fun a b => key a <= key b) (ins_by key o l).
Proof. induction 1 as [|y t Hs IH Hf]; simpl.
  - constructor; constructor.
  - destruct (Nat.leb_spec (key o) (key y)) as [L|L].
    + constructor; [constructor; auto|]. constructor; auto.
      eapply Forall_impl; [|exact Hf]. simpl. intros z Hz. lia.
    + constructor; auto. apply Forall_forall. intros z Hz. apply ins_by_In in Hz as [->|Hz]; [lia|].
      rewrite Forall_forall in Hf. apply Hf. exact Hz. Qed.

Lemma sort_by_sorted key l : StronglySorted (fun a b => key a <= key b) (sort_by key l).
Proof. induction l as [|y t IH]; simpl; [constructor|apply ins_by_sorted; exact IH]. Qed.

Lemma amo_tail o cy : amo (o :: cy) -> amo cy.
Proof. intros A q. specialize (A q). simpl in A. destruct (touches q o); simpl in A; lia. Qed.

Lemma amo_keys_nodup cy : amo cy -> Forall (fun o => o_loc o <> []) cy -> NoDup (map key0 cy).
Proof. induction cy as [|o cy IH]; intros A W; simpl; [constructor|].
  inversion W as [|? ? Wo Wc]; subst. constructor; [|apply IH; auto; eapply amo_tail; eauto].
  intros Hin. apply in_map_iff in Hin as (o' & E & Ho').
  specialize (A (key0 o)). simpl in A.
  assert (T : touches (key0 o) o = true) by (apply memn_In; apply hd0_in; exact Wo).
  rewrite T in A. simpl in A.
  assert (In o' (filter (touches (key0 o)) cy)).
  { apply filter_In. split; auto. apply memn_In. rewrite <- E. apply hd0_in.
    rewrite Forall_forall in Wc. apply Wc. exact Ho'. }
  destruct (filter (touches (key0 o)) cy); [destruct H|simpl in A; lia]. Qed.

Lemma sorted_le_nodup_lt (l : list op) :
  StronglySorted (fun a b => key0 a <= key0 b) l -> NoDup (map key0 l) ->
  StronglySorted (fun a b => key0 a < key0 b) l.
Proof. induction 1 as [|a l Hs IH Hf]; intros N; [constructor|].
  simpl in N. inversion N as [|? ? Na Nl]; subst. constructor; auto.
  apply Forall_forall. intros b Hb. rewrite Forall_forall in Hf. specialize (Hf b Hb).
  assert (key0 a <> key0 b) by (intros E; apply Na; rewrite E; apply in_map; exact Hb). lia. Qed.

Lemma fwd_cycle_strict cy : amo cy -> Forall (fun o => o_loc o <> []) cy ->
  StronglySorted (fun a b => key0 a < key0 b) (fwd_cycle cy).
Proof. intros A W. apply sorted_le_nodup_lt; [apply sort_by_sorted|].
  apply (Permutation_NoDup (l := map key0 cy)); [|apply amo_keys_nodup; auto].
  apply Permutation_map. apply Permutation_sym. apply fwd_cycle_perm. Qed.

Definition ptf (p : nat * op) : pt := pt_of (fst p) (snd p).

Lemma owc_sorted cs k : Forall amo cs -> Forall (Forall (fun o => o_loc o <> [])) cs ->
  StronglySorted pt_lt (map ptf (owc cs k)).
Proof. revert k. induction cs as [|cy t IH]; intros k A W; simpl; [constructor|].
  inversion A as [|? ? Ac At]; inversion W as [|? ? Wc Wt]; subst.
  rewrite map_app. apply ss_app.
  - rewrite map_map. pose proof (fwd_cycle_strict cy Ac Wc) as S.
    induction S as [|a l Hs IHs Hf]; simpl; constructor; auto.
    rewrite Forall_map. eapply Forall_impl; [|exact Hf]. intros b Hb.
    unfold pt_lt. rewrite pt_ltb_iff. unfold ptf, pt_of. simpl. right. split; auto.
  - apply IH; auto.
  - intros a b Ha Hb. apply in_map_iff in Ha as ([i o] & <- & Ha). apply in_map_iff in Hb as ([j o'] & <- & Hb).
    apply in_map_iff in Ha as (x & E & _). inversion E; subst.
    apply owc_In in Hb as [L _]. apply pt_lt_cycle. unfold ptf. simpl. lia. Qed.

Theorem points_sorted c : amo_all c -> wf_locs c -> StronglySorted pt_lt (points c).
Proof. intros A W. apply owc_sorted; auto. Qed.

(* ---- nexts / prevs --------------------------------------------------------------------- *)
Lemma nexts_at c i o : amo_all c -> wf_locs c -> In o (cycle_at c i) ->
  nexts c (pt_of i o) = pt_set (somes (map (next_on c i) (o_loc o))).
Proof. intros A W Ho. unfold nexts, pt_of. simpl. rewrite (get_cell_pt c i o A W Ho). reflexivity. Qed.

Lemma prevs_at c i o : amo_all c -> wf_locs c -> In o (cycle_at c i) ->
  prevs c (pt_of i o) = pt_set (somes (map (prev_on c i) (o_loc o))).
Proof. intros A W Ho. unfold prevs, pt_of. simpl. rewrite (get_cell_pt c i o A W Ho). reflexivity. Qed.

Lemma in_set_somes_map (f : nat -> option pt) l x :
  In x (pt_set (somes (map f l))) <-> exists q, In q l /\ f q = Some x.
Proof. rewrite pt_set_In, somes_In, in_map_iff. split; intros (q & H1 & H2); exists q; auto. Qed.

Lemma nexts_nodup c p : NoDup (nexts c p).
Proof. unfold nexts. destruct (get_cell c (fst p) (snd p)); [apply pt_set_nodup|constructor]. Qed.

Lemma prevs_nodup c p : NoDup (prevs c p).
Proof. unfold prevs. destruct (get_cell c (fst p) (snd p)); [apply pt_set_nodup|constructor]. Qed.

Lemma nexts_points c p x : In x (nexts c p) -> In x (points c) /\ fst p < fst x.
Proof. unfold nexts. destruct (get_cell c (fst p) (snd p)) as [o|]; [|intros []].
  rewrite in_set_somes_map. intros (q & Hq & H). apply next_on_some in H as (j & o' & L & G & -> & _).
  split; [|exact L]. apply points_iff. exists j, o'. split; auto. apply (get_cell_some _ _ _ _ G). Qed.

Lemma prevs_points c p x : In x (prevs c p) -> In x (points c) /\ fst x < fst p.
Proof. unfold prevs. destruct (get_cell c (fst p) (snd p)) as [o|]; [|intros []].
  rewrite in_set_somes_map. intros (q & Hq & H). apply prev_on_some in H as (j & o' & L & G & -> & _).
  split; [|exact L]. apply points_iff. exists j, o'. split; auto. apply (get_cell_some _ _ _ _ G). Qed.

(* Circuit.next and Circuit.prev are inverse relations *)
Theorem next_prev_inverse c p p' : amo_all c -> wf_locs c ->
  In p (points c) -> In p' (points c) -> (In p' (nexts c p) <-> In p (prevs c p')).
Proof. intros A W Hp Hp'. apply points_iff in Hp as (i & o & Ho & ->). apply points_iff in Hp' as (j & o' & Ho' & ->).
  rewrite nexts_at, prevs_at by auto. rewrite !in_set_somes_map. split.
  - intros (q & Hq & H). pose proof H as H0. apply next_on_some in H0 as (j1 & o1 & L & G & E & _).
    destruct (get_cell_some _ _ _ _ G) as [Ho1 Hq1].
    destruct (pt_of_inj c j j1 o' o1 A W Ho' Ho1 E) as [<- <-].
    exists q. split; auto. apply (next_prev_on_inverse c i j q o o' A); auto. apply get_cell_amo; auto.
  - intros (q & Hq & H). pose proof H as H0. apply prev_on_some in H0 as (i1 & o1 & L & G & E & _).
    destruct (get_cell_some _ _ _ _ G) as [Ho1 Hq1].
    destruct (pt_of_inj c i i1 o o1 A W Ho Ho1 E) as [<- <-].
    exists q. split; auto. apply (next_prev_on_inverse c i j q o o' A); auto. apply get_cell_amo; auto. Qed.

(* ---- front / rear ------------------------------------------------------------------------ *)
Lemma first_on_some c q p : first_on c q = Some p <->
  exists j o, get_cell c j q = Some o /\ p = pt_of j o /\ forall j', j' < j -> get_cell c j' q = None.
Proof. unfold first_on. rewrite first_from_some. reflexivity. Qed.

Lemma last_on_some c q p : last_on c q = Some p <->
  exists j o, get_cell c j q = Some o /\ p = pt_of j o /\ forall j', j < j' -> get_cell c j' q = None.
Proof. unfold last_on. rewrite last_from_some. reflexivity. Qed.

Lemma prevs_nil c i o : amo_all c -> wf_locs c -> In o (cycle_at c i) ->
  (prevs c (pt_of i o) = [] <-> forall q, In q (o_loc o) -> prev_on c i q = None).
Proof. intros A W Ho. rewrite prevs_at by auto. rewrite pt_set_nil, somes_nil. split.
  - intros H q Hq. apply H. apply in_map. exact Hq.
  - intros H x Hx. apply in_map_iff in Hx as (q & <- & Hq). apply H. exact Hq. Qed.

Lemma nexts_nil c i o : amo_all c -> wf_locs c -> In o (cycle_at c i) ->
  (nexts c (pt_of i o) = [] <-> forall q, In q (o_loc o) -> next_on c i q = None).
Proof. intros A W Ho. rewrite nexts_at by auto. rewrite pt_set_nil, somes_nil. split.
  - intros H q Hq. apply H. apply in_map. exact Hq.
  - intros H x Hx. apply in_map_iff in Hx as (q & <- & Hq). apply H. exact Hq. Qed.

Lemma is_nil_true {A} (l : list A) : (match l with [] => true | _ => false end) = true <-> l = [].
Proof. destruct l; split; congruence. Qed.

(* Circuit.front: exactly the operations without a predecessor *)
Theorem front_no_prev c p : amo_all c -> wf_locs c -> locs_in_range c ->
  (In p (front c) <-> In p (points c) /\ prevs c p = []).
Proof. intros A W R. unfold front. rewrite pt_set_In, filter_In, somes_In, in_map_iff, is_nil_true. split.
  - intros [(q & H & _) N]. split; auto. apply first_on_some in H as (j & o & G & -> & _).
    apply points_iff. exists j, o. split; auto. apply (get_cell_some _ _ _ _ G).
  - intros [Hp N]. split; auto. apply points_iff in Hp as (i & o & Ho & ->).
    pose proof (hd0_in _ (wf_at c i o W Ho)) as Hq. exists (hd0 (o_loc o)). split.
    + apply first_on_some. exists i, o. split; [apply get_cell_amo; auto|]. split; auto.
      apply prev_on_none. apply (proj1 (prevs_nil c i o A W Ho)); auto.
    + apply in_seq. split; [lia|]. simpl. eapply range_at; eauto. Qed.

Theorem rear_no_next c p : amo_all c -> wf_locs c -> locs_in_range c ->
  (In p (rear c) <-> In p (points c) /\ nexts c p = []).
Proof. intros A W R. unfold rear. rewrite pt_set_In, filter_In, somes_In, in_map_iff, is_nil_true. split.
  - intros [(q & H & _) N]. split; auto. apply last_on_some in H as (j & o & G & -> & _).
    apply points_iff. exists j, o. split; auto. apply (get_cell_some _ _ _ _ G).
  - intros [Hp N]. split; auto. apply points_iff in Hp as (i & o & Ho & ->).
    pose proof (hd0_in _ (wf_at c i o W Ho)) as Hq. exists (hd0 (o_loc o)). split.
    + apply last_on_some. exists i, o. split; [apply get_cell_amo; auto|]. split; auto.
      apply next_on_none. apply (proj1 (nexts_nil c i o A W Ho)); auto.
    + apply in_seq. split; [lia|]. simpl. eapply range_at; eauto. Qed.

Lemma front_nodup c : NoDup (front c).
Proof. apply pt_set_nodup. Qed.
Lemma rear_nodup c : NoDup (rear c).
Proof. apply pt_set_nodup. Qed.

(* ================================================================================== *)
(* C. the DAG iterator                                                                   *)
(* ================================================================================== *)
Definition memp (x : pt) (l : list pt) : bool := existsb (pt_eqb x) l.

Lemma memp_In x l : memp x l = true <-> In x l.
Proof. unfold memp. rewrite existsb_exists. split.
  - intros (y & Hy & E). apply pt_eqb_spec in E. subst. exact Hy.
  - intros H. exists x. split; auto. apply pt_eqb_refl. Qed.

Lemma memp_false x l : memp x l = false <-> ~ In x l.
Proof. rewrite <- memp_In. destruct (memp x l); split; congruence. Qed.

Definition cnt_val (x : pt) (b : list (pt * nat)) : nat :=
  match cnt_get x b with None => 0 | Some k => k end.

Lemma cnt_get_del_other x p b : x <> p -> cnt_get x (cnt_del p b) = cnt_get x b.
Proof. intros N. induction b as [|[k n] t IH]; simpl; auto.
  destruct (pt_eqb p k) eqn:E.
  - apply pt_eqb_spec in E. subst k. apply pt_eqb_neq in N. rewrite N. reflexivity.
  - simpl. rewrite IH. reflexivity. Qed.

Lemma cnt_get_set_same x v b : cnt_get x (cnt_set x v b) = Some v.
Proof. induction b as [|[k n] t IH]; simpl.
  - rewrite pt_eqb_refl. reflexivity.
  - destruct (pt_eqb x k) eqn:E; simpl; rewrite E; auto. Qed.

Lemma cnt_get_set_other x p v b : x <> p -> cnt_get x (cnt_set p v b) = cnt_get x b.
Proof. intros N. apply pt_eqb_neq in N. induction b as [|[k n] t IH]; simpl.
  - rewrite N. reflexivity.
  - destruct (pt_eqb p k) eqn:E; simpl.
    + apply pt_eqb_spec in E. subst k. rewrite N. reflexivity.
    + rewrite IH. reflexivity. Qed.

Lemma cnt_get_init x l : cnt_val x (map (fun p => (p, 0)) l) = 0.
Proof. unfold cnt_val. induction l as [|y t IH]; simpl; auto. destruct (pt_eqb x y); auto. Qed.

(* the successor loop of __next__ *)
Definition succ_step (c : circuit) (s : dag_state) (succ : pt) : dag_state :=
  let n := match cnt_get succ (binned s) with None => 1 | Some k => S k end in
  let b := cnt_set succ n (binned s) in
  if Nat.eqb n (length (prevs c succ)) then mkDS (succ :: frontier s) b else mkDS (frontier s) b.

Lemma succ_step_spec c s a :
  let s' := succ_step c s a in
  cnt_val a (binned s') = S (cnt_val a (binned s))
  /\ (forall x, x <> a -> cnt_val x (binned s') = cnt_val x (binned s))
  /\ frontier s' = (if Nat.eqb (S (cnt_val a (binned s))) (length (prevs c a)) then a :: frontier s else frontier s).
Proof. unfold succ_step, cnt_val.
  assert (E : match cnt_get a (binned s) with None => 1 | Some k => S k end
              = S match cnt_get a (binned s) with None => 0 | Some k => k end)
    by (destruct (cnt_get a (binned s)); reflexivity).
  rewrite E. set (n := S _).
  destruct (Nat.eqb n (length (prevs c a))); simpl; rewrite cnt_get_set_same;
    (split; [reflexivity|split; [intros x N; rewrite cnt_get_set_other by exact N; reflexivity|reflexivity]]). Qed.

Lemma succ_fold_spec c l : forall s, NoDup l ->
  let s' := fold_left (succ_step c) l s in
  (forall x, cnt_val x (binned s') = cnt_val x (binned s) + (if memp x l then 1 else 0))
  /\ (forall x, In x (frontier s') <->
                In x (frontier s) \/ (In x l /\ S (cnt_val x (binned s)) = length (prevs c x)))
  /\ (NoDup (frontier s) -> (forall x, In x l -> ~ In x (frontier s)) -> NoDup (frontier s')).
Proof. induction l as [|a l IH]; intros s N; cbn [fold_left].
  - split; [|split].
    + intros x. simpl. lia.
    + intros x. split; [auto|]. intros [H|[[] _]]. exact H.
    + auto.
  - inversion N as [|? ? Na Nl]; subst.
    destruct (succ_step_spec c s a) as (S1 & S2 & S3). set (s1 := succ_step c s a) in *.
    destruct (IH s1 Nl) as (I1 & I2 & I3). split; [|split].
    + intros x. rewrite I1. simpl. destruct (pt_eqb x a) eqn:E.
      * apply pt_eqb_spec in E. subst x. apply memp_false in Na. rewrite Na, S1. simpl. lia.
      * apply pt_eqb_neq in E. rewrite (S2 x E). simpl. reflexivity.
    + intros x. rewrite I2, S3. split.
      * intros [H|[Hx Hc]].
        -- destruct (Nat.eqb_spec (S (cnt_val a (binned s))) (length (prevs c a))) as [Ec|Ec]; auto.
           destruct H as [<-|H]; auto. right. split; [left; reflexivity|exact Ec].
        -- right. split; [right; exact Hx|]. rewrite <- (S2 x); auto. intros ->. contradiction.
      * intros [H|[[<-|Hx] Hc]].
        -- left. destruct (Nat.eqb (S (cnt_val a (binned s))) (length (prevs c a))); [right|]; exact H.
        -- left. apply Nat.eqb_eq in Hc. rewrite Hc. left. reflexivity.
        -- right. split; auto. rewrite S2; auto. intros ->. contradiction.
    + intros Nf D. apply I3.
      * rewrite S3. destruct (Nat.eqb (S (cnt_val a (binned s))) (length (prevs c a))); auto.
        constructor; auto. apply D. left. reflexivity.
      * intros x Hx. rewrite S3. intros H.
        destruct (Nat.eqb (S (cnt_val a (binned s))) (length (prevs c a))).
        -- destruct H as [<-|H]; [contradiction|]. apply (D x); [right; exact Hx|exact H].
        -- apply (D x); [right; exact Hx|exact H]. Qed.

Lemma dag_next_unfold c s : dag_next c s =
  match pop_min (frontier s) with
  | None => None
  | Some (p, rest) =>
    Some ((fst p, get_cell c (fst p) (snd p)),
          fold_left (succ_step c) (nexts c p) (mkDS rest (cnt_del p (binned s))))
  end.
Proof. reflexivity. Qed.

(* counting *)
Lemma filter_len_le {A} (f : A -> bool) l : length (filter f l) <= length l.
Proof. induction l as [|a l IH]; simpl; auto. destruct (f a); simpl; lia. Qed.

Lemma filter_length_full {A} (f : A -> bool) l : length (filter f l) = length l <-> forall x, In x l -> f x = true.
Proof. induction l as [|a l IH]; simpl.
  - split; auto; intros _ x Hx; destruct Hx.
  - pose proof (filter_len_le f l) as Hle. destruct (f a) eqn:E; simpl.
    + split.
      * intros H x [<-|Hx]; auto. apply IH; auto.
      * intros H. f_equal. apply IH. intros x Hx. apply H. auto.
    + split; [lia|]. intros H. specialize (H a (or_introl eq_refl)). congruence. Qed.

Lemma count_snoc (Y l : list pt) m : NoDup l -> ~ In m Y ->
  length (filter (fun y => memp y (Y ++ [m])) l)
  = length (filter (fun y => memp y Y) l) + (if memp m l then 1 else 0).
Proof. intros N Hm. induction l as [|a l IH]; simpl; auto.
  inversion N as [|? ? Na Nl]; subst. specialize (IH Nl).
  assert (E : memp a (Y ++ [m]) = memp a Y || pt_eqb a m).
  { unfold memp. rewrite existsb_app. simpl. rewrite orb_false_r. reflexivity. }
  rewrite E. destruct (pt_eqb a m) eqn:Eam.
  - apply pt_eqb_spec in Eam. subst a. rewrite pt_eqb_refl. simpl.
    apply memp_false in Hm. rewrite Hm. simpl. apply memp_false in Na. rewrite Na in IH. rewrite IH. lia.
  - assert (Ema : pt_eqb m a = false).
    { apply pt_eqb_neq. apply pt_eqb_neq in Eam. congruence. }
    rewrite Ema, orb_false_r. simpl. destruct (memp a Y); simpl; rewrite IH; reflexivity. Qed.

Section DagRun.
Variable c : circuit.
Let P := points c.
Hypothesis P_sorted : StronglySorted pt_lt P.
Hypothesis prevs_lt : forall p x, In x (prevs c p) -> In x P /\ pt_lt x p.
Hypothesis nexts_P : forall p x, In x (nexts c p) -> In x P /\ pt_lt p x.
Hypothesis np_inv : forall p x, In p P -> In x P -> (In x (nexts c p) <-> In p (prevs c x)).
Hypothesis front_spec : forall x, In x (front c) <-> In x P /\ prevs c x = [].

Definition cntY (Y : list pt) (x : pt) : nat := length (filter (fun y => memp y Y) (prevs c x)).

(* Y: yielded so far; R: still to come *)
Record DI (Y R : list pt) (s : dag_state) : Prop := {
  di_nodup : NoDup (frontier s);
  di_front : forall x, In x (frontier s) <-> In x R /\ (forall y, In y (prevs c x) -> In y Y);
  di_count : forall x, In x R -> cnt_val x (binned s) = cntY Y x }.

Lemma DI_init : DI [] P (dag_init c).
Proof. constructor; unfold dag_init; cbn [frontier binned].
  - apply front_nodup.
  - intros x. rewrite front_spec. split; intros [H1 H2]; split; auto.
    + rewrite H2. intros y [].
    + destruct (prevs c x) as [|y t]; auto. destruct (H2 y (or_introl eq_refl)).
  - intros x _. rewrite cnt_get_init. unfold cntY. simpl.
    induction (prevs c x); simpl; auto. Qed.

Definition out_of (p : pt) : nat * option op := (fst p, get_cell c (fst p) (snd p)).

Lemma DI_step Y m R s : P = Y ++ m :: R -> DI Y (m :: R) s ->
  exists s', dag_next c s = Some (out_of m, s') /\ DI (Y ++ [m]) R s'.
Proof. intros EP [Dn Df Dc].
  pose proof P_sorted as PS. rewrite EP in PS. apply ss_app_inv in PS as (SY & SR & SYR).
  inversion SR as [|? ? SR' FR]; subst. rewrite Forall_forall in FR.
  assert (NP : NoDup P) by (apply ss_nodup; exact P_sorted).
  assert (mY : ~ In m Y).
  { intros H. apply (pt_lt_irrefl m). apply SYR; [exact H|left; reflexivity]. }
  assert (mR : ~ In m R) by (intros H; apply (pt_lt_irrefl m); apply FR; exact H).
  assert (inP : forall x, In x P <-> In x Y \/ x = m \/ In x R).
  { intros x. rewrite EP, in_app_iff. simpl. split; intros [H|[H|H]]; auto. }
  (* the least unyielded point is ready *)
  assert (m_ready : In m (frontier s)).
  { apply Df. split; [left; reflexivity|]. intros y Hy. destruct (prevs_lt m y Hy) as [HyP L].
    apply inP in HyP as [H|[->|H]]; auto.
    - destruct (pt_lt_irrefl _ L).
    - destruct (pt_lt_asym _ _ L). apply FR. exact H. }
  pose proof (pop_min_spec (frontier s)) as PM. rewrite dag_next_unfold.
  destruct (pop_min (frontier s)) as [[m0 rest]|]; [|rewrite PM in m_ready; destruct m_ready].
  destruct PM as [Perm Fm]. rewrite Forall_forall in Fm.
  assert (m0 = m).
  { assert (H0 : In m0 (frontier s)) by (apply (Permutation_in _ (Permutation_sym Perm)); left; reflexivity).
    apply Df in H0 as [[H0|H0] _]; auto. exfalso.
    specialize (Fm m m_ready). apply pt_leb_iff in Fm. apply Fm. apply FR. exact H0. }
  subst m0.
  assert (Nmr : NoDup (m :: rest)) by (eapply Permutation_NoDup; eauto).
  inversion Nmr as [|? ? mrest Nrest]; subst.
  assert (rest_iff : forall x, In x rest <-> In x (frontier s) /\ x <> m).
  { intros x. split.
    - intros H. split; [apply (Permutation_in _ (Permutation_sym Perm)); right; exact H|].
      intros ->. contradiction.
    - intros [H N]. apply (Permutation_in _ Perm) in H. destruct H as [H|H]; [congruence|exact H]. }
  set (s1 := mkDS rest (cnt_del m (binned s))).
  eexists. split; [reflexivity|].
  destruct (succ_fold_spec c (nexts c m) s1 (nexts_nodup c m)) as (F1 & F2 & F3).
  set (s2 := fold_left (succ_step c) (nexts c m) s1) in *.
  assert (mP : In m P) by (apply inP; auto).
  assert (RP : forall x, In x R -> In x P) by (intros x H; apply inP; auto).
  assert (cnt1 : forall x, In x R -> cnt_val x (binned s1) = cntY Y x).
  { intros x Hx. unfold s1, cnt_val. cbn [binned]. rewrite cnt_get_del_other.
    - apply Dc. right. exact Hx.
    - intros ->. contradiction. }
  assert (nextR : forall x, In x (nexts c m) -> In x R).
  { intros x Hx. destruct (nexts_P m x Hx) as [HxP L]. apply inP in HxP as [H|[->|H]]; auto.
    - destruct (pt_lt_asym _ _ L). apply SYR; [exact H|left; reflexivity].
    - destruct (pt_lt_irrefl _ L). }
  assert (cntS : forall x, In x R -> cntY (Y ++ [m]) x = cntY Y x + (if memp m (prevs c x) then 1 else 0)).
  { intros x Hx. unfold cntY. apply count_snoc; [apply prevs_nodup|exact mY]. }
  assert (mem_eq : forall x, In x R -> memp x (nexts c m) = memp m (prevs c x)).
  { intros x Hx. destruct (memp m (prevs c x)) eqn:E.
    - apply memp_In. apply np_inv; auto. apply memp_In. exact E.
    - apply memp_false. intros H. apply (np_inv m x mP (RP x Hx)) in H. apply memp_In in H. congruence. }
  constructor.
  - (* NoDup *)
    apply F3; [exact Nrest|]. intros x Hx Hr. apply rest_iff in Hr as [Hr _].
    apply Df in Hr as [_ Hr]. apply mY. apply Hr. apply np_inv; auto.
  - (* frontier = ready unyielded points *)
    intros x. rewrite F2. unfold s1 at 1. cbn [frontier]. split.
    + intros [Hr|[Hx Hc]].
      * apply rest_iff in Hr as [Hr Nm]. apply Df in Hr as [[Hr|Hr] Hp]; [congruence|].
        split; auto. intros y Hy. apply in_app_iff. left. auto.
      * pose proof (nextR x Hx) as HxR. split; auto. rewrite (cnt1 x HxR) in Hc.
        assert (Hfull : cntY (Y ++ [m]) x = length (prevs c x)).
        { rewrite (cntS x HxR), <- (mem_eq x HxR). apply memp_In in Hx. rewrite Hx. lia. }
        unfold cntY in Hfull. intros y Hy.
        apply memp_In. apply (proj1 (filter_length_full _ _) Hfull). exact Hy.
    + intros [HxR Hp]. destruct (memp m (prevs c x)) eqn:E.
      * right. assert (Hx : In x (nexts c m)) by (apply memp_In; rewrite (mem_eq x HxR); exact E).
        split; auto. rewrite (cnt1 x HxR).
        assert (Hfull : cntY (Y ++ [m]) x = length (prevs c x)).
        { unfold cntY. apply filter_length_full. intros y Hy. apply memp_In. auto. }
        rewrite (cntS x HxR), E in Hfull. lia.
      * left. apply rest_iff. split; [|intros ->; contradiction].
        apply Df. split; [right; exact HxR|]. intros y Hy. specialize (Hp y Hy).
        apply in_app_iff in Hp as [Hp|[<-|[]]]; auto.
        apply memp_false in E. contradiction.
  - (* counts *)
    intros x HxR. rewrite F1, (cnt1 x HxR), (cntS x HxR), (mem_eq x HxR). reflexivity. Qed.

Lemma DI_done Y s : DI Y [] s -> dag_next c s = None.
Proof. intros [Dn Df Dc]. rewrite dag_next_unfold. destruct (frontier s) as [|x t] eqn:E; [reflexivity|].
  destruct (proj1 (Df x) (or_introl eq_refl)) as [[] _]. Qed.

Lemma dag_run_DI R : forall Y s fuel, P = Y ++ R -> DI Y R s -> length R < fuel ->
  dag_run fuel c s = map out_of R.
Proof. induction R as [|m R IH]; intros Y s fuel EP D Hf.
  - destruct fuel as [|f]; [simpl in Hf; lia|]. simpl. rewrite (DI_done Y s D). reflexivity.
  - destruct fuel as [|f]; [simpl in Hf; lia|]. simpl in Hf.
    destruct (DI_step Y m R s EP D) as (s' & E & D'). cbn [dag_run map]. rewrite E. f_equal.
    apply (IH (Y ++ [m])); auto; [rewrite <- app_assoc; exact EP|lia]. Qed.

Lemma dag_run_points fuel : length P < fuel -> dag_run fuel c (dag_init c) = map out_of P.
Proof. intros H. apply (dag_run_DI P [] (dag_init c) fuel); auto. apply DI_init. Qed.
End DagRun.

(* ---- main theorem ------------------------------------------------------------------------ *)
Theorem num_operations_iter c : num_operations c = length (iter_ops (cycles c)).
Proof. unfold num_operations, iter_ops. induction (cycles c) as [|cy t IH]; simpl; auto.
  rewrite app_length, <- IH. f_equal. symmetry. apply Permutation_length. apply fwd_cycle_perm. Qed.

Theorem num_operations_points c : num_operations c = length (points c).
Proof. rewrite num_operations_iter, <- ops_with_cycles_iter. unfold points. rewrite !map_length. reflexivity. Qed.

Lemma dag_iter_points c : amo_all c -> wf_locs c -> locs_in_range c ->
  dag_iter c = map (fun p => (fst p, get_cell c (fst p) (snd p))) (points c).
Proof. intros A W R. unfold dag_iter. apply dag_run_points.
  - apply points_sorted; auto.
  - intros p x H. destruct (prevs_points c p x H) as [H1 H2]. split; auto. apply pt_lt_cycle. exact H2.
  - intros p x H. destruct (nexts_points c p x H) as [H1 H2]. split; auto. apply pt_lt_cycle. exact H2.
  - intros p x Hp Hx. apply next_prev_inverse; auto.
  - intros x. apply front_no_prev; auto.
  - rewrite num_operations_points. lia. Qed.

(* The DAG iterator yields every operation exactly once, in the order of
   operations_with_cycles: cycles ascending, inside a cycle by location[0]. *)
Theorem dag_iter_sorted_amo c : amo_all c -> wf_locs c -> locs_in_range c ->
  dag_iter c = map (fun p => (fst p, Some (snd p))) (ops_with_cycles c).
Proof. intros A W R. rewrite dag_iter_points by auto. unfold points. rewrite map_map.
  apply map_ext_in. intros [i o] H. simpl. f_equal. apply get_cell_pt; auto. apply owc_iff. exact H. Qed.

Theorem dag_iter_sorted c : Inv c -> wf_locs c -> locs_in_range c ->
  dag_iter c = map (fun p => (fst p, Some (snd p))) (ops_with_cycles c).
Proof. intros I. apply dag_iter_sorted_amo. apply Inv_amo_all. exact I. Qed.

Theorem dag_iter_ops c : Inv c -> wf_locs c -> locs_in_range c ->
  map snd (dag_iter c) = map Some (iter_ops (cycles c)).
Proof. intros I W R. rewrite dag_iter_sorted by auto. rewrite <- ops_with_cycles_iter, !map_map. reflexivity. Qed.

Theorem dag_iter_length c : Inv c -> wf_locs c -> locs_in_range c ->
  length (dag_iter c) = num_operations c.
Proof. intros I W R. rewrite dag_iter_sorted by auto. rewrite map_length, num_operations_points.
  unfold points. rewrite map_length. reflexivity. Qed.

(* the point of a yielded item *)
Definition yield_pt (x : nat * option op) : pt :=
  (fst x, match snd x with Some o => hd0 (o_loc o) | None => 0 end).

Theorem dag_iter_strictly_increasing c : Inv c -> wf_locs c -> locs_in_range c ->
  map yield_pt (dag_iter c) = points c /\ StronglySorted pt_lt (map yield_pt (dag_iter c)).
Proof. intros I W R. assert (E : map yield_pt (dag_iter c) = points c).
  { rewrite dag_iter_sorted by auto. rewrite map_map. reflexivity. }
  split; [exact E|]. rewrite E. apply points_sorted; auto. apply Inv_amo_all; exact I. Qed.

(* every operation is yielded exactly once *)
Theorem dag_iter_once c : Inv c -> wf_locs c -> locs_in_range c ->
  NoDup (map yield_pt (dag_iter c))
  /\ forall i o, In (i, Some o) (dag_iter c) <-> In o (cycle_at c i).
Proof. intros I W R. split.
  - apply ss_nodup. apply dag_iter_strictly_increasing; auto.
  - intros i o. rewrite dag_iter_sorted by auto. rewrite in_map_iff. rewrite <- owc_iff. split.
    + intros ([j o'] & E & H). simpl in E. inversion E; subst. exact H.
    + intros H. exists (i, o). split; auto. Qed.

(* without the range hypothesis an operation on a qudit outside the circuit is never
   reached: `front` only looks at qudits 0 .. nq-1 *)
Example dag_iter_needs_range :
  let c := mkC 1 [2] [[Op false 1 [3] [] [2] []]] in
  Inv c /\ wf_locs c /\ dag_iter c = [] /\ num_operations c = 1.
Proof. cbv zeta. split; [|split; [|split]].
  - constructor; [|constructor]. split; [discriminate|apply amo_single].
  - repeat constructor; discriminate.
  - vm_compute. reflexivity.
  - reflexivity. Qed.

(* ================================================================================== *)
(* D. the other views                                                                    *)
(* ================================================================================== *)
(* ---- first_on / last_on against the timelines ------------------------------------------ *)
Definition last_error {A} (l : list A) : option A := hd_error (rev l).

Lemma tlc_cons cy t q : tlc (cy :: t) q = filter (touches q) cy ++ tlc t q.
Proof. reflexivity. Qed.

Lemma first_from_none_tl cs q k : first_from cs q k = None <-> tlc cs q = [].
Proof. revert k. induction cs as [|cy t IH]; intros k; [simpl; tauto|].
  rewrite tlc_cons. simpl. destruct (cell cy q) as [o|] eqn:E.
  - split; [discriminate|]. intros H. apply app_eq_nil in H as [H _]. apply cell_none in H. congruence.
  - apply cell_none in E. rewrite E. apply IH. Qed.

Lemma last_from_none_tl cs q k : last_from cs q k = None <-> tlc cs q = [].
Proof. revert k. induction cs as [|cy t IH]; intros k; [simpl; tauto|].
  rewrite tlc_cons. simpl. destruct (last_from t q (S k)) as [p|] eqn:E.
  - split; [discriminate|]. intros H. apply app_eq_nil in H as [_ H]. apply (IH (S k)) in H. congruence.
  - apply (IH (S k)) in E. rewrite E, app_nil_r. destruct (cell cy q) as [o|] eqn:Ec.
    + split; [discriminate|]. intros H. apply cell_none in H. congruence.
    + apply cell_none in Ec. tauto. Qed.

Lemma first_from_tl cs q k : Forall amo cs ->
  match first_from cs q k with
  | Some p => exists j o, p = pt_of (k + j) o /\ cell (nth j cs []) q = Some o
                          /\ hd_error (tlc cs q) = Some o /\ tlc (firstn j cs) q = []
  | None => tlc cs q = []
  end.
Proof. intros A. revert k. induction A as [|cy t Ac At IH]; intros k; [reflexivity|].
  rewrite tlc_cons, (filter_cell cy q Ac). simpl. destruct (cell cy q) as [o|] eqn:E.
  - exists 0, o. rewrite Nat.add_0_r. repeat split; auto.
  - specialize (IH (S k)). destruct (first_from t q (S k)) as [p|]; [|exact IH].
    destruct IH as (j & o & H1 & H2 & H3 & H4). exists (S j), o. rewrite Nat.add_succ_r.
    repeat split; auto. cbn [firstn]. rewrite tlc_cons, H4, app_nil_r. apply cell_none. exact E. Qed.

Lemma last_from_tl cs q k : Forall amo cs ->
  match last_from cs q k with
  | Some p => exists j o, p = pt_of (k + j) o /\ cell (nth j cs []) q = Some o
                          /\ last_error (tlc cs q) = Some o /\ tlc (skipn (S j) cs) q = []
  | None => tlc cs q = []
  end.
Proof. intros A. revert k. induction A as [|cy t Ac At IH]; intros k; [reflexivity|].
  rewrite tlc_cons, (filter_cell cy q Ac). simpl. specialize (IH (S k)).
  destruct (last_from t q (S k)) as [p|].
  - destruct IH as (j & o & H1 & H2 & H3 & H4). exists (S j), o. rewrite Nat.add_succ_r.
    repeat split; auto. unfold last_error in *. rewrite rev_app_distr.
    destruct (rev (tlc t q)); simpl in *; [discriminate|exact H3].
  - rewrite IH, app_nil_r. destruct (cell cy q) as [o|] eqn:E; [|reflexivity].
    exists 0, o. rewrite Nat.add_0_r. repeat split; auto. Qed.

(* Circuit.first_on(q): the point of the first operation of q's timeline *)
Theorem first_on_spec c q : amo_all c ->
  match first_on c q with
  | Some p => exists o, hd_error (tl c q) = Some o /\ p = pt_of (fst p) o
                        /\ get_cell c (fst p) q = Some o /\ tlc (firstn (fst p) (cycles c)) q = []
  | None => tl c q = []
  end.
Proof. intros A. pose proof (first_from_tl (cycles c) q 0 A) as H. unfold first_on.
  destruct (first_from (cycles c) q 0) as [p|]; [|exact H].
  destruct H as (j & o & -> & H2 & H3 & H4). exists o. simpl. repeat split; auto. Qed.

Theorem last_on_spec c q : amo_all c ->
  match last_on c q with
  | Some p => exists o, last_error (tl c q) = Some o /\ p = pt_of (fst p) o
                        /\ get_cell c (fst p) q = Some o /\ tlc (skipn (S (fst p)) (cycles c)) q = []
  | None => tl c q = []
  end.
Proof. intros A. pose proof (last_from_tl (cycles c) q 0 A) as H. unfold last_on.
  destruct (last_from (cycles c) q 0) as [p|]; [|exact H].
  destruct H as (j & o & -> & H2 & H3 & H4). exists o. simpl. repeat split; auto. Qed.

Theorem first_on_none c q : first_on c q = None <-> tl c q = [].
Proof. apply first_from_none_tl. Qed.

Theorem last_on_none c q : last_on c q = None <-> tl c q = [].
Proof. apply last_from_none_tl. Qed.

Theorem active_qudits_spec c q : In q (active_qudits c) <-> q < nq c /\ tl c q <> [].
Proof. unfold active_qudits. rewrite filter_In, in_seq. rewrite <- first_on_none.
  destruct (first_on c q); split; intros [H1 H2]; split; try lia; congruence. Qed.

(* ---- counters ------------------------------------------------------------------------------ *)
Definition count_sum {K} (l : list (K * nat)) : nat := fold_right (fun kn s => snd kn + s) 0 l.
Definition count_list {K} (eqb : K -> K -> bool) (ks : list K) (acc : list (K * nat)) : list (K * nat) :=
  fold_left (fun acc k => count_add eqb k acc) ks acc.

Lemma count_add_sum {K} (eqb : K -> K -> bool) k l : count_sum (count_add eqb k l) = S (count_sum l).
Proof. induction l as [|[k' n] t IH]; simpl; auto. destruct (eqb k k'); simpl; [lia|rewrite IH; lia]. Qed.

Lemma count_add_keys {K} (eqb : K -> K -> bool) k l x :
  In x (map fst (count_add eqb k l)) -> x = k \/ In x (map fst l).
Proof. induction l as [|[k' n] t IH]; simpl.
  - intros [H|[]]; auto.
  - destruct (eqb k k'); simpl; [auto|]. intros [H|H]; auto. destruct (IH H); auto. Qed.

Lemma count_add_pos {K} (eqb : K -> K -> bool) k l :
  Forall (fun kn => 1 <= snd kn) l -> Forall (fun kn => 1 <= snd kn) (count_add eqb k l).
Proof. induction 1 as [|[k' n] t Hn Ht IH]; simpl.
  - constructor; auto.
  - destruct (eqb k k'); constructor; simpl in *; auto. Qed.

Lemma count_add_nodup {K} (eqb : K -> K -> bool) k l :
  (forall a b, eqb a b = true <-> a = b) -> NoDup (map fst l) -> NoDup (map fst (count_add eqb k l)).
Proof. intros S. induction l as [|[k' n] t IH]; simpl; intros N.
  - constructor; auto.
  - inversion N as [|? ? Nk Nt]; subst. destruct (eqb k k') eqn:E; simpl.
    + constructor; auto.
    + constructor; auto. intros H. apply count_add_keys in H as [->|H]; auto.
      assert (eqb k k = true) by (apply S; reflexivity). congruence. Qed.

Lemma count_list_sum {K} (eqb : K -> K -> bool) ks acc :
  count_sum (count_list eqb ks acc) = length ks + count_sum acc.
Proof. unfold count_list. revert acc. induction ks as [|k t IH]; intros acc; simpl; auto.
  rewrite IH, count_add_sum. lia. Qed.

Lemma count_list_keys {K} (eqb : K -> K -> bool) ks acc x :
  In x (map fst (count_list eqb ks acc)) -> In x ks \/ In x (map fst acc).
Proof. unfold count_list. revert acc. induction ks as [|k t IH]; intros acc; simpl; auto.
  intros H. apply IH in H as [H|H]; auto. apply count_add_keys in H as [H|H]; auto. Qed.

Lemma count_list_pos {K} (eqb : K -> K -> bool) ks acc :
  Forall (fun kn => 1 <= snd kn) acc -> Forall (fun kn => 1 <= snd kn) (count_list eqb ks acc).
Proof. unfold count_list. revert acc. induction ks as [|k t IH]; intros acc H; simpl; auto.
  apply IH. apply count_add_pos. exact H. Qed.

Lemma count_list_nodup {K} (eqb : K -> K -> bool) ks acc :
  (forall a b, eqb a b = true <-> a = b) -> NoDup (map fst acc) -> NoDup (map fst (count_list eqb ks acc)).
Proof. intros S. unfold count_list. revert acc. induction ks as [|k t IH]; intros acc H; simpl; auto.
  apply IH. apply count_add_nodup; auto. Qed.

Lemma gate_counts_list c : gate_counts c = count_list op_eqb (map gate_key (iter_ops (cycles c))) [].
Proof. unfold gate_counts, count_list. generalize (@nil (op * nat)).
  induction (iter_ops (cycles c)) as [|o t IH]; intros acc; simpl; auto. Qed.

Lemma graph_info_list c :
  graph_info c = count_list pt_eqb (flat_map (fun o => loc_pairs (o_loc o)) (iter_ops (cycles c))) [].
Proof. unfold graph_info, count_list. generalize (@nil (pt * nat)).
  induction (iter_ops (cycles c)) as [|o t IH]; intros acc; simpl; auto.
  rewrite fold_left_app. apply IH. Qed.

Lemma iter_ops_In cs o : In o (iter_ops cs) <-> exists cy, In cy cs /\ In o cy.
Proof. unfold iter_ops. rewrite in_flat_map. split; intros (cy & H1 & H2); exists cy; split; auto;
  apply fwd_cycle_In; exact H2. Qed.

(* _gate_info: the counts add up to the number of operations, every key is the gate of
   an operation of the circuit, no count is zero *)
Theorem gate_counts_sum c :
  count_sum (gate_counts c) = num_operations c
  /\ (forall k, In k (map fst (gate_counts c)) -> exists cy o, In cy (cycles c) /\ In o cy /\ k = gate_key o)
  /\ Forall (fun kn => 1 <= snd kn) (gate_counts c).
Proof. rewrite gate_counts_list. split; [|split].
  - rewrite count_list_sum, map_length, num_operations_iter. simpl. lia.
  - intros k H. apply count_list_keys in H as [H|[]]. apply in_map_iff in H as (o & <- & Ho).
    apply iter_ops_In in Ho as (cy & H1 & H2). exists cy, o. auto.
  - apply count_list_pos. constructor. Qed.

Lemma loc_pairs_In loc a b : In (a, b) (loc_pairs loc) <-> a < b /\ In a loc /\ In b loc.
Proof. unfold loc_pairs. rewrite pt_set_In, in_flat_map. split.
  - intros (q1 & H1 & H). apply in_flat_map in H as (q2 & H2 & H).
    destruct (Nat.eqb_spec q1 q2) as [E|E]; [destruct H|]. destruct H as [H|[]]. inversion H; subst.
    destruct (Nat.max_spec q1 q2) as [[L ->]|[L ->]], (Nat.min_spec q1 q2) as [[L' ->]|[L' ->]];
      repeat split; auto; lia.
  - intros (L & Ha & Hb). exists a. split; auto. apply in_flat_map. exists b. split; auto.
    destruct (Nat.eqb_spec a b) as [E|E]; [lia|]. left.
    rewrite Nat.min_l, Nat.max_r by lia. reflexivity. Qed.

(* _graph_info: keys are ordered pairs a < b of qudits of one operation, pairwise distinct,
   and no count is zero *)
Theorem graph_info_ordered c :
  (forall a b, In (a, b) (map fst (graph_info c)) ->
     a < b /\ exists cy o, In cy (cycles c) /\ In o cy /\ In a (o_loc o) /\ In b (o_loc o))
  /\ NoDup (map fst (graph_info c))
  /\ Forall (fun kn => 1 <= snd kn) (graph_info c).
Proof. rewrite graph_info_list. split; [|split].
  - intros a b H. apply count_list_keys in H as [H|[]]. apply in_flat_map in H as (o & Ho & H).
    apply loc_pairs_In in H as (L & Ha & Hb). split; auto.
    apply iter_ops_In in Ho as (cy & H1 & H2). exists cy, o. auto.
  - apply count_list_nodup; [apply pt_eqb_spec|constructor].
  - apply count_list_pos. constructor. Qed.

(* ---- depth -------------------------------------------------------------------------------------- *)
Lemma nth_update_other {A} q q' (f : A -> A) d x : q <> q' -> nth q (update_at q' f d) x = nth q d x.
Proof. revert q q'. induction d as [|y t IH]; intros q q' N; destruct q'; simpl; auto.
  - destruct q; [congruence|reflexivity].
  - destruct q; auto; apply IH; congruence. Qed.

Lemma nth_update_const q q' (v : nat) d :
  nth q (update_at q' (fun _ => v) d) 0 = v \/ nth q (update_at q' (fun _ => v) d) 0 = nth q d 0.
Proof. destruct (Nat.eq_dec q q') as [<-|N]; [|right; apply nth_update_other; exact N].
  revert q. induction d as [|y t IH]; intros q; destruct q; simpl; auto. Qed.

Lemma set_all_other qs v d q : ~ In q qs -> nth q (set_all qs v d) 0 = nth q d 0.
Proof. revert d. induction qs as [|a t IH]; intros d H; simpl; auto.
  rewrite IH by (intros H'; apply H; right; exact H'). apply nth_update_other. intros ->. apply H. left. reflexivity. Qed.

Lemma set_all_nth qs v d q : nth q (set_all qs v d) 0 = v \/ nth q (set_all qs v d) 0 = nth q d 0.
Proof. revert d. induction qs as [|a t IH]; intros d; simpl; auto.
  destruct (IH (update_at a (fun _ => v) d)) as [H|H]; auto. rewrite H. apply nth_update_const. Qed.

Lemma maxl_le l b : maxl l <= b <-> forall x, In x l -> x <= b.
Proof. unfold maxl. induction l as [|a t IH]; simpl.
  - split; [intros _ x []|lia].
  - rewrite Nat.max_lub_iff, IH. split; [intros [H1 H2] x [<-|Hx]; auto|intros H; split; auto]. Qed.

Lemma maxl_le_nth d b : (forall q, nth q d 0 <= b) -> maxl d <= b.
Proof. intros H. apply maxl_le. intros x Hx. destruct (In_nth d x 0 Hx) as (q & _ & <-). apply H. Qed.

Lemma amo_head_disjoint o l o' q : amo (o :: l) -> In o' l -> In q (o_loc o) -> In q (o_loc o') -> False.
Proof. intros A Ho' Hq Hq'. specialize (A q). simpl in A.
  assert (T : touches q o = true) by (apply memn_In; exact Hq). rewrite T in A. simpl in A.
  assert (In o' (filter (touches q) l)) by (apply filter_In; split; auto; apply memn_In; exact Hq').
  destruct (filter (touches q) l); [destruct H|simpl in A; lia]. Qed.

Lemma depth_cycle l : forall d k, amo l ->
  (forall q, nth q d 0 <= S k) ->
  (forall q o, In o l -> In q (o_loc o) -> nth q d 0 <= k) ->
  forall q, nth q (fold_left depth_step l d) 0 <= S k.
Proof. induction l as [|o l IH]; intros d k A H1 H2 q; simpl; auto.
  apply IH with (k := k).
  - eapply amo_tail; eauto.
  - intros q'. unfold depth_step.
    destruct (set_all_nth (o_loc o) (S (maxl (map (fun q0 => nth q0 d 0) (o_loc o)))) d q') as [E|E]; rewrite E; auto.
    apply le_n_S. apply maxl_le. intros x Hx. apply in_map_iff in Hx as (q0 & <- & Hq0).
    apply (H2 q0 o); auto. left. reflexivity.
  - intros q' o' Ho' Hq'. unfold depth_step. rewrite set_all_other.
    + apply (H2 q' o'); auto. right. exact Ho'.
    + intros Hq. exact (amo_head_disjoint o l o' q' A Ho' Hq Hq'). Qed.

Lemma amo_fwd_cycle cy : amo cy -> amo (fwd_cycle cy).
Proof. intros A q. unfold fwd_cycle. rewrite filter_sorted by exact A. apply A. Qed.

Lemma depth_cycles cs : forall d k, Forall amo cs -> (forall q, nth q d 0 <= k) ->
  forall q, nth q (fold_left depth_step (iter_ops cs) d) 0 <= k + length cs.
Proof. induction cs as [|cy t IH]; intros d k A H q; simpl.
  - rewrite Nat.add_0_r. apply H.
  - inversion A as [|? ? Ac At]; subst. unfold iter_ops in *. simpl. rewrite fold_left_app.
    rewrite Nat.add_succ_r. apply (IH _ (S k)); auto.
    apply depth_cycle; [apply amo_fwd_cycle; exact Ac|intros q'; specialize (H q'); lia|intros q' _ _ _; apply H]. Qed.

(* the critical path is at most the number of cycles *)
Theorem depth_le_cycles c : amo_all c -> depth c <= ncyc c.
Proof. intros A. unfold depth, ncyc. apply maxl_le_nth. intros q.
  apply (depth_cycles (cycles c) (repeat 0 (nq c)) 0 A). intros q'.
  clear. revert q'. induction (nq c) as [|n IH]; intros [|q']; simpl; auto. Qed.

(* ---- front / rear against first_on / last_on ------------------------------------------------- *)
(* an operation has no predecessor iff it is the first operation on every one of its qudits *)
Theorem no_prev_first_on c i o : amo_all c -> wf_locs c -> In o (cycle_at c i) ->
  (prevs c (pt_of i o) = [] <-> forall q, In q (o_loc o) -> first_on c q = Some (pt_of i o)).
Proof. intros A W Ho. rewrite prevs_nil by auto. split; intros H q Hq.
  - apply first_on_some. exists i, o. split; [apply get_cell_amo; auto|]. split; auto.
    apply prev_on_none. apply H. exact Hq.
  - apply prev_on_none. specialize (H q Hq). apply first_on_some in H as (j & o' & G & E & N).
    inversion E; subst j. exact N. Qed.

Theorem no_next_last_on c i o : amo_all c -> wf_locs c -> In o (cycle_at c i) ->
  (nexts c (pt_of i o) = [] <-> forall q, In q (o_loc o) -> last_on c q = Some (pt_of i o)).
Proof. intros A W Ho. rewrite nexts_nil by auto. split; intros H q Hq.
  - apply last_on_some. exists i, o. split; [apply get_cell_amo; auto|]. split; auto.
    apply next_on_none. apply H. exact Hq.
  - apply next_on_none. specialize (H q Hq). apply last_on_some in H as (j & o' & G & E & N).
    inversion E; subst j. exact N. Qed.

(* ================================================================================== *)
(* E. the hypotheses are satisfiable: a 3-qudit circuit with 5 operations in 3 cycles    *)
(* ================================================================================== *)
Example views_nonvacuous :
  let h0 := Op false 1 [0] [] [2] [] in
  let cx21 := Op false 4 [2;1] [] [2;2] [] in
  let cx01 := Op false 4 [0;1] [] [2;2] [] in
  let x2 := Op false 2 [2] [] [2] [] in
  let cx10 := Op false 4 [1;0] [] [2;2] [] in
  let c := mkC 3 [2;2;2] [[cx21; h0]; [cx01]; [x2; cx10]] in
  Inv c /\ wf_locs c /\ locs_in_range c
  /\ front c = [(0,0); (0,2)] /\ rear c = [(2,1); (2,2)]
  /\ nexts c (0,2) = [(1,0); (2,2)] /\ prevs c (1,0) = [(0,0); (0,2)] /\ prevs c (2,2) = [(0,2)]
  /\ first_on c 1 = Some (0,2) /\ last_on c 1 = Some (2,1)
  /\ dag_iter c = [(0, Some h0); (0, Some cx21); (1, Some cx01); (2, Some cx10); (2, Some x2)]
  /\ num_operations c = 5 /\ depth c = 3 /\ active_qudits c = [0;1;2]
  /\ graph_info c = [((1,2), 1); ((0,1), 2)] /\ map snd (gate_counts c) = [1; 3; 1].
Proof. cbv zeta. split; [|split; [|split]].
  - unfold Inv. cbn [cycles]. repeat (apply Forall_cons; [split; [discriminate|intros [|[|[|q]]]; simpl; lia]|]).
    apply Forall_nil.
  - repeat constructor; discriminate.
  - unfold locs_in_range. cbn [cycles nq o_loc]. repeat (constructor; try lia).
  - vm_compute. repeat split; reflexivity. Qed.

(* ---- composition with the history theorem (CThm2.v) ------------------------------------------------ *)
From BQ Require Import circuit.CThm2.

Lemma in_range_locs c : in_range c <-> locs_in_range c.
Proof. unfold in_range, all_qudits, locs_in_range. split.
  - intros H. apply Forall_forall. intros cy Hcy. apply Forall_forall. intros o Ho. apply Forall_forall. intros a Ha.
    apply (H cy o a); auto.
  - intros H cy o a Hcy Ho Ha. rewrite Forall_forall in H. specialize (H cy Hcy). rewrite Forall_forall in H.
    specialize (H o Ho). rewrite Forall_forall in H. apply H. exact Ha. Qed.

(* after every history of the modelled calls (any arguments; unfold_all aside) from the empty circuit,
   the DAG iterator yields exactly the grid iteration - provided no operation has an empty location *)
Theorem history_dag_iter ks n rs :
  Forall no_unfold_all ks ->
  let c := fold_left do_callF ks (mkC n rs []) in
  wf_locs c -> dag_iter c = map (fun p => (fst p, Some (snd p))) (ops_with_cycles c).
Proof. intros Hk c Hw. destruct (history_inv_range_empty ks n rs Hk) as [HI Hr].
  apply dag_iter_sorted; auto. apply in_range_locs. exact Hr. Qed.
