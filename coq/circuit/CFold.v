(* Executable model of Circuit.fold(region) (bqskit/ir/circuit.py) on the cycle
   grid of CModel.v: check_region, get_region / downsize_region, straighten
   (with the shadow bookkeeping), then batch_pop + insert_circuit(as_gate=True).

   A region (CircuitRegion, a dict qudit -> CycleInterval) is the list of its
   items in insertion order: (qudit, (lower, upper)), bounds inclusive.

   The grid may hold idle cycles ([]): straighten inserts idle cycles, moves
   operations into them and pops those that stayed idle; a cycle that an
   operation was moved OUT of is not looked at again (defect D6).

   Python sets (shadow_qudits, the frontier of check_region, ops_and_cycles)
   are lists here; nothing computed depends on their iteration order: the walk
   of check_region is a reachability question, the operations moved in one
   round of straighten are pairwise disjoint, and the sets of (cycle, op) pairs
   are only counted.  No proofs in this file. *)
From Coq Require Import List Arith Bool PeanoNat ZArith.
Import ListNotations.
From BQ Require Import circuit.CModel.
Open Scope nat_scope.

(* ---- regions ------------------------------------------------------------------ *)
Definition interval := (nat * nat)%type.
Definition region := list (nat * interval).
Definition point := (nat * nat)%type.           (* (cycle, qudit) *)

Definition pt_eqb (a b : point) : bool := Nat.eqb (fst a) (fst b) && Nat.eqb (snd a) (snd b).
Definition mem_pt (p : point) (l : list point) : bool := existsb (pt_eqb p) l.
Definition dedup_pt (l : list point) : list point :=
  fold_right (fun p acc => if mem_pt p acc then acc else p :: acc) [] l.

Definition minl (l : list nat) : nat :=
  match l with [] => 0 | x :: t => fold_right Nat.min x t end.
Fixpoint ins_nat (x : nat) (l : list nat) : list nat :=
  match l with [] => [x] | y :: t => if Nat.leb x y then x :: l else y :: ins_nat x t end.
Definition sort_nat (l : list nat) : list nat := fold_right ins_nat [] l.

Fixpoint r_get (r : region) (q : nat) : option interval :=
  match r with
  | [] => None
  | (q', iv) :: t => if Nat.eqb q q' then Some iv else r_get t q
  end.
Definition r_has (r : region) (q : nat) : bool := match r_get r q with Some _ => true | None => false end.
Definition r_keys (r : region) : list nat := map fst r.
(* dict assignment: an existing key keeps its position *)
Fixpoint r_set (r : region) (q : nat) (iv : interval) : region :=
  match r with
  | [] => [(q, iv)]
  | (q', iv') :: t => if Nat.eqb q q' then (q', iv) :: t else (q', iv') :: r_set t q iv
  end.
(* {q: iv for q, iv in items} *)
Definition mk_region (items : list (nat * interval)) : region :=
  fold_left (fun r p => r_set r (fst p) (snd p)) items [].

(* CycleInterval(lower, upper) raises ValueError when lower > upper *)
Definition intervals_ok (r : region) : bool := forallb (fun p => Nat.leb (fst (snd p)) (snd (snd p))) r.

Definition r_min_cycle (r : region) : nat := minl (map (fun p => fst (snd p)) r).
Definition r_max_cycle (r : region) : nat := maxl (map (fun p => snd (snd p)) r).
Definition r_max_min_cycle (r : region) : nat := maxl (map (fun p => fst (snd p)) r).
Definition r_min_qudit (r : region) : nat := minl (r_keys r).
Definition r_max_qudit (r : region) : nat := maxl (r_keys r).

(* region.points: for qudit, interval in items: for cycle in interval.indices *)
Definition r_points (r : region) : list point :=
  flat_map (fun p => map (fun cy => (cy, fst p)) (seq (fst (snd p)) (S (snd (snd p)) - fst (snd p)))) r.

(* region.overlaps((cycle, qudit)) = qudit in region and cycle in region[qudit] *)
Definition in_region (r : region) (cy q : nat) : bool :=
  match r_get r q with
  | Some (lo, hi) => Nat.leb lo cy && Nat.leb cy hi
  | None => false
  end.

Definition shift_right (r : region) (k : nat) : region :=
  map (fun p => (fst p, (fst (snd p) + k, snd (snd p) + k))) r.
(* ValueError when the region would go below cycle 0 *)
Definition shift_left (r : region) (k : nat) : option region :=
  match r with
  | [] => Some []
  | _ => if Nat.ltb (r_min_cycle r) k then None
         else Some (map (fun p => (fst p, (fst (snd p) - k, snd (snd p) - k))) r)
  end.

(* ---- CircuitGridIterator(qudits_or_region=region, exclude=True) ------------------ *)
(* one cycle: the qudit pointer runs from min_qudit to max_qudit; a qudit is passed
   over when it is in qudits_to_skip, is not a key of the region, or the cycle is
   outside its interval; the operation found is yielded when all of its qudits
   are in the region at this cycle; its location is skipped in any case *)
Fixpoint grid_row (c : circuit) (r : region) (cy : nat) (qs skip : list nat) : list (nat * op) :=
  match qs with
  | [] => []
  | q :: t =>
    if memn q skip || negb (in_region r cy q) then grid_row c r cy t skip
    else match get_cell c cy q with
         | None => grid_row c r cy t (q :: skip)
         | Some o =>
           let rest := grid_row c r cy t (o_loc o ++ skip) in
           if forallb (in_region r cy) (o_loc o) then (cy, o) :: rest else rest
         end
  end.

Definition region_ops (c : circuit) (r : region) : list (nat * op) :=
  flat_map (fun cy => grid_row c r cy (seq (r_min_qudit r) (S (r_max_qudit r) - r_min_qudit r)) [])
           (seq (r_min_cycle r) (S (r_max_cycle r) - r_min_cycle r)).

(* ---- Circuit.next(point): the dependency view derived from the grid ----------------- *)
Fixpoint next_on (cs : list cycle) (q : nat) (i : nat) : option point :=
  match cs with
  | [] => None
  | cy :: t => match cell cy q with
               | Some o => Some (i, hd0 (o_loc o))
               | None => next_on t q (S i)
               end
  end.
Definition next_pts (c : circuit) (pt : point) : list point :=
  match get_cell c (fst pt) (snd pt) with
  | None => []
  | Some o =>
    dedup_pt (flat_map (fun q => match next_on (skipn (S (fst pt)) (cycles c)) q (S (fst pt)) with
                                 | Some p => [p] | None => [] end) (o_loc o))
  end.

(* ---- check_region (strict = False) ------------------------------------------------------ *)
Inductive cr := CrOk | CrBad | CrFuel.

(* while frontier: ...   Some (true, known) = the walk ended; Some (false, _) =
   'Disconnect detected in region'; None = out of fuel *)
Fixpoint walk (fuel : nat) (c : circuit) (points : list point) (maxc : nat)
         (frontier known : list point) : option (bool * list point) :=
  match fuel with
  | 0 => None
  | S f =>
    match frontier with
    | [] => Some (true, known)
    | pt2 :: fr =>
      if mem_pt pt2 points then walk f c points maxc fr known
      else if Nat.leb maxc (fst pt2) then walk f c points maxc fr known
      else if mem_pt pt2 known then walk f c points maxc fr known
      else
        let ex := next_pts c pt2 in
        if existsb (fun p => mem_pt p points) ex then Some (false, known)
        else walk f c points maxc (ex ++ fr) (pt2 :: known)
    end
  end.

(* every pop consumes one unit; a point is expanded at most once per walk *)
Definition walk_fuel (c : circuit) : nat := 2 + nq c * S (ncyc c * nq c).

Fixpoint walk_all (c : circuit) (points : list point) (maxc : nat) (todo known : list point) : cr :=
  match todo with
  | [] => CrOk
  | pt :: t =>
    if Nat.eqb (fst pt) maxc then walk_all c points maxc t known
    else match walk (walk_fuel c) c points maxc (next_pts c pt) known with
         | None => CrFuel
         | Some (false, _) => CrBad
         | Some (true, known') => walk_all c points maxc t known'
         end
  end.

(* sorted(points, key=cycle, reverse=True); stable *)
Fixpoint ins_pt_desc (p : point) (l : list point) : list point :=
  match l with
  | [] => [p]
  | y :: t => if Nat.leb (fst y) (fst p) then p :: l else y :: ins_pt_desc p t
  end.
Definition sort_pts_desc (l : list point) : list point := fold_right ins_pt_desc [] l.

(* the argument is a CircuitRegion already (distinct keys, lower <= upper) *)
Definition check_region_r (c : circuit) (r : region) : cr :=
  match r with
  | [] => CrBad                                             (* max() of an empty location *)
  | _ =>
    if negb (forallb (fun q => Nat.ltb q (nq c)) (r_keys r)) then CrBad
    else if Nat.leb (ncyc c) (r_max_cycle r) then CrBad
    else
      let points := map (fun co => (fst co, hd0 (o_loc (snd co)))) (region_ops c r) in
      walk_all c points (r_max_cycle r) (sort_pts_desc points) []
  end.

Definition check_region (c : circuit) (items : region) : bool :=
  let r := mk_region items in
  intervals_ok r && match check_region_r c r with CrOk => true | _ => false end.

(* ---- get_region / downsize_region ------------------------------------------------------------ *)
Inductive rr := RrOk (r : region) | RrErr (e : err).

(* region[q] = (min(lower, cycle), max(upper, cycle)), starting from (num_cycles, -1) *)
Definition r_widen (r : region) (q cy : nat) : region :=
  match r_get r q with
  | None => r ++ [(q, (cy, cy))]
  | Some (lo, hi) => r_set r q (Nat.min lo cy, Nat.max hi cy)
  end.

Definition get_region (c : circuit) (pts : list point) : rr :=
  match pts with
  | [] => RrOk []
  | _ =>
    let ops_and_cycles :=
      dedup_pt (flat_map (fun p => match get_cell c (fst p) (snd p) with
                                   | Some o => [(fst p, hd0 (o_loc o))] | None => [] end) pts) in
    let r := fold_left (fun r p => match get_cell c (fst p) (snd p) with
                                   | Some o => fold_left (fun r q => r_widen r q (fst p)) (o_loc o) r
                                   | None => r end) pts [] in
    let ops_in_region :=
      dedup_pt (flat_map (fun e => flat_map (fun i => match get_cell c i (fst e) with
                                                      | Some o => [(i, hd0 (o_loc o))] | None => [] end)
                                            (seq (fst (snd e)) (S (snd (snd e)) - fst (snd e)))) r) in
    if negb (Nat.eqb (length ops_and_cycles) (length ops_in_region)) then RrErr ValueError
    else match check_region_r c r with
         | CrBad => RrErr ValueError
         | CrFuel => RrErr InternalError
         | CrOk => RrOk r
         end
  end.

Definition downsize_region (c : circuit) (r : region) : rr := get_region c (r_points r).

(* ---- cycles -------------------------------------------------------------------------------------- *)
Definition insert_cycle (c : circuit) (i : nat) : circuit :=
  mkC (nq c) (rads c) (insert_at i [] (cycles c)).

Definition pop_cycle (c : circuit) (i : nat) : res :=
  if negb (Nat.ltb i (ncyc c)) then (c, Err IndexError)
  else match cycle_at c i with
       | [] => (mkC (nq c) (rads c) (remove_at i (cycles c)), OkU)
       | ops => match seq_ops (fun c o => pop c (Some (Z.of_nat i, Z.of_nat (hd0 (o_loc o))))) c (fwd_cycle ops) with
                | (c', Err e) => (c', Err e)
                | (c', _) => (c', OkU)
                end
       end.

(* the cells of the operation go from cycle `old` to cycle `new`; the cycle it
   leaves stays in the grid even if it is idle now *)
Definition move_op (c : circuit) (old new : nat) (o : op) : circuit :=
  let cs1 := update_at old (filter (fun x => negb (touches (hd0 (o_loc o)) x))) (cycles c) in
  mkC (nq c) (rads c) (update_at new (fun cy => cy ++ [o]) cs1).

(* ---- straighten -------------------------------------------------------------------------------------- *)
Inductive sres := SOk (r : region) (net_new_cycles : nat) (shadow : region) | SErr (e : err).

Definition sm_get (m : list (nat * Z)) (q : nat) : option Z :=
  match find (fun p => Nat.eqb (fst p) q) m with Some p => Some (snd p) | None => None end.

(* for qudit_index in shadow_qudits: ... ; state = (circuit, gate_moved, qudits_to_add_to_shadow) *)
Definition straighten_round (c : circuit) (r : region) (shadow_qudits : list nat) (old new : nat)
  : circuit * bool * list nat :=
  fold_left (fun st q =>
               let '(c, moved, toadd) := st in
               let cond := match r_get r q with
                           | None => true
                           | Some (lo, _) => Nat.ltb old lo
                           end in
               if cond then
                 match get_cell c old q with
                 | Some o => (move_op c old new o, true, toadd ++ o_loc o)
                 | None => st
                 end
               else st)
            shadow_qudits (c, false, []).

Record sstate := mkS { s_c : circuit; s_sq : list nat; s_map : list (nat * Z); s_idle : list nat }.

Definition add_new (l extra : list nat) : list nat :=
  fold_left (fun acc q => if memn q acc then acc else acc ++ [q]) extra l.

Definition straighten_step (r : region) (st : sstate) (i : nat) : sstate :=
  let old := r_max_min_cycle r - 1 - i in
  let new := r_min_cycle r - 1 - i in
  let '(c', moved, toadd) := straighten_round (s_c st) r (s_sq st) old new in
  let sq := add_new (s_sq st) toadd in
  let m := fold_left (fun m q => match sm_get m q with
                                 | Some _ => m
                                 | None => m ++ [(q, Z.of_nat new)] end) sq (s_map st) in
  mkS c' sq m (if moved then s_idle st else s_idle st ++ [new]).

Definition straighten_r (c : circuit) (r0 : region) : circuit * sres :=
  match r0 with
  | [] => (c, SOk [] 0 [])
  | _ =>
    match check_region_r c r0 with
    | CrBad => (c, SErr ValueError)
    | CrFuel => (c, SErr InternalError)
    | CrOk =>
      match downsize_region c r0 with
      | RrErr e => (c, SErr e)
      | RrOk [] => (c, SErr ValueError)                      (* region.max_min_cycle of an empty region *)
      | RrOk r1 =>
        let shadow_length := r_max_min_cycle r1 - r_min_cycle r1 in
        let shadow_start := r_min_cycle r1 in
        let c1 := fold_left (fun c _ => insert_cycle c shadow_start) (seq 0 shadow_length) c in
        let r2 := shift_right r1 shadow_length in
        let smap := map (fun p => (fst p, Z.min (Z.of_nat (r_min_cycle r2) - 1)
                                                (Z.of_nat (snd (snd p)) - Z.of_nat shadow_length))%Z) r2 in
        let st := fold_left (straighten_step r2) (seq 0 shadow_length) (mkS c1 (r_keys r2) smap []) in
        let idle := sort_nat (s_idle st) in
        match seq_ops (fun c p => pop_cycle c (snd p - fst p)) (s_c st) (combine (seq 0 (length idle)) idle) with
        | (c2, Err e) => (c2, SErr e)
        | (c2, _) =>
          match shift_left r2 (length idle) with
          | None => (c2, SErr ValueError)
          | Some r3 =>
            let r4 := map (fun p => (fst p, (r_min_cycle r3, snd (snd p)))) r3 in
            if negb (intervals_ok r4) then (c2, SErr ValueError)
            else
              let shadow :=
                flat_map (fun q => match sm_get (s_map st) q with
                                   | Some z => if Z.leb (Z.of_nat shadow_start) z
                                               then [(q, (shadow_start, Z.to_nat z))] else []
                                   | None => [] end) (s_sq st) in
              (c2, SOk r4 (shadow_length - length idle) shadow)
          end
        end
      end
    end
  end.

Definition straighten (c : circuit) (items : region) : circuit * sres :=
  let r := mk_region items in
  if negb (intervals_ok r) then (c, SErr ValueError) else straighten_r c r.

(* ---- fold ------------------------------------------------------------------------------------------------ *)
Definition fold (c : circuit) (items : region) : res :=
  let r := mk_region items in
  if negb (intervals_ok r) then (c, Err ValueError)            (* CircuitRegion(...) *)
  else match r with
  | [] => (c, Err ValueError)
  | _ =>
    match straighten_r c r with
    | (c1, SErr e) => (c1, Err e)
    | (c1, SOk r1 _ _) =>
      match batch_pop c1 (map (fun p => (Z.of_nat (fst p), Z.of_nat (snd p))) (r_points r1)) with
      | (c2, OkC sub) =>
        match insert_circuit c2 (Z.of_nat (r_min_cycle r1)) sub (sort_nat (r_keys r1)) true with
        | (c3, Err e) => (c3, Err e)
        | (c3, _) => (c3, OkN (Z.of_nat (r_min_cycle r1)))
        end
      | (c2, Err e) => (c2, Err e)
      | (c2, _) => (c2, Err InternalError)
      end
    end
  end.

(* ---- the repaired straighten (fixes/D6.patch), selected by `fx` --------------------------------------------- *)
(* With fx = true the old cycles of the window [min_cycle, max_min_cycle) that the moves emptied are popped
   together with the new cycles nothing moved into, the upper bounds of the region are lowered by the number
   of popped cycles below them, and net_new_cycles counts them.  With fx = false this is `straighten_r`. *)
Definition straighten_rx (fx : bool) (c : circuit) (r0 : region) : circuit * sres :=
  match r0 with
  | [] => (c, SOk [] 0 [])
  | _ =>
    match check_region_r c r0 with
    | CrBad => (c, SErr ValueError)
    | CrFuel => (c, SErr InternalError)
    | CrOk =>
      match downsize_region c r0 with
      | RrErr e => (c, SErr e)
      | RrOk [] => (c, SErr ValueError)
      | RrOk r1 =>
        let shadow_length := r_max_min_cycle r1 - r_min_cycle r1 in
        let shadow_start := r_min_cycle r1 in
        let c1 := fold_left (fun c _ => insert_cycle c shadow_start) (seq 0 shadow_length) c in
        let r2 := shift_right r1 shadow_length in
        let smap := map (fun p => (fst p, Z.min (Z.of_nat (r_min_cycle r2) - 1)
                                                (Z.of_nat (snd (snd p)) - Z.of_nat shadow_length))%Z) r2 in
        let st := fold_left (straighten_step r2) (seq 0 shadow_length) (mkS c1 (r_keys r2) smap []) in
        let idle := sort_nat (s_idle st) in
        let vacated := filter (fun i => match cycle_at (s_c st) i with [] => true | _ => false end)
                              (seq (r_min_cycle r2) (r_max_min_cycle r2 - r_min_cycle r2)) in
        let topop := if fx then idle ++ vacated else idle in
        match seq_ops (fun c p => pop_cycle c (snd p - fst p)) (s_c st) (combine (seq 0 (length topop)) topop) with
        | (c2, Err e) => (c2, SErr e)
        | (c2, _) =>
          match shift_left r2 (length idle) with
          | None => (c2, SErr ValueError)
          | Some r3 =>
            let vac := map (fun i => i - length idle) vacated in
            let r4 := if fx
                      then map (fun p => (fst p, (r_min_cycle r3,
                                                  snd (snd p) - length (filter (fun i => Nat.ltb i (snd (snd p))) vac)))) r3
                      else map (fun p => (fst p, (r_min_cycle r3, snd (snd p)))) r3 in
            if negb (intervals_ok r4) then (c2, SErr ValueError)
            else
              let shadow :=
                flat_map (fun q => match sm_get (s_map st) q with
                                   | Some z => if Z.leb (Z.of_nat shadow_start) z
                                               then [(q, (shadow_start, Z.to_nat z))] else []
                                   | None => [] end) (s_sq st) in
              (c2, SOk r4 (if fx then shadow_length - length idle - length vacated else shadow_length - length idle) shadow)
          end
        end
      end
    end
  end.

Definition straighten_x (fx : bool) (c : circuit) (items : region) : circuit * sres :=
  let r := mk_region items in
  if negb (intervals_ok r) then (c, SErr ValueError) else straighten_rx fx c r.

Definition fold_x (fx : bool) (c : circuit) (items : region) : res :=
  let r := mk_region items in
  if negb (intervals_ok r) then (c, Err ValueError)
  else match r with
  | [] => (c, Err ValueError)
  | _ =>
    match straighten_rx fx c r with
    | (c1, SErr e) => (c1, Err e)
    | (c1, SOk r1 _ _) =>
      match batch_pop c1 (map (fun p => (Z.of_nat (fst p), Z.of_nat (snd p))) (r_points r1)) with
      | (c2, OkC sub) =>
        match insert_circuit c2 (Z.of_nat (r_min_cycle r1)) sub (sort_nat (r_keys r1)) true with
        | (c3, Err e) => (c3, Err e)
        | (c3, _) => (c3, OkN (Z.of_nat (r_min_cycle r1)))
        end
      | (c2, Err e) => (c2, Err e)
      | (c2, _) => (c2, Err InternalError)
      end
    end
  end.
