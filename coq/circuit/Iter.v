(* C06 - restricted iteration: model of bqskit/ir/iterator.py CircuitGridIterator
   (__init__, increment_iter, decrement_iter, step, __next__), statement by statement.  Definitions only;
   proofs in circuit/IterThm.v.

   Cycle and qudit numbers are Z (the code's pointer leaves the grid: cycle = -1 in reverse, max_cycle + 1
   forward; start / end are arbitrary integer pairs).  The circuit is the function `cell` :
   cell cy q = None            the access _circuit[cy][q] raises IndexError
             = Some None        the grid point is empty
             = Some (Some op)   the operation stored there
   (`grid_cell` builds it from a list of rows with Python's negative-index wrap-around).
   The two while loops (increment/decrement_iter and `while True` of __next__) are ONE machine `run`; every
   iteration of either loop consumes one unit of fuel; the whole sequence of yields is returned
   (list(CircuitGridIterator(...))).  An element is (cycle, qudit pointer, operation): the code returns
   (cycle, op) - the pointer self.qudit at the time of the return is observable on the real iterator. *)
From Coq Require Import ZArith List Bool.
Import ListNotations.
Open Scope Z_scope.

Inductive ierr := E_Value | E_Index | E_Fuel.
Inductive res (T : Type) := Ok (x : T) | Err (e : ierr).
Arguments Ok {T}. Arguments Err {T}.

Definition point := (Z * Z)%type.
(* tuple comparison of CircuitPoint (a tuple subclass) *)
Definition plt (a b : point) : bool := (fst a <? fst b) || ((fst a =? fst b) && (snd a <? snd b)).
Definition memZ (x : Z) (l : list Z) : bool := existsb (Z.eqb x) l.
Definition interval := (Z * Z)%type.
Definition region := list (Z * interval).       (* CircuitRegion._intervals : dict qudit -> (lower, upper), in dict order *)
Fixpoint lookup (q : Z) (r : region) : option interval :=
  match r with [] => None | (k, v) :: t => if k =? q then Some v else lookup q t end.
Definition in_iv (cy : Z) (iv : interval) : bool := (fst iv <=? cy) && (cy <=? snd iv).    (* CycleInterval.__contains__ *)
Definition zrange (n : Z) : list Z := map Z.of_nat (seq 0 (Z.to_nat n)).

Record cfg := mkcfg {
  c_start : point; c_end : point; c_region : region; c_exclude : bool; c_reverse : bool;
  c_minq : Z; c_maxq : Z; c_minc : Z; c_maxc : Z }.
Definition qudits (c : cfg) : list Z := map fst (c_region c).      (* self.qudits: same members as the region's keys in all 3 modes *)

(* CircuitRegion.overlaps((cycle, qudit)) *)
Definition overlaps (c : cfg) (cy x : Z) : bool :=
  match lookup x (c_region c) with Some iv => in_iv cy iv | None => false end.

(* ---- __init__ ---- *)
Inductive qor := QNone | QRegion (r : region) | QQudits (l : list Z).

Definition it_init (nq nc : Z) (start : point) (end_ : option point) (qr : qor) (exclude reverse : bool) : res (cfg * point) :=
  let end0 := match end_ with Some e => e | None => (nc - 1, nq - 1) end in
  let full := map (fun q => (q, (0, Z.max (nc - 1) 0))) in
  let rr := match qr with
            | QNone => Ok (full (zrange nq))
            | QRegion r => Ok r
            | QQudits l => if forallb (fun q => (0 <=? q) && (q <? nq)) l then Ok (full l) else Err E_Value
            end in
  match rr with
  | Err e => Err e
  | Ok r =>
    match r with
    | [] => Err E_Value                                    (* max() of an empty sequence *)
    | (q0, (lo0, hi0)) :: t =>
      let maxq := fold_left Z.max (map fst t) q0 in
      let minq := fold_left Z.min (map fst t) q0 in
      let minc := fold_left Z.min (map (fun e => fst (snd e)) t) lo0 in
      let maxc := fold_left Z.max (map (fun e => snd (snd e)) t) hi0 in
      let start1 := if plt start (minc, minq) then (minc, minq) else start in
      let end1 := if plt (maxc, maxq) end0 then (maxc, maxq) else end0 in
      Ok (mkcfg start1 end1 r exclude reverse minq maxq minc maxc, if reverse then end1 else start1)
    end
  end.

Section Machine.
Variable A : Type.
Variable loc : A -> list Z.
Variable cell : Z -> Z -> option (option A).

(* the while condition of increment_iter / decrement_iter (`or` evaluates region[qudit] only for a qudit in self.qudits) *)
Definition cond (c : cfg) (cy q : Z) (skip : list Z) : bool :=
  memZ q skip || negb (memZ q (qudits c)) ||
  (match lookup q (c_region c) with Some iv => negb (in_iv cy iv) | None => true end
   && (if c_reverse c then c_minc c <=? cy else cy <=? c_maxc c)).

(* the body of that loop *)
Definition move (c : cfg) (cy q : Z) (skip : list Z) : Z * Z * list Z :=
  if c_reverse c then
    let q' := q - 1 in if q' <? c_minq c then (cy - 1, c_maxq c, []) else (cy, q', skip)
  else
    let q' := q + 1 in if c_maxq c <? q' then (cy + 1, c_minq c, []) else (cy, q', skip).

Fixpoint run (fuel : nat) (c : cfg) (cy q : Z) (skip : list Z) : res (list (Z * Z * A)) :=
  match fuel with
  | O => Err E_Fuel
  | S f =>
    if cond c cy q skip then
      match move c cy q skip with (cy', q', skip') => run f c cy' q' skip' end
    else if plt (cy, q) (c_start c) || plt (c_end c) (cy, q) then Ok []              (* step: StopIteration *)
    else match cell cy q with
      | None => Err E_Index
      | Some None => run f c cy q (q :: skip)                                         (* qudits_to_skip.add(self.qudit) *)
      | Some (Some op) =>
        let skip' := loc op ++ skip in                                                (* qudits_to_skip.update(op.location) *)
        if c_exclude c && negb (forallb (fun x => memZ x (qudits c)) (loc op)) then run f c cy q skip'
        else if c_exclude c && negb (forallb (fun x => overlaps c cy x) (loc op)) then run f c cy q skip'
        else match run f c cy q skip' with Ok l => Ok ((cy, q, op) :: l) | Err e => Err e end
      end
  end.

(* enough fuel for the initial pointer (proved sufficient in IterThm.v) *)
Definition fuel_for (c : cfg) (cy q : Z) : nat :=
  let w := c_maxq c - c_minq c + 2 in
  let rows := if c_reverse c then cy - c_minc c + 2 else c_maxc c - cy + 2 in
  let cols := if c_reverse c then q - c_minq c else c_maxq c - q in
  Z.to_nat (2 * (Z.max 0 rows * w + Z.max 0 cols + w) + 4).

Definition iterate (nq nc : Z) (start : point) (end_ : option point) (qr : qor) (exclude reverse : bool) : res (list (Z * Z * A)) :=
  match it_init nq nc start end_ qr exclude reverse with
  | Err e => Err e
  | Ok (c, p) => run (fuel_for c (fst p) (snd p)) c (fst p) (snd p) []
  end.

(* ---- specification vocabulary ---- *)
(* the requested area: grid points between start and end (tuple order) on a requested qudit, inside that qudit's interval *)
Definition in_area (c : cfg) (cy q : Z) : bool :=
  negb (plt (cy, q) (c_start c)) && negb (plt (c_end c) (cy, q)) && memZ q (qudits c) && overlaps c cy q.
(* an operation entirely inside the requested qudits / intervals (the `exclude` filter; start / end are not consulted) *)
Definition inside (c : cfg) (cy : Z) (op : A) : bool :=
  forallb (fun x => memZ x (qudits c)) (loc op) && forallb (fun x => overlaps c cy x) (loc op).
(* scan order *)
Definition before (c : cfg) (a b : point) : bool := if c_reverse c then plt b a else plt a b.
End Machine.

(* Python list indexing with negative wrap-around; None = IndexError *)
Definition py_nth {T} (l : list T) (i : Z) : option T :=
  let n := Z.of_nat (length l) in
  if i <? 0 then (if n + i <? 0 then None else nth_error l (Z.to_nat (n + i))) else nth_error l (Z.to_nat i).
Definition grid_cell {A} (g : list (list (option A))) (cy q : Z) : option (option A) :=
  match py_nth g cy with None => None | Some row => py_nth row q end.

(* execution instance: an operation is (identifier, location) *)
Definition xop := (Z * list Z)%type.
Definition x_iterate (g : list (list (option xop))) (nq : Z) (start : point) (end_ : option point) (qr : qor) (exclude reverse : bool) :=
  iterate xop snd (grid_cell g) nq (Z.of_nat (length g)) start end_ qr exclude reverse.
