(* Executable model of bqskit/ir/circuit.py at the level of the cycle grid.

   A circuit is {nq; radixes; cycles} where a cycle is the list of operations it
   holds (pairwise disjoint locations).  This is the cell matrix `_circuit` of the
   implementation with the replication of a multi-qudit operation over its cells
   quotiented away: cell (c, q) holds the unique operation of cycle c whose
   location contains q.  The dependency views (_dag, _front, _rear, _gate_info,
   _graph_info) are NOT state of the model: they are functions of the grid
   (CViews.v), which is exactly what property C05 demands of the implementation;
   the harness compares the implementation's incrementally maintained views with
   these derived ones after every call.

   Every editor returns the new circuit together with an outcome; on an error the
   circuit returned is the (possibly partially updated) state the implementation
   is left in.  No proofs in this file. *)
From Coq Require Import List Arith Bool PeanoNat ZArith Lia.
Import ListNotations.
Open Scope nat_scope.

(* ---- operations ------------------------------------------------------------- *)
(* leaf: isblk = false, gate id g, sub = [].  block (CircuitGate): isblk = true,
   sub = cycles of the inner circuit, rad = inner radixes, params = concatenation
   of the inner parameters. *)
Inductive op : Type :=
  Op (isblk : bool) (g : nat) (loc : list nat) (ps : list Z) (rad : list nat) (sub : list (list op)).

Definition o_isblk (o : op) := let 'Op b _ _ _ _ _ := o in b.
Definition o_gate (o : op) := let 'Op _ g _ _ _ _ := o in g.
Definition o_loc (o : op) := let 'Op _ _ l _ _ _ := o in l.
Definition o_ps (o : op) := let 'Op _ _ _ p _ _ := o in p.
Definition o_rad (o : op) := let 'Op _ _ _ _ r _ := o in r.
Definition o_sub (o : op) := let 'Op _ _ _ _ _ s := o in s.
Definition set_loc (o : op) (l : list nat) := let 'Op b g _ p r s := o in Op b g l p r s.
Definition set_ps (o : op) (p : list Z) := let 'Op b g l _ r s := o in Op b g l p r s.

Definition cycle := list op.
Record circuit := mkC { nq : nat; rads : list nat; cycles : list cycle }.

Inductive err := IndexError | ValueError | TypeError | InternalError.
Inductive out := OkU | OkN (n : Z) | OkO (o : op) | OkC (c : circuit) | Err (e : err).

Definition res := (circuit * out)%type.

(* ---- small list helpers ------------------------------------------------------ *)
Fixpoint memn (x : nat) (l : list nat) : bool :=
  match l with [] => false | y :: t => Nat.eqb x y || memn x t end.
Definition disjointb (a b : list nat) : bool := forallb (fun x => negb (memn x b)) a.
Definition subsetb (a b : list nat) : bool := forallb (fun x => memn x b) a.
Definition seteqb (a b : list nat) : bool := subsetb a b && subsetb b a.
Fixpoint nodupn (l : list nat) : bool :=
  match l with [] => true | x :: t => negb (memn x t) && nodupn t end.
Fixpoint index_of (x : nat) (l : list nat) : nat :=
  match l with [] => 0 | y :: t => if Nat.eqb x y then 0 else S (index_of x t) end.
Definition maxl (l : list nat) : nat := fold_right Nat.max 0 l.
Definition hd0 (l : list nat) : nat := hd 0 l.

Fixpoint insert_at {A} (n : nat) (x : A) (l : list A) : list A :=
  match n, l with
  | 0, _ => x :: l
  | S k, [] => [x]
  | S k, y :: t => y :: insert_at k x t
  end.
Fixpoint remove_at {A} (n : nat) (l : list A) : list A :=
  match n, l with
  | _, [] => []
  | 0, _ :: t => t
  | S k, y :: t => y :: remove_at k t
  end.
Fixpoint update_at {A} (n : nat) (f : A -> A) (l : list A) : list A :=
  match n, l with
  | _, [] => []
  | 0, y :: t => f y :: t
  | S k, y :: t => y :: update_at k f t
  end.

(* insertion sort of a cycle's operations by a key *)
Fixpoint ins_by (key : op -> nat) (o : op) (l : list op) : list op :=
  match l with
  | [] => [o]
  | y :: t => if Nat.leb (key o) (key y) then o :: l else y :: ins_by key o t
  end.
Definition sort_by (key : op -> nat) (l : list op) : list op := fold_right (ins_by key) [] l.

(* ---- reading the grid ---------------------------------------------------------- *)
Definition ncyc (c : circuit) : nat := length (cycles c).
Definition touches (q : nat) (o : op) : bool := memn q (o_loc o).
Definition cell (cy : cycle) (q : nat) : option op := find (touches q) cy.
Definition cycle_at (c : circuit) (i : nat) : cycle := nth i (cycles c) [].
Definition get_cell (c : circuit) (i q : nat) : option op := cell (cycle_at c i) q.
Definition unoccupied (cy : cycle) (loc : list nat) : bool :=
  forallb (fun o => disjointb loc (o_loc o)) cy.

(* forward iteration (CircuitDagIterator): cycles ascending, inside a cycle by
   the point's qudit = location[0].  Reverse iteration (CircuitGridIterator with
   reverse=True): cycles descending, inside a cycle by the largest qudit of the
   location, descending. *)
Definition fwd_cycle (cy : cycle) : list op := sort_by (fun o => hd0 (o_loc o)) cy.
Definition rev_cycle (cy : cycle) : list op := rev (sort_by (fun o => maxl (o_loc o)) cy).
Definition iter_ops (cs : list cycle) : list op := flat_map fwd_cycle cs.
Definition riter_ops (cs : list cycle) : list op := flat_map rev_cycle (rev cs).

(* rear[q].cycle + 1 : one past the last cycle holding an operation on q *)
Fixpoint rear_after (cs : list cycle) (q : nat) (i : nat) : nat :=
  match cs with
  | [] => 0
  | cy :: t => let r := rear_after t q (S i) in
               if Nat.eqb r 0 then (if existsb (touches q) cy then S i else 0) else r
  end.
Definition find_available_cycle (c : circuit) (loc : list nat) : nat :=
  fold_right (fun q acc => Nat.max acc (rear_after (cycles c) q 0)) 0 loc.

(* ---- index normalisation --------------------------------------------------------- *)
Definition in_rangeZ (i : Z) (n : nat) : bool := (Z.ltb i (Z.of_nat n) && Z.leb (- Z.of_nat n) i)%Z.
Definition normZ (i : Z) (n : nat) : nat := if Z.ltb i 0 then Z.to_nat (Z.of_nat n + i) else Z.to_nat i.

(* ---- check_valid_operation --------------------------------------------------------- *)
Fixpoint radix_ok (rs : list nat) (loc : list nat) (cr : list nat) : bool :=
  match rs, loc with
  | r :: rs', q :: loc' => Nat.eqb r (nth q cr 0) && radix_ok rs' loc' cr
  | _, _ => true   (* zip stops at the shorter *)
  end.
Definition valid_op (c : circuit) (o : op) : bool :=
  forallb (fun q => Nat.ltb q (nq c)) (o_loc o) && radix_ok (o_rad o) (o_loc o) (rads c).

(* ---- append ------------------------------------------------------------------------ *)
Definition place (c : circuit) (i : nat) (o : op) : circuit :=
  mkC (nq c) (rads c) (update_at i (fun cy => cy ++ [o]) (cycles c)).

Definition append_raw (c : circuit) (o : op) : circuit * nat :=
  let i := find_available_cycle c (o_loc o) in
  if Nat.eqb i (ncyc c) then (mkC (nq c) (rads c) (cycles c ++ [[o]]), i)
  else (place c i o, i).

Definition append (c : circuit) (o : op) : res :=
  if negb (valid_op c o) then (c, Err ValueError)
  else let '(c', i) := append_raw c o in (c', OkN (Z.of_nat i)).

(* apply a state-and-error-threading step over a list, stopping at the first error *)
Fixpoint seq_ops {A} (f : circuit -> A -> res) (c : circuit) (l : list A) : res :=
  match l with
  | [] => (c, OkU)
  | x :: t => match f c x with
              | (c', Err e) => (c', Err e)
              | (c', _) => seq_ops f c' t
              end
  end.

Definition map_loc (location : list nat) (o : op) : op :=
  set_loc o (map (fun q => nth q location 0) (o_loc o)).

(* a sub-circuit argument: its width, radixes, cycles, and flat parameter vector *)
Definition params_of (cs : list cycle) : list Z := flat_map o_ps (iter_ops cs).
Definition block_of (sub : circuit) (location : list nat) : op :=
  Op true 0 location (params_of (cycles sub)) (rads sub) (cycles sub).

Definition extend (c : circuit) (ops : list op) : res := seq_ops append c ops.

Definition append_circuit (c : circuit) (sub : circuit) (location : list nat) (as_gate : bool) : res :=
  if negb (Nat.eqb (nq sub) (length location)) then (c, Err ValueError)
  else if as_gate then append c (block_of sub location)
  else match seq_ops append c (map (map_loc location) (iter_ops (cycles sub))) with
       | (c', Err e) => (c', Err e)
       | (c', _) => (c', OkN (-1))       (* the code's `cycle_index is None` test never fires *)
       end.

(* ---- insert ------------------------------------------------------------------------ *)
Definition insert (c : circuit) (ci : Z) (o : op) : res :=
  if negb (valid_op c o) then (c, Err ValueError)
  else if Nat.eqb (ncyc c) 0 then (fst (append_raw c o), OkU)
  else
    let n := ncyc c in
    if negb (in_rangeZ ci n) && negb (Z.ltb ci (- Z.of_nat n)) then (fst (append_raw c o), OkU)
    else
      let i := if in_rangeZ ci n then normZ ci n else 0 in
      if unoccupied (cycle_at c i) (o_loc o) then (place c i o, OkU)
      else (mkC (nq c) (rads c) (insert_at i [o] (cycles c)), OkU).

Definition insert_circuit (c : circuit) (ci : Z) (sub : circuit) (location : list nat) (as_gate : bool) : res :=
  if negb (Nat.eqb (nq sub) (length location)) then (c, Err ValueError)
  else if as_gate then insert c ci (block_of sub location)
  else if Z.leb (Z.of_nat (ncyc c)) ci then
    (* the index is resolved once: past the end means append, in order *)
    match append_circuit c sub location false with
    | (c', Err e) => (c', Err e)
    | (c', _) => (c', OkU)
    end
  else
    let i := if Z.ltb ci (- Z.of_nat (ncyc c)) then 0 else normZ ci (ncyc c) in
    seq_ops (fun c o => insert c (Z.of_nat i) o) c (map (map_loc location) (riter_ops (cycles sub))).

(* ---- pop ---------------------------------------------------------------------------- *)
Fixpoint op_eqb_fuel (fuel : nat) (a b : op) : bool :=
  match fuel with
  | 0 => false
  | S f =>
    let 'Op b1 g1 l1 p1 r1 s1 := a in
    let 'Op b2 g2 l2 p2 r2 s2 := b in
    Bool.eqb b1 b2 && Nat.eqb g1 g2
    && (fix le (x y : list nat) := match x, y with [], [] => true | u :: x', v :: y' => Nat.eqb u v && le x' y' | _, _ => false end) l1 l2
    && (fix ze (x y : list Z) := match x, y with [], [] => true | u :: x', v :: y' => Z.eqb u v && ze x' y' | _, _ => false end) p1 p2
    && (fix le (x y : list nat) := match x, y with [], [] => true | u :: x', v :: y' => Nat.eqb u v && le x' y' | _, _ => false end) r1 r2
    && (fix ce (x y : list (list op)) := match x, y with
          | [], [] => true
          | u :: x', v :: y' =>
            (fix oe (x y : list op) := match x, y with [], [] => true | u :: x', v :: y' => op_eqb_fuel f u v && oe x' y' | _, _ => false end) u v
            && ce x' y'
          | _, _ => false end) s1 s2
  end.

(* remove the operation touching q from cycle i; drop the cycle if it becomes idle *)
Definition remove_op (c : circuit) (i q : nat) : circuit :=
  let cy := filter (fun o => negb (touches q o)) (cycle_at c i) in
  match cy with
  | [] => mkC (nq c) (rads c) (remove_at i (cycles c))
  | _ => mkC (nq c) (rads c) (update_at i (fun _ => cy) (cycles c))
  end.

Definition point_in_range (c : circuit) (ci qi : Z) : bool :=
  in_rangeZ ci (ncyc c) && in_rangeZ qi (nq c).

Definition pop (c : circuit) (pt : option (Z * Z)) : res :=
  match pt with
  | None =>
    match ncyc c with
    | 0 => (c, Err IndexError)
    | S k =>
      (* last operation of the last cycle, scanning qudits from the highest *)
      match rev_cycle (cycle_at c k) with
      | [] => (c, Err IndexError)
      | o :: _ => (remove_op c k (hd0 (o_loc o)), OkO o)
      end
    end
  | Some (ci, qi) =>
    if negb (point_in_range c ci qi) then (c, Err IndexError)
    else
      let i := normZ ci (ncyc c) in let q := normZ qi (nq c) in
      match get_cell c i q with
      | None => (c, Err IndexError)
      | Some o => (remove_op c i q, OkO o)
      end
  end.

(* ---- batch_pop ----------------------------------------------------------------------- *)
Definition dedup_pts (pts : list (nat * nat)) : list (nat * nat) :=
  fold_right (fun p acc => if existsb (fun p' => Nat.eqb (fst p) (fst p') && Nat.eqb (snd p) (snd p')) acc then acc else p :: acc) [] pts.

Fixpoint ins_pt (p : nat * op) (l : list (nat * op)) : list (nat * op) :=
  match l with
  | [] => [p]
  | y :: t => if Nat.leb (fst p) (fst y) then p :: l else y :: ins_pt p t
  end.

Definition used_qudits (ops : list op) : list nat :=
  let all := flat_map o_loc ops in
  filter (fun q => memn q all) (seq 0 (S (maxl all))).

Definition batch_pop (c : circuit) (pts : list (Z * Z)) : res :=
  if negb (forallb (fun p => point_in_range c (fst p) (snd p)) pts) then (c, Err IndexError)
  else
    let npts := map (fun p => (normZ (fst p) (ncyc c), normZ (snd p) (nq c))) pts in
    (* (cycle, first qudit of the op) identifies an operation *)
    let ids := dedup_pts (flat_map (fun p => match get_cell c (fst p) (snd p) with
                                             | Some o => [(fst p, hd0 (o_loc o))] | None => [] end) npts) in
    match ids with
    | [] => (c, Err IndexError)
    | _ =>
      let cops := fold_right ins_pt [] (flat_map (fun p => match get_cell c (fst p) (snd p) with
                                             | Some o => [(fst p, o)] | None => [] end) ids) in
      (* pop from the highest cycle down *)
      let c' := fold_left (fun c p => remove_op c (fst p) (hd0 (o_loc (snd p)))) (rev cops) c in
      (* operations of one cycle are appended in an arbitrary (set) order by the
         code; they are disjoint, so the result does not depend on it: use the
         iteration order *)
      let ops := flat_map (fun i => fwd_cycle (map snd (filter (fun p => Nat.eqb (fst p) i) cops))) (seq 0 (ncyc c)) in
      let qs := used_qudits ops in
      let sub0 := mkC (length qs) (map (fun q => nth q (rads c) 0) qs) [] in
      let sub := fold_left (fun s o => fst (append_raw s (set_loc o (map (fun q => index_of q qs) (o_loc o))))) ops sub0 in
      (c', OkC sub)
    end.

(* ---- replace --------------------------------------------------------------------------- *)
Definition replace (c : circuit) (pt : Z * Z) (o : op) : res :=
  let '(ci, qi) := pt in
  if negb (valid_op c o) then (c, Err ValueError)
  else if negb (point_in_range c ci qi) then (c, Err IndexError)
  else
    let i := normZ ci (ncyc c) in let q := normZ qi (nq c) in
    match get_cell c i q with
    | None => (c, Err IndexError)
    | Some old =>
      if disjointb (o_loc old) (o_loc o) then (c, Err ValueError)
      else if seteqb (o_loc old) (o_loc o) then
        (* in place; no validity check on this path in the code *)
        (mkC (nq c) (rads c)
             (update_at i (map (fun x => if touches q x then o else x)) (cycles c)), OkU)
      else
        (* self.pop(point); self.insert(point[0], op) with the normalised index *)
        let c1 := remove_op c i q in
        (* the popped operation was alone in the last cycle: stay there *)
        let c2 := if Nat.eqb i (ncyc c1) then mkC (nq c1) (rads c1) (cycles c1 ++ [[]]) else c1 in
        match insert c2 (Z.of_nat i) o with
        | (c', Err e) => (c', Err e)
        | (c', _) => (c', OkU)
        end
    end.

(* sorted(zip(points, ops), key=cycle, reverse=True): descending by cycle, and
   Python's stable sort keeps the input order among equal keys *)
Fixpoint ins_rep (p : (nat * nat) * op) (l : list ((nat * nat) * op)) : list ((nat * nat) * op) :=
  match l with
  | [] => [p]
  | y :: t => if Nat.leb (fst (fst y)) (fst (fst p)) then p :: l else y :: ins_rep p t
  end.
Definition stable_sort_rep (l : list ((nat * nat) * op)) : list ((nat * nat) * op) :=
  fold_right ins_rep [] l.

(* One replacement after the other, from the last cycle to the first; when a
   replacement inserted a cycle in front of its own, the points still to be
   processed in that same cycle are pushed back with it. *)
Fixpoint batch_replace_loop (c : circuit) (cur shift : nat) (l : list ((nat * nat) * op)) : res :=
  match l with
  | [] => (c, OkU)
  | ((i, q), o) :: t =>
    let sh := if Nat.eqb i cur then shift else 0 in
    match replace c (Z.of_nat (i + sh), Z.of_nat q) o with
    | (c', Err e) => (c', Err e)
    | (c', _) => batch_replace_loop c' i (sh + (ncyc c' - ncyc c)) t
    end
  end.

Definition batch_replace (c : circuit) (pts : list (Z * Z)) (ops : list op) : res :=
  if negb (Nat.eqb (length pts) (length ops)) then (c, Err ValueError)
  else if negb (forallb (fun p => point_in_range c (fst p) (snd p)) pts) then (c, Err IndexError)
  else
    let npts := map (fun p => (normZ (fst p) (ncyc c), normZ (snd p) (nq c))) pts in
    batch_replace_loop c 0 0 (stable_sort_rep (combine npts ops)).

Definition sub_circuit_of (o : op) : circuit := mkC (length (o_rad o)) (o_rad o) (o_sub o).

(* op = self.pop(point) happens before the size checks *)
Definition replace_with_circuit (c : circuit) (pt : Z * Z) (sub : circuit) (as_gate : bool) : res :=
  match pop c (Some pt) with
  | (c', OkO old) =>
    if negb (Nat.eqb (nq sub) (length (o_loc old))) then (c', Err ValueError)
    else if negb ((fix le (x y : list nat) := match x, y with [], [] => true | u :: x', v :: y' => Nat.eqb u v && le x' y' | _, _ => false end)
                    (rads sub) (map (fun q => nth q (rads c) 0) (o_loc old))) then (c', Err ValueError)
    else insert_circuit c' (Z.of_nat (normZ (fst pt) (ncyc c))) sub (o_loc old) as_gate
  | r => r
  end.

(* distribute a block's parameter vector over its inner operations (set_params) *)
Fixpoint set_params_ops (ops : list op) (ps : list Z) : list op * list Z :=
  match ops with
  | [] => ([], ps)
  | o :: t => let k := length (o_ps o) in
              let '(t', rest) := set_params_ops t (skipn k ps) in
              (set_ps o (firstn k ps) :: t', rest)
  end.
Definition set_params_cycles (cs : list cycle) (ps : list Z) : list cycle :=
  (* parameters are ordered by forward iteration; cycles keep their structure *)
  let flat := fst (set_params_ops (iter_ops cs) ps) in
  (fix go (cs : list cycle) (flat : list op) : list cycle :=
     match cs with
     | [] => []
     | cy :: t => let k := length cy in firstn k flat :: go t (skipn k flat)
     end) cs flat.

Definition unfold (c : circuit) (pt : Z * Z) : res :=
  let '(ci, qi) := pt in
  if negb (point_in_range c ci qi) then (c, Err IndexError)
  else match get_cell c (normZ ci (ncyc c)) (normZ qi (nq c)) with
       | None => (c, Err IndexError)
       | Some o =>
         if negb (o_isblk o) then (c, Err ValueError)
         else replace_with_circuit c pt
                (mkC (length (o_rad o)) (o_rad o) (set_params_cycles (o_sub o) (o_ps o))) false
       end.

Definition compress (c : circuit) : circuit :=
  fold_left (fun s o => fst (append_raw s o)) (iter_ops (cycles c)) (mkC (nq c) (rads c) []).

Definition unfold_once (c : circuit) : circuit :=
  fold_left (fun s o =>
               if o_isblk o then
                 fold_left (fun s o' => fst (append_raw s (map_loc (o_loc o) o')))
                           (iter_ops (set_params_cycles (o_sub o) (o_ps o))) s
               else fst (append_raw s o))
            (iter_ops (cycles c)) (mkC (nq c) (rads c) []).

Definition has_block (c : circuit) : bool := existsb (existsb o_isblk) (cycles c).
Fixpoint unfold_all_fuel (fuel : nat) (c : circuit) : option circuit :=
  if has_block c then match fuel with 0 => None | S f => unfold_all_fuel f (unfold_once c) end
  else Some c.

(* ---- qudits ------------------------------------------------------------------------------ *)
Definition append_qudit (c : circuit) (radix : nat) : res :=
  if Nat.ltb radix 2 then (c, Err ValueError)
  else (mkC (S (nq c)) (rads c ++ [radix]) (cycles c), OkU).

Definition shift_up (k : nat) (q : nat) : nat := if Nat.ltb q k then q else S q.
Definition shift_down (k : nat) (q : nat) : nat := if Nat.ltb q k then q else q - 1.
Definition map_locs (f : nat -> nat) (cs : list cycle) : list cycle :=
  map (map (fun o => set_loc o (map f (o_loc o)))) cs.

Definition insert_qudit (c : circuit) (qi : Z) (radix : nat) : res :=
  if Nat.ltb radix 2 then (c, Err ValueError)
  else if Z.leb (Z.of_nat (nq c)) qi then append_qudit c radix
  else
    let k := if Z.leb qi (- Z.of_nat (nq c)) then 0 else normZ qi (nq c) in
    (mkC (S (nq c)) (insert_at k radix (rads c)) (map_locs (shift_up k) (cycles c)), OkU).

Definition pop_qudit (c : circuit) (qi : Z) : res :=
  if negb (in_rangeZ qi (nq c)) then (c, Err IndexError)
  else if Nat.eqb (nq c) 1 then (c, Err ValueError)
  else
    let k := normZ qi (nq c) in
    (* batch_pop of every operation touching k, highest cycle first *)
    let pts := filter (fun i => existsb (touches k) (cycle_at c i)) (seq 0 (ncyc c)) in
    let c1 := fold_left (fun c i => remove_op c i k) (rev pts) c in
    (mkC (nq c - 1) (remove_at k (rads c)) (map_locs (shift_down k) (cycles c1)), OkU).

Definition renumber_qudits (c : circuit) (perm : list nat) : res :=
  if negb (Nat.eqb (length perm) (nq c)) then (c, Err ValueError)
  else if negb (nodupn perm) then (c, Err ValueError)
  else if negb (forallb (fun q => Nat.ltb q (nq c)) perm) then (c, Err IndexError)
  else (mkC (nq c) (map (fun q => nth (index_of q perm) (rads c) 0) (seq 0 (nq c)))
            (map_locs (fun q => nth q perm 0) (cycles c)), OkU).

Definition clear (c : circuit) : circuit := mkC (nq c) (rads c) [].

(* self + rhs, self * n, +=, *= *)
Definition all_loc (c : circuit) : list nat := seq 0 (nq c).
Definition c_add (a b : circuit) : res :=
  match append_circuit (mkC (nq a) (rads a) []) a (all_loc a) false with
  | (s, Err e) => (a, Err e)
  | (s, _) => match append_circuit s b (all_loc a) false with
              | (_, Err e) => (a, Err e)
              | (s', _) => (a, OkC s')
              end
  end.
Definition c_iadd (a b : circuit) : res :=
  match append_circuit a b (all_loc a) false with
  | (s, Err e) => (s, Err e)
  | (s, _) => (s, OkU)
  end.
Fixpoint rep_append (n : nat) (s a : circuit) : circuit :=
  match n with 0 => s | S k => rep_append k (fst (append_circuit s a (all_loc a) false)) a end.
Definition c_mul (a : circuit) (n : nat) : circuit := rep_append n (mkC (nq a) (rads a) []) a.
Definition c_imul (a : circuit) (n : nat) : circuit := rep_append (n - 1) a a.
