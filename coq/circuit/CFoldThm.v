(* Theorems about the model of Circuit.fold (CFold.v).

   - fold_idle_cycle_refuted: fold can return normally and leave an idle cycle in
     the grid (defect D6; witness corpus/C05/D6.json), i.e. fold does not keep Inv.
   - fold_keeps_unfolded_timelines_full / straighten_keeps_timelines_full: the
     statements one wants (Definitions, not proved).
   - partial results about the pieces of straighten: inserting or popping an idle
     cycle changes no timeline; moving an operation to an earlier cycle changes
     no timeline when the cells it crosses on its own qudits are idle; without a
     shadow straighten leaves the grid alone; a failing check leaves it alone;
     one round of straighten (the loop over shadow_qudits) changes no timeline and
     keeps cells well defined PROVIDED every operation it picks up crosses idle
     cells only (that check_region/downsize_region guarantee this premise is the
     part that is not proved). *)
From Coq Require Import List Arith Bool PeanoNat ZArith Lia.
Import ListNotations.
From BQ Require Import circuit.CModel circuit.CThm circuit.CFold.
Open Scope nat_scope.

(* ---- a boolean checker for the grid invariant ------------------------------------ *)
Definition amo_b (cy : cycle) : bool :=
  forallb (fun q => Nat.leb (length (filter (touches q) cy)) 1) (flat_map o_loc cy).
Definition inv_b (c : circuit) : bool :=
  forallb (fun cy => match cy with [] => false | _ => amo_b cy end) (cycles c).
Definition has_idle_b (c : circuit) : bool :=
  existsb (fun cy => match cy with [] => true | _ => false end) (cycles c).

Lemma existsb_false_filter {A} (f : A -> bool) l : existsb f l = false -> filter f l = [].
Proof. induction l as [|x t IH]; simpl; [reflexivity|].
  intros H. apply orb_false_iff in H as [H1 H2]. rewrite H1. auto. Qed.

Lemma amo_b_ok cy : amo_b cy = true -> amo cy.
Proof. intros H q. destruct (existsb (touches q) cy) eqn:E.
  - apply existsb_exists in E as [o [Ho Hq]].
    unfold amo_b in H. rewrite forallb_forall in H.
    apply Nat.leb_le. apply H. apply in_flat_map. exists o. split; [exact Ho|].
    apply memn_In. exact Hq.
  - rewrite (existsb_false_filter _ _ E). simpl. lia. Qed.

Lemma inv_b_ok c : inv_b c = true -> Inv c.
Proof. unfold inv_b, Inv. intros H. rewrite forallb_forall in H. apply Forall_forall.
  intros cy Hcy. specialize (H cy Hcy). destruct cy as [|o t]; [discriminate|].
  split; [discriminate|apply amo_b_ok; exact H]. Qed.

Lemma idle_not_inv c : has_idle_b c = true -> ~ Inv c.
Proof. unfold has_idle_b, Inv. intros H HI. apply existsb_exists in H as [cy [Hcy E]].
  rewrite Forall_forall in HI. destruct (HI cy Hcy) as [Hne _]. destruct cy; [congruence|discriminate]. Qed.

(* ---- D6: fold can leave an idle cycle ------------------------------------------------- *)
Definition d6_circuit : circuit :=
  mkC 6 [2;2;2;2;2;2]
      [ [Op false 2 [0] [92%Z] [2] []; Op false 10 [2;4;1] [] [2;2;2] []; Op false 3 [5] [23%Z;4%Z;17%Z] [2] []];
        [Op false 4 [1;3] [] [2;2] []];
        [Op false 4 [3;0] [] [2;2] []] ].
Definition d6_region : region := [(0, (0, 2)); (3, (2, 2))].

Theorem fold_idle_cycle_refuted :
  exists c r c' n, Inv c /\ fold c r = (c', OkN n) /\ ~ Inv c'.
Proof.
  exists d6_circuit, d6_region, (fst (fold d6_circuit d6_region)), 2%Z.
  split; [apply inv_b_ok; vm_compute; reflexivity|].
  split; [vm_compute; reflexivity|].
  apply idle_not_inv. vm_compute. reflexivity. Qed.

(* the state fold leaves: the block went to the front of cycle 2 and the cycle
   the CX came from stays behind, idle *)
Example d6_post :
  cycles (fst (fold d6_circuit d6_region)) =
  [ [Op false 10 [2;4;1] [] [2;2;2] []];
    [Op false 4 [1;3] [] [2;2] []];
    [Op false 3 [5] [23%Z;4%Z;17%Z] [2] [];
     Op true 0 [0;3] [92%Z] [2;2] [[Op false 2 [0] [92%Z] [2] []]; [Op false 4 [1;0] [] [2;2] []]]];
    [] ].
Proof. vm_compute. reflexivity. Qed.

(* ---- the full statements ------------------------------------------------------------------ *)
(* fold only regroups: on every qudit the recursively unfolded program is unchanged *)
Definition fold_keeps_unfolded_timelines_full : Prop :=
  forall c r c' n, Forall amo (cycles c) -> fold c r = (c', OkN n) ->
  forall fuel u, unfold_all_fuel fuel c = Some u ->
  exists fuel' u', unfold_all_fuel fuel' c' = Some u' /\ forall q, tl u' q = tl u q.

(* straighten only slides operations along idle cells *)
Definition straighten_keeps_timelines_full : Prop :=
  forall c r c' s, Forall amo (cycles c) -> straighten c r = (c', s) -> forall q, tl c' q = tl c q.

(* ---- idle cycles do not show in timelines ----------------------------------------------------- *)
Lemma insert_idle_tlc cs i q : tlc (insert_at i [] cs) q = tlc cs q.
Proof. revert i. induction cs as [|cy t IH]; intros i; destruct i as [|i]; simpl; try reflexivity.
  unfold tlc in *. simpl. rewrite IH. reflexivity. Qed.

Theorem insert_cycle_tl_partial c i q : tl (insert_cycle c i) q = tl c q.
Proof. unfold tl, insert_cycle. simpl. apply insert_idle_tlc. Qed.

Lemma remove_idle_tlc cs i q : nth i cs [] = [] -> tlc (remove_at i cs) q = tlc cs q.
Proof. revert i. induction cs as [|cy t IH]; intros i H; destruct i as [|i]; simpl in *; try reflexivity.
  - subst cy. reflexivity.
  - unfold tlc in *. simpl. rewrite IH by exact H. reflexivity. Qed.

Theorem pop_idle_cycle_tl_partial c i q :
  cycle_at c i = [] -> tl (fst (pop_cycle c i)) q = tl c q.
Proof. unfold pop_cycle, tl. intros H. destruct (negb (i <? ncyc c)); [reflexivity|].
  rewrite H. simpl. apply remove_idle_tlc. exact H. Qed.

(* ---- moving an operation along idle cells ------------------------------------------------------- *)
Lemma update_at_app {A} (a l : list A) k f : update_at (length a + k) f (a ++ l) = a ++ update_at k f l.
Proof. induction a as [|x a IH]; simpl; [reflexivity|]. rewrite IH. reflexivity. Qed.

Lemma update_at_app_l {A} (a l : list A) k f : k < length a -> update_at k f (a ++ l) = update_at k f a ++ l.
Proof. revert k. induction a as [|x a IH]; intros k Hk; simpl in Hk; [lia|].
  destruct k as [|k]; simpl; [reflexivity|]. rewrite IH by lia. reflexivity. Qed.

Lemma move_lists (A B C : list cycle) cn co (g F : cycle -> cycle) :
  update_at (length A) g (update_at (length A + S (length B)) F (A ++ cn :: B ++ co :: C))
  = A ++ g cn :: B ++ F co :: C.
Proof.
  rewrite update_at_app. simpl.
  replace (length B) with (length B + 0) by lia. rewrite update_at_app. simpl.
  replace (length A) with (length A + 0) at 1 by lia. rewrite update_at_app. simpl. reflexivity. Qed.

Lemma tlc_cons cy cs q : tlc (cy :: cs) q = filter (touches q) cy ++ tlc cs q.
Proof. reflexivity. Qed.

Lemma amo_unique cy o x h :
  amo cy -> In o cy -> touches h o = true -> In x cy -> touches h x = true -> x = o.
Proof. intros Ha Ho To Hx Tx.
  assert (Io : In o (filter (touches h) cy)) by (apply filter_In; auto).
  assert (Ix : In x (filter (touches h) cy)) by (apply filter_In; auto).
  specialize (Ha h). destruct (filter (touches h) cy) as [|a [|b t]]; simpl in *; try lia; try tauto.
  destruct Io as [<-|[]], Ix as [<-|[]]. reflexivity. Qed.

Lemma filter_removed_other cy o h q :
  (forall x, In x cy -> touches h x = true -> x = o) -> touches q o = false ->
  filter (touches q) (filter (fun x => negb (touches h x)) cy) = filter (touches q) cy.
Proof. induction cy as [|x t IH]; intros Hu Hq; simpl; [reflexivity|].
  assert (IHt := IH (fun y Hy => Hu y (or_intror Hy)) Hq).
  destruct (touches h x) eqn:Th; simpl.
  - rewrite (Hu x (or_introl eq_refl) Th), Hq. exact IHt.
  - destruct (touches q x); [f_equal|]; exact IHt. Qed.

Lemma filter_removed_self cy o h q :
  (forall x, In x cy -> touches q x = true -> x = o) -> touches h o = true ->
  filter (touches q) (filter (fun x => negb (touches h x)) cy) = [].
Proof. induction cy as [|x t IH]; intros Hu Hh; simpl; [reflexivity|].
  assert (IHt := IH (fun y Hy => Hu y (or_intror Hy)) Hh).
  destruct (touches h x) eqn:Th; simpl; [exact IHt|].
  destruct (touches q x) eqn:Tq; [|exact IHt].
  rewrite (Hu x (or_introl eq_refl) Tq) in Th. congruence. Qed.

Lemma filter_self cy o q : amo cy -> In o cy -> touches q o = true -> filter (touches q) cy = [o].
Proof. intros Ha Ho Tq.
  assert (Io : In o (filter (touches q) cy)) by (apply filter_In; auto).
  specialize (Ha q). destruct (filter (touches q) cy) as [|a [|b t]]; simpl in *; try lia; try tauto.
  destruct Io as [<-|[]]. reflexivity. Qed.

Lemma move_tlc (A B C : list cycle) cn co o h q :
  amo co -> In o co -> touches h o = true ->
  (touches q o = true -> filter (touches q) cn = [] /\ tlc B q = []) ->
  tlc (A ++ (cn ++ [o]) :: B ++ filter (fun x => negb (touches h x)) co :: C) q
  = tlc (A ++ cn :: B ++ co :: C) q.
Proof. intros Ha Ho Th Hidle.
  rewrite !tlc_app, !tlc_cons, !tlc_app, !tlc_cons, filter_app. simpl.
  destruct (touches q o) eqn:Tq.
  - destruct (Hidle eq_refl) as [E1 E2]. rewrite E1, E2. simpl.
    rewrite (filter_removed_self co o h q); [|intros x Hx Tx; eapply amo_unique; eauto|exact Th].
    rewrite (filter_self co o q Ha Ho Tq). reflexivity.
  - rewrite app_nil_r.
    rewrite (filter_removed_other co o h q); [reflexivity|intros x Hx Tx; eapply amo_unique; eauto|exact Tq]. Qed.

Lemma split_nth {A} (l : list A) i d : i < length l -> l = firstn i l ++ nth i l d :: skipn (S i) l.
Proof. revert i. induction l as [|x t IH]; intros i Hi; simpl in Hi; [lia|].
  destruct i as [|i]; simpl; [reflexivity|]. f_equal. apply IH. lia. Qed.

Lemma nth_skipn' {A} (l : list A) n k d : nth k (skipn n l) d = nth (n + k) l d.
Proof. revert n. induction l as [|x t IH]; intros n; destruct n as [|n]; simpl; try reflexivity.
  - destruct k; reflexivity.
  - apply IH. Qed.

Lemma nth_firstn' {A} (l : list A) n k d : k < n -> nth k (firstn n l) d = nth k l d.
Proof. revert n k. induction l as [|x t IH]; intros n k Hk; destruct n as [|n]; simpl; try lia; try reflexivity.
  destruct k as [|k]; [reflexivity|]. apply IH. lia. Qed.

Lemma split_two (cs : list cycle) new old :
  new < old -> old < length cs ->
  exists A B C, cs = A ++ nth new cs [] :: B ++ nth old cs [] :: C /\ length A = new /\ new + S (length B) = old
                /\ forall k, k < length B -> nth k B [] = nth (S new + k) cs [].
Proof. intros H1 H2.
  set (R := skipn (S new) cs). set (o' := old - S new).
  assert (LR : length R = length cs - S new) by (unfold R; apply skipn_length).
  exists (firstn new cs), (firstn o' R), (skipn (S o') R).
  assert (L1 : length (firstn new cs) = new) by (rewrite firstn_length; lia).
  assert (L2 : length (firstn o' R) = o') by (rewrite firstn_length; unfold o'; lia).
  split; [|split; [exact L1|split; [unfold o' in *; lia|]]].
  - rewrite (split_nth cs new []) at 1 by lia. f_equal. f_equal. fold R.
    rewrite (split_nth R o' []) at 1 by (unfold o'; lia). f_equal. f_equal.
    unfold R. rewrite nth_skipn'. f_equal. unfold o'. lia.
  - intros k Hk. rewrite L2 in Hk. rewrite nth_firstn' by exact Hk. unfold R. apply nth_skipn'. Qed.

Lemma flat_map_all_nil {A B} (f : A -> list B) l : (forall x, In x l -> f x = []) -> flat_map f l = [].
Proof. induction l as [|x t IH]; intros H; simpl; [reflexivity|].
  rewrite (H x (or_introl eq_refl)). apply IH. intros y Hy. apply H. right. exact Hy. Qed.

(* the operation o sits in cycle `old`; all cells of its qudits in the cycles
   new .. old-1 are idle: moving it to cycle `new` changes no timeline *)
Theorem move_op_tl_partial c old new o q :
  Forall amo (cycles c) -> new < old -> old < ncyc c ->
  get_cell c old (hd0 (o_loc o)) = Some o ->
  (forall q', In q' (o_loc o) -> forall j, new <= j < old -> filter (touches q') (cycle_at c j) = []) ->
  tl (move_op c old new o) q = tl c q.
Proof. intros Ha Hno Hol Hcell Hidle. unfold tl, move_op, ncyc, cycle_at, get_cell in *. simpl.
  destruct (split_two (cycles c) new old Hno Hol) as [A [B [C [E [LA [LB HB]]]]]].
  set (cn := nth new (cycles c) []) in *. set (co := nth old (cycles c) []) in *.
  assert (Hco : amo co).
  { rewrite Forall_forall in Ha. apply Ha. unfold co. apply nth_In. exact Hol. }
  unfold cell in Hcell. apply find_some in Hcell as [Ho Th].
  rewrite E. rewrite <- LB, <- LA. rewrite move_lists.
  apply move_tlc; auto.
  intros Tq. assert (Hq : In q (o_loc o)) by (apply memn_In; exact Tq). split.
  - apply (Hidle q Hq new). lia.
  - unfold tlc. apply flat_map_all_nil. intros cy Hcy.
    destruct (In_nth _ _ [] Hcy) as [k [Hk Ek]]. rewrite <- Ek, HB by exact Hk.
    apply (Hidle q Hq). unfold cycle in *. lia. Qed.

(* ---- straighten without a shadow ------------------------------------------------------------------ *)
(* all lower bounds of the downsized region are equal: nothing is inserted, moved or popped *)
Theorem straighten_no_shadow_partial c r r1 :
  downsize_region c r = RrOk r1 -> r_max_min_cycle r1 = r_min_cycle r1 ->
  fst (straighten_r c r) = c.
Proof. intros Hd Hs. unfold straighten_r.
  destruct r as [|e r]; [reflexivity|].
  destruct (check_region_r c (e :: r)); try reflexivity.
  rewrite Hd. destruct r1 as [|e1 r1]; [reflexivity|].
  rewrite Hs, Nat.sub_diag. cbn [seq fold_left s_idle s_c sort_nat fold_right length combine seq_ops].
  destruct (shift_left _ 0); [|reflexivity].
  destruct (negb _); reflexivity. Qed.

(* a region that fails check_region / downsize_region is rejected before the grid is touched *)
Theorem straighten_rejected_unchanged_partial c r :
  check_region_r c r <> CrOk \/ (exists e, downsize_region c r = RrErr e) ->
  fst (straighten_r c r) = c.
Proof. intros H. unfold straighten_r. destruct r as [|e r]; [reflexivity|].
  destruct (check_region_r c (e :: r)) eqn:E; try reflexivity.
  destruct H as [H|[x H]]; [congruence|]. rewrite H. reflexivity. Qed.

(* ---- one round of straighten ----------------------------------------------------------------------- *)
Lemma nth_update_at_other {A} i j (f : A -> A) (l : list A) d : j <> i -> nth j (update_at i f l) d = nth j l d.
Proof. revert i j. induction l as [|x t IH]; intros i j H; simpl.
  - destruct i; reflexivity.
  - destruct i as [|i]; destruct j as [|j]; simpl; try reflexivity; try lia. apply IH. lia. Qed.

Lemma nth_update_at_same {A} i (f : A -> A) (l : list A) d : i < length l -> nth i (update_at i f l) d = f (nth i l d).
Proof. revert i. induction l as [|x t IH]; intros i H; simpl in H; [lia|].
  destruct i as [|i]; simpl; [reflexivity|]. apply IH. lia. Qed.

Definition idle_on (c : circuit) (q lo hi : nat) : Prop :=
  forall j, lo <= j < hi -> filter (touches q) (cycle_at c j) = [].
Definition crosses_idle (c : circuit) (old new : nat) (o : op) : Prop :=
  forall q, In q (o_loc o) -> idle_on c q new old.

Lemma filter_nil_iff {A} (f : A -> bool) l : filter f l = [] <-> forall x, In x l -> f x = false.
Proof. induction l as [|y t IH]; simpl; [tauto|]. destruct (f y) eqn:E.
  - split; [discriminate|]. intros H. rewrite (H y (or_introl eq_refl)) in E. discriminate.
  - rewrite IH. split; [intros H x [<-|Hx]; auto|intros H x Hx; auto]. Qed.

Lemma cycle_at_move_other c old new o j :
  j <> old -> j <> new -> cycle_at (move_op c old new o) j = cycle_at c j.
Proof. intros H1 H2. unfold cycle_at, move_op. simpl.
  rewrite nth_update_at_other by exact H2. apply nth_update_at_other. exact H1. Qed.

Lemma cycle_at_move_old c old new o :
  new <> old -> old < ncyc c ->
  cycle_at (move_op c old new o) old = filter (fun x => negb (touches (hd0 (o_loc o)) x)) (cycle_at c old).
Proof. intros H1 H2. unfold cycle_at, move_op, ncyc in *. simpl.
  rewrite nth_update_at_other by lia. apply nth_update_at_same. exact H2. Qed.

Lemma cycle_at_move_new c old new o :
  new <> old -> new < ncyc c ->
  cycle_at (move_op c old new o) new = cycle_at c new ++ [o].
Proof. intros H1 H2. unfold cycle_at, move_op, ncyc in *. simpl.
  rewrite nth_update_at_same by (rewrite length_update_at; exact H2).
  rewrite nth_update_at_other by lia. reflexivity. Qed.

Lemma touches_hd q o : touches q o = true -> touches (hd0 (o_loc o)) o = true.
Proof. unfold touches, hd0. destruct (o_loc o) as [|x t]; simpl; [discriminate|].
  intros _. rewrite Nat.eqb_refl. reflexivity. Qed.

Lemma cell_some cy q o : cell cy q = Some o -> In o cy /\ touches q o = true.
Proof. unfold cell. apply find_some. Qed.

Lemma cell_of_in cy q o : amo cy -> In o cy -> touches q o = true -> cell cy q = Some o.
Proof. intros Ha Ho Tq. unfold cell. destruct (find (touches q) cy) as [x|] eqn:E.
  - apply find_some in E as [Hx Tx]. f_equal. eapply amo_unique; eauto.
  - eapply find_none in E; eauto. congruence. Qed.

(* the invariant of the loop `for qudit_index in shadow_qudits` relative to the state c0 at its start *)
Record round_inv (c0 c : circuit) (old new : nat) : Prop := {
  ri_amo : Forall amo (cycles c);
  ri_len : ncyc c = ncyc c0;
  ri_tl : forall q, tl c q = tl c0 q;
  ri_other : forall j, j <> new -> j <> old -> cycle_at c j = cycle_at c0 j;
  ri_old : forall x, In x (cycle_at c old) -> In x (cycle_at c0 old);
  ri_new : forall x, In x (cycle_at c new) ->
                     In x (cycle_at c0 new) \/ (In x (cycle_at c0 old) /\ ~ In x (cycle_at c old))
}.

Lemma amo_cycle_at c j : Forall amo (cycles c) -> amo (cycle_at c j).
Proof. intros H. unfold cycle_at. destruct (Nat.lt_ge_cases j (length (cycles c))) as [L|L].
  - rewrite Forall_forall in H. apply H. apply nth_In. exact L.
  - rewrite nth_overflow by exact L. intros q. simpl. lia. Qed.

Lemma round_crosses c0 c old new o :
  Forall amo (cycles c0) -> round_inv c0 c old new -> new < old ->
  In o (cycle_at c old) -> crosses_idle c0 old new o -> crosses_idle c old new o.
Proof. intros Ha0 I Hno Ho P q Hq j Hj.
  destruct (Nat.eq_dec j new) as [->|Hn].
  - apply filter_nil_iff. intros x Hx. destruct (touches q x) eqn:Tx; [exfalso|reflexivity].
    destruct (ri_new _ _ _ _ I x Hx) as [H0|[H0 Hnot]].
    + pose proof (P q Hq new Hj) as E. rewrite filter_nil_iff in E. rewrite (E x H0) in Tx. discriminate.
    + apply Hnot. assert (x = o); [|subst; exact Ho].
      eapply (amo_unique (cycle_at c0 old) o x q); eauto.
      * apply amo_cycle_at; exact Ha0.
      * apply (ri_old _ _ _ _ I); exact Ho.
      * apply memn_In; exact Hq.
  - rewrite (ri_other _ _ _ _ I j) by lia. apply (P q Hq j Hj). Qed.

Lemma round_inv_move c0 c old new o :
  Forall amo (cycles c0) -> round_inv c0 c old new -> new < old -> old < ncyc c0 ->
  In o (cycle_at c old) -> o_loc o <> [] -> crosses_idle c0 old new o ->
  round_inv c0 (move_op c old new o) old new.
Proof. intros Ha0 I Hno Hol Ho Hne P.
  pose proof (round_crosses c0 c old new o Ha0 I Hno Ho P) as Pc.
  assert (Hlen : ncyc c = ncyc c0) by apply I.
  assert (Th : touches (hd0 (o_loc o)) o = true).
  { unfold touches, hd0. destruct (o_loc o); [congruence|]. simpl. rewrite Nat.eqb_refl. reflexivity. }
  assert (Hcell : get_cell c old (hd0 (o_loc o)) = Some o).
  { unfold get_cell. apply cell_of_in; auto. apply amo_cycle_at. apply I. }
  constructor.
  - (* amo *)
    unfold move_op. simpl. apply Forall_update_at with (d := []).
    + apply Forall_update_at with (d := []); [apply I|]. intros _. apply amo_filter. apply (amo_cycle_at c old). apply I.
    + intros _. rewrite nth_update_at_other by lia. apply amo_snoc.
      * apply (amo_cycle_at c new). apply I.
      * apply free_unoccupied. intros q Hq. apply (Pc q Hq new). lia.
  - unfold move_op, ncyc. simpl. rewrite !length_update_at. apply I.
  - intros q. rewrite <- (ri_tl _ _ _ _ I q). apply move_op_tl_partial; auto.
    + apply I.
    + rewrite Hlen. exact Hol.
  - intros j H1 H2. rewrite cycle_at_move_other by auto. apply I; auto.
  - intros x Hx. rewrite cycle_at_move_old in Hx by (rewrite ?Hlen; lia).
    apply filter_In in Hx as [Hx _]. apply I. exact Hx.
  - intros x Hx. rewrite cycle_at_move_new in Hx by (rewrite ?Hlen; lia).
    rewrite cycle_at_move_old by (rewrite ?Hlen; lia).
    apply in_app_or in Hx as [Hx|[<-|[]]].
    + destruct (ri_new _ _ _ _ I x Hx) as [H|[H Hnot]]; [left; exact H|right]. split; [exact H|].
      intros Hf. apply filter_In in Hf as [Hf _]. auto.
    + right. split; [apply I; exact Ho|]. intros Hf. apply filter_In in Hf as [_ Hf].
      rewrite Th in Hf. discriminate. Qed.

Lemma round_inv_refl c old new : Forall amo (cycles c) -> round_inv c c old new.
Proof. intros H. constructor; auto. Qed.

(* the condition under which the loop looks at qudit q in cycle `old` *)
Definition round_cond (r : region) (old q : nat) : bool :=
  match r_get r q with None => true | Some (lo, _) => Nat.ltb old lo end.

(* A round of straighten changes no timeline (and keeps cells well defined),
   provided each operation it picks up only crosses idle cells on its way from
   cycle `old` to cycle `new`.  (That check_region guarantees the premise is the
   part not proved.) *)
Theorem straighten_round_tl_partial c r sq old new :
  Forall amo (cycles c) -> new < old -> old < ncyc c ->
  (forall q o, In q sq -> round_cond r old q = true -> get_cell c old q = Some o -> crosses_idle c old new o) ->
  let c' := fst (fst (straighten_round c r sq old new)) in
  Forall amo (cycles c') /\ ncyc c' = ncyc c /\ forall q, tl c' q = tl c q.
Proof. intros Ha Hno Hol Hyp. unfold straighten_round.
  assert (G : forall l st, (forall q, In q l -> In q sq) -> round_inv c (fst (fst st)) old new ->
              round_inv c (fst (fst (fold_left (fun st q =>
               let '(c, moved, toadd) := st in
               let cond := match r_get r q with None => true | Some (lo, _) => Nat.ltb old lo end in
               if cond then match get_cell c old q with
                            | Some o => (move_op c old new o, true, toadd ++ o_loc o)
                            | None => st end
               else st) l st))) old new).
  { induction l as [|q l IH]; intros [[ck mv] ta] Hsub I; [exact I|].
    simpl fold_left. apply IH; [intros q' Hq'; apply Hsub; right; exact Hq'|].
    simpl in I. fold (round_cond r old q).
    destruct (round_cond r old q) eqn:Cq; [|exact I].
    destruct (get_cell ck old q) as [o|] eqn:Gc; [|exact I]. simpl.
    unfold get_cell in Gc. apply cell_some in Gc as [Ho Tq].
    assert (Ho0 : In o (cycle_at c old)) by (apply I; exact Ho).
    apply round_inv_move; auto.
    - unfold touches in Tq. destruct (o_loc o); [discriminate|discriminate].
    - apply (Hyp q o); auto; [apply Hsub; left; reflexivity|].
      unfold get_cell. apply cell_of_in; auto. apply amo_cycle_at; exact Ha. }
  specialize (G sq (c, false, []) (fun q H => H) (round_inv_refl c old new Ha)).
  simpl. split; [apply G|split; [apply G|apply G]]. Qed.

(* ---- the repaired straighten (fixes/D6.patch): `straighten_rx true` ------------------------------------------- *)
(* the switch off is the current algorithm *)
Theorem straighten_rx_false c r : straighten_rx false c r = straighten_r c r.
Proof. reflexivity. Qed.

Theorem fold_x_false c r : fold_x false c r = fold c r.
Proof. reflexivity. Qed.

(* on the D6 witness (and on the witness fold_stress found through the public straighten) the repaired
   algorithm leaves no idle cycle, returns the same point, and the block holds the same operations *)
Definition d6b_circuit : circuit :=
  mkC 6 [2;2;2;2;2;2]
      [ [Op false 3 [0] [14%Z;48%Z;98%Z] [2] []; Op false 3 [2] [40%Z;11%Z;98%Z] [2] []; Op false 2 [4] [27%Z] [2] [];
         Op false 5 [5;1] [71%Z] [2;2] []];
        [Op false 1 [0] [] [2] []];
        [Op false 5 [0;1] [14%Z] [2;2] []];
        [Op false 5 [3;1] [1%Z] [2;2] []];
        [Op false 5 [3;4] [9%Z] [2;2] []];
        [Op false 5 [4;0] [51%Z] [2;2] []];
        [Op false 5 [0;2] [25%Z] [2;2] []] ].
Definition d6b_region : region := [(0, (3, 6)); (2, (0, 6)); (4, (5, 5))].

Theorem fold_x_repairs_d6 :
  Inv (fst (fold_x true d6_circuit d6_region)) /\ snd (fold_x true d6_circuit d6_region) = OkN 2
  /\ ~ Inv (fst (straighten_rx false d6b_circuit d6b_region))
  /\ Inv (fst (straighten_rx true d6b_circuit d6b_region))
  /\ Inv (fst (fold_x true d6b_circuit d6b_region))
  /\ map (tl (fst (straighten_rx true d6b_circuit d6b_region))) (seq 0 6) = map (tl d6b_circuit) (seq 0 6).
Proof. split; [apply inv_b_ok; vm_compute; reflexivity|]. split; [vm_compute; reflexivity|].
  split; [apply idle_not_inv; vm_compute; reflexivity|]. split; [apply inv_b_ok; vm_compute; reflexivity|].
  split; [apply inv_b_ok; vm_compute; reflexivity|]. vm_compute. reflexivity. Qed.
