(* Extensions of the grid model for property C04 (no proofs in this file).

   - unfold_all without a caller-chosen fuel: the loop `while any CircuitGate in gate_set`
     of Circuit.unfold_all runs at most (nesting depth) passes; `unfold_all` below uses
     exactly that bound (CExtThm.v proves it is never exhausted and that every larger
     fuel gives the same circuit).
   - full_expand: the specification list of unfold_all (every block replaced, repeatedly,
     by its inner operations).
   - fold_tail: the last two statements of Circuit.fold, after straighten:
         circuit = self.batch_pop(region.points)
         self.insert_circuit(region.min_cycle, circuit, sorted(region.keys()), True)
     `fold` of CFold.v is `straighten_r` followed by `fold_tail` (CExtThm.fold_is_tail).
   - region side conditions as boolean functions, evaluated by the harness on the real
     straightened region of every fold call. *)
From Coq Require Import List Arith Bool PeanoNat ZArith.
Import ListNotations.
From BQ Require Import circuit.CModel circuit.CFold.
Open Scope nat_scope.

(* ---- nesting depth / well-formed blocks ------------------------------------------------ *)
Fixpoint op_depth (o : op) : nat :=
  match o with
  | Op b _ _ _ _ s => if b then S (maxl (map (fun cy => maxl (map op_depth cy)) s)) else 0
  end.
Definition ops_depth (l : list op) : nat := maxl (map op_depth l).
Definition cycles_depth (cs : list cycle) : nat := maxl (map ops_depth cs).
Definition circ_depth (c : circuit) : nat := cycles_depth (cycles c).

(* a block's inner operations live on the block's own qudits 0 .. len(location)-1, hereditarily
   (CircuitGate(circuit) has circuit.num_qudits = len(location): check_valid_operation) *)
Fixpoint wf_op (o : op) : bool :=
  match o with
  | Op b _ loc _ _ s =>
    if b then forallb (fun cy => forallb (fun o' => forallb (fun a => Nat.ltb a (length loc)) (o_loc o') && wf_op o') cy) s
    else true
  end.
Definition wf_circ (c : circuit) : bool := forallb (forallb wf_op) (cycles c).

(* Circuit.unfold_all: the fuel is the nesting depth *)
Definition unfold_all (c : circuit) : option circuit := unfold_all_fuel (S (circ_depth c)) c.

(* one pass over a list of operations / the specification of unfold_all *)
Definition expand1 (o : op) : list op :=
  if o_isblk o then map (map_loc (o_loc o)) (iter_ops (set_params_cycles (o_sub o) (o_ps o))) else [o].
Definition expand_list (l : list op) : list op := flat_map expand1 l.
Definition full_expand (c : circuit) : list op := Nat.iter (circ_depth c) expand_list (iter_ops (cycles c)).

(* ---- the tail of fold -------------------------------------------------------------------- *)
Definition zpoints (r : region) : list (Z * Z) := map (fun p => (Z.of_nat (fst p), Z.of_nat (snd p))) (r_points r).

Definition fold_tail (c1 : circuit) (r1 : region) : res :=
  match batch_pop c1 (zpoints r1) with
  | (c2, OkC sub) =>
    match insert_circuit c2 (Z.of_nat (r_min_cycle r1)) sub (sort_nat (r_keys r1)) true with
    | (c3, Err e) => (c3, Err e)
    | (c3, _) => (c3, OkN (Z.of_nat (r_min_cycle r1)))
    end
  | (c2, Err e) => (c2, Err e)
  | (c2, _) => (c2, Err InternalError)
  end.

(* side conditions on (circuit after straighten, region returned by straighten) *)
(* every interval starts at the same cycle m, ends inside the circuit, qudits exist *)
Definition aligned_b (c : circuit) (r : region) : bool :=
  forallb (fun e => Nat.eqb (fst (snd e)) (r_min_cycle r) && Nat.leb (fst (snd e)) (snd (snd e))
                    && Nat.ltb (snd (snd e)) (ncyc c) && Nat.ltb (fst e) (nq c)) r
  && nodupn (r_keys r).
(* an operation with one cell in the region lies in the region with all its cells *)
Definition closed_b (c : circuit) (r : region) : bool :=
  forallb (fun i => forallb (fun o => negb (existsb (in_region r i) (o_loc o)) || forallb (in_region r i) (o_loc o))
                            (cycle_at c i)) (seq 0 (ncyc c)).
(* every qudit of the region holds an operation of the region *)
Definition populated_b (c : circuit) (r : region) : bool :=
  forallb (fun e => existsb (fun i => match get_cell c i (fst e) with Some _ => true | None => false end)
                            (seq (fst (snd e)) (S (snd (snd e)) - fst (snd e)))) r.
(* ... and these are exactly the qudits batch_pop's returned circuit is built on *)
Definition popped_ops (c : circuit) (r : region) : list op :=
  let npts := r_points r in
  let ids := dedup_pts (flat_map (fun p => match get_cell c (fst p) (snd p) with
                                           | Some o => [(fst p, hd0 (o_loc o))] | None => [] end) npts) in
  let cops := fold_right ins_pt [] (flat_map (fun p => match get_cell c (fst p) (snd p) with
                                           | Some o => [(fst p, o)] | None => [] end) ids) in
  flat_map (fun i => fwd_cycle (map snd (filter (fun p => Nat.eqb (fst p) i) cops))) (seq 0 (ncyc c)).
Fixpoint nat_list_eqb' (x y : list nat) : bool :=
  match x, y with [], [] => true | u :: x', v :: y' => Nat.eqb u v && nat_list_eqb' x' y' | _, _ => false end.
Definition used_b (c : circuit) (r : region) : bool :=
  nat_list_eqb' (used_qudits (popped_ops c r)) (sort_nat (r_keys r)).
Definition tail_ok (c : circuit) (r : region) : bool :=
  match r with [] => false | _ => aligned_b c r && closed_b c r && populated_b c r && used_b c r end.
