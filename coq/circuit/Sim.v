(* circuit/Sim.v - simulation of a circuit as the code does it (bqskit/ir/circuit.py:
   get_unitary, get_statevector, get_unitary_and_grad, params, set_params, get_param, set_param,
   get_param_location, freeze_param; bqskit/ir/operation.py: get_unitary / get_unitary_and_grad;
   bqskit/ir/gates/composed/frozenparam.py: get_full_params).  DEFINITIONS ONLY.

   A circuit is seen through its iteration order: the list of (cycle, operation) pairs yielded by
   operations_with_cycles() (that this order is the program order of the grid is C04/C05).
   A gate is an oracle: a function from a parameter list to a matrix, and to its list of partial
   derivative matrices.  `mz` stands for "the array is stored": any function that returns an
   extensionally equal array (identity for the proofs, Tensor.materialize for execution). *)
From Coq Require Import List NArith Arith Bool ZArith.
Import ListNotations.
From BQ Require Import lib.Tensor.

Section Sim.
Variable R : Type.
Variables (r0 r1 : R) (radd rmul : R -> R -> R) (rconj : R -> R).
Variable P : Type.
Variable mz : nd R -> nd R.

Record op := mk_op {
  op_loc : list nat;                 (* operation.location *)
  op_np : nat;                       (* operation.num_params = gate.num_params *)
  op_params : list P;                (* operation.params (stored) *)
  op_u : list P -> nd R;             (* gate.get_unitary *)
  op_du : list P -> list (nd R)      (* gate.get_grad: one matrix per parameter *)
}.

Record circuit := mk_circuit { c_radixes : list N; c_ops : list (nat * op) }.

Definition ops_of (c : circuit) : list op := map snd (c_ops c).

(* Circuit.num_params *)
Definition num_params (c : circuit) : nat := fold_right (fun o a => (op_np o + a)%nat) 0%nat (ops_of c).

(* Circuit.params: sum((list(op.params) for op in self), []) *)
Definition params (c : circuit) : list P := concat (map op_params (ops_of c)).

(* python slice l[a:b] *)
Definition slice {A} (l : list A) (a b : nat) : list A := firstn (b - a) (skipn a l).

(* Operation.get_unitary / get_unitary_and_grad: explicit parameters only when non-empty *)
Definition op_get_unitary (o : op) (ps : list P) : nd R :=
  if Nat.eqb (length ps) 0 then op_u o (op_params o) else op_u o ps.
Definition op_get_grad (o : op) (ps : list P) : list (nd R) :=
  if Nat.eqb (length ps) 0 then op_du o (op_params o) else op_du o ps.

(* Unitary.check_parameters *)
Definition check_parameters (np : nat) (ps : list P) : bool := Nat.eqb (length ps) np.

(* the parameters handed to the operations, in iteration order: the common loop header of
   get_unitary / get_statevector / get_unitary_and_grad
     if len(params) != 0: gparams = params[param_index:param_index + op.num_params]; param_index += op.num_params
     else: (no argument) *)
Fixpoint gparams_loop (ops : list op) (ps : list P) (param_index : nat) : list (list P) :=
  match ops with
  | [] => []
  | o :: r =>
    if negb (Nat.eqb (length ps) 0)
    then slice ps param_index (param_index + op_np o) :: gparams_loop r ps (param_index + op_np o)
    else [] :: gparams_loop r ps param_index
  end.

Fixpoint gu_loop (radixes : list N) (ops : list op) (gps : list (list P)) (B : nd R) : nd R :=
  match ops, gps with
  | o :: r, g :: gr =>
    gu_loop radixes r gr (mz (apply_right R r0 radd rmul rconj radixes B (op_get_unitary o g) (op_loc o) false))
  | _, _ => B
  end.

(* Circuit.get_unitary(params); None = check_parameters raises *)
Definition get_unitary (c : circuit) (ps : list P) : option (nd R) :=
  if negb (Nat.eqb (length ps) 0) && negb (check_parameters (num_params c) ps) then None
  else Some (ub_get_unitary R (c_radixes c)
               (gu_loop (c_radixes c) (ops_of c) (gparams_loop (ops_of c) ps 0) (ub_init R r0 r1 (c_radixes c)))).

Fixpoint sv_loop (radixes : list N) (ops : list op) (gps : list (list P)) (v : nd R) : nd R :=
  match ops, gps with
  | o :: r, g :: gr =>
    sv_loop radixes r gr (mz (sv_apply R r0 radd rmul rconj radixes v (op_get_unitary o g) (op_loc o) false))
  | _, _ => v
  end.

(* Circuit.get_statevector(in_state, params), in_state a StateVector with the circuit's radixes *)
Definition get_statevector (c : circuit) (v : nd R) (ps : list P) : option (nd R) :=
  if negb (Nat.eqb (length ps) 0) && negb (check_parameters (num_params c) ps) then None
  else Some (sv_loop (c_radixes c) (ops_of c) (gparams_loop (ops_of c) ps 0) v).

(* get_unitary_and_grad *)
Fixpoint right_loop (radixes : list N) (mats : list (nd R * list nat)) (right : nd R) : nd R :=
  match mats with
  | [] => right
  | (M, loc) :: r => right_loop radixes r (mz (apply_right R r0 radd rmul rconj radixes right M loc false))
  end.

Fixpoint grad_loop (radixes : list N) (mats : list (nd R * list (nd R) * list nat))
         (left right : nd R) : nd R * list (nd R) :=
  match mats with
  | [] => (left, [])
  | (M, dM, loc) :: r =>
    let right := mz (apply_left R r0 radd rmul rconj radixes right M loc true) in
    let right_utry := ub_get_unitary R radixes right in
    let here := map (fun grad => mz (nd_matmul R r0 radd rmul right_utry
                                       (mz (eval_apply_right R r0 radd rmul radixes left grad loc)))) dM in
    let left := mz (apply_right R r0 radd rmul rconj radixes left M loc false) in
    let (l, rest) := grad_loop radixes r left right in
    (l, here ++ rest)
  end.

Definition get_unitary_and_grad (c : circuit) (ps : list P) : option (nd R * list (nd R)) :=
  if negb (Nat.eqb (length ps) 0) && negb (check_parameters (num_params c) ps) then None
  else
    let ops := ops_of c in
    let gps := gparams_loop ops ps 0 in
    let col := map (fun og => (op_get_unitary (fst og) (snd og), op_get_grad (fst og) (snd og), op_loc (fst og)))
                   (combine ops gps) in
    let init := ub_init R r0 r1 (c_radixes c) in
    let right := right_loop (c_radixes c) (map (fun x => (fst (fst x), snd x)) col) init in
    let (left, grads) := grad_loop (c_radixes c) col init right in
    Some (ub_get_unitary R (c_radixes c) left, grads).

(* ------------------------------------------------------------------ flat parameter vector *)
(* get_param_location: None = IndexError (negative indices are rejected before the loop) *)
Fixpoint gpl_loop (ops : list (nat * op)) (param_index count : nat) : option (nat * nat * nat) :=
  match ops with
  | [] => None
  | (cycle, o) :: r =>
    let count := (count + length (op_params o))%nat in
    if Nat.ltb param_index count
    then Some (cycle, hd 0%nat (op_loc o), (param_index - (count - length (op_params o)))%nat)
    else gpl_loop r param_index count
  end.
Definition get_param_location (c : circuit) (i : nat) : option (nat * nat * nat) :=
  gpl_loop (c_ops c) i 0.

(* circuit[cycle, qudit]: the operation occupying that grid point *)
Definition occupies (cycle qudit : nat) (co : nat * op) : bool :=
  Nat.eqb (fst co) cycle && memb qudit (op_loc (snd co)).
Definition c_at (c : circuit) (cycle qudit : nat) : option op :=
  option_map snd (find (occupies cycle qudit) (c_ops c)).

(* replace the operation at a grid point (same cycle, same position in the iteration order) *)
Fixpoint upd_at (ops : list (nat * op)) (cycle qudit : nat) (f : op -> op) : list (nat * op) :=
  match ops with
  | [] => []
  | co :: r => if occupies cycle qudit co then (fst co, f (snd co)) :: r else co :: upd_at r cycle qudit f
  end.

Definition get_param (c : circuit) (i : nat) : option P :=
  match get_param_location c i with
  | None => None
  | Some (cycle, qudit, k) =>
    match c_at c cycle qudit with None => None | Some o => nth_error (op_params o) k end
  end.

Fixpoint set_nth {A} (l : list A) (k : nat) (x : A) : list A :=
  match l, k with
  | [], _ => []
  | _ :: l', O => x :: l'
  | y :: l', S k' => y :: set_nth l' k' x
  end.
Fixpoint remove_nth {A} (l : list A) (k : nat) : list A :=
  match l, k with
  | [], _ => []
  | _ :: l', O => l'
  | y :: l', S k' => y :: remove_nth l' k'
  end.
Fixpoint insert_nth {A} (l : list A) (k : nat) (x : A) : list A :=   (* list.insert(k, x) *)
  match k, l with
  | O, _ => x :: l
  | S k', y :: l' => y :: insert_nth l' k' x
  | S _, [] => [x]
  end.

Definition with_params (o : op) (ps : list P) : op :=
  mk_op (op_loc o) (op_np o) ps (op_u o) (op_du o).

Definition set_param (c : circuit) (i : nat) (x : P) : option circuit :=
  match get_param_location c i with
  | None => None
  | Some (cycle, qudit, k) =>
    Some (mk_circuit (c_radixes c)
            (upd_at (c_ops c) cycle qudit (fun o => with_params o (set_nth (op_params o) k x))))
  end.

(* set_params: op.params = list(params[param_index: param_index + op.num_params]) *)
Fixpoint sp_loop (ops : list (nat * op)) (ps : list P) (param_index : nat) : list (nat * op) :=
  match ops with
  | [] => []
  | (cy, o) :: r =>
    (cy, with_params o (slice ps param_index (param_index + op_np o)))
    :: sp_loop r ps (param_index + op_np o)
  end.
Definition set_params (c : circuit) (ps : list P) : option circuit :=
  if check_parameters (num_params c) ps then Some (mk_circuit (c_radixes c) (sp_loop (c_ops c) ps 0)) else None.

(* freeze_param: gate.with_frozen_params({param: op.params[param]}), params.pop(param), replace_gate.
   FrozenParameterGate.get_full_params inserts the frozen value at its index;
   get_grad keeps the rows of the unfixed parameters. *)
Definition frozen (o : op) (k : nat) (x : P) : op :=
  mk_op (op_loc o) (op_np o - 1) (remove_nth (op_params o) k)
        (fun ps => op_u o (insert_nth ps k x))
        (fun ps => remove_nth (op_du o (insert_nth ps k x)) k).

Definition freeze_param (c : circuit) (i : nat) : option circuit :=
  match get_param_location c i with
  | None => None
  | Some (cycle, qudit, k) =>
    match c_at c cycle qudit with
    | None => None
    | Some o0 =>
      match nth_error (op_params o0) k with
      | None => None
      | Some x => Some (mk_circuit (c_radixes c) (upd_at (c_ops c) cycle qudit (fun o => frozen o k x)))
      end
    end
  end.

(* ------------------------------------------------------------------ specification side *)
(* E_m * ... * E_1 for ops = [o_1; ...; o_m] (o_1 is applied first), starting from acc *)
Fixpoint uprod (radixes : list N) (mats : list (nd R * list nat)) (acc : nd R) : nd R :=
  match mats with
  | [] => acc
  | (M, loc) :: r => uprod radixes r (nd_matmul R r0 radd rmul (embed R r0 radixes loc M) acc)
  end.

End Sim.

Arguments op_loc {R P}.
Arguments op_np {R P}.
Arguments op_params {R P}.
Arguments op_u {R P}.
Arguments op_du {R P}.
Arguments c_radixes {R P}.
Arguments c_ops {R P}.
