(* Theorems for circuit/CExt.v: the fixpoint of unfold_all (termination by nesting depth, the
   fuel never runs out; the result has no block; its timelines are the full expansion). *)
From Coq Require Import List Arith Bool PeanoNat ZArith Lia Permutation.
Import ListNotations.
From BQ Require Import circuit.CModel circuit.CThm circuit.CFold circuit.CFoldThm circuit.CThm2 circuit.CExt.
Open Scope nat_scope.

(* ---- small facts ------------------------------------------------------------------------- *)
Lemma expand1_eq o : expand1 o = expand_op o.
Proof. reflexivity. Qed.

Lemma maxl_ge l x : In x l -> x <= maxl l.
Proof. induction l as [|y l IH]; [intros []|]. change (maxl (y :: l)) with (Nat.max y (maxl l)).
  intros [->|H]; [lia|]. specialize (IH H). lia. Qed.

Lemma maxl_le l n : (forall x, In x l -> x <= n) -> maxl l <= n.
Proof. induction l as [|y l IH]; intros H; [cbn; lia|]. change (maxl (y :: l)) with (Nat.max y (maxl l)).
  assert (y <= n) by (apply H; left; reflexivity). assert (maxl l <= n) by (apply IH; intros; apply H; right; assumption). lia. Qed.

Lemma ops_depth_le l n : ops_depth l <= n <-> (forall o, In o l -> op_depth o <= n).
Proof. unfold ops_depth. split.
  - intros H o Ho. pose proof (maxl_ge (map op_depth l) (op_depth o) (in_map _ _ _ Ho)). lia.
  - intros H. apply maxl_le. intros x Hx. apply in_map_iff in Hx as (o & <- & Ho). auto. Qed.

Lemma cycles_depth_le cs n : cycles_depth cs <= n <-> (forall cy o, In cy cs -> In o cy -> op_depth o <= n).
Proof. unfold cycles_depth. split.
  - intros H cy o Hcy Ho. pose proof (maxl_ge (map ops_depth cs) (ops_depth cy) (in_map _ _ _ Hcy)).
    assert (E : ops_depth cy <= n) by lia. rewrite ops_depth_le in E. auto.
  - intros H. apply maxl_le. intros x Hx. apply in_map_iff in Hx as (cy & <- & Hcy). apply ops_depth_le. intros o Ho. eauto. Qed.

Lemma depth_set_loc o l : op_depth (set_loc o l) = op_depth o.
Proof. destruct o; reflexivity. Qed.
Lemma depth_set_ps o p : op_depth (set_ps o p) = op_depth o.
Proof. destruct o; reflexivity. Qed.
Lemma depth_map_loc L o : op_depth (map_loc L o) = op_depth o.
Proof. apply depth_set_loc. Qed.
Lemma depth_leaf o : o_isblk o = false -> op_depth o = 0.
Proof. destruct o as [b g l p r s]; cbn. intros ->. reflexivity. Qed.
Lemma depth_block o : o_isblk o = true -> op_depth o = S (cycles_depth (o_sub o)).
Proof. destruct o as [b g l p r s]; cbn. intros ->. reflexivity. Qed.
Lemma depth_zero_leaf o : op_depth o = 0 -> o_isblk o = false.
Proof. destruct o as [[|] g l p r s]; cbn; [discriminate|reflexivity]. Qed.

Lemma wf_set_loc o l : length l = length (o_loc o) -> wf_op (set_loc o l) = wf_op o.
Proof. destruct o as [b g l0 p r s]; cbn. intros ->. reflexivity. Qed.
Lemma wf_set_ps o p : wf_op (set_ps o p) = wf_op o.
Proof. destruct o; reflexivity. Qed.
Lemma wf_map_loc L o : wf_op (map_loc L o) = wf_op o.
Proof. unfold map_loc. apply wf_set_loc. apply map_length. Qed.
Lemma wf_block o cy x : o_isblk o = true -> wf_op o = true -> In cy (o_sub o) -> In x cy ->
  wf_op x = true /\ forall a, In a (o_loc x) -> a < length (o_loc o).
Proof. destruct o as [b g l p r s]; cbn. intros -> H Hcy Hx.
  rewrite forallb_forall in H. specialize (H cy Hcy). rewrite forallb_forall in H. specialize (H x Hx).
  apply andb_true_iff in H as [H1 H2]. split; [exact H2|]. intros a Ha. rewrite forallb_forall in H1.
  apply Nat.ltb_lt. apply H1. exact Ha. Qed.

Lemma Forall2_in_l {A B} (R : A -> B -> Prop) X Y x : Forall2 R X Y -> In x X -> exists y, In y Y /\ R x y.
Proof. induction 1 as [|a b X Y Hab F IH]; [intros []|]. intros [<-|H].
  - exists b. split; [left; reflexivity|exact Hab].
  - destruct (IH H) as (y & Hy & S). exists y. split; [right; exact Hy|exact S]. Qed.

(* operations of set_params_cycles cs ps: one of cs up to parameters *)
Lemma spc_in cs ps x : In x (iter_ops (set_params_cycles cs ps)) -> exists cy y p, In cy cs /\ In y cy /\ x = set_ps y p.
Proof. intros H. apply iter_ops_in in H as (cy' & Hcy' & Hx).
  destruct (Forall2_in_l _ _ _ cy' (spc_same cs ps) Hcy') as (b & Hb & F).
  destruct (Forall2_in_l _ _ _ x F Hx) as (y & Hy & (p & ->)).
  apply in_map_iff in Hb as (cy & <- & Hcy). exists cy, y, p. split; [exact Hcy|]. split; [|reflexivity].
  unfold fwd_cycle in Hy. eapply Permutation_in; [apply sort_by_perm|exact Hy]. Qed.

(* what one expansion step yields from a block *)
Lemma expand1_in o x : In x (expand1 o) ->
  (o_isblk o = false /\ x = o) \/
  (o_isblk o = true /\ exists cy y p, In cy (o_sub o) /\ In y cy /\ x = map_loc (o_loc o) (set_ps y p)).
Proof. unfold expand1. destruct (o_isblk o) eqn:B.
  - intros H. right. split; [reflexivity|]. apply in_map_iff in H as (z & <- & Hz).
    apply spc_in in Hz as (cy & y & p & Hcy & Hy & ->). exists cy, y, p. auto.
  - intros [<-|[]]. left. auto. Qed.

Lemma expand1_depth o x n : In x (expand1 o) -> op_depth o <= S n -> op_depth x <= n.
Proof. intros H D. apply expand1_in in H as [(B & ->)|(B & cy & y & p & Hcy & Hy & ->)].
  - rewrite (depth_leaf _ B). lia.
  - rewrite depth_map_loc, depth_set_ps. rewrite (depth_block _ B) in D.
    assert (E : cycles_depth (o_sub o) <= n) by lia. rewrite cycles_depth_le in E. eauto. Qed.

Lemma expand1_wf o x : In x (expand1 o) -> wf_op o = true -> wf_op x = true.
Proof. intros H W. apply expand1_in in H as [(B & ->)|(B & cy & y & p & Hcy & Hy & ->)]; [exact W|].
  rewrite wf_map_loc, wf_set_ps. apply (wf_block o cy y B W Hcy Hy). Qed.

Lemma o_loc_set_ps y p : o_loc (set_ps y p) = o_loc y.
Proof. destruct y; reflexivity. Qed.

(* locality: the inner operations of a well-formed block stay on the block's qudits *)
Lemma expand1_local o x q : In x (expand1 o) -> wf_op o = true -> touches q x = true -> touches q o = true.
Proof. intros H W T. apply expand1_in in H as [(B & ->)|(B & cy & y & p & Hcy & Hy & ->)]; [exact T|].
  destruct (wf_block o cy y B W Hcy Hy) as [_ L].
  unfold touches, map_loc in T. rewrite o_loc_set_loc, o_loc_set_ps in T. apply memn_In in T.
  apply in_map_iff in T as (a & <- & Ha). unfold touches. apply memn_In. apply nth_In. auto. Qed.

Definition wfl (l : list op) : Prop := forall o, In o l -> wf_op o = true.
Definition pq_eq (l1 l2 : list op) : Prop := forall q, filter (touches q) l1 = filter (touches q) l2.

Lemma expand_list_wf l : wfl l -> wfl (expand_list l).
Proof. intros W x Hx. apply in_flat_map in Hx as (o & Ho & Hx). eapply expand1_wf; eauto. Qed.

Lemma expand_list_depth l n : ops_depth l <= S n -> ops_depth (expand_list l) <= n.
Proof. rewrite !ops_depth_le. intros D x Hx. apply in_flat_map in Hx as (o & Ho & Hx). eapply expand1_depth; eauto. Qed.

Lemma filter_expand l q : wfl l ->
  filter (touches q) (expand_list l) = flat_map (fun o => filter (touches q) (expand1 o)) (filter (touches q) l).
Proof. induction l as [|o l IH]; intros W; [reflexivity|]. unfold expand_list in *. cbn [flat_map filter].
  rewrite filter_app, IH by (intros x Hx; apply W; right; exact Hx).
  destruct (touches q o) eqn:T; cbn [flat_map]; [reflexivity|].
  replace (filter (touches q) (expand1 o)) with (@nil op); [reflexivity|].
  symmetry. apply filter_nil_iff. intros x Hx. destruct (touches q x) eqn:Tx; [|reflexivity].
  rewrite (expand1_local o x q Hx (W o (or_introl eq_refl)) Tx) in T. discriminate. Qed.

Lemma pq_eq_expand l1 l2 : wfl l1 -> wfl l2 -> pq_eq l1 l2 -> pq_eq (expand_list l1) (expand_list l2).
Proof. intros W1 W2 E q. rewrite !filter_expand by assumption. rewrite (E q). reflexivity. Qed.

Lemma iter_succ_r' {A} (f : A -> A) n : forall x, Nat.iter (S n) f x = Nat.iter n f (f x).
Proof. induction n as [|n IH]; intros x; [reflexivity|]. change (Nat.iter (S (S n)) f x) with (f (Nat.iter (S n) f x)). rewrite IH. reflexivity. Qed.

Lemma pq_eq_iter n : forall l1 l2, wfl l1 -> wfl l2 -> pq_eq l1 l2 ->
  pq_eq (Nat.iter n expand_list l1) (Nat.iter n expand_list l2).
Proof. induction n as [|n IH]; intros l1 l2 W1 W2 E; [exact E|]. rewrite !iter_succ_r'.
  apply IH; [apply expand_list_wf; exact W1|apply expand_list_wf; exact W2|apply pq_eq_expand; assumption]. Qed.

Lemma expand_leaves l : (forall o, In o l -> o_isblk o = false) -> expand_list l = l.
Proof. induction l as [|o l IH]; intros H; [reflexivity|]. unfold expand_list in *. cbn [flat_map].
  rewrite IH by (intros; apply H; right; assumption). unfold expand1. rewrite (H o (or_introl eq_refl)). reflexivity. Qed.

Lemma iter_leaves n l : (forall o, In o l -> o_isblk o = false) -> Nat.iter n expand_list l = l.
Proof. intros H. induction n as [|n IH]; [reflexivity|]. change (Nat.iter (S n) expand_list l) with (expand_list (Nat.iter n expand_list l)). rewrite IH. apply expand_leaves. exact H. Qed.

(* ---- members of a circuit built by appends ------------------------------------------------ *)
Lemma appends_members (P : op -> Prop) ops : forall s,
  (forall cy o, In cy (cycles s) -> In o cy -> P o) -> (forall o, In o ops -> P o) ->
  forall cy o, In cy (cycles (fold_left (fun s o => fst (append_raw s o)) ops s)) -> In o cy -> P o.
Proof. induction ops as [|x ops IH]; intros s Hs Ho; [exact Hs|]. cbn [fold_left]. apply IH; [|intros; apply Ho; right; assumption].
  intros cy o Hcy Hin. unfold append_raw in Hcy. destruct (Nat.eqb _ _); cbn [fst cycles] in Hcy.
  - apply in_app_or in Hcy as [Hcy|[<-|[]]]; [eauto|]. destruct Hin as [<-|[]]. apply Ho. left; reflexivity.
  - unfold place in Hcy. cbn [cycles] in Hcy. apply (In_update_at _ _ _ []) in Hcy as [->|Hcy]; [|eauto].
    apply in_app_or in Hin as [Hin|[<-|[]]]; [|apply Ho; left; reflexivity].
    destruct (Nat.lt_ge_cases (find_available_cycle s (o_loc x)) (length (cycles s))) as [L|L].
    + eapply Hs; [apply nth_In; exact L|exact Hin].
    + rewrite nth_overflow in Hin by exact L. destruct Hin. Qed.

Lemma unfold_once_is_appends c :
  unfold_once c = fold_left (fun s o => fst (append_raw s o)) (expand_list (iter_ops (cycles c))) (mkC (nq c) (rads c) []).
Proof. unfold unfold_once, expand_list. generalize (mkC (nq c) (rads c) []). induction (iter_ops (cycles c)) as [|o l IH]; intros s; [reflexivity|].
  cbn [fold_left flat_map]. rewrite fold_left_app, IH. f_equal. unfold expand1. destruct (o_isblk o); [|reflexivity].
  rewrite (fold_left_map (fun s o' => fst (append_raw s o')) (map_loc (o_loc o))). reflexivity. Qed.

Lemma unfold_once_members (P : op -> Prop) c :
  (forall o, In o (expand_list (iter_ops (cycles c))) -> P o) ->
  forall cy o, In cy (cycles (unfold_once c)) -> In o cy -> P o.
Proof. intros H. rewrite unfold_once_is_appends. apply appends_members; [intros cy o []|exact H]. Qed.

Lemma has_block_false c : has_block c = false <-> (forall cy o, In cy (cycles c) -> In o cy -> o_isblk o = false).
Proof. unfold has_block. split.
  - intros H cy o Hcy Ho. destruct (o_isblk o) eqn:B; [|reflexivity].
    assert (existsb (existsb o_isblk) (cycles c) = true); [|congruence].
    apply existsb_exists. exists cy. split; [exact Hcy|]. apply existsb_exists. exists o. auto.
  - intros H. destruct (existsb _ _) eqn:E; [|reflexivity]. apply existsb_exists in E as (cy & Hcy & E).
    apply existsb_exists in E as (o & Ho & B). rewrite (H cy o Hcy Ho) in B. discriminate. Qed.

Lemma depth0_no_block c : circ_depth c = 0 -> has_block c = false.
Proof. intros D. apply has_block_false. intros cy o Hcy Ho. apply depth_zero_leaf.
  assert (E : cycles_depth (cycles c) <= 0) by (unfold circ_depth in D; lia). rewrite cycles_depth_le in E. specialize (E cy o Hcy Ho). lia. Qed.

Lemma iter_ops_depth cs n : cycles_depth cs <= n <-> ops_depth (iter_ops cs) <= n.
Proof. rewrite cycles_depth_le, ops_depth_le. split.
  - intros H o Ho. apply iter_ops_in in Ho as (cy & Hcy & Ho). eauto.
  - intros H cy o Hcy Ho. apply H. apply iter_ops_in. eauto. Qed.

Lemma unfold_once_depth c n : circ_depth c <= S n -> circ_depth (unfold_once c) <= n.
Proof. unfold circ_depth. intros D. apply cycles_depth_le. apply (unfold_once_members (fun o => op_depth o <= n)).
  apply ops_depth_le. apply expand_list_depth. apply iter_ops_depth. exact D. Qed.

Definition wfc (c : circuit) : Prop := forall cy o, In cy (cycles c) -> In o cy -> wf_op o = true.
Lemma wf_circ_wfc c : wf_circ c = true <-> wfc c.
Proof. unfold wf_circ, wfc. rewrite forallb_forall. split.
  - intros H cy o Hcy Ho. specialize (H cy Hcy). rewrite forallb_forall in H. auto.
  - intros H cy Hcy. apply forallb_forall. intros o Ho. eauto. Qed.
Lemma wfc_iter c : wfc c -> wfl (iter_ops (cycles c)).
Proof. intros W o Ho. apply iter_ops_in in Ho as (cy & Hcy & Ho). eauto. Qed.
Lemma unfold_once_wfc c : wfc c -> wfc (unfold_once c).
Proof. intros W. unfold wfc. apply (unfold_once_members (fun o => wf_op o = true)). apply expand_list_wf. apply wfc_iter. exact W. Qed.

(* ---- the fixpoint ---------------------------------------------------------------------------- *)
Lemma fuel_mono f : forall c c' k, unfold_all_fuel f c = Some c' -> unfold_all_fuel (f + k) c = Some c'.
Proof. induction f as [|f IH]; intros c c' k; cbn [unfold_all_fuel].
  - destruct (has_block c) eqn:B; [discriminate|]. intros E. destruct (0 + k); cbn [unfold_all_fuel]; rewrite B; exact E.
  - cbn [Nat.add unfold_all_fuel]. destruct (has_block c); [apply IH|auto]. Qed.

(* termination: nesting depth + 1 passes are always enough, whatever the circuit *)
Lemma unfold_all_fuel_total n : forall c, circ_depth c <= n ->
  exists c', unfold_all_fuel (S n) c = Some c' /\ has_block c' = false.
Proof. induction n as [|n IH]; intros c D.
  - assert (B : has_block c = false) by (apply depth0_no_block; lia). exists c. cbn [unfold_all_fuel]. rewrite B. auto.
  - cbn [unfold_all_fuel]. destruct (has_block c) eqn:B; [|exists c; auto].
    apply IH. apply unfold_once_depth. exact D. Qed.

Theorem unfold_all_terminates c :
  exists c', unfold_all c = Some c' /\ has_block c' = false /\
             forall fuel, circ_depth c < fuel -> unfold_all_fuel fuel c = Some c'.
Proof. destruct (unfold_all_fuel_total (circ_depth c) c (le_n _)) as (c' & E & B). exists c'. split; [exact E|]. split; [exact B|].
  intros fuel L. replace fuel with (S (circ_depth c) + (fuel - S (circ_depth c))) by lia. apply fuel_mono. exact E. Qed.

(* the result: on every qudit, the full expansion of the iteration order *)
Lemma unfold_all_fuel_tl n : forall c c' q, circ_depth c <= n -> Forall amo (cycles c) -> wfc c ->
  unfold_all_fuel (S n) c = Some c' ->
  tl c' q = filter (touches q) (Nat.iter n expand_list (iter_ops (cycles c))).
Proof. induction n as [|n IH]; intros c c' q D A W.
  - assert (B : has_block c = false) by (apply depth0_no_block; lia). cbn [unfold_all_fuel]. rewrite B. intros E; inversion E; subst.
    change (Nat.iter 0 expand_list (iter_ops (cycles c'))) with (iter_ops (cycles c')). symmetry. apply proj_iter. exact A.
  - cbn [unfold_all_fuel]. destruct (has_block c) eqn:B.
    + intros E. rewrite (IH (unfold_once c) c' q (unfold_once_depth c n D) (Inv_Forall_amo _ (unfold_once_inv c)) (unfold_once_wfc c W) E).
      rewrite iter_succ_r'. apply pq_eq_iter.
      * apply wfc_iter. apply unfold_once_wfc. exact W.
      * apply expand_list_wf. apply wfc_iter. exact W.
      * intros q'. rewrite (proj_iter _ q' (Inv_Forall_amo _ (unfold_once_inv c))). apply unfold_once_tl.
    + intros E; inversion E; subst. rewrite iter_leaves; [symmetry; apply proj_iter; exact A|].
      intros o Ho. apply iter_ops_in in Ho as (cy & Hcy & Ho). rewrite has_block_false in B. eauto. Qed.

Theorem unfold_all_tl c c' q : Forall amo (cycles c) -> wf_circ c = true -> unfold_all c = Some c' ->
  tl c' q = filter (touches q) (full_expand c).
Proof. intros A W E. apply (unfold_all_fuel_tl (circ_depth c)); auto. apply wf_circ_wfc. exact W. Qed.

(* the specification list is flat: after `depth` expansion steps no block is left *)
Lemma iter_depth n : forall l, ops_depth l <= n -> ops_depth (Nat.iter n expand_list l) <= 0.
Proof. induction n as [|n IH]; intros l D; [exact D|]. rewrite iter_succ_r'. apply IH. apply expand_list_depth. exact D. Qed.

Theorem full_expand_flat c o : In o (full_expand c) -> o_isblk o = false.
Proof. intros H. apply depth_zero_leaf. unfold full_expand in H.
  assert (D : ops_depth (Nat.iter (circ_depth c) expand_list (iter_ops (cycles c))) <= 0)
    by (apply iter_depth; apply iter_ops_depth; apply le_n).
  rewrite ops_depth_le in D. specialize (D o H). lia. Qed.
