(* C05: the history theorem over the WHOLE alphabet (unfold_all and renumber_qudits included) with no
   side condition but the constructor's `num_qudits > 0`; and the width-0 refutation of the statement
   without it (Circuit(0) is rejected by the constructor). *)
From Coq Require Import List ZArith Bool Lia ZifyBool Arith.
Import ListNotations.
From BQ Require Import circuit.CModel circuit.CThm circuit.CThm2.

Definition pos (c : circuit) : Prop := 0 < nq c.

Lemma seq_ops_pos {A} (f : circuit -> A -> res) l :
  (forall c x, pos c -> pos (fst (f c x))) -> forall c, pos c -> pos (fst (seq_ops f c l)).
Proof. intros Hf. induction l as [|x t IH]; intros c H; cbn [seq_ops fst]; auto.
  specialize (Hf c x H). destruct (f c x) as [c' [| | | |e]]; cbn [fst] in *; auto. Qed.

Lemma fold_left_pos {A} (f : circuit -> A -> circuit) l :
  (forall c x, pos c -> pos (f c x)) -> forall c, pos c -> pos (fold_left f l c).
Proof. intros Hf. induction l as [|x t IH]; intros c H; cbn; auto. Qed.

Lemma append_pos c o : pos c -> pos (fst (append c o)).
Proof. unfold pos. rewrite (proj1 (append_nq c o)). auto. Qed.
Lemma append_raw_pos c o : pos c -> pos (fst (append_raw c o)).
Proof. unfold pos. rewrite (proj1 (append_raw_nq c o)). auto. Qed.
Lemma insert_pos c ci o : pos c -> pos (fst (insert c ci o)).
Proof. unfold pos. rewrite (proj1 (insert_nq c ci o)). auto. Qed.
Lemma remove_op_pos c i q : pos c -> pos (remove_op c i q).
Proof. unfold pos. rewrite (proj1 (remove_op_nq c i q)). auto. Qed.

Lemma pop_pos c pt : pos c -> pos (fst (pop c pt)).
Proof. intros H. unfold pop. destruct pt as [[ci qi]|].
  - destruct (negb _); cbn [fst]; auto. destruct (get_cell _ _ _); cbn [fst]; auto. apply remove_op_pos; exact H.
  - destruct (ncyc c); cbn [fst]; auto. destruct (rev_cycle _); cbn [fst]; auto. apply remove_op_pos; exact H. Qed.

Lemma append_circuit_pos c sub loc g : pos c -> pos (fst (append_circuit c sub loc g)).
Proof. intros H. unfold append_circuit. destruct (negb _); cbn [fst]; auto. destruct g; [apply append_pos; exact H|].
  pose proof (seq_ops_pos append (map (map_loc loc) (iter_ops (cycles sub))) (fun c x Hc => append_pos c x Hc) c H) as H1.
  destruct (seq_ops append c _) as [c' [| | | |e]]; exact H1. Qed.

Lemma insert_circuit_pos c ci sub loc g : pos c -> pos (fst (insert_circuit c ci sub loc g)).
Proof. intros H. unfold insert_circuit. destruct (negb _); cbn [fst]; auto. destruct g; [apply insert_pos; exact H|].
  destruct (Z.leb _ _).
  - pose proof (append_circuit_pos c sub loc false H) as H1. destruct (append_circuit c sub loc false) as [c' [| | | |e]]; exact H1.
  - apply seq_ops_pos; auto. intros; apply insert_pos; assumption. Qed.

Lemma batch_pop_pos c pts : pos c -> pos (fst (batch_pop c pts)).
Proof. intros H. unfold batch_pop. destruct (negb _); cbn [fst]; auto. destruct (dedup_pts _); cbn [fst]; auto.
  apply fold_left_pos; auto. intros; apply remove_op_pos; assumption. Qed.

Lemma replace_pos c pt o : pos c -> pos (fst (replace c pt o)).
Proof. intros H. destruct pt as [ci qi]. unfold replace.
  destruct (valid_op c o); cbn [negb fst]; [|exact H].
  destruct (point_in_range c ci qi); cbn [negb fst]; [|exact H].
  destruct (get_cell _ _ _) as [old|]; cbn [fst]; [|exact H].
  destruct (disjointb _ _); cbn [fst]; [exact H|].
  destruct (seteqb _ _); cbn [fst]; [exact H|].
  pose proof (remove_op_pos c (normZ ci (ncyc c)) (normZ qi (nq c)) H) as H1.
  set (c1 := remove_op c _ _) in *.
  set (c2 := if Nat.eqb _ (ncyc c1) then mkC (nq c1) (rads c1) (cycles c1 ++ [[]]) else c1).
  assert (H2 : pos c2) by (unfold c2; destruct (Nat.eqb _ _); auto).
  pose proof (insert_pos c2 (Z.of_nat (normZ ci (ncyc c))) o H2) as H3.
  destruct (insert c2 _ o) as [c3 [| | | |e]]; exact H3. Qed.

Lemma batch_replace_loop_pos l : forall c cur shift, pos c -> pos (fst (batch_replace_loop c cur shift l)).
Proof. induction l as [|[[i q] o] t IH]; intros c cur shift H; cbn [batch_replace_loop fst]; auto.
  pose proof (replace_pos c (Z.of_nat (i + (if Nat.eqb i cur then shift else 0)), Z.of_nat q) o H) as H1.
  destruct (replace c _ o) as [c' [| | | |e]]; cbn [fst] in *; auto. Qed.

Lemma batch_replace_pos c pts ops : pos c -> pos (fst (batch_replace c pts ops)).
Proof. intros H. unfold batch_replace. destruct (negb _); cbn [fst]; auto. destruct (negb _); cbn [fst]; auto.
  apply batch_replace_loop_pos. exact H. Qed.

Lemma replace_with_circuit_pos c pt sub g : pos c -> pos (fst (replace_with_circuit c pt sub g)).
Proof. intros H. unfold replace_with_circuit. pose proof (pop_pos c (Some pt) H) as H1.
  destruct (pop c (Some pt)) as [c' [| |old| |e]]; cbn [fst] in *; auto.
  destruct (negb _); cbn [fst]; auto. destruct (negb _); cbn [fst]; auto. apply insert_circuit_pos. exact H1. Qed.

Lemma unfold_pos c pt : pos c -> pos (fst (unfold c pt)).
Proof. intros H. destruct pt as [ci qi]. unfold unfold. destruct (negb _); cbn [fst]; auto.
  destruct (get_cell _ _ _); cbn [fst]; auto. destruct (negb _); cbn [fst]; auto. apply replace_with_circuit_pos. exact H. Qed.

Lemma unfold_once_nq c : nq (unfold_once c) = nq c.
Proof. unfold unfold_once.
  assert (G : forall ops s, nq (fold_left (fun s o =>
               if o_isblk o then
                 fold_left (fun s o' => fst (append_raw s (map_loc (o_loc o) o')))
                           (iter_ops (set_params_cycles (o_sub o) (o_ps o))) s
               else fst (append_raw s o)) ops s) = nq s).
  { induction ops as [|o t IH]; intros s; cbn [fold_left]; auto. rewrite IH. destruct (o_isblk o).
    - generalize (iter_ops (set_params_cycles (o_sub o) (o_ps o))). intros l. revert s.
      induction l as [|x l IHl]; intros s; cbn [fold_left]; auto. rewrite IHl. apply append_raw_nq.
    - apply append_raw_nq. }
  rewrite G. reflexivity. Qed.

Lemma unfold_all_nq fuel : forall c c', unfold_all_fuel fuel c = Some c' -> nq c' = nq c.
Proof. induction fuel as [|f IH]; intros c c'; cbn [unfold_all_fuel]; destruct (has_block c); try discriminate.
  - intros E; injection E as <-; reflexivity.
  - intros E. rewrite (IH _ _ E). apply unfold_once_nq.
  - intros E; injection E as <-; reflexivity. Qed.

Lemma compress_nq c : nq (compress c) = nq c.
Proof. unfold compress. rewrite appends_nq. reflexivity. Qed.

Lemma append_qudit_pos c r : pos c -> pos (fst (append_qudit c r)).
Proof. unfold pos, append_qudit. destruct (Nat.ltb r 2); cbn [fst nq]; lia. Qed.
Lemma insert_qudit_pos c qi r : pos c -> pos (fst (insert_qudit c qi r)).
Proof. intros H. unfold insert_qudit. destruct (Nat.ltb r 2) eqn:E; cbn [fst]; auto.
  destruct (Z.leb _ _); [apply append_qudit_pos; exact H|]. unfold pos. cbn [fst nq]. lia. Qed.
Lemma pop_qudit_pos c qi : pos c -> pos (fst (pop_qudit c qi)).
Proof. unfold pos. intros H. unfold pop_qudit. destruct (in_rangeZ qi (nq c)); cbn [negb fst]; auto.
  destruct (Nat.eqb_spec (nq c) 1); cbn [fst nq]; auto. lia. Qed.
Lemma renumber_pos c perm : pos c -> pos (fst (renumber_qudits c perm)).
Proof. intros H. unfold renumber_qudits. destruct (negb _); cbn [fst]; auto.
  destruct (negb _); cbn [fst]; auto. destruct (negb _); cbn [fst]; auto. Qed.
Lemma iadd_pos a b : pos a -> pos (fst (c_iadd a b)).
Proof. intros H. unfold c_iadd. pose proof (append_circuit_pos a b (all_loc a) false H) as H1.
  destruct (append_circuit a b (all_loc a) false) as [s [| | | |e]]; exact H1. Qed.
Lemma rep_append_pos n : forall s a, pos s -> pos (rep_append n s a).
Proof. induction n as [|n IH]; intros s a H; cbn [rep_append]; auto. apply IH. apply append_circuit_pos. exact H. Qed.

Theorem do_callF_pos c k : pos c -> pos (do_callF c k).
Proof. intros H. destruct k; cbn [do_callF].
  - apply append_pos; auto.
  - apply seq_ops_pos; auto. intros; apply append_pos; assumption.
  - apply append_circuit_pos; auto.
  - apply insert_pos; auto.
  - apply insert_circuit_pos; auto.
  - apply pop_pos; auto.
  - apply batch_pop_pos; auto.
  - apply replace_pos; auto.
  - apply batch_replace_pos; auto.
  - apply replace_with_circuit_pos; auto.
  - apply unfold_pos; auto.
  - destruct (unfold_all_fuel fuel c) eqn:E; auto. unfold pos. rewrite (unfold_all_nq _ _ _ E). exact H.
  - unfold pos. rewrite compress_nq. exact H.
  - apply append_qudit_pos; auto.
  - apply insert_qudit_pos; auto.
  - apply pop_qudit_pos; auto.
  - apply renumber_pos; auto.
  - exact H.
  - rewrite add_self_unchanged. exact H.
  - apply iadd_pos; auto.
  - exact H.
  - apply rep_append_pos; auto. Qed.

(* ---- unfold_all keeps every operation on qudits of the circuit, when the circuit has a qudit:
   an inner operation is relabelled through the block's location, `location[q]`; the model's total
   `nth q location 0` answers 0 for an inner qudit outside the block - still a qudit of the circuit *)
Lemma map_loc_ok n location o : 0 < n -> Forall (fun a => a < n) location -> op_ok (fun a => a < n) (map_loc location o).
Proof. intros Hn Hl a Ha. rewrite map_loc_relab in Ha. unfold relab in Ha. rewrite o_loc_set_loc in Ha.
  apply in_map_iff in Ha as (q & <- & _). destruct (Nat.lt_ge_cases q (length location)) as [L|L].
  - rewrite Forall_forall in Hl. apply Hl. apply nth_In. exact L.
  - rewrite nth_overflow by exact L. exact Hn. Qed.

Lemma unfold_once_inr c : pos c -> in_range c -> in_range (unfold_once c).
Proof. intros Hp H. unfold in_range. rewrite unfold_once_nq. unfold unfold_once.
  assert (G : forall ops s, inr (nq c) s -> (forall o, In o ops -> op_ok (fun a => a < nq c) o) ->
     inr (nq c) (fold_left (fun s o =>
               if o_isblk o then
                 fold_left (fun s o' => fst (append_raw s (map_loc (o_loc o) o')))
                           (iter_ops (set_params_cycles (o_sub o) (o_ps o))) s
               else fst (append_raw s o)) ops s)).
  { induction ops as [|o t IH]; intros s Hs Ho; cbn [fold_left]; auto.
    apply IH; [|intros; apply Ho; right; assumption].
    assert (Hoo : op_ok (fun a => a < nq c) o) by (apply Ho; left; reflexivity).
    destruct (o_isblk o).
    - generalize (iter_ops (set_params_cycles (o_sub o) (o_ps o))). intros l. revert s Hs.
      induction l as [|x l IHl]; intros s Hs; cbn [fold_left]; auto. apply IHl.
      apply aq_append_raw; auto. apply map_loc_ok; auto. apply Forall_forall. exact Hoo.
    - apply aq_append_raw; auto. }
  apply G.
  - intros cy o a [].
  - intros o Ho a Ha. apply iter_ops_in in Ho as (cy & H1 & H2). apply (H cy o a); auto. Qed.

Lemma unfold_all_inr fuel : forall c c', pos c -> in_range c -> unfold_all_fuel fuel c = Some c' -> in_range c'.
Proof. induction fuel as [|f IH]; intros c c' Hp H; cbn [unfold_all_fuel]; destruct (has_block c); try discriminate.
  - intros E; injection E as <-; exact H.
  - apply IH; [unfold pos; rewrite unfold_once_nq; exact Hp|apply unfold_once_inr; auto].
  - intros E; injection E as <-; exact H. Qed.

Theorem do_callF_inr_pos c k : Inv c -> pos c -> in_range c -> in_range (do_callF c k).
Proof. intros HI Hp H. destruct k; try (apply do_callF_inr; [exact HI|exact H|exact I]).
  cbn [do_callF]. destruct (unfold_all_fuel fuel c) eqn:E; auto. eapply unfold_all_inr; eauto. Qed.

(* every history over the whole alphabet (22 calls, ANY arguments) from any circuit with at least one
   qudit that satisfies the invariant and has its operations on its qudits *)
Theorem history_inv_unconditional ks : forall c, Inv c -> pos c -> in_range c ->
  Inv (fold_left do_callF ks c) /\ in_range (fold_left do_callF ks c) /\ pos (fold_left do_callF ks c).
Proof. induction ks as [|k t IH]; intros c HI Hp H; cbn [fold_left]; auto.
  apply IH.
  - apply do_callF_inv; auto. destruct k; auto.
  - apply do_callF_pos; auto.
  - apply do_callF_inr_pos; auto. Qed.

Theorem history_inv_unconditional_empty ks n rs : 0 < n ->
  Inv (fold_left do_callF ks (mkC n rs [])) /\ in_range (fold_left do_callF ks (mkC n rs [])).
Proof. intros Hn. destruct (history_inv_unconditional ks (mkC n rs [])) as (A & B & _); auto.
  - constructor. - intros cy o a []. Qed.

(* the width hypothesis is necessary in the model: on a circuit WITHOUT qudits (which the constructor
   rejects: `Circuit(0)` raises ValueError) unfold_all of a block on no qudits brings in an inner
   operation on "qudit 0", insert_qudit shifts it to qudit 1 of a 1-qudit circuit, a checked append
   on qudit 0 joins it in the same cycle and renumber_qudits [0] maps both to qudit 0 *)
Definition w0_history : list callF :=
  [FAppend (Op true 0 [] [] [] [[Op false 1 [0] [] [2] []]]); FUnfoldAll 2; FInsertQudit (-1) 2;
   FAppend (Op false 1 [0] [] [2] []); FRenumber [0]].
Theorem history_width0_refuted : ~ Inv (fold_left do_callF w0_history (mkC 0 [] [])).
Proof. intros H. assert (E : cycles (fold_left do_callF w0_history (mkC 0 [] [])) =
    [[Op false 1 [0] [] [2] []; Op false 1 [0] [] [2] []]]) by (vm_compute; reflexivity).
  unfold Inv in H. rewrite E in H. inversion H as [|? ? [_ H1] _]; subst. specialize (H1 0). cbn in H1. lia. Qed.

Theorem history_width0_inv_before_renumber :
  Inv (fold_left do_callF (firstn 4 w0_history) (mkC 0 [] [])) /\ ~ in_range (fold_left do_callF (firstn 4 w0_history) (mkC 0 [] [])).
Proof. split.
  - apply history_inv_full; [constructor|]. cbn. auto.
  - intros H. assert (E : fold_left do_callF (firstn 4 w0_history) (mkC 0 [] []) =
      mkC 1 [2] [[Op false 1 [1] [] [2] []; Op false 1 [0] [] [2] []]]) by (vm_compute; reflexivity).
    rewrite E in H. specialize (H _ (Op false 1 [1] [] [2] []) 1 (or_introl eq_refl) (or_introl eq_refl) (or_introl eq_refl)).
    cbn in H. lia. Qed.
