(* circuit/SimTraceThm.v - the matrix semantics of a program satisfies the commutation hypothesis (den_comm) of
   lib/Trace.v: sequences equal up to swapping adjacent operations on disjoint locations have the same product.
   (Trace.equiv_prod itself wants a monoid with Leibniz equality; matrices here are compared with nd_eq, so the
   congruence is re-proved for nd_eq on top of embed_comm_disjoint.) *)
From Coq Require Import List NArith Arith Bool ZArith Lia Ring Permutation.
Import ListNotations.
From BQ Require Import lib.Tensor lib.TensorThm lib.Trace circuit.Sim circuit.SimThm circuit.SimGradThm.
Open Scope N_scope.

Section TraceSem.
Variable R : Type.
Variables (r0 r1 : R) (radd rmul rsub : R -> R -> R) (ropp : R -> R) (rconj : R -> R).
Hypothesis Rth : ring_theory r0 r1 radd rmul rsub ropp (@eq R).
Variable radixes : list N.
Hypothesis Hpos : allpos radixes.

Local Notation nd_matmul := (nd_matmul R r0 radd rmul).
Local Notation nd_eq := (nd_eq R).
Local Notation embed := (embed R r0).
Local Notation uprod := (uprod R r0 radd rmul).
Local Notation mop := (nd R * list nat)%type.
Local Notation equiv := (equiv mop snd).
Local Notation wf_mat := (wf_mat R radixes).
Local Notation sq := (sq R radixes).

Lemma equiv_Forall (Q : mop -> Prop) s t : equiv s t -> (Forall Q s <-> Forall Q t).
Proof.
  induction 1 as [s|a b s t H|s t u _ IH1 _ IH2]; [tauto | | tauto].
  rewrite !Forall_app. split; intros [H1 H2]; split; auto; inversion H2 as [|? ? Ha H3]; subst;
    inversion H3 as [|? ? Hb H4]; subst; repeat constructor; auto.
Qed.

Theorem equiv_uprod s t : equiv s t -> Forall wf_mat s ->
  forall acc, sq acc -> nd_eq (uprod radixes s acc) (uprod radixes t acc).
Proof.
  induction 1 as [s|a b s t H|s t u H1 IH1 H2 IH2]; intros Hwf acc Hacc.
  - apply nd_eq_refl.
  - rewrite !(uprod_app R r0 radd rmul). set (X := uprod radixes s acc).
    assert (HX : sq X) by (apply sq_uprod; exact Hacc).
    apply Forall_app in Hwf as [_ Hwf]. inversion Hwf as [|? ? [Hwa _] Hwf']; subst. inversion Hwf' as [|? ? [Hwb _] _]; subst.
    destruct a as [A la], b as [B lb]. cbn [Sim.uprod fst snd] in *.
    set (Ea := embed radixes la A). set (Eb := embed radixes lb B).
    assert (HEa : sq Ea) by (unfold Ea; apply sq_embed). assert (HEb : sq Eb) by (unfold Eb; apply sq_embed).
    apply uprod_proper; [apply sq_mm; auto; apply sq_mm; auto|].
    eapply nd_eq_trans; [apply nd_eq_sym; apply (mm_assoc R r0 r1 radd rmul rsub ropp Rth radixes); auto|].
    eapply nd_eq_trans; [| apply (mm_assoc R r0 r1 radd rmul rsub ropp Rth radixes); auto].
    apply (mm_proper R r0 radd rmul radixes); [apply sq_mm; auto | exact HX | | apply nd_eq_refl].
    eapply embed_comm_disjoint; eauto. intros q Hb Ha. exact (H q Ha Hb).
  - eapply nd_eq_trans; [apply IH1; auto|]. apply IH2; auto. apply (equiv_Forall _ _ _ H1). exact Hwf.
Qed.
End TraceSem.
