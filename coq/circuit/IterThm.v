(* C06 - restricted iteration: proofs about circuit/Iter.v *)
From Coq Require Import ZArith List Bool Lia ZifyBool.
From BQ Require Import circuit.Iter.
Import ListNotations.
Open Scope Z_scope.

Section IterThm.
Variable A : Type.
Variable loc : A -> list Z.
Variable cell : Z -> Z -> option (option A).

Definition cyc (e : Z * Z * A) : Z := fst (fst e).
Definition qd (e : Z * Z * A) : Z := snd (fst e).
Definition opf (e : Z * Z * A) : A := snd e.
Definition pt (e : Z * Z * A) : point := (cyc e, qd e).

(* what __init__ establishes (it_init_wf below) *)
Definition cfg_wf (c : cfg) : Prop :=
  (forall q, memZ q (qudits c) = true -> c_minq c <= q <= c_maxq c) /\
  (forall q iv, lookup q (c_region c) = Some iv -> c_minc c <= fst iv /\ snd iv <= c_maxc c) /\
  plt (c_start c) (c_minc c, c_minq c) = false /\ plt (c_maxc c, c_maxq c) (c_end c) = false /\
  memZ (c_minq c) (qudits c) = true /\ memZ (c_maxq c) (qudits c) = true.

(* the grid invariant of Circuit._circuit: an operation sits on every qudit of its location, in one cycle *)
Definition grid_ok : Prop :=
  (forall cy q op, cell cy q = Some (Some op) -> memZ q (loc op) = true) /\
  (forall cy q q' op, cell cy q = Some (Some op) -> memZ q' (loc op) = true -> cell cy q' = Some (Some op)).

Lemma memZ_app : forall x a b, memZ x (a ++ b) = memZ x a || memZ x b.
Proof. intros. apply existsb_app. Qed.

Lemma memZ_cons : forall x a l, memZ x (a :: l) = (x =? a) || memZ x l.
Proof. reflexivity. Qed.

Lemma move_adv : forall c cy q skip cy' q' skip' p,
  move c cy q skip = (cy', q', skip') -> before c p (cy', q') = false -> before c p (cy, q) = false.
Proof.
  intros c cy q skip cy' q' skip' [a b]. unfold move, before, plt; simpl.
  destruct (c_reverse c).
  - destruct (q - 1 <? c_minq c) eqn:E; intros H; inversion H; subst; intros; lia.
  - destruct (c_maxq c <? q + 1) eqn:E; intros H; inversion H; subst; intros; lia.
Qed.

Lemma move_row : forall c cy q skip cy' q' skip',
  move c cy q skip = (cy', q', skip') ->
  (cy' = cy /\ skip' = skip) \/ (skip' = [] /\ forall p, before c p (cy', q') = false -> fst p <> cy).
Proof.
  intros c cy q skip cy' q' skip'. unfold move, before, plt.
  destruct (c_reverse c).
  - destruct (q - 1 <? c_minq c) eqn:E; intros H; inversion H; subst; [right|left; auto].
    split; [reflexivity|]. intros [a b]; simpl; intros; lia.
  - destruct (c_maxq c <? q + 1) eqn:E; intros H; inversion H; subst; [right|left; auto].
    split; [reflexivity|]. intros [a b]; simpl; intros; lia.
Qed.

(* at a point where the inner loop stops and step does not raise StopIteration, the pointer is in the requested area *)
Lemma stop_in_area : forall c cy q skip,
  cfg_wf c -> cond c cy q skip = false ->
  plt (cy, q) (c_start c) || plt (c_end c) (cy, q) = false ->
  in_area c cy q = true /\ memZ q skip = false.
Proof.
  intros c cy q skip (W1 & W2 & W3 & W4 & _) Hc Hs. unfold cond in Hc. unfold in_area, overlaps.
  destruct (memZ q skip) eqn:Hk; [discriminate|]. destruct (memZ q (qudits c)) eqn:Hq; [|discriminate]. simpl in Hc.
  split; [|reflexivity].
  assert (Hdir : (if c_reverse c then c_minc c <=? cy else cy <=? c_maxc c) = true).
  { destruct (c_start c) as [s1 s2]. destruct (c_end c) as [e1 e2]. unfold plt in *; simpl in *. destruct (c_reverse c); lia. }
  rewrite Hdir in Hc. destruct (lookup q (c_region c)); [|discriminate].
  destruct (in_iv cy i); [|discriminate]. apply orb_false_iff in Hs. destruct Hs as [-> ->]. reflexivity.
Qed.

Lemma before_irrefl : forall c p, before c p p = false.
Proof. intros c [a b]. unfold before, plt; simpl. destruct (c_reverse c); lia. Qed.

Lemma before_total : forall c p p', before c p' p = false -> p' <> p -> before c p p' = true.
Proof.
  intros c [a b] [a' b']. unfold before, plt; simpl. intros H N.
  assert (a' <> a \/ b' <> b) by (destruct (Z.eq_dec a' a); [right; congruence|left; auto]).
  destruct (c_reverse c); lia.
Qed.

Definition elem_ok (c : cfg) (cy q : Z) (skip : list Z) (e : Z * Z * A) : Prop :=
  in_area c (cyc e) (qd e) = true /\ cell (cyc e) (qd e) = Some (Some (opf e)) /\
  (c_exclude c = true -> inside A loc c (cyc e) (opf e) = true) /\
  before c (pt e) (cy, q) = false /\ (cyc e = cy -> memZ (qd e) skip = false).
Definition pair_ok (c : cfg) (e1 e2 : Z * Z * A) : Prop :=
  before c (pt e1) (pt e2) = true /\ (cyc e1 = cyc e2 -> memZ (qd e2) (loc (opf e1)) = false).

Lemma run_sound : forall fuel c cy q skip out,
  cfg_wf c -> (forall cy q op, cell cy q = Some (Some op) -> memZ q (loc op) = true) ->
  run A loc cell fuel c cy q skip = Ok out ->
  Forall (elem_ok c cy q skip) out /\ ForallOrdPairs (pair_ok c) out.
Proof.
  induction fuel as [|f IH]; intros c cy q skip out W G1 H; simpl in H; [discriminate|].
  destruct (cond c cy q skip) eqn:Hc.
  - destruct (move c cy q skip) as [[cy' q'] skip'] eqn:Hm.
    apply IH in H; auto. destruct H as [HF HP]. split; [|exact HP].
    eapply Forall_impl; [|exact HF]. intros e (a & b & d & g & h). repeat split; auto.
    + eapply move_adv; eauto.
    + intros E. destruct (move_row _ _ _ _ _ _ _ Hm) as [[-> ->]|[_ Hr]]; [auto|].
      exfalso. apply (Hr (pt e)); auto.
  - destruct (plt (cy, q) (c_start c) || plt (c_end c) (cy, q)) eqn:Hs.
    { inversion H; subst. split; constructor. }
    destruct (stop_in_area _ _ _ _ W Hc Hs) as [Ha Hk].
    destruct (cell cy q) as [[op|]|] eqn:Hcell; [| |discriminate].
    + assert (Hrest : forall out', run A loc cell f c cy q (loc op ++ skip) = Ok out' ->
                Forall (elem_ok c cy q skip) out' /\ ForallOrdPairs (pair_ok c) out' /\
                Forall (pair_ok c (cy, q, op)) out').
      { intros out' H'. apply IH in H'; auto. destruct H' as [HF HP]. split; [|split; [exact HP|]].
        - eapply Forall_impl; [|exact HF]. intros e (a & b & d & g & h). repeat split; auto.
          intros E. specialize (h E). rewrite memZ_app in h. apply orb_false_iff in h. tauto.
        - eapply Forall_impl; [|exact HF]. intros e (a & b & d & g & h). unfold pair_ok; simpl.
          assert (Hn : cyc e = cy -> memZ (qd e) (loc op) = false).
          { intros E. specialize (h E). rewrite memZ_app in h. apply orb_false_iff in h. tauto. }
          split; [|intros E; apply Hn; symmetry; exact E].
          apply before_total; [exact g|]. unfold pt. intros E. injection E as E1 E2.
          specialize (Hn E1). assert (Hq : qd e = q) by exact E2. rewrite Hq in Hn. rewrite (G1 _ _ _ Hcell) in Hn. discriminate. }
      destruct (c_exclude c && negb (forallb (fun x => memZ x (qudits c)) (loc op))) eqn:X1.
      { apply Hrest in H. tauto. }
      destruct (c_exclude c && negb (forallb (fun x => overlaps c cy x) (loc op))) eqn:X2.
      { apply Hrest in H. tauto. }
      destruct (run A loc cell f c cy q (loc op ++ skip)) as [l|] eqn:Hr; [|discriminate].
      inversion H; subst. destruct (Hrest _ eq_refl) as (HF & HP & HH). split.
      * constructor; [|exact HF]. unfold elem_ok, cyc, qd, opf, pt; simpl. repeat split; auto.
        -- intros Ex. rewrite Ex in X1, X2. simpl in X1, X2. unfold inside.
           apply negb_false_iff in X1. apply negb_false_iff in X2. rewrite X1, X2. reflexivity.
        -- apply before_irrefl.
      * constructor; assumption.
    + apply IH in H; auto. destruct H as [HF HP]. split; [|exact HP].
      eapply Forall_impl; [|exact HF]. intros e (a & b & d & g & h). repeat split; auto.
      intros E. specialize (h E). rewrite memZ_cons in h. apply orb_false_iff in h. tauto.
Qed.

(* ---- completeness: every operation with a point in the requested area is returned ---- *)
Definition first_pt (c : cfg) : point := if c_reverse c then c_end c else c_start c.

Lemma area_cond : forall c cy q skip, in_area c cy q = true -> memZ q skip = false -> cond c cy q skip = false.
Proof.
  intros c cy q skip Ha Hk. unfold in_area, overlaps in Ha. unfold cond. rewrite Hk.
  apply andb_true_iff in Ha. destruct Ha as [Ha Ho]. apply andb_true_iff in Ha. destruct Ha as [_ Hq].
  rewrite Hq. simpl. destruct (lookup q (c_region c)); [|discriminate]. rewrite Ho. reflexivity.
Qed.

Lemma move_cover : forall c cy q skip cy' q' skip' p,
  move c cy q skip = (cy', q', skip') -> before c p (cy, q) = false -> p <> (cy, q) ->
  c_minq c <= snd p <= c_maxq c -> before c p (cy', q') = false.
Proof.
  intros c cy q skip cy' q' skip' [a b]. unfold move, before, plt; simpl. intros Hm Hb Hn Hr.
  assert (a <> cy \/ b <> q) by (destruct (Z.eq_dec a cy); [right; congruence|left; auto]).
  destruct (c_reverse c).
  - destruct (q - 1 <? c_minq c) eqn:E; inversion Hm; subst; lia.
  - destruct (c_maxq c <? q + 1) eqn:E; inversion Hm; subst; lia.
Qed.

Lemma move_mono : forall c cy q skip cy' q' skip' p,
  move c cy q skip = (cy', q', skip') -> before c (cy, q) p = false -> before c (cy', q') p = false.
Proof.
  intros c cy q skip cy' q' skip' [a b]. unfold move, before, plt; simpl. intros Hm Hb.
  destruct (c_reverse c).
  - destruct (q - 1 <? c_minq c) eqn:E; inversion Hm; subst; lia.
  - destruct (c_maxq c <? q + 1) eqn:E; inversion Hm; subst; lia.
Qed.

Lemma area_qudit : forall c cy q, in_area c cy q = true -> memZ q (qudits c) = true.
Proof.
  intros c cy q Ha. unfold in_area in Ha. apply andb_true_iff in Ha. destruct Ha as [Ha _].
  apply andb_true_iff in Ha. tauto.
Qed.

Lemma run_complete : forall fuel c cy q skip out,
  cfg_wf c ->
  (forall cy q q' op, cell cy q = Some (Some op) -> memZ q' (loc op) = true -> cell cy q' = Some (Some op)) ->
  before c (cy, q) (first_pt c) = false ->
  run A loc cell fuel c cy q skip = Ok out ->
  forall cy1 q1 op, in_area c cy1 q1 = true -> cell cy1 q1 = Some (Some op) ->
    before c (cy1, q1) (cy, q) = false -> ~ (cy1 = cy /\ memZ q1 skip = true) ->
    (c_exclude c = true -> inside A loc c cy1 op = true) ->
    exists q', In (cy1, q', op) out.
Proof.
  induction fuel as [|f IH]; intros c cy q skip out W G2 Hfirst H cy1 q1 op Ha Hcell1 Hb Hns Hex; simpl in H; [discriminate|].
  pose proof W as (W1 & _).
  destruct (cond c cy q skip) eqn:Hc.
  - destruct (move c cy q skip) as [[cy' q'] skip'] eqn:Hm.
    assert (Hne : (cy1, q1) <> (cy, q)).
    { intros E. injection E as E1 E2. subst. destruct (memZ q skip) eqn:Hk; [apply Hns; auto|].
      rewrite (area_cond _ _ _ _ Ha Hk) in Hc. discriminate. }
    eapply (IH c cy' q' skip' out W G2); eauto.
    + eapply move_mono; eauto.
    + eapply move_cover; eauto. simpl. apply W1. eapply area_qudit; eauto.
    + intros [E1 E2]. destruct (move_row _ _ _ _ _ _ _ Hm) as [[-> ->]|[-> Hr]]; [apply Hns; auto|discriminate].
  - destruct (plt (cy, q) (c_start c) || plt (c_end c) (cy, q)) eqn:Hs.
    { exfalso. unfold in_area in Ha. unfold first_pt, before in *.
      destruct (c_start c) as [s1 s2]. destruct (c_end c) as [e1 e2].
      apply andb_true_iff in Ha. destruct Ha as [Ha _]. apply andb_true_iff in Ha. destruct Ha as [Ha _].
      destruct (c_reverse c); unfold plt in *; simpl in *; lia. }
    destruct (cell cy q) as [[op0|]|] eqn:Hcell; [| |discriminate].
    + destruct (Z.eq_dec cy1 cy) as [Ec|Ec]; [destruct (memZ q1 (loc op0)) eqn:Hin|].
      * (* the operation under the pointer is the one we look for *)
        subst cy1. rewrite (G2 _ _ _ _ Hcell Hin) in Hcell1. injection Hcell1 as <-.
        destruct (c_exclude c) eqn:Ex.
        -- specialize (Hex eq_refl). unfold inside in Hex. apply andb_true_iff in Hex. destruct Hex as [I1 I2].
           rewrite I1, I2 in H. simpl in H.
           destruct (run A loc cell f c cy q (loc op0 ++ skip)); [|discriminate]. inversion H; subst.
           exists q. left. reflexivity.
        -- simpl in H. destruct (run A loc cell f c cy q (loc op0 ++ skip)); [|discriminate]. inversion H; subst.
           exists q. left. reflexivity.
      * assert (Hgo : forall out', run A loc cell f c cy q (loc op0 ++ skip) = Ok out' -> exists q', In (cy1, q', op) out').
        { intros out' H'. eapply (IH c cy q (loc op0 ++ skip) out' W G2); eauto.
          intros [_ E2]. rewrite memZ_app, Hin in E2. simpl in E2. apply Hns; auto. }
        destruct (c_exclude c && negb (forallb (fun x => memZ x (qudits c)) (loc op0))); [auto|].
        destruct (c_exclude c && negb (forallb (fun x => overlaps c cy x) (loc op0))); [auto|].
        destruct (run A loc cell f c cy q (loc op0 ++ skip)) as [l|]; [|discriminate]. inversion H; subst.
        destruct (Hgo _ eq_refl) as [q' Hq']. exists q'. right. exact Hq'.
      * assert (Hgo : forall out', run A loc cell f c cy q (loc op0 ++ skip) = Ok out' -> exists q', In (cy1, q', op) out').
        { intros out' H'. eapply (IH c cy q (loc op0 ++ skip) out' W G2); eauto. intros [E1 _]. auto. }
        destruct (c_exclude c && negb (forallb (fun x => memZ x (qudits c)) (loc op0))); [auto|].
        destruct (c_exclude c && negb (forallb (fun x => overlaps c cy x) (loc op0))); [auto|].
        destruct (run A loc cell f c cy q (loc op0 ++ skip)) as [l|]; [|discriminate]. inversion H; subst.
        destruct (Hgo _ eq_refl) as [q' Hq']. exists q'. right. exact Hq'.
    + eapply (IH c cy q (q :: skip) out W G2); eauto.
      intros [E1 E2]. rewrite memZ_cons in E2. apply orb_true_iff in E2. destruct E2 as [E2|E2]; [|apply Hns; auto].
      apply Z.eqb_eq in E2. subst. rewrite Hcell in Hcell1. discriminate.
Qed.

End IterThm.

(* ---- __init__ : the configuration it builds is well formed; clipping start / end does not change the area ---- *)
Lemma fmax_spec : forall l a, a <= fold_left Z.max l a /\ (forall x, In x l -> x <= fold_left Z.max l a) /\
  (fold_left Z.max l a = a \/ In (fold_left Z.max l a) l).
Proof.
  induction l as [|h t IH]; intros a; simpl.
  - split; [lia|]. split; [tauto|auto].
  - destruct (IH (Z.max a h)) as (I1 & I2 & I3). split; [lia|]. split.
    + intros x [->|Hx]; [lia|auto].
    + destruct I3 as [I3|I3]; [|auto]. rewrite I3. destruct (Z.max_spec a h) as [[_ ->]|[_ ->]]; auto.
Qed.

Lemma fmin_spec : forall l a, fold_left Z.min l a <= a /\ (forall x, In x l -> fold_left Z.min l a <= x) /\
  (fold_left Z.min l a = a \/ In (fold_left Z.min l a) l).
Proof.
  induction l as [|h t IH]; intros a; simpl.
  - split; [lia|]. split; [tauto|auto].
  - destruct (IH (Z.min a h)) as (I1 & I2 & I3). split; [lia|]. split.
    + intros x [->|Hx]; [lia|auto].
    + destruct I3 as [I3|I3]; [|auto]. rewrite I3. destruct (Z.min_spec a h) as [[_ ->]|[_ ->]]; auto.
Qed.

Lemma memZ_In : forall x l, memZ x l = true <-> In x l.
Proof.
  intros x l. unfold memZ. rewrite existsb_exists. split.
  - intros (y & Hy & E). apply Z.eqb_eq in E. subst. exact Hy.
  - intros H. exists x. split; [exact H|apply Z.eqb_refl].
Qed.

Lemma lookup_in : forall q r iv, lookup q r = Some iv -> In (q, iv) r.
Proof.
  induction r as [|[k v] t IH]; intros iv H; simpl in H; [discriminate|].
  destruct (k =? q) eqn:E; [apply Z.eqb_eq in E; inversion H; subst; left; reflexivity|right; auto].
Qed.

(* the region the caller asked for *)
Definition req_region (nq nc : Z) (qr : qor) : region :=
  match qr with
  | QNone => map (fun q => (q, (0, Z.max (nc - 1) 0))) (zrange nq)
  | QRegion r => r
  | QQudits l => map (fun q => (q, (0, Z.max (nc - 1) 0))) l
  end.
Definition req_end (nq nc : Z) (end_ : option point) : point := match end_ with Some e => e | None => (nc - 1, nq - 1) end.

Lemma it_init_wf : forall nq nc start end_ qr ex rv c p,
  it_init nq nc start end_ qr ex rv = Ok (c, p) ->
  cfg_wf c /\ p = first_pt c /\ c_exclude c = ex /\ c_reverse c = rv /\ c_region c = req_region nq nc qr /\
  forall cy q, in_area c cy q = in_area (mkcfg start (req_end nq nc end_) (req_region nq nc qr) ex rv 0 0 0 0) cy q.
Proof.
  intros nq nc start end_ qr ex rv c p H. unfold it_init in H.
  set (end0 := match end_ with Some e => e | None => (nc - 1, nq - 1) end) in *.
  assert (HR : exists r, (match qr with
            | QNone => Ok (map (fun q => (q, (0, Z.max (nc - 1) 0))) (zrange nq))
            | QRegion r => Ok r
            | QQudits l => if forallb (fun q => (0 <=? q) && (q <? nq)) l then Ok (map (fun q => (q, (0, Z.max (nc - 1) 0))) l) else Err E_Value
            end) = Ok r /\ r = req_region nq nc qr).
  { destruct qr as [|r|l]; simpl; eauto.
    destruct (forallb (fun q => (0 <=? q) && (q <? nq)) l); eauto.
    simpl in H. discriminate. }
  destruct HR as (r & HR & Er). rewrite HR in H. rewrite <- Er. clear HR Er.
  destruct r as [|[q0 [lo0 hi0]] t]; [discriminate|].
  set (maxq := fold_left Z.max (map fst t) q0) in *.
  set (minq := fold_left Z.min (map fst t) q0) in *.
  set (minc := fold_left Z.min (map (fun e => fst (snd e)) t) lo0) in *.
  set (maxc := fold_left Z.max (map (fun e => snd (snd e)) t) hi0) in *.
  set (R := (q0, (lo0, hi0)) :: t) in *.
  inversion H; subst c p; clear H.
  destruct (fmax_spec (map fst t) q0) as (A1 & A2 & A3). fold maxq in A1, A2, A3.
  destruct (fmin_spec (map fst t) q0) as (B1 & B2 & B3). fold minq in B1, B2, B3.
  destruct (fmin_spec (map (fun e => fst (snd e)) t) lo0) as (C1 & C2 & _). fold minc in C1, C2.
  destruct (fmax_spec (map (fun e => snd (snd e)) t) hi0) as (D1 & D2 & _). fold maxc in D1, D2.
  assert (W1 : forall q, memZ q (map fst R) = true -> minq <= q <= maxq).
  { intros q Hq. apply memZ_In in Hq. simpl in Hq. destruct Hq as [<-|Hq]; [lia|]. split; auto. }
  assert (W2 : forall q iv, lookup q R = Some iv -> minc <= fst iv /\ snd iv <= maxc).
  { intros q iv Hq. apply lookup_in in Hq. destruct Hq as [E|Hq]; [inversion E; subst; simpl; lia|].
    split; [apply C2|apply D2]; apply in_map_iff; exists (q, iv); auto. }
  assert (W : cfg_wf (mkcfg (if plt start (minc, minq) then (minc, minq) else start)
                        (if plt (maxc, maxq) end0 then (maxc, maxq) else end0) R ex rv minq maxq minc maxc)).
  { assert (W5 : memZ minq (map fst R) = true).
    { apply memZ_In. simpl. destruct B3 as [E|B3]; [left; symmetry; exact E|right; exact B3]. }
    assert (W6 : memZ maxq (map fst R) = true).
    { apply memZ_In. simpl. destruct A3 as [E|A3]; [left; symmetry; exact E|right; exact A3]. }
    unfold cfg_wf, qudits. cbn [c_start c_end c_region c_minq c_maxq c_minc c_maxc].
    split; [exact W1|]. split; [exact W2|]. split; [|split; [|split; [exact W5|exact W6]]].
    - destruct (plt start (minc, minq)) eqn:E; [|exact E]. unfold plt; simpl; lia.
    - destruct (plt (maxc, maxq) end0) eqn:E; [|exact E]. unfold plt; simpl; lia. }
  split; [exact W|]. split; [unfold first_pt; simpl; reflexivity|]. do 3 (split; [reflexivity|]).
  intros cy q. unfold in_area, overlaps, qudits. cbn [c_start c_end c_region]. change (req_end nq nc end_) with end0.
  match goal with |- _ && _ && ?m && ?o = _ && _ && ?m' && ?o' => change m' with m; change o' with o;
    destruct m eqn:Hm; [|rewrite !andb_false_r; reflexivity]; destruct o eqn:Ho; [|rewrite !andb_false_r; reflexivity] end.
  rewrite !andb_true_r.
  change (memZ q (map fst R) = true) in Hm.
  change (match lookup q R with Some iv => in_iv cy iv | None => false end = true) in Ho.
  remember (lookup q R) as lk eqn:Hl in *. destruct lk as [iv|]; [|discriminate]. symmetry in Hl. rename Ho into Hi. specialize (W1 _ Hm). specialize (W2 _ _ Hl). unfold in_iv in Hi.
  destruct start as [s1 s2]. destruct end0 as [e1 e2].
  destruct (plt (s1, s2) (minc, minq)) eqn:E1; destruct (plt (maxc, maxq) (e1, e2)) eqn:E2; unfold plt in *; simpl in *; lia.
Qed.

(* ---- the whole iteration, in terms of what the caller asked for ---- *)
Section Exact.
Variable A : Type.
Variable loc : A -> list Z.
Variable cell : Z -> Z -> option (option A).

Definition req_cfg (nq nc : Z) (start : point) (end_ : option point) (qr : qor) (ex rv : bool) : cfg :=
  mkcfg start (req_end nq nc end_) (req_region nq nc qr) ex rv 0 0 0 0.

Lemma inside_region : forall c c' cy op, c_region c = c_region c' -> inside A loc c cy op = inside A loc c' cy op.
Proof. intros c c' cy op E. unfold inside, overlaps, qudits. rewrite E. reflexivity. Qed.

Theorem iterate_exact : forall nq nc start end_ qr ex rv out,
  grid_ok A loc cell ->
  iterate A loc cell nq nc start end_ qr ex rv = Ok out ->
  let c0 := req_cfg nq nc start end_ qr ex rv in
  (* only operations with a grid point in the requested area (and entirely inside it with exclude) *)
  Forall (fun e => in_area c0 (cyc A e) (qd A e) = true /\ cell (cyc A e) (qd A e) = Some (Some (opf A e)) /\
                   (ex = true -> inside A loc c0 (cyc A e) (opf A e) = true)) out /\
  (* in grid order (reversed with reverse), each operation once *)
  ForallOrdPairs (fun e1 e2 => before c0 (pt A e1) (pt A e2) = true /\
                               (cyc A e1 = cyc A e2 -> memZ (qd A e2) (loc (opf A e1)) = false)) out /\
  (* all of them *)
  (forall cy q op, in_area c0 cy q = true -> cell cy q = Some (Some op) ->
     (ex = true -> inside A loc c0 cy op = true) -> exists q', In (cy, q', op) out).
Proof.
  intros nq nc start end_ qr ex rv out [G1 G2] H c0. unfold iterate in H.
  destruct (it_init nq nc start end_ qr ex rv) as [[c [p1 p2]]|] eqn:Hi; [|discriminate]. simpl in H.
  destruct (it_init_wf _ _ _ _ _ _ _ _ _ Hi) as (W & Ep & Eex & Erv & Ereg & Harea).
  fold (req_cfg nq nc start end_ qr ex rv) in Harea. fold c0 in Harea.
  assert (Ein : forall cy op, inside A loc c cy op = inside A loc c0 cy op) by (intros; apply inside_region; exact Ereg).
  assert (Ebf : forall a b, before c a b = before c0 a b) by (intros; unfold before; rewrite Erv; reflexivity).
  pose proof (run_sound A loc cell _ _ _ _ _ _ W G1 H) as [HF HP].
  split; [|split].
  - eapply Forall_impl; [|exact HF]. intros e (a & b & d & _ & _). rewrite <- Harea. repeat split; auto.
    intros E. rewrite <- Ein. apply d. congruence.
  - clear HF H. induction HP as [|e l Hh Ht IHt]; [constructor|]. constructor; [|exact IHt].
    eapply Forall_impl; [|exact Hh]. intros e2 [a b]. split; [rewrite <- Ebf; exact a|exact b].
  - intros cy q op Ha Hc Hex. rewrite <- Harea in Ha.
    eapply (run_complete A loc cell _ _ _ _ _ _ W G2); eauto.
    + rewrite Ep. apply before_irrefl.
    + rewrite Ep. unfold first_pt, before. unfold in_area in Ha.
      apply andb_true_iff in Ha. destruct Ha as [Ha _]. apply andb_true_iff in Ha. destruct Ha as [Ha _].
      apply andb_true_iff in Ha. destruct Ha as [Ha1 Ha2]. apply negb_true_iff in Ha1. apply negb_true_iff in Ha2.
      destruct (c_reverse c); assumption.
    + first [intros [_ E]; discriminate | intros E; rewrite Ein; apply Hex; congruence].
Qed.
End Exact.

(* ---- non-vacuity: a 2-cycle, 3-qudit grid with a two-qudit operation on qudits 0,1 of every cycle ---- *)
Definition ex_cell (cy q : Z) : option (option xop) :=
  if (0 <=? cy) && (cy <? 2) && (0 <=? q) && (q <? 3) then Some (if q <? 2 then Some (cy, [0; 1]) else None) else None.

Lemma ex_grid_ok : grid_ok xop snd ex_cell.
Proof.
  unfold ex_cell. split.
  - intros cy q op H. destruct ((0 <=? cy) && (cy <? 2) && (0 <=? q) && (q <? 3)) eqn:E; [|discriminate].
    destruct (q <? 2) eqn:E2; [|discriminate]. inversion H; subst; simpl. lia.
  - intros cy q q' op H H'. destruct ((0 <=? cy) && (cy <? 2) && (0 <=? q) && (q <? 3)) eqn:E; [|discriminate].
    destruct (q <? 2) eqn:E2; [|discriminate]. inversion H; subst; simpl in H'.
    assert ((0 <=? cy) && (cy <? 2) && (0 <=? q') && (q' <? 3) = true) as -> by lia.
    assert (q' <? 2 = true) as -> by lia. reflexivity.
Qed.

(* qudits [1;2], start (0,1), end (5,0) beyond the last cycle (clipped), reverse *)
Lemma ex_iterate : iterate xop snd ex_cell 3 2 (0, 1) (Some (5, 0)) (QQudits [1; 2]) false true
  = Ok [(1, 1, (1, [0; 1])); (0, 1, (0, [0; 1]))].
Proof. vm_compute. reflexivity. Qed.

(* with exclude the operations (on qudits 0,1) are not entirely on the requested qudits *)
Lemma ex_iterate_exclude : iterate xop snd ex_cell 3 2 (0, 0) None (QQudits [1; 2]) true false = Ok [].
Proof. vm_compute. reflexivity. Qed.

(* finding C06-F3 in the model: an end point on a circuit without cycles is clipped to cycle 0, which does not exist *)
Lemma empty_circuit_end_index_error : x_iterate [] 2 (0, 0) (Some (0, 0)) QNone false false = Err E_Index.
Proof. vm_compute. reflexivity. Qed.

(* ---- IndexError-freedom ---- *)
Section Idx.
Variable A : Type.
Variable loc : A -> list Z.
Variable cell : Z -> Z -> option (option A).

(* the only IndexError is the grid access at a point of the requested area *)
Lemma run_no_index_error : forall fuel c cy q skip,
  cfg_wf c -> (forall cy q, in_area c cy q = true -> cell cy q <> None) ->
  run A loc cell fuel c cy q skip <> Err E_Index.
Proof.
  induction fuel as [|f IH]; intros c cy q skip W Hd; simpl; [discriminate|].
  destruct (cond c cy q skip) eqn:Hc.
  - destruct (move c cy q skip) as [[cy' q'] skip']. apply IH; auto.
  - destruct (plt (cy, q) (c_start c) || plt (c_end c) (cy, q)) eqn:Hs; [discriminate|].
    destruct (stop_in_area _ _ _ _ W Hc Hs) as [Ha _].
    destruct (cell cy q) as [[op|]|] eqn:Hcell; [| |exfalso; exact (Hd _ _ Ha Hcell)].
    + destruct (c_exclude c && negb (forallb (fun x => memZ x (qudits c)) (loc op))); [apply IH; auto|].
      destruct (c_exclude c && negb (forallb (fun x => overlaps c cy x) (loc op))); [apply IH; auto|].
      specialize (IH c cy q (loc op ++ skip) W Hd).
      destruct (run A loc cell f c cy q (loc op ++ skip)) as [l|e]; [discriminate|]. intros E. apply IH. inversion E. reflexivity.
    + apply IH; auto.
Qed.

Theorem iterate_no_index_error : forall nq nc start end_ qr ex rv,
  (forall cy q, in_area (req_cfg nq nc start end_ qr ex rv) cy q = true -> cell cy q <> None) ->
  iterate A loc cell nq nc start end_ qr ex rv <> Err E_Index.
Proof.
  intros nq nc start end_ qr ex rv Hd. unfold iterate.
  destruct (it_init nq nc start end_ qr ex rv) as [[c [p1 p2]]|e] eqn:Hi.
  - destruct (it_init_wf _ _ _ _ _ _ _ _ _ Hi) as (W & _ & _ & _ & _ & Harea). simpl.
    apply run_no_index_error; auto. intros cy q Ha. apply Hd. unfold req_cfg. rewrite <- Harea. exact Ha.
  - unfold it_init in Hi. destruct qr as [|r|l]; simpl in Hi.
    + destruct (map (fun q => (q, (0, Z.max (nc - 1) 0))) (zrange nq)) as [|[q0 [lo0 hi0]] t]; inversion Hi; discriminate.
    + destruct r as [|[q0 [lo0 hi0]] t]; inversion Hi; discriminate.
    + destruct (forallb (fun q => (0 <=? q) && (q <? nq)) l); [|inversion Hi; discriminate].
      destruct (map (fun q => (q, (0, Z.max (nc - 1) 0))) l) as [|[q0 [lo0 hi0]] t]; inversion Hi; discriminate.
Qed.
End Idx.
