(* C20: the swap loop of PermutationMatrix.from_qudit_location (model: Graph.perm_loop,
   Graph.push_wire).  For every n and every duplicate-free in-range location the loop
   ends with the identity arrangement, and the product of the recorded swaps (applied
   in reverse recording order, because UnitaryBuilder.apply_left pre-multiplies in
   circuit order) carries the content of wire `nth i loc` to position i. *)
From Coq Require Import List Arith Bool PeanoNat Lia.
Import ListNotations.
From BQ Require Import map.Graph map.GraphThm.

(* ---- set_nth / nth ---------------------------------------------------------- *)
Lemma length_set_nth {A} (f : A -> A) l i : length (set_nth i f l) = length l.
Proof. revert i. induction l as [|x t IH]; intros [|i]; simpl; auto. Qed.

Lemma nth_set_nth_eq {A} (f : A -> A) l i d : i < length l -> nth i (set_nth i f l) d = f (nth i l d).
Proof. revert i. induction l as [|x t IH]; intros [|i] H; simpl in *; try lia; auto. apply IH; lia. Qed.

Lemma nth_set_nth_neq {A} (f : A -> A) l i j d : i <> j -> nth j (set_nth i f l) d = nth j l d.
Proof. revert i j. induction l as [|x t IH]; intros [|i] [|j] H; simpl; auto; try congruence. Qed.

(* the transposition (a b) on positions *)
Definition tr (a b p : nat) : nat := if Nat.eqb p a then b else if Nat.eqb p b then a else p.

Lemma tr_invol a b p : tr a b (tr a b p) = p.
Proof. unfold tr.
  destruct (Nat.eqb p a) eqn:E1; [apply Nat.eqb_eq in E1|apply Nat.eqb_neq in E1].
  - subst. destruct (Nat.eqb b a) eqn:E2; [apply Nat.eqb_eq in E2; auto|]. rewrite Nat.eqb_refl; auto.
  - destruct (Nat.eqb p b) eqn:E3; [apply Nat.eqb_eq in E3|apply Nat.eqb_neq in E3].
    + subst. rewrite Nat.eqb_refl; auto.
    + destruct (Nat.eqb p a) eqn:E4; [apply Nat.eqb_eq in E4; congruence|].
      destruct (Nat.eqb p b) eqn:E5; [apply Nat.eqb_eq in E5; congruence|]. auto. Qed.

Lemma tr_inj a b p q : tr a b p = tr a b q -> p = q.
Proof. intros H. rewrite <- (tr_invol a b p), H. apply tr_invol. Qed.

Lemma tr_lt a b p n : a < n -> b < n -> p < n -> tr a b p < n.
Proof. unfold tr. intros. destruct (Nat.eqb p a); auto. destruct (Nat.eqb p b); auto. Qed.

Lemma nth_swap_list l i j p : i < length l -> j < length l ->
  nth p (swap_list l i j) 0 = nth (tr i j p) l 0.
Proof. intros Hi Hj. unfold swap_list, tr.
  destruct (Nat.eqb p i) eqn:E1; [apply Nat.eqb_eq in E1; subst p|apply Nat.eqb_neq in E1].
  - destruct (Nat.eq_dec i j) as [->|Hij].
    + rewrite nth_set_nth_eq; auto. rewrite length_set_nth; auto.
    + rewrite nth_set_nth_neq by auto. rewrite nth_set_nth_eq; auto.
  - destruct (Nat.eqb p j) eqn:E2; [apply Nat.eqb_eq in E2; subst p|apply Nat.eqb_neq in E2].
    + rewrite nth_set_nth_eq; auto. rewrite length_set_nth; auto.
    + rewrite !nth_set_nth_neq by auto. auto. Qed.

Lemma length_swap_list l i j : length (swap_list l i j) = length l.
Proof. unfold swap_list. rewrite !length_set_nth. auto. Qed.

Lemma index_of_spec x l : In x l -> index_of x l < length l /\ nth (index_of x l) l 0 = x.
Proof. induction l as [|y t IH]; simpl; [tauto|]. intros H.
  destruct (Nat.eqb x y) eqn:E; [apply Nat.eqb_eq in E; subst; split; [lia|auto]|].
  apply Nat.eqb_neq in E. destruct H as [H|H]; [congruence|]. destruct (IH H). split; [lia|auto]. Qed.

(* ---- permutations of [0, n) as lists ----------------------------------------- *)
Definition perm_ok (n : nat) (l : list nat) : Prop :=
  NoDup l /\ length l = n /\ forall x, In x l -> x < n.

Lemma perm_ok_full n l : perm_ok n l -> forall x, x < n -> In x l.
Proof. intros (Hnd & Hlen & Hb) x Hx.
  assert (Hi : incl (seq 0 n) l).
  { apply NoDup_length_incl; auto. - rewrite seq_length; lia.
    - intros y Hy. apply in_seq. specialize (Hb y Hy). lia. }
  apply Hi. apply in_seq. lia. Qed.

Lemma perm_ok_swap n l i j : perm_ok n l -> i < n -> j < n -> perm_ok n (swap_list l i j).
Proof. intros (Hnd & Hlen & Hb) Hi Hj. split; [|split].
  - apply (NoDup_nth _ 0). intros p q Hp Hq Heq. rewrite length_swap_list in Hp, Hq.
    rewrite !nth_swap_list in Heq by lia.
    apply (tr_inj i j). apply (proj1 (NoDup_nth l 0) Hnd); auto; rewrite Hlen; apply tr_lt; lia.
  - rewrite length_swap_list; auto.
  - intros x Hx. apply (In_nth _ _ 0) in Hx as (p & Hp & <-). rewrite length_swap_list in Hp.
    rewrite nth_swap_list by lia. apply Hb. apply nth_In. rewrite Hlen. apply tr_lt; lia. Qed.

Lemma NoDup_snoc (l : list nat) x : NoDup l -> ~ In x l -> NoDup (l ++ [x]).
Proof. induction l as [|y t IH]; simpl; intros Hnd Hx.
  - constructor; auto.
  - inversion Hnd as [|? ? Hy Ht]; subst. constructor.
    + rewrite in_app_iff. simpl. intros [H|[H|[]]]; auto.
    + apply IH; auto. Qed.

(* ---- complete_perm: location followed by the missing qudits in ascending order - *)
Lemma complete_perm_aux loc k cur :
  NoDup cur -> (exists r, cur = loc ++ r) ->
  let c := fold_left (fun cur i => if mem i cur then cur else cur ++ [i]) (seq 0 k) cur in
  NoDup c /\ (exists r, c = loc ++ r) /\ (forall x, In x c <-> In x cur \/ x < k).
Proof. induction k as [|k IH]; intros Hnd Hpre.
  - simpl. split; auto. split; auto. intros x. split; [auto|intros [H|H]; [auto|lia]].
  - cbv zeta. rewrite seq_S, fold_left_app. simpl.
    destruct (IH Hnd Hpre) as (Hnd' & (r & Hr) & Hin). clear IH.
    set (c := fold_left (fun cur i => if mem i cur then cur else cur ++ [i]) (seq 0 k) cur) in *.
    destruct (mem k c) eqn:E.
    + apply mem_In in E. split; auto. split; [exists r; auto|]. intros x. rewrite Hin. split.
      * intros [H|H]; auto.
      * intros [H|H]; auto. destruct (Nat.eq_dec x k) as [->|Hne]; [apply Hin; auto|right; lia].
    + apply mem_false in E. split; [|split].
      * apply NoDup_snoc; auto.
      * exists (r ++ [k]). rewrite Hr, app_assoc. auto.
      * intros x. rewrite in_app_iff, Hin. simpl. split.
        -- intros [[H|H]|[H|[]]]; auto; right; lia.
        -- intros [H|H]; auto. destruct (Nat.eq_dec x k) as [->|Hne]; auto. left; right; lia. Qed.

Lemma complete_perm_spec n loc :
  NoDup loc -> (forall x, In x loc -> x < n) ->
  perm_ok n (complete_perm n loc) /\ exists r, complete_perm n loc = loc ++ r.
Proof. intros Hnd Hb. unfold complete_perm.
  destruct (complete_perm_aux loc n loc Hnd) as (H1 & H2 & H3); [exists []; rewrite app_nil_r; auto|].
  cbv zeta in *. set (c := fold_left _ (seq 0 n) loc) in *.
  assert (Hbc : forall x, In x c -> x < n) by (intros x Hx; apply H3 in Hx as [Hx|Hx]; auto).
  split; auto. split; auto. split; auto.
  apply Nat.le_antisymm.
  - rewrite <- (seq_length n 0). apply NoDup_incl_length; auto.
    intros x Hx. apply in_seq. specialize (Hbc x Hx). lia.
  - rewrite <- (seq_length n 0) at 1. apply NoDup_incl_length; [apply seq_NoDup|].
    intros x Hx. apply in_seq in Hx. apply H3. right. lia. Qed.

(* ---- push_wire --------------------------------------------------------------- *)
Lemma push_wire_snoc swaps s p : push_wire (swaps ++ [s]) p = push_wire swaps (tr (fst s) (snd s) p).
Proof. unfold push_wire. rewrite rev_app_distr. simpl. reflexivity. Qed.

(* ---- the loop invariant -------------------------------------------------------- *)
Record PInv (n k : nat) (c0 : list nat) (st : list nat * list (nat * nat)) : Prop := {
  pi_perm : perm_ok n (fst st);
  pi_fixed : forall i, i < k -> i < n -> nth i (fst st) 0 = i;
  pi_route : forall j, j < n -> nth j (fst st) 0 = nth (push_wire (snd st) j) c0 0;
  pi_range : forall j, j < n -> push_wire (snd st) j < n;
  pi_swaps : forall s, In s (snd st) -> fst s < snd s /\ snd s < n }.

Lemma perm_step_inv n k c0 st : k < n -> PInv n k c0 st -> PInv n (S k) c0 (perm_step st k).
Proof. intros Hk [Hperm Hfix Hroute Hrange Hsw]. destruct st as [cur swaps]. simpl in *.
  unfold perm_step. destruct (Nat.eqb k (nth k cur 0)) eqn:E.
  - apply Nat.eqb_eq in E. constructor; simpl; auto.
    intros i Hi Hin. destruct (Nat.eq_dec i k) as [->|Hne]; [auto|apply Hfix; lia].
  - apply Nat.eqb_neq in E.
    pose proof (perm_ok_full n cur Hperm k Hk) as Hin.
    destruct (index_of_spec k cur Hin) as [Hpos Hnth].
    set (pos := index_of k cur) in *. clearbody pos.
    destruct Hperm as (Hnd & Hlen & Hb).
    assert (Hposk : k < pos).
    { destruct (Nat.lt_trichotomy pos k) as [Hlt|[Heq|Hgt]]; auto.
      - rewrite Hfix in Hnth by lia. lia.
      - rewrite Heq in Hnth. congruence. }
    constructor; simpl.
    + apply perm_ok_swap; [repeat split; auto|lia|lia].
    + intros i Hi Hin'. rewrite nth_swap_list by lia. unfold tr.
      destruct (Nat.eqb i k) eqn:E1; [apply Nat.eqb_eq in E1; subst; auto|apply Nat.eqb_neq in E1].
      destruct (Nat.eqb i pos) eqn:E2; [apply Nat.eqb_eq in E2; lia|]. apply Hfix; lia.
    + intros j Hj. rewrite nth_swap_list by lia. rewrite push_wire_snoc. simpl.
      apply Hroute. apply tr_lt; lia.
    + intros j Hj. rewrite push_wire_snoc. simpl. apply Hrange. apply tr_lt; lia.
    + intros s Hs. apply in_app_iff in Hs as [Hs|[<-|[]]]; auto. simpl. lia. Qed.

Lemma perm_loop_inv n c0 k : k <= n -> perm_ok n c0 ->
  PInv n k c0 (fold_left perm_step (seq 0 k) (c0, [])).
Proof. intros Hk Hp. induction k as [|k IH].
  - simpl. constructor; simpl; auto; try lia; try tauto.
  - rewrite seq_S, fold_left_app. simpl. apply perm_step_inv; [lia|apply IH; lia]. Qed.

(* ---- the theorem ---------------------------------------------------------------- *)
Theorem perm_location n loc :
  NoDup loc -> (forall x, In x loc -> x < n) ->
  let cur := fst (perm_loop n loc) in
  let swaps := snd (perm_loop n loc) in
  (* the loop sorts the arrangement *)
  cur = seq 0 n
  (* wire location[i] ends on position i *)
  /\ (forall i, i < length loc -> push_wire swaps (nth i loc 0) = i)
  (* and every wire: the routed map is the inverse of the completed arrangement
     (the qudits not named in `location` follow in ascending order) *)
  /\ (forall i, i < n -> push_wire swaps (nth i (complete_perm n loc) 0) = i)
  (* every recorded swap is a genuine in-range transposition *)
  /\ (forall s, In s swaps -> fst s < snd s /\ snd s < n).
Proof. intros Hnd Hb. cbv zeta.
  destruct (complete_perm_spec n loc Hnd Hb) as [Hp (r & Hr)].
  pose proof (perm_loop_inv n (complete_perm n loc) n (le_n n) Hp) as HI.
  fold (perm_loop n loc) in HI. destruct HI as [Hperm Hfix Hroute Hrange Hsw].
  set (c0 := complete_perm n loc) in *.
  assert (Hall : forall i, i < n -> push_wire (snd (perm_loop n loc)) (nth i c0 0) = i).
  { intros i Hi. destruct Hp as (Hnd0 & Hlen0 & Hb0).
    assert (Hv : nth i c0 0 < n) by (apply Hb0, nth_In; lia).
    pose proof (Hroute _ Hv) as H1. rewrite Hfix in H1 by lia.
    symmetry. apply (proj1 (NoDup_nth c0 0) Hnd0); auto; [lia|rewrite Hlen0; apply Hrange; auto]. }
  split; [|split; [|split]]; auto.
  - destruct Hperm as (_ & Hlen & _). apply (nth_ext _ _ 0 0); [rewrite seq_length; auto|].
    intros i Hi. rewrite Hlen in Hi. rewrite seq_nth by auto. apply Hfix; auto.
  - intros i Hi. assert (Hin : i < n).
    { destruct Hp as (_ & Hlen0 & _). rewrite Hr, app_length in Hlen0. lia. }
    rewrite <- (Hall i Hin) at 2. f_equal. rewrite Hr, app_nth1; auto. Qed.

(* out-of-contract inputs are visible, not hidden by totalisation: with a repeated
   qudit the loop does not sort *)
Example perm_loop_dup_not_sorted : fst (perm_loop 3 [1; 1]) <> seq 0 3.
Proof. vm_compute. discriminate. Qed.
