(* Correctness of the model of CouplingGraph.get_shortest_path_tree (C20):
   the returned tuple for every vertex is a path from the source in the directed
   adjacency structure and no path from the source is shorter; the RuntimeError
   branch is taken exactly when some vertex is unreachable. *)
From Coq Require Import List Arith Bool PeanoNat Lia.
Import ListNotations.
From BQ Require Import map.Graph map.GraphThm.

(* p is a non-empty vertex sequence in which each vertex is followed by one of its neighbours *)
Fixpoint is_path (g : adj) (p : list nat) : Prop :=
  match p with
  | [] => False
  | x :: t => match t with [] => True | y :: _ => In y (nbrs g x) /\ is_path g t end
  end.
Definition path_from_to (g : adj) (s t : nat) (p : list nat) : Prop :=
  hd_error p = Some s /\ last p s = t /\ is_path g p.
Definition hops (p : list nat) : nat := length p - 1.

(* ---- set_nth ---------------------------------------------------------------- *)
Lemma length_set_nth {A} n (f : A -> A) l : length (set_nth n f l) = length l.
Proof. revert n. induction l as [|x t IH]; intros [|k]; simpl; auto. Qed.

Lemma nth_set_nth_eq {A} n (f : A -> A) l d :
  n < length l -> nth n (set_nth n f l) d = f (nth n l d).
Proof. revert n. induction l as [|x t IH]; intros [|k] H; simpl in *; try lia; auto.
  apply IH; lia. Qed.

Lemma nth_set_nth_neq {A} n m (f : A -> A) l d :
  n <> m -> nth m (set_nth n f l) d = nth m l d.
Proof. revert n m. induction l as [|x t IH]; intros [|k] [|j] H; simpl; auto; try congruence. Qed.

Lemma set_nth_overflow {A} n (f : A -> A) l : length l <= n -> set_nth n f l = l.
Proof. revert n. induction l as [|x t IH]; intros [|k] H; simpl in *; auto; try lia.
  f_equal. apply IH; lia. Qed.

(* ---- paths ------------------------------------------------------------------ *)
Lemma is_path_cons2 g x y t : is_path g (x :: y :: t) <-> In y (nbrs g x) /\ is_path g (y :: t).
Proof. simpl. tauto. Qed.

Lemma last_cons2 {A} (x y : A) t d : last (x :: y :: t) d = last (y :: t) d.
Proof. reflexivity. Qed.

Lemma is_path_app g : forall p o d,
  is_path g p -> In o (nbrs g (last p d)) -> is_path g (p ++ [o]).
Proof. induction p as [|x t IH]; intros o d Hp Ho; [destruct Hp|].
  destruct t as [|y t'].
  - simpl in *. auto.
  - apply is_path_cons2 in Hp. destruct Hp as [Hxy Hp].
    change (is_path g (x :: y :: (t' ++ [o]))). apply is_path_cons2. split; [exact Hxy|].
    change (is_path g ((y :: t') ++ [o])). apply (IH o d Hp). exact Ho. Qed.

Lemma path_snoc g s c o p :
  path_from_to g s c p -> In o (nbrs g c) ->
  path_from_to g s o (p ++ [o]) /\ hops (p ++ [o]) = hops p + 1.
Proof. intros (Hh & Hl & Hp) Ho.
  destruct p as [|x t]; [destruct Hp|]. split; [split; [|split]|].
  - exact Hh.
  - apply last_last.
  - apply (is_path_app g (x :: t) o s Hp). rewrite Hl. exact Ho.
  - unfold hops. rewrite app_length. simpl. lia. Qed.

Lemma path_reach_gen g s : forall p a d,
  reach g s a -> is_path g (a :: p) -> reach g s (last (a :: p) d).
Proof. induction p as [|y t IH]; intros a d Hr Hp.
  - exact Hr.
  - apply is_path_cons2 in Hp. destruct Hp as [Hy Hp]. rewrite last_cons2.
    apply IH; [|exact Hp]. eapply reach_step; eauto. Qed.

Lemma path_reach g s t p : path_from_to g s t p -> reach g s t.
Proof. intros (Hh & Hl & Hp). destruct p as [|a p']; [destruct Hp|].
  simpl in Hh. inversion Hh; subst a. rewrite <- Hl.
  apply path_reach_gen; [constructor|exact Hp]. Qed.

Lemma reach_path g s t : reach g s t -> exists p, path_from_to g s t p.
Proof. induction 1 as [|b c Hb [p IH] Hc].
  - exists [s]. repeat split.
  - exists (p ++ [c]). apply (path_snoc g s b c p IH Hc). Qed.

(* ---- argmin_unvisited ------------------------------------------------------- *)
Definition amupd (unv : list nat) (i : nat) (d : w) (best : option (nat * nat)) : option (nat * nat) :=
  if mem i unv then
    match d, best with
    | Some x, None => Some (i, x)
    | Some x, Some (_, y) => if Nat.ltb x y then Some (i, x) else best
    | None, _ => best
    end
  else best.

Lemma argmin_cons unv d t best i :
  argmin_unvisited unv (d :: t) best i = argmin_unvisited unv t (amupd unv i d best) (S i).
Proof. reflexivity. Qed.

Lemma amupd_spec unv i d best :
  let best' := amupd unv i d best in
  (best' = best \/ exists x, mem i unv = true /\ d = Some x /\ best' = Some (i, x)) /\
  (forall b db, best = Some (b, db) -> exists b' db', best' = Some (b', db') /\ db' <= db) /\
  (forall x, mem i unv = true -> d = Some x -> exists b' db', best' = Some (b', db') /\ db' <= x) /\
  (best' = None -> best = None /\ (mem i unv = true -> d = None)).
Proof. unfold amupd. destruct (mem i unv) eqn:Em.
  - destruct d as [x|].
    + destruct best as [[b db]|].
      * destruct (Nat.ltb x db) eqn:El.
        -- apply Nat.ltb_lt in El. split; [right; exists x; auto|]. split; [|split].
           ++ intros b0 db0 Hb. inversion Hb; subst. exists i, x. split; auto. lia.
           ++ intros x0 _ Hx. inversion Hx; subst. exists i, x0. split; auto.
           ++ discriminate.
        -- apply Nat.ltb_ge in El. split; [left; auto|]. split; [|split].
           ++ intros b0 db0 Hb. inversion Hb; subst. exists b0, db0. split; auto.
           ++ intros x0 _ Hx. inversion Hx; subst. exists b, db. split; auto.
           ++ discriminate.
      * split; [right; exists x; auto|]. split; [|split].
        -- discriminate.
        -- intros x0 _ Hx. inversion Hx; subst. exists i, x0. split; auto.
        -- discriminate.
    + split; [left; auto|]. split; [|split].
      * intros b db Hb. exists b, db. split; auto.
      * discriminate.
      * intros Hb. split; auto.
  - split; [left; auto|]. split; [|split].
    + intros b db Hb. exists b, db. split; auto.
    + discriminate.
    + intros Hb. split; auto. discriminate. Qed.

Lemma argmin_gen unv : forall dist best i,
  match argmin_unvisited unv dist best i with
  | Some (c, dc) =>
      (best = Some (c, dc) \/ (i <= c /\ mem c unv = true /\ nth (c - i) dist None = Some dc)) /\
      (forall b db, best = Some (b, db) -> dc <= db) /\
      (forall j dj, mem (i + j) unv = true -> nth j dist None = Some dj -> dc <= dj)
  | None => best = None /\ forall j, mem (i + j) unv = true -> nth j dist None = None
  end.
Proof. induction dist as [|d t IH]; intros best i.
  - simpl. destruct best as [[c dc]|].
    + split; [left; reflexivity|]. split.
      * intros b db Hb. inversion Hb; subst. lia.
      * intros j dj _ Hj. destruct j; discriminate.
    + split; [reflexivity|]. intros j _. destruct j; reflexivity.
  - rewrite argmin_cons. specialize (IH (amupd unv i d best) (S i)).
    destruct (amupd_spec unv i d best) as (R1 & R4 & R5 & R3).
    destruct (argmin_unvisited unv t (amupd unv i d best) (S i)) as [[c dc]|].
    + destruct IH as (I1 & I2 & I3). split; [|split].
      * destruct I1 as [I1|(Hic & Hcm & Hcd)].
        -- destruct R1 as [R1|(x & Hm & Hd & Hb)].
           ++ left. congruence.
           ++ rewrite Hb in I1. inversion I1; subst. right. split; [lia|]. split; [exact Hm|].
              rewrite Nat.sub_diag. reflexivity.
        -- right. split; [lia|]. split; [exact Hcm|].
           replace (c - i) with (S (c - S i)) by lia. exact Hcd.
      * intros b db Hb. destruct (R4 b db Hb) as (b' & db' & Hb' & Hle).
        specialize (I2 b' db' Hb'). lia.
      * intros [|j] dj Hm Hj.
        -- rewrite Nat.add_0_r in Hm. simpl in Hj.
           destruct (R5 dj Hm Hj) as (b' & db' & Hb' & Hle). specialize (I2 b' db' Hb'). lia.
        -- simpl in Hj. apply (I3 j dj); [|exact Hj].
           replace (S i + j) with (i + S j) by lia. exact Hm.
    + destruct IH as (I1 & I3). destruct (R3 I1) as [Hb Hd]. split; [exact Hb|].
      intros [|j] Hm.
      * rewrite Nat.add_0_r in Hm. simpl. auto.
      * simpl. apply I3. replace (S i + j) with (i + S j) by lia. exact Hm. Qed.

(* ---- one relaxation sweep --------------------------------------------------- *)
Lemma relax_step cur dcur pc dist paths o d1 p1 :
  length dist = length paths ->
  relax cur dcur pc (dist, paths) o = (d1, p1) ->
  length d1 = length dist /\ length p1 = length paths /\
  (forall v, v <> o -> nth v d1 None = nth v dist None /\ nth v p1 [] = nth v paths []) /\
  ((nth o d1 None = nth o dist None /\ nth o p1 [] = nth o paths []) \/
   (o < length dist /\ nth o d1 None = Some (dcur + 1) /\ nth o p1 [] = pc ++ [o] /\
    forall x, nth o dist None = Some x -> dcur + 1 < x)) /\
  (o < length dist -> exists dv, nth o d1 None = Some dv /\ dv <= dcur + 1).
Proof. intros Hl Hr. unfold relax in Hr.
  remember (match nth o dist None with None => true | Some x => Nat.ltb (dcur + 1) x end) as b eqn:Eb.
  destruct b.
  - inversion Hr; subst d1 p1; clear Hr.
    destruct (Nat.lt_ge_cases o (length dist)) as [Ho|Ho].
    + split; [apply length_set_nth|]. split; [apply length_set_nth|]. split; [|split].
      * intros v Hv. split; apply nth_set_nth_neq; auto.
      * right. split; [exact Ho|]. split; [apply nth_set_nth_eq; exact Ho|].
        split; [apply nth_set_nth_eq; lia|].
        intros x Hx. rewrite Hx in Eb. apply Nat.ltb_lt. auto.
      * intros _. exists (dcur + 1). split; [apply nth_set_nth_eq; exact Ho|lia].
    + rewrite (set_nth_overflow o _ dist) by exact Ho.
      rewrite (set_nth_overflow o _ paths) by (rewrite <- Hl; exact Ho).
      split; [reflexivity|]. split; [reflexivity|].
      split; [intros v _; split; reflexivity|]. split; [left; split; reflexivity|].
      intros Hlt. exfalso. lia.
  - inversion Hr; subst d1 p1; clear Hr. split; [reflexivity|]. split; [reflexivity|].
    split; [intros v _; split; reflexivity|]. split; [left; split; reflexivity|].
    intros _. destruct (nth o dist None) as [x|]; [|discriminate].
    exists x. split; auto. symmetry in Eb. apply Nat.ltb_ge in Eb. exact Eb. Qed.

Lemma relax_fold cur dcur pc : forall ns dist paths dist' paths',
  length dist = length paths ->
  fold_left (relax cur dcur pc) ns (dist, paths) = (dist', paths') ->
  length dist' = length dist /\ length paths' = length paths /\
  (forall v, (nth v dist' None = nth v dist None /\ nth v paths' [] = nth v paths []) \/
     (In v ns /\ v < length dist /\ nth v dist' None = Some (dcur + 1) /\
      nth v paths' [] = pc ++ [v] /\
      forall x, nth v dist None = Some x -> dcur + 1 < x)) /\
  (forall v, In v ns -> v < length dist -> exists dv, nth v dist' None = Some dv /\ dv <= dcur + 1).
Proof. induction ns as [|o ns IH]; intros dist paths dist' paths' Hl Hf.
  - simpl in Hf. inversion Hf; subst. split; auto. split; auto. split; auto. intros v [].
  - cbn [fold_left] in Hf. destruct (relax cur dcur pc (dist, paths) o) as [d1 p1] eqn:E1.
    destruct (relax_step _ _ _ _ _ _ _ _ Hl E1) as (L1 & L2 & Hne & Ho & Hlt).
    assert (Hl1 : length d1 = length p1) by lia.
    destruct (IH _ _ _ _ Hl1 Hf) as (M1 & M2 & Hv & Hin).
    split; [lia|]. split; [lia|]. split.
    + intros v. destruct (Hv v) as [[Ea Eb]|(Ha & Hb & Hc & Hd & He)].
      * destruct (Nat.eq_dec v o) as [->|Hvo].
        -- destruct Ho as [[Ec Ed]|(Hc & Hd & He & Hg)].
           ++ left. split; congruence.
           ++ right. split; [left; auto|]. split; [auto|]. split; [congruence|].
              split; [congruence|auto].
        -- destruct (Hne v Hvo) as [Ec Ed]. left; split; congruence.
      * right. split; [right; auto|]. split; [lia|]. split; auto. split; auto.
        intros x Hx. destruct (Nat.eq_dec v o) as [->|Hvo].
        -- destruct Ho as [[Ec Ed]|(Hc' & Hd' & _ & _)].
           ++ apply He. congruence.
           ++ specialize (He _ Hd'). lia.
        -- destruct (Hne v Hvo) as [Ec _]. apply He; congruence.
    + intros v [<-|Hvin] Hvl.
      * destruct (Hlt Hvl) as (dv & Hdv & Hle).
        destruct (Hv o) as [[Ea _]|(_ & _ & Hc & _)].
        -- exists dv. split; [congruence|auto].
        -- exists (dcur + 1). split; auto.
      * apply Hin; auto. lia. Qed.

(* ---- removing the current vertex from the unvisited set -------------------- *)
Lemma In_remove x c l : In x (filter (fun y => negb (Nat.eqb y c)) l) <-> In x l /\ x <> c.
Proof. rewrite filter_In, negb_true_iff, Nat.eqb_neq. tauto. Qed.

Lemma length_filter_le {A} (f : A -> bool) l : length (filter f l) <= length l.
Proof. induction l as [|a t IH]; simpl; auto. destruct (f a); simpl; lia. Qed.

Lemma length_remove_lt c l :
  In c l -> length (filter (fun y => negb (Nat.eqb y c)) l) < length l.
Proof. induction l as [|a t IH]; intros Hin; [destruct Hin|]. simpl.
  destruct (Nat.eqb a c) eqn:E; simpl.
  - pose proof (length_filter_le (fun y => negb (Nat.eqb y c)) t). lia.
  - apply Nat.eqb_neq in E. destruct Hin as [Hin|Hin]; [congruence|].
    specialize (IH Hin). lia. Qed.

(* ---- the loop invariant ----------------------------------------------------- *)
(* "visited" = below length g and not in unv *)
Record SInv (g : adj) (src : nat) (unv : list nat) (dist : list w) (paths : list (list nat)) : Prop := {
  si_ld : length dist = length g;
  si_lp : length paths = length g;
  si_ub : forall x, In x unv -> x < length g;
  si_I1 : forall u, u < length g -> ~ In u unv ->
          exists du, nth u dist None = Some du /\
            forall v, In v (nbrs g u) -> exists dv, nth v dist None = Some dv /\ dv <= du + 1;
  si_I2 : forall u v du dv, u < length g -> ~ In u unv -> In v unv ->
          nth u dist None = Some du -> nth v dist None = Some dv -> du <= dv;
  si_I3 : forall v d, nth v dist None = Some d ->
          path_from_to g src v (nth v paths []) /\ hops (nth v paths []) = d;
  si_I4 : nth src dist None = Some 0 }.

Lemma init_inv g src (Hsrc : src < length g) :
  SInv g src (seq 0 (length g))
       (set_nth src (fun _ => Some 0) (repeat None (length g)))
       (set_nth src (fun _ => [src]) (repeat [] (length g))).
Proof. constructor.
  - rewrite length_set_nth, repeat_length. reflexivity.
  - rewrite length_set_nth, repeat_length. reflexivity.
  - intros x Hx. apply in_seq in Hx. lia.
  - intros u Hu Hn. exfalso. apply Hn. apply in_seq. lia.
  - intros u v du dv Hu Hn. exfalso. apply Hn. apply in_seq. lia.
  - intros v d Hd. destruct (Nat.eq_dec src v) as [<-|Hne].
    + rewrite nth_set_nth_eq in Hd by (rewrite repeat_length; exact Hsrc).
      rewrite nth_set_nth_eq by (rewrite repeat_length; exact Hsrc).
      inversion Hd; subst d. split; [|reflexivity]. repeat split.
    + rewrite nth_set_nth_neq in Hd by exact Hne. rewrite nth_repeat in Hd. discriminate.
  - rewrite nth_set_nth_eq by (rewrite repeat_length; exact Hsrc). reflexivity. Qed.

Lemma spt_step g src (Hwf : wf g) unv dist paths cur dcur dist' paths' :
  SInv g src unv dist paths ->
  argmin_unvisited unv dist None 0 = Some (cur, dcur) ->
  fold_left (relax cur dcur (nth cur paths []))
            (filter (fun x => mem x unv) (nbrs g cur)) (dist, paths) = (dist', paths') ->
  SInv g src (filter (fun x => negb (Nat.eqb x cur)) unv) dist' paths' /\ In cur unv.
Proof.
  intros [Hld Hlp Hub H1 H2 H3 H4] Ham Hf.
  pose proof (argmin_gen unv dist None 0) as Ha. rewrite Ham in Ha.
  destruct Ha as (Ha1 & _ & Ha3).
  destruct Ha1 as [Ha1|(_ & Hcm & Hcd)]; [discriminate|].
  rewrite Nat.sub_0_r in Hcd. apply mem_In in Hcm.
  assert (Hmin : forall j dj, In j unv -> nth j dist None = Some dj -> dcur <= dj).
  { intros j dj Hj Hd. apply (Ha3 j dj); auto. simpl. apply mem_In; auto. }
  clear Ha3.
  assert (Hcn : cur < length g) by auto.
  destruct (H3 _ _ Hcd) as [Hpc Hhc].
  set (pc := nth cur paths []) in *.
  destruct (relax_fold cur dcur pc _ _ _ _ _ (eq_trans Hld (eq_sym Hlp)) Hf) as (L1 & L2 & Hv & Hin).
  assert (Hns : forall v, In v (filter (fun x => mem x unv) (nbrs g cur)) <-> In v (nbrs g cur) /\ In v unv).
  { intros v. rewrite filter_In, mem_In. tauto. }
  assert (HU : forall v, ~ In v unv \/ v = cur ->
             nth v dist' None = nth v dist None /\ nth v paths' [] = nth v paths []).
  { intros v Hvc. destruct (Hv v) as [Hu|(Ha & _ & _ & _ & Hx)]; auto.
    apply Hns in Ha. destruct Hvc as [Hvc| ->]; [tauto|]. specialize (Hx _ Hcd). lia. }
  assert (HM : forall v x, nth v dist None = Some x -> exists x', nth v dist' None = Some x' /\ x' <= x).
  { intros v x Hx. destruct (Hv v) as [[Ea _]|(_ & _ & Ea & _ & Hlt)].
    - exists x. split; [congruence|lia].
    - exists (dcur + 1). split; auto. specialize (Hlt _ Hx). lia. }
  assert (Hcur : forall u, In u unv -> ~ In u (filter (fun x => negb (Nat.eqb x cur)) unv) -> u = cur).
  { intros u Hu Hnu. destruct (Nat.eq_dec u cur); auto. exfalso. apply Hnu. apply In_remove. auto. }
  split; [|exact Hcm]. constructor.
  - congruence.
  - congruence.
  - intros x Hx. apply In_remove in Hx. apply Hub; tauto.
  - (* I1 *) intros u Hu Hnu.
    destruct (in_dec Nat.eq_dec u unv) as [Huin|Huin].
    + assert (u = cur) by auto. subst u.
      exists dcur. destruct (HU cur (or_intror eq_refl)) as [Ea _]. split; [congruence|].
      intros v Hvn. destruct (in_dec Nat.eq_dec v unv) as [Hvin|Hvin].
      * apply Hin; [apply Hns; auto|]. rewrite Hld. eapply Hwf; eauto.
      * destruct (H1 v (Hwf _ _ Hvn) Hvin) as (dv & Hdv & _).
        exists dv. destruct (HU v (or_introl Hvin)) as [Eb _]. split; [congruence|].
        pose proof (H2 v cur dv dcur (Hwf _ _ Hvn) Hvin Hcm Hdv Hcd). lia.
    + destruct (H1 u Hu Huin) as (du & Hdu & Hnb). exists du.
      destruct (HU u (or_introl Huin)) as [Ea _]. split; [congruence|].
      intros v Hvn. destruct (Hnb v Hvn) as (dv & Hdv & Hle).
      destruct (HM v dv Hdv) as (x' & Hx' & Hle'). exists x'. split; auto. lia.
  - (* I2 *) intros u v du dv Hu Hnu Hvin Hdu Hdv.
    apply In_remove in Hvin. destruct Hvin as [Hvin Hvc].
    assert (Hduc : du <= dcur).
    { destruct (in_dec Nat.eq_dec u unv) as [Huin|Huin].
      - assert (u = cur) by auto. subst u.
        destruct (HU cur (or_intror eq_refl)) as [Ea _]. rewrite Ea, Hcd in Hdu.
        inversion Hdu. lia.
      - destruct (HU u (or_introl Huin)) as [Ea _]. rewrite Ea in Hdu.
        apply (H2 u cur du dcur); auto. }
    destruct (Hv v) as [[Ea _]|(_ & _ & Ea & _)].
    + rewrite Ea in Hdv. pose proof (Hmin v dv Hvin Hdv). lia.
    + rewrite Ea in Hdv. inversion Hdv. lia.
  - (* I3 *) intros v d Hd. destruct (Hv v) as [[Ea Eb]|(Ha & _ & Ea & Eb & _)].
    + rewrite Eb. apply H3. congruence.
    + rewrite Eb. rewrite Ea in Hd. inversion Hd; subst d. apply Hns in Ha. destruct Ha as [Ha _].
      destruct (path_snoc g src cur v pc Hpc Ha) as [Hp Hh]. split; auto. lia.
  - (* I4 *) destruct (HM src 0 H4) as (x' & Hx' & Hle).
    replace x' with 0 in Hx' by lia. exact Hx'.
Qed.

Lemma spt_none g src (Hwf : wf g) (Hsrc : src < length g) unv dist paths x :
  SInv g src unv dist paths -> argmin_unvisited unv dist None 0 = None -> In x unv -> ~ reach g src x.
Proof.
  intros [Hld Hlp Hub H1 H2 H3 H4] Ham Hx Hr.
  pose proof (argmin_gen unv dist None 0) as Ha. rewrite Ham in Ha. destruct Ha as [_ Ha].
  assert (Hnone : forall j, In j unv -> nth j dist None = None).
  { intros j Hj. apply Ha. simpl. apply mem_In; auto. }
  assert (Hall : forall t, reach g src t -> t < length g /\ ~ In t unv).
  { intros t Ht. induction Ht as [|b c Hb IH Hc].
    - split; auto. intros Hin. rewrite (Hnone _ Hin) in H4. discriminate.
    - destruct IH as [Hbl Hbn]. split; [eapply Hwf; eauto|].
      destruct (H1 b Hbl Hbn) as (du & _ & Hnb). destruct (Hnb c Hc) as (dv & Hdv & _).
      intros Hin. rewrite (Hnone _ Hin) in Hdv. discriminate. }
  apply (Hall x Hr); auto.
Qed.

Lemma spt_loop_S g f unv dist paths : unv <> [] ->
  spt_loop (S f) g unv dist paths =
  match argmin_unvisited unv dist None 0 with
  | None => None
  | Some (cur, dcur) =>
    let ns := filter (fun x => mem x unv) (nbrs g cur) in
    let '(dist', paths') := fold_left (relax cur dcur (nth cur paths [])) ns (dist, paths) in
    spt_loop f g (filter (fun x => negb (Nat.eqb x cur)) unv) dist' paths'
  end.
Proof. destruct unv; [congruence|reflexivity]. Qed.

Lemma spt_loop_spec g src (Hwf : wf g) (Hsrc : src < length g) : forall fuel unv dist paths,
  SInv g src unv dist paths -> length unv <= fuel ->
  match spt_loop fuel g unv dist paths with
  | Some ps => exists dist', SInv g src [] dist' ps
  | None => exists t, t < length g /\ ~ reach g src t
  end.
Proof.
  induction fuel as [|f IH]; intros unv dist paths HI Hfuel.
  - destruct unv; [|simpl in Hfuel; lia]. simpl. exists dist; auto.
  - destruct unv as [|x0 r]; [simpl; exists dist; auto|].
    set (unv := x0 :: r) in *.
    assert (Hx0 : In x0 unv) by (left; auto).
    assert (Hne : unv <> []) by (unfold unv; discriminate).
    clearbody unv. rewrite (spt_loop_S g f unv dist paths Hne).
    destruct (argmin_unvisited unv dist None 0) as [[cur dcur]|] eqn:Ham.
    + cbv zeta.
      destruct (fold_left (relax cur dcur (nth cur paths []))
                  (filter (fun x => mem x unv) (nbrs g cur)) (dist, paths)) as [dist' paths'] eqn:Hf.
      destruct (spt_step g src Hwf _ _ _ _ _ _ _ HI Ham Hf) as [HI' Hcin].
      apply IH; auto. pose proof (length_remove_lt cur unv Hcin). lia.
    + exists x0. split; [apply (si_ub _ _ _ _ _ HI); auto|]. eapply spt_none; eauto.
Qed.

Lemma dist_le_path g (Hwf : wf g) (dist : list w) :
  (forall u, u < length g -> exists du, nth u dist None = Some du /\
     forall v, In v (nbrs g u) -> exists dv, nth v dist None = Some dv /\ dv <= du + 1) ->
  forall t a da d, a < length g -> is_path g (a :: t) -> nth a dist None = Some da ->
  exists dt, nth (last (a :: t) d) dist None = Some dt /\ dt <= da + length t.
Proof. intros HE. induction t as [|y t IH]; intros a da d Ha Hp Hda.
  - exists da. simpl. split; auto. lia.
  - apply is_path_cons2 in Hp. destruct Hp as [Hy Hp].
    destruct (HE a Ha) as (du & Hdu & Hnb). rewrite Hda in Hdu. inversion Hdu; subst du.
    destruct (Hnb y Hy) as (dy & Hdy & Hle).
    destruct (IH y dy d (Hwf _ _ Hy) Hp Hdy) as (dt & Hdt & Hle2).
    exists dt. rewrite last_cons2. split; auto. simpl. lia.
Qed.

(* ---- the theorems ----------------------------------------------------------- *)
Theorem spt_spec g src : wf g -> src < length g ->
  match shortest_path_tree g src with
  | Some paths =>
      length paths = length g /\
      forall t, t < length g ->
        let p := nth t paths [] in
        path_from_to g src t p /\ (forall q, path_from_to g src t q -> hops p <= hops q)
  | None => exists t, t < length g /\ ~ reach g src t      (* the code raises RuntimeError *)
  end.
Proof. intros Hwf Hsrc. unfold shortest_path_tree.
  destruct (Nat.leb (length g) src) eqn:E; [apply Nat.leb_le in E; lia|].
  pose proof (spt_loop_spec g src Hwf Hsrc (length g) _ _ _ (init_inv g src Hsrc)) as H.
  rewrite seq_length in H. specialize (H (le_n _)).
  destruct (spt_loop (length g) g (seq 0 (length g))
             (set_nth src (fun _ => Some 0) (repeat None (length g)))
             (set_nth src (fun _ => [src]) (repeat [] (length g)))) as [ps|]; [|exact H].
  destruct H as (dist & [Hld Hlp Hub H1 H2 H3 H4]).
  split; [exact Hlp|]. intros t Ht.
  assert (HE : forall u, u < length g -> exists du, nth u dist None = Some du /\
     forall v, In v (nbrs g u) -> exists dv, nth v dist None = Some dv /\ dv <= du + 1).
  { intros u Hu. apply H1; auto. }
  destruct (HE t Ht) as (dt & Hdt & _). destruct (H3 t dt Hdt) as [Hp Hh]. split; [exact Hp|].
  intros q (Hq1 & Hq2 & Hq3). destruct q as [|a q']; [destruct Hq3|].
  simpl in Hq1. inversion Hq1; subst a.
  destruct (dist_le_path g Hwf dist HE q' src 0 src Hsrc Hq3 H4) as (dt' & Hdt' & Hle).
  rewrite Hq2 in Hdt'. pose proof (eq_trans (eq_sym Hdt) Hdt') as Heq. inversion Heq; subst dt'.
  rewrite Hh. unfold hops. simpl. lia. Qed.

Theorem spt_out_of_range g src : length g <= src -> shortest_path_tree g src = None.
Proof. intros H. unfold shortest_path_tree. apply Nat.leb_le in H. rewrite H. reflexivity. Qed.

(* bridge between the two notions, so that "Some" is exactly "everything reachable" *)
Corollary spt_some_iff g src : wf g -> src < length g ->
  ((exists paths, shortest_path_tree g src = Some paths) <-> forall t, t < length g -> reach g src t).
Proof. intros Hwf Hsrc. pose proof (spt_spec g src Hwf Hsrc) as H.
  destruct (shortest_path_tree g src) as [ps|].
  - split; [|intros _; exists ps; reflexivity].
    intros _ t Ht. destruct H as [_ H]. destruct (H t Ht) as [Hp _].
    eapply path_reach; exact Hp.
  - split; [intros [ps Hps]; discriminate|].
    intros Hall. destruct H as (t & Ht & Hn). exfalso. apply Hn. apply Hall. exact Ht. Qed.
