(* map/SabreStrict.v - the SABRE run relation restricted by the control-flow guards of the main
   loop (Sabre.strict_ok: swap only when nothing is executable and at most 5.|cg| leading swaps,
   backtrack only after more than 5.|cg|).  Definitions only; theorems in map/SabreBound.v.
   strict_ok itself is tied to the implementation on every run (the driver evaluates it at every
   recorded step and the harness demands True). *)
From Coq Require Import List Arith Bool PeanoNat.
Import ListNotations.
From BQ Require Import lib.Perm map.Graph map.Sabre.

(* replay that also demands the control-flow guards of the code at every step *)
Fixpoint replay_strict (cg : adj) (c : circ) (fwd modify : bool) (s : state) (tr : list step) : option state :=
  match tr with
  | [] => Some s
  | t :: r => if strict_ok cg c s t then
                match do_step cg c fwd modify s t with
                | Some s' => replay_strict cg c fwd modify s' r
                | None => None
                end
              else None
  end.


(* line 0-1-2-3, one gate on the two ends; swapping the middle edge never helps *)
Definition nt_cg : adj := mk_adj 4 [(0,1); (1,2); (2,3)].
Definition nt_c : circ := [mkop false [0;3]].
Definition nt_round : list step := repeat (Swap (1,2)) 21 ++ [Backtrack].
Definition nt_init : state := init nt_c 4 true (idperm 4).

