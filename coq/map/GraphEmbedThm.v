(* Theorems about is_embedded_in (sub-graph monomorphism by brute force) and
   maximal_matching (greedy matching over a given edge order) of the CouplingGraph
   model (GraphExt.v). *)
From Coq Require Import List Arith Bool PeanoNat Lia.
Import ListNotations.
From BQ Require Import map.Graph map.GraphThm map.GraphExt.

(* ---- small facts about the model's list helpers ------------------------------------- *)
Lemma emb_In_insert_sorted x y l : In x (insert_sorted y l) <-> x = y \/ In x l.
Proof. induction l as [|z t IH]; simpl.
  - split; intros [H|H]; auto.
  - destruct (Nat.leb y z) eqn:E; simpl.
    + split; intros [H|[H|H]]; auto.
    + rewrite IH. split; intros [H|[H|H]]; auto. Qed.

Lemma emb_In_sort x l : In x (sort l) <-> In x l.
Proof. unfold sort. induction l as [|y t IH]; simpl; [tauto|].
  rewrite emb_In_insert_sorted, IH. split; intros [H|H]; auto. Qed.

Lemma In_remove_nat x y l : In x (remove_nat y l) <-> In x l /\ x <> y.
Proof. unfold remove_nat. rewrite filter_In, negb_true_iff, Nat.eqb_neq. tauto. Qed.

Lemma NoDup_remove_nat y l : NoDup l -> NoDup (remove_nat y l).
Proof. unfold remove_nat. apply NoDup_filter. Qed.

(* ---- it.permutations(pool, k) ---------------------------------------------------------- *)
Lemma inj_lists_spec_aux k : forall pool l, NoDup pool ->
  (In l (inj_lists k pool) <-> (length l = k /\ NoDup l /\ forall x, In x l -> In x pool)).
Proof. induction k as [|k IH]; intros pool l Hnd; simpl.
  - split.
    + intros [<-|[]]. simpl. split; [reflexivity|]. split; [constructor|]. intros x [].
    + intros (Hlen & _ & _). destruct l as [|x t]; [left; reflexivity|discriminate].
  - rewrite in_flat_map. split.
    + intros (x & Hx & Hin). apply in_map_iff in Hin as (t & <- & Ht).
      apply IH in Ht as (Hlen & Hndt & Hsub); [|apply NoDup_remove_nat; exact Hnd].
      split; [simpl; lia|]. split.
      * constructor; auto. intros Hxt. apply Hsub in Hxt. apply In_remove_nat in Hxt. tauto.
      * intros y [<-|Hy]; auto. apply Hsub in Hy. apply In_remove_nat in Hy. tauto.
    + intros (Hlen & Hndl & Hsub). destruct l as [|x t]; [discriminate|].
      exists x. split; [apply Hsub; left; reflexivity|].
      apply in_map. apply IH; [apply NoDup_remove_nat; exact Hnd|].
      inversion Hndl as [|x' t' Hxt Hndt]; subst.
      split; [simpl in Hlen; lia|]. split; auto.
      intros y Hy. apply In_remove_nat. split; [apply Hsub; right; exact Hy|].
      intros ->. contradiction. Qed.

Theorem inj_lists_spec k pool l : NoDup pool ->
  (In l (inj_lists k pool) <-> (length l = k /\ NoDup l /\ forall x, In x l -> In x pool)).
Proof. apply inj_lists_spec_aux. Qed.

(* ---- the normalised edge set ------------------------------------------------------------ *)
Theorem edges_of_spec g a b : In (a, b) (edges_of g) <-> (a < length g /\ a < b /\ In b (nbrs g a)).
Proof. unfold edges_of. rewrite in_flat_map. split.
  - intros (a' & Ha' & Hin). apply in_map_iff in Hin as (b' & Heq & Hb').
    inversion Heq; subst. apply filter_In in Hb' as (Hb1 & Hb2).
    apply Nat.ltb_lt in Hb2. apply (proj1 (emb_In_sort _ _)) in Hb1. apply in_seq in Ha'.
    split; [lia|]. split; auto.
  - intros (Ha & Hab & Hb). exists a. split; [apply in_seq; lia|].
    apply in_map. apply filter_In. split; [apply emb_In_sort; exact Hb|apply Nat.ltb_lt; exact Hab]. Qed.

(* (min, max) in graph._edges, for a symmetric adjacency structure *)
Lemma has_edge_In h x y : sym h -> (has_edge h x y = true <-> In y (nbrs h x)).
Proof. intros Hsym. unfold has_edge. rewrite mem_In. destruct (le_lt_dec x y) as [Hle|Hlt].
  - rewrite Nat.max_r, Nat.min_l by lia. tauto.
  - rewrite Nat.max_l, Nat.min_r by lia. split; apply Hsym. Qed.

(* ---- sub-graph monomorphisms -------------------------------------------------------------- *)
(* f (a list: vertex a of g goes to nth a f 0) is an injective map V(g) -> V(h) that sends
   edges to edges *)
Definition embedding (g h : adj) (f : list nat) : Prop :=
  length f = length g /\ NoDup f /\ (forall x, In x f -> x < length h) /\
  forall a b, a < length g -> In b (nbrs g a) -> In (nth b f 0) (nbrs h (nth a f 0)).

Lemma NoDup_map_inj_on {A B} (F : A -> B) (l : list A) :
  NoDup l -> (forall x y, In x l -> In y l -> F x = F y -> x = y) -> NoDup (map F l).
Proof. induction l as [|x t IH]; intros Hnd Hinj; simpl; [constructor|].
  inversion Hnd as [|x' t' Hxt Hndt]; subst. constructor.
  - intros Hin. apply in_map_iff in Hin as (y & Hy & Hyt).
    assert (y = x) by (apply Hinj; [right; exact Hyt|left; reflexivity|exact Hy]).
    subst. contradiction.
  - apply IH; auto. intros a b Ha Hb. apply Hinj; right; assumption. Qed.

(* an embedding cannot lower a degree *)
Lemma embedding_degree g h f a :
  wf g -> nodup_adj g -> embedding g h f -> a < length g ->
  length (nbrs g a) <= length (nbrs h (nth a f 0)).
Proof. intros Hwf Hnd (Hlen & Hndf & Hb & He) Ha.
  rewrite <- (map_length (fun b => nth b f 0) (nbrs g a)).
  apply NoDup_incl_length.
  - apply NoDup_map_inj_on; [apply Hnd|].
    intros x y Hx Hy Heq. apply Hwf in Hx. apply Hwf in Hy.
    apply (proj1 (NoDup_nth f 0) Hndf); [lia|lia|exact Heq].
  - intros z Hz. apply in_map_iff in Hz as (b & <- & Hbn). apply He; assumption. Qed.

Theorem is_embedded_in_spec g h :
  wf g -> sym g -> loopfree g -> nodup_adj g -> sym h -> nodup_adj h ->
  (is_embedded_in g h = true <-> exists f, embedding g h f).
Proof. intros Hwf Hsym Hlf Hnd Hsymh Hndh. unfold is_embedded_in. split.
  - intros H. destruct (Nat.ltb (length h) (length g)) eqn:E1; [discriminate|].
    destruct (existsb (fun d => negb (existsb (fun d' => Nat.leb d d') (degrees h))) (degrees g)) eqn:E2;
      [discriminate|].
    apply existsb_exists in H as (f & Hf & He).
    apply inj_lists_spec in Hf as (Hlen & Hndf & Hsub); [|apply seq_NoDup].
    exists f. split; [exact Hlen|]. split; [exact Hndf|]. split.
    + intros x Hx. apply Hsub in Hx. apply in_seq in Hx. lia.
    + intros a b Ha Hb. unfold embeds_by in He. rewrite forallb_forall in He.
      assert (Hab : a <> b) by (intros ->; apply (Hlf b); exact Hb).
      destruct (lt_dec a b) as [Hlt|Hge].
      * specialize (He (a, b)). simpl in He. apply has_edge_In; [exact Hsymh|].
        apply He. apply edges_of_spec. auto.
      * specialize (He (b, a)). simpl in He. apply Hsymh. apply has_edge_In; [exact Hsymh|].
        apply He. apply edges_of_spec. split; [eapply Hwf; exact Hb|].
        split; [lia|]. apply Hsym. exact Hb.
  - intros (f & Hemb). pose proof Hemb as (Hlen & Hndf & Hb & He).
    assert (Hle : length g <= length h).
    { rewrite <- Hlen, <- (seq_length (length h) 0). apply NoDup_incl_length; [exact Hndf|].
      intros x Hx. apply in_seq. specialize (Hb x Hx). lia. }
    destruct (Nat.ltb (length h) (length g)) eqn:E1; [apply Nat.ltb_lt in E1; lia|].
    destruct (existsb (fun d => negb (existsb (fun d' => Nat.leb d d') (degrees h))) (degrees g)) eqn:E2.
    + exfalso. apply existsb_exists in E2 as (d & Hd & Hneg). apply negb_true_iff in Hneg.
      unfold degrees in Hd. apply in_map_iff in Hd as (ns & <- & Hns).
      apply (In_nth _ _ []) in Hns as (a & Ha & Hnth).
      assert (X : existsb (fun d' => Nat.leb (length ns) d') (degrees h) = true).
      { apply existsb_exists. exists (length (nbrs h (nth a f 0))). split.
        - unfold degrees. apply in_map. unfold nbrs. apply nth_In. apply Hb. apply nth_In. lia.
        - apply Nat.leb_le. rewrite <- Hnth. apply (embedding_degree g h f a); assumption. }
      rewrite X in Hneg. discriminate.
    + apply existsb_exists. exists f. split.
      * apply inj_lists_spec; [apply seq_NoDup|]. split; [exact Hlen|]. split; [exact Hndf|].
        intros x Hx. apply in_seq. specialize (Hb x Hx). lia.
      * unfold embeds_by. apply forallb_forall. intros [a b] Hab. simpl.
        apply edges_of_spec in Hab as (Ha & Hlt & Hin). apply has_edge_In; [exact Hsymh|].
        apply He; assumption. Qed.

(* ---- maximal_matching ----------------------------------------------------------------------- *)
Definition admissible (order ignore : list edge) : list edge :=
  filter (fun e => negb (emem e ignore) && negb (emem (snd e, fst e) ignore)) order.
Definition touches (e f : edge) : Prop := fst e = fst f \/ fst e = snd f \/ snd e = fst f \/ snd e = snd f.

Lemma emem_In e l : emem e l = true <-> In e l.
Proof. induction l as [|f t IH]; simpl; [split; [discriminate|tauto]|].
  rewrite orb_true_iff, andb_true_iff, !Nat.eqb_eq, IH.
  destruct e as [a b], f as [c d]; simpl. split.
  - intros [[-> ->]|H]; auto.
  - intros [H|H]; auto. inversion H; auto. Qed.

Lemma touches_sym e f : touches e f -> touches f e.
Proof. unfold touches. intros [H|[H|[H|H]]]; auto. Qed.

(* the state (m, vs) of the greedy loop after the edges P have been processed *)
Record minv (P : list edge) (m : list edge) (vs : list nat) : Prop := {
  mi_vs : forall x, In x vs <-> exists f, In f m /\ (x = fst f \/ x = snd f);
  mi_nd : NoDup m;
  mi_pw : forall e f, In e m -> In f m -> e <> f -> ~ touches e f;
  mi_sub : forall e, In e m -> In e P /\ fst e <> snd e;
  mi_max : forall e, In e P -> fst e <> snd e -> exists f, In f m /\ touches e f }.

Lemma matching_step_inv P m vs e : minv P m vs ->
  minv (P ++ [e]) (fst (matching_step (m, vs) e)) (snd (matching_step (m, vs) e)).
Proof. intros [Hvs Hnd Hpw Hsub Hmax]. unfold matching_step.
  destruct (negb (mem (fst e) vs) && negb (mem (snd e) vs) && negb (Nat.eqb (fst e) (snd e))) eqn:E; simpl.
  - apply andb_true_iff in E as [E E3]. apply andb_true_iff in E as [E1 E2].
    apply negb_true_iff in E1, E2, E3. apply mem_false in E1, E2. apply Nat.eqb_neq in E3.
    assert (Hfresh : forall f, In f m -> ~ touches e f).
    { intros f Hf Ht. destruct Ht as [Ht|[Ht|[Ht|Ht]]].
      - apply E1. apply Hvs. exists f. split; auto.
      - apply E1. apply Hvs. exists f. split; auto.
      - apply E2. apply Hvs. exists f. split; auto.
      - apply E2. apply Hvs. exists f. split; auto. }
    constructor.
    + intros x. simpl. rewrite Hvs. split.
      * intros [<-|[<-|(f & Hf & Hx)]]; [exists e; auto|exists e; auto|exists f; auto].
      * intros (f & [<-|Hf] & Hx); [destruct Hx as [->| ->]; auto|].
        right; right. exists f; auto.
    + constructor; auto. intros Hin. apply (Hfresh e Hin). left; reflexivity.
    + intros e1 e2 [<-|H1] [<-|H2] Hne.
      * congruence.
      * apply Hfresh; exact H2.
      * intros Ht. apply (Hfresh e1 H1). apply touches_sym; exact Ht.
      * apply Hpw; assumption.
    + intros e1 [<-|H1].
      * split; [apply in_or_app; right; left; reflexivity|exact E3].
      * destruct (Hsub e1 H1) as [Hin Hnl]. split; [apply in_or_app; left; exact Hin|exact Hnl].
    + intros e1 H1 Hnl. apply in_app_or in H1 as [H1|[<-|[]]].
      * destruct (Hmax e1 H1 Hnl) as (f & Hf & Ht). exists f. split; [right; exact Hf|exact Ht].
      * exists e. split; [left; reflexivity|left; reflexivity].
  - constructor; auto.
    + intros e1 H1. destruct (Hsub e1 H1) as [Hin Hnl]. split; [apply in_or_app; left; exact Hin|exact Hnl].
    + intros e1 H1 Hnl. apply in_app_or in H1 as [H1|[<-|[]]]; [apply Hmax; assumption|].
      destruct (mem (fst e) vs) eqn:E1.
      { apply mem_In in E1. apply Hvs in E1 as (f & Hf & Hx). exists f. split; [exact Hf|].
        destruct Hx as [Hx|Hx]; [left; exact Hx|right; left; exact Hx]. }
      destruct (mem (snd e) vs) eqn:E2.
      { apply mem_In in E2. apply Hvs in E2 as (f & Hf & Hx). exists f. split; [exact Hf|].
        destruct Hx as [Hx|Hx]; [right; right; left; exact Hx|right; right; right; exact Hx]. }
      simpl in E. apply negb_false_iff in E. apply Nat.eqb_eq in E. contradiction. Qed.

Lemma matching_fold_inv el : forall P st, minv P (fst st) (snd st) ->
  minv (P ++ el) (fst (fold_left matching_step el st)) (snd (fold_left matching_step el st)).
Proof. induction el as [|e t IH]; intros P [m vs] H; cbn [fold_left].
  - rewrite app_nil_r. exact H.
  - replace (P ++ e :: t) with ((P ++ [e]) ++ t) by (rewrite <- app_assoc; reflexivity).
    apply IH. apply matching_step_inv. exact H. Qed.

Lemma minv_init : minv [] [] [].
Proof. constructor.
  - intros x. split; [intros []|intros (f & [] & _)].
  - constructor.
  - intros e f [].
  - intros e [].
  - intros e []. Qed.

Theorem maximal_matching_spec order ignore :
  let m := maximal_matching order ignore in
  (* only admissible, non-loop edges of the graph *)
  (forall e, In e m -> In e (admissible order ignore) /\ fst e <> snd e) /\
  (* a matching: no two distinct chosen edges share a vertex, no edge chosen twice *)
  NoDup m /\ (forall e f, In e m -> In f m -> e <> f -> ~ touches e f) /\
  (* maximal: every admissible non-loop edge touches a chosen edge *)
  (forall e, In e (admissible order ignore) -> fst e <> snd e -> exists f, In f m /\ touches e f).
Proof. intros m.
  pose proof (matching_fold_inv (admissible order ignore) [] ([], []) minv_init) as H.
  simpl app in H.
  change (fst (fold_left matching_step (admissible order ignore) ([], []))) with m in H.
  destruct H as [_ Hnd Hpw Hsub Hmax]. auto. Qed.
