(* C20: PermutationMatrix.from_qudit_location as a MATRIX, for EVERY number of qudits and
   EVERY radix.  The matrix built by the model (identity builder, one
   apply_left(swap, (index, pos)) per swap recorded by the loop) is the documented
   permutation matrix of the completed arrangement.  Ingredients: the identity is the
   permutation matrix of the identity arrangement, the embedded two-qudit swap is the
   permutation matrix of a transposition, permutation matrices multiply by composing
   their arrangements, and the loop invariant of GraphPermThm. *)
From Coq Require Import List ZArith Arith Bool PeanoNat Lia.
Import ListNotations.
From BQ Require Import map.Graph map.GraphThm map.GraphPermThm map.Kron map.KronThm map.KronEmbedThm.

Local Notation gather l d := (map (fun q => nth q d 0) l).

(* ---- the uniform radix list ------------------------------------------------------------- *)

Lemma rep_pos radix n : 0 < radix -> Forall (fun r => 0 < r) (repeat radix n).
Proof.
  intros Hr. induction n as [|n IH]; simpl.
  - constructor.
  - constructor; assumption.
Qed.

Lemma rep_nth radix n : forall q, q < n -> nth q (repeat radix n) 0 = radix.
Proof.
  induction n as [|n IH]; intros q Hq.
  - lia.
  - destruct q as [|q]; simpl.
    + reflexivity.
    + apply IH. lia.
Qed.

Lemma rep_dim_pos radix n : 0 < radix -> 0 < dim (repeat radix n).
Proof. intros Hr. apply dim_pos. apply rep_pos. exact Hr. Qed.

Lemma gather_rep radix n (f : list nat) : (forall x, In x f -> x < n) ->
  gather f (repeat radix n) = repeat radix (length f).
Proof.
  induction f as [|x f IH]; intros Hf; simpl.
  - reflexivity.
  - rewrite rep_nth by (apply Hf; left; reflexivity).
    rewrite IH by (intros y Hy; apply Hf; right; exact Hy). reflexivity.
Qed.

(* ---- the index map of perm_matrix --------------------------------------------------------- *)

Definition tau (n radix : nat) (f : list nat) (c : nat) : nat :=
  undigits (repeat radix n) (gather f (digits (repeat radix n) c)).

Lemma tau_digits_bounded n radix f c :
  length f = n -> (forall x, In x f -> x < n) -> c < dim (repeat radix n) ->
  Forall2 lt (gather f (digits (repeat radix n) c)) (repeat radix n).
Proof.
  intros Hlen Hf Hc.
  pose proof (gather_bounded f _ _ (digits_bounded (repeat radix n) c Hc)) as HB.
  rewrite repeat_length in HB. specialize (HB Hf).
  rewrite (gather_rep radix n f Hf), Hlen in HB. exact HB.
Qed.

Lemma tau_lt n radix f c :
  length f = n -> (forall x, In x f -> x < n) -> c < dim (repeat radix n) ->
  tau n radix f c < dim (repeat radix n).
Proof.
  intros Hlen Hf Hc. unfold tau. apply undigits_lt. apply tau_digits_bounded; assumption.
Qed.

Lemma digits_tau n radix f c :
  length f = n -> (forall x, In x f -> x < n) -> c < dim (repeat radix n) ->
  digits (repeat radix n) (tau n radix f c) = gather f (digits (repeat radix n) c).
Proof.
  intros Hlen Hf Hc. unfold tau. apply digits_undigits. apply tau_digits_bounded; assumption.
Qed.

Lemma pm_shape n radix f :
  zshape (dim (repeat radix n)) (dim (repeat radix n)) (perm_matrix n radix f).
Proof.
  unfold perm_matrix. split.
  - rewrite map_length, seq_length. reflexivity.
  - rewrite Forall_forall. intros row Hrow. apply in_map_iff in Hrow.
    destruct Hrow as [i [Heq _]]. subst row. rewrite map_length, seq_length. reflexivity.
Qed.

Lemma pm_entry n radix f row col :
  row < dim (repeat radix n) -> col < dim (repeat radix n) ->
  zget (perm_matrix n radix f) row col
  = (if Nat.eqb row (tau n radix f col) then 1 else 0)%Z.
Proof.
  intros Hr Hc. unfold zget, perm_matrix. cbv zeta.
  rewrite (nth_map_d _ (seq 0 (dim (repeat radix n))) 0 []) by (rewrite seq_length; exact Hr).
  rewrite (nth_map_d _ (seq 0 (dim (repeat radix n))) 0 0%Z) by (rewrite seq_length; exact Hc).
  rewrite !seq_nth by assumption. reflexivity.
Qed.

Lemma mmul_pm_right n radix g M m r c :
  0 < dim (repeat radix n) -> zshape m (dim (repeat radix n)) M -> r < m ->
  c < dim (repeat radix n) -> tau n radix g c < dim (repeat radix n) ->
  zget (mmul M (perm_matrix n radix g)) r c = zget M r (tau n radix g c).
Proof.
  intros HD HM Hr Hc Hs.
  rewrite (mmul_entry m (dim (repeat radix n)) (dim (repeat radix n)) M _ HM
             (pm_shape n radix g) r c Hr Hc).
  rewrite <- (sum_delta_right (fun k => zget M r k) (tau n radix g c) (dim (repeat radix n)) Hs).
  f_equal. apply map_ext_in. intros k Hk. apply in_seq in Hk.
  rewrite pm_entry by lia. reflexivity.
Qed.

(* ---- step 1: the identity ----------------------------------------------------------------- *)

Lemma tau_id n radix c : 0 < radix -> c < dim (repeat radix n) -> tau n radix (seq 0 n) c = c.
Proof.
  intros Hr Hc. unfold tau.
  pose proof (gather_seq_id (digits (repeat radix n) c)) as HG.
  rewrite digits_length, repeat_length in HG. rewrite HG.
  apply undigits_digits; [apply rep_pos; exact Hr | exact Hc].
Qed.

Theorem ident_is_perm_matrix n radix : 0 < radix ->
  ident (dim (repeat radix n)) = perm_matrix n radix (seq 0 n).
Proof.
  intros Hr.
  apply (zmat_ext (dim (repeat radix n)) (dim (repeat radix n))).
  - apply ident_shape.
  - apply pm_shape.
  - intros i j Hi Hj. rewrite ident_entry by assumption. rewrite pm_entry by assumption.
    rewrite tau_id by assumption. reflexivity.
Qed.

(* ---- step 3: composition -------------------------------------------------------------------- *)

Lemma gather_gather (f g d : list nat) : (forall x, In x f -> x < length g) ->
  gather f (gather g d) = gather (gather f g) d.
Proof.
  intros Hf. rewrite map_map. apply map_ext_in. intros q Hq.
  rewrite (nth_map_d _ g 0 0) by (apply Hf; exact Hq). reflexivity.
Qed.

Theorem perm_matrix_mul n radix f g : 0 < radix ->
  (forall x, In x f -> x < n) ->
  length g = n -> (forall x, In x g -> x < n) ->
  mmul (perm_matrix n radix f) (perm_matrix n radix g)
  = perm_matrix n radix (map (fun i => nth i g 0) f).
Proof.
  intros Hr Hf Hlg Hg.
  pose proof (rep_dim_pos radix n Hr) as HD.
  apply (zmat_ext (dim (repeat radix n)) (dim (repeat radix n))).
  - apply (mmul_shape _ (dim (repeat radix n))); [exact HD | apply pm_shape | apply pm_shape].
  - apply pm_shape.
  - intros r c Hrr Hc.
    pose proof (tau_lt n radix g c Hlg Hg Hc) as Ht.
    rewrite (mmul_pm_right n radix g _ (dim (repeat radix n)) r c HD (pm_shape n radix f) Hrr Hc Ht).
    rewrite !pm_entry by assumption.
    replace (tau n radix (gather f g) c) with (tau n radix f (tau n radix g c)); [reflexivity|].
    unfold tau at 1. rewrite (digits_tau n radix g c Hlg Hg Hc).
    rewrite gather_gather by (rewrite Hlg; exact Hf). reflexivity.
Qed.

(* ---- step 2: the embedded swap ---------------------------------------------------------------- *)

Lemma swap_mat_entry radix x y : x < radix * radix -> y < radix * radix ->
  zget (swap_mat radix) x y
  = (if Nat.eqb x ((y mod radix) * radix + y / radix) then 1 else 0)%Z.
Proof.
  intros Hx Hy. unfold zget, swap_mat. cbv zeta.
  rewrite (nth_map_d _ (seq 0 (radix * radix)) 0 []) by (rewrite seq_length; exact Hx).
  rewrite (nth_map_d _ (seq 0 (radix * radix)) 0 0%Z) by (rewrite seq_length; exact Hy).
  rewrite !seq_nth by assumption. reflexivity.
Qed.

Lemma nth_sw n a b q : a < n -> b < n -> q < n ->
  nth q (swap_list (seq 0 n) a b) 0 = tr a b q.
Proof.
  intros Ha Hb Hq. rewrite nth_swap_list by (rewrite seq_length; assumption).
  rewrite seq_nth by (apply tr_lt; assumption). reflexivity.
Qed.

Lemma sw_length n a b : length (swap_list (seq 0 n) a b) = n.
Proof. rewrite length_swap_list, seq_length. reflexivity. Qed.

Lemma sw_range n a b x : a < n -> b < n -> In x (swap_list (seq 0 n) a b) -> x < n.
Proof.
  intros Ha Hb Hx. apply (In_nth _ _ 0) in Hx. destruct Hx as [p [Hp Hx]].
  rewrite sw_length in Hp. subst x. rewrite nth_sw by assumption. apply tr_lt; assumption.
Qed.

Lemma gather_sw_nth n a b (d : list nat) q : a < n -> b < n -> q < n ->
  nth q (gather (swap_list (seq 0 n) a b) d) 0 = nth (tr a b q) d 0.
Proof.
  intros Ha Hb Hq. rewrite (nth_map_d _ _ 0 0) by (rewrite sw_length; exact Hq).
  rewrite nth_sw by assumption. reflexivity.
Qed.

Lemma undigits2 p q x y : undigits [p; q] [x; y] = x * q + y.
Proof. simpl. lia. Qed.

Lemma pair_split radix x1 y1 x2 y2 : y1 < radix -> y2 < radix ->
  x1 * radix + y1 = x2 * radix + y2 -> x1 = x2 /\ y1 = y2.
Proof.
  intros H1 H2 E.
  assert (E1 : x1 = (x1 * radix + y1) / radix).
  { apply Nat.div_unique with (r := y1); lia. }
  assert (E2 : x2 = (x1 * radix + y1) / radix).
  { apply Nat.div_unique with (r := y2); lia. }
  assert (Ex : x1 = x2) by congruence.
  clear E1 E2. split; [exact Ex|]. rewrite <- Ex in E. lia.
Qed.

Lemma pair_lt radix x y : x < radix -> y < radix -> x * radix + y < radix * radix.
Proof.
  intros Hx Hy.
  assert (Hle : (x + 1) * radix <= radix * radix) by (apply Nat.mul_le_mono_r; lia).
  lia.
Qed.

Lemma pair_div radix x y : y < radix -> (x * radix + y) / radix = x.
Proof. intros Hy. symmetry. apply Nat.div_unique with (r := y); lia. Qed.

Lemma pair_mod radix x y : y < radix -> (x * radix + y) mod radix = y.
Proof. intros Hy. symmetry. apply Nat.mod_unique with (q := x); lia. Qed.

Lemma swap_embed_entry n radix a b r c :
  0 < radix -> a < n -> b < n -> a <> b ->
  r < dim (repeat radix n) -> c < dim (repeat radix n) ->
  embed_entry (repeat radix n) [a; b] (swap_mat radix) r c
  = (if Nat.eqb r (tau n radix (swap_list (seq 0 n) a b) c) then 1 else 0)%Z.
Proof.
  intros Hrad Ha Hb Hab Hr Hc.
  pose proof (rep_pos radix n Hrad) as Hpos.
  pose proof (digits_bounded _ r Hr) as Br.
  pose proof (digits_bounded _ c Hc) as Bc.
  pose proof (tau_digits_bounded n radix (swap_list (seq 0 n) a b) c
                (sw_length n a b) (fun x => sw_range n a b x Ha Hb) Hc) as Bt.
  assert (Lr : forall q, q < n -> nth q (digits (repeat radix n) r) 0 < radix).
  { intros q Hq. rewrite <- (rep_nth radix n q Hq) at 2.
    apply Forall2_nth_lt; [exact Br | rewrite repeat_length; exact Hq]. }
  assert (Lc : forall q, q < n -> nth q (digits (repeat radix n) c) 0 < radix).
  { intros q Hq. rewrite <- (rep_nth radix n q Hq) at 2.
    apply Forall2_nth_lt; [exact Bc | rewrite repeat_length; exact Hq]. }
  pose proof (Lr a Ha) as Lra. pose proof (Lr b Hb) as Lrb.
  pose proof (Lc a Ha) as Lca. pose proof (Lc b Hb) as Lcb.
  unfold embed_entry. cbv zeta. rewrite repeat_length.
  change (gather [a; b] (repeat radix n)) with [nth a (repeat radix n) 0; nth b (repeat radix n) 0].
  change (gather [a; b] (digits (repeat radix n) r))
    with [nth a (digits (repeat radix n) r) 0; nth b (digits (repeat radix n) r) 0].
  change (gather [a; b] (digits (repeat radix n) c))
    with [nth a (digits (repeat radix n) c) 0; nth b (digits (repeat radix n) c) 0].
  rewrite !undigits2. rewrite (rep_nth radix n b Hb).
  set (dr := digits (repeat radix n) r) in *.
  set (dc := digits (repeat radix n) c) in *.
  rewrite swap_mat_entry by (apply pair_lt; assumption).
  rewrite (pair_div radix (nth a dc 0) (nth b dc 0) Lcb).
  rewrite (pair_mod radix (nth a dc 0) (nth b dc 0) Lcb).
  destruct (Nat.eqb r (tau n radix (swap_list (seq 0 n) a b) c)) eqn:Et.
  - apply Nat.eqb_eq in Et.
    assert (Ed : dr = gather (swap_list (seq 0 n) a b) dc).
    { unfold dr. rewrite Et. unfold dc.
      apply (digits_tau n radix _ c (sw_length n a b) (fun x => sw_range n a b x Ha Hb) Hc). }
    assert (En : forall q, q < n -> nth q dr 0 = nth (tr a b q) dc 0).
    { intros q Hq. rewrite Ed. apply gather_sw_nth; assumption. }
    assert (EF : forallb (fun q => mem q [a; b] || Nat.eqb (nth q dr 0) (nth q dc 0)) (seq 0 n) = true).
    { apply forallb_forall. intros q Hq. apply in_seq in Hq.
      destruct (mem q [a; b]) eqn:Em; simpl; [reflexivity|].
      simpl in Em. apply orb_false_iff in Em. destruct Em as [Em1 Em2].
      apply orb_false_iff in Em2. destruct Em2 as [Em2 _].
      apply Nat.eqb_eq. rewrite En by lia. unfold tr. rewrite Em1, Em2. reflexivity. }
    rewrite EF.
    rewrite (En a Ha), (En b Hb).
    assert (Ta : tr a b a = b) by (unfold tr; rewrite Nat.eqb_refl; reflexivity).
    assert (Tb : tr a b b = a).
    { unfold tr. destruct (Nat.eqb b a) eqn:E1.
      - apply Nat.eqb_eq in E1. congruence.
      - rewrite Nat.eqb_refl. reflexivity. }
    rewrite Ta, Tb. rewrite Nat.eqb_refl. reflexivity.
  - apply Nat.eqb_neq in Et.
    destruct (forallb _ (seq 0 n)) eqn:EF; [|reflexivity].
    destruct (Nat.eqb (nth a dr 0 * radix + nth b dr 0) _) eqn:EE; [|reflexivity].
    exfalso. apply Et.
    apply Nat.eqb_eq in EE.
    apply (pair_split radix _ _ _ _ Lrb Lca) in EE. destruct EE as [E1 E2].
    rewrite forallb_forall in EF.
    assert (Ed : dr = gather (swap_list (seq 0 n) a b) dc).
    { apply (nth_ext _ _ 0 0).
      - unfold dr. rewrite digits_length, repeat_length, map_length, sw_length. reflexivity.
      - intros q Hq. unfold dr in Hq. rewrite digits_length, repeat_length in Hq.
        rewrite gather_sw_nth by assumption. unfold tr.
        destruct (Nat.eqb q a) eqn:Eqa.
        + apply Nat.eqb_eq in Eqa. subst q. exact E1.
        + destruct (Nat.eqb q b) eqn:Eqb.
          * apply Nat.eqb_eq in Eqb. subst q. exact E2.
          * assert (Hin : In q (seq 0 n)) by (apply in_seq; lia).
            specialize (EF q Hin). simpl in EF. rewrite Eqa, Eqb in EF. simpl in EF.
            apply Nat.eqb_eq. exact EF. }
    unfold tau. fold dc. rewrite <- Ed. unfold dr.
    symmetry. apply undigits_digits; assumption.
Qed.

Theorem swap_embed_is_perm_matrix n radix a b :
  0 < radix -> a < n -> b < n -> a <> b ->
  embed (repeat radix n) [a; b] (swap_mat radix)
  = perm_matrix n radix (swap_list (seq 0 n) a b).
Proof.
  intros Hrad Ha Hb Hab.
  apply (zmat_ext (dim (repeat radix n)) (dim (repeat radix n))).
  - apply embed_shape.
  - apply pm_shape.
  - intros r c Hr Hc. rewrite embed_zget by assumption. rewrite pm_entry by assumption.
    apply swap_embed_entry; assumption.
Qed.

(* ---- step 4: the loop invariant ------------------------------------------------------------------ *)

Definition swap_op (n radix : nat) (T : zmat) (s : nat * nat) : zmat :=
  apply_left (repeat radix n) T (swap_mat radix) [fst s; snd s].

Definition MInv (n radix : nat) (c0 : list nat) (st : list nat * list (nat * nat)) : Prop :=
  exists h,
    fold_left (swap_op n radix) (snd st) (ident (dim (repeat radix n))) = perm_matrix n radix h
    /\ length h = n
    /\ (forall x, In x h -> x < n)
    /\ (forall i, i < n -> nth (nth i h 0) (fst st) 0 = nth i c0 0).

Lemma minv_step n radix k c0 st : 0 < radix -> k < n ->
  PInv n k c0 st -> MInv n radix c0 st -> MInv n radix c0 (perm_step st k).
Proof.
  intros Hrad Hk HP HM. destruct st as [cur swaps].
  destruct HP as [Hperm Hfix _ _ _]. simpl in Hperm, Hfix.
  unfold perm_step. destruct (Nat.eqb k (nth k cur 0)) eqn:E.
  - exact HM.
  - apply Nat.eqb_neq in E.
    pose proof (perm_ok_full n cur Hperm k Hk) as Hin.
    destruct (index_of_spec k cur Hin) as [Hpos Hnth].
    set (pos := index_of k cur) in *. clearbody pos.
    destruct Hperm as (Hnd & Hlen & Hbd).
    rewrite Hlen in Hpos.
    assert (Hne : k <> pos) by (intros Heq; subst pos; congruence).
    destruct HM as [h (Hmat & Hlh & Hrh & Hrel)]. simpl in Hmat, Hrel.
    exists (map (fun i => nth i (swap_list (seq 0 n) k pos) 0) h).
    simpl fst. simpl snd. split; [|split; [|split]].
    + rewrite fold_left_app. simpl fold_left. rewrite Hmat.
      unfold swap_op, apply_left. simpl fst. simpl snd.
      rewrite (swap_embed_is_perm_matrix n radix k pos Hrad Hk Hpos Hne).
      apply perm_matrix_mul.
      * exact Hrad.
      * exact Hrh.
      * apply sw_length.
      * intros x Hx. apply (sw_range n k pos x Hk Hpos Hx).
    + rewrite map_length. exact Hlh.
    + intros x Hx. apply in_map_iff in Hx. destruct Hx as [y [Hy Hyin]]. subst x.
      rewrite nth_sw by (try assumption; apply Hrh; exact Hyin).
      apply tr_lt; [exact Hk | exact Hpos | apply Hrh; exact Hyin].
    + intros i Hi.
      assert (Hv : nth i h 0 < n) by (apply Hrh; apply nth_In; rewrite Hlh; exact Hi).
      rewrite (nth_map_d _ h 0 0) by (rewrite Hlh; exact Hi).
      rewrite nth_sw by assumption.
      rewrite nth_swap_list by (rewrite Hlen; assumption).
      rewrite tr_invol. apply Hrel. exact Hi.
Qed.

Lemma minv_loop n radix c0 k : 0 < radix -> k <= n -> perm_ok n c0 ->
  MInv n radix c0 (fold_left perm_step (seq 0 k) (c0, [])).
Proof.
  intros Hrad Hk Hp. induction k as [|k IH].
  - simpl. exists (seq 0 n). simpl. split; [|split; [|split]].
    + apply ident_is_perm_matrix. exact Hrad.
    + apply seq_length.
    + intros x Hx. apply in_seq in Hx. lia.
    + intros i Hi. rewrite seq_nth by exact Hi. reflexivity.
  - rewrite seq_S, fold_left_app. simpl.
    apply (minv_step n radix k c0 _ Hrad); [lia | apply perm_loop_inv; [lia | exact Hp] | apply IH; lia].
Qed.

(* ---- step 5: the theorem -------------------------------------------------------------------------- *)

Theorem from_qudit_location_matrix n radix loc :
  0 < radix -> NoDup loc -> (forall x, In x loc -> x < n) ->
  from_qudit_location n radix loc = perm_matrix n radix (complete_perm n loc).
Proof.
  intros Hrad Hnd Hb.
  destruct (complete_perm_spec n loc Hnd Hb) as [Hp _].
  pose proof (minv_loop n radix (complete_perm n loc) n Hrad (le_n n) Hp) as HM.
  fold (perm_loop n loc) in HM.
  destruct (perm_location n loc Hnd Hb) as [Hcur _].
  destruct HM as [h (Hmat & Hlh & Hrh & Hrel)].
  unfold from_qudit_location. cbv zeta.
  change (fold_left (swap_op n radix) (snd (perm_loop n loc)) (ident (dim (repeat radix n)))
          = perm_matrix n radix (complete_perm n loc)).
  rewrite Hmat. f_equal.
  destruct Hp as (_ & Hlen0 & _).
  apply (nth_ext _ _ 0 0).
  - rewrite Hlh, Hlen0. reflexivity.
  - intros i Hi. rewrite Hlh in Hi.
    rewrite <- (Hrel i Hi). rewrite Hcur.
    rewrite seq_nth by (apply Hrh; apply nth_In; rewrite Hlh; exact Hi). reflexivity.
Qed.

(* the mutant `apply_right` instead of `apply_left` builds the inverse permutation: a
   different matrix as soon as the permutation is not an involution *)
Definition from_qudit_location_right (n radix : nat) (loc : list nat) : zmat :=
  let radixes := repeat radix n in
  fold_left (fun T s => apply_right radixes T (swap_mat radix) [fst s; snd s])
            (snd (perm_loop n loc)) (ident (dim radixes)).
Example apply_right_mutant_differs :
  from_qudit_location_right 3 2 [1; 2; 0] <> perm_matrix 3 2 (complete_perm 3 [1; 2; 0]).
Proof. vm_compute. discriminate. Qed.
