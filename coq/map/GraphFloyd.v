(* Model (no proofs): the weight matrix `_mat` built by CouplingGraph.__init__ from
   edges / remote edges / per-edge overrides, and the textbook (functional, not
   in-place) Floyd-Warshall recurrence used as the reference for `Graph.floyd`. *)
From Coq Require Import List Arith Bool PeanoNat.
Import ListNotations.
From BQ Require Import map.Graph.

(* self._mat[q1][q2] = v ; self._mat[q2][q1] = v *)
Definition mat_set_sym (D : mat) (e : nat * nat) (v : w) : mat :=
  mset (mset D (fst e) (snd e) v) (snd e) (fst e) v.

(* inf everywhere, then default weight on every edge, then the remote weight on
   remote edges, then the overrides in dict order (last assignment wins) *)
Definition mk_mat (n : nat) (es remote : list (nat * nat)) (dw rw : nat)
           (ov : list ((nat * nat) * nat)) : mat :=
  let D0 := repeat (repeat None n) n in
  let D1 := fold_left (fun D e => mat_set_sym D e (Some dw)) es D0 in
  let D2 := fold_left (fun D e => mat_set_sym D e (Some rw)) remote D1 in
  fold_left (fun D p => mat_set_sym D (fst p) (Some (snd p))) ov D2.

(* textbook recurrence: D_{k+1}[i][j] = min(D_k[i][j], D_k[i][k] + D_k[k][j]),
   every entry of D_{k+1} computed from the *old* matrix D_k *)
Definition fw_ref_step (n : nat) (D : mat) (k : nat) : mat :=
  map (fun i => map (fun j => wmin (mget D i j) (wadd (mget D i k) (mget D k j))) (seq 0 n)) (seq 0 n).
Definition floyd_ref (n : nat) (D : mat) : mat := fold_left (fw_ref_step n) (seq 0 n) D.

(* MUTANT MODEL (for the record, never used by a theorem about the code): loop
   order i, j, k - the classic wrong nesting *)
Definition fw_ijk (n : nat) (D : mat) : mat :=
  fold_left (fun D i => fold_left (fun D j => fold_left (fun D k => fw_j k i D j) (seq 0 n) D) (seq 0 n) D) (seq 0 n) D.
