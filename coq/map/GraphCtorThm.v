(* The CouplingGraph constructor and the topology constructors build what the
   textbook says (C20, model part 2: map/GraphExt.v). *)
From Coq Require Import List Arith Bool PeanoNat Lia.
Import ListNotations.
From BQ Require Import map.Graph map.GraphThm map.GraphFloyd map.GraphFloydThm map.GraphExt.

Definition edges_ok (n : nat) (es : list edge) : Prop := forall e, In e es -> fst e < n /\ snd e < n.

(* ---- set_nth / add_edge on neighbour lists --------------------------------------- *)
Lemma nbrs_set_nth_cases i f (g : adj) j :
  nbrs (set_nth i f g) j = f (nbrs g j) \/ nbrs (set_nth i f g) j = nbrs g j.
Proof.
  unfold nbrs. destruct (Nat.eq_dec i j) as [E|E].
  - subst j. destruct (lt_dec i (length g)) as [L|L].
    + left. apply nth_set_nth_same. exact L.
    + right. rewrite !nth_overflow by (rewrite ?set_nth_length; lia). reflexivity.
  - right. apply nth_set_nth_other. exact E.
Qed.

Lemma In_nbrs_add_edge (g : adj) a b x y : a < length g -> b < length g ->
  (In x (nbrs (add_edge g (a, b)) y) <-> In x (nbrs g y) \/ (x = a /\ y = b) \/ (x = b /\ y = a)).
Proof.
  intros Ha Hb. unfold add_edge, nbrs.
  destruct (Nat.eq_dec b y) as [Eb|Eb]; destruct (Nat.eq_dec a y) as [Ea|Ea].
  - subst a. subst b.
    rewrite nth_set_nth_same by (rewrite set_nth_length; lia).
    rewrite In_add. rewrite nth_set_nth_same by lia. rewrite In_add.
    split; [intros [H|[H|H]]; auto | intros [H|[[H _]|[H _]]]; auto].
  - subst b.
    rewrite nth_set_nth_same by (rewrite set_nth_length; lia).
    rewrite In_add. rewrite nth_set_nth_other by exact Ea.
    split; [intros [H|H]; auto | intros [H|[[H _]|[_ H]]]; auto; congruence].
  - subst a.
    rewrite nth_set_nth_other by exact Eb.
    rewrite nth_set_nth_same by lia. rewrite In_add.
    split; [intros [H|H]; auto | intros [H|[[_ H]|[H _]]]; auto; congruence].
  - rewrite nth_set_nth_other by exact Eb.
    rewrite nth_set_nth_other by exact Ea.
    split; [auto | intros [H|[[_ H]|[_ H]]]; auto; congruence].
Qed.

Lemma add_edge_length (g : adj) e : length (add_edge g e) = length g.
Proof. destruct e as [a b]. unfold add_edge. rewrite !set_nth_length. reflexivity. Qed.

Lemma fold_add_edge_length es : forall g : adj, length (fold_left add_edge es g) = length g.
Proof.
  induction es as [|e t IH]; intros g; [reflexivity|].
  change (fold_left add_edge (e :: t) g) with (fold_left add_edge t (add_edge g e)).
  rewrite IH. apply add_edge_length.
Qed.

Lemma fold_add_edge_spec n es : forall g : adj, length g = n -> edges_ok n es ->
  forall x y, In x (nbrs (fold_left add_edge es g) y) <->
              (In x (nbrs g y) \/ In (x, y) es \/ In (y, x) es).
Proof.
  induction es as [|[a b] t IH]; intros g Hg Hok x y.
  - simpl. tauto.
  - assert (Hab : a < n /\ b < n) by (apply (Hok (a, b)); left; reflexivity).
    assert (Hok' : edges_ok n t) by (intros e He; apply Hok; right; exact He).
    change (fold_left add_edge ((a, b) :: t) g) with (fold_left add_edge t (add_edge g (a, b))).
    rewrite (IH (add_edge g (a, b))); [| rewrite add_edge_length; exact Hg | exact Hok'].
    rewrite In_nbrs_add_edge by lia.
    split.
    + intros [[H|[[H1 H2]|[H1 H2]]]|[H|H]].
      * left; exact H.
      * subst. right; left; left; reflexivity.
      * subst. right; right; left; reflexivity.
      * right; left; right; exact H.
      * right; right; right; exact H.
    + intros [H|[[H|H]|[H|H]]].
      * left; left; exact H.
      * inversion H; subst. left; right; left; split; reflexivity.
      * right; left; exact H.
      * inversion H; subst. left; right; right; split; reflexivity.
      * right; right; exact H.
Qed.

Lemma nbrs_repeat_nil n y : nbrs (repeat [] n) y = [].
Proof.
  unfold nbrs. revert y. induction n as [|n IH]; intros [|y]; simpl; auto.
Qed.

Lemma fold_add_edge_nodup es : forall g : adj, nodup_adj g -> nodup_adj (fold_left add_edge es g).
Proof.
  induction es as [|[a b] t IH]; intros g Hg; [exact Hg|].
  change (fold_left add_edge ((a, b) :: t) g) with (fold_left add_edge t (add_edge g (a, b))).
  apply IH. intros q. unfold add_edge.
  assert (H1 : forall q', NoDup (nbrs (set_nth a (add b) g) q')).
  { intros q'. destruct (nbrs_set_nth_cases a (add b) g q') as [E|E]; rewrite E.
    - apply NoDup_add. apply Hg.
    - apply Hg. }
  destruct (nbrs_set_nth_cases b (add a) (set_nth a (add b) g) q) as [E|E]; rewrite E.
  - apply NoDup_add. apply H1.
  - apply H1.
Qed.

(* ---- mk_adj ------------------------------------------------------------------------ *)
Theorem mk_adj_length n es : length (mk_adj n es) = n.
Proof. unfold mk_adj. rewrite fold_add_edge_length. apply repeat_length. Qed.

Theorem mk_adj_spec n es : edges_ok n es ->
  forall x y, In x (nbrs (mk_adj n es) y) <-> (In (x, y) es \/ In (y, x) es).
Proof.
  intros Hok x y. unfold mk_adj.
  rewrite (fold_add_edge_spec n es (repeat [] n) (repeat_length _ _) Hok).
  rewrite nbrs_repeat_nil. simpl. tauto.
Qed.

Theorem mk_adj_props n es : edges_ok n es ->
  wf (mk_adj n es) /\ sym (mk_adj n es) /\ nodup_adj (mk_adj n es) /\
  ((forall e, In e es -> fst e <> snd e) -> loopfree (mk_adj n es)).
Proof.
  intros Hok. split; [|split; [|split]].
  - intros q x Hx. rewrite mk_adj_length. apply (mk_adj_spec n es Hok) in Hx.
    destruct Hx as [Hx|Hx]; apply Hok in Hx; simpl in Hx; lia.
  - intros a b Hab. apply (mk_adj_spec n es Hok) in Hab. apply (mk_adj_spec n es Hok). tauto.
  - unfold mk_adj. apply fold_add_edge_nodup. intros a. rewrite nbrs_repeat_nil. constructor.
  - intros Hnl a Ha. apply (mk_adj_spec n es Hok) in Ha.
    assert (Hin : In (a, a) es) by tauto.
    apply Hnl in Hin. simpl in Hin. congruence.
Qed.

(* ---- infer_n ----------------------------------------------------------------------- *)
Definition fmax (es : list edge) (m0 : nat) : nat :=
  fold_left (fun m (e : edge) => Nat.max m (Nat.max (fst e) (snd e))) es m0.

Lemma infer_n_fmax es : infer_n es = S (fmax es 0).
Proof. reflexivity. Qed.

Lemma fmax_ge es : forall m0, m0 <= fmax es m0 /\
  forall e, In e es -> fst e <= fmax es m0 /\ snd e <= fmax es m0.
Proof.
  induction es as [|e0 t IH]; intros m0.
  - simpl. split; [lia|intros e []].
  - unfold fmax. simpl. fold (fmax t (Nat.max m0 (Nat.max (fst e0) (snd e0)))).
    destruct (IH (Nat.max m0 (Nat.max (fst e0) (snd e0)))) as [H1 H2].
    split; [lia|]. intros e [He|He].
    + subst e. lia.
    + apply H2. exact He.
Qed.

Lemma fmax_le es k : forall m0, m0 <= k ->
  (forall e, In e es -> fst e <= k /\ snd e <= k) -> fmax es m0 <= k.
Proof.
  induction es as [|e0 t IH]; intros m0 Hm H.
  - simpl. exact Hm.
  - unfold fmax. simpl. fold (fmax t (Nat.max m0 (Nat.max (fst e0) (snd e0)))).
    apply IH.
    + assert (H0 : fst e0 <= k /\ snd e0 <= k) by (apply H; left; reflexivity). lia.
    + intros e He. apply H. right. exact He.
Qed.

Theorem infer_n_ok es : edges_ok (infer_n es) es.
Proof.
  intros e He. rewrite infer_n_fmax.
  destruct (fmax_ge es 0) as [_ H]. specialize (H e He). lia.
Qed.

Theorem infer_n_least es n : edges_ok n es -> 1 <= n -> infer_n es <= n.
Proof.
  intros Hok Hn. rewrite infer_n_fmax.
  assert (H : fmax es 0 <= n - 1).
  { apply fmax_le; [lia|]. intros e He. apply Hok in He. lia. }
  lia.
Qed.

Lemma edges_ok_mono n m es : edges_ok n es -> n <= m -> edges_ok m es.
Proof. intros H Hnm e He. apply H in He. lia. Qed.

Lemma infer_n_eq es n : edges_ok n es -> 1 <= n ->
  (exists e, In e es /\ (fst e = n - 1 \/ snd e = n - 1)) -> infer_n es = n.
Proof.
  intros Hok Hn (e & He & Hl).
  assert (H1 : infer_n es <= n) by (apply infer_n_least; assumption).
  assert (H2 : fst e < infer_n es /\ snd e < infer_n es) by (apply infer_n_ok; exact He).
  lia.
Qed.

(* ---- mk_graph ---------------------------------------------------------------------- *)
Ltac disc := let HH := fresh "HH" in intros HH; discriminate HH.

Lemma loops_false (es : list edge) : existsb (fun e : nat * nat => Nat.eqb (fst e) (snd e)) es = false <->
  (forall e, In e es -> fst e <> snd e).
Proof.
  split.
  - intros E e He Heq.
    assert (T : existsb (fun e : nat * nat => Nat.eqb (fst e) (snd e)) es = true).
    { apply existsb_exists. exists e. split; [exact He|apply Nat.eqb_eq; exact Heq]. }
    congruence.
  - intros H. destruct (existsb (fun e : nat * nat => Nat.eqb (fst e) (snd e)) es) eqn:E; [|reflexivity].
    apply existsb_exists in E. destruct E as (e & He & Heq).
    apply Nat.eqb_eq in Heq. exfalso. exact (H e He Heq).
Qed.

Lemma loops_true (es : list edge) : existsb (fun e : nat * nat => Nat.eqb (fst e) (snd e)) es = true <->
  exists a, In (a, a) es.
Proof.
  rewrite existsb_exists. split.
  - intros ([a b] & He & Heq). simpl in Heq. apply Nat.eqb_eq in Heq. subst b. exists a. exact He.
  - intros (a & Ha). exists (a, a). split; [exact Ha|]. simpl. apply Nat.eqb_refl.
Qed.

Theorem mk_graph_ok es on g : mk_graph es on = Ok g ->
  wf g /\ sym g /\ loopfree g /\ nodup_adj g
  /\ length g = (match on with Some n => n | None => infer_n es end)
  /\ forall x y, In x (nbrs g y) <-> (In (x, y) es \/ In (y, x) es).
Proof.
  unfold mk_graph. cbv zeta.
  destruct (existsb (fun e : nat * nat => Nat.eqb (fst e) (snd e)) es) eqn:E; [disc|].
  assert (E1 := proj1 (loops_false es) E).
  assert (G : forall n, edges_ok n es ->
    wf (mk_adj n es) /\ sym (mk_adj n es) /\ loopfree (mk_adj n es) /\ nodup_adj (mk_adj n es)
    /\ length (mk_adj n es) = n
    /\ forall x y, In x (nbrs (mk_adj n es) y) <-> (In (x, y) es \/ In (y, x) es)).
  { intros n Hok. destruct (mk_adj_props n es Hok) as (H1 & H2 & H3 & H4).
    split; [exact H1|]. split; [exact H2|]. split; [exact (H4 E1)|]. split; [exact H3|].
    split; [apply mk_adj_length|]. apply mk_adj_spec. exact Hok. }
  destruct on as [n|].
  - destruct (Nat.ltb n (infer_n es)) eqn:L; [disc|].
    apply Nat.ltb_ge in L. intros H. injection H as <-.
    apply G. apply (edges_ok_mono (infer_n es)); [apply infer_n_ok|exact L].
  - intros H. injection H as <-. apply G. apply infer_n_ok.
Qed.

Theorem mk_graph_type_error es on : mk_graph es on = TypeError <-> exists a, In (a, a) es.
Proof.
  rewrite <- loops_true. unfold mk_graph. cbv zeta.
  destruct (existsb (fun e : nat * nat => Nat.eqb (fst e) (snd e)) es) eqn:E.
  - split; reflexivity.
  - destruct on as [n|]; [destruct (Nat.ltb n (infer_n es)) eqn:L|]; split; disc.
Qed.

Theorem mk_graph_value_error es on : mk_graph es on = ValueError <->
  ((forall a, ~ In (a, a) es) /\ exists n, on = Some n /\ n < infer_n es).
Proof.
  unfold mk_graph. cbv zeta.
  destruct (existsb (fun e : nat * nat => Nat.eqb (fst e) (snd e)) es) eqn:E.
  - split; [disc|]. intros [Hno _]. exfalso.
    apply loops_true in E. destruct E as (a & Ha). exact (Hno a Ha).
  - assert (Hno : forall a, ~ In (a, a) es).
    { intros a Ha. assert (T : exists a, In (a, a) es) by (exists a; exact Ha).
      apply loops_true in T. congruence. }
    destruct on as [n|].
    + destruct (Nat.ltb n (infer_n es)) eqn:L.
      * apply Nat.ltb_lt in L. split; [|reflexivity].
        intros _. split; [exact Hno|]. exists n. split; [reflexivity|exact L].
      * apply Nat.ltb_ge in L. split; [disc|].
        intros [_ (m & Hm & Hlt)]. injection Hm as <-. lia.
    + split; [disc|]. intros [_ (m & Hm & _)]. discriminate.
Qed.

(* ---- the weight matrix has the right shape ----------------------------------------- *)
Lemma shape_mat_set_sym n D e v : shape n D -> shape n (mat_set_sym D e v).
Proof. intros H. unfold mat_set_sym. apply shape_mset. apply shape_mset. exact H. Qed.

Theorem mk_mat_shape n es remote dw rw ov : shape n (mk_mat n es remote dw rw ov).
Proof.
  unfold mk_mat. cbv zeta.
  apply (fold_left_inv (shape n)); [intros; apply shape_mat_set_sym; assumption|].
  apply (fold_left_inv (shape n)); [intros; apply shape_mat_set_sym; assumption|].
  apply (fold_left_inv (shape n)); [intros; apply shape_mat_set_sym; assumption|].
  split; [apply repeat_length|].
  apply Forall_forall. intros r Hr. apply repeat_spec in Hr. subst r. apply repeat_length.
Qed.

(* ---- edge sets of the topology constructors ---------------------------------------- *)
Theorem linear_edges_spec n a b : In (a, b) (linear_edges n) <-> (b = S a /\ S a < n).
Proof.
  unfold linear_edges. rewrite in_map_iff. split.
  - intros (x & Hx & Hin). apply in_seq in Hin. inversion Hx; subst. lia.
  - intros [-> H]. exists a. split; [reflexivity|]. apply in_seq. lia.
Qed.

Theorem ring_edges_spec n a b : In (a, b) (ring_edges n) <-> ((b = S a /\ S a < n) \/ (a = 0 /\ b = n - 1)).
Proof.
  unfold ring_edges. rewrite in_app_iff, linear_edges_spec. simpl. split.
  - intros [H|[H|[]]]; [left; exact H|]. inversion H; subst. right. split; reflexivity.
  - intros [H|[-> ->]]; [left; exact H|]. right. left. reflexivity.
Qed.

Theorem star_edges_spec n a b : In (a, b) (star_edges n) <-> (a = 0 /\ 1 <= b /\ b < n).
Proof.
  unfold star_edges. rewrite in_map_iff. split.
  - intros (x & Hx & Hin). apply in_seq in Hin. inversion Hx; subst. lia.
  - intros (-> & H1 & H2). exists b. split; [reflexivity|]. apply in_seq. lia.
Qed.

Theorem all_to_all_edges_spec n a b : In (a, b) (all_to_all_edges n) <-> (a < b /\ b < n).
Proof.
  unfold all_to_all_edges. rewrite in_flat_map. split.
  - intros (x & Hx & Hin). apply in_seq in Hx. apply in_map_iff in Hin.
    destruct Hin as (z & Hz & Hin). apply in_seq in Hin. inversion Hz; subst. lia.
  - intros [H1 H2]. exists a. split; [apply in_seq; lia|].
    apply in_map_iff. exists b. split; [reflexivity|]. apply in_seq. lia.
Qed.

Theorem grid_edges_spec r c a b : In (a, b) (grid_edges r c) <->
  exists i j, i < r /\ j < c /\ a = i * c + j /\ ((S j < c /\ b = i * c + S j) \/ (S i < r /\ b = S i * c + j)).
Proof.
  unfold grid_edges. rewrite in_flat_map. split.
  - intros (i & Hi & Hin). apply in_seq in Hi.
    assert (Hc : c <> 0).
    { intros ->. rewrite Nat.mul_0_r in Hi. lia. }
    assert (Hdm : i = c * (i / c) + i mod c) by (apply Nat.div_mod; exact Hc).
    assert (Hm : i mod c < c) by (apply Nat.mod_upper_bound; exact Hc).
    assert (Hq : i / c < r).
    { apply Nat.div_lt_upper_bound; [exact Hc|]. rewrite Nat.mul_comm. lia. }
    apply in_app_iff in Hin. destruct Hin as [Hin|Hin].
    + destruct (negb (Nat.eqb (i mod c) (c - 1))) eqn:E; [|destruct Hin].
      destruct Hin as [Hin|[]]. inversion Hin; subst a b.
      apply negb_true_iff in E. apply Nat.eqb_neq in E.
      exists (i / c), (i mod c).
      split; [exact Hq|]. split; [exact Hm|]. split; [lia|]. left. split; lia.
    + destruct (Nat.ltb i ((r - 1) * c)) eqn:E; [|destruct Hin].
      destruct Hin as [Hin|[]]. inversion Hin; subst a b.
      apply Nat.ltb_lt in E.
      assert (Hq' : i / c < r - 1).
      { apply Nat.div_lt_upper_bound; [exact Hc|]. rewrite Nat.mul_comm. exact E. }
      exists (i / c), (i mod c).
      split; [exact Hq|]. split; [exact Hm|]. split; [lia|]. right. split; lia.
  - intros (i & j & Hi & Hj & Ha & Hcase).
    assert (Hc : c <> 0) by lia.
    assert (Hle : S i * c <= r * c) by (apply Nat.mul_le_mono_r; lia).
    assert (Hmod : j = a mod c).
    { apply (Nat.mod_unique a c i j); [exact Hj|]. rewrite Nat.mul_comm. exact Ha. }
    exists a. split; [apply in_seq; simpl in Hle; lia|].
    apply in_app_iff. destruct Hcase as [[Hj' Hb]|[Hi' Hb]].
    + left. rewrite <- Hmod.
      assert (E : Nat.eqb j (c - 1) = false) by (apply Nat.eqb_neq; lia).
      rewrite E. simpl. left. f_equal. lia.
    + right.
      assert (Hle' : S i * c <= (r - 1) * c) by (apply Nat.mul_le_mono_r; lia).
      assert (E : Nat.ltb a ((r - 1) * c) = true) by (apply Nat.ltb_lt; simpl in Hle'; lia).
      rewrite E. left. f_equal. simpl in Hb. lia.
Qed.

(* ---- the graphs themselves --------------------------------------------------------- *)
Lemma topo_graph es n :
  (forall a b, In (a, b) es -> a <> b /\ a < n /\ b < n) -> 1 <= n ->
  (exists a b, In (a, b) es /\ (a = n - 1 \/ b = n - 1)) ->
  exists g, mk_graph es None = Ok g /\ length g = n /\
    forall x y, In x (nbrs g y) <-> (In (x, y) es \/ In (y, x) es).
Proof.
  intros H Hn (a & b & Hab & Hl).
  assert (Hok : edges_ok n es).
  { intros [p q] He. apply H in He. simpl. lia. }
  assert (Hnl : forall e, In e es -> fst e <> snd e).
  { intros [p q] He. apply H in He. simpl. lia. }
  assert (Hinf : infer_n es = n).
  { apply infer_n_eq; [exact Hok|exact Hn|]. exists (a, b). split; [exact Hab|exact Hl]. }
  exists (mk_adj n es). split; [|split].
  - unfold mk_graph. cbv zeta. rewrite (proj2 (loops_false es) Hnl). rewrite Hinf. reflexivity.
  - apply mk_adj_length.
  - apply mk_adj_spec. exact Hok.
Qed.

Theorem linear_graph n : 2 <= n -> exists g, linear n = Ok g /\ length g = n /\
  forall x y, In x (nbrs g y) <-> ((x = S y \/ y = S x) /\ x < n /\ y < n).
Proof.
  intros Hn. unfold linear.
  destruct (topo_graph (linear_edges n) n) as (g & Hg & Hlen & Hs).
  - intros a b Hab. apply linear_edges_spec in Hab. lia.
  - lia.
  - exists (n - 2), (n - 1). split; [apply linear_edges_spec; lia|right; reflexivity].
  - exists g. split; [exact Hg|]. split; [exact Hlen|].
    intros x y. rewrite Hs, !linear_edges_spec. lia.
Qed.

Theorem ring_graph n : 2 <= n -> exists g, ring n = Ok g /\ length g = n /\
  forall x y, In x (nbrs g y) <-> (((x = S y \/ y = S x) /\ x < n /\ y < n) \/ (x = 0 /\ y = n - 1) \/ (y = 0 /\ x = n - 1)).
Proof.
  intros Hn. unfold ring.
  destruct (topo_graph (ring_edges n) n) as (g & Hg & Hlen & Hs).
  - intros a b Hab. apply ring_edges_spec in Hab. lia.
  - lia.
  - exists 0, (n - 1). split; [apply ring_edges_spec; lia|right; reflexivity].
  - exists g. split; [exact Hg|]. split; [exact Hlen|].
    intros x y. rewrite Hs, !ring_edges_spec. lia.
Qed.

Theorem star_graph n : 2 <= n -> exists g, star n = Ok g /\ length g = n /\
  forall x y, In x (nbrs g y) <-> ((x = 0 /\ 1 <= y /\ y < n) \/ (y = 0 /\ 1 <= x /\ x < n)).
Proof.
  intros Hn. unfold star.
  destruct (topo_graph (star_edges n) n) as (g & Hg & Hlen & Hs).
  - intros a b Hab. apply star_edges_spec in Hab. lia.
  - lia.
  - exists 0, (n - 1). split; [apply star_edges_spec; lia|right; reflexivity].
  - exists g. split; [exact Hg|]. split; [exact Hlen|].
    intros x y. rewrite Hs, !star_edges_spec. lia.
Qed.

Theorem all_to_all_graph n : 2 <= n -> exists g, all_to_all n = Ok g /\ length g = n /\
  forall x y, In x (nbrs g y) <-> (x <> y /\ x < n /\ y < n).
Proof.
  intros Hn. unfold all_to_all.
  destruct (topo_graph (all_to_all_edges n) n) as (g & Hg & Hlen & Hs).
  - intros a b Hab. apply all_to_all_edges_spec in Hab. lia.
  - lia.
  - exists 0, (n - 1). split; [apply all_to_all_edges_spec; lia|right; reflexivity].
  - exists g. split; [exact Hg|]. split; [exact Hlen|].
    intros x y. rewrite Hs, !all_to_all_edges_spec. lia.
Qed.

Theorem grid_graph r c : 2 <= r * c -> exists g, grid r c = Ok g /\ length g = r * c /\
  forall x y, In x (nbrs g y) <-> (In (x, y) (grid_edges r c) \/ In (y, x) (grid_edges r c)).
Proof.
  intros Hn. unfold grid.
  apply topo_graph.
  - intros a b Hab. apply grid_edges_spec in Hab.
    destruct Hab as (i & j & Hi & Hj & Ha & Hcase).
    assert (Hle : S i * c <= r * c) by (apply Nat.mul_le_mono_r; lia).
    simpl in Hle.
    destruct Hcase as [[Hj' Hb]|[Hi' Hb]].
    + lia.
    + assert (Hle' : S (S i) * c <= r * c) by (apply Nat.mul_le_mono_r; lia).
      simpl in Hle', Hb. lia.
  - lia.
  - destruct r as [|r']; [simpl in Hn; lia|].
    destruct c as [|[|c']].
    + rewrite Nat.mul_0_r in Hn. lia.
    + (* one column: the last vertex has an upper neighbour *)
      destruct r' as [|r'']; [simpl in Hn; lia|].
      exists (r'' * 1 + 0), (S r'' * 1 + 0). split.
      * apply grid_edges_spec. exists r'', 0.
        split; [lia|]. split; [lia|]. split; [reflexivity|]. right. split; [lia|reflexivity].
      * right. lia.
    + (* at least two columns: the last vertex has a left neighbour *)
      exists (r' * S (S c') + c'), (r' * S (S c') + S c'). split.
      * apply grid_edges_spec. exists r', c'.
        split; [lia|]. split; [lia|]. split; [reflexivity|]. left. split; [lia|reflexivity].
      * right. lia.
Qed.

(* corner cases as the code has them *)
Example small_topologies :
  linear 0 = Ok [[]] /\ linear 1 = Ok [[]] /\ star 0 = Ok [[]] /\ star 1 = Ok [[]] /\
  all_to_all 0 = Ok [[]] /\ all_to_all 1 = Ok [[]] /\ ring 1 = TypeError /\ grid 1 1 = Ok [[]] /\
  ring 2 = Ok [[1]; [0]] /\ linear 2 = Ok [[1]; [0]].
Proof. repeat split; vm_compute; reflexivity. Qed.
