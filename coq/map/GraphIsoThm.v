(* get_subgraph returns the induced sub-graph transported along the renumbering;
   get_induced_subgraph returns the induced edge set (C20). *)
From Coq Require Import List Arith Bool PeanoNat Lia.
Import ListNotations.
From Coq Require Import Sorted.
From BQ Require Import map.Graph map.GraphThm map.GraphExt map.GraphSubThm.

Definition ren_of (loc : list nat) (ren : option (list (nat * nat))) : list (nat * nat) :=
  match ren with Some r => r | None => combine loc (seq 0 (length loc)) end.

(* r is a bijection from the vertex set loc onto [0, length loc) *)
Definition bij_ren (loc : list nat) (r : list (nat * nat)) : Prop :=
  length r = length loc /\ NoDup (map fst r) /\ (forall k, In k (map fst r) -> In k loc) /\
  NoDup (map snd r) /\ (forall v, In v (map snd r) -> v < length loc).

(* ---- generic helpers --------------------------------------------------------------- *)
Lemma nodupb_NoDup l : nodupb l = true <-> NoDup l.
Proof. induction l as [|x t IH]; simpl.
  - split; [constructor|reflexivity].
  - rewrite andb_true_iff, negb_true_iff, mem_false, IH. split.
    + intros [H1 H2]. constructor; auto.
    + intros H. inversion H; subst; auto. Qed.

Lemma map_fst_combine (A B : Type) (l : list A) : forall (l' : list B),
  length l = length l' -> map fst (combine l l') = l.
Proof. induction l as [|x t IH]; intros [|y t'] H; simpl in *; try discriminate; auto.
  f_equal. apply IH. lia. Qed.

Lemma map_snd_combine (A B : Type) (l : list A) : forall (l' : list B),
  length l = length l' -> map snd (combine l l') = l'.
Proof. induction l as [|x t IH]; intros [|y t'] H; simpl in *; try discriminate; auto.
  f_equal. apply IH. lia. Qed.

Lemma assoc_In k m v : assoc k m = Some v -> In (k, v) m.
Proof. induction m as [|[a b] t IH]; simpl; [discriminate|]. destruct (Nat.eqb k a) eqn:E.
  - apply Nat.eqb_eq in E. intros H. injection H as <-. subst. auto.
  - auto. Qed.

Lemma In_assoc k m v : NoDup (map fst m) -> In (k, v) m -> assoc k m = Some v.
Proof. induction m as [|[a b] t IH]; simpl; [tauto|]. intros Hnd [H|H].
  - injection H as -> ->. rewrite Nat.eqb_refl. auto.
  - inversion Hnd as [|? ? Hn Hnd']; subst. destruct (Nat.eqb k a) eqn:E.
    + apply Nat.eqb_eq in E. subst. exfalso. apply Hn. apply in_map_iff. exists (a, v). auto.
    + auto. Qed.

Lemma assoc_key k m : In k (map fst m) -> exists v, assoc k m = Some v.
Proof. induction m as [|[a b] t IH]; simpl; [tauto|]. intros H. destruct (Nat.eqb k a) eqn:E.
  - exists b; auto.
  - apply Nat.eqb_neq in E. destruct H as [H|H]; [congruence|auto]. Qed.

Lemma assoc_val k m v : assoc k m = Some v -> In v (map snd m).
Proof. intros H. apply assoc_In in H. apply in_map_iff. exists (k, v). auto. Qed.

Lemma snd_inj (r : list (nat * nat)) u v a :
  NoDup (map snd r) -> In (u, a) r -> In (v, a) r -> u = v.
Proof. induction r as [|[x y] t IH]; simpl; [tauto|]. intros Hnd H1 H2.
  inversion Hnd as [|? ? Hn Hnd']; subst.
  destruct H1 as [H1|H1]; destruct H2 as [H2|H2].
  - congruence.
  - injection H1 as -> ->. exfalso. apply Hn. apply in_map_iff. exists (v, a); auto.
  - injection H2 as -> ->. exfalso. apply Hn. apply in_map_iff. exists (u, a); auto.
  - auto. Qed.

Lemma fold_min_le d l x : In x l -> fold_right Nat.min d l <= x.
Proof. induction l as [|y t IH]; simpl; [tauto|]. intros [->|H].
  - apply Nat.le_min_l.
  - etransitivity; [apply Nat.le_min_r|auto]. Qed.

Lemma fold_max_ub l m : (forall x, In x l -> x <= m) -> fold_right Nat.max 0 l <= m.
Proof. induction l as [|y t IH]; simpl; intros H; [lia|].
  apply Nat.max_lub; [apply H; auto|apply IH; intros x Hx; apply H; auto]. Qed.

Lemma fold_max_ge l x : In x l -> x <= fold_right Nat.max 0 l.
Proof. induction l as [|y t IH]; simpl; [tauto|]. intros [->|H].
  - apply Nat.le_max_l.
  - etransitivity; [apply IH; auto|apply Nat.le_max_r]. Qed.

Lemma norm_edge_cases a b :
  (a <= b /\ norm_edge (a, b) = (a, b)) \/ (b < a /\ norm_edge (a, b) = (b, a)).
Proof. unfold norm_edge. destruct (Nat.leb a b) eqn:E;
  [apply Nat.leb_le in E|apply Nat.leb_gt in E]; auto. Qed.

Lemma norm_edge_eq a b a' b' : norm_edge (a, b) = norm_edge (a', b') ->
  (a = a' /\ b = b') \/ (a = b' /\ b = a').
Proof. destruct (norm_edge_cases a b) as [[H1 ->]|[H1 ->]];
  destruct (norm_edge_cases a' b') as [[H2 ->]|[H2 ->]]; intros H; injection H as <- <-; auto. Qed.

Lemma match_nonempty (A B : Type) (l : list A) (x y : B) :
  l <> [] -> match l with [] => x | _ :: _ => y end = y.
Proof. destruct l; [congruence|auto]. Qed.

(* ---- the default renumbering ------------------------------------------------------- *)
Theorem default_ren_bij loc : NoDup loc -> bij_ren loc (ren_of loc None).
Proof. intros Hnd. unfold bij_ren, ren_of.
  assert (Hl : length loc = length (seq 0 (length loc))) by (rewrite seq_length; auto).
  rewrite combine_length, map_fst_combine, map_snd_combine by exact Hl.
  rewrite seq_length. repeat split; auto.
  - apply Nat.min_id.
  - apply seq_NoDup.
  - intros v Hv. apply in_seq in Hv. lia. Qed.

Lemma default_assoc_gen loc : forall s i, NoDup loc -> i < length loc ->
  assoc (nth i loc 0) (combine loc (seq s (length loc))) = Some (s + i).
Proof. induction loc as [|x t IH]; intros s i Hnd Hi; simpl in *; [lia|].
  inversion Hnd as [|? ? Hn Hnd']; subst. destruct i as [|i].
  - rewrite Nat.eqb_refl. f_equal. lia.
  - destruct (Nat.eqb (nth i t 0) x) eqn:E.
    + apply Nat.eqb_eq in E. exfalso. apply Hn. rewrite <- E. apply nth_In. lia.
    + rewrite IH by (auto; lia). f_equal. lia. Qed.

Theorem default_ren_assoc loc i : NoDup loc -> i < length loc ->
  assoc (nth i loc 0) (ren_of loc None) = Some i.
Proof. intros Hnd Hi. unfold ren_of. rewrite default_assoc_gen; auto. Qed.

(* ---- bijective renumberings ---------------------------------------------------------- *)
Lemma bij_ren_keys loc r : NoDup loc -> bij_ren loc r -> forall u, In u loc -> In u (map fst r).
Proof. intros Hnd (Hlen & Hndk & Hkin & _ & _).
  assert (H : incl loc (map fst r)).
  { apply NoDup_length_incl; auto. rewrite map_length. lia. }
  exact H. Qed.

Theorem bij_ren_total loc r : NoDup loc -> bij_ren loc r ->
  forall u, In u loc -> exists a, assoc u r = Some a /\ a < length loc.
Proof. intros Hnd Hb u Hu. pose proof (bij_ren_keys loc r Hnd Hb u Hu) as Hk.
  destruct (assoc_key u r Hk) as (a & Ha). exists a. split; auto.
  destruct Hb as (_ & _ & _ & _ & Hv). apply Hv. eapply assoc_val; eauto. Qed.

Theorem bij_ren_inj loc r : bij_ren loc r ->
  forall u v a, assoc u r = Some a -> assoc v r = Some a -> u = v.
Proof. intros (_ & _ & _ & Hndv & _) u v a Hu Hv.
  eapply snd_inj; eauto using assoc_In. Qed.

(* ---- get_subgraph ------------------------------------------------------------------- *)
Lemma seq_sorted_lt a n : StronglySorted lt (seq a n).
Proof. revert a. induction n as [|n IH]; intros a; simpl; constructor; auto.
  apply Forall_forall. intros x Hx. apply in_seq in Hx. lia. Qed.

(* sort vals = [0; ...; k-1]  <->  vals is a duplicate-free list of k numbers below k *)
Lemma sort_is_range vals k : sort vals = seq 0 k ->
  length vals = k /\ NoDup vals /\ forall v, In v vals -> v < k.
Proof. intros H. split; [|split].
  - rewrite <- (length_sort vals), H, seq_length. reflexivity.
  - apply (NoDup_incl_NoDup (l := sort vals)).
    + rewrite H. apply seq_NoDup.
    + rewrite length_sort. auto.
    + intros x Hx. apply (proj1 (In_sort x vals)) in Hx. exact Hx.
  - intros v Hv. apply (proj2 (In_sort v vals)) in Hv. rewrite H in Hv. apply in_seq in Hv. lia. Qed.

Definition gs_edges (g : adj) (loc : list nat) (R : list (nat * nat)) : list (nat * nat) :=
  flat_map (fun qi => flat_map (fun nb =>
    match assoc qi R, assoc nb R with
    | Some a, Some b => [norm_edge (a, b)]
    | _, _ => []
    end) (filter (fun x => mem x loc) (nbrs g qi))) loc.

Lemma get_subgraph_eq g loc ren : get_subgraph g loc ren =
  if negb (nodupb loc && forallb (fun q => Nat.ltb q (length g)) loc) then None else
  if negb (Nat.eqb (length (ren_of loc ren)) (length loc)) then None else
  if negb (nodupb (map fst (ren_of loc ren)) && forallb (fun k => mem k loc) (map fst (ren_of loc ren))) then None else
  match loc with
  | [] => None
  | _ :: _ =>
    if negb (list_eqb (sort (map snd (ren_of loc ren))) (seq 0 (length loc))) then None else
    if forallb (fun e => Nat.ltb (snd e) (length loc) && negb (Nat.eqb (fst e) (snd e)))
         (gs_edges g loc (ren_of loc ren))
    then Some (gs_edges g loc (ren_of loc ren)) else None
  end.
Proof. reflexivity. Qed.

Lemma In_gs_edges g loc R e : In e (gs_edges g loc R) <->
  exists u v a b, In u loc /\ In v loc /\ In v (nbrs g u) /\
    assoc u R = Some a /\ assoc v R = Some b /\ e = norm_edge (a, b).
Proof. unfold gs_edges. rewrite in_flat_map. split.
  - intros (u & Hu & H). apply in_flat_map in H as (v & Hv & H).
    apply filter_In in Hv as [Hv1 Hv2]. apply mem_In in Hv2.
    destruct (assoc u R) as [a|] eqn:Ea; [destruct (assoc v R) as [b|] eqn:Eb|]; simpl in H; try tauto.
    destruct H as [H|[]]. exists u, v, a, b. auto 10.
  - intros (u & v & a & b & Hu & Hv & Hadj & Ea & Eb & ->). exists u. split; auto.
    apply in_flat_map. exists v. split.
    + apply filter_In. split; auto. apply mem_In; auto.
    + rewrite Ea, Eb. left; auto. Qed.

(* the main theorem: r is an isomorphism from the sub-graph of g induced by loc onto
   the returned graph on length loc vertices *)
Theorem get_subgraph_iso g loc ren :
  wf g -> sym g -> loopfree g -> NoDup loc -> loc <> [] -> (forall q, In q loc -> q < length g) ->
  bij_ren loc (ren_of loc ren) ->
  exists es, get_subgraph g loc ren = Some es /\
    (forall u v a b, In u loc -> In v loc ->
       assoc u (ren_of loc ren) = Some a -> assoc v (ren_of loc ren) = Some b ->
       (In v (nbrs g u) <-> In (norm_edge (a, b)) es)) /\
    (forall e, In e es -> fst e < snd e /\ snd e < length loc /\
       exists u v, In u loc /\ In v loc /\ In v (nbrs g u) /\
                   assoc u (ren_of loc ren) = Some (fst e) /\ assoc v (ren_of loc ren) = Some (snd e)).
Proof. intros Hwf Hsym Hlf Hnd Hne Hrange Hbij.
  pose proof (bij_ren_inj _ _ Hbij) as Hinj.
  destruct Hbij as (Hlen & Hndk & Hkin & Hndv & Hvlt).
  assert (Hk : 1 <= length loc) by (destruct loc; [congruence|simpl; lia]).
  (* third conjunct first: it also discharges the constructor's test *)
  assert (H3 : forall e, In e (gs_edges g loc (ren_of loc ren)) ->
     fst e < snd e /\ snd e < length loc /\
       exists u v, In u loc /\ In v loc /\ In v (nbrs g u) /\
                   assoc u (ren_of loc ren) = Some (fst e) /\ assoc v (ren_of loc ren) = Some (snd e)).
  { intros e He. apply In_gs_edges in He as (u & v & a & b & Hu & Hv & Hadj & Ea & Eb & ->).
    assert (Hab : a <> b).
    { intros F. subst b. assert (u = v) by (eapply Hinj; eauto). subst v. exact (Hlf u Hadj). }
    assert (Ha : a < length loc) by (apply Hvlt; eapply assoc_val; eauto).
    assert (Hb : b < length loc) by (apply Hvlt; eapply assoc_val; eauto).
    destruct (norm_edge_cases a b) as [[Hc ->]|[Hc ->]]; simpl.
    - split; [lia|]. split; [lia|]. exists u, v. auto 10.
    - split; [lia|]. split; [lia|]. exists v, u. repeat split; auto. }
  exists (gs_edges g loc (ren_of loc ren)). split.
  - rewrite get_subgraph_eq.
    assert (T1 : nodupb loc && forallb (fun q => Nat.ltb q (length g)) loc = true).
    { apply andb_true_iff. split; [apply nodupb_NoDup; auto|].
      apply forallb_forall. intros q Hq. apply Nat.ltb_lt. auto. }
    rewrite T1. cbn [negb].
    assert (T2 : Nat.eqb (length (ren_of loc ren)) (length loc) = true) by (apply Nat.eqb_eq; auto).
    rewrite T2. cbn [negb].
    assert (T3 : nodupb (map fst (ren_of loc ren)) &&
                 forallb (fun k => mem k loc) (map fst (ren_of loc ren)) = true).
    { apply andb_true_iff. split; [apply nodupb_NoDup; auto|].
      apply forallb_forall. intros q Hq. apply mem_In. auto. }
    rewrite T3. cbn [negb].
    rewrite match_nonempty by exact Hne.
    assert (Hincl : incl (seq 0 (length loc)) (map snd (ren_of loc ren))).
    { apply NoDup_length_incl; auto.
      - rewrite seq_length, map_length. lia.
      - intros x Hx. apply in_seq. specialize (Hvlt x Hx). lia. }
    assert (T4 : list_eqb (sort (map snd (ren_of loc ren))) (seq 0 (length loc)) = true).
    { apply list_eqb_eq. apply sorted_lt_unique.
      - apply sort_lt; auto.
      - apply seq_sorted_lt.
      - intros x. rewrite In_sort. split.
        + intros Hx. apply in_seq. specialize (Hvlt x Hx). lia.
        + intros Hx. apply Hincl; auto. }
    rewrite T4. cbn [negb].
    assert (T5 : forallb (fun e => Nat.ltb (snd e) (length loc) && negb (Nat.eqb (fst e) (snd e)))
         (gs_edges g loc (ren_of loc ren)) = true).
    { apply forallb_forall. intros e He. destruct (H3 e He) as (Hlt & Hsnd & _).
      apply andb_true_iff. split; [apply Nat.ltb_lt; auto|].
      apply negb_true_iff. apply Nat.eqb_neq. lia. }
    rewrite T5. reflexivity.
  - split; [|exact H3].
    intros u v a b Hu Hv Ea Eb. split.
    + intros Hadj. apply In_gs_edges. exists u, v, a, b. auto 10.
    + intros He. apply In_gs_edges in He as (u' & v' & a' & b' & Hu' & Hv' & Hadj & Ea' & Eb' & He).
      apply norm_edge_eq in He as [[-> ->]|[-> ->]].
      * assert (u = u') by (eapply Hinj; eauto). assert (v = v') by (eapply Hinj; eauto).
        subst. auto.
      * assert (u = v') by (eapply Hinj; eauto). assert (v = u') by (eapply Hinj; eauto).
        subst. apply Hsym. auto. Qed.

(* every input the code rejects is rejected by the model *)
Theorem get_subgraph_rejects g loc ren :
  (~ NoDup loc \/ (exists q, In q loc /\ length g <= q) \/ loc = [] \/
   length (ren_of loc ren) <> length loc \/ ~ NoDup (map fst (ren_of loc ren)) \/
   (exists k, In k (map fst (ren_of loc ren)) /\ ~ In k loc)) ->
  get_subgraph g loc ren = None.
Proof. intros H. rewrite get_subgraph_eq.
  destruct (nodupb loc && forallb (fun q => Nat.ltb q (length g)) loc) eqn:E1; cbn [negb]; [|reflexivity].
  apply andb_true_iff in E1 as [E1a E1b]. apply nodupb_NoDup in E1a.
  destruct (Nat.eqb (length (ren_of loc ren)) (length loc)) eqn:E2; cbn [negb]; [|reflexivity].
  apply Nat.eqb_eq in E2.
  destruct (nodupb (map fst (ren_of loc ren)) && forallb (fun k => mem k loc) (map fst (ren_of loc ren))) eqn:E3;
    cbn [negb]; [|reflexivity].
  apply andb_true_iff in E3 as [E3a E3b]. apply nodupb_NoDup in E3a.
  destruct H as [H|[(q & Hq & Hq')|[H|[H|[H|(k & Hk & Hk')]]]]].
  - contradiction.
  - exfalso. rewrite forallb_forall in E1b. specialize (E1b q Hq). apply Nat.ltb_lt in E1b. lia.
  - subst loc. reflexivity.
  - contradiction.
  - contradiction.
  - exfalso. rewrite forallb_forall in E3b. specialize (E3b k Hk). apply mem_In in E3b. contradiction. Qed.

(* the renumbering values must be EXACTLY a permutation of [0, len(location)): a repeated
   value or a value out of range is rejected (ValueError), whatever the rest looks like *)
Theorem get_subgraph_rejects_non_permutation g loc ren :
  (~ NoDup (map snd (ren_of loc ren)) \/ (exists v, In v (map snd (ren_of loc ren)) /\ length loc <= v)) ->
  get_subgraph g loc ren = None.
Proof. intros H. rewrite get_subgraph_eq.
  destruct (nodupb loc && forallb (fun q => Nat.ltb q (length g)) loc); cbn [negb]; [|reflexivity].
  destruct (Nat.eqb (length (ren_of loc ren)) (length loc)); cbn [negb]; [|reflexivity].
  destruct (nodupb (map fst (ren_of loc ren)) && forallb (fun k => mem k loc) (map fst (ren_of loc ren)));
    cbn [negb]; [|reflexivity].
  destruct loc as [|q0 loc']; [reflexivity|].
  destruct (list_eqb (sort (map snd (ren_of (q0 :: loc') ren))) (seq 0 (length (q0 :: loc')))) eqn:E;
    cbn [negb]; [|reflexivity].
  exfalso. apply list_eqb_eq in E. apply sort_is_range in E as (_ & Hnd & Hlt).
  destruct H as [H|(v & Hv & Hv')]; [contradiction|]. specialize (Hlt v Hv). lia. Qed.

(* success characterises the renumbering completely: it is a bijection onto [0, len) *)
Theorem get_subgraph_Some_bij g loc ren es : get_subgraph g loc ren = Some es ->
  NoDup loc /\ loc <> [] /\ (forall q, In q loc -> q < length g) /\ bij_ren loc (ren_of loc ren).
Proof. intros H.
  assert (Hne : loc <> []).
  { intros ->. rewrite get_subgraph_eq in H. simpl in H.
    destruct (Nat.eqb (length (ren_of [] ren)) 0); simpl in H; [|discriminate].
    destruct (nodupb (map fst (ren_of [] ren)) && forallb (fun _ : nat => false) (map fst (ren_of [] ren)));
      simpl in H; discriminate. }
  rewrite get_subgraph_eq in H.
  destruct (nodupb loc && forallb (fun q => Nat.ltb q (length g)) loc) eqn:E1; cbn [negb] in H; [|discriminate].
  apply andb_true_iff in E1 as [E1a E1b]. apply nodupb_NoDup in E1a.
  destruct (Nat.eqb (length (ren_of loc ren)) (length loc)) eqn:E2; cbn [negb] in H; [|discriminate].
  apply Nat.eqb_eq in E2.
  destruct (nodupb (map fst (ren_of loc ren)) && forallb (fun k => mem k loc) (map fst (ren_of loc ren))) eqn:E3;
    cbn [negb] in H; [|discriminate].
  apply andb_true_iff in E3 as [E3a E3b]. apply nodupb_NoDup in E3a.
  rewrite match_nonempty in H by exact Hne.
  destruct (list_eqb (sort (map snd (ren_of loc ren))) (seq 0 (length loc))) eqn:E4; cbn [negb] in H; [|discriminate].
  apply list_eqb_eq in E4. apply sort_is_range in E4 as (_ & Hnd & Hlt).
  split; auto. split; auto. split.
  - intros q Hq. rewrite forallb_forall in E1b. apply Nat.ltb_lt. auto.
  - unfold bij_ren. repeat split; auto.
    intros k Hk. rewrite forallb_forall in E3b. apply mem_In. auto. Qed.

(* ---- get_induced_subgraph ----------------------------------------------------------- *)
Lemma In_pairs_of l a b : In (a, b) (pairs_of l) -> In a l /\ In b l.
Proof. induction l as [|x t IH]; simpl; [tauto|]. intros H. apply in_app_or in H as [H|H].
  - apply in_map_iff in H as (y & Hy & Hin). injection Hy as -> ->. auto.
  - destruct (IH H); auto. Qed.

Lemma pairs_of_neq l a b : In (a, b) (pairs_of l) -> NoDup l -> a <> b.
Proof. induction l as [|x t IH]; simpl; [tauto|]. intros H Hnd.
  inversion Hnd as [|? ? Hn Hnd']; subst. apply in_app_or in H as [H|H].
  - apply in_map_iff in H as (y & Hy & Hin). injection Hy as -> ->. intros F. subst. contradiction.
  - auto. Qed.

Lemma pairs_of_complete l a b : In a l -> In b l -> a <> b ->
  In (a, b) (pairs_of l) \/ In (b, a) (pairs_of l).
Proof. induction l as [|x t IH]; simpl; [tauto|]. intros Ha Hb Hab.
  destruct Ha as [Ha|Ha]; destruct Hb as [Hb|Hb].
  - congruence.
  - subst x. left. apply in_or_app. left. apply in_map. auto.
  - subst x. right. apply in_or_app. left. apply in_map. auto.
  - destruct (IH Ha Hb Hab) as [H|H]; [left|right]; apply in_or_app; right; auto. Qed.

Theorem induced_subgraph_spec g loc es : sym g -> induced_subgraph g loc = Ok es ->
  NoDup loc /\ 2 <= length loc /\
  forall a b, In (a, b) es <-> (a < b /\ In a loc /\ In b loc /\ In b (nbrs g a)).
Proof. intros Hsym. unfold induced_subgraph.
  destruct (nodupb loc) eqn:E1; cbn [negb]; [|discriminate].
  destruct (Nat.ltb (length loc) 2) eqn:E2; [discriminate|].
  intros H. injection H as <-. apply nodupb_NoDup in E1. apply Nat.ltb_ge in E2.
  split; auto. split; auto. intros a b. rewrite in_map_iff. split.
  - intros ([x y] & Hn & Hf). apply filter_In in Hf as [Hp Hadj]. simpl in Hadj.
    pose proof (In_pairs_of _ _ _ Hp) as [Hx Hy].
    pose proof (pairs_of_neq _ _ _ Hp E1) as Hxy.
    assert (Hboth : In y (nbrs g x) /\ In x (nbrs g y)).
    { apply orb_true_iff in Hadj as [Hadj|Hadj]; apply mem_In in Hadj; split; auto. }
    destruct Hboth as [Hyx Hxy'].
    destruct (norm_edge_cases x y) as [[Hc Hne]|[Hc Hne]]; rewrite Hne in Hn;
      injection Hn as <- <-; repeat split; auto; lia.
  - intros (Hab & Ha & Hb & Hadj).
    destruct (pairs_of_complete loc a b Ha Hb) as [Hp|Hp]; [lia| |].
    + exists (a, b). split.
      * destruct (norm_edge_cases a b) as [[Hc Hne]|[Hc Hne]]; [auto|lia].
      * apply filter_In. split; auto. simpl. apply orb_true_iff. left. apply mem_In. auto.
    + exists (b, a). split.
      * destruct (norm_edge_cases b a) as [[Hc Hne]|[Hc Hne]]; [lia|auto].
      * apply filter_In. split; auto. simpl. apply orb_true_iff. right. apply mem_In. auto. Qed.

Theorem induced_subgraph_errors g loc :
  (~ NoDup loc \/ length loc < 2) <-> induced_subgraph g loc = ValueError.
Proof. unfold induced_subgraph. split.
  - intros [H|H].
    + destruct (nodupb loc) eqn:E; cbn [negb]; auto. apply nodupb_NoDup in E. contradiction.
    + destruct (nodupb loc) eqn:E; cbn [negb]; auto. apply Nat.ltb_lt in H. rewrite H. auto.
  - destruct (nodupb loc) eqn:E1; cbn [negb].
    + destruct (Nat.ltb (length loc) 2) eqn:E2; [|discriminate].
      intros _. right. apply Nat.ltb_lt. auto.
    + intros _. left. intros Hn. apply nodupb_NoDup in Hn. congruence. Qed.
