(* Executable model, part 3 (no proofs): MachineModel on an edge list
   (compiler/machine.py __init__ / get_locations) and the QPU maps of CouplingGraph
   (get_qpu_to_qudit_map, get_qudit_to_qpu_map, get_qpu_connectivity).
   Python sets are duplicate-free lists; the harness compares every QPU as a sorted list
   (frontier.pop() takes an arbitrary element), the order of the QPUs is the code's. *)
From Coq Require Import List Arith Bool PeanoNat.
Import ListNotations.
From BQ Require Import map.Graph map.GraphExt.

(* ---- MachineModel(num_qudits, edge list) ------------------------------------------------
   num_qudits <= 0 -> ValueError; is_valid_coupling_graph(cg, num_qudits) is False (a label
   >= num_qudits or a pair (a, a)) -> TypeError; then CouplingGraph(cg, num_qudits). *)
Definition mm_graph (n : nat) (es : list edge) : res adj :=
  if Nat.eqb n 0 then ValueError
  else if existsb (fun e => Nat.leb n (fst e) || Nat.leb n (snd e)) es then TypeError
  else mk_graph es (Some n).

(* get_locations(block_size) = self.coupling_graph.get_subgraphs_of_size(block_size) *)
Definition mm_get_locations (n : nat) (es : list edge) (k : nat) : res (list (list nat)) :=
  match mm_graph n es with
  | Ok g => match subgraphs_of_size g k with Some r => Ok r | None => ValueError end
  | TypeError => TypeError | ValueError => ValueError | KeyError => KeyError
  end.

(* ---- get_qpu_to_qudit_map ---------------------------------------------------------------
   (node, neighbor) in self._remote_edges or (neighbor, node) in self._remote_edges *)
Definition is_remote (remote : list edge) (a b : nat) : bool := emem (a, b) remote || emem (b, a) remote.

Definition local_nbrs (g : adj) (remote : list edge) (node : nat) : list nat :=
  filter (fun nb => negb (is_remote remote node nb)) (nbrs g node).

(* while len(frontier) > 0: node = frontier.pop(); qpu.append(node); seen.add(node);
   every non-remote neighbour that is not seen goes to the frontier (a set) *)
Fixpoint qpu_loop (fuel : nat) (g : adj) (remote : list edge) (frontier qpu seen : list nat)
  : option (list nat * list nat) :=
  match fuel with
  | 0 => None
  | S f =>
    match frontier with
    | [] => Some (qpu, seen)
    | node :: rest =>
      let seen' := add node seen in
      let new := filter (fun nb => negb (mem nb seen')) (local_nbrs g remote node) in
      qpu_loop f g remote (union new rest) (qpu ++ [node]) seen'
    end
  end.

(* for qudit in range(num_qudits): if qudit in seen: continue; ... *)
Fixpoint qpu_outer (fuel : nat) (g : adj) (remote : list edge) (qudits seen : list nat) (acc : list (list nat))
  : option (list (list nat)) :=
  match qudits with
  | [] => Some acc
  | q :: t =>
    if mem q seen then qpu_outer fuel g remote t seen acc else
    match qpu_loop fuel g remote [q] [] seen with
    | None => None
    | Some (qpu, seen') => qpu_outer fuel g remote t seen' (acc ++ [qpu])
    end
  end.

(* None = fuel exhausted (proved impossible for well-formed graphs) *)
Definition qpu_to_qudit (g : adj) (remote : list edge) : option (list (list nat)) :=
  qpu_outer (S (length g)) g remote (seq 0 (length g)) [] [].

(* ---- get_qudit_to_qpu_map ---------------------------------------------------------------
   qudit_to_qpu = {}; for qpu, qudits in enumerate(qpu_to_qudit): for qudit in qudits:
   qudit_to_qpu[qudit] = qpu; return list(qudit_to_qpu.values())
   A Python dict keeps INSERTION order: an existing key keeps its place. *)
Fixpoint dict_set (k v : nat) (d : list (nat * nat)) : list (nat * nat) :=
  match d with
  | [] => [(k, v)]
  | (a, b) :: t => if Nat.eqb k a then (a, v) :: t else (a, b) :: dict_set k v t
  end.

Definition qpu_dict (qpus : list (list nat)) : list (nat * nat) :=
  fold_left (fun d iq => fold_left (fun d q => dict_set q (fst iq) d) (snd iq) d)
            (combine (seq 0 (length qpus)) qpus) [].

(* the code as written: the values in insertion order *)
Definition qudit_to_qpu_coded (qpus : list (list nat)) : list nat := map snd (qpu_dict qpus).

(* the documented meaning (and fixes/C20-F8.patch): entry q is the QPU of qudit q *)
Definition qudit_to_qpu_fixed (n : nat) (qpus : list (list nat)) : list nat :=
  map (fun q => match assoc q (qpu_dict qpus) with Some i => i | None => 0 end) (seq 0 n).

(* ---- get_qpu_connectivity ---------------------------------------------------------------
   qpu_adj[q2q[a]].add(q2q[b]); qpu_adj[q2q[b]].add(q2q[a]) for every remote edge *)
Definition qpu_connectivity (nq : nat) (q2q : list nat) (remote : list edge) : adj :=
  mk_adj nq (map (fun e => (nth (fst e) q2q 0, nth (snd e) q2q 0)) remote).

(* graph with the remote edges deleted - the specification side of the QPU theorems *)
Definition local_graph (g : adj) (remote : list edge) : adj :=
  map (local_nbrs g remote) (seq 0 (length g)).
