(* C20: CouplingGraph.is_fully_connected_without (model: Graph.is_fully_connected_without).
   For every well-formed graph with at least two vertices and every in-range qudit w the
   test answers, and answers `true` exactly when every vertex other than w is reachable,
   by a walk avoiding w, from the start vertex (0, or 1 when w = 0) - i.e. when g - w is
   connected.  The error / out-of-contract cases are stated separately. *)
From Coq Require Import List Arith Bool PeanoNat Lia.
Import ListNotations.
From BQ Require Import map.Graph map.GraphThm.

(* reachability from a in g with vertex w deleted *)
Inductive reach_wo (g : adj) (w a : nat) : nat -> Prop :=
| rw_refl : reach_wo g w a a
| rw_step b c : reach_wo g w a b -> In c (nbrs g b) -> c <> w -> reach_wo g w a c.

Definition start_wo (w : nat) : nat := if Nat.eqb w 0 then 1 else 0.
Definition allreach_wo (g : adj) (w : nat) : Prop :=
  forall v, v < length g -> v <> w -> reach_wo g w (start_wo w) v.

Lemma In_expand_wo g w f x :
  In x (expand_wo g w f) <-> x <> w /\ exists q, In q f /\ q <> w /\ In x (nbrs g q).
Proof. unfold expand_wo. induction f as [|q t IH]; simpl.
  - split; [tauto|intros (_ & q & [] & _)].
  - destruct (Nat.eqb q w) eqn:E; [apply Nat.eqb_eq in E|apply Nat.eqb_neq in E].
    + rewrite IH. split.
      * intros (H1 & q' & H2 & H3 & H4). split; auto. exists q'; auto.
      * intros (H1 & q' & [H2|H2] & H3 & H4); [congruence|]. split; auto. exists q'; auto.
    + rewrite In_union, IH, filter_In, negb_true_iff, Nat.eqb_neq. split.
      * intros [[H1 H2]|(H1 & q' & H2 & H3 & H4)]; split; auto; [exists q; auto|exists q'; auto].
      * intros (H1 & q' & [H2|H2] & H3 & H4); [subst; left; auto|right; split; auto; exists q'; auto]. Qed.

(* the vertices other than w *)
Definition others (n w : nat) : list nat := filter (fun x => negb (Nat.eqb x w)) (seq 0 n).

Lemma In_others n w x : In x (others n w) <-> x < n /\ x <> w.
Proof. unfold others. rewrite filter_In, in_seq, negb_true_iff, Nat.eqb_neq. lia. Qed.

Lemma NoDup_others n w : NoDup (others n w).
Proof. apply NoDup_filter, seq_NoDup. Qed.

Lemma length_others n w : w < n -> length (others n w) = n - 1.
Proof. intros Hw.
  assert (H : length (w :: others n w) = length (seq 0 n)).
  { apply Nat.le_antisymm; apply NoDup_incl_length.
    - constructor; [rewrite In_others; lia|apply NoDup_others].
    - intros x [<-|Hx]; apply in_seq; [lia|apply In_others in Hx; lia].
    - apply seq_NoDup.
    - intros x Hx. apply in_seq in Hx. destruct (Nat.eq_dec x w) as [->|Hne]; [left; auto|right; apply In_others; lia]. }
  simpl in H. rewrite seq_length in H. lia. Qed.

Record WInv (g : adj) (w : nat) (frontier seen : list nat) : Prop := {
  wi_nodup : NoDup seen;
  wi_seen : forall x, In x seen -> reach_wo g w (start_wo w) x /\ x < length g /\ x <> w;
  wi_front : forall x, In x frontier -> In x seen;
  wi_closed : forall x, In x seen -> ~ In x frontier -> forall y, In y (nbrs g x) -> y <> w -> In y seen;
  wi_root : In (start_wo w) seen;
  wi_notfull : frontier = [] -> length seen <> length g - 1 }.

Lemma seen_le (g : adj) (w : nat) (seen : list nat) : w < length g -> NoDup seen ->
  (forall x, In x seen -> x < length g /\ x <> w) -> length seen <= length g - 1.
Proof. intros Hw Hnd Hb. rewrite <- (length_others _ w Hw). apply NoDup_incl_length; auto.
  intros x Hx. apply In_others. auto. Qed.

Lemma wstep_inv g w frontier seen : wf g -> WInv g w frontier seen ->
  let expanded := expand_wo g w frontier in
  length (union expanded seen) <> length g - 1 ->
  WInv g w (diff expanded seen) (union expanded seen).
Proof. intros Hwf [Hnd Hs Hf Hc Hr Hnf] expanded Hlen.
  assert (Hexp : forall x, In x expanded -> reach_wo g w (start_wo w) x /\ x < length g /\ x <> w).
  { intros x Hx. apply In_expand_wo in Hx as (Hxw & q & Hq & Hqw & Hx).
    split; [|split; auto; eapply Hwf; exact Hx].
    eapply rw_step; [apply Hs, Hf; exact Hq|exact Hx|exact Hxw]. }
  constructor.
  - apply NoDup_union; auto.
  - intros x Hx. apply In_union in Hx as [Hx|Hx]; auto.
  - intros x Hx. apply In_diff in Hx as [Hx _]. apply In_union; auto.
  - intros x Hx Hnx y Hy Hyw. apply In_union.
    assert (Hxw : x <> w).
    { apply In_union in Hx as [Hx|Hx]; [apply Hexp in Hx|apply Hs in Hx]; tauto. }
    destruct (in_dec Nat.eq_dec x frontier) as [Hxf|Hxf].
    + left. apply In_expand_wo. split; auto. exists x; auto.
    + destruct (in_dec Nat.eq_dec x seen) as [Hxs|Hxs].
      * right. eapply Hc; eauto.
      * exfalso. apply Hnx. apply In_diff. split; auto.
        apply In_union in Hx as [Hx|Hx]; tauto.
  - apply In_union; auto.
  - intros _. exact Hlen. Qed.

Lemma closed_reach_wo g w s seen :
  In s seen -> (forall x, In x seen -> forall y, In y (nbrs g x) -> y <> w -> In y seen) ->
  forall v, reach_wo g w s v -> In v seen.
Proof. intros H0 Hc v Hr. induction Hr as [|b c _ IH Hin Hcw]; auto. eapply Hc; eauto. Qed.

Lemma fcw_loop_spec fuel g w : wf g -> w < length g -> forall frontier seen,
  WInv g w frontier seen -> (frontier = [] /\ fuel >= 1) \/ fuel + length seen >= length g + 2 ->
  exists b, fcw_loop fuel g (length g) w frontier seen = Some b /\ (b = true <-> allreach_wo g w).
Proof. intros Hwf Hw. induction fuel as [|f IH]; intros frontier seen HI Hfuel.
  - exfalso. destruct HI as [Hnd Hs _ _ _ _].
    pose proof (seen_le g w seen Hw Hnd (fun x H => proj2 (Hs x H))). simpl in Hfuel.
    destruct Hfuel as [[_ F]|F]; lia.
  - simpl. destruct frontier as [|q0 fr] eqn:Ef.
    + exists false. split; auto. split; [discriminate|]. intros Hall. exfalso.
      destruct HI as [Hnd Hs _ Hc Hr Hnf]. apply Hnf; auto.
      apply Nat.le_antisymm; [apply (seen_le g w); auto; intros x Hx; apply Hs; auto|].
      rewrite <- (length_others _ w Hw). apply NoDup_incl_length; [apply NoDup_others|].
      intros x Hx. apply In_others in Hx as [Hx1 Hx2].
      apply (closed_reach_wo g w (start_wo w) seen Hr); [|apply Hall; auto].
      intros y Hy z Hz Hzw. apply (Hc y Hy (fun F => F) z Hz Hzw).
    + assert (Hfuel' : S f + length seen >= length g + 2) by (destruct Hfuel as [[F _]|F]; [discriminate|exact F]).
      clear Hfuel. rewrite <- Ef in *. clear Ef q0 fr.
      destruct (Nat.eqb (length (union (expand_wo g w frontier) seen)) (length g - 1)) eqn:E.
      * apply Nat.eqb_eq in E. exists true. split; auto. split; auto. intros _ v Hv Hvw.
        destruct HI as [Hnd Hs Hf Hc Hr Hnf].
        assert (Hall : forall x, In x (union (expand_wo g w frontier) seen) ->
                                 reach_wo g w (start_wo w) x /\ x < length g /\ x <> w).
        { intros x Hx. apply In_union in Hx as [Hx|Hx]; auto.
          apply In_expand_wo in Hx as (Hxw & q & Hq & Hqw & Hx).
          split; [|split; auto; eapply Hwf; exact Hx].
          eapply rw_step; [apply Hs, Hf; exact Hq|exact Hx|exact Hxw]. }
        apply Hall.
        assert (Hincl : incl (others (length g) w) (union (expand_wo g w frontier) seen)).
        { apply NoDup_length_incl; [apply NoDup_union; auto|rewrite length_others by auto; lia|].
          intros x Hx. apply In_others. apply Hall; auto. }
        apply Hincl. apply In_others; auto.
      * apply Nat.eqb_neq in E. pose proof (wstep_inv g w frontier seen Hwf HI E) as HI'.
        apply IH; auto.
        destruct (diff (expand_wo g w frontier) seen) as [|x r] eqn:Ed.
        -- left. split; auto.
           destruct HI' as [Hnd' Hs' _ _ _ _].
           pose proof (seen_le g w _ Hw Hnd' (fun x H => proj2 (Hs' x H))).
           destruct HI as [Hnd Hs _ _ _ _].
           assert (length seen <= length (union (expand_wo g w frontier) seen)).
           { apply NoDup_incl_length; auto. intros y Hy. apply In_union; auto. }
           lia.
        -- assert (Hx : In x (diff (expand_wo g w frontier) seen)) by (rewrite Ed; left; auto).
           apply In_diff in Hx as [Hx1 Hx2].
           destruct HI as [Hnd Hs _ _ _ _].
           assert (S (length seen) <= length (union (expand_wo g w frontier) seen)).
           { change (S (length seen)) with (length (x :: seen)).
             apply NoDup_incl_length; [constructor; auto|].
             intros y [<-|Hy]; apply In_union; auto. }
           right. lia. Qed.

Lemma winit_inv g w : 2 <= length g -> WInv g w [start_wo w] [start_wo w].
Proof. intros Hn. constructor.
  - constructor; [simpl; tauto|constructor].
  - intros x [<-|[]]. split; [constructor|]. unfold start_wo. destruct (Nat.eqb w 0) eqn:E;
      [apply Nat.eqb_eq in E|apply Nat.eqb_neq in E]; lia.
  - intros x Hx. exact Hx.
  - intros x Hx Hnx. contradiction.
  - left; reflexivity.
  - discriminate. Qed.

(* g - w is connected <-> the test says so; it always answers on in-contract inputs *)
Theorem is_fully_connected_without_spec g w :
  wf g -> 2 <= length g -> w < length g ->
  exists b, is_fully_connected_without g w = Some b /\ (b = true <-> allreach_wo g w).
Proof. intros Hwf Hn Hw. unfold is_fully_connected_without.
  fold (start_wo w).
  assert (Hs : start_wo w < length g) by (unfold start_wo; destruct (Nat.eqb w 0); lia).
  destruct (Nat.leb (length g) (start_wo w)) eqn:E; [apply Nat.leb_le in E; lia|].
  apply fcw_loop_spec; auto; [apply winit_inv; auto|right; simpl; lia]. Qed.

(* error cases of the code: get_neighbors_of(start) is an IndexError when the start
   vertex does not exist (empty graph; or one vertex and qudit = 0) *)
Theorem is_fully_connected_without_raises g w :
  length g <= start_wo w -> is_fully_connected_without g w = None.
Proof. intros H. unfold is_fully_connected_without. fold (start_wo w).
  apply Nat.leb_le in H. rewrite H. reflexivity. Qed.

(* one vertex, qudit <> 0: the loop runs dry and the code answers False *)
Theorem is_fully_connected_without_single w : w <> 0 -> is_fully_connected_without [[]] w = Some false.
Proof. intros H. destruct w as [|w]; [congruence|]. reflexivity. Qed.

(* out-of-contract qudit (>= num_qudits): nothing is removed but the test still compares
   the number of seen vertices with n - 1 after each sweep, so the answer depends on the
   breadth-first layer sizes and is NOT connectivity: two connected graphs, two answers *)
Example is_fully_connected_without_out_of_range :
  is_fully_connected_without [[1];[0;2];[1]] 5 = Some true /\
  is_fully_connected_without [[1;2;3];[0];[0];[0]] 7 = Some false.
Proof. split; reflexivity. Qed.
