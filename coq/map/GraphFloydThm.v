(* Correctness of the in-place Floyd-Warshall of bqskit/qis/graph.py
   (all_pairs_shortest_path) as modelled by Graph.floyd: minimum walk weights,
   agreement with the textbook recurrence, the diagonal convention, and a
   counterexample for the wrong loop nesting. *)
From Coq Require Import List Arith Bool PeanoNat Lia.
Import ListNotations.
From BQ Require Import map.Graph map.GraphThm map.GraphFloyd.

Definition shape (n : nat) (D : mat) : Prop := length D = n /\ Forall (fun r => length r = n) D.

(* weight, in matrix D, of the walk i -> l1 -> ... -> lm -> j (m >= 0
   intermediate vertices, m+1 edges); None if some step is not an edge *)
Fixpoint wt (D : mat) (i : nat) (l : list nat) (j : nat) : w :=
  match l with [] => mget D i j | v :: t => wadd (mget D i v) (wt D v t j) end.

Definition wle (a b : w) : Prop :=
  match a, b with Some x, Some y => x <= y | Some _, None => True | None, Some _ => False | None, None => True end.

(* v is the minimum weight over all walks with at least one edge from i to j
   whose intermediate vertices are all < k (None = there is no such walk) *)
Definition is_min_walk (D0 : mat) (k i j : nat) (v : w) : Prop :=
  (forall l, Forall (fun x => x < k) l -> wle v (wt D0 i l j)) /\
  (match v with None => True | Some d => exists l, Forall (fun x => x < k) l /\ wt D0 i l j = Some d end).

(* ---- set_nth / mget / mset ------------------------------------------------ *)
Lemma set_nth_length {A} n (f : A -> A) l : length (set_nth n f l) = length l.
Proof. revert n; induction l as [|x t IH]; intros [|n]; simpl; auto. Qed.

Lemma nth_set_nth_same {A} n (f : A -> A) l d :
  n < length l -> nth n (set_nth n f l) d = f (nth n l d).
Proof.
  revert n; induction l as [|x t IH]; intros [|n] H; simpl in *; try lia; auto.
  apply IH; lia.
Qed.

Lemma nth_set_nth_other {A} n m (f : A -> A) l d :
  n <> m -> nth m (set_nth n f l) d = nth m l d.
Proof.
  revert n m; induction l as [|x t IH]; intros [|n] [|m] H; simpl; auto.
  congruence.
Qed.

Lemma Forall_set_nth {A} (P : A -> Prop) n f l :
  (forall x, P x -> P (f x)) -> Forall P l -> Forall P (set_nth n f l).
Proof.
  intros Hf. revert n; induction l as [|x t IH]; intros [|n] H; simpl; auto;
    inversion H as [|? ? Hx Ht]; subst; constructor; auto.
Qed.

Lemma shape_row n D i : shape n D -> i < n -> length (nth i D []) = n.
Proof.
  intros [HL HF] Hi. rewrite Forall_forall in HF. apply HF. apply nth_In. lia.
Qed.

Lemma mget_mset_same n D i j v :
  shape n D -> i < n -> j < n -> mget (mset D i j v) i j = v.
Proof.
  intros HS Hi Hj. unfold mget, mset.
  rewrite nth_set_nth_same by (destruct HS; lia).
  rewrite nth_set_nth_same by (rewrite (shape_row n D i HS Hi); lia).
  reflexivity.
Qed.

Lemma mget_mset_other n D i j v a b :
  shape n D -> i < n -> (a <> i \/ b <> j) -> mget (mset D i j v) a b = mget D a b.
Proof.
  intros HS Hi H. unfold mget, mset.
  destruct (Nat.eq_dec i a) as [<-|Hia].
  - destruct H as [H|H]; [congruence|].
    rewrite nth_set_nth_same by (destruct HS; lia).
    apply nth_set_nth_other. congruence.
  - rewrite nth_set_nth_other by exact Hia. reflexivity.
Qed.

Lemma shape_mset n D i j v : shape n D -> shape n (mset D i j v).
Proof.
  intros [HL HF]. split; unfold mset.
  - rewrite set_nth_length; exact HL.
  - apply Forall_set_nth; [|exact HF].
    intros r Hr. rewrite set_nth_length. exact Hr.
Qed.

Lemma fold_left_inv {A B} (P : A -> Prop) (f : A -> B -> A) l :
  (forall a x, P a -> P (f a x)) -> forall a, P a -> P (fold_left f l a).
Proof. intros Hf. induction l as [|x t IH]; intros a Ha; simpl; auto. Qed.

Lemma shape_fw_j n k i D j : shape n D -> shape n (fw_j k i D j).
Proof. intros H. unfold fw_j. apply shape_mset; exact H. Qed.

Lemma shape_fw_i n k D i : shape n D -> shape n (fw_i n k D i).
Proof.
  intros H. unfold fw_i. apply fold_left_inv; [|exact H].
  intros a x Ha. apply shape_fw_j; exact Ha.
Qed.

Lemma shape_fw_k n D k : shape n D -> shape n (fw_k n D k).
Proof.
  intros H. unfold fw_k. apply fold_left_inv; [|exact H].
  intros a x Ha. apply shape_fw_i; exact Ha.
Qed.

Theorem floyd_shape n D0 : shape n D0 -> shape n (floyd n D0).
Proof.
  intros H. unfold floyd. apply fold_left_inv; [|exact H].
  intros a x Ha. apply shape_fw_k; exact Ha.
Qed.

(* ---- weights --------------------------------------------------------------- *)
Lemma wadd_assoc a b c : wadd a (wadd b c) = wadd (wadd a b) c.
Proof. destruct a, b, c; simpl; auto. f_equal; lia. Qed.

Lemma wt_app D l1 : forall i v l2 j,
  wt D i (l1 ++ v :: l2) j = wadd (wt D i l1 v) (wt D v l2 j).
Proof.
  induction l1 as [|x t IH]; intros i v l2 j; simpl; auto.
  rewrite IH. apply wadd_assoc.
Qed.

Lemma wle_refl a : wle a a.
Proof. destruct a; simpl; auto. Qed.

Lemma wle_trans a b c : wle a b -> wle b c -> wle a c.
Proof. destruct a, b, c; simpl; intros H1 H2; auto; try contradiction; lia. Qed.

Lemma wle_None a : wle a None.
Proof. destruct a; simpl; auto. Qed.

Lemma wle_antisym a b : wle a b -> wle b a -> a = b.
Proof. destruct a, b; simpl; intros H1 H2; auto; try contradiction. f_equal; lia. Qed.

Lemma wle_wmin_l a b : wle (wmin a b) a.
Proof. destruct a, b; simpl; auto; lia. Qed.

Lemma wle_wmin_r a b : wle (wmin a b) b.
Proof. destruct a, b; simpl; auto; lia. Qed.

Lemma wmin_cases a b : wmin a b = a \/ wmin a b = b.
Proof.
  destruct a as [x|], b as [y|]; simpl; auto.
  destruct (Nat.min_spec x y) as [[_ H]|[_ H]]; rewrite H; auto.
Qed.

Lemma wadd_mono a a' b b' : wle a a' -> wle b b' -> wle (wadd a b) (wadd a' b').
Proof.
  destruct a, a', b, b'; simpl; intros H1 H2; auto; try contradiction; lia.
Qed.

Lemma wle_wadd_r a b : wle b (wadd a b).
Proof. destruct a, b; simpl; auto; lia. Qed.

(* ---- splitting a walk at the first / last occurrence of k ------------------ *)
Lemma split_first k l :
  Forall (fun x => x < S k) l ->
  Forall (fun x => x < k) l \/
  exists l1 l2, l = l1 ++ k :: l2 /\ Forall (fun x => x < k) l1 /\ Forall (fun x => x < S k) l2.
Proof.
  induction l as [|x t IH]; intros H.
  - left; constructor.
  - inversion H as [|? ? Hx Ht]; subst.
    destruct (Nat.eq_dec x k) as [->|Hne].
    + right. exists [], t. repeat split; auto.
    + destruct (IH Ht) as [Hall|(l1 & l2 & -> & H1 & H2)].
      * left. constructor; [lia|exact Hall].
      * right. exists (x :: l1), l2. repeat split; auto.
        constructor; [lia|exact H1].
Qed.

Lemma split_last k l :
  Forall (fun x => x < S k) l ->
  Forall (fun x => x < k) l \/
  exists l1 l2, l = l1 ++ k :: l2 /\ Forall (fun x => x < k) l2.
Proof.
  induction l as [|x t IH]; intros H.
  - left; constructor.
  - inversion H as [|? ? Hx Ht]; subst.
    destruct (IH Ht) as [Hall|(l1 & l2 & -> & H2)].
    + destruct (Nat.eq_dec x k) as [->|Hne].
      * right. exists [], t. split; auto.
      * left. constructor; [lia|exact Hall].
    + right. exists (x :: l1), l2. split; auto.
Qed.

(* ---- the two halves of is_min_walk ---------------------------------------- *)
Definition opt (D0 : mat) (k i j : nat) (v : w) : Prop :=
  forall l, Forall (fun x => x < k) l -> wle v (wt D0 i l j).

Definition sound (D0 : mat) (k i j : nat) (v : w) : Prop :=
  match v with
  | None => True
  | Some d => exists l, Forall (fun x => x < k) l /\ wt D0 i l j = Some d
  end.

Lemma is_min_walk_iff D0 k i j v : is_min_walk D0 k i j v <-> opt D0 k i j v /\ sound D0 k i j v.
Proof. unfold is_min_walk, opt, sound. tauto. Qed.

Lemma Forall_lt_S k (l : list nat) : Forall (fun x => x < k) l -> Forall (fun x => x < S k) l.
Proof. apply Forall_impl. intros a Ha. lia. Qed.

Lemma sound_mono D0 k i j v : sound D0 k i j v -> sound D0 (S k) i j v.
Proof.
  unfold sound. destruct v as [d|]; auto.
  intros (l & Hl & Hw). exists l. split; [apply Forall_lt_S; exact Hl|exact Hw].
Qed.

Lemma opt_anti D0 k i j v : opt D0 (S k) i j v -> opt D0 k i j v.
Proof. intros H l Hl. apply H. apply Forall_lt_S; exact Hl. Qed.

(* walks k -> j through vertices <= k are no lighter than walks through < k *)
Lemma opt_from_k D0 k j v :
  opt D0 k k j v -> forall l, Forall (fun x => x < S k) l -> wle v (wt D0 k l j).
Proof.
  intros HO l Hl. destruct (split_last k l Hl) as [Hall|(l1 & l2 & -> & H2)].
  - apply HO; exact Hall.
  - rewrite wt_app. eapply wle_trans; [apply HO; exact H2|apply wle_wadd_r].
Qed.

Lemma relax_opt D0 k i j vij vik vkj :
  opt D0 k i j vij -> opt D0 k i k vik -> opt D0 k k j vkj ->
  opt D0 (S k) i j (wmin vij (wadd vik vkj)).
Proof.
  intros Oij Oik Okj l Hl.
  destruct (split_first k l Hl) as [Hall|(l1 & l2 & -> & H1 & H2)].
  - eapply wle_trans; [apply wle_wmin_l|apply Oij; exact Hall].
  - rewrite wt_app. eapply wle_trans; [apply wle_wmin_r|].
    apply wadd_mono; [apply Oik; exact H1|apply opt_from_k; assumption].
Qed.

Lemma relax_sound D0 k i j vij vik vkj :
  sound D0 (S k) i j vij -> sound D0 (S k) i k vik -> sound D0 (S k) k j vkj ->
  sound D0 (S k) i j (wmin vij (wadd vik vkj)).
Proof.
  intros Sij Sik Skj.
  destruct (wmin_cases vij (wadd vik vkj)) as [->| ->]; [exact Sij|].
  destruct vik as [x|], vkj as [y|]; simpl; auto.
  destruct Sik as (l1 & Hl1 & Hw1). destruct Skj as (l2 & Hl2 & Hw2).
  exists (l1 ++ k :: l2). split.
  - apply Forall_app. split; [exact Hl1|]. constructor; [lia|exact Hl2].
  - rewrite wt_app, Hw1, Hw2. reflexivity.
Qed.

(* ---- one phase k of the in-place loop -------------------------------------- *)
Section Phase.
  Variables (n : nat) (D0 : mat) (k : nat).
  Hypothesis Hk : k < n.

  Definition lexlt (a b i j : nat) : Prop := a < i \/ (a = i /\ b < j).

  (* state before processing entry (i, j) of phase k *)
  Definition Inv (D : mat) (i j : nat) : Prop :=
    shape n D /\
    forall a b, a < n -> b < n ->
      sound D0 (S k) a b (mget D a b) /\
      opt D0 k a b (mget D a b) /\
      (lexlt a b i j -> opt D0 (S k) a b (mget D a b)).

  Lemma step_j D i j : i < n -> j < n -> Inv D i j -> Inv (fw_j k i D j) i (S j).
  Proof.
    intros Hi Hj [HS HI]. split; [apply shape_fw_j; exact HS|].
    intros a b Ha Hb. unfold fw_j.
    destruct (Nat.eq_dec a i) as [->|Hai]; [destruct (Nat.eq_dec b j) as [->|Hbj]|].
    - rewrite (mget_mset_same n) by assumption.
      destruct (HI i j Hi Hj) as (S1 & O1 & _).
      destruct (HI i k Hi Hk) as (S2 & O2 & _).
      destruct (HI k j Hk Hj) as (S3 & O3 & _).
      split; [|split].
      + apply relax_sound; assumption.
      + apply opt_anti. apply relax_opt; assumption.
      + intros _. apply relax_opt; assumption.
    - rewrite (mget_mset_other n) by (try assumption; right; exact Hbj).
      destruct (HI i b Hi Hb) as (S1 & O1 & L1).
      split; [exact S1|split; [exact O1|]].
      intros HL. apply L1. unfold lexlt in *. lia.
    - rewrite (mget_mset_other n) by (try assumption; left; exact Hai).
      destruct (HI a b Ha Hb) as (S1 & O1 & L1).
      split; [exact S1|split; [exact O1|]].
      intros HL. apply L1. unfold lexlt in *. lia.
  Qed.

  Lemma loop_j D i : i < n -> Inv D i 0 ->
    forall j, j <= n -> Inv (fold_left (fw_j k i) (seq 0 j) D) i j.
  Proof.
    intros Hi H0. induction j as [|j IH]; intros Hj.
    - exact H0.
    - rewrite seq_S, fold_left_app. simpl. apply step_j; try lia. apply IH. lia.
  Qed.

  Lemma Inv_next_row D i : Inv D i n -> Inv D (S i) 0.
  Proof.
    intros [HS HI]. split; [exact HS|].
    intros a b Ha Hb. destruct (HI a b Ha Hb) as (S1 & O1 & L1).
    split; [exact S1|split; [exact O1|]].
    intros HL. apply L1. unfold lexlt in *. lia.
  Qed.

  Lemma loop_i D : Inv D 0 0 ->
    forall i, i <= n -> Inv (fold_left (fw_i n k) (seq 0 i) D) i 0.
  Proof.
    intros H0. induction i as [|i IH]; intros Hi.
    - exact H0.
    - rewrite seq_S, fold_left_app. simpl. apply Inv_next_row.
      unfold fw_i. apply loop_j; try lia. apply IH. lia.
  Qed.
End Phase.

Definition all_min (D0 : mat) (n k : nat) (D : mat) : Prop :=
  shape n D /\ forall a b, a < n -> b < n -> is_min_walk D0 k a b (mget D a b).

Lemma phase_inplace n D0 k D : k < n -> all_min D0 n k D -> all_min D0 n (S k) (fw_k n D k).
Proof.
  intros Hk [HS HP].
  assert (H0 : Inv n D0 k D 0 0).
  { split; [exact HS|]. intros a b Ha Hb.
    destruct (HP a b Ha Hb) as [HO HSd].
    split; [apply sound_mono; exact HSd|split; [exact HO|]].
    unfold lexlt. intros HL. lia. }
  destruct (loop_i n D0 k Hk D H0 n (le_n n)) as [HS' HI'].
  split; [exact HS'|].
  intros a b Ha Hb. destruct (HI' a b Ha Hb) as (S1 & _ & L1).
  split; [|exact S1]. apply L1. unfold lexlt. lia.
Qed.

Lemma all_min_0 n D0 : shape n D0 -> all_min D0 n 0 D0.
Proof.
  intros HS. split; [exact HS|]. intros a b Ha Hb. split.
  - intros l Hl. destruct l as [|x t].
    + apply wle_refl.
    + inversion Hl as [|? ? Hx Ht]; subst. lia.
  - destruct (mget D0 a b) as [d|] eqn:E; auto.
    exists []. split; [constructor|exact E].
Qed.

Lemma prefix_inplace n D0 : shape n D0 ->
  forall k, k <= n -> all_min D0 n k (fold_left (fw_k n) (seq 0 k) D0).
Proof.
  intros HS. induction k as [|k IH]; intros Hk.
  - apply all_min_0; exact HS.
  - rewrite seq_S, fold_left_app. simpl. apply phase_inplace; [lia|]. apply IH. lia.
Qed.

(* classical invariant, for the IN-PLACE loop as modelled *)
Theorem floyd_prefix_spec n D0 k : shape n D0 -> k <= n -> forall i j, i < n -> j < n ->
  is_min_walk D0 k i j (mget (fold_left (fw_k n) (seq 0 k) D0) i j).
Proof.
  intros HS Hk i j Hi Hj.
  destruct (prefix_inplace n D0 HS k Hk) as [_ HP]. apply HP; assumption.
Qed.

Theorem floyd_spec n D0 : shape n D0 -> forall i j, i < n -> j < n ->
  is_min_walk D0 n i j (mget (floyd n D0) i j).
Proof.
  intros HS i j Hi Hj. unfold floyd. apply floyd_prefix_spec; auto.
Qed.

(* vertices >= n contribute None because mget is None out of range *)
Lemma mget_out_col n D i v : shape n D -> n <= v -> mget D i v = None.
Proof.
  intros HS Hv. unfold mget.
  destruct (Nat.lt_ge_cases i n) as [Hi|Hi].
  - apply nth_overflow. rewrite (shape_row n D i HS Hi). exact Hv.
  - rewrite (nth_overflow D) by (destruct HS; lia). destruct v; reflexivity.
Qed.

Lemma wt_in_range_or_None n D l : shape n D ->
  forall i j, Forall (fun x => x < n) l \/ wt D i l j = None.
Proof.
  intros HS. induction l as [|v t IH]; intros i j.
  - left; constructor.
  - simpl. destruct (Nat.lt_ge_cases v n) as [Hv|Hv].
    + destruct (IH v j) as [Hall|HN].
      * left. constructor; assumption.
      * right. rewrite HN. destruct (mget D i v); reflexivity.
    + right. rewrite (mget_out_col n D i v HS Hv). reflexivity.
Qed.

(* minimum over ALL walks *)
Theorem floyd_all_walks n D0 : shape n D0 -> forall i j, i < n -> j < n ->
  forall l, wle (mget (floyd n D0) i j) (wt D0 i l j).
Proof.
  intros HS i j Hi Hj l.
  destruct (wt_in_range_or_None n D0 l HS i j) as [Hall|HN].
  - destruct (floyd_spec n D0 HS i j Hi Hj) as [HO _]. apply HO; exact Hall.
  - rewrite HN. apply wle_None.
Qed.

(* ---- the textbook recurrence ------------------------------------------------ *)
Lemma nth_map_seq {A} (f : nat -> A) n i d : i < n -> nth i (map f (seq 0 n)) d = f i.
Proof.
  intros Hi. rewrite (nth_indep _ d (f 0)) by (rewrite map_length, seq_length; exact Hi).
  rewrite map_nth, seq_nth by exact Hi. reflexivity.
Qed.

Lemma mget_fw_ref_step n D k i j : i < n -> j < n ->
  mget (fw_ref_step n D k) i j = wmin (mget D i j) (wadd (mget D i k) (mget D k j)).
Proof.
  intros Hi Hj. unfold mget at 1, fw_ref_step.
  rewrite (nth_map_seq _ n i) by exact Hi.
  rewrite (nth_map_seq _ n j) by exact Hj. reflexivity.
Qed.

Lemma shape_fw_ref_step n D k : shape n (fw_ref_step n D k).
Proof.
  unfold fw_ref_step. split.
  - rewrite map_length, seq_length. reflexivity.
  - apply Forall_forall. intros r Hr. apply in_map_iff in Hr.
    destruct Hr as (i & <- & _). rewrite map_length, seq_length. reflexivity.
Qed.

Lemma phase_ref n D0 k D : k < n -> all_min D0 n k D -> all_min D0 n (S k) (fw_ref_step n D k).
Proof.
  intros Hk [HS HP]. split; [apply shape_fw_ref_step|].
  intros a b Ha Hb. rewrite mget_fw_ref_step by assumption.
  destruct (HP a b Ha Hb) as [O1 S1].
  destruct (HP a k Ha Hk) as [O2 S2].
  destruct (HP k b Hk Hb) as [O3 S3].
  split.
  - apply relax_opt; assumption.
  - apply relax_sound; apply sound_mono; assumption.
Qed.

Lemma prefix_ref n D0 : shape n D0 ->
  forall k, k <= n -> all_min D0 n k (fold_left (fw_ref_step n) (seq 0 k) D0).
Proof.
  intros HS. induction k as [|k IH]; intros Hk.
  - apply all_min_0; exact HS.
  - rewrite seq_S, fold_left_app. simpl. apply phase_ref; [lia|]. apply IH. lia.
Qed.

Theorem floyd_ref_spec n D0 : shape n D0 -> forall i j, i < n -> j < n ->
  is_min_walk D0 n i j (mget (floyd_ref n D0) i j).
Proof.
  intros HS i j Hi Hj. unfold floyd_ref.
  destruct (prefix_ref n D0 HS n (le_n n)) as [_ HP]. apply HP; assumption.
Qed.

Lemma is_min_walk_unique D0 k i j v1 v2 :
  is_min_walk D0 k i j v1 -> is_min_walk D0 k i j v2 -> v1 = v2.
Proof.
  intros [O1 S1] [O2 S2]. apply wle_antisym.
  - destruct v2 as [d2|]; [|apply wle_None].
    destruct S2 as (l & Hl & Hw). rewrite <- Hw. apply O1; exact Hl.
  - destruct v1 as [d1|]; [|apply wle_None].
    destruct S1 as (l & Hl & Hw). rewrite <- Hw. apply O2; exact Hl.
Qed.

Lemma shape_ext n A B : shape n A -> shape n B ->
  (forall i j, i < n -> j < n -> mget A i j = mget B i j) -> A = B.
Proof.
  intros HA HB H. apply (nth_ext A B [] []).
  - destruct HA, HB; congruence.
  - intros i Hi. assert (Hin : i < n) by (destruct HA; lia).
    pose proof (shape_row n A i HA Hin) as RA.
    pose proof (shape_row n B i HB Hin) as RB.
    apply (nth_ext _ _ None None).
    + exact (eq_trans RA (eq_sym RB)).
    + intros j Hj. assert (Hjn : j < n) by (rewrite <- RA; exact Hj).
      apply (H i j Hin Hjn).
Qed.

Lemma floyd_ref_shape n D0 : shape n D0 -> shape n (floyd_ref n D0).
Proof.
  intros HS. destruct (prefix_ref n D0 HS n (le_n n)) as [H _]. exact H.
Qed.

(* in-place = textbook *)
Theorem floyd_inplace_eq_ref n D0 : shape n D0 -> floyd n D0 = floyd_ref n D0.
Proof.
  intros HS. apply (shape_ext n).
  - apply floyd_shape; exact HS.
  - apply floyd_ref_shape; exact HS.
  - intros i j Hi Hj. apply (is_min_walk_unique D0 n i j).
    + apply floyd_spec; assumption.
    + apply floyd_ref_spec; assumption.
Qed.

(* ---- the diagonal convention of the code ------------------------------------ *)
Lemma shape_unit_mat g : shape (length g) (unit_mat g).
Proof.
  unfold unit_mat. split.
  - apply map_length.
  - apply Forall_forall. intros r Hr. apply in_map_iff in Hr.
    destruct Hr as (ns & <- & _). rewrite map_length, seq_length. reflexivity.
Qed.

Lemma mget_unit_mat g a b : a < length g -> b < length g ->
  mget (unit_mat g) a b = if mem b (nbrs g a) then Some 1 else None.
Proof.
  intros Ha Hb. unfold mget, unit_mat, nbrs.
  set (F := fun ns : list nat => map (fun j => if mem j ns then Some 1 else None) (seq 0 (length g))).
  rewrite (nth_indep (map F g) [] (F [])) by (rewrite map_length; exact Ha).
  rewrite (map_nth F g [] a). unfold F.
  rewrite (nth_map_seq _ (length g) b) by exact Hb. reflexivity.
Qed.

Lemma mget_unit_mat_Some g a b d : mget (unit_mat g) a b = Some d ->
  d = 1 /\ a < length g /\ b < length g /\ In b (nbrs g a).
Proof.
  intros H.
  destruct (Nat.lt_ge_cases b (length g)) as [Hb|Hb].
  2:{ rewrite (mget_out_col (length g) _ a b (shape_unit_mat g) Hb) in H. discriminate. }
  destruct (Nat.lt_ge_cases a (length g)) as [Ha|Ha].
  2:{ unfold mget in H. rewrite (nth_overflow (unit_mat g)) in H
        by (unfold unit_mat; rewrite map_length; exact Ha).
      destruct b; discriminate. }
  rewrite (mget_unit_mat g a b Ha Hb) in H.
  destruct (mem b (nbrs g a)) eqn:E; [|discriminate].
  apply mem_In in E. split; [congruence|auto].
Qed.

Lemma wt_unit_mat_pos g l : forall a b d, wt (unit_mat g) a l b = Some d -> 1 <= d.
Proof.
  induction l as [|v t IH]; intros a b d H; simpl in H.
  - apply mget_unit_mat_Some in H. destruct H as [Hd _]. lia.
  - destruct (mget (unit_mat g) a v) as [x|] eqn:E1; [|discriminate].
    destruct (wt (unit_mat g) v t b) as [y|] eqn:E2; [|discriminate].
    apply IH in E2. simpl in H. inversion H; subst. lia.
Qed.

(* NO zero diagonal: D[i][i] is the least weight of a closed walk with >= 1 edge
   through i *)
Theorem floyd_diag_unit g i : wf g -> sym g -> loopfree g -> i < length g ->
  mget (floyd (length g) (unit_mat g)) i i = (match nbrs g i with [] => None | _ => Some 2 end).
Proof.
  intros Hwf Hsym Hlf Hi.
  apply (is_min_walk_unique (unit_mat g) (length g) i i).
  { apply floyd_spec; [apply shape_unit_mat|exact Hi|exact Hi]. }
  destruct (nbrs g i) as [|v ns] eqn:EN.
  - split; [|exact I]. intros l _.
    destruct (wt (unit_mat g) i l i) as [d|] eqn:E; [|exact I].
    exfalso. destruct l as [|x t]; simpl in E.
    + apply mget_unit_mat_Some in E. rewrite EN in E. destruct E as (_ & _ & _ & []).
    + destruct (mget (unit_mat g) i x) as [y|] eqn:E1; [|discriminate].
      apply mget_unit_mat_Some in E1. rewrite EN in E1. destruct E1 as (_ & _ & _ & []).
  - assert (Hv : In v (nbrs g i)) by (rewrite EN; left; reflexivity).
    assert (Hvn : v < length g) by (apply (Hwf i v Hv)).
    assert (Hiv : In i (nbrs g v)) by (apply Hsym; exact Hv).
    split.
    + intros l _.
      destruct (wt (unit_mat g) i l i) as [d|] eqn:E; [|exact I].
      simpl. destruct l as [|x t]; simpl in E.
      * apply mget_unit_mat_Some in E. destruct E as (_ & _ & _ & E).
        exfalso. exact (Hlf i E).
      * destruct (mget (unit_mat g) i x) as [y|] eqn:E1; [|discriminate].
        destruct (wt (unit_mat g) x t i) as [z|] eqn:E2; [|discriminate].
        apply mget_unit_mat_Some in E1. destruct E1 as [Hy _].
        apply wt_unit_mat_pos in E2.
        simpl in E. inversion E; subst. lia.
    + exists [v]. split; [constructor; [exact Hvn|constructor]|].
      simpl. rewrite (mget_unit_mat g i v Hi Hvn), (mget_unit_mat g v i Hvn Hi).
      apply mem_In in Hv. apply mem_In in Hiv. rewrite Hv, Hiv. reflexivity.
Qed.

(* the wrong loop nesting i,j,k is NOT Floyd-Warshall: on the path 0-2-3-1 it
   never finds the distance 0 -> 1 *)
Example fw_ijk_wrong : exists D0, shape 4 D0 /\ fw_ijk 4 D0 <> floyd 4 D0.
Proof.
  exists (unit_mat (mk_adj 4 [(0,2);(2,3);(3,1)])). split.
  - split; [reflexivity|]. vm_compute. repeat constructor.
  - intros H. vm_compute in H. discriminate H.
Qed.
