(* Proofs about map/GraphQpu.v: MachineModel on an edge list, QPU maps of CouplingGraph. *)
From Coq Require Import List Arith Bool PeanoNat Lia Sorted.
Import ListNotations.
From BQ Require Import map.Graph map.GraphThm map.GraphExt map.GraphCtorThm map.GraphSubThm map.GraphQpu.

(* ---- MachineModel ------------------------------------------------------------------- *)
Lemma range_false n (es : list edge) :
  existsb (fun e => Nat.leb n (fst e) || Nat.leb n (snd e)) es = false <-> edges_ok n es.
Proof.
  unfold edges_ok. split.
  - intros H e He. destruct (Nat.leb n (fst e) || Nat.leb n (snd e)) eqn:E.
    + assert (existsb (fun e => Nat.leb n (fst e) || Nat.leb n (snd e)) es = true)
        by (apply existsb_exists; exists e; auto). congruence.
    + apply orb_false_iff in E. destruct E as [E1 E2].
      apply Nat.leb_gt in E1. apply Nat.leb_gt in E2. lia.
  - intros H. match goal with |- ?x = false => destruct x eqn:E end; auto.
    apply existsb_exists in E. destruct E as (e & He & E). apply H in He.
    apply orb_true_iff in E. destruct E as [E|E]; apply Nat.leb_le in E; lia.
Qed.

Theorem mm_graph_ok n es g : mm_graph n es = Ok g ->
  0 < n /\ edges_ok n es /\ (forall a, ~ In (a, a) es) /\
  wf g /\ sym g /\ loopfree g /\ nodup_adj g /\ length g = n /\
  forall x y, In x (nbrs g y) <-> (In (x, y) es \/ In (y, x) es).
Proof.
  unfold mm_graph. destruct (Nat.eqb n 0) eqn:E0; [discriminate|]. apply Nat.eqb_neq in E0.
  match goal with |- context [existsb ?ff es] => destruct (existsb ff es) eqn:E1 end; [discriminate|]. apply range_false in E1.
  intros H. split; [lia|]. split; [exact E1|]. split.
  - intros a Ha. assert (T : mk_graph es (Some n) = TypeError) by (apply mk_graph_type_error; eauto). congruence.
  - apply mk_graph_ok in H. tauto.
Qed.

Theorem mm_graph_accepts n es : 0 < n -> edges_ok n es -> (forall a, ~ In (a, a) es) ->
  exists g, mm_graph n es = Ok g.
Proof.
  intros Hn Hok Hl. unfold mm_graph. destruct (Nat.eqb n 0) eqn:E0; [apply Nat.eqb_eq in E0; lia|].
  rewrite (proj2 (range_false n es) Hok).
  unfold mk_graph. match goal with |- context [existsb ?ff es] => destruct (existsb ff es) eqn:E end.
  - apply loops_true in E. destruct E as (a & Ha). destruct (Hl a Ha).
  - cbv zeta. assert (L : infer_n es <= n) by (apply infer_n_least; auto).
    apply Nat.ltb_ge in L. rewrite L. eauto.
Qed.

Theorem mm_graph_errors n es :
  (mm_graph n es = ValueError <-> n = 0) /\
  (mm_graph n es = TypeError <-> (n <> 0 /\ (~ edges_ok n es \/ exists a, In (a, a) es))).
Proof.
  unfold mm_graph. destruct (Nat.eqb n 0) eqn:E0.
  - apply Nat.eqb_eq in E0. split; split; auto; try discriminate. intros [H _]. congruence.
  - apply Nat.eqb_neq in E0. match goal with |- context [existsb ?ff es] => destruct (existsb ff es) eqn:E1 end.
    + split; split; try discriminate; try congruence. intros _. split; auto. left. intros Hok.
      apply range_false in Hok. congruence.
    + assert (Hok := proj1 (range_false n es) E1). split.
      * split; [|congruence]. intros H. apply mk_graph_value_error in H.
        destruct H as (_ & m & Hm & Hlt). injection Hm as <-.
        assert (infer_n es <= n) by (apply infer_n_least; auto; lia). lia.
      * rewrite mk_graph_type_error. split.
        -- intros H. split; auto.
        -- intros [_ [H|H]]; [contradiction|exact H].
Qed.

Theorem mm_get_locations_spec n es k res : mm_get_locations n es k = Ok res ->
  exists g, mm_graph n es = Ok g /\ length g = n /\
    (forall x y, In x (nbrs g y) <-> (In (x, y) es \/ In (y, x) es)) /\
    NoDup res /\ forall l, In l res <-> conn_k_subset g k l.
Proof.
  unfold mm_get_locations. destruct (mm_graph n es) as [g| | |] eqn:G; try discriminate.
  destruct (subgraphs_of_size g k) as [r|] eqn:S; [|discriminate].
  intros H. injection H as <-. exists g. apply mm_graph_ok in G.
  destruct G as (_ & _ & _ & Hwf & Hsym & _ & _ & Hlen & Hadj).
  split; [reflexivity|]. split; [exact Hlen|]. split; [exact Hadj|]. split.
  - eapply subgraphs_nodup; eauto.
  - eapply subgraphs_spec; eauto.
Qed.

Theorem mm_get_locations_value_error n es k g : mm_graph n es = Ok g ->
  (mm_get_locations n es k = ValueError <-> (k = 0 \/ n < k)).
Proof.
  intros G. unfold mm_get_locations. rewrite G.
  assert (Hlen : length g = n) by (apply mm_graph_ok in G; tauto).
  rewrite <- Hlen. rewrite <- subgraphs_error.
  destruct (subgraphs_of_size g k); split; congruence.
Qed.

(* ---- the graph without its remote edges ------------------------------------------------ *)
From BQ Require Import map.GraphEmbedThm.

Lemma nbrs_local g remote x : nbrs (local_graph g remote) x = local_nbrs g remote x.
Proof.
  unfold local_graph, nbrs at 1. destruct (Nat.lt_ge_cases x (length g)) as [H|H].
  - rewrite (nth_indep _ [] (local_nbrs g remote 0)) by (rewrite map_length, seq_length; exact H).
    rewrite map_nth. rewrite seq_nth by exact H. reflexivity.
  - rewrite nth_overflow by (rewrite map_length, seq_length; exact H).
    unfold local_nbrs, nbrs. rewrite (nth_overflow g) by exact H. reflexivity.
Qed.

Lemma local_graph_length g remote : length (local_graph g remote) = length g.
Proof. unfold local_graph. rewrite map_length, seq_length. reflexivity. Qed.

Theorem local_graph_spec g remote x y :
  In y (nbrs (local_graph g remote) x) <->
  (In y (nbrs g x) /\ ~ In (x, y) remote /\ ~ In (y, x) remote).
Proof.
  rewrite nbrs_local. unfold local_nbrs, is_remote. rewrite filter_In, negb_true_iff, orb_false_iff.
  rewrite <- !emem_In.
  destruct (emem (x, y) remote), (emem (y, x) remote); intuition congruence.
Qed.

Lemma local_wf g remote : wf g -> wf (local_graph g remote).
Proof. intros H q x Hx. rewrite local_graph_length. apply local_graph_spec in Hx. eapply H. apply Hx. Qed.

Lemma local_sym g remote : sym g -> sym (local_graph g remote).
Proof. intros H a b Hab. apply local_graph_spec in Hab. apply local_graph_spec.
  destruct Hab as (H1 & H2 & H3). auto. Qed.

(* ---- inner search ---------------------------------------------------------------------- *)
Record QInv (L : adj) (seen0 : list nat) (root : nat) (frontier qpu seen : list nat) : Prop := {
  q_seen : forall x, In x seen <-> (In x seen0 \/ In x qpu);
  q_nd_f : NoDup frontier;
  q_nd_q : NoDup qpu;
  q_disj_f : forall x, In x frontier -> ~ In x seen;
  q_disj_q : forall x, In x qpu -> ~ In x seen0;
  q_reach : forall x, In x frontier \/ In x qpu -> reach L root x;
  q_closed : forall x, In x qpu -> forall y, In y (nbrs L x) -> In y seen \/ In y frontier;
  q_root : In root qpu \/ In root frontier;
  q_bound : forall x, In x frontier -> x < length L }.

Lemma add_notin x s : ~ In x s -> add x s = x :: s.
Proof. intros H. unfold add. apply mem_false in H. rewrite H. reflexivity. Qed.

Lemma NoDup_app_intro_single (l : list nat) x : NoDup l -> ~ In x l -> NoDup (l ++ [x]).
Proof. induction l as [|y t IH]; simpl; intros Hn Hx.
  - constructor; auto.
  - inversion Hn; subst. constructor.
    + rewrite in_app_iff. simpl. intuition.
    + apply IH; auto. Qed.

Lemma qstep L seen0 root node rest qpu seen : wf L ->
  QInv L seen0 root (node :: rest) qpu seen ->
  QInv L seen0 root
    (union (filter (fun nb => negb (mem nb (add node seen))) (nbrs L node)) rest)
    (qpu ++ [node]) (add node seen).
Proof.
  intros Hwf I. destruct I as [Hs Hnf Hnq Hdf Hdq Hr Hc Hroot Hb].
  assert (Hn : ~ In node seen) by (apply Hdf; left; reflexivity).
  inversion Hnf as [|? ? Hnr Hndr]; subst.
  assert (Hnew : forall x, In x (filter (fun nb => negb (mem nb (add node seen))) (nbrs L node)) <->
                 (In x (nbrs L node) /\ x <> node /\ ~ In x seen)).
  { intros x. rewrite filter_In, negb_true_iff, mem_false, In_add. tauto. }
  constructor.
  - intros x. rewrite In_add, in_app_iff, Hs. simpl. intuition.
  - apply NoDup_union. exact Hndr.
  - apply NoDup_app_intro_single; auto. intros Hq. apply Hn. apply Hs. auto.
  - intros x Hx. rewrite In_union, Hnew in Hx. rewrite In_add. intros [->|Hin].
    + destruct Hx as [(_ & Hx & _)|Hx]; [congruence|contradiction].
    + destruct Hx as [(_ & _ & Hx)|Hx]; [contradiction|]. apply (Hdf x); [right; exact Hx|exact Hin].
  - intros x Hx. apply in_app_iff in Hx. destruct Hx as [Hx|[<-|[]]]; [apply Hdq; exact Hx|].
    intros H0. apply Hn. apply Hs. auto.
  - intros x Hx. rewrite In_union, Hnew, in_app_iff in Hx. simpl in Hx.
    destruct Hx as [[(Hx & _)|Hx]|[Hx|[<-|[]]]].
    + eapply reach_step; [apply Hr; left; left; reflexivity|exact Hx].
    + apply Hr. left. right. exact Hx.
    + apply Hr. right. exact Hx.
    + apply Hr. left. left. reflexivity.
  - intros x Hx y Hy. rewrite In_add, In_union, Hnew. apply in_app_iff in Hx.
    destruct Hx as [Hx|[<-|[]]].
    + destruct (Hc x Hx y Hy) as [H1|[H1|H1]]; auto.
    + destruct (Nat.eq_dec y node) as [->|Hne]; auto.
      destruct (in_dec Nat.eq_dec y seen) as [Hi|Hi]; auto.
  - rewrite in_app_iff, In_union. simpl. destruct Hroot as [H1|[H1|H1]]; auto.
  - intros x Hx. rewrite In_union, Hnew in Hx. destruct Hx as [(Hx & _)|Hx].
    + eapply Hwf. exact Hx.
    + apply Hb. right. exact Hx.
Qed.

Lemma qpu_loop_spec g remote seen0 root : wf g ->
  forall fuel frontier qpu seen,
  QInv (local_graph g remote) seen0 root frontier qpu seen -> NoDup seen ->
  (forall x, In x seen -> x < length g) -> length g - length seen < fuel ->
  exists qpu' seen', qpu_loop fuel g remote frontier qpu seen = Some (qpu', seen') /\
    QInv (local_graph g remote) seen0 root [] qpu' seen' /\ NoDup seen' /\
    (forall x, In x seen' -> x < length g).
Proof.
  intros Hwf. induction fuel as [|f IH]; intros frontier qpu seen I Hnd Hb Hf; [lia|].
  destruct frontier as [|node rest].
  - exists qpu, seen. simpl. auto.
  - simpl. rewrite <- nbrs_local.
    assert (Hn : ~ In node seen) by (apply (q_disj_f _ _ _ _ _ _ I); left; reflexivity).
    assert (Hnb : node < length g).
    { rewrite <- (local_graph_length g remote). apply (q_bound _ _ _ _ _ _ I). left. reflexivity. }
    assert (Hnd' : NoDup (node :: seen)) by (constructor; auto).
    assert (Hb' : forall x, In x (node :: seen) -> x < length g) by (intros x [<-|Hx]; auto).
    assert (Hle := length_le_n g (node :: seen) Hnd' Hb'). simpl in Hle.
    apply IH.
    + apply qstep; [apply local_wf; exact Hwf|exact I].
    + apply NoDup_add. exact Hnd.
    + intros x Hx. apply In_add in Hx. destruct Hx as [->|Hx]; auto.
    + rewrite add_notin by exact Hn. simpl. lia.
Qed.

Lemma qinv_final L seen0 root qpu seen : sym L ->
  (forall x, In x seen0 -> forall y, In y (nbrs L x) -> In y seen0) ->
  QInv L seen0 root [] qpu seen ->
  (forall v, In v qpu <-> reach L root v) /\
  (forall x, In x seen -> forall y, In y (nbrs L x) -> In y seen).
Proof.
  intros Hsym Hc0 I. destruct I as [Hs _ _ _ Hdq Hr Hc Hroot _].
  assert (Hroot' : In root qpu) by (destruct Hroot as [H|[]]; exact H).
  assert (Hcq : forall x, In x qpu -> forall y, In y (nbrs L x) -> In y qpu).
  { intros x Hx y Hy. destruct (Hc x Hx y Hy) as [H|[]]. apply Hs in H. destruct H as [H|H]; [|exact H].
    exfalso. apply (Hdq x Hx). apply (Hc0 y H). apply Hsym. exact Hy. }
  split.
  - intros v. split; [intros H; apply Hr; auto|].
    intros H. induction H as [|b c _ IH Hin]; [exact Hroot'|]. eapply Hcq; eauto.
  - intros x Hx y Hy. apply Hs. apply Hs in Hx. destruct Hx as [Hx|Hx]; [left; eapply Hc0; eauto|].
    right. eapply Hcq; eauto.
Qed.

Record OInv (L : adj) (n : nat) (seen : list nat) (acc : list (list nat)) : Prop := {
  o_nd : NoDup seen;
  o_b : forall x, In x seen -> x < n;
  o_cat : forall x, In x seen <-> In x (concat acc);
  o_ndc : NoDup (concat acc);
  o_closed : forall x, In x seen -> forall y, In y (nbrs L x) -> In y seen;
  o_comp : forall Q, In Q acc -> exists r, In r Q /\ forall v, In v Q <-> reach L r v }.

Lemma NoDup_app_disj (a b : list nat) : NoDup a -> NoDup b -> (forall x, In x b -> ~ In x a) -> NoDup (a ++ b).
Proof. induction a as [|y t IH]; simpl; intros Ha Hb Hd; auto.
  inversion Ha; subst. constructor.
  - rewrite in_app_iff. intros [H|H]; [contradiction|]. apply (Hd y H). left. reflexivity.
  - apply IH; auto. intros x Hx Hi. apply (Hd x Hx). right. exact Hi. Qed.

Lemma qpu_outer_spec g remote : wf g -> sym g ->
  forall qudits seen acc,
  (forall q, In q qudits -> q < length g) -> OInv (local_graph g remote) (length g) seen acc ->
  exists qpus seen', qpu_outer (S (length g)) g remote qudits seen acc = Some qpus /\
    OInv (local_graph g remote) (length g) seen' qpus /\
    (forall x, In x seen -> In x seen') /\ (forall q, In q qudits -> In q seen').
Proof.
  intros Hwf Hsym. induction qudits as [|q t IH]; intros seen acc Hq O.
  - exists acc, seen. simpl. intuition.
  - cbn [qpu_outer]. destruct (mem q seen) eqn:E.
    + apply mem_In in E. destruct (IH seen acc) as (qpus & seen' & H1 & H2 & H3 & H4); auto.
      { intros x Hx. apply Hq. right. exact Hx. }
      exists qpus, seen'. split; [exact H1|]. split; [exact H2|]. split; [exact H3|].
      intros x [<-|Hx]; auto.
    + apply mem_false in E. destruct O as [Ond Ob Ocat Ondc Ocl Ocomp].
      assert (I0 : QInv (local_graph g remote) seen q [q] [] seen).
      { constructor; simpl; try tauto.
        - repeat constructor. simpl. tauto.
        - constructor.
        - intros x [<-|[]]. exact E.
        - intros x [[<-|[]]|[]]. constructor.
        - intros x [<-|[]]. rewrite local_graph_length. apply Hq. left. reflexivity. }
      destruct (qpu_loop_spec g remote seen q Hwf (S (length g)) [q] [] seen I0 Ond Ob) as (qpu' & seen1 & L1 & I1 & Nd1 & B1); [lia|].
      rewrite L1.
      destruct (qinv_final _ _ _ _ _ (local_sym g remote Hsym) Ocl I1) as [Hcomp Hcl1].
      assert (O1 : OInv (local_graph g remote) (length g) seen1 (acc ++ [qpu'])).
      { assert (Hcat : concat (acc ++ [qpu']) = concat acc ++ qpu') by (rewrite concat_app; simpl; rewrite app_nil_r; reflexivity).
        constructor; auto.
        - intros x. rewrite Hcat, in_app_iff, <- Ocat. apply (q_seen _ _ _ _ _ _ I1).
        - rewrite Hcat. apply NoDup_app_disj; auto.
          + apply (q_nd_q _ _ _ _ _ _ I1).
          + intros x Hx Hi. apply Ocat in Hi. exact (q_disj_q _ _ _ _ _ _ I1 x Hx Hi).
        - intros Q HQ. apply in_app_iff in HQ. destruct HQ as [HQ|[<-|[]]]; [apply Ocomp; exact HQ|].
          exists q. split; [apply Hcomp; constructor|exact Hcomp]. }
      destruct (IH seen1 (acc ++ [qpu'])) as (qpus & seen' & H1 & H2 & H3 & H4); auto.
      { intros x Hx. apply Hq. right. exact Hx. }
      exists qpus, seen'. split; [exact H1|]. split; [exact H2|].
      assert (Hinc : forall x, In x seen -> In x seen1).
      { intros x Hx. apply (q_seen _ _ _ _ _ _ I1). left. exact Hx. }
      split; [intros x Hx; apply H3; apply Hinc; exact Hx|].
      intros x [<-|Hx]; [|apply H4; exact Hx].
      apply H3. apply (q_seen _ _ _ _ _ _ I1). right. apply Hcomp. constructor.
Qed.

(* get_qpu_to_qudit_map: for every well-formed undirected graph and every remote-edge set the
   QPUs partition the qudits and each QPU is a connected component of the graph without
   its remote edges *)
Theorem qpu_to_qudit_spec g remote : wf g -> sym g ->
  exists qpus, qpu_to_qudit g remote = Some qpus /\
    NoDup (concat qpus) /\ (forall v, In v (concat qpus) <-> v < length g) /\
    forall Q, In Q qpus -> exists r, In r Q /\ forall v, In v Q <-> reach (local_graph g remote) r v.
Proof.
  intros Hwf Hsym. unfold qpu_to_qudit.
  destruct (qpu_outer_spec g remote Hwf Hsym (seq 0 (length g)) [] []) as (qpus & seen' & H1 & H2 & _ & H4).
  - intros q Hq. apply in_seq in Hq. lia.
  - constructor; simpl; try tauto; constructor.
  - exists qpus. split; [exact H1|]. destruct H2 as [Ond Ob Ocat Ondc Ocl Ocomp].
    split; [exact Ondc|]. split; [|exact Ocomp].
    intros v. rewrite <- Ocat. split; [apply Ob|]. intros Hv. apply H4. apply in_seq. lia.
Qed.

(* ---- get_qudit_to_qpu_map ---------------------------------------------------------------- *)
Definition pairs_from (k : nat) (qpus : list (list nat)) : list (nat * nat) :=
  flat_map (fun iq => map (fun q => (q, fst iq)) (snd iq)) (combine (seq k (length qpus)) qpus).

Lemma dict_set_new k v d : ~ In k (map fst d) -> dict_set k v d = d ++ [(k, v)].
Proof. induction d as [|[a b] t IH]; simpl; intros H; auto.
  destruct (Nat.eqb k a) eqn:E; [apply Nat.eqb_eq in E; subst; tauto|]. rewrite IH; auto. Qed.

Lemma NoDup_app_inv (a b : list nat) : NoDup (a ++ b) ->
  NoDup a /\ NoDup b /\ forall x, In x a -> ~ In x b.
Proof. induction a as [|y t IH]; simpl; intros H.
  - split; [constructor|]. split; [exact H|]. intros x [].
  - inversion H; subst. destruct (IH H3) as (H4 & H5 & H6). split.
    + constructor; auto. intros Hi. apply H2. apply in_app_iff. auto.
    + split; [exact H5|]. intros x [<-|Hx]; [|apply H6; exact Hx].
      intros Hi. apply H2. apply in_app_iff. auto. Qed.

Lemma dict_fold_new i : forall qs d, NoDup qs -> (forall q, In q qs -> ~ In q (map fst d)) ->
  fold_left (fun d q => dict_set q i d) qs d = d ++ map (fun q => (q, i)) qs.
Proof. induction qs as [|q t IH]; intros d Hn Hd; simpl; [rewrite app_nil_r; reflexivity|].
  inversion Hn; subst.
  rewrite dict_set_new by (apply Hd; left; reflexivity). rewrite IH; auto.
  - rewrite <- app_assoc. reflexivity.
  - intros x Hx. rewrite map_app, in_app_iff. simpl. intros [Hi|[<-|[]]]; [|contradiction].
    apply (Hd x); [right; exact Hx|exact Hi].
Qed.

Lemma map_fst_pairs (i : nat) (Q : list nat) : map fst (map (fun q => (q, i)) Q) = Q.
Proof. rewrite map_map. simpl. apply map_id. Qed.

Lemma qpu_dict_gen : forall qpus k d, NoDup (concat qpus) ->
  (forall q, In q (concat qpus) -> ~ In q (map fst d)) ->
  fold_left (fun d iq => fold_left (fun d q => dict_set q (fst iq) d) (snd iq) d)
            (combine (seq k (length qpus)) qpus) d = d ++ pairs_from k qpus.
Proof. induction qpus as [|Q t IH]; intros k d Hn Hd; simpl; [rewrite app_nil_r; reflexivity|].
  simpl in Hn. destruct (NoDup_app_inv _ _ Hn) as (HQ & Ht & Hdis).
  rewrite dict_fold_new; auto.
  - rewrite IH; auto.
    + unfold pairs_from. simpl. rewrite <- app_assoc. reflexivity.
    + intros x Hx. rewrite map_app, in_app_iff, map_fst_pairs. intros [Hi|Hi].
      * apply (Hd x); [simpl; apply in_app_iff; auto|exact Hi].
      * exact (Hdis x Hi Hx).
  - intros x Hx. apply Hd. simpl. apply in_app_iff. auto.
Qed.

Lemma qpu_dict_pairs qpus : NoDup (concat qpus) -> qpu_dict qpus = pairs_from 0 qpus.
Proof. intros H. unfold qpu_dict. rewrite qpu_dict_gen; auto. Qed.

Lemma map_fst_pairs_from : forall qpus k, map fst (pairs_from k qpus) = concat qpus.
Proof. induction qpus as [|Q t IH]; intros k; [reflexivity|].
  unfold pairs_from. simpl. rewrite map_app, map_fst_pairs. f_equal. apply IH. Qed.

Lemma In_pairs_from : forall qpus k q i, In (q, i) (pairs_from k qpus) ->
  k <= i /\ i < k + length qpus /\ In q (nth (i - k) qpus []).
Proof. induction qpus as [|Q t IH]; intros k q i H; [destruct H|].
  unfold pairs_from in H. simpl in H. apply in_app_iff in H. destruct H as [H|H].
  - apply in_map_iff in H. destruct H as (x & Hx & Hin). injection Hx as -> <-.
    rewrite Nat.sub_diag. simpl. split; [lia|]. split; [lia|exact Hin].
  - apply IH in H. destruct H as (H1 & H2 & H3). simpl. split; [lia|]. split; [lia|].
    replace (i - k) with (S (i - S k)) by lia. exact H3.
Qed.

Lemma assoc_In k d v : assoc k d = Some v -> In (k, v) d.
Proof. induction d as [|[a b] t IH]; simpl; [discriminate|].
  destruct (Nat.eqb k a) eqn:E; [apply Nat.eqb_eq in E; subst; intros H; injection H as ->; auto|auto]. Qed.

Lemma assoc_some k d : In k (map fst d) -> exists v, assoc k d = Some v.
Proof. induction d as [|[a b] t IH]; simpl; [tauto|].
  destruct (Nat.eqb k a) eqn:E; [eauto|]. apply Nat.eqb_neq in E. intros [H|H]; [congruence|auto]. Qed.

(* the repaired function: entry q is the index of the (unique) QPU that contains qudit q *)
Theorem qudit_to_qpu_fixed_spec n qpus : NoDup (concat qpus) -> (forall v, In v (concat qpus) <-> v < n) ->
  length (qudit_to_qpu_fixed n qpus) = n /\
  forall q, q < n -> let i := nth q (qudit_to_qpu_fixed n qpus) 0 in
    i < length qpus /\ In q (nth i qpus []).
Proof.
  intros Hn Hall. unfold qudit_to_qpu_fixed. split; [rewrite map_length, seq_length; reflexivity|].
  intros q Hq. cbv zeta.
  set (f := fun q => match assoc q (qpu_dict qpus) with Some i => i | None => 0 end).
  rewrite (nth_indep _ 0 (f 0)) by (rewrite map_length, seq_length; exact Hq).
  rewrite map_nth, seq_nth by exact Hq. simpl. unfold f.
  rewrite qpu_dict_pairs by exact Hn.
  destruct (assoc_some q (pairs_from 0 qpus)) as (i & Hi).
  { rewrite map_fst_pairs_from. apply Hall. exact Hq. }
  rewrite Hi. apply assoc_In, In_pairs_from in Hi. rewrite Nat.sub_0_r in Hi. simpl in Hi. tauto.
Qed.

Lemma assoc_map_fst : forall d, NoDup (map fst d) ->
  map (fun q => match assoc q d with Some i => i | None => 0 end) (map fst d) = map snd d.
Proof. induction d as [|[a b] t IH]; simpl; intros H; [reflexivity|].
  inversion H; subst. rewrite Nat.eqb_refl. f_equal. rewrite <- IH by assumption.
  apply map_ext_in. intros x Hx. destruct (Nat.eqb x a) eqn:E; [|reflexivity].
  apply Nat.eqb_eq in E. subst. contradiction. Qed.

(* the code as written is right exactly in the situation its tests exercise: every QPU a
   contiguous block of qudit labels, discovered in ascending order *)
Theorem qudit_to_qpu_coded_contiguous n qpus : concat qpus = seq 0 n ->
  qudit_to_qpu_coded qpus = qudit_to_qpu_fixed n qpus.
Proof.
  intros H. assert (Hn : NoDup (concat qpus)) by (rewrite H; apply seq_NoDup).
  unfold qudit_to_qpu_coded, qudit_to_qpu_fixed. rewrite <- H, <- (map_fst_pairs_from qpus 0).
  rewrite qpu_dict_pairs by exact Hn. symmetry. apply assoc_map_fst.
  rewrite map_fst_pairs_from. exact Hn.
Qed.

(* ... and wrong otherwise: two QPUs {0,2} and {1,3} joined by the remote edge (0,1) - the
   code answers [0;0;1;1], i.e. claims qudit 1 is on QPU 0 (known finding C20-F8) *)
Theorem qudit_to_qpu_coded_refuted :
  exists g remote qpus, wf g /\ sym g /\ qpu_to_qudit g remote = Some qpus /\
    exists q, q < length g /\ ~ In q (nth (nth q (qudit_to_qpu_coded qpus) 0) qpus []).
Proof.
  exists [[2; 1]; [3; 0]; [0]; [1]], [(0, 1)], [[0; 2]; [1; 3]].
  split; [|split; [|split; [reflexivity|]]].
  - intros q x. destruct q as [|[|[|[|q]]]]; simpl; intuition (subst; auto with arith); destruct q; contradiction.
  - intros a b. destruct b as [|[|[|[|b]]]]; simpl; intuition (subst; simpl; auto); destruct b; contradiction.
  - exists 1. split; [simpl; lia|]. vm_compute. intuition discriminate.
Qed.
